#!/bin/sh
# Build the framework from files on disk only (offline).  Run once after a fresh restore.
set -e
HERE="$(cd "$(dirname "$0")" && pwd)"
cd "$HERE"
/venv/bin/python -c "
import sys; sys.path.insert(0, '$HERE')
from harness import extract
extract.write_tables('/repo', '$HERE/lean/QV/Gen/Tables.lean')"
cd lean
lake build QV qvdriver
