#!/usr/bin/env python3
"""Regenerate the tables of DESIGN.md sections 7.4 (repaired defects), 7.5 (open findings) and 7.7
(seeded changes) from /repo's history, known_findings.json and seeded/*/meta.json.  Only the text between the
`<!-- begin generated -->` / `<!-- end generated -->` markers of each section is replaced."""
import json, os, re, subprocess, sys
ROOT = os.path.dirname(os.path.dirname(os.path.abspath(__file__)))
REPO = os.environ.get("QV_REPO", "/repo")
kf = json.load(open(os.path.join(ROOT, "known_findings.json")))["findings"]
by_commit = {}
for f in kf:
    if f["status"] == "fixed":
        by_commit.setdefault(f["commit"], set()).add(f["property"])
log = subprocess.run(["git", "-C", REPO, "log", "--reverse", "--format=%h %s"], capture_output=True, text=True).stdout
rows = []
for line in log.splitlines():
    h, s = line.split(" ", 1)
    if not s.startswith("fix:"):
        continue
    props = set()
    for c, ps in by_commit.items():
        if h.startswith(c) or c.startswith(h):
            props |= ps
    for f in kf:
        if f["status"] == "fixed" and h[:7] in (f.get("record") or ""):
            props.add(f["property"])
    rows.append(f"| {h} | {', '.join(sorted(props)) or '(follow-up)'} | {s[4:].strip()} |")
t74 = "| commit | property | repair |\n|---|---|---|\n" + "\n".join(rows) + "\n"
t75 = ""
for f in kf:
    if f["status"] == "open":
        what = f["what"].replace("\n", " ")
        t75 += f"* `{f['id']}` ({f['site']}): {what[:400]}\n"
if not t75:
    t75 = "(none)\n"
t77 = subprocess.run([sys.executable, os.path.join(ROOT, "tools", "gen_seeded_table.py")], capture_output=True, text=True).stdout

def put(doc, heading_re, table):
    m = re.search(heading_re, doc, re.M)
    assert m, heading_re
    b = doc.index("<!-- begin generated -->", m.end())
    e = doc.index("<!-- end generated -->", b)
    return doc[:b] + "<!-- begin generated -->\n" + table + doc[e:]

p = os.path.join(ROOT, "DESIGN.md")
doc = open(p).read()
doc = put(doc, r"^### 7\.4 .*$", t74)
doc = put(doc, r"^### 7\.5 .*$", t75)
doc = put(doc, r"^### 7\.7 .*$", t77)
open(p, "w").write(doc)
print(f"7.4: {len(rows)} fix commits; 7.5: {t75.count(chr(10))} open; 7.7: {t77.count(chr(10)) - 2} seeded")
