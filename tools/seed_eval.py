#!/usr/bin/env python3
"""Evaluate a seeded change delivered by a mutant sub-agent.
usage: seed_eval.py <PID> <outdir> <k> [extra props...]
 - scratch copy of /repo, apply change<k>.diff
 - demo<k>.py must exit 0 on the clean copy and non-zero on the changed one
 - the baseline suite must still pass on the changed copy
 - run ./check <PID> (and extra props) with QV_REPO=<changed copy>; record what was reported
 - store under /verif/seeded/<PID>-<k>/"""
import json, os, re, shutil, subprocess, sys, time

pid, outdir, k = sys.argv[1], sys.argv[2], sys.argv[3]
props = [pid] + sys.argv[4:]
tag = os.environ.get("SEED_TAG", "")
work = f"/tmp/seedeval/{pid}-{tag}{k}"
shutil.rmtree(work, ignore_errors=True)
os.makedirs(work)
clean, mut = work + "/clean", work + "/mut"
for d in (clean, mut):
    subprocess.run(["cp", "-r", "/repo", d], check=True)
    shutil.rmtree(d + "/.git", ignore_errors=True)
diff = f"{outdir}/change{k}.diff"
r = subprocess.run(["patch", "-p1", "-d", mut, "-i", diff], capture_output=True, text=True)
if r.returncode != 0:
    print("PATCH FAILED", r.stdout, r.stderr); sys.exit(2)
def demo(repo):
    r = subprocess.run(["/venv/bin/python", f"{outdir}/demo{k}.py"], cwd=repo, env=dict(os.environ, PYTHONPATH=repo),
                       capture_output=True, text=True, timeout=1200)
    return r.returncode, (r.stdout + r.stderr)[-600:]
c_rc, c_out = demo(clean)
m_rc, m_out = demo(mut)
print(f"demo clean rc={c_rc} mutated rc={m_rc}")
b = subprocess.run(["python3", "/verif/tools/run_baseline.py"], env=dict(os.environ, QV_REPO=mut), capture_output=True, text=True)
print("baseline on mutated:", b.stdout.strip().split("\n")[0], "rc", b.returncode)
results = {}
for p in props:
    t0 = time.time()
    r = subprocess.run(["./check", p], cwd="/verif", env=dict(os.environ, QV_REPO=mut), capture_output=True, text=True)
    viol = [l for l in r.stdout.split("\n") if l.startswith("VIOLATION")]
    summ = [l for l in r.stderr.split("\n") if l.startswith(f"[{p}]")]
    rep = None
    if viol:
        path = viol[0].split("replay=")[1].split()[0]
        try:
            rp = json.load(open(path))
            first = rp.get("first") or {}
            rep = dict(kind=rp.get("kind"), what=first.get("what"), case=json.dumps(first.get("case"))[:400],
                       broken=rp.get("broken"), disagreements=len(rp.get("correspondence_disagreements") or []))
        except Exception as e:
            rep = dict(error=str(e))
    results[p] = dict(exit=r.returncode, violation=viol[0] if viol else None, replay=rep, summary=summ[-1] if summ else None,
                      wall_s=round(time.time() - t0, 1))
    print(p, "exit", r.returncode, viol[0] if viol else "", (rep or {}).get("what"))
meta_in = json.load(open(f"{outdir}/meta.json"))
ch = meta_in["changes"][int(k) - 1]
dst = f"/verif/seeded/{pid}-{tag}{k}"
os.makedirs(dst, exist_ok=True)
shutil.copy(diff, dst + "/patch.diff")
shutil.copy(f"{outdir}/demo{k}.py", dst + "/demo.py")
for extra in os.listdir(outdir):  # helper modules the demo imports from its own directory
    if extra.endswith(".py") and not re.fullmatch(r"demo\d+\.py", extra):
        shutil.copy(f"{outdir}/{extra}", dst + "/" + extra)
meta = dict(property=pid, what=ch.get("what"), needs_to_manifest=ch.get("needs_to_manifest"),
            confirmed=dict(demo_exit_clean=c_rc, demo_exit_changed=m_rc, demo_output_changed=m_out[-300:],
                           baseline_passes_with_change=(b.returncode == 0), baseline_line=b.stdout.strip().split("\n")[0]),
            ran=[f"QV_REPO=<scratch copy with patch.diff applied> ./check {p}" for p in props],
            checks=results,
            caught_by=[p for p in props if results[p]["exit"] == 1],
            with_failing_input=[p for p in props if results[p]["exit"] == 1 and "no-failing-input-found" not in (results[p]["violation"] or "")])
json.dump(meta, open(dst + "/meta.json", "w"), indent=1)
shutil.rmtree(work, ignore_errors=True)
# regenerate tables for the real repo
subprocess.run(["/venv/bin/python", "-c", "import sys; sys.path.insert(0,'/verif'); from harness import extract; extract.write_tables('/repo','/verif/lean/QV/Gen/Tables.lean')"])
