#!/usr/bin/env python3
"""Run the repository's pinned test suite (guard off) and compare with /root/.vp/BASELINE.json:
every test listed under stable_pass must pass.  Exit 0 iff so."""
import json, os, subprocess, sys, tempfile
import xml.etree.ElementTree as ET

base = json.load(open("/root/.vp/BASELINE.json"))
out = tempfile.mkdtemp(prefix="qvbase")
xml = os.path.join(out, "junit.xml")
env = dict(os.environ)
env.pop("QLASSKIT_VERIF", None)
cmd = base["cmd"].replace("<file>", xml)
repo = os.environ.get("QV_REPO")
if repo:  # the author's own mutation tests on a scratch copy
    cmd = cmd.replace("cd /repo", f"cd {repo}")
    env["PYTHONPATH"] = repo
r = subprocess.run(cmd, shell=True, env=env, capture_output=True, text=True)
passed = set()
for tc in ET.parse(xml).getroot().iter("testcase"):
    ok = not any(ch.tag in ("failure", "error", "skipped") for ch in tc)
    if ok:
        passed.add(f"{tc.get('classname')}::{tc.get('name')}")
missing = [t for t in base["stable_pass"] if t not in passed]
print(f"stable_pass={len(base['stable_pass'])} passed_now={len(passed)} missing={len(missing)}")
for t in missing[:20]:
    print("  NOT PASSING:", t)
import shutil; shutil.rmtree(out, ignore_errors=True)
sys.exit(1 if missing else 0)
