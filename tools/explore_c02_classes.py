#!/venv/bin/python
"""Exploration aid for the widened C02 fragment classes (model only, every admissible sequence of
ancilla choices).  Generates definition lists of a class, runs the Lean compiler model through the
driver following EVERY admissible choice of `get_free_ancilla` (depth-first over the free set, capped),
and reports instances whose model output is not `valid`, or where a qubit left in the free set is
non-zero on some input.

usage: tools/explore_c02_classes.py CLASS N [SEED]      CLASS in a | b | c | bc
"""
from __future__ import annotations

import itertools
import json
import os
import random
import re
import subprocess
import sys

HERE = os.path.dirname(os.path.dirname(os.path.abspath(__file__)))
DRIVER = os.path.join(HERE, "lean", ".lake", "build", "bin", "qvdriver")
SENT = 999999


def drive(reqs):
    data = "\n".join(json.dumps(r, separators=(",", ":")) for r in reqs) + "\n"
    r = subprocess.run([DRIVER], input=data, capture_output=True, text=True)
    assert r.returncode == 0, r.stderr[-500:]
    return [json.loads(l) for l in r.stdout.split("\n") if l.strip()]


def all_runs_many(progs, unc, cap=24):
    """progs: list of (inputs, defs, rets).  Every admissible choice sequence (up to cap per program),
    all programs advanced together: one driver call per level.  -> list (per program) of (choices, reply)"""
    done = [[] for _ in progs]
    frontier = [(i, []) for i in range(len(progs))]
    while frontier:
        reqs = [dict(op="comp.compile", inputs=progs[i][0], exprs=progs[i][1], ret=progs[i][2], uncompute=unc,
                     choices=cs + [SENT], validate=True) for i, cs in frontier]
        reps = drive(reqs)
        nxt = []
        count = {}
        for (i, cs), rep in zip(frontier, reps):
            err = rep.get("error")
            if err is None:
                done[i].append((cs, rep))
                continue
            m = re.match(r"model: new ancilla (\d+) but logged choice", err)
            if m:
                nxt.append((i, cs + [int(m.group(1))]))
                continue
            m = re.match(r"model: logged choice \d+ not in the free set \[(.*)\]", err)
            if m:
                opts = [int(x) for x in m.group(1).split(",") if x.strip()]
                pick = sorted(set([opts[0], opts[-1], opts[len(opts) // 2]]))
                for o in pick:
                    if count.get(i, 0) < cap:
                        count[i] = count.get(i, 0) + 1
                        nxt.append((i, cs + [o]))
                continue
            done[i].append((cs, rep))
        frontier = nxt
    return done


def run_gates(gs, st):
    for g in gs:
        c, w = g["c"], g["w"]
        if c in ("X", "CX", "CCX", "MCX") or (c == "MCtrl" and g.get("g") == "X"):
            if all(st[i] for i in w[:-1]):
                st[w[-1]] = not st[w[-1]]
    return st


# ------------------------------------------------------------------ generators

def comp_subs(e, acc):
    if e[0] == "sym" or e[0] in ("tt", "ff"):
        return
    acc.append(json.dumps(e))
    for a in e[1:]:
        if isinstance(a, list):
            comp_subs(a, acc)


ORMODE = "any"   # any | small (<= 2 arguments) | compound (wide Or only over compound arguments)


def is_leaf(e):
    return e[0] in ("sym", "tt", "ff")


def gen_tree(rng, leaves, depth, consts=False, top=True, in_xor=False):
    if depth <= 0 or (not top and rng.random() < 0.3):
        if consts and not in_xor and rng.random() < 0.25:
            return [rng.choice(["tt", "ff"])]
        return ["sym", rng.choice(leaves)]
    op = rng.choice(["not", "and", "or", "xor", "and", "or", "xor"])
    if op == "not":
        # `Not const` directly under Xor is outside every class (compile_xor takes the constant qubit as accumulator)
        return ["not", gen_tree(rng, leaves, depth - 1, consts, False, in_xor)]
    n = rng.choice([1, 2, 2, 2, 3, 3, 4])
    if op == "xor":
        return ["xor"] + [gen_tree(rng, leaves, depth - 1, consts, False, True) for _ in range(n)]
    if op == "or" and ORMODE == "small":
        n = min(n, 2)
    args = [gen_tree(rng, leaves, depth - 1, consts, False, False) for _ in range(n)]
    if op == "or" and ORMODE == "compound" and n > 2 and any(is_leaf(a) for a in args):
        if depth - 1 <= 0:
            args = args[:2]
        else:
            args = [a if not is_leaf(a) else ["not", a] if a[0] == "sym" else ["and", ["sym", rng.choice(leaves)], a] for a in args]
    return [op] + args


def distinct_all(defs):
    acc = []
    for _, e in defs:
        comp_subs(e, acc)
    return len(acc) == len(set(acc))


def gen_program(rng, cls):
    n = rng.randint(2, 4)
    inputs = [f"v{i}" for i in range(n)]
    while True:
        if cls == "a":
            defs = [["_ret", gen_tree(rng, inputs, rng.randint(0, 3), consts=True)]]
            rets = ["_ret"]
        elif cls == "b":
            k = rng.randint(2, 4)
            rets = [f"_ret.{i}" for i in range(k)]
            defs = [[r, gen_tree(rng, inputs, rng.randint(0, 3), consts=rng.random() < 0.3)] for r in rets]
        elif cls in ("c", "c1"):
            # straight-line programs: named intermediates (never `__…`), later definitions read inputs and
            # earlier names; c1 = every intermediate is read exactly once, c = any number of times
            k = rng.randint(1, 3)
            defs = []
            leaves = list(inputs)
            names = []
            for i in range(k):
                nm = rng.choice([f"m{i}", f"t{i}", f"_ret.{i}"])
                pool = leaves + (names if cls == "c" else [])
                defs.append([nm, gen_tree(rng, pool, rng.randint(0, 3), consts=rng.random() < 0.2)])
                names.append(nm)
            if cls == "c":
                body = gen_tree(rng, inputs + names + names, rng.randint(1, 3), consts=rng.random() < 0.2)
                for nm in names:
                    if rng.random() < 0.5:
                        body = [rng.choice(["and", "or", "xor"]), body, ["sym", nm]]
            else:
                body = gen_tree(rng, inputs, rng.randint(1, 3))
                for nm in names:
                    body = [rng.choice(["and", "or", "xor"]), body, ["sym", nm]] if rng.random() < 0.7 else \
                        [rng.choice(["and", "or"]), ["not", ["sym", nm]], body]
            defs.append(["_ret", body])
            rets = ["_ret"]
        else:
            raise SystemExit("class?")
        if distinct_all(defs):
            return inputs, defs, rets


def check(inputs, defs, rets, runs):
    bad = []
    for cs, rep in runs:
        if "error" in rep:
            bad.append(("error", cs, rep["error"]))
            continue
        if not rep.get("valid"):
            bad.append(("invalid", cs, rep.get("events")))
        # free qubits zero?
        nq = rep["num_qubits"]
        for x in itertools.product([False, True], repeat=len(inputs)):
            st = run_gates(rep["gates"], list(x) + [False] * (nq - len(inputs)))
            nz = [q for q in rep["free"] if st[q]]
            if nz:
                bad.append(("free-nonzero", cs, nz, [int(b) for b in x]))
                break
    return runs, bad


def main():
    global ORMODE
    cls = sys.argv[1]
    if ":" in cls:
        cls, ORMODE = cls.split(":")
    N = int(sys.argv[2])
    seed = int(sys.argv[3]) if len(sys.argv) > 3 else 1
    rng = random.Random(seed)
    nbad = 0
    nruns = 0
    reuse = 0
    inclass = dict(in_fragment_const=0, in_fragment_multi=0, in_fragment_named=0)
    inclass_bad = 0
    progs = [gen_program(rng, cls) for _ in range(N)]
    allruns = all_runs_many(progs, False)
    for (inputs, defs, rets), runs in zip(progs, allruns):
        runs, bad = check(inputs, defs, rets, runs)
        nruns += len(runs)
        # membership in the Lean classes as the driver reports it (the decidable predicates of the theorems)
        flags = [k for k in inclass if any(rep.get(k) for _, rep in runs)]
        for k in flags:
            inclass[k] += 1
        if flags and any(("error" in rep) or not rep.get("valid") for _, rep in runs):
            inclass_bad += 1
            print("IN-CLASS FAILURE", json.dumps(dict(inputs=inputs, defs=defs, rets=rets)))
        if any(len(set(cs)) < len(cs) for cs, _ in runs):
            reuse += 1
        if bad:
            nbad += 1
            if os.environ.get("VERBOSE"):
                print("BAD", json.dumps(dict(inputs=inputs, defs=defs, rets=rets)), bad[:3])
    print(f"class {cls}: {N} programs, {nruns} runs, {reuse} programs re-use a freed ancilla, {nbad} bad; "
          f"in the Lean classes (driver flags): {inclass}, of which failing: {inclass_bad}")


if __name__ == "__main__":
    main()
