#!/usr/bin/env python3
"""Re-evaluate a stored seeded change against the current /repo and checks: seed_reeval.py <seeded-id>.
Builds the delivery directory seed_eval.py expects from seeded/<id>/ and runs it for the same properties."""
import json, os, re, shutil, subprocess, sys, tempfile
ROOT = os.path.dirname(os.path.dirname(os.path.abspath(__file__)))
sid = sys.argv[1]
m = re.fullmatch(r"(C\d\d)-((?:r\d+-)?)(\d+)", sid)
pid, tag, k = m.group(1), m.group(2), m.group(3)
src = os.path.join(ROOT, "seeded", sid)
meta = json.load(open(src + "/meta.json"))
out = tempfile.mkdtemp(prefix="reeval-")
shutil.copy(src + "/patch.diff", f"{out}/change{k}.diff")
shutil.copy(src + "/demo.py", f"{out}/demo{k}.py")
for extra in os.listdir(src):
    if extra.endswith(".py") and extra != "demo.py":
        shutil.copy(src + "/" + extra, out + "/" + extra)
changes = [{} for _ in range(int(k))]
changes[-1] = {"what": meta.get("what"), "needs_to_manifest": meta.get("needs_to_manifest")}
json.dump({"property": pid, "changes": changes}, open(out + "/meta.json", "w"))
props = [p for p in meta.get("checks", {}) if p != pid]
keep = {x: meta[x] for x in meta if x.startswith("note") or x in ("history",)}
r = subprocess.run([sys.executable, os.path.join(ROOT, "tools", "seed_eval.py"), pid, out, k] + props,
                   env=dict(os.environ, SEED_TAG=tag))
shutil.rmtree(out, ignore_errors=True)
sys.exit(r.returncode)
