#!/usr/bin/env python3
"""Record in every seeded/<id>/meta.json the newest /repo commit its patch.diff applies to (`repo_base`), and
whether that is the current HEAD (`applies_to_head`).  Later `fix:` commits may rewrite the lines a seeded change
edits; such a change stays as the record of what was evaluated at its base."""
import glob, json, os, shutil, subprocess, tempfile
ROOT = os.path.dirname(os.path.dirname(os.path.abspath(__file__)))
REPO = os.environ.get("QV_REPO", "/repo")
tmp = tempfile.mkdtemp(prefix="seedbase-")
try:
    subprocess.run(["git", "clone", "-q", REPO, tmp + "/r"], check=True)
    r = tmp + "/r"
    commits = subprocess.run(["git", "-C", r, "log", "--format=%h"], capture_output=True, text=True).stdout.split()
    todo = {d: None for d in sorted(glob.glob(os.path.join(ROOT, "seeded", "*")))}
    for c in commits:
        left = [d for d, v in todo.items() if v is None]
        if not left:
            break
        subprocess.run(["git", "-C", r, "checkout", "-q", c], check=True)
        for d in left:
            ok = subprocess.run(["patch", "-p1", "--dry-run", "-s", "-f", "-d", r, "-i", d + "/patch.diff"], capture_output=True).returncode == 0
            if ok:
                todo[d] = c
    head = commits[0]
    for d, c in todo.items():
        m = json.load(open(d + "/meta.json"))
        m["repo_base"] = c
        m["applies_to_head"] = (c == head)
        json.dump(m, open(d + "/meta.json", "w"), indent=1)
        if c != head:
            print(os.path.basename(d), "base", c)
finally:
    shutil.rmtree(tmp, ignore_errors=True)
