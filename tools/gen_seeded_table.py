#!/usr/bin/env python3
"""Print the markdown table of seeded changes (seeded/*/meta.json) for DESIGN.md section 7.6."""
import glob, json, os
rows = []
for d in sorted(glob.glob(os.path.join(os.path.dirname(os.path.dirname(os.path.abspath(__file__))), "seeded", "*"))):
    m = json.load(open(d + "/meta.json"))
    name = os.path.basename(d)
    res = []
    for p, r in m["checks"].items():
        if r["exit"] == 1:
            kind = "correspondence/proof only" if "no-failing-input-found" in (r["violation"] or "") else "failing input"
            what = (r.get("replay") or {}).get("what") or ""
            res.append(f"{p}: {kind}" + (f" ({what[:70]})" if what and kind == "failing input" else ""))
        elif r["exit"] == 0:
            res.append(f"{p}: not reported")
        else:
            res.append(f"{p}: exit {r['exit']}")
    what = (m.get("what") or "").replace("|", "/").replace("\n", " ")
    rows.append(f"| {name} | {what[:230]} | {'; '.join(res)} |")
print("| seeded change | what it does | reported by |\n|---|---|---|")
print("\n".join(rows))
