#!/usr/bin/env python3
"""Print the markdown table of seeded changes (seeded/*/meta.json) for DESIGN.md section 7.6."""
import glob, json, os
rows = []
for d in sorted(glob.glob(os.path.join(os.path.dirname(os.path.dirname(os.path.abspath(__file__))), "seeded", "*"))):
    m = json.load(open(d + "/meta.json"))
    name = os.path.basename(d)
    res = []
    for p, r in m["checks"].items():
        if r["exit"] == 1:
            kind = "correspondence/proof only" if "no-failing-input-found" in (r["violation"] or "") else "failing input"
            what = (r.get("replay") or {}).get("what") or ""
            res.append(f"{p}: {kind}" + (f" ({what[:70]})" if what and kind == "failing input" else ""))
        elif r["exit"] == 0:
            res.append(f"{p}: not reported")
        else:
            res.append(f"{p}: exit {r['exit']}")
    what = (m.get("what") or "").replace("|", "/").replace("\n", " ")
    note = ""
    if m.get("neutralised_at_head"):
        note = f" (evaluated at /repo {m.get('repo_base')}; no longer a breaking change at HEAD: {m['neutralised_at_head']})"
    elif m.get("applies_to_head") is False:
        note = f" (evaluated at /repo {m.get('repo_base')}; later fix commits rewrote the lines it edits)"
    rows.append(f"| {name} | {what[:230]} | {'; '.join(res)}{note} |")
print("| seeded change | what it does | reported by |\n|---|---|---|")
print("\n".join(rows))
