#!/usr/bin/env python3
"""Regenerate /verif/MANIFEST.json from the table below (keeps it schema-valid)."""
import json, os, subprocess, sys

HERE = os.path.dirname(os.path.dirname(os.path.abspath(__file__)))

CHECKS = {
    "C09": dict(
        text="Lean 4 theorems over all widths (Qint w, Qchar, Qfixed I/F) and all nested types: pattern and value round trips, const = runtime encoding, one-hot amplitude index, interpret_as_qtype inverts concatenated encodings; side conditions discharged on the type tables regenerated from qint.py/qfixed.py/qchar.py on every run; model tied to the code by exhaustive comparison over every shipped type x every bit pattern (w<=12) plus sampled Qint16 and nested types.",
        note="Trusted: Lean kernel (axioms propext, Classical.choice, Quot.sound only, audited per run), the ast-based table extractor, the correspondence harness, CPython float arithmetic being exact on dyadic rationals < 2^11. The theorems are about QV/Model/Types.lean, not the Python text.",
        design="3/C09",
        technique="Lean 4 proof (induction on bit lists) + exhaustive model/code correspondence",
    ),
    "C17": dict(
        text="Lean 4 theorems over all scripts (lists of module-level bindings), all definition lists, all clause lists and all variable orders: C17_full proves the whole statement for the model with the listed defects repaired (entry-point selection, single-function default, combined expression = conjunction of the return bits, normal-form dispatch, DIMACS clause set with exactly the satisfying assignments under a one-to-one numbering, py2qasm = export of the selected function's circuit at the chosen version); partial theorems for the code as it is outside the triggers of 5 open findings, each with a Lean witness; model tied to py2bexp.main()/py2qasm.main() called in-process on generated scripts x forms x formats x entry points x versions, printed text compared exactly and judged by an independent parser/evaluator (DIMACS under the best one-to-one numbering), convert_to_dimacs also on every small CNF.",
        note="Trusted: Lean kernel (axioms propext, Classical.choice, Quot.sound only, audited per run); sympy's to_anf/to_cnf/to_dnf/to_nnf, str() and set iteration order are parameters of the model - their assumed spec (semantics-preserving, cnf = conjunction of clauses, no new symbols) is a hypothesis of the theorems and is validated on every call of a run (one open finding is a sympy to_anf call breaking it); script execution is represented by the list of bindings the generated script performs; compilation is a parameter of the py2qasm model (circuit from an independent compile); tweedledum/recompiler back-ends not exercised.",
        design="3/C17",
        technique="Lean 4 proof (structural induction, permutation/sortedness of getmembers, substitution lemma) + exact model/code correspondence + independent text oracle",
    ),
}

NOT_YET = {
}

ALL = [f"C{i:02d}" for i in range(1, 19)]


def main():
    checks = []
    for pid in ALL:
        if pid not in CHECKS:
            continue
        c = CHECKS[pid]
        checks.append(dict(
            property_id=pid,
            quick_cmd=f"./check {pid} --tier quick",
            thorough_cmd=f"./check {pid} --tier thorough",
            evidence_file=f"/verif/evidence/{pid}.json",
            replay_cmd_template=f"./check {pid} --replay {{path}}",
            engine="qv-lean",
            level_claimed=dict(category=c.get("category", "proof"), text=c["text"], design_ref=f"DESIGN.md section {c['design']}"),
            level_note=c["note"],
            technique=c["technique"],
        ))
    na = []
    for pid in ALL:
        if pid not in CHECKS:
            na.append(dict(property_id=pid, reason=NOT_YET.get(pid, "check not built yet in this round (model and theorems planned, see DESIGN.md section 3); not claimed until it exists and passes on the unchanged tree")))
    m = dict(
        version=1,
        setup_cmd="./setup.sh",
        hooks=dict(
            guard="QLASSKIT_VERIF",
            enable="no hook commits: the harness wraps module attributes from its own process (e.g. QCircuitEnhanced.get_free_ancilla); the guard name is reserved",
            baseline_off_cmd="python3 /verif/tools/run_baseline.py",
            source_commits=[],
            add_only=True,
        ),
        engines=[dict(name="qv-lean", path="/verif/lean", serves_properties=sorted(CHECKS),
                      kind_free_text="Lean 4 models + theorems (lake project QV), JSON-lines model driver qvdriver, Python correspondence harness /verif/harness")],
        checks=checks,
        notes="Fix commits in /repo: see known_findings.json (status fixed). Checks read /repo's working tree; QV_REPO overrides the path for the author's own mutation smoke tests only.",
        not_applicable=na,
    )
    with open(os.path.join(HERE, "MANIFEST.json"), "w") as f:
        json.dump(m, f, indent=1)
    print("wrote MANIFEST.json:", len(checks), "checks,", len(na), "not claimed")


if __name__ == "__main__":
    main()
