#!/usr/bin/env python3
"""Regenerate /verif/MANIFEST.json from the table below (keeps it schema-valid)."""
import json, os, subprocess, sys

HERE = os.path.dirname(os.path.dirname(os.path.abspath(__file__)))

CHECKS = {
    "C05": dict(
        text="Lean 4 theorems over all signatures (any number of arguments, every nested tuple type, all widths), all values, all gate lists and all qubit maps of the codec model: bit naming has one name per bit; input_qubits = [0..n) and the j-th argument bit sits on qubit j; encode_input string reversed = concatenation of the little-endian element encodings in argument order, tuples depth-first (character j = qubit n-1-j); decode_output inverts that layout for every nested type (string/list readings; integer readings in the repaired model, and in the code as it is outside the decidable trigger); output_qubits defined iff every name of returns.bitvec is a key of the qubit map, then in range and in bitvec order, always defined for the repaired Return naming; decode_counts preserves the number of shots; end-to-end statement C05_statement proved from these with 'the circuit computes the bit-level function' (C02/C01) as hypothesis. Two defects carried as quirk flags with witnesses. Tied to the code on real compiled functions: every case pushed through encode_input, the real gate list (own classical simulator), output_qubits, decode_output and compared with the source exec'd on plain values; model compared exactly on names, strings, qubit lists, decoded values, merged counts.",
        note="Partial with respect to the full end-to-end claim: what the compiled circuit computes (C02) and what the expressions mean (C01) are hypotheses of C05_statement, measured per case by the harness (mismatches there are counted and skipped, not reported by C05). Two open findings (return of a tuple-typed variable -> KeyError in output_qubits; decode_output(int) pads on the right). Names are modelled structurally (base, index path); printing them is assumed injective. The naming part of the compiler is modelled (add_qubit per input bit, map_qubit per expression with the real iret), not the choice of iret. Trusted: Lean kernel, harness oracle (own flattening/naming functions, exec of the source on plain ints), harness/circ.py classical simulator.",
        design="3/C05",
        technique="Lean 4 proof (mutual structural induction on nested types, list lemmas) + end-to-end model/code correspondence on compiled functions",
    ),
    "C09": dict(
        text="Lean 4 theorems over all widths (Qint w, Qchar, Qfixed I/F) and all nested types: pattern and value round trips, const = runtime encoding, one-hot amplitude index, interpret_as_qtype inverts concatenated encodings; side conditions discharged on the type tables regenerated from qint.py/qfixed.py/qchar.py on every run; model tied to the code by exhaustive comparison over every shipped type x every bit pattern (w<=12) plus sampled Qint16 and nested types.",
        note="Trusted: Lean kernel (axioms propext, Classical.choice, Quot.sound only, audited per run), the ast-based table extractor, the correspondence harness, CPython float arithmetic being exact on dyadic rationals < 2^11. The theorems are about QV/Model/Types.lean, not the Python text.",
        design="3/C09",
        technique="Lean 4 proof (induction on bit lists) + exhaustive model/code correspondence",
    ),
}

NOT_YET = {
}

ALL = [f"C{i:02d}" for i in range(1, 19)]


def main():
    checks = []
    for pid in ALL:
        if pid not in CHECKS:
            continue
        c = CHECKS[pid]
        checks.append(dict(
            property_id=pid,
            quick_cmd=f"./check {pid} --tier quick",
            thorough_cmd=f"./check {pid} --tier thorough",
            evidence_file=f"/verif/evidence/{pid}.json",
            replay_cmd_template=f"./check {pid} --replay {{path}}",
            engine="qv-lean",
            level_claimed=dict(category=c.get("category", "proof"), text=c["text"], design_ref=f"DESIGN.md section {c['design']}"),
            level_note=c["note"],
            technique=c["technique"],
        ))
    na = []
    for pid in ALL:
        if pid not in CHECKS:
            na.append(dict(property_id=pid, reason=NOT_YET.get(pid, "check not built yet in this round (model and theorems planned, see DESIGN.md section 3); not claimed until it exists and passes on the unchanged tree")))
    m = dict(
        version=1,
        setup_cmd="./setup.sh",
        hooks=dict(
            guard="QLASSKIT_VERIF",
            enable="no hook commits: the harness wraps module attributes from its own process (e.g. QCircuitEnhanced.get_free_ancilla); the guard name is reserved",
            baseline_off_cmd="python3 /verif/tools/run_baseline.py",
            source_commits=[],
            add_only=True,
        ),
        engines=[dict(name="qv-lean", path="/verif/lean", serves_properties=sorted(CHECKS),
                      kind_free_text="Lean 4 models + theorems (lake project QV), JSON-lines model driver qvdriver, Python correspondence harness /verif/harness")],
        checks=checks,
        notes="Fix commits in /repo: see known_findings.json (status fixed). Checks read /repo's working tree; QV_REPO overrides the path for the author's own mutation smoke tests only.",
        not_applicable=na,
    )
    with open(os.path.join(HERE, "MANIFEST.json"), "w") as f:
        json.dump(m, f, indent=1)
    print("wrote MANIFEST.json:", len(checks), "checks,", len(na), "not claimed")


if __name__ == "__main__":
    main()
