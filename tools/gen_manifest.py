#!/usr/bin/env python3
"""Regenerate /verif/MANIFEST.json from the table below (keeps it schema-valid)."""
import json, os, subprocess, sys

HERE = os.path.dirname(os.path.dirname(os.path.abspath(__file__)))

CHECKS = {
    "C09": dict(
        text="Lean 4 theorems over all widths (Qint w, Qchar, Qfixed I/F) and all nested types: pattern and value round trips, const = runtime encoding, one-hot amplitude index, interpret_as_qtype inverts concatenated encodings; side conditions discharged on the type tables regenerated from qint.py/qfixed.py/qchar.py on every run; model tied to the code by exhaustive comparison over every shipped type x every bit pattern (w<=12) plus sampled Qint16 and nested types.",
        note="Trusted: Lean kernel (axioms propext, Classical.choice, Quot.sound only, audited per run), the ast-based table extractor, the correspondence harness, CPython float arithmetic being exact on dyadic rationals < 2^11. The theorems are about QV/Model/Types.lean, not the Python text.",
        design="3/C09",
        technique="Lean 4 proof (induction on bit lists) + exhaustive model/code correspondence",
    ),
    "C13": dict(
        text="Lean 4 theorems over all gate lists (induction over the exporter loop): for qiskit (both modes), cirq and sympy, whenever the exporter returns, the calls it made read as the circuit's non-nop gates - same base gate, number of controls, wire indices, parameter, same order (qiskit_translation, cirq_translation, sympy_translation); the OpenQASM 2/3 gate declaration is read back by a proved line reader as name, formals and one line per non-nop gate (qasm_roundtrip, qasm_body_lines, qasm_text_shape); the repaired exporter declares one formal per qubit in index order and each argument resolves to its own position (qasm_formals_full, qasm_wire_position); decide-witnesses for the four open defects. Model tied to the code per run: the recorded QuantumCircuit call sequence, cirq.decompose_once op list, sympy factor list and the QASM text are compared exactly with the model for systematic + random circuits (all gate kinds, MCX(k), MCtrl(X/Z), P/CP over 27 parameter values incl. rounding ties, barriers, name maps in order / dotted / aliased / permuted / incomplete) and compiled qlassf functions x 5 exporters x 2 modes; always-on search judges the real export by own readers + own state-vector simulator (unitary of qiskit Operator / cirq.unitary / sympy represent, <= 6 qubits).",
        note="partial: call lists and text; third-party gate semantics trusted. Proved: translation whenever the exporter returns, QASM syntactic round trip, formals of the repaired exporter. Not proved (correspondence only): that each exporter returns on its exportable set, that the read-back QASM lines resolve to the circuit's operations, the unrepaired formals in the in-order case. Trusted: Lean kernel (axioms audited per run), the reading of qiskit/cirq/sympy calls as textbook gates (validated numerically per case), CPython '%.2f' = round-half-even of the exact value (validated per run), the harness readers. pennylane (not installed) and qutip (exporter fails in the baseline) exporters are out of scope.",
        design="3/C13",
        technique="Lean 4 proof (induction over the exporter loop, list lemmas for the text reader) + exact call-list/text correspondence + numeric unitary comparison",
    ),
}

NOT_YET = {
}

ALL = [f"C{i:02d}" for i in range(1, 19)]


def main():
    checks = []
    for pid in ALL:
        if pid not in CHECKS:
            continue
        c = CHECKS[pid]
        checks.append(dict(
            property_id=pid,
            quick_cmd=f"./check {pid} --tier quick",
            thorough_cmd=f"./check {pid} --tier thorough",
            evidence_file=f"/verif/evidence/{pid}.json",
            replay_cmd_template=f"./check {pid} --replay {{path}}",
            engine="qv-lean",
            level_claimed=dict(category=c.get("category", "proof"), text=c["text"], design_ref=f"DESIGN.md section {c['design']}"),
            level_note=c["note"],
            technique=c["technique"],
        ))
    na = []
    for pid in ALL:
        if pid not in CHECKS:
            na.append(dict(property_id=pid, reason=NOT_YET.get(pid, "check not built yet in this round (model and theorems planned, see DESIGN.md section 3); not claimed until it exists and passes on the unchanged tree")))
    m = dict(
        version=1,
        setup_cmd="./setup.sh",
        hooks=dict(
            guard="QLASSKIT_VERIF",
            enable="no hook commits: the harness wraps module attributes from its own process (e.g. QCircuitEnhanced.get_free_ancilla); the guard name is reserved",
            baseline_off_cmd="python3 /verif/tools/run_baseline.py",
            source_commits=[],
            add_only=True,
        ),
        engines=[dict(name="qv-lean", path="/verif/lean", serves_properties=sorted(CHECKS),
                      kind_free_text="Lean 4 models + theorems (lake project QV), JSON-lines model driver qvdriver, Python correspondence harness /verif/harness")],
        checks=checks,
        notes="Fix commits in /repo: see known_findings.json (status fixed). Checks read /repo's working tree; QV_REPO overrides the path for the author's own mutation smoke tests only.",
        not_applicable=na,
    )
    with open(os.path.join(HERE, "MANIFEST.json"), "w") as f:
        json.dump(m, f, indent=1)
    print("wrote MANIFEST.json:", len(checks), "checks,", len(na), "not claimed")


if __name__ == "__main__":
    main()
