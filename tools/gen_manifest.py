#!/usr/bin/env python3
"""Regenerate /verif/MANIFEST.json from the table below (keeps it schema-valid)."""
import json, os, subprocess, sys

HERE = os.path.dirname(os.path.dirname(os.path.abspath(__file__)))

CHECKS = {
    "C09": dict(
        text="Lean 4 theorems over all widths (Qint w, Qchar, Qfixed I/F) and all nested types: pattern and value round trips, const = runtime encoding, one-hot amplitude index, interpret_as_qtype inverts concatenated encodings; side conditions discharged on the type tables regenerated from qint.py/qfixed.py/qchar.py on every run; model tied to the code by exhaustive comparison over every shipped type x every bit pattern (w<=12) plus sampled Qint16 and nested types.",
        note="Trusted: Lean kernel (axioms propext, Classical.choice, Quot.sound only, audited per run), the ast-based table extractor, the correspondence harness, CPython float arithmetic being exact on dyadic rationals < 2^11. The theorems are about QV/Model/Types.lean, not the Python text.",
        design="3/C09",
        technique="Lean 4 proof (induction on bit lists) + exhaustive model/code correspondence",
    ),
    "C18": dict(
        text="Lean 4 theorems over all expression lists, all assignments and all nested argument types about the model of qlasskit/bqm.py + merge_expressions: the pyqubo tree built by SympyToBQM.visit (n-ary And/Xor folded pairwise, binary Or, Not, constants) has the indicator polynomial of the expression; merge_expressions (any truth-table preserving simplifier) keeps the function; hence energy = number of true return bits, minimum-energy assignments = assignments with the fewest true return bits, zeros at energy 0, tree variables = symbols of the merged return expressions (each an argument bit or a declared return name), every bit the function depends on is mentioned, all four formats receive the same tree; decode_samples = C09's interpret on the bits the sample spells. Proved in full for the repaired library and, for the code as it is, under the guard 'no return bit is a bare symbol' (open finding C18-ret-symbol-andconst, Lean witness f(a)=a). Tie: the real to_bqm run against a recording pyqubo stub on programs through the real front end and on synthetic expression lists; tree / exception class / energy table / decoded values compared exactly with the model, the property itself judged on the real tree with an evaluator and oracle that do not use bqm.py.",
        note="Partial by necessity: pyqubo and dimod are not installed. The meaning of a tree node is the polynomial pyqubo's documentation states (table in harness/pyqubo_stub.py) - an assumption; what real pyqubo does with the tree (compile, to_bqm/to_qubo/to_ising with degree reduction and further auxiliaries, decode_sampleset) is outside both the proofs and the comparison, so 'in every offered format' is only shown as 'the same tree reaches the exporter named by fmt'. sympy's simplify_logic is not modelled (hypothesis of the theorems, checked per case by truth table). Trusted: Lean kernel (axioms audited per run), harness incl. stub and canonicalisers.",
        design="3/C18",
        technique="Lean 4 proof (mutual structural induction over BExp / expression lists) + model/code correspondence through a recording pyqubo stub",
    ),
}

NOT_YET = {
}

ALL = [f"C{i:02d}" for i in range(1, 19)]


def main():
    checks = []
    for pid in ALL:
        if pid not in CHECKS:
            continue
        c = CHECKS[pid]
        checks.append(dict(
            property_id=pid,
            quick_cmd=f"./check {pid} --tier quick",
            thorough_cmd=f"./check {pid} --tier thorough",
            evidence_file=f"/verif/evidence/{pid}.json",
            replay_cmd_template=f"./check {pid} --replay {{path}}",
            engine="qv-lean",
            level_claimed=dict(category=c.get("category", "proof"), text=c["text"], design_ref=f"DESIGN.md section {c['design']}"),
            level_note=c["note"],
            technique=c["technique"],
        ))
    na = []
    for pid in ALL:
        if pid not in CHECKS:
            na.append(dict(property_id=pid, reason=NOT_YET.get(pid, "check not built yet in this round (model and theorems planned, see DESIGN.md section 3); not claimed until it exists and passes on the unchanged tree")))
    m = dict(
        version=1,
        setup_cmd="./setup.sh",
        hooks=dict(
            guard="QLASSKIT_VERIF",
            enable="no hook commits: the harness wraps module attributes from its own process (e.g. QCircuitEnhanced.get_free_ancilla); the guard name is reserved",
            baseline_off_cmd="python3 /verif/tools/run_baseline.py",
            source_commits=[],
            add_only=True,
        ),
        engines=[dict(name="qv-lean", path="/verif/lean", serves_properties=sorted(CHECKS),
                      kind_free_text="Lean 4 models + theorems (lake project QV), JSON-lines model driver qvdriver, Python correspondence harness /verif/harness")],
        checks=checks,
        notes="Fix commits in /repo: see known_findings.json (status fixed). Checks read /repo's working tree; QV_REPO overrides the path for the author's own mutation smoke tests only.",
        not_applicable=na,
    )
    with open(os.path.join(HERE, "MANIFEST.json"), "w") as f:
        json.dump(m, f, indent=1)
    print("wrote MANIFEST.json:", len(checks), "checks,", len(na), "not claimed")


if __name__ == "__main__":
    main()
