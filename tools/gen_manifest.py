#!/usr/bin/env python3
"""Regenerate /verif/MANIFEST.json from the table below (keeps it schema-valid)."""
import json, os, subprocess, sys

HERE = os.path.dirname(os.path.dirname(os.path.abspath(__file__)))

CHECKS = {
    "C09": dict(
        text="Lean 4 theorems over all widths (Qint w, Qchar, Qfixed I/F) and all nested types: pattern and value round trips, const = runtime encoding, one-hot amplitude index, interpret_as_qtype inverts concatenated encodings; side conditions discharged on the type tables regenerated from qint.py/qfixed.py/qchar.py on every run; model tied to the code by exhaustive comparison over every shipped type x every bit pattern (w<=12) plus sampled Qint16 and nested types.",
        note="Trusted: Lean kernel (axioms propext, Classical.choice, Quot.sound only, audited per run), the ast-based table extractor, the correspondence harness, CPython float arithmetic being exact on dyadic rationals < 2^11. The theorems are about QV/Model/Types.lean, not the Python text.",
        design="3/C09",
        technique="Lean 4 proof (induction on bit lists) + exhaustive model/code correspondence",
    ),
    "C11": dict(
        text="Lean 4 theorems about the model of decompiler.py, for every gate list, qubit count, basis state and every meaning-preserving implementation of sympy's Not/And/Xor: symexec_sound / symexec_entries / symexec_unchanged (induction over the gate list: each reported expression evaluates to the qubit's final value, keys are distinct qubit names, qubits without an expression are unchanged); sections_structure and its index form sections_exact (circuit = B1 R1 sep1 B2 R2 sep2 ...; ranges increasing, disjoint, inside the circuit, start at a classical gate, contain only classical gates and no-ops, gate list = classical gates of the range in order, every classical gate covered, consecutive ranges separated by a non-classical non-nop gate); C11_full for the repaired model, C11_partial for the code as it is off the two listed defects, a decide-witness per defect. ZB_GATES and the class hierarchy of gates.py are regenerated from the source each run. Model tied to the code by exact comparison (error text, index ranges, gate lists; expressions by truth table) on boundary patterns, all gate strings up to length 5 over a 9-letter alphabet on 3 qubits and random circuits; the real decompiler is judged on each by an independent oracle (own run splitter, gate simulator, expression evaluator).",
        note="Trusted: Lean kernel (axioms propext, Classical.choice, Quot.sound only, audited per run), the ast-based extractor, the correspondence harness; sympy's Not/And/Xor are a parameter assumed meaning-preserving (validated by evaluating every reported expression against the harness' simulator); gate tuples are assumed built by QCircuit.append (arity, distinct wires). A range may include no-ops that follow the run's last classical gate (the code cuts off only one); read as 'barriers ignored'. Open findings: gates.I raises, MCtrl(X) splits a section (patches in docs/fixes).",
        design="3/C11",
        technique="Lean 4 proof (induction over gate lists, structural decomposition invariant) + exhaustive/random model-code correspondence + independent oracle on the real code",
    ),
}

NOT_YET = {
}

ALL = [f"C{i:02d}" for i in range(1, 19)]


def main():
    checks = []
    for pid in ALL:
        if pid not in CHECKS:
            continue
        c = CHECKS[pid]
        checks.append(dict(
            property_id=pid,
            quick_cmd=f"./check {pid} --tier quick",
            thorough_cmd=f"./check {pid} --tier thorough",
            evidence_file=f"/verif/evidence/{pid}.json",
            replay_cmd_template=f"./check {pid} --replay {{path}}",
            engine="qv-lean",
            level_claimed=dict(category=c.get("category", "proof"), text=c["text"], design_ref=f"DESIGN.md section {c['design']}"),
            level_note=c["note"],
            technique=c["technique"],
        ))
    na = []
    for pid in ALL:
        if pid not in CHECKS:
            na.append(dict(property_id=pid, reason=NOT_YET.get(pid, "check not built yet in this round (model and theorems planned, see DESIGN.md section 3); not claimed until it exists and passes on the unchanged tree")))
    m = dict(
        version=1,
        setup_cmd="./setup.sh",
        hooks=dict(
            guard="QLASSKIT_VERIF",
            enable="no hook commits: the harness wraps module attributes from its own process (e.g. QCircuitEnhanced.get_free_ancilla); the guard name is reserved",
            baseline_off_cmd="python3 /verif/tools/run_baseline.py",
            source_commits=[],
            add_only=True,
        ),
        engines=[dict(name="qv-lean", path="/verif/lean", serves_properties=sorted(CHECKS),
                      kind_free_text="Lean 4 models + theorems (lake project QV), JSON-lines model driver qvdriver, Python correspondence harness /verif/harness")],
        checks=checks,
        notes="Fix commits in /repo: see known_findings.json (status fixed). Checks read /repo's working tree; QV_REPO overrides the path for the author's own mutation smoke tests only.",
        not_applicable=na,
    )
    with open(os.path.join(HERE, "MANIFEST.json"), "w") as f:
        json.dump(m, f, indent=1)
    print("wrote MANIFEST.json:", len(checks), "checks,", len(na), "not claimed")


if __name__ == "__main__":
    main()
