#!/usr/bin/env python3
"""Regenerate /verif/MANIFEST.json from the table below (keeps it schema-valid)."""
import json, os, subprocess, sys

HERE = os.path.dirname(os.path.dirname(os.path.abspath(__file__)))

COMPILER_NOTE = ("Partial: no theorem states that the compiler model is correct on all programs (it is not: see the open findings); "
                 "what is kernel-checked is the soundness (and for C02 completeness) of the validators for ALL inputs of an instance, and universal "
                 "lemmas on X/CX/MCX gate lists. The per-instance validator runs are computed by the compiled model driver, not by the kernel. "
                 "Trusted: Lean kernel + standard axioms, the correspondence harness (canonicalisation: controls of MCX sorted, runs of adjacent "
                 "same-target CX and of adjacent X sorted), ancilla choices logged from the real run by wrapping QCircuitEnhanced.get_free_ancilla, "
                 "sympy's structural equality as the ExpQMap key. Hybrid Q.* gates are not modelled.")

CHECKS = {
    "C02": dict(
        text="Faithful Lean model of InternalCompiler/ExpQMap/QCircuitEnhanced reproduces the real compiler's gate list, qubit map and ancilla sets exactly on every generated compilation (suite programs, random bool/Qint programs through the real front-end with both optimizer profiles, random definition lists; uncompute on and off); each instance is decided for ALL 2^n inputs by a validator proved sound and complete in Lean (validate_sound/validate_complete) and cross-checked by an independent Python simulator; universal theorems: remove_identities preserves the classical action, X/CX/MCX gates on distinct wires are involutions, reverse replay undoes a gate list. Failures of the unchanged compiler are attributed to open findings only when the model reproduces the gate list and a listed defect-site event occurred.",
        note=COMPILER_NOTE, design="3/C02", technique="Lean 4 proof of validator soundness + universal gate-list lemmas; exact model/code correspondence; per-instance exhaustive validation",
    ),
    "C03": dict(
        text="Same model and correspondence as C02 (uncompute=True): each compiled instance is checked on all inputs for unchanged argument qubits and zero scratch qubits by validateClean (validateClean_sound); universal theorems: a qubit no gate targets is unchanged, reverse replay restores every qubit.",
        note=COMPILER_NOTE, design="3/C03", technique="Lean 4 proof of validator soundness + replay lemmas; exact model/code correspondence; per-instance exhaustive validation",
    ),
    "C06": dict(
        text="Universal theorem xor_oracle_of_clean: any X/CX/MCX circuit that is correct and clean from y=0 and never uses its output qubit as a control is an xor-oracle for both y (flip-commutation lemma by induction over the gate list); validateXor_sound for the per-instance validator over all (x, y); same exact correspondence as C02 on single-bool programs.",
        note=COMPILER_NOTE, design="3/C06", technique="Lean 4 proof (flip commutation, validator soundness); exact model/code correspondence; per-instance exhaustive validation over (x, y)",
    ),
    "C04": dict(
        text="Lean 4 theorems for every expression tree and every definition list: each of the five pattern transformers, the plain SympyTransformer traversal and custom_simplify_logic keep the value under every assignment and add no symbol (mutual induction over BExp / List BExp, for every sympy-constructor kernel meeting its spec); merge_expressions keeps the value of every return symbol for lists with shared and re-bound intermediates; apply_cse from the spec of its cse call; every step list built from the seven modelled steps preserves every return symbol, the list of return symbols and the set of free symbols, and the step lists of defaultOptimizer / fastOptimizer (re-extracted from bool_optimizer.py on every run) consist of modelled steps (decide). The full statement is proved for the model with the two listed defects repaired (C04_full), for the code as it is on runs that meet neither (C04_partial); each defect has a Lean witness replayed on the real code. Always-on search: rule-shaped, random and front-end-produced lists through each single step and both whole profiles on the real code, judged by an own evaluator on all assignments.",
        note="Trusted: Lean kernel (axioms audited per run), the ast-based extractor of the profile step lists, the correspondence harness (model's raw tree passed through sympy's constructors == code's tree, per transformer and per merge sub-step; apply_cse exact). sympy's And/Or/Not/Xor/ITE/Implies constructors, simplify_logic and cse are parameters of the model; their specs are hypotheses of the theorems and are checked on every call observed in a run. Well-formed list = no right-hand side reads a _ret* symbol. Open findings: C04-or2xor-arity, C04-cse-hoist (patches proposed in docs/fixes).",
        design="3/C04",
        technique="Lean 4 proof (mutual structural induction, list invariants) + structural model/code correspondence + exhaustive-assignment oracle on generated lists",
    ),
    "C05": dict(
        text="Lean 4 theorems over all signatures (any number of arguments, every nested tuple type, all widths), all values, all gate lists and all qubit maps of the codec model: bit naming has one name per bit; input_qubits = [0..n) and the j-th argument bit sits on qubit j; encode_input string reversed = concatenation of the little-endian element encodings in argument order, tuples depth-first (character j = qubit n-1-j); decode_output inverts that layout for every nested type (string/list readings; integer readings in the repaired model, and in the code as it is outside the decidable trigger); output_qubits defined iff every name of returns.bitvec is a key of the qubit map, then in range and in bitvec order, always defined for the repaired Return naming; decode_counts preserves the number of shots; end-to-end statement C05_statement proved from these with 'the circuit computes the bit-level function' (C02/C01) as hypothesis. Two defects carried as quirk flags with witnesses. Tied to the code on real compiled functions: every case pushed through encode_input, the real gate list (own classical simulator), output_qubits, decode_output and compared with the source exec'd on plain values; model compared exactly on names, strings, qubit lists, decoded values, merged counts.",
        note="Partial with respect to the full end-to-end claim: what the compiled circuit computes (C02) and what the expressions mean (C01) are hypotheses of C05_statement, measured per case by the harness (mismatches there are counted and skipped, not reported by C05). Two open findings (return of a tuple-typed variable -> KeyError in output_qubits; decode_output(int) pads on the right). Names are modelled structurally (base, index path); printing them is assumed injective. The naming part of the compiler is modelled (add_qubit per input bit, map_qubit per expression with the real iret), not the choice of iret. Trusted: Lean kernel, harness oracle (own flattening/naming functions, exec of the source on plain ints), harness/circ.py classical simulator.",
        design="3/C05",
        technique="Lean 4 proof (mutual structural induction on nested types, list lemmas) + end-to-end model/code correspondence on compiled functions",
    ),
    "C07": dict(
        text="Lean 4 theorems about the model of the call mechanism (Env.bind_function, the Known-function branch of translate_expression, oraclize's handling of the callee) on definition lists, for every well-formed callee (single assignment, closed over its argument bits, return bits last), every list of actual argument bit expressions of the callee's shape (any expressions: variables, tuple elements, repeated, swapped, results of other calls) and every caller environment: the substitution lemma for BExp (subst_lemma), the exact meaning of sympy's sequential subs and its agreement with simultaneous substitution when no image mentions a key (seq_eq_sim, with a witness when one does), alpha-renaming (rename_prefixed, rename_disjoint under the decidable noPrefixClash, rename_sem, rename_seq_agrees), the compression loop (bind_sem), and call_composition / C07_full: the call succeeds, its result bits evaluate to the callee's meaning on the values of the actuals and mention only symbols of the actuals, and the callee is unchanged. The model of the code as it is (four quirk flags) violates the statement on concrete inputs (four _witness theorems); the harness searches (callee, caller) pairs over all argument shapes, inline FunctionDef, callee chains and oraclize wrappers against the executed Python sources on all inputs, and replays every logged bind_function / call through the model.",
        note="Partial in two ways. (1) The theorems are about the call mechanism on definition lists; the translation of the rest of the caller (statements, operators, typing) is C01's subject and is covered here only by end-to-end truth tables against the executed Python sources. (2) For the code as it is (3 open findings; a fourth was fixed in /repo by 7e03097) only component-level agreement lemmas are proved (seq_eq_sim, rename_seq_agrees), not one combined C07_partial theorem; index-from-name agreement is measured per case by the harness (counterfactual model runs). Trusted: Lean kernel (axioms audited per run), the correspondence harness (sympy's constructors as canonicaliser, truth tables as fallback), sympy's subs/xreplace re-canonicalisation preserving eval (checked per logged operation), the iteration order of e.free_symbols as logged from the real run, PYTHONHASHSEED=0 set by ./check.",
        design="3/C07",
        technique="Lean 4 proof (mutual structural induction on BExp, loop invariant of the compression, list lemmas) + logged-operation model/code correspondence + exhaustive-input Python oracle on generated (callee, caller) pairs",
    ),
    "C09": dict(
        text="Lean 4 theorems over all widths (Qint w, Qchar, Qfixed I/F) and all nested types: pattern and value round trips, const = runtime encoding, one-hot amplitude index, interpret_as_qtype inverts concatenated encodings; side conditions discharged on the type tables regenerated from qint.py/qfixed.py/qchar.py on every run; model tied to the code by exhaustive comparison over every shipped type x every bit pattern (w<=12) plus sampled Qint16 and nested types.",
        note="Trusted: Lean kernel (axioms propext, Classical.choice, Quot.sound only, audited per run), the ast-based table extractor, the correspondence harness, CPython float arithmetic being exact on dyadic rationals < 2^11. The theorems are about QV/Model/Types.lean, not the Python text.",
        design="3/C09",
        technique="Lean 4 proof (induction on bit lists) + exhaustive model/code correspondence",
    ),
    "C11": dict(
        text="Lean 4 theorems about the model of decompiler.py, for every gate list, qubit count, basis state and every meaning-preserving implementation of sympy's Not/And/Xor: symexec_sound / symexec_entries / symexec_unchanged (induction over the gate list: each reported expression evaluates to the qubit's final value, keys are distinct qubit names, qubits without an expression are unchanged); sections_structure and its index form sections_exact (circuit = B1 R1 sep1 B2 R2 sep2 ...; ranges increasing, disjoint, inside the circuit, start at a classical gate, contain only classical gates and no-ops, gate list = classical gates of the range in order, every classical gate covered, consecutive ranges separated by a non-classical non-nop gate); C11_full for the repaired model, C11_partial for the code as it is off the two listed defects, a decide-witness per defect. ZB_GATES and the class hierarchy of gates.py are regenerated from the source each run. Model tied to the code by exact comparison (error text, index ranges, gate lists; expressions by truth table) on boundary patterns, all gate strings up to length 5 over a 9-letter alphabet on 3 qubits and random circuits; the real decompiler is judged on each by an independent oracle (own run splitter, gate simulator, expression evaluator).",
        note="Trusted: Lean kernel (axioms propext, Classical.choice, Quot.sound only, audited per run), the ast-based extractor, the correspondence harness; sympy's Not/And/Xor are a parameter assumed meaning-preserving (validated by evaluating every reported expression against the harness' simulator); gate tuples are assumed built by QCircuit.append (arity, distinct wires). A range may include no-ops that follow the run's last classical gate (the code cuts off only one); read as 'barriers ignored'. Open findings: gates.I raises, MCtrl(X) splits a section (patches in docs/fixes).",
        design="3/C11",
        technique="Lean 4 proof (induction over gate lists, structural decomposition invariant) + exhaustive/random model-code correspondence + independent oracle on the real code",
    ),
    "C14": dict(
        text="Lean 4 theorems over all circuits, qubit lists, n and list lengths, for every monoid-valued gate semantics: act(append_circuit) = act(self) * act(other relabelled through the qubit list); += and + are sequential composition; repeat(n) = act^n (all n for the repaired model, n>=1 for the code as it is, Lean witness for n=0); copy/+/repeat results are equal resp. composed circuits that share no mutable heap object (gate list, gates_computed list, qubit_map, wire lists) with their operands, so no heap write through the result is visible in an operand (frame theorem on the modelled heap); remove_identities returns and preserves the action when the cancelled classes square to 1 and barriers are 1 (repaired model; the code as it is on every gate list that avoids the two listed defects, Lean witnesses for both); iqft after qft acts as 1 on every duplicate-free qubit list of any length, from H^2=1, SWAP^2=1, CP(t)CP(-t)=1 and commutation of gates on disjoint wires. Model tied to the code by exact comparison of result circuits, error classes and Python object-identity patterns on a systematic slice (every gate kind x every operator x position) plus random cases; the property is judged on the real code by an own state-vector simulator and heap snapshots before/after the call and after mutating the result.",
        note="Trusted: Lean kernel (axioms propext, Classical.choice, Quot.sound only, audited per run), the correspondence harness and its simulator (harness/circ.py). The theorems are about QV/Model/CircuitOps.lean: gate semantics enters only through the stated algebraic laws; copy.deepcopy is modelled as an identity-pattern-preserving fresh copy; gate descriptor objects and parameters are treated as immutable; that an in-place operator leaves its other operand alone is checked on the code, not proved; negative repeat counts / negative indices, QCircuit.__native and the ancilla sets of QCircuitEnhanced are outside the model. Open findings: repeat(0), remove_identities IndexError on an empty result, remove_identities cancelling S/T/P/CP pairs.",
        design="3/C14",
        technique="Lean 4 proof (list induction, loop invariant, monoid algebra) + exact model/code correspondence incl. object identities + numeric unitary oracle",
    ),
    "C18": dict(
        text="Lean 4 theorems over all expression lists, all assignments and all nested argument types about the model of qlasskit/bqm.py + merge_expressions: the pyqubo tree built by SympyToBQM.visit (n-ary And/Xor folded pairwise, binary Or, Not, constants) has the indicator polynomial of the expression; merge_expressions (any truth-table preserving simplifier) keeps the function; hence energy = number of true return bits, minimum-energy assignments = assignments with the fewest true return bits, zeros at energy 0, tree variables = symbols of the merged return expressions (each an argument bit or a declared return name), every bit the function depends on is mentioned, all four formats receive the same tree; decode_samples = C09's interpret on the bits the sample spells. Proved in full for the repaired library and, for the code as it is, under the guard 'no return bit is a bare symbol' (open finding C18-ret-symbol-andconst, Lean witness f(a)=a). Tie: the real to_bqm run against a recording pyqubo stub on programs through the real front end and on synthetic expression lists; tree / exception class / energy table / decoded values compared exactly with the model, the property itself judged on the real tree with an evaluator and oracle that do not use bqm.py.",
        note="Partial by necessity: pyqubo and dimod are not installed. The meaning of a tree node is the polynomial pyqubo's documentation states (table in harness/pyqubo_stub.py) - an assumption; what real pyqubo does with the tree (compile, to_bqm/to_qubo/to_ising with degree reduction and further auxiliaries, decode_sampleset) is outside both the proofs and the comparison, so 'in every offered format' is only shown as 'the same tree reaches the exporter named by fmt'. sympy's simplify_logic is not modelled (hypothesis of the theorems, checked per case by truth table). Trusted: Lean kernel (axioms audited per run), harness incl. stub and canonicalisers.",
        design="3/C18",
        technique="Lean 4 proof (mutual structural induction over BExp / expression lists) + model/code correspondence through a recording pyqubo stub",
    ),
    "C16": dict(
        text="Lean 4 theorems for every n, every position of the result qubit, every number of ancillas and every black-box gate list that is a clean classical xor-oracle: Walsh-Hadamard layer lemma; Deutsch-Jozsa (constant: all amplitude outside y=0 vanishes and the amplitude at y=0 is +-2^n; balanced: amplitude at y=0 vanishes); Bernstein-Vazirani (f(x)=x.s: only y=s survives, amplitude +-2^n); Simon (two-to-one F with period s: amplitude at every (y,z) with y.s=1 vanishes, squared amplitude independent of y on y.s=0, outcome weights equal); decode_output (Deutsch-Jozsa: Constant iff all output bits 0 on the repaired model, partial theorem + witness for the current code; BV/Simon: inverse of the C09 encoding). The gate-list model of the three constructors, the integer amplitude semantics, runClassical of the black box and decode_output are tied to the real objects by exact comparison on every algorithm object of the run (all constant/balanced functions on 1..3 bits x argument types, all secrets on 1..5 bits, all periods on 2..4 bits), whose exact output distribution from the harness' own state-vector simulator is also checked against the textbook guarantee.",
        note="Trusted: Lean kernel (axioms propext, Classical.choice, Quot.sound only, audited per run); the amplitude semantics of H/Z/X/CX/CCX/MCX in QV/Model/Amp.lean (integer amplitudes, 2^{-h/2} factored out; compared on every run with harness/circ.py's simulator, itself validated against qiskit); the hypothesis 'the black box is a clean xor-oracle on classical basis states' is checked per compiled black box by the harness' classical simulator, black boxes failing it are skipped and counted (C02/C03/C06). 'With certainty' is proved as: amplitudes elsewhere vanish and the amplitude at the outcome is +-2^n (unitarity of the circuit is not proved separately). Open finding C16-dj-decode-nonint (DeutschJozsa.decode_output on Tuple/Qlist/Qchar arguments).",
        design="3/C16",
        technique="Lean 4 proof (induction on n over sums on bit lists, classical gates as involutions) + exhaustive model/code correspondence + exact state-vector distribution of the real circuits",
    ),
    "C17": dict(
        text="Lean 4 theorems over all scripts (lists of module-level bindings), all definition lists, all clause lists and all variable orders: C17_full proves the whole statement for the model with the listed defects repaired (entry-point selection, single-function default, combined expression = conjunction of the return bits, normal-form dispatch, DIMACS clause set with exactly the satisfying assignments under a one-to-one numbering, py2qasm = export of the selected function's circuit at the chosen version); partial theorems for the code as it is outside the triggers of 5 open findings, each with a Lean witness; model tied to py2bexp.main()/py2qasm.main() called in-process on generated scripts x forms x formats x entry points x versions, printed text compared exactly and judged by an independent parser/evaluator (DIMACS under the best one-to-one numbering), convert_to_dimacs also on every small CNF.",
        note="Trusted: Lean kernel (axioms propext, Classical.choice, Quot.sound only, audited per run); sympy's to_anf/to_cnf/to_dnf/to_nnf, str() and set iteration order are parameters of the model - their assumed spec (semantics-preserving, cnf = conjunction of clauses, no new symbols) is a hypothesis of the theorems and is validated on every call of a run (one open finding is a sympy to_anf call breaking it); script execution is represented by the list of bindings the generated script performs; compilation is a parameter of the py2qasm model (circuit from an independent compile); tweedledum/recompiler back-ends not exercised.",
        design="3/C17",
        technique="Lean 4 proof (structural induction, permutation/sortedness of getmembers, substitution lemma) + exact model/code correspondence + independent text oracle",
    ),
    "C13": dict(
        text="Lean 4 theorems over all gate lists (induction over the exporter loop): for qiskit (both modes), cirq and sympy, whenever the exporter returns, the calls it made read as the circuit's non-nop gates - same base gate, number of controls, wire indices, parameter, same order (qiskit_translation, cirq_translation, sympy_translation); the OpenQASM 2/3 gate declaration is read back by a proved line reader as name, formals and one line per non-nop gate (qasm_roundtrip, qasm_body_lines, qasm_text_shape); the repaired exporter declares one formal per qubit in index order and each argument resolves to its own position (qasm_formals_full, qasm_wire_position); decide-witnesses for the four open defects. Model tied to the code per run: the recorded QuantumCircuit call sequence, cirq.decompose_once op list, sympy factor list and the QASM text are compared exactly with the model for systematic + random circuits (all gate kinds, MCX(k), MCtrl(X/Z), P/CP over 27 parameter values incl. rounding ties, barriers, name maps in order / dotted / aliased / permuted / incomplete) and compiled qlassf functions x 5 exporters x 2 modes; always-on search judges the real export by own readers + own state-vector simulator (unitary of qiskit Operator / cirq.unitary / sympy represent, <= 6 qubits).",
        note="partial: call lists and text; third-party gate semantics trusted. Proved: translation whenever the exporter returns, QASM syntactic round trip, formals of the repaired exporter. Not proved (correspondence only): that each exporter returns on its exportable set, that the read-back QASM lines resolve to the circuit's operations, the unrepaired formals in the in-order case. Trusted: Lean kernel (axioms audited per run), the reading of qiskit/cirq/sympy calls as textbook gates (validated numerically per case), CPython '%.2f' = round-half-even of the exact value (validated per run), the harness readers. pennylane (not installed) and qutip (exporter fails in the baseline) exporters are out of scope.",
        design="3/C13",
        technique="Lean 4 proof (induction over the exporter loop, list lemmas for the text reader) + exact call-list/text correspondence + numeric unitary comparison",
    ),
    "C15": dict(
        text="Lean 4: model of Grover.__init__'s gate list (any n, oracle gate list, iteration count), of the default iteration count ceil(pi/4*sqrt(N/M)) with rational bounds on pi, and a reduced exact amplitude recurrence (eight integers per step). Theorems: on the whole (n, M) table 2<=n<=6, 1<=M<=2^n/4 (31 entries, decide +kernel, exact integers) success probability > 1/2, every solution more likely than every non-solution, total probability 1; for all n, M, k: normalisation of the recurrence, least-k characterisation of the default count, gate count and wire bounds of the circuit, decode_output inverts the argument encoding (from C09). Harness: every table entry (n<=4 quick, n<=6 thorough) x several solution sets x up to 11 syntactic forms (equality chains, minterms, loops, intervals, tuple/list argument types, oraclize of a lookup function / xor with a target) on fresh qlassfs: exact (integer) state-vector distribution of the real Grover circuit judged directly (solutions > non-solutions, success > 1/2, identical across forms, decode_output + the predicate's own Python function) and compared exactly with the model (gate list, qubit count, iteration count, rational prediction, decoding).",
        note="PARTIAL: the step from the gate list to the reduced recurrence (class_uniform_invariant: H-layer/oracle/MCZ/diffuser keep the state class-uniform for every clean xor-oracle) is NOT proved; C15_statement is stated in Lean over an exact amplitude semantics but only C15_partial is proved; that step is tied by the table-exhaustive correspondence only (exact distribution of each explored real circuit == prediction). Whether a compiled predicate is a clean xor-oracle is C02/C03/C06's matter; one such inherited defect (transform_or2xor arity) made Grover amplify non-solutions; it was found by this check, has a Lean witness on the quirk-model, and is recorded as fixed (a8075e8) with its witness replayed on every run. Trusted: Lean kernel, textbook action of H/X/Z/MCX/MCZ (harness evaluator cross-checked each run against the qiskit-validated simulator), 3.141592 < pi < 3.141593.",
        design="3/C15",
        technique="Lean 4 proof (finite-table decide +kernel, ring identities, induction) + exact-arithmetic model/code correspondence",
    ),
}

NOT_YET = {
}

ALL = [f"C{i:02d}" for i in range(1, 19)]


def main():
    checks = []
    for pid in ALL:
        if pid not in CHECKS:
            continue
        c = CHECKS[pid]
        checks.append(dict(
            property_id=pid,
            quick_cmd=f"./check {pid} --tier quick",
            thorough_cmd=f"./check {pid} --tier thorough",
            evidence_file=f"/verif/evidence/{pid}.json",
            replay_cmd_template=f"./check {pid} --replay {{path}}",
            engine="qv-lean",
            level_claimed=dict(category=c.get("category", "proof"), text=c["text"], design_ref=f"DESIGN.md section {c['design']}"),
            level_note=c["note"],
            technique=c["technique"],
        ))
    na = []
    for pid in ALL:
        if pid not in CHECKS:
            na.append(dict(property_id=pid, reason=NOT_YET.get(pid, "check not built yet in this round (model and theorems planned, see DESIGN.md section 3); not claimed until it exists and passes on the unchanged tree")))
    m = dict(
        version=1,
        setup_cmd="./setup.sh",
        hooks=dict(
            guard="QLASSKIT_VERIF",
            enable="no hook commits: the harness wraps module attributes from its own process (e.g. QCircuitEnhanced.get_free_ancilla); the guard name is reserved",
            baseline_off_cmd="python3 /verif/tools/run_baseline.py",
            source_commits=[],
            add_only=True,
        ),
        engines=[dict(name="qv-lean", path="/verif/lean", serves_properties=sorted(CHECKS),
                      kind_free_text="Lean 4 models + theorems (lake project QV), JSON-lines model driver qvdriver, Python correspondence harness /verif/harness")],
        checks=checks,
        notes="Fix commits in /repo: see known_findings.json (status fixed). Checks read /repo's working tree; QV_REPO overrides the path for the author's own mutation smoke tests only.",
        not_applicable=na,
    )
    with open(os.path.join(HERE, "MANIFEST.json"), "w") as f:
        json.dump(m, f, indent=1)
    print("wrote MANIFEST.json:", len(checks), "checks,", len(na), "not claimed")


if __name__ == "__main__":
    main()
