#!/usr/bin/env python3
"""Regenerate /verif/MANIFEST.json from the table below (keeps it schema-valid)."""
import json, os, subprocess, sys

HERE = os.path.dirname(os.path.dirname(os.path.abspath(__file__)))

CHECKS = {
    "C09": dict(
        text="Lean 4 theorems over all widths (Qint w, Qchar, Qfixed I/F) and all nested types: pattern and value round trips, const = runtime encoding, one-hot amplitude index, interpret_as_qtype inverts concatenated encodings; side conditions discharged on the type tables regenerated from qint.py/qfixed.py/qchar.py on every run; model tied to the code by exhaustive comparison over every shipped type x every bit pattern (w<=12) plus sampled Qint16 and nested types.",
        note="Trusted: Lean kernel (axioms propext, Classical.choice, Quot.sound only, audited per run), the ast-based table extractor, the correspondence harness, CPython float arithmetic being exact on dyadic rationals < 2^11. The theorems are about QV/Model/Types.lean, not the Python text.",
        design="3/C09",
        technique="Lean 4 proof (induction on bit lists) + exhaustive model/code correspondence",
    ),
    "C15": dict(
        text="Lean 4: model of Grover.__init__'s gate list (any n, oracle gate list, iteration count), of the default iteration count ceil(pi/4*sqrt(N/M)) with rational bounds on pi, and a reduced exact amplitude recurrence (eight integers per step). Theorems: on the whole (n, M) table 2<=n<=6, 1<=M<=2^n/4 (31 entries, decide +kernel, exact integers) success probability > 1/2, every solution more likely than every non-solution, total probability 1; for all n, M, k: normalisation of the recurrence, least-k characterisation of the default count, gate count and wire bounds of the circuit, decode_output inverts the argument encoding (from C09). Harness: every table entry (n<=4 quick, n<=6 thorough) x several solution sets x up to 11 syntactic forms (equality chains, minterms, loops, intervals, tuple/list argument types, oraclize of a lookup function / xor with a target) on fresh qlassfs: exact (integer) state-vector distribution of the real Grover circuit judged directly (solutions > non-solutions, success > 1/2, identical across forms, decode_output + the predicate's own Python function) and compared exactly with the model (gate list, qubit count, iteration count, rational prediction, decoding).",
        note="PARTIAL: the step from the gate list to the reduced recurrence (class_uniform_invariant: H-layer/oracle/MCZ/diffuser keep the state class-uniform for every clean xor-oracle) is NOT proved; C15_statement is stated in Lean over an exact amplitude semantics but only C15_partial is proved; that step is tied by the table-exhaustive correspondence only (exact distribution of each explored real circuit == prediction). Whether a compiled predicate is a clean xor-oracle is C02/C03/C06's matter; one such inherited defect (transform_or2xor arity) made Grover amplify non-solutions; it was found by this check, has a Lean witness on the quirk-model, and is recorded as fixed (a8075e8) with its witness replayed on every run. Trusted: Lean kernel, textbook action of H/X/Z/MCX/MCZ (harness evaluator cross-checked each run against the qiskit-validated simulator), 3.141592 < pi < 3.141593.",
        design="3/C15",
        technique="Lean 4 proof (finite-table decide +kernel, ring identities, induction) + exact-arithmetic model/code correspondence",
    ),
}

NOT_YET = {
}

ALL = [f"C{i:02d}" for i in range(1, 19)]


def main():
    checks = []
    for pid in ALL:
        if pid not in CHECKS:
            continue
        c = CHECKS[pid]
        checks.append(dict(
            property_id=pid,
            quick_cmd=f"./check {pid} --tier quick",
            thorough_cmd=f"./check {pid} --tier thorough",
            evidence_file=f"/verif/evidence/{pid}.json",
            replay_cmd_template=f"./check {pid} --replay {{path}}",
            engine="qv-lean",
            level_claimed=dict(category=c.get("category", "proof"), text=c["text"], design_ref=f"DESIGN.md section {c['design']}"),
            level_note=c["note"],
            technique=c["technique"],
        ))
    na = []
    for pid in ALL:
        if pid not in CHECKS:
            na.append(dict(property_id=pid, reason=NOT_YET.get(pid, "check not built yet in this round (model and theorems planned, see DESIGN.md section 3); not claimed until it exists and passes on the unchanged tree")))
    m = dict(
        version=1,
        setup_cmd="./setup.sh",
        hooks=dict(
            guard="QLASSKIT_VERIF",
            enable="no hook commits: the harness wraps module attributes from its own process (e.g. QCircuitEnhanced.get_free_ancilla); the guard name is reserved",
            baseline_off_cmd="python3 /verif/tools/run_baseline.py",
            source_commits=[],
            add_only=True,
        ),
        engines=[dict(name="qv-lean", path="/verif/lean", serves_properties=sorted(CHECKS),
                      kind_free_text="Lean 4 models + theorems (lake project QV), JSON-lines model driver qvdriver, Python correspondence harness /verif/harness")],
        checks=checks,
        notes="Fix commits in /repo: see known_findings.json (status fixed). Checks read /repo's working tree; QV_REPO overrides the path for the author's own mutation smoke tests only.",
        not_applicable=na,
    )
    with open(os.path.join(HERE, "MANIFEST.json"), "w") as f:
        json.dump(m, f, indent=1)
    print("wrote MANIFEST.json:", len(checks), "checks,", len(na), "not claimed")


if __name__ == "__main__":
    main()
