#!/usr/bin/env python3
"""Regenerate /verif/MANIFEST.json from the table below (keeps it schema-valid)."""
import json, os, subprocess, sys

HERE = os.path.dirname(os.path.dirname(os.path.abspath(__file__)))

CHECKS = {
    "C04": dict(
        text="Lean 4 theorems for every expression tree and every definition list: each of the five pattern transformers, the plain SympyTransformer traversal and custom_simplify_logic keep the value under every assignment and add no symbol (mutual induction over BExp / List BExp, for every sympy-constructor kernel meeting its spec); merge_expressions keeps the value of every return symbol for lists with shared and re-bound intermediates; apply_cse from the spec of its cse call; every step list built from the seven modelled steps preserves every return symbol, the list of return symbols and the set of free symbols, and the step lists of defaultOptimizer / fastOptimizer (re-extracted from bool_optimizer.py on every run) consist of modelled steps (decide). The full statement is proved for the model with the two listed defects repaired (C04_full), for the code as it is on runs that meet neither (C04_partial); each defect has a Lean witness replayed on the real code. Always-on search: rule-shaped, random and front-end-produced lists through each single step and both whole profiles on the real code, judged by an own evaluator on all assignments.",
        note="Trusted: Lean kernel (axioms audited per run), the ast-based extractor of the profile step lists, the correspondence harness (model's raw tree passed through sympy's constructors == code's tree, per transformer and per merge sub-step; apply_cse exact). sympy's And/Or/Not/Xor/ITE/Implies constructors, simplify_logic and cse are parameters of the model; their specs are hypotheses of the theorems and are checked on every call observed in a run. Well-formed list = no right-hand side reads a _ret* symbol. Open findings: C04-or2xor-arity, C04-cse-hoist (patches proposed in docs/fixes).",
        design="3/C04",
        technique="Lean 4 proof (mutual structural induction, list invariants) + structural model/code correspondence + exhaustive-assignment oracle on generated lists",
    ),
    "C09": dict(
        text="Lean 4 theorems over all widths (Qint w, Qchar, Qfixed I/F) and all nested types: pattern and value round trips, const = runtime encoding, one-hot amplitude index, interpret_as_qtype inverts concatenated encodings; side conditions discharged on the type tables regenerated from qint.py/qfixed.py/qchar.py on every run; model tied to the code by exhaustive comparison over every shipped type x every bit pattern (w<=12) plus sampled Qint16 and nested types.",
        note="Trusted: Lean kernel (axioms propext, Classical.choice, Quot.sound only, audited per run), the ast-based table extractor, the correspondence harness, CPython float arithmetic being exact on dyadic rationals < 2^11. The theorems are about QV/Model/Types.lean, not the Python text.",
        design="3/C09",
        technique="Lean 4 proof (induction on bit lists) + exhaustive model/code correspondence",
    ),
}

NOT_YET = {
}

ALL = [f"C{i:02d}" for i in range(1, 19)]


def main():
    checks = []
    for pid in ALL:
        if pid not in CHECKS:
            continue
        c = CHECKS[pid]
        checks.append(dict(
            property_id=pid,
            quick_cmd=f"./check {pid} --tier quick",
            thorough_cmd=f"./check {pid} --tier thorough",
            evidence_file=f"/verif/evidence/{pid}.json",
            replay_cmd_template=f"./check {pid} --replay {{path}}",
            engine="qv-lean",
            level_claimed=dict(category=c.get("category", "proof"), text=c["text"], design_ref=f"DESIGN.md section {c['design']}"),
            level_note=c["note"],
            technique=c["technique"],
        ))
    na = []
    for pid in ALL:
        if pid not in CHECKS:
            na.append(dict(property_id=pid, reason=NOT_YET.get(pid, "check not built yet in this round (model and theorems planned, see DESIGN.md section 3); not claimed until it exists and passes on the unchanged tree")))
    m = dict(
        version=1,
        setup_cmd="./setup.sh",
        hooks=dict(
            guard="QLASSKIT_VERIF",
            enable="no hook commits: the harness wraps module attributes from its own process (e.g. QCircuitEnhanced.get_free_ancilla); the guard name is reserved",
            baseline_off_cmd="python3 /verif/tools/run_baseline.py",
            source_commits=[],
            add_only=True,
        ),
        engines=[dict(name="qv-lean", path="/verif/lean", serves_properties=sorted(CHECKS),
                      kind_free_text="Lean 4 models + theorems (lake project QV), JSON-lines model driver qvdriver, Python correspondence harness /verif/harness")],
        checks=checks,
        notes="Fix commits in /repo: see known_findings.json (status fixed). Checks read /repo's working tree; QV_REPO overrides the path for the author's own mutation smoke tests only.",
        not_applicable=na,
    )
    with open(os.path.join(HERE, "MANIFEST.json"), "w") as f:
        json.dump(m, f, indent=1)
    print("wrote MANIFEST.json:", len(checks), "checks,", len(na), "not claimed")


if __name__ == "__main__":
    main()
