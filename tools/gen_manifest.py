#!/usr/bin/env python3
"""Regenerate /verif/MANIFEST.json from the table below (keeps it schema-valid)."""
import json, os, subprocess, sys

HERE = os.path.dirname(os.path.dirname(os.path.abspath(__file__)))

CHECKS = {
    "C09": dict(
        text="Lean 4 theorems over all widths (Qint w, Qchar, Qfixed I/F) and all nested types: pattern and value round trips, const = runtime encoding, one-hot amplitude index, interpret_as_qtype inverts concatenated encodings; side conditions discharged on the type tables regenerated from qint.py/qfixed.py/qchar.py on every run; model tied to the code by exhaustive comparison over every shipped type x every bit pattern (w<=12) plus sampled Qint16 and nested types.",
        note="Trusted: Lean kernel (axioms propext, Classical.choice, Quot.sound only, audited per run), the ast-based table extractor, the correspondence harness, CPython float arithmetic being exact on dyadic rationals < 2^11. The theorems are about QV/Model/Types.lean, not the Python text.",
        design="3/C09",
        technique="Lean 4 proof (induction on bit lists) + exhaustive model/code correspondence",
    ),
    "C10": dict(
        text="Lean 4 theorems about an explicit heap model of the public API (QV/Model/Api.lean: objects, the namespace of the module qlasskit.qlassfun, mutable defaults; step : ApiState -> Op -> ApiState x Result for qlassf on strings/callables with defs=, bind, oraclize, Grover/DeutschJozsa/Simon/BernsteinVazirani, secret_oracle, export, decompile, truth_table, repr, QCircuit.copy), for all pools, all compile oracles, all states and all histories: frame / frame_run (no operation changes the fingerprint of an existing object; induction over the operation list), later_calls_ok (module namespace and defaults never written), history_free (status and new object depend on the operation and its argument objects only), C10_full for the repaired model; one decide-witness per open defect for the model of the code as it is and C10_partial away from the triggers. Tie: histories over a pool of 32 programs with colliding names run on the real library, each in a worker interpreter that re-imports qlasskit from scratch; after every operation every live object (name, args/expressions hash, gates, qubit_map, input/output qubits, original_f on every input) and the library state (rebound globals of every qlasskit module, mutable defaults) are compared with the object's dependency closure run alone in a pristine library, with a reference evaluator for original_f, and exactly with the model run with the active quirks.",
        note="partial: modelled heap only. Compilation itself is an opaque function supplied from fresh runs; interpreter state outside the modelled heap (import caches, sympy's cache) is covered by the fresh-process comparison only, as a test; baselines re-import qlasskit per job but share third-party modules (a slice is re-run in completely fresh interpreters). history_free is stated for equal argument objects, not merely equal fingerprints. The read-sets of module globals per operation are hand-written from the code and validated for the colliding names of the pool (copy, ast, len, flatten, Symbol, Qint), not derived from the source. Trusted: Lean kernel (standard axioms, audited per run), the ast extractor (locals of from_function at the eval call, exec(f, globals()) present), the harness and its reference evaluator.",
        design="3/C10",
        technique="Lean 4 proof (state-machine invariants by induction over operation lists) + fresh-interpreter differential testing of API histories + exact model/code correspondence",
    ),
}

NOT_YET = {
}

ALL = [f"C{i:02d}" for i in range(1, 19)]


def main():
    checks = []
    for pid in ALL:
        if pid not in CHECKS:
            continue
        c = CHECKS[pid]
        checks.append(dict(
            property_id=pid,
            quick_cmd=f"./check {pid} --tier quick",
            thorough_cmd=f"./check {pid} --tier thorough",
            evidence_file=f"/verif/evidence/{pid}.json",
            replay_cmd_template=f"./check {pid} --replay {{path}}",
            engine="qv-lean",
            level_claimed=dict(category=c.get("category", "proof"), text=c["text"], design_ref=f"DESIGN.md section {c['design']}"),
            level_note=c["note"],
            technique=c["technique"],
        ))
    na = []
    for pid in ALL:
        if pid not in CHECKS:
            na.append(dict(property_id=pid, reason=NOT_YET.get(pid, "check not built yet in this round (model and theorems planned, see DESIGN.md section 3); not claimed until it exists and passes on the unchanged tree")))
    m = dict(
        version=1,
        setup_cmd="./setup.sh",
        hooks=dict(
            guard="QLASSKIT_VERIF",
            enable="no hook commits: the harness wraps module attributes from its own process (e.g. QCircuitEnhanced.get_free_ancilla); the guard name is reserved",
            baseline_off_cmd="python3 /verif/tools/run_baseline.py",
            source_commits=[],
            add_only=True,
        ),
        engines=[dict(name="qv-lean", path="/verif/lean", serves_properties=sorted(CHECKS),
                      kind_free_text="Lean 4 models + theorems (lake project QV), JSON-lines model driver qvdriver, Python correspondence harness /verif/harness")],
        checks=checks,
        notes="Fix commits in /repo: see known_findings.json (status fixed). Checks read /repo's working tree; QV_REPO overrides the path for the author's own mutation smoke tests only.",
        not_applicable=na,
    )
    with open(os.path.join(HERE, "MANIFEST.json"), "w") as f:
        json.dump(m, f, indent=1)
    print("wrote MANIFEST.json:", len(checks), "checks,", len(na), "not claimed")


if __name__ == "__main__":
    main()
