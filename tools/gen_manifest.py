#!/usr/bin/env python3
"""Regenerate /verif/MANIFEST.json from the table below (keeps it schema-valid)."""
import json, os, subprocess, sys

HERE = os.path.dirname(os.path.dirname(os.path.abspath(__file__)))

CHECKS = {
    "C09": dict(
        text="Lean 4 theorems over all widths (Qint w, Qchar, Qfixed I/F) and all nested types: pattern and value round trips, const = runtime encoding, one-hot amplitude index, interpret_as_qtype inverts concatenated encodings; side conditions discharged on the type tables regenerated from qint.py/qfixed.py/qchar.py on every run; model tied to the code by exhaustive comparison over every shipped type x every bit pattern (w<=12) plus sampled Qint16 and nested types.",
        note="Trusted: Lean kernel (axioms propext, Classical.choice, Quot.sound only, audited per run), the ast-based table extractor, the correspondence harness, CPython float arithmetic being exact on dyadic rationals < 2^11. The theorems are about QV/Model/Types.lean, not the Python text.",
        design="3/C09",
        technique="Lean 4 proof (induction on bit lists) + exhaustive model/code correspondence",
    ),
    "C14": dict(
        text="Lean 4 theorems over all circuits, qubit lists, n and list lengths, for every monoid-valued gate semantics: act(append_circuit) = act(self) * act(other relabelled through the qubit list); += and + are sequential composition; repeat(n) = act^n (all n for the repaired model, n>=1 for the code as it is, Lean witness for n=0); copy/+/repeat results are equal resp. composed circuits that share no mutable heap object (gate list, gates_computed list, qubit_map, wire lists) with their operands, so no heap write through the result is visible in an operand (frame theorem on the modelled heap); remove_identities returns and preserves the action when the cancelled classes square to 1 and barriers are 1 (repaired model; the code as it is on every gate list that avoids the two listed defects, Lean witnesses for both); iqft after qft acts as 1 on every duplicate-free qubit list of any length, from H^2=1, SWAP^2=1, CP(t)CP(-t)=1 and commutation of gates on disjoint wires. Model tied to the code by exact comparison of result circuits, error classes and Python object-identity patterns on a systematic slice (every gate kind x every operator x position) plus random cases; the property is judged on the real code by an own state-vector simulator and heap snapshots before/after the call and after mutating the result.",
        note="Trusted: Lean kernel (axioms propext, Classical.choice, Quot.sound only, audited per run), the correspondence harness and its simulator (harness/circ.py). The theorems are about QV/Model/CircuitOps.lean: gate semantics enters only through the stated algebraic laws; copy.deepcopy is modelled as an identity-pattern-preserving fresh copy; gate descriptor objects and parameters are treated as immutable; that an in-place operator leaves its other operand alone is checked on the code, not proved; negative repeat counts / negative indices, QCircuit.__native and the ancilla sets of QCircuitEnhanced are outside the model. Open findings: repeat(0), remove_identities IndexError on an empty result, remove_identities cancelling S/T/P/CP pairs.",
        design="3/C14",
        technique="Lean 4 proof (list induction, loop invariant, monoid algebra) + exact model/code correspondence incl. object identities + numeric unitary oracle",
    ),
}

NOT_YET = {
}

ALL = [f"C{i:02d}" for i in range(1, 19)]


def main():
    checks = []
    for pid in ALL:
        if pid not in CHECKS:
            continue
        c = CHECKS[pid]
        checks.append(dict(
            property_id=pid,
            quick_cmd=f"./check {pid} --tier quick",
            thorough_cmd=f"./check {pid} --tier thorough",
            evidence_file=f"/verif/evidence/{pid}.json",
            replay_cmd_template=f"./check {pid} --replay {{path}}",
            engine="qv-lean",
            level_claimed=dict(category=c.get("category", "proof"), text=c["text"], design_ref=f"DESIGN.md section {c['design']}"),
            level_note=c["note"],
            technique=c["technique"],
        ))
    na = []
    for pid in ALL:
        if pid not in CHECKS:
            na.append(dict(property_id=pid, reason=NOT_YET.get(pid, "check not built yet in this round (model and theorems planned, see DESIGN.md section 3); not claimed until it exists and passes on the unchanged tree")))
    m = dict(
        version=1,
        setup_cmd="./setup.sh",
        hooks=dict(
            guard="QLASSKIT_VERIF",
            enable="no hook commits: the harness wraps module attributes from its own process (e.g. QCircuitEnhanced.get_free_ancilla); the guard name is reserved",
            baseline_off_cmd="python3 /verif/tools/run_baseline.py",
            source_commits=[],
            add_only=True,
        ),
        engines=[dict(name="qv-lean", path="/verif/lean", serves_properties=sorted(CHECKS),
                      kind_free_text="Lean 4 models + theorems (lake project QV), JSON-lines model driver qvdriver, Python correspondence harness /verif/harness")],
        checks=checks,
        notes="Fix commits in /repo: see known_findings.json (status fixed). Checks read /repo's working tree; QV_REPO overrides the path for the author's own mutation smoke tests only.",
        not_applicable=na,
    )
    with open(os.path.join(HERE, "MANIFEST.json"), "w") as f:
        json.dump(m, f, indent=1)
    print("wrote MANIFEST.json:", len(checks), "checks,", len(na), "not claimed")


if __name__ == "__main__":
    main()
