#!/usr/bin/env python3
"""Regenerate /verif/MANIFEST.json from the table below (keeps it schema-valid)."""
import json, os, subprocess, sys

HERE = os.path.dirname(os.path.dirname(os.path.abspath(__file__)))

CHECKS = {
    "C09": dict(
        text="Lean 4 theorems over all widths (Qint w, Qchar, Qfixed I/F) and all nested types: pattern and value round trips, const = runtime encoding, one-hot amplitude index, interpret_as_qtype inverts concatenated encodings; side conditions discharged on the type tables regenerated from qint.py/qfixed.py/qchar.py on every run; model tied to the code by exhaustive comparison over every shipped type x every bit pattern (w<=12) plus sampled Qint16 and nested types.",
        note="Trusted: Lean kernel (axioms propext, Classical.choice, Quot.sound only, audited per run), the ast-based table extractor, the correspondence harness, CPython float arithmetic being exact on dyadic rationals < 2^11. The theorems are about QV/Model/Types.lean, not the Python text.",
        design="3/C09",
        technique="Lean 4 proof (induction on bit lists) + exhaustive model/code correspondence",
    ),
    "C16": dict(
        text="Lean 4 theorems for every n, every position of the result qubit, every number of ancillas and every black-box gate list that is a clean classical xor-oracle: Walsh-Hadamard layer lemma; Deutsch-Jozsa (constant: all amplitude outside y=0 vanishes and the amplitude at y=0 is +-2^n; balanced: amplitude at y=0 vanishes); Bernstein-Vazirani (f(x)=x.s: only y=s survives, amplitude +-2^n); Simon (two-to-one F with period s: amplitude at every (y,z) with y.s=1 vanishes, squared amplitude independent of y on y.s=0, outcome weights equal); decode_output (Deutsch-Jozsa: Constant iff all output bits 0 on the repaired model, partial theorem + witness for the current code; BV/Simon: inverse of the C09 encoding). The gate-list model of the three constructors, the integer amplitude semantics, runClassical of the black box and decode_output are tied to the real objects by exact comparison on every algorithm object of the run (all constant/balanced functions on 1..3 bits x argument types, all secrets on 1..5 bits, all periods on 2..4 bits), whose exact output distribution from the harness' own state-vector simulator is also checked against the textbook guarantee.",
        note="Trusted: Lean kernel (axioms propext, Classical.choice, Quot.sound only, audited per run); the amplitude semantics of H/Z/X/CX/CCX/MCX in QV/Model/Amp.lean (integer amplitudes, 2^{-h/2} factored out; compared on every run with harness/circ.py's simulator, itself validated against qiskit); the hypothesis 'the black box is a clean xor-oracle on classical basis states' is checked per compiled black box by the harness' classical simulator, black boxes failing it are skipped and counted (C02/C03/C06). 'With certainty' is proved as: amplitudes elsewhere vanish and the amplitude at the outcome is +-2^n (unitarity of the circuit is not proved separately). Open finding C16-dj-decode-nonint (DeutschJozsa.decode_output on Tuple/Qlist/Qchar arguments).",
        design="3/C16",
        technique="Lean 4 proof (induction on n over sums on bit lists, classical gates as involutions) + exhaustive model/code correspondence + exact state-vector distribution of the real circuits",
    ),
}

NOT_YET = {
}

ALL = [f"C{i:02d}" for i in range(1, 19)]


def main():
    checks = []
    for pid in ALL:
        if pid not in CHECKS:
            continue
        c = CHECKS[pid]
        checks.append(dict(
            property_id=pid,
            quick_cmd=f"./check {pid} --tier quick",
            thorough_cmd=f"./check {pid} --tier thorough",
            evidence_file=f"/verif/evidence/{pid}.json",
            replay_cmd_template=f"./check {pid} --replay {{path}}",
            engine="qv-lean",
            level_claimed=dict(category=c.get("category", "proof"), text=c["text"], design_ref=f"DESIGN.md section {c['design']}"),
            level_note=c["note"],
            technique=c["technique"],
        ))
    na = []
    for pid in ALL:
        if pid not in CHECKS:
            na.append(dict(property_id=pid, reason=NOT_YET.get(pid, "check not built yet in this round (model and theorems planned, see DESIGN.md section 3); not claimed until it exists and passes on the unchanged tree")))
    m = dict(
        version=1,
        setup_cmd="./setup.sh",
        hooks=dict(
            guard="QLASSKIT_VERIF",
            enable="no hook commits: the harness wraps module attributes from its own process (e.g. QCircuitEnhanced.get_free_ancilla); the guard name is reserved",
            baseline_off_cmd="python3 /verif/tools/run_baseline.py",
            source_commits=[],
            add_only=True,
        ),
        engines=[dict(name="qv-lean", path="/verif/lean", serves_properties=sorted(CHECKS),
                      kind_free_text="Lean 4 models + theorems (lake project QV), JSON-lines model driver qvdriver, Python correspondence harness /verif/harness")],
        checks=checks,
        notes="Fix commits in /repo: see known_findings.json (status fixed). Checks read /repo's working tree; QV_REPO overrides the path for the author's own mutation smoke tests only.",
        not_applicable=na,
    )
    with open(os.path.join(HERE, "MANIFEST.json"), "w") as f:
        json.dump(m, f, indent=1)
    print("wrote MANIFEST.json:", len(checks), "checks,", len(na), "not claimed")


if __name__ == "__main__":
    main()
