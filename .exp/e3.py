from qlasskit import qlassf
def show(src):
    print("==", src.replace("\n","\\n"))
    try:
        qf = qlassf(src, to_compile=False)
        print("  exps", qf.expressions)
        print("  orig", qf.original_f(0) if len(qf.args)==1 else None)
    except Exception as e:
        print("  EXC", type(e).__name__, e)
show("def test(a: Qint[4]) -> Qint[4]:\n\tc = Qint4(3)\n\treturn (c << 2) + a")
show("def test(a: Qint[4]) -> bool:\n\tc = Qint4(3)\n\treturn c > a")
show("def test(a: Qint[4]) -> Qint[4]:\n\tc = (True, Qint4(3))\n\treturn (c[1] << 2) + a")
show("def test(a: Qint[4]) -> Qint[4]:\n\tc = (Qint4(3), Qint4(1))\n\tr = a\n\tfor x in c:\n\t\tr = r + (x << 2)\n\treturn r")
show("def test(a: Qint[2]) -> Qint[2]:\n\tc = Qint4(1)\n\tL = [1,2,3,0]\n\treturn L[c] + a")
show("def test(a: Qint[2]) -> Qint[2]:\n\tc = Qint3(1)\n\treturn c + a")
