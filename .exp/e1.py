import sys, ast, itertools, traceback
from qlasskit import qlassf, Qint, Parameter
def tt(qf):
    from sympy import Symbol
    from qlasskit.boolopt.bool_optimizer import merge_expressions
    return qf
def show(src, **kw):
    print("==", src.replace("\n","\\n"), kw)
    try:
        u = qlassf(src, to_compile=False)
        print("  type", type(u).__name__, getattr(u,'parameters',None) and {k: ast.dump(v) for k,v in u.parameters.items()})
        qf = u.bind(**kw) if hasattr(u,'parameters') else u
        print("  args", [(a.name, a.ttype) for a in qf.args], "ret", qf.returns.ttype)
        print("  exps", qf.expressions)
    except Exception as e:
        print("  EXC", type(e).__name__, e)
show("def test(c: Parameter[Qint[4]], a: Qint[2]) -> Qint[4]: return c + a", c=1)
show("def test(c: Parameter[Qint[4]], a: Qint[2]) -> Qint[4]: return ~c", c=1)
show("def test(c: Parameter[Qint[4]], a: Qint[4]) -> Qint[4]: return ~c + a", c=1)
show("def test(c: Parameter[Qint[4]], a: Qint[4]) -> Qint[4]: return (c << 2) + a", c=3)
show("def test(c: Parameter[Qint[4]], a: Qint[4]) -> bool: return c > a", c=3)
show("def test(c: Parameter[Qint[4]], a: Qint[4]) -> bool: return a < c", c=3)
show("def test(c: Parameter[Qint[4]], a: Qint[4]) -> Qint[4]: return c - a", c=3)
show("def test(c: Parameter[bool], d: qlasskit.Parameter[bool], a: bool) -> bool: return a and c", c=True)
show("def test(c: Parameter[bool], d: qlasskit.Parameter[bool], a: bool) -> bool: return a and c and d", c=True)
show("def test(c: Parameter[bool], d: Parameter, a: bool) -> bool: return a and c", c=True)
show("def test(c: Parameter[bool], a: bool) -> bool: return a and c", c=True, d=False)
show("def test(c: Parameter[bool], a: bool) -> bool: return a and c", a=True)
show("def test(c: Parameter[bool], a: bool) -> bool: return a and c")
show("def test(c: Parameter[bool], a: bool) -> bool:\n\tc = not c\n\treturn a and c", c=True)
show("def test(c: Parameter[bool], a: bool) -> bool:\n\tif a:\n\t\tc = not c\n\treturn c", c=True)
show("def test(c: Parameter[Qint[2]], a: bool) -> Qint[2]:\n\tif a:\n\t\tc = c + 1\n\treturn c", c=1)
show("def test(c: Parameter[Qint[2]], a: Qint[2]) -> Qint[2]:\n\tfor i in range(c):\n\t\ta += 1\n\treturn a", c=2)
