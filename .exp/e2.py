import sys, ast
from qlasskit import qlassf
def show(src):
    print("==", src.replace("\n","\\n"))
    try:
        qf = qlassf(src, to_compile=False)
        print("  args", [(a.name, a.ttype.__name__) for a in qf.args], "ret", qf.returns.ttype)
        print("  exps", qf.expressions)
    except Exception as e:
        print("  EXC", type(e).__name__, e)
show("def test(a: Qint[4]) -> Qint[4]:\n\tc: Qint[4] = 3\n\treturn (c << 2) + a")
show("def test(a: Qint[4]) -> Qint[4]:\n\tc = 3\n\treturn (c << 2) + a")
show("def test(a: Qint[4]) -> Qint[4]:\n\treturn (3 << 2) + a")
show("def test(a: Qint[2]) -> Qint[4]:\n\treturn (a << 2)")
show("def test(a: Qint[4]) -> bool:\n\tc: Qint[4] = 3\n\treturn c > a")
show("def test(a: Qint[4]) -> Qint[4]:\n\tc: Qint[4] = 3\n\treturn c - a")
show("def test(a: Qint[4]) -> Qint[4]:\n\tc: Qint[4] = 3\n\treturn ~c")
show("def test(a: bool) -> bool:\n\tc: Tuple[bool, Qint[2]] = (True, 2)\n\treturn c[0] and a")
show("def test(a: bool) -> bool:\n\tc: Qlist[bool, 2] = [True, False]\n\treturn c[0] and a")
show("def test(a: bool) -> bool:\n\tc: bool = True\n\treturn c and a")
show("def test(a: Qint[2]) -> Qint[2]:\n\tc: Qint[2] = 2\n\tfor i in range(c):\n\t\ta += 1\n\treturn a")
show("def test(a: Qint[2]) -> Qint[2]:\n\tc = 2\n\tfor i in range(c):\n\t\ta += 1\n\treturn a")
