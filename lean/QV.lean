-- Root of the `QV` library: models, proofs and property theorems for dakk/qlasskit.
import QV.Base.Bits
import QV.Base.Quirks
import QV.Model.Types
