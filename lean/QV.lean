-- Root of the `QV` library: models, proofs and property theorems for dakk/qlasskit.
import QV.Base.Bits
import QV.Base.Quirks
import QV.Base.BExp
import QV.Model.Types
import QV.Model.Circuit
import QV.Gen.Tables
import QV.Drive.BExpJson
import QV.Drive.CircJson
import QV.Props.C09
import QV.Model.Api
import QV.Props.C10
