import QV.Base.BExp
import QV.Base.Quirks
import QV.Model.Circuit
import QV.Model.Decompiler
import QV.Model.Compiler
/-!
# The circuit boolean optimizer

Model of `qlasskit/decompiler/decopt.py` (`custom_simplify_logic2`, `circuit_boolean_optimizer`
without a `preserve` list) on top of the models of `decompiler.py` (`QV.Decompiler`) and of
`compiler/__init__.py:exprs_to_quantum` = `InternalCompiler.compile(returns=None,
uncompute=False)` (`QV.Compiler.compile inputs exprs none false`).

* sympy's `simplify_logic` is a parameter `simp`; `type(expr)(*args)` goes through a kernel of
  constructors (`Kernel4`), as in `QV.Decompiler`.
* `set.pop()` of the compiler's free ancillas: the popped qubits of each section's
  re-synthesis are an input (`choices`).
* quirk `spliceIgnoresRename` (on = the code as it is): the splice test looks at the gate count
  and at the qubits the new gates touch only.  The re-synthesis expresses `q1 = q0` by *renaming*
  (its `qubit_map` sends `q1` to index 0, no gate is emitted), so a section that simplifies to a
  relabelling of qubits is replaced by nothing.  Off = the repaired code
  (`docs/fixes/C12-splice-name-stable.diff`): a re-synthesis whose `qubit_map` no longer sends
  every `q{i}` to `i` is not spliced in.
-/
namespace QV.Decopt
open QV QV.Decompiler

/-! ## `custom_simplify_logic2` -/

/-- the four sympy constructors `type(expr)(*args)` can call -/
structure Kernel4 where
  mkNot : BExp → BExp
  mkAnd : List BExp → BExp
  mkOr : List BExp → BExp
  mkXor : List BExp → BExp

def rawKernel4 : Kernel4 := ⟨.not, .and, .or, .xor⟩

/-- what is assumed of sympy's constructors: their meaning -/
structure Kernel4.Sound (K : Kernel4) : Prop where
  not_eval : ∀ ρ e, (K.mkNot e).eval ρ = !e.eval ρ
  and_eval : ∀ ρ l, (K.mkAnd l).eval ρ = evalAnd ρ l
  or_eval : ∀ ρ l, (K.mkOr l).eval ρ = evalOr ρ l
  xor_eval : ∀ ρ l, (K.mkXor l).eval ρ = evalXor ρ l

mutual
/-- `custom_simplify_logic2(expr)`: an `Xor` is handed to `simplify_logic`, whose answer is kept
when it is an `Xor`, a `Not` or a `Symbol`; otherwise, and for `And/Or/Not`, the arguments are
simplified recursively and the node is rebuilt; everything else goes to `simplify_logic` -/
def customSimplify (simp : BExp → BExp) (K : Kernel4) : BExp → BExp
  | .xor args =>
    match simp (.xor args) with
    | .xor l => .xor l
    | .not e => .not e
    | .sym s => .sym s
    | _ => K.mkXor (customSimplifyList simp K args)
  | .and args => K.mkAnd (customSimplifyList simp K args)
  | .or args => K.mkOr (customSimplifyList simp K args)
  | .not a => K.mkNot (customSimplify simp K a)
  | .tt => simp .tt
  | .ff => simp .ff
  | .sym s => simp (.sym s)
  | .ite c t e => simp (.ite c t e)
  | .imp a b => simp (.imp a b)
def customSimplifyList (simp : BExp → BExp) (K : Kernel4) : List BExp → List BExp
  | [] => []
  | e :: es => customSimplify simp K e :: customSimplifyList simp K es
end

/-- `[(s, custom_simplify_logic2(e).xreplace({})) for s, e in section.expressions]` -/
def simplifySection (simp : BExp → BExp) (K : Kernel4) (s : Section) : List (String × BExp) :=
  s.exps.map fun p => (p.1, customSimplify simp K p.2)

/-! ## re-synthesis of one section -/

/-- what the splice loop reads of the circuit returned by `exprs_to_quantum` -/
structure SecResult where
  gates : List AGate
  qmap : List (String × Nat)
  numQubits : Nat
  deriving Repr

/-- `list(qc.qubit_map.keys())` of the vanilla copy: `q0 … q{n-1}` -/
def symbols (n : Nat) : List String := (List.range n).map qname

/-- `exprs_to_quantum(exprs=n_exps, symbols=symbols, compiler="internal")`: every qubit a `bool`
argument, `returns=None`, no final uncomputation -/
def resynth (n : Nat) (exprs : List (String × BExp)) (choices : List Nat) : Except String SecResult :=
  match (Compiler.compile (symbols n) exprs none false).run { choices := choices } with
  | .error e => .error e
  | .ok ((), s) => .ok ⟨s.qc.gates.toList, s.qc.qmap, s.qc.numQubits⟩

/-! ## the splice loop -/

/-- the wires of a gate list (`section_qubits` / `QCircuit.used_qubits`, as a list) -/
def wiresOf (gs : List AGate) : List Nat := gs.flatMap (·.wires)

/-- the re-synthesised circuit still calls qubit `i` `q{i}`, for every `i < n` -/
def nameStable (n : Nat) (qmap : List (String × Nat)) : Bool :=
  (List.range n).all fun i => Compiler.dictGet? qmap (qname i) == some i

/-- negation of the `continue` test of the loop: not larger, touches only the section's qubits
(and, in the repaired code, renames no qubit) -/
def accept (q : Quirks) (n : Nat) (sec : Section) (r : SecResult) : Bool :=
  decide (r.gates.length ≤ sec.gates.length) &&
  (wiresOf r.gates).all (fun i => (wiresOf sec.gates).contains i) &&
  (q.spliceIgnoresRename || nameStable n r.qmap)

/-- Python `l[start:stop] = new` (a slice with `stop < start` is the empty slice at `start`) -/
def splice (gs : List AGate) (start stop : Nat) (new : List AGate) : List AGate :=
  gs.take start ++ new ++ gs.drop (max start stop)

/-- `for section in reversed(dc)` on `qc_new.gates` (the list passed here is already reversed);
an exception of the re-synthesis propagates -/
def spliceLoop (q : Quirks) (n : Nat) (resyn : Section → Except String SecResult) :
    List Section → List AGate → Except String (List AGate)
  | [], acc => .ok acc
  | s :: rest, acc =>
    match resyn s with
    | .error e => .error e
    | .ok r =>
      if accept q n s r then spliceLoop q n resyn rest (splice acc s.start s.stop r.gates)
      else spliceLoop q n resyn rest acc

/-- `circuit_boolean_optimizer(qc)` with the per-section re-synthesis as a parameter: the gate
list of the returned circuit (its `num_qubits` is `n`, copied) -/
def optimizeWith (q : Quirks) (K : Kernel) (n : Nat) (resyn : Section → Except String SecResult)
    (gs : List AGate) : Except String (List AGate) :=
  match decompile q K n gs with
  | .error e => .error e
  | .ok secs => spliceLoop q n resyn secs.reverse gs

/-- the re-synthesis the code performs: simplify, then compile -/
def resynSection (n : Nat) (simpSec : Section → List (String × BExp)) (choices : Section → List Nat)
    (s : Section) : Except String SecResult :=
  resynth n (simpSec s) (choices s)

/-- `circuit_boolean_optimizer(qc)` for a circuit with `n` qubits and gate list `gs` -/
def optimize (q : Quirks) (K : Kernel) (K4 : Kernel4) (simp : BExp → BExp)
    (choices : Section → List Nat) (n : Nat) (gs : List AGate) : Except String (List AGate) :=
  optimizeWith q K n (resynSection n (simplifySection simp K4) choices) gs

/-! ## per-instance validation of a splice -/

/-- the new gate list consists of X/CX/MCX-like gates (or no-ops) on distinct wires and has
the same classical action as the old one on every basis state of `n` qubits -/
def sectionOKb (n : Nat) (old new : List AGate) : Bool :=
  new.all (fun g => (g.cls.isMCXLike || g.cls.isNop) && decide g.wires.Nodup) &&
  (Compiler.allBits n).all fun st => runClassical new st == runClassical old st

/-- every splice the loop performs passes `sectionOKb` -/
def validated (q : Quirks) (n : Nat) (resyn : Section → Except String SecResult)
    (secs : List Section) : Bool :=
  secs.all fun s =>
    match resyn s with
    | .ok r => !accept q n s r || sectionOKb n s.gates r.gates
    | .error _ => true

/-- inputs on which the code as it is departs from the repaired code: some section is spliced
although its re-synthesis renamed a qubit -/
def triggers (q : Quirks) (n : Nat) (resyn : Section → Except String SecResult)
    (secs : List Section) : Bool :=
  q.spliceIgnoresRename && secs.any fun s =>
    match resyn s with
    | .ok r => accept q n s r && !nameStable n r.qmap
    | .error _ => false

/-! ## what the repaired code splices in: X gates of self-negations

(`QV/Proofs/Decopt2.lean`: a re-synthesis of distinct definitions of `q0 … q{n-1}` whose qubit map
is `nameStable` has this shape; a splice of this shape is `SectionOK`.) -/

/-- the index `i < n` with `q{i} = name` -/
def qidx (n : Nat) (name : String) : Option Nat := (List.range n).find? fun i => qname i == name

/-- the definition `q = ~q` -/
def selfNeg (p : String × BExp) : Bool := p.2 == BExp.not (.sym p.1)

/-- the definition `q = q` -/
def selfId (p : String × BExp) : Bool := p.2 == BExp.sym p.1

/-- the qubits whose definition is `q = ~q`, in the order of the definitions -/
def negated (n : Nat) (exprs : List (String × BExp)) : List Nat :=
  (exprs.filter selfNeg).filterMap fun p => qidx n p.1

/-- every definition handed to the compiler is `q = q` or `q = ~q`, and the re-synthesised gate list
is one X gate per self-negation, in the order of the definitions -/
def xonly (n : Nat) (exprs : List (String × BExp)) (gates : List AGate) : Bool :=
  exprs.all (fun p => selfId p || selfNeg p) &&
  gates.map (fun g => (g.cls, g.wires)) == (negated n exprs).map fun i => (GClass.X, [i])

/-- the definitions are keyed by pairwise distinct names of qubits of the circuit -/
def keysOK (n : Nat) (exprs : List (String × BExp)) : Bool :=
  decide (exprs.map (·.1)).Nodup && exprs.all fun p => (qidx n p.1).isSome

/-- every section the loop splices in is of the `xonly` shape (checked per run by the harness;
`QV.C12.accepted_xonly` proves it for the repaired model) -/
def xonlyRun (q : Quirks) (n : Nat) (simpSec : Section → List (String × BExp))
    (resyn : Section → Except String SecResult) (secs : List Section) : Bool :=
  secs.all fun s =>
    match resyn s with
    | .ok r => !accept q n s r || xonly n (simpSec s) r.gates
    | .error _ => true

end QV.Decopt
