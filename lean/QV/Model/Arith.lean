import QV.Base.BExp
import QV.Base.Quirks
/-!
# The bit-vector library of `qlasskit/types/{qtype,qint,__init__}.py` on `List BExp`

Line-by-line model of `Qtype.fill/crop/bitwise_not/shift_left/shift_right` and of
`QintImp.eq/neq/gt/lt/lte/gte/add/sub/mul/mul_even_const/mod/bitwise_generic`.
Bit lists are little-endian (`bits[0]` is the least significant bit), exactly as the library
keeps them.  sympy's constructors are modelled by the raw `BExp` constructors: only the
*function* of an expression is observed (truth tables), never its shape.

Import-free apart from `QV/Base` (links into `qvdriver`).
Quirk flags (`QV/Base/Quirks.lean`): `gtLeftNarrow`, `subLeftNarrow`, `mulEvenConst`,
`modNonPow2`.
-/
namespace QV.Arith
open QV

/-- `_eq(a, b) = Not(Xor(a, b))` -/
def bEq (a b : BExp) : BExp := .not (.xor [a, b])
/-- `_neq(a, b) = Xor(a, b)` -/
def bNeq (a b : BExp) : BExp := .xor [a, b]

/-- `Qtype.fill`: pad with `False` up to `n` bits -/
def fill (n : Nat) (l : List BExp) : List BExp :=
  if l.length ≥ n then l else l ++ List.replicate (n - l.length) .ff

/-- `Qtype.crop`: keep the low `n` bits -/
def crop (n : Nat) (l : List BExp) : List BExp :=
  if l.length ≤ n then l else l.take n

/-- `Qtype.bitwise_not` -/
def bitwiseNot (l : List BExp) : List BExp := l.map .not

/-- `Qtype.shift_left(v, i)` for a type of `n` bits: `crop([False]*i + v)` -/
def shiftLeft (n : Nat) (l : List BExp) (i : Nat) : List BExp :=
  crop n (List.replicate i .ff ++ l)

/-- `Qtype.shift_right(v, i)` for a type of `n` bits: `fill(v[i:])` -/
def shiftRight (n : Nat) (l : List BExp) (i : Nat) : List BExp :=
  fill n (l.drop i)

/-! ## comparators -/

/-- the zip loop of `QintImp.eq`: `ex = And(ex, _eq(a, b))` -/
def eqLoop : BExp → List BExp → List BExp → BExp
  | ex, a :: as, b :: bs => eqLoop (.and [ex, bEq a b]) as bs
  | ex, _, _ => ex

/-- the two padding loops of `QintImp.eq`: `ex = And(ex, Not(x))` -/
def andNotAll : BExp → List BExp → BExp
  | ex, [] => ex
  | ex, x :: xs => andNotAll (.and [ex, .not x]) xs

/-- `QintImp.eq` -/
def qEq (l r : List BExp) : BExp :=
  andNotAll (andNotAll (eqLoop .tt l r) (l.drop r.length)) (r.drop l.length)

def neqLoop : BExp → List BExp → List BExp → BExp
  | ex, a :: as, b :: bs => neqLoop (.or [ex, bNeq a b]) as bs
  | ex, _, _ => ex

/-- the padding loops `ex = Or(ex, x)` (of `neq`, and of `gt`) -/
def orAll : BExp → List BExp → BExp
  | ex, [] => ex
  | ex, x :: xs => orAll (.or [ex, x]) xs

/-- `QintImp.neq` -/
def qNeq (l r : List BExp) : BExp :=
  orAll (orAll (neqLoop .ff l r) (l.drop r.length)) (r.drop l.length)

/-- the MSB-first loop of `QintImp.gt` over the reversed zip; `none` = `ex` not yet bound -/
def gtLoop : Option BExp → List BExp → List (BExp × BExp) → BExp
  | none, _, [] => .ff
  | some ex, _, [] => ex
  | none, prev, (a, b) :: rest => gtLoop (some (.and [a, .not b])) (prev ++ [bEq a b]) rest
  | some ex, prev, (a, b) :: rest =>
      gtLoop (some (.or [ex, .and (prev ++ [a, .not b])])) (prev ++ [bEq a b]) rest

/-- `QintImp.gt`.  With `q.gtLeftNarrow` (the code as it is) the extra bits of a *wider right*
operand are OR-ed in; repaired, they are AND-ed in negated. -/
def qGt (q : Quirks) (l r : List BExp) : BExp :=
  let ex := gtLoop none [] (l.zip r).reverse
  let ex := orAll ex (l.drop r.length)
  if q.gtLeftNarrow then orAll ex (r.drop l.length) else andNotAll ex (r.drop l.length)

/-- `QintImp.lt` -/
def qLt (q : Quirks) (l r : List BExp) : BExp := .and [.not (qGt q l r), .not (qEq l r)]
/-- `QintImp.lte` -/
def qLte (q : Quirks) (l r : List BExp) : BExp := .not (qGt q l r)
/-- `QintImp.gte` -/
def qGte (q : Quirks) (l r : List BExp) : BExp := .not (qLt q l r)

/-! ## adder -/

/-- `_full_adder(c, a, b)`: carry `(a & b) ^ ((a ^ b) & c)`, sum `Xor(Xor(a, b), c)` -/
def fullAdder (c a b : BExp) : BExp × BExp :=
  (.xor [.and [a, b], .and [.xor [a, b], c]], .xor [.xor [a, b], c])

/-- the loop of `QintImp.add` over the zipped operands -/
def addLoop : BExp → List BExp → List BExp → List BExp
  | c, a :: as, b :: bs => (fullAdder c a b).2 :: addLoop (fullAdder c a b).1 as bs
  | _, _, _ => []

/-- the widening at the head of `add` / `bitwise_generic` (lengths equal type sizes there) -/
def widenL (l r : List BExp) : List BExp := if l.length < r.length then fill r.length l else l
def widenR (l r : List BExp) : List BExp := if l.length > r.length then fill l.length r else r

/-- `QintImp.add` (bits only; the result type is the wider operand's, see `Front`) -/
def qAdd (l r : List BExp) : List BExp := addLoop .ff (widenL l r) (widenR l r)

/-- `QintImp.sub` called on the class of the left operand (`n` = its `BIT_SIZE`).
As coded, `~fill(l)` is taken before the operands are brought to a common width
(`q.subLeftNarrow`); repaired, both are widened first. -/
def qSub (q : Quirks) (n : Nat) (l r : List BExp) : List BExp :=
  let l1 := fill n l
  let r1 := fill n r
  if q.subLeftNarrow then bitwiseNot (qAdd (bitwiseNot l1) r1)
  else bitwiseNot (qAdd (bitwiseNot (fill r1.length l1)) r1)

/-- `QintImp.bitwise_generic` -/
def bitwiseGeneric (op : BExp → BExp → BExp) (l r : List BExp) : List BExp :=
  List.zipWith op (widenL l r) (widenR l r)

def opAnd (a b : BExp) : BExp := .and [a, b]
def opOr (a b : BExp) : BExp := .or [a, b]
def opXor (a b : BExp) : BExp := .xor [a, b]

/-! ## constants -/

/-- literal constant bit (`Qtype.is_const` element test) -/
def isLit : BExp → Bool
  | .tt => true
  | .ff => true
  | _ => false

/-- structural `Qtype.is_const` -/
def isConstBits (l : List BExp) : Bool := l.all isLit

/-- value of a list of constant bits (`from_bool`).  The real run may see literals where the model has
an unevaluated constant expression (sympy folded it), so a bit is read by evaluating it under the
all-false environment; for literal bits this is the literal. -/
def litVal : List BExp → Nat
  | [] => 0
  | b :: bs => (if b.eval (fun _ => false) then 1 else 0) + 2 * litVal bs

/-- the digits of `bin(v)[2:][::-1]` as literals: little-endian, `"0"` for 0 -/
def natBitsLE : Nat → Nat → List BExp
  | 0, _ => []
  | f + 1, v =>
    if v < 2 then [if v == 1 then .tt else .ff]
    else (if v % 2 == 1 then .tt else .ff) :: natBitsLE f (v / 2)

/-- `QintImp.const` of the class with `w` bits -/
def qintConst (w v : Nat) : List BExp := fill w (natBitsLE (w + 1) (v % 2 ^ w))

/-! ## multiplier -/

/-- `__mul_sizing(n, m)` -/
def mulSizing (n m : Nat) : Nat :=
  let s := n + m
  if s ≤ 2 then 2 else if s ≤ 4 then 4 else if s ≤ 6 then 6
  else if s ≤ 8 then 8 else if s ≤ 12 then 12 else 16

/-- `while 2**n <= const: n += 1` starting from `n` -/
def pow2Above : Nat → Nat → Nat → Nat
  | 0, n, _ => n
  | fuel + 1, n, c => if 2 ^ n ≤ c then pow2Above fuel (n + 1) c else n

/-- the shift `n` of `mul_even_const`: `n = 1; while 2**n <= const: n += 1; if 2**n > const: n -= 1` -/
def evenConstShift (c : Nat) : Nat :=
  let n := pow2Above (c + 1) 1 c
  if 2 ^ n > c then n - 1 else n

/-- `QintImp.mul_even_const(t_num, const, result_type)` with `t` = size of `result_type`,
as coded: `x << n` plus, when `r = const - 2**n > 0`, `x << int(r / 2)`.  `const` is an instance
of the constant's Qint class (`w` bits), so `const - 2**n` is `QintImp.__sub__`: reduced modulo
`2**w` (for `const = 0`: `n = 0`, `r = 2**w - 1`). -/
def mulEvenConst (t w : Nat) (num : List BExp) (c : Nat) : List BExp :=
  let n := evenConstShift c
  let numR := shiftLeft t num n
  let r := if c ≥ 2 ^ n then c - 2 ^ n else (c + 2 ^ w - 2 ^ n) % 2 ^ w
  if r > 0 then qAdd numR (shiftLeft t num (r / 2)) else numR

/-- one row of the schoolbook loop: adds `l_i * r` into `product` at offset `i`.
`j` runs over the bits of `r`; `k = i + j`; `last = n + m - 1`. -/
def mulRow (li : BExp) (last : Nat) : BExp → Nat → List BExp → List BExp → List BExp
  | carry, k, [], product => product.set k carry      -- `product[i + m] = carry` (i + m < n + m always)
  | carry, k, rj :: rs, product =>
    let pp := BExp.and [li, rj]
    if k < last then
      let cs := fullAdder carry pp (product.getD k .ff)
      mulRow li last cs.1 (k + 1) rs (product.set k cs.2)
    else
      mulRow li last carry (k + 1) rs (product.set k (.xor [carry, pp]))

/-- the outer loop of the schoolbook product -/
def mulRows (r : List BExp) (last : Nat) : Nat → List BExp → List BExp → List BExp
  | _, [], product => product
  | i, li :: ls, product => mulRows r last (i + 1) ls (mulRow li last .ff i r product)

/-- the schoolbook product of `QintImp.mul`: `n + m` bits -/
def schoolbook (l r : List BExp) : List BExp :=
  mulRows r (l.length + r.length - 1) 0 l (List.replicate (l.length + r.length) .ff)

/-- `QintImp.mul`.  `cl`, `cr` are the outcomes of `is_const` on the two operands as the real
run sees them (sympy may have evaluated an operand to literals; see `Front`).  `nl`, `nr` are
the `BIT_SIZE`s of the operand types.  Returns (size of the result type, bits).
With `q.mulEvenConst` (the code as it is) an even constant goes through `mul_even_const`;
repaired, every product is the schoolbook product. -/
def qMul (q : Quirks) (cl cr : Bool) (nl nr : Nat) (l_ r_ : List BExp) : Nat × List BExp :=
  let l0 := if cl then fill nr l_ else l_
  let r0 := if cr then fill nl r_ else r_
  let n0 := l0.length
  let m0 := r0.length
  let r1 := if n0 > m0 then fill nl r0 else r0
  let l1 := if n0 < m0 then fill nr l0 else l0
  let n := if n0 < m0 then m0 else n0
  let m := if n0 > m0 then n0 else m0
  let t := mulSizing n m
  if q.mulEvenConst && (cl || cr) && litVal (if cl then l1 else r1) % 2 == 0 then
    let num := if cr then l1 else r1
    let cst := if cl then l1 else r1
    (t, crop t (fill t (mulEvenConst t cst.length num (litVal cst))))
  else
    (t, crop t (fill t (schoolbook l1 r1)))

/-- `QintImp.mod`: `x & (y - 1)` with `y - 1 = tright[0].sub(tright, tright[0].const(1))`;
`nr` = `BIT_SIZE` of the right operand's type. -/
def qMod (q : Quirks) (nr : Nat) (l r : List BExp) : List BExp :=
  bitwiseGeneric opAnd l (qSub q nr r (qintConst nr 1))

end QV.Arith
