import QV.Base.BExp
import QV.Base.Quirks
/-!
# Model of `qlasskit/boolopt/*` and of the per-expression simplify of `ast2logic/t_ast.py`

* `Kernel` – sympy's `Not/And/Or/Xor/ITE/Implies` constructors (auto-flatten, sort, dedupe, …) are
  *parameters*; every theorem holds for every kernel that preserves `eval` and does not invent
  symbols (`Kernel.Sound`, in `QV/Proofs/Opt.lean`).  The driver runs `Kernel.raw` (raw
  constructors, except that `Not` collapses double negation and constants as `Not.eval` does –
  needed because `transform_or2xor` compares with `== Not(x)`).
* `simplify_logic` and `cse` are parameters (`simp`, `cse`).
* `rebuild` is `SympyTransformer.visit` with no override; each transformer below is that
  traversal with exactly the overridden `visit_*` methods, including what they do **not** visit.
* definition lists are `Defs = List (String × BExp)`; `evalDefs` is their sequential meaning.
-/
namespace QV.Opt
open QV

/-- sympy constructors as parameters -/
structure Kernel where
  mkNot : BExp → BExp
  mkAnd : List BExp → BExp
  mkOr : List BExp → BExp
  mkXor : List BExp → BExp
  mkIte : BExp → BExp → BExp → BExp
  mkImp : BExp → BExp → BExp

/-- `Not.eval` on the modelled fragment: constants and double negation -/
def sympyNot : BExp → BExp
  | .tt => .ff
  | .ff => .tt
  | .not e => e
  | e => .not e

/-- the kernel of the driver: raw constructors, sympy-like `Not` -/
def Kernel.raw : Kernel := ⟨sympyNot, .and, .or, .xor, .ite, .imp⟩

/-! ## `SympyTransformer` (sympytransformer.py): dispatch And, Or, Not, Implies, ITE, Xor, else identity -/
mutual
def rebuild (K : Kernel) : BExp → BExp
  | .and l => K.mkAnd (rebuildList K l)
  | .or l => K.mkOr (rebuildList K l)
  | .not e => K.mkNot (rebuild K e)
  | .imp a b => K.mkImp (rebuild K a) (rebuild K b)
  | .ite c t e => K.mkIte (rebuild K c) (rebuild K t) (rebuild K e)
  | .xor l => K.mkXor (rebuildList K l)
  | .tt => .tt
  | .ff => .ff
  | .sym n => .sym n
def rebuildList (K : Kernel) : List BExp → List BExp
  | [] => []
  | e :: es => rebuild K e :: rebuildList K es
end

/-! ## `remove_ITE` (exp_transformers.py)
`visit_ITE`: `c = visit(a0); visit(Or(And(c, visit(a1)), And(Not(c), visit(a2))))`.  The outer
re-visit runs on a tree that no longer contains `ITE` (its parts were visited, sympy's And/Or/Not
constructors create none), where `remove_ITE.visit` is the plain traversal `rebuild`. -/
mutual
def removeITE (K : Kernel) : BExp → BExp
  | .ite c t e =>
      let c' := removeITE K c
      rebuild K (K.mkOr [K.mkAnd [c', removeITE K t], K.mkAnd [K.mkNot c', removeITE K e]])
  | .and l => K.mkAnd (removeITEList K l)
  | .or l => K.mkOr (removeITEList K l)
  | .not e => K.mkNot (removeITE K e)
  | .imp a b => K.mkImp (removeITE K a) (removeITE K b)
  | .xor l => K.mkXor (removeITEList K l)
  | .tt => .tt
  | .ff => .ff
  | .sym n => .sym n
def removeITEList (K : Kernel) : List BExp → List BExp
  | [] => []
  | e :: es => removeITE K e :: removeITEList K es
end

/-! ## `remove_Implies`: `visit(Or(Not(visit(a0)), visit(a1)))` (outer re-visit = `rebuild`, as above) -/
mutual
def removeImplies (K : Kernel) : BExp → BExp
  | .imp a b => rebuild K (K.mkOr [K.mkNot (removeImplies K a), removeImplies K b])
  | .and l => K.mkAnd (removeImpliesList K l)
  | .or l => K.mkOr (removeImpliesList K l)
  | .not e => K.mkNot (removeImplies K e)
  | .ite c t e => K.mkIte (removeImplies K c) (removeImplies K t) (removeImplies K e)
  | .xor l => K.mkXor (removeImpliesList K l)
  | .tt => .tt
  | .ff => .ff
  | .sym n => .sym n
def removeImpliesList (K : Kernel) : List BExp → List BExp
  | [] => []
  | e :: es => removeImplies K e :: removeImpliesList K es
end

/-! ## `transform_or2xor`
`Or(And(a,b), And(!a,!b)) = !Xor(a,b)`; the code tests `args[0], args[1]` of both `And`s and
never their length (`q.or2xorNoArity`); repaired: both `And`s must be binary. -/

/-- the `if` of `transform_or2xor.visit_Or` once both disjuncts are `And`s with ≥ 2 arguments;
`n0`, `n1` are `len(args)` of the two `And`s -/
def or2xorCond (K : Kernel) (q : Quirks) (a0 a1 b0 b1 : BExp) (n0 n1 : Nat) : Bool :=
  (q.or2xorNoArity || (n0 == 2 && n1 == 2)) &&
  ((b0 == K.mkNot a0 && b1 == K.mkNot a1) || (K.mkNot b0 == a0 && K.mkNot b1 == a1))

/-- the whole `if` of `transform_or2xor.visit_Or` on the argument list of the `Or`.  An `And` with
fewer than two arguments (never built by sympy) makes the Python raise; here it is "no match". -/
def or2xorTest (K : Kernel) (q : Quirks) : List BExp → Bool
  | [.and (a0 :: a1 :: r0), .and (b0 :: b1 :: r1)] =>
      or2xorCond K q a0 a1 b0 b1 (r0.length + 2) (r1.length + 2)
  | _ => false

mutual
def or2xor (K : Kernel) (q : Quirks) : BExp → BExp
  | .or l =>
      if or2xorTest K q l then
        -- `a = visit(args[0].args[0]); b = visit(args[0].args[1]); Not(Xor(a, b))`
        match or2xorKids K q l with
        | (a :: b :: _) :: _ => K.mkNot (K.mkXor [a, b])
        | _ => K.mkOr (or2xorList K q l)
      else K.mkOr (or2xorList K q l)
  | .and l => K.mkAnd (or2xorList K q l)
  | .not e => K.mkNot (or2xor K q e)
  | .imp a b => K.mkImp (or2xor K q a) (or2xor K q b)
  | .ite c t e => K.mkIte (or2xor K q c) (or2xor K q t) (or2xor K q e)
  | .xor l => K.mkXor (or2xorList K q l)
  | .tt => .tt
  | .ff => .ff
  | .sym n => .sym n
def or2xorList (K : Kernel) (q : Quirks) : List BExp → List BExp
  | [] => []
  | e :: es => or2xor K q e :: or2xorList K q es
/-- the visited arguments of each disjunct that is an `And` (`[]` for the others) -/
def or2xorKids (K : Kernel) (q : Quirks) : List BExp → List (List BExp)
  | [] => []
  | e :: es => or2xorKid K q e :: or2xorKids K q es
def or2xorKid (K : Kernel) (q : Quirks) : BExp → List BExp
  | .and m => or2xorList K q m
  | _ => []
end

/-! ## `transform_or2and`: an `Or` with more than two arguments (or any, when `DISABLE_OR`) becomes
`Not(And(Not(visit a)…))`; a smaller `Or` is returned **unvisited** -/
mutual
def or2and (K : Kernel) (disableOr : Bool) : BExp → BExp
  | .or l =>
      if l.length > 2 || disableOr then K.mkNot (K.mkAnd (or2andNotList K disableOr l)) else .or l
  | .and l => K.mkAnd (or2andList K disableOr l)
  | .not e => K.mkNot (or2and K disableOr e)
  | .imp a b => K.mkImp (or2and K disableOr a) (or2and K disableOr b)
  | .ite c t e => K.mkIte (or2and K disableOr c) (or2and K disableOr t) (or2and K disableOr e)
  | .xor l => K.mkXor (or2andList K disableOr l)
  | .tt => .tt
  | .ff => .ff
  | .sym n => .sym n
def or2andList (K : Kernel) (disableOr : Bool) : List BExp → List BExp
  | [] => []
  | e :: es => or2and K disableOr e :: or2andList K disableOr es
/-- `[Not(self.visit(e)) for e in expr.args]` -/
def or2andNotList (K : Kernel) (disableOr : Bool) : List BExp → List BExp
  | [] => []
  | e :: es => K.mkNot (or2and K disableOr e) :: or2andNotList K disableOr es
end

/-! ## `remove_obvious_expr`: `visit_Not/And/Or` never recurse; Implies/ITE/Xor are traversed -/

/-- `isinstance(x, Symbol) and isinstance(y, Not) and x == y.args[0]` -/
def symAndItsNot : BExp → BExp → Bool
  | .sym a, .not (.sym b) => a == b
  | _, _ => false

/-- the common test of `visit_And` / `visit_Or` -/
def obviousPair : List BExp → Bool
  | [x, y] => symAndItsNot x y || symAndItsNot y x
  | _ => false

mutual
def removeObvious (K : Kernel) : BExp → BExp
  | .not (.not e) => e
  | .not e => .not e
  | .and l => if obviousPair l then .ff else .and l
  | .or l => if obviousPair l then .tt else .or l
  | .imp a b => K.mkImp (removeObvious K a) (removeObvious K b)
  | .ite c t e => K.mkIte (removeObvious K c) (removeObvious K t) (removeObvious K e)
  | .xor l => K.mkXor (removeObviousList K l)
  | .tt => .tt
  | .ff => .ff
  | .sym n => .sym n
def removeObviousList (K : Kernel) : List BExp → List BExp
  | [] => []
  | e :: es => removeObvious K e :: removeObviousList K es
end

/-! ## `custom_simplify_logic` (bool_optimizer.py): stops at `Xor`, rebuilds And/Or/Not, `simplify_logic` elsewhere -/
mutual
def csl (K : Kernel) (simp : BExp → BExp) : BExp → BExp
  | .xor l => .xor l
  | .and l => K.mkAnd (cslList K simp l)
  | .or l => K.mkOr (cslList K simp l)
  | .not e => K.mkNot (csl K simp e)
  | .imp a b => simp (.imp a b)
  | .ite c t e => simp (.ite c t e)
  | .tt => simp .tt
  | .ff => simp .ff
  | .sym n => simp (.sym n)
def cslList (K : Kernel) (simp : BExp → BExp) : List BExp → List BExp
  | [] => []
  | e :: es => csl K simp e :: cslList K simp es
end

/-! ## definition lists -/
abbrev Def := String × BExp
abbrev Defs := List Def

def upd (ρ : Env) (s : String) (v : Bool) : Env := fun n => if n = s then v else ρ n

/-- sequential meaning of a definition list: the environment after all bindings -/
def evalDefs (ρ : Env) : Defs → Env
  | [] => ρ
  | (s, e) :: t => evalDefs (upd ρ s (e.eval ρ)) t

/-- `s.name == "_ret" or s.name.startswith("_ret.")`: exactly the return bits -/
def isRet (s : String) : Bool :=
  s.toList == ['_', 'r', 'e', 't'] || s.toList.take 5 == ['_', 'r', 'e', 't', '.']

def names (l : Defs) : List String := l.map (·.1)
/-- the return symbols of a list, in order, with repetitions -/
def retNames (l : Defs) : List String := (names l).filter isRet

/-- free symbols of a list: read by some right-hand side before (re)definition -/
def freeSyms : Defs → List String
  | [] => []
  | (s, e) :: t => e.syms ++ (freeSyms t).filter (· != s)

/-- `exps = list(map(lambda e: (e[0], opt.visit(e[1])), exps))` -/
def mapDefs (f : BExp → BExp) (l : Defs) : Defs := l.map (fun d => (d.1, f d.2))

/-! ## `merge_expressions` -/

/-- dict lookup in `emap` (newest binding first) -/
def lookup (m : List (String × BExp)) (n : String) : Option BExp :=
  match m with
  | [] => none
  | (k, v) :: t => if n = k then some v else lookup t n

/-! `e.xreplace(emap)`: simultaneous replacement, nodes re-made by the constructors -/
mutual
def xreplace (K : Kernel) (m : List (String × BExp)) : BExp → BExp
  | .sym n => match lookup m n with | some x => x | none => .sym n
  | .and l => K.mkAnd (xreplaceList K m l)
  | .or l => K.mkOr (xreplaceList K m l)
  | .not e => K.mkNot (xreplace K m e)
  | .imp a b => K.mkImp (xreplace K m a) (xreplace K m b)
  | .ite c t e => K.mkIte (xreplace K m c) (xreplace K m t) (xreplace K m e)
  | .xor l => K.mkXor (xreplaceList K m l)
  | .tt => .tt
  | .ff => .ff
def xreplaceList (K : Kernel) (m : List (String × BExp)) : List BExp → List BExp
  | [] => []
  | e :: es => xreplace K m e :: xreplaceList K m es
end

/-- the loop of `merge_expressions` with its `emap` -/
def mergeGo (K : Kernel) (simp : BExp → BExp) (emap : List (String × BExp)) : Defs → Defs
  | [] => []
  | (s, e) :: t =>
      let e' := csl K simp (xreplace K emap e)
      if isRet s then (s, e') :: mergeGo K simp emap t
      else mergeGo K simp ((s, e') :: emap) t

def mergeExpressions (K : Kernel) (simp : BExp → BExp) (l : Defs) : Defs := mergeGo K simp [] l

/-! ## `apply_cse`
`repl, red = cse([e for _, e in exps]); return repl + list(zip(names, red))`.  The code puts the
extracted definitions in front whatever the list binds (`q.cseHoistsOverBindings`); repaired:
the list is returned unchanged when a right-hand side reads a name the list binds or a generated
name collides with one. -/

/-- no right-hand side reads a name bound by the list -/
def flat (l : Defs) : Bool := l.all (fun d => d.2.syms.all (fun v => !(names l).contains v))

def cseSafe (l : Defs) (repl : Defs) : Bool :=
  flat l && (names repl).all (fun x => !(names l).contains x)

def applyCse (q : Quirks) (cse : List BExp → Defs × List BExp) (l : Defs) : Defs :=
  let r := cse (l.map (·.2))
  if q.cseHoistsOverBindings || cseSafe l r.1 then r.1 ++ (names l).zip r.2 else l

/-! ## profiles -/
inductive Step where
  | mergeExpressions | applyCse | removeITE | removeImplies | or2xor | or2and | removeObvious
  deriving Repr, DecidableEq, Inhabited

/-- the names used in `bool_optimizer.py` -/
def Step.ofName : String → Option Step
  | "merge_expressions" => some .mergeExpressions
  | "apply_cse" => some .applyCse
  | "remove_ITE" => some .removeITE
  | "remove_Implies" => some .removeImplies
  | "transform_or2xor" => some .or2xor
  | "transform_or2and" => some .or2and
  | "remove_obvious_expr" => some .removeObvious
  | _ => none

/-- everything a profile run depends on besides the list -/
structure Params where
  K : Kernel
  q : Quirks
  disableOr : Bool
  simp : BExp → BExp
  cse : List BExp → Defs × List BExp

/-- one iteration of `BoolOptimizerProfile.apply` -/
def applyStep (P : Params) : Step → Defs → Defs
  | .mergeExpressions, l => mergeExpressions P.K P.simp l
  | .applyCse, l => applyCse P.q P.cse l
  | .removeITE, l => mapDefs (removeITE P.K) l
  | .removeImplies, l => mapDefs (removeImplies P.K) l
  | .or2xor, l => mapDefs (or2xor P.K P.q) l
  | .or2and, l => mapDefs (or2and P.K P.disableOr) l
  | .removeObvious, l => mapDefs (removeObvious P.K) l

/-- `BoolOptimizerProfile.apply` -/
def applyProfile (P : Params) : List Step → Defs → Defs
  | [], l => l
  | s :: ss, l => applyProfile P ss (applyStep P s l)

/-- `translate_ast`: `simplify_logic(e, form="cnf")` is mapped over the *pairs* `(symbol, expr)`;
sympy turns a pair into a `Tuple`, which is not a `BooleanFunction`, and `simplify_logic`
returns it as it is – the per-expression simplification is the identity on the list. -/
def frontSimplify (_simp : BExp → BExp) (l : Defs) : Defs := l

end QV.Opt
