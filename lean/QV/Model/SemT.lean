import QV.Model.Sem
import QV.Model.Frag
/-!
# `SemT`: the fixed-width meaning widened to the structured types (tuples, hence `Qlist` / `Qmatrix`; `Qchar`)

Reference semantics (specification side of C01) for everything `QV.Model.Front` translates: the values
of `QV.Sem.semW` (a python `bool`, or `x : Qint[w]`) plus

* `char x` - a `Qchar` with code point `x < 256`;
* `tuple vs` - a python tuple (nested); `Qlist[T, n]` / `Qmatrix[T, n, m]` are tuples after the library's
  rewriting of the annotations.

`semT` extends `semW` (`semT_extends_semW` in `QV/Props/C01.lean`: wherever `semW` gives a value,
`semT` gives the same one) with: tuple literals, constant-index subscript chains `a[i]`, `a[i][j]` on
tuple-typed variables (and `a[i][j][k]` = bit `k` of a `Qint` element), `Qchar` constants, `==` / `!=` on
`Qchar` (with a `Qchar`, or with a `Qint` - what `ord(c) == 3` becomes), `==` / `!=` on tuples of one
type (python's elementwise equality), if-expressions over `Qchar` / tuples of one type, tuple-typed
arguments decoded from their bits (`decodeT`, `argsEnvT`), assignment of tuple values, returns of
`Qchar` / tuple type (the declared type must be the value's type: the library fills / crops `Qint`
returns only).

No meaning is given (`none`) where python has none either and the library treats a `Qchar` as an 8-bit
integer: `~c`, `c[i]`, an if-expression with a `Qchar` and a `Qint` branch, a `Qchar` returned as a
`Qint` or the converse.  `wellT` / `wellRet` (decidable, evaluated under the same environment) list
those sites; the theorems of `QV/Props/C01.lean` assume them.  (Two sites where the library *differed*
from the python meaning given here were found while proving them and repaired in /repo: `!=` on tuples
was translated as "every bit differs" - 6b91624 - and a subscript chain that stops at a tuple, `m[0]` for
a matrix `m`, to the undefined symbol `m.0` - 6b971e4.)

Mathlib-free (driver op `c01.semw`).
-/
namespace QV.Sem
open QV QV.Front

/-- values of the widened reference semantics -/
inductive TVal where
  | bool (b : Bool)
  | int (w : Nat) (x : Nat)
  | char (x : Nat)
  | tuple (vs : List TVal)
  deriving Repr, Inhabited

abbrev TEnv := String → Option TVal

/-- a value of the bool / Qint semantics as a value of the widened one -/
def SVal.toT : SVal → TVal
  | .bool b => .bool b
  | .int w x => .int w x

mutual
/-- the library type of a value -/
def TVal.ty : TVal → Ty
  | .bool _ => .bool
  | .int w _ => .qint w
  | .char _ => .qchar
  | .tuple vs => .tuple (TVal.tyList vs)
def TVal.tyList : List TVal → List Ty
  | [] => []
  | v :: vs => v.ty :: TVal.tyList vs
end

mutual
/-- the bits of a value, in the order of the bit names of its type (`Ty.names`) -/
def TVal.bits : TVal → List Bool
  | .bool b => [b]
  | .int w x => toBitsLE w x
  | .char x => toBitsLE 8 x
  | .tuple vs => TVal.bitsList vs
def TVal.bitsList : List TVal → List Bool
  | [] => []
  | v :: vs => v.bits ++ TVal.bitsList vs
end

mutual
/-- values in the range of their types: `x < 2^w`, code points below 256 -/
def TVal.wf : TVal → Bool
  | .bool _ => true
  | .int w x => decide (x < 2 ^ w)
  | .char x => decide (x < 256)
  | .tuple vs => TVal.wfList vs
def TVal.wfList : List TVal → Bool
  | [] => true
  | v :: vs => v.wf && TVal.wfList vs
end

mutual
/-- python `==` on two values of one type -/
def TVal.beq : TVal → TVal → Bool
  | .bool a, .bool b => a == b
  | .int _ x, .int _ y => x == y
  | .char x, .char y => x == y
  | .tuple xs, .tuple ys => TVal.beqList xs ys
  | _, _ => false
def TVal.beqList : List TVal → List TVal → Bool
  | [], [] => true
  | x :: xs, y :: ys => x.beq y && TVal.beqList xs ys
  | _, _ => false
end

mutual
/-- the types the theorems cover: no `Qint` narrower than 2 bits (the library has none), tuples of at
least two elements (so that every structured value has at least two bits: a one-bit list would be handed
on as a bare expression) -/
def tyGood : Ty → Bool
  | .bool => true
  | .qint w => decide (2 ≤ w)
  | .qchar => true
  | .tuple ts => decide (2 ≤ ts.length) && tyGoodList ts
def tyGoodList : List Ty → Bool
  | [] => true
  | t :: ts => tyGood t && tyGoodList ts
end

def TVal.isTuple : TVal → Bool
  | .tuple _ => true
  | _ => false

/-- `v[i][j]…` with constant indices: element of a tuple; the last index may select bit `i` of a `Qint`
(the library's reading of a subscript on a `Qint`) -/
def TVal.index : TVal → List Int → Option TVal
  | v, [] => some v
  | .tuple vs, i :: is =>
    if 0 ≤ i then
      match vs[i.toNat]? with
      | some v => v.index is
      | none => none
    else none
  | .int w x, [i] => if 0 ≤ i ∧ i < (w : Int) then some (.bool (x.testBit i.toNat)) else none
  | _, _ => none

/-- `==` / `!=` on code points -/
def cmpEqNat : String → Nat → Nat → Option Bool
  | "Eq", a, b => some (decide (a = b))
  | "NotEq", a, b => some (decide (a ≠ b))
  | _, _, _ => none

def notT : TVal → Option TVal
  | .bool b => some (.bool (!b))
  | _ => none

def invT : TVal → Option TVal
  | .int w x => some (.int w (2 ^ w - 1 - x))
  | _ => none

/-- if-expression: bools; `Qint`s (the wider type); `Qchar`s; tuples of one type -/
def iteT : TVal → TVal → TVal → Option TVal
  | .bool cb, .bool x, .bool y => some (.bool (if cb then x else y))
  | .bool cb, .int a x, .int b y => some (.int (max a b) (if cb then x else y))
  | .bool cb, .char x, .char y => some (.char (if cb then x else y))
  | .bool cb, .tuple xs, .tuple ys =>
    if Ty.beqList (TVal.tyList xs) (TVal.tyList ys) then some (.tuple (if cb then xs else ys)) else none
  | _, _, _ => none

/-- comparisons: bools (`== !=`), `Qint`s (all six), `Qchar` with `Qchar` or `Qint` (`== !=` on the code
point), non-empty tuples of one type (`== !=`, python's elementwise equality) -/
def cmpT (op : String) : TVal → TVal → Option TVal
  | .bool x, .bool y => (cmpBool op x y).map .bool
  | .int _ x, .int _ y => (cmpNat op x y).map .bool
  | .char x, .char y => (cmpEqNat op x y).map .bool
  | .char x, .int _ y => (cmpEqNat op x y).map .bool
  | .tuple xs, .tuple ys =>
    if Ty.beqList (TVal.tyList xs) (TVal.tyList ys) && !xs.isEmpty then
      match op with
      | "Eq" => some (.bool (TVal.beqList xs ys))
      | "NotEq" => some (.bool (!TVal.beqList xs ys))
      | _ => none
    else none
  | _, _ => none

/-- `and` / `or` over at least one bool -/
def boolFoldT (isAnd : Bool) : List TVal → Option Bool
  | [] => none
  | [.bool b] => some b
  | .bool b :: xs => (boolFoldT isAnd xs).map fun r => if isAnd then b && r else b || r
  | _ => none

mutual
/-- the fixed-width meaning of an expression under the variable environment `σ` -/
def semT (σ : TEnv) : PExp → Option TVal
  | .name n => σ n
  | .cbool b => some (.bool b)
  | .cint v =>
    match constWidth v with
    | some w => some (.int w (v % ((2 : Int) ^ w)).toNat)
    | none => none
  | .cchar c => if c < 256 then some (.char c) else none
  | .subs n path =>
    match σ n with
    | some v => v.index path
    | none => none
  | .not e =>
    match semT σ e with
    | some v => notT v
    | none => none
  | .inv e =>
    match semT σ e with
    | some v => invT v
    | none => none
  | .boolop isAnd vs =>
    match semTList σ vs with
    | some xs => (boolFoldT isAnd xs).map .bool
    | none => none
  | .ite c t e =>
    match semT σ c, semT σ t, semT σ e with
    | some cv, some x, some y => iteT cv x y
    | _, _, _ => none
  | .cmp op l r =>
    match semT σ l, semT σ r with
    | some x, some y => cmpT op x y
    | _, _ => none
  | .bin op l r =>
    match semT σ l with
    | some (.bool x) =>
      match semT σ r with
      | some (.bool y) => (boolBin op x y).map SVal.toT
      | _ => none
    | some (.int wl x) =>
      if op == "lshift" || op == "rshift" then
        match r with
        | .cint k =>
          if k < 0 then none
          else if op == "lshift" then some (.int wl ((x * 2 ^ k.toNat) % 2 ^ wl))
          else some (.int wl (x / 2 ^ k.toNat))
        | _ => none
      else
        match semT σ r with
        | some (.int wr y) => (intBin op wl wr x y).map SVal.toT
        | _ => none
    | _ => none
  | .tuple es =>
    match semTList σ es with
    | some xs => some (.tuple xs)
    | none => none
  | .unsupported _ => none
def semTList (σ : TEnv) : List PExp → Option (List TVal)
  | [] => some []
  | e :: es =>
    match semT σ e, semTList σ es with
    | some x, some xs => some (x :: xs)
    | _, _ => none
end

/-- the `return` statement: a `Qint` is filled or cropped to the declared `Qint` type; any other value
must have the declared type -/
def coerceRetT (ret : Ty) : TVal → Option TVal
  | .bool b => match ret with
    | .bool => some (.bool b)
    | _ => none
  | .int a x => match ret with
    | .qint b => if a ≤ b then some (.int b x) else some (.int b (x % 2 ^ b))
    | _ => none
  | .char x => match ret with
    | .qchar => some (.char x)
    | _ => none
  | .tuple vs => match ret with
    | .tuple ts => if Ty.beqList (TVal.tyList vs) ts then some (.tuple vs) else none
    | _ => none

def TEnv.set (σ : TEnv) (n : String) (v : TVal) : TEnv := fun m => if m == n then some v else σ m

/-- straight-line body: assignments update the environment, the first `return` gives the value -/
def semBodyT (ret : Ty) : TEnv → List Stmt → Option TVal
  | _, [] => none
  | σ, .assign t e :: ss =>
    match semT σ e with
    | some v => semBodyT ret (σ.set t v) ss
    | none => none
  | σ, .ret e :: _ =>
    match semT σ e with
    | some v => coerceRetT ret v
    | none => none
  | σ, .expr _ :: ss => semBodyT ret σ ss
  | _, .unsupported _ :: _ => none

mutual
/-- the value of type `t` whose bits are the symbols `Ty.names base t` under the assignment `ρ`
(`translate_argument`'s naming: `base` for a bool, `base.i` for the bits of a `Qint` / `Qchar`,
`base.i…` for element `i` of a tuple) -/
def decodeT (ρ : String → Bool) (base : String) : Ty → TVal
  | .bool => .bool (ρ base)
  | .qint w => .int w (valLE ((Ty.names base (.qint w)).map ρ))
  | .qchar => .char (valLE ((Ty.names base .qchar).map ρ))
  | .tuple ts => .tuple (decodeTList ρ base 0 ts)
def decodeTList (ρ : String → Bool) (base : String) : Nat → List Ty → List TVal
  | _, [] => []
  | i, t :: ts => decodeT ρ s!"{base}.{i}" t :: decodeTList ρ base (i + 1) ts
end

/-- the arguments decoded from their bits -/
def argsEnvT (args : List (String × Ty)) (ρ : String → Bool) : TEnv := fun n =>
  match args.find? (·.1 == n) with
  | some (_, t) => some (decodeT ρ n t)
  | none => none

/-- `SemT` of a program on an assignment of its argument bits -/
def semProgT (p : Prog) (ρ : String → Bool) : Option TVal :=
  semBodyT p.ret (argsEnvT p.args ρ) p.body

/-! ## the sites the theorems exclude -/

def isCharO : Option TVal → Bool
  | some (.char _) => true
  | _ => false

def isIntO : Option TVal → Bool
  | some (.int _ _) => true
  | _ => false

mutual
/-- no sub-expression uses a `Qchar` as an 8-bit integer: a subscript chain that selects a bit of a
`Qchar` (or leaves the value: `semT` undefined); `~` on a `Qchar`; an if-expression with a `Qchar` and a
`Qint` branch -/
def wellT (σ : TEnv) : PExp → Bool
  | .subs n path => (semT σ (.subs n path)).isSome
  | .not e => wellT σ e
  | .inv e => wellT σ e && !isCharO (semT σ e)
  | .boolop _ vs => wellTList σ vs
  | .ite c a b =>
    wellT σ c && wellT σ a && wellT σ b &&
      !((isCharO (semT σ a) && isIntO (semT σ b)) || (isIntO (semT σ a) && isCharO (semT σ b)))
  | .cmp _ l r => wellT σ l && wellT σ r
  | .bin _ l r => wellT σ l && wellT σ r
  | .tuple es => wellTList σ es
  | .name _ => true
  | .cbool _ => true
  | .cint _ => true
  | .cchar _ => true
  | .unsupported _ => true
def wellTList (σ : TEnv) : List PExp → Bool
  | [] => true
  | e :: es => wellT σ e && wellTList σ es
end

/-- a `Qchar` is not returned as a `Qint`, nor a `Qint` as a `Qchar` -/
def wellRet (ret : Ty) : Option TVal → Bool
  | some (.char _) => match ret with
    | .qint _ => false
    | _ => true
  | some (.int _ _) => match ret with
    | .qchar => false
    | _ => true
  | _ => true

/-- `wellT` along a straight-line body (up to the first `return`) -/
def wellBody (ret : Ty) : TEnv → List Stmt → Bool
  | _, [] => true
  | σ, .assign t e :: ss =>
    wellT σ e && (match semT σ e with
      | some v => wellBody ret (σ.set t v) ss
      | none => true)
  | σ, .ret e :: _ => wellT σ e && wellRet ret (semT σ e)
  | σ, .expr _ :: ss => wellBody ret σ ss
  | _, .unsupported _ :: _ => true

def wellProg (p : Prog) (ρ : String → Bool) : Bool := wellBody p.ret (argsEnvT p.args ρ) p.body

/-! ## the fragments of the widened theorems -/

mutual
/-- the expression fragment of `C01_expr_struct`: `inFrag` plus `Qchar` constants, constant-index
subscript chains and tuple literals of at least two elements -/
def inFragT : PExp → Bool
  | .name _ => true
  | .cbool _ => true
  | .cint _ => true
  | .cchar c => decide (c < 256)
  | .subs _ path => path.all (fun i => decide (0 ≤ i))
  | .not e => inFragT e
  | .inv e => inFragT e
  | .boolop _ vs => inFragTList vs
  | .ite c t e => inFragT c && inFragT t && inFragT e
  | .cmp op l r => cmpOps.contains op && inFragT l && inFragT r
  | .bin op l r => binOps.contains op && inFragT l && inFragT r
  | .tuple es => decide (2 ≤ es.length) && inFragTList es
  | .unsupported _ => false
def inFragTList : List PExp → Bool
  | [] => true
  | e :: es => inFragT e && inFragTList es
end

/-- a statement of the widened straight-line fragment (as `stmtOK`, over `inFragT`) -/
def stmtOKT : Stmt → Bool
  | .assign t e => goodName t && t != "_ret" && inFragT e && !mentions t e
  | .ret e => inFragT e && !mentions "_ret" e
  | .expr _ => true
  | .unsupported _ => false

/-- the straight-line fragment of `C01_body_struct`: arguments and return of a `tyGood` type (bool,
`Qint[w]` with `w ≥ 2`, `Qchar`, tuples of at least two such - `Qlist`, `Qmatrix`), argument names
dot-free and other than `_ret`, every statement `stmtOKT` -/
def structLine (p : Prog) : Bool :=
  p.args.all (fun a => tyGood a.2 && goodName a.1 && a.1 != "_ret") && tyGood p.ret &&
    p.body.all stmtOKT

/-- the bits of a value as a string (driver) -/
def TVal.bitString (v : TVal) : String := bitsToString v.bits

end QV.Sem
