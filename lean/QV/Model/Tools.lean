import QV.Base.BExp
import QV.Base.Quirks
import QV.Model.Circuit
/-!
# Command-line tools: `qlasskit/tools/{utils,tools,py2bexp,py2qasm}.py`

Total computable model of what `py2bexp.main()` and `py2qasm.main()` do between reading the
script and printing.  External calls are parameters (DESIGN 2.3):

* executing the script (`importlib … exec_module`) — the model's input is the list of
  module-level *bindings* the script performs, in execution order (`Binding`);
* sympy's `to_anf / to_cnf / to_dnf / to_nnf` — a function parameter `NF` (may fail: sympy
  refuses `simplify=True` on more than 8 variables);
* iteration order of the Python set `expr.free_symbols` — the list `order`;
* sympy's `str` of an expression — the harness prints the model's tree with sympy;
* compiling a function to a circuit — the circuit is an input of `exportQasm`.
-/
namespace QV.Tools
open QV

/-! ## Script loading and entry-point selection (`utils.parse_file`, `tools.find_last_qlassf`) -/

/-- one module-level binding performed by the script: `name = <object>`;
`fn = some i` when the object is the `QlassF` number `i`, `none` for anything else -/
structure Binding where
  name : String
  fn : Option Nat
  deriving DecidableEq, Repr, Inhabited

/-- the module namespace after execution: a later binding of a name replaces the earlier one
(the position is irrelevant, `getmembers` sorts) -/
def namespaceOf : List Binding → List Binding
  | [] => []
  | b :: bs => if bs.any (·.name == b.name) then namespaceOf bs else b :: namespaceOf bs

/-- the object a name is bound to when the script has finished -/
def finalValue : List Binding → String → Option Binding
  | [], _ => none
  | b :: bs, e =>
    match finalValue bs e with
    | some b' => some b'
    | none => if b.name == e then some b else none

def nameLe (a b : Binding) : Bool := decide (a.name ≤ b.name)

/-- `inspect.getmembers(md)`: `results.sort(key=lambda pair: pair[0])` — by name, code-point order -/
def getmembers (bs : List Binding) : List Binding := (namespaceOf bs).mergeSort nameLe

def asQlassf (b : Binding) : Option (String × Nat) := b.fn.map (fun i => (b.name, i))

/-- `parse_str` / `parse_file`: `filter(lambda x: isinstance(x[1], QlassF), getmembers(md))` -/
def parseStr (bs : List Binding) : List (String × Nat) := (getmembers bs).filterMap asQlassf

/-- the QlassF-valued names of the final namespace, unsorted (specification side) -/
def qlassfMembers (bs : List Binding) : List (String × Nat) := (namespaceOf bs).filterMap asQlassf

/-- `find_last_qlassf`: `qlassf_list[-1][1] if qlassf_list else None` -/
def findLast (l : List (String × Nat)) : Option Nat := l.getLast?.map (·.2)

/-- `main()`: `if args.entrypoint: next((f[1] for f in l if f[0] == args.entrypoint), None)
else find_last_qlassf(l)` — an empty `-e ""` is falsy -/
def selectEntry (ep : Option String) (l : List (String × Nat)) : Option Nat :=
  match ep with
  | none => findLast l
  | some e => if e == "" then findLast l else (l.find? (·.1 == e)).map (·.2)

/-! ## `convert_to_bool_expression` -/

inductive Form where
  | sympy | anf | cnf | dnf | nnf
  deriving DecidableEq, Repr, Inhabited

def Form.ofString : String → Form
  | "anf" => .anf | "cnf" => .cnf | "dnf" => .dnf | "nnf" => .nnf | _ => .sympy

/-- `QlassF.expressions`: `(symbol, expression)` definitions in evaluation order -/
abbrev Defs := List (String × BExp)

/-- substitution given by an association list (first = newest match wins) -/
def lookupFn (acc : List (String × BExp)) : String → Option BExp := fun n => acc.lookup n

/-- repaired behaviour: every definition with the earlier ones substituted in
(`defs[sym] = exp.xreplace(defs)`), newest first -/
def inlineDefs : Defs → List (String × BExp) → List (String × BExp)
  | [], acc => acc
  | (n, e) :: ds, acc => inlineDefs ds ((n, e.subst (lookupFn acc)) :: acc)

/-- the expression handed to the normal-form conversion.
Code as it is (`bexpConjoinsIntermediates`): `sympy.And(*[expr[1] for expr in qlassf.expressions])`,
the right-hand side of **every** definition, intermediates and CSE symbols included.
Repaired: the conjunction of the return bits with the intermediate definitions substituted. -/
def combined (q : Quirks) (rets : List String) (exprs : Defs) : BExp :=
  if q.bexpConjoinsIntermediates then .and (exprs.map (·.2))
  else
    let defs := inlineDefs exprs []
    .and (rets.map (fun r => ((lookupFn defs) r).getD (.sym r)))

/-- sympy's normal-form conversions, as called by the tool (`simplify=True` where the tool says so) -/
abbrev NF := Form → BExp → Except String BExp

def dedupStrings : List String → List String
  | [] => []
  | s :: ss => if ss.contains s then dedupStrings ss else s :: dedupStrings ss

mutual
/-- sympy `_find_predicates`: the symbols **and the constants** occurring in the expression
(`True`/`False` are not `BooleanFunction`s, so each counts as a predicate) -/
def preds : BExp → List String
  | .tt => ["True"]
  | .ff => ["False"]
  | .sym n => [n]
  | .not e => preds e
  | .and l => predsList l
  | .or l => predsList l
  | .xor l => predsList l
  | .ite c t e => preds c ++ preds t ++ preds e
  | .imp a b => preds a ++ preds b
def predsList : List BExp → List String
  | [] => []
  | e :: es => preds e ++ predsList es
end

/-- the tool calls `to_cnf/to_dnf(…, simplify=True)` without `force=True`: sympy raises
`ValueError` when the expression has more than 8 predicates (`nfVarLimit`) -/
def nfCall (q : Quirks) (nf : NF) (form : Form) (e : BExp) : Except String BExp :=
  if q.nfVarLimit && (form == .cnf || form == .dnf) && (dedupStrings (preds e)).length > 8 then
    .error "ValueError"
  else nf form e

/-- `convert_to_bool_expression(qlassf, form)` applied to the combined expression `c` -/
def convertToBoolExpression (q : Quirks) (nf : NF) (form : Form) (c : BExp) : Except String BExp :=
  match form with
  | .sympy => .ok c
  | f => nfCall q nf f c

/-! ## `convert_to_dimacs` -/

/-- sympy `.args` -/
def args : BExp → List BExp
  | .and l => l
  | .or l => l
  | .xor l => l
  | .not e => [e]
  | .ite c t e => [c, t, e]
  | .imp a b => [a, b]
  | _ => []

def isSymbol : BExp → Bool
  | .sym _ => true
  | _ => false

/-- the code as it is: `clauses = cnf.args; if len(clauses) == 1 and isinstance(clauses[0], Symbol):
clauses = [clauses]` — the latter wraps the *tuple*, whose lookup in `var_dict` raises `KeyError` -/
def codeClauses (cnf : BExp) : Except String (List BExp) :=
  let a := args cnf
  if a.length == 1 && a.all isSymbol then .error "KeyError" else .ok a

/-- repaired: the conjuncts of an `And`, no clause for `True`, otherwise the expression itself -/
def fixedClauses : BExp → List BExp
  | .tt => []
  | .and l => l
  | c => [c]

/-- which shapes of CNF run into which listed defect -/
def buggyShape (q : Quirks) : BExp → Bool
  | .or _ => q.dimacsSingleClause
  | .and _ => q.dimacsSingleClause || q.dimacsAtomCnf
  | .tt => false
  | _ => q.dimacsAtomCnf

def clauseList (q : Quirks) (cnf : BExp) : Except String (List BExp) :=
  if buggyShape q cnf then codeClauses cnf else .ok (fixedClauses cnf)

/-- `clause.args if isinstance(clause, Or) else [clause]`; repaired: `False` is the empty clause -/
def clauseLits (q : Quirks) : BExp → List BExp
  | .or l => l
  | .ff => if q.dimacsAtomCnf then [.ff] else []
  | c => [c]

/-- position of the first occurrence -/
def idx? (s : String) : List String → Option Nat
  | [] => none
  | x :: xs => if x == s then some 0 else (idx? s xs).map (· + 1)

/-- `[f(x) for x in l]` where `f` may raise -/
def mapE {α β : Type} (f : α → Except String β) : List α → Except String (List β)
  | [] => .ok []
  | x :: xs =>
    match f x with
    | .error e => .error e
    | .ok y =>
      match mapE f xs with
      | .error e => .error e
      | .ok ys => .ok (y :: ys)

/-- `var_dict = {symbol: i + 1 for i, symbol in enumerate(expr.free_symbols)}` -/
def varNum (order : List String) (s : String) : Except String Int :=
  match idx? s order with
  | some i => .ok (Int.ofNat (i + 1))
  | none => .error "KeyError"

/-- `-var_dict[lit.args[0]] if isinstance(lit, Not) else var_dict[lit]` -/
def litNum (order : List String) : BExp → Except String Int
  | .not (.sym s) => match varNum order s with
    | .ok v => .ok (-v)
    | .error e => .error e
  | .sym s => varNum order s
  | _ => .error "KeyError"

structure Dimacs where
  nvars : Nat
  clauses : List (List Int)
  deriving DecidableEq, Repr, Inhabited

/-- `convert_to_dimacs(expr)` after its own `to_cnf(expr, simplify=True)` returned `cnf`;
`order = list(expr.free_symbols)` -/
def toDimacs (q : Quirks) (cnf : BExp) (order : List String) : Except String Dimacs :=
  match clauseList q cnf with
  | .error e => .error e
  | .ok cls =>
    match mapE (fun c => mapE (litNum order) (clauseLits q c)) cls with
    | .error e => .error e
    | .ok nums => .ok { nvars := order.length, clauses := nums }

def clauseLine (c : List Int) : String := " ".intercalate (c.map toString) ++ " 0\n"

/-- `f"p cnf {num_vars} {num_clauses}\n"` then one line `"l1 l2 … 0\n"` per clause -/
def Dimacs.text (d : Dimacs) : String :=
  s!"p cnf {d.nvars} {d.clauses.length}\n" ++ String.join (d.clauses.map clauseLine)

/-- meaning of a DIMACS clause set under an assignment of the variable numbers -/
def evalLitNum (σ : Nat → Bool) (i : Int) : Bool :=
  if i < 0 then !σ i.natAbs else σ i.natAbs

def Dimacs.eval (σ : Nat → Bool) (d : Dimacs) : Bool :=
  d.clauses.all (fun c => c.any (evalLitNum σ))

/-! ## `output_result` and `main` of py2bexp -/

inductive Format where
  | sympy | dimacs
  deriving DecidableEq, Repr, Inhabited

def warning : String :=
  "Warning: DIMACS format is only supported for CNF form. Converting to CNF.\n"

/-- what the tool produces: text written by `print` (stdout), and the thing printed last
(`print(result)` / `file.write(str(result))`): an expression (rendered by sympy's `str`) or text -/
inductive Printed where
  | expr (e : BExp)
  | dimacs (warned : Bool) (d : Dimacs)
  deriving Repr, Inhabited

/-- `convert_to_bool_expression` + `output_result`: `c` is the combined expression;
`order` the iteration order of the free symbols of the expression handed to `convert_to_dimacs` -/
def dimacsInput (q : Quirks) (nf : NF) (form : Form) (r : BExp) : Except String BExp :=
  -- `if form != "cnf": print(Warning); result = to_cnf(result, simplify=True)`
  if form != .cnf then nfCall q nf .cnf r else .ok r

def py2bexpOutput (q : Quirks) (nf : NF) (form : Form) (fmt : Format) (c : BExp)
    (order : List String) : Except String Printed :=
  match convertToBoolExpression q nf form c with
  | .error e => .error e
  | .ok r =>
    match fmt with
    | .sympy => .ok (.expr r)
    | .dimacs =>
      match dimacsInput q nf form r with
      | .error e => .error e
      | .ok r1 =>
        -- `convert_to_dimacs(result)`: `to_cnf(expr, simplify=True).args`, `expr.free_symbols`
        match nfCall q nf .cnf r1 with
        | .error e => .error e
        | .ok cnf =>
          match toDimacs q cnf order with
          | .error e => .error e
          | .ok d => .ok (.dimacs (form != .cnf) d)

/-- text that reaches stdout when `-o -` (the default): `print(result)` appends a newline -/
def Printed.stdoutText (render : BExp → String) : Printed → String
  | .expr e => render e ++ "\n"
  | .dimacs w d => (if w then warning else "") ++ d.text ++ "\n"

/-- with `-o file`: stdout gets only the warning, the file `str(result)` -/
def Printed.fileText (render : BExp → String) : Printed → String × String
  | .expr e => ("", render e)
  | .dimacs w d => (if w then warning else "", d.text)

/-! ## Reference semantics of a function's return bits -/

/-- sequential evaluation of the definitions: the environment after all of them -/
def runDefs (ρ : Env) : Defs → Env
  | [] => ρ
  | (n, e) :: ds => runDefs (fun x => if x == n then e.eval ρ else ρ x) ds

/-- "the conjunction of the function's return bits" at argument assignment `ρ` -/
def retConj (ρ : Env) (rets : List String) (exprs : Defs) : Bool :=
  rets.all (fun r => runDefs ρ exprs r)

/-- trigger of `bexpConjoinsIntermediates`: some definition is not a return bit, a return bit
has no (or more than one) definition, or a right-hand side mentions a defined symbol -/
def noIntermediates (rets : List String) (exprs : Defs) : Bool :=
  let lhs := exprs.map (·.1)
  lhs.all (rets.contains ·) && rets.all (lhs.contains ·) && lhs.Nodup
    && exprs.all (fun d => d.2.syms.all (fun s => !lhs.contains s))

/-! ## CNF as sympy builds it from a list of clauses of literals -/

structure Lit where
  neg : Bool
  var : String
  deriving DecidableEq, Repr, Inhabited

def Lit.eval (ρ : Env) (l : Lit) : Bool := if l.neg then !ρ l.var else ρ l.var
def Lit.toBExp (l : Lit) : BExp := if l.neg then .not (.sym l.var) else .sym l.var

abbrev Clause := List Lit

def evalClauses (ρ : Env) (cs : List Clause) : Bool := cs.all (fun c => c.any (Lit.eval ρ))

/-- `Or(*lits)`: no literal = `False`, one literal = the literal itself -/
def clauseBExp : Clause → BExp
  | [] => .ff
  | [l] => l.toBExp
  | ls => .or (ls.map Lit.toBExp)

/-- `And(*clauses)`: no clause = `True`, one clause = the clause itself -/
def cnfBExp : List Clause → BExp
  | [] => .tt
  | [c] => clauseBExp c
  | cs => .and (cs.map clauseBExp)

def clauseVars (cs : List Clause) : List String := cs.flatMap (fun c => c.map (·.var))

/-- the shapes of CNF on which the code as it is goes wrong -/
def dimacsTriggers (q : Quirks) (cs : List Clause) : Bool :=
  match cs with
  | [] => false
  | [c] => if c.length ≤ 1 then q.dimacsAtomCnf else q.dimacsSingleClause
  | cs => q.dimacsAtomCnf && cs.any (fun c => c.isEmpty)

/-! ## py2qasm: `convert_to_quasm`, `QasmExporter.export(qc, mode="circuit")` -/

structure QCirc where
  name : String
  qubitMap : List (String × Nat)  -- `qubit_map.items()` in insertion order (names may share an index)
  numQubits : Nat
  gates : List AGate
  deriving Repr, Inhabited

/-- `_qubit_name(_selfqc, i)`: `get_key_by_index(i)` (`for key in reversed(qubit_map.keys())`,
the **last** name mapped to `i`), or `q<i>` when the qubit has no name -/
def keyOf (qc : QCirc) (i : Nat) : String :=
  match qc.qubitMap.reverse.find? (·.2 == i) with
  | some p => p.1
  | none => s!"q{i}"

/-- body line: `\t{g.__name__.lower()} {" ".join(qbs)}\n` (gates without parameter only:
the compilers emit X/CX/CCX/MCX) -/
def gateLine (qc : QCirc) (g : AGate) : String :=
  "\t" ++ g.cls.name.toLower ++ " " ++ " ".intercalate (g.wires.map (keyOf qc)) ++ "\n"

def gateDef (qc : QCirc) : String :=
  "gate " ++ qc.name ++ " " ++ " ".intercalate ((List.range qc.numQubits).map (keyOf qc)) ++ " {\n"
    ++ String.join ((qc.gates.filter (fun g => !g.cls.isNop)).map (gateLine qc)) ++ "}\n\n"

def applyLine (qc : QCirc) : String :=
  qc.name ++ " " ++ ",".intercalate ((List.range qc.numQubits).map (fun c => s!"q[{c}]")) ++ ";\n"

/-- `QasmExporter(version).export(qc, mode="circuit")`: anything but 3 is version 2 -/
def exportQasm (version : Nat) (qc : QCirc) : String :=
  if version == 3 then "OPENQASM 3.0;\n\n" ++ gateDef qc ++ applyLine qc
  else "OPENQASM 2.0;\n\n" ++ "include \"qelib1.inc\";\n\n" ++ s!"qreg q[{qc.numQubits}];\n"
    ++ gateDef qc ++ applyLine qc

/-- `version = 3 if args.qasm_version == "3.0" else 2` -/
def qasmVersion (s : String) : Nat := if s == "3.0" then 3 else 2

/-- `py2qasm.main()`: select, recompile with the chosen compiler, export, `print`.
`compile c i` is the circuit of function `i` under compiler `c` (parameter). -/
def py2qasmStdout (compile : String → Nat → QCirc) (bs : List Binding) (ep : Option String)
    (compiler : String) (ver : String) : Option String :=
  (selectEntry ep (parseStr bs)).map (fun i => exportQasm (qasmVersion ver) (compile compiler i) ++ "\n")

/-- `py2bexp.main()` up to rendering: select, combine, convert, output.  `fnDefs i` are the
return-bit names and the expressions of function `i` (what the library computed). -/
def py2bexpMain (q : Quirks) (nf : NF) (fnDefs : Nat → List String × Defs) (bs : List Binding)
    (ep : Option String) (form : Form) (fmt : Format) (order : List String) :
    Option (Except String Printed) :=
  (selectEntry ep (parseStr bs)).map (fun i =>
    py2bexpOutput q nf form fmt (combined q (fnDefs i).1 (fnDefs i).2) order)

end QV.Tools
