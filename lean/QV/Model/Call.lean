import QV.Base.BExp
import QV.Base.Quirks
import QV.Gen.Tables
/-!
# Model of calling one compiled function from another

Mirrors, on `QV.BExp` definition lists,

* `qlasskit/ast2logic/env.py: Env.bind_function / know_function / getdef`
* the *Known function* branch of `qlasskit/ast2logic/t_expression.py: translate_expression`
* `qlasskit/qlassfun.py: QlassF.to_logicfun` (deep copy: the model threads the callee by value)
* `qlasskit/algorithms/qalgorithm.py: oraclize` (which callee name the wrapper calls; what
  happens to the callee object)

sympy's `subs` is modelled exactly as far as *which* symbol is replaced by *what* and in
*which order* (`seqSubst` = `e.subs(dict)` without a working `simultaneous=True`: one pair after
the other, keys in sympy's `default_sort_key` order, which for symbols is the order of the
names; `simSubst` = one simultaneous pass).  The re-canonicalisation sympy's constructors do
while rebuilding (flatten, dedupe, `x & ~x`) is not modelled: it preserves `eval`, so the
model's result is semantically equal to – and after canonicalising by the same constructors
normally identical with – the code's (checked on every case by `harness/c07.py`).

Quirk flags (`QV/Base/Quirks.lean`), ON = the code as it is, OFF = after the proposed patch:
`argIndexFromName`, `subsSequential`, `renameSequential`, `compressSequential`, `oraclizeRenames`.
-/
namespace QV.Call
open QV

/-- `ast2logic.typing.Arg` without the type -/
structure Arg where
  name : String
  bitvec : List String
  deriving Repr, Inhabited, DecidableEq

abbrev Defs := List (String × BExp)

/-- `LogicFun = (name, args, returns, expressions)` -/
structure LogicFun where
  name : String
  args : List Arg
  ret : Arg
  exps : Defs
  deriving Repr, Inhabited

/-- `f"{deff[0]}_{x}"` -/
def pref (p n : String) : String := p ++ "_" ++ n

/-! ## substitution: one symbol, sequential, simultaneous -/

/-- `e.subs(Symbol(x), r)` -/
def subst1 (x : String) (r : BExp) (e : BExp) : BExp :=
  e.subst (fun n => if n = x then some r else none)

/-- sympy `e.subs(sequence)` without `simultaneous=True`: one pair after the other -/
def seqSubst : List (String × BExp) → BExp → BExp
  | [], e => e
  | (x, r) :: l, e => seqSubst l (subst1 x r e)

/-- first binding of `n` -/
def lookup : List (String × BExp) → String → Option BExp
  | [], _ => none
  | (k, v) :: l, n => if n = k then some v else lookup l n

/-- `e.subs(dict, simultaneous=True)` / `e.xreplace(dict)` -/
def simSubst (l : List (String × BExp)) (e : BExp) : BExp := e.subst (lookup l)

/-- Python `d[k] = v` on an insertion-ordered dict -/
def dictSet (d : Defs) (k : String) (v : BExp) : Defs :=
  if d.any (fun kv => kv.1 == k) then d.map (fun kv => if kv.1 == k then (k, v) else kv)
  else d ++ [(k, v)]

def insertSorted (kv : String × BExp) : Defs → Defs
  | [] => [kv]
  | h :: t => if kv.1 < h.1 then kv :: h :: t else h :: insertSorted kv t

/-- the order in which sympy's unordered `subs` processes a dict whose keys are symbols:
`default_sort_key`, i.e. by name -/
def sortKeys : Defs → Defs
  | [] => []
  | h :: t => insertSorted h (sortKeys t)

/-! ## `Env.bind_function` -/

/-- `arg_rename` -/
def argRename (p : String) (a : Arg) : Arg :=
  { name := pref p a.name, bitvec := a.bitvec.map (pref p) }

/-- every symbol gets the prefix, in one pass (the repaired `exp_rename`) -/
def renameSim (p : String) (e : BExp) : BExp := e.subst (fun n => some (.sym (pref p n)))

/-- `for x in e.free_symbols: e = e.subs(x, Symbol(f"{p}_{x.name}"))`; `order` is the iteration
order of the set `e.free_symbols` of the *original* expression (an input of the model, as every
CPython set order is) -/
def renameSeq (p : String) (order : List String) (e : BExp) : BExp :=
  seqSubst (order.map (fun x => (x, BExp.sym (pref p x)))) e

def dedup : List String → List String
  | [] => []
  | h :: t => if t.contains h then dedup t else h :: dedup t

/-- `exp_rename` -/
def expRename (q : Quirks) (p : String) (order : Option (List String)) (se : String × BExp) :
    String × BExp :=
  (pref p se.1,
    if q.renameSequential then renameSeq p (order.getD (dedup se.2.syms)) se.2
    else renameSim p se.2)

def renameAll (q : Quirks) (p : String) : List (List String) → Defs → Defs
  | _, [] => []
  | [], se :: t => expRename q p none se :: renameAll q p [] t
  | o :: os, se :: t => expRename q p (some o) se :: renameAll q p os t

/-- one step of the compression loop: `new_e = e.xreplace(d_exp)` (one simultaneous replacement of all
the symbols defined so far).  Quirk `compressSequential` ON: `new_e = e.subs(d_exp)` – sympy's unordered
`subs` = one pair after the other in `default_sort_key` order (by symbol name, `sortKeys`), so a symbol
inside a value that has just been put in is substituted again -/
def compressSubst (q : Quirks) (d : Defs) (e : BExp) : BExp :=
  if q.compressSequential then seqSubst (sortKeys d) e else simSubst d e

/-- the compression loop: `new_e = e.xreplace(d_exp); d_exp[s] = new_e; n_exps.append((s, new_e))` -/
def compressGo (q : Quirks) (d : Defs) : Defs → Defs
  | [] => []
  | (s, e) :: rest =>
    (s, compressSubst q d e) :: compressGo q (dictSet d s (compressSubst q d e)) rest

/-- Python `l[-n:]` -/
def lastN {α} (n : Nat) (l : List α) : List α := if n = 0 then l else l.drop (l.length - n)

/-- the `LogicFun` that `bind_function` appends to `env.defs` -/
def bindFunction (q : Quirks) (orders : List (List String)) (f : LogicFun) : LogicFun :=
  { name := f.name
    args := f.args.map (argRename f.name)
    ret := f.ret
    exps := lastN f.ret.bitvec.length (compressGo q [] (renameAll q f.name orders f.exps)) }

/-- the names `bind_function` refuses: a type the environment knows (a call of it is a typecast) or one of
`RESERVED_FUNCTION_NAMES` (`QV.Gen.reservedFunctionNames`, read from env.py: ast2ast / `translate_expression` give
a call of these names a meaning of their own before the definitions are looked at) -/
def refusedName (types : List String) (n : String) : Bool :=
  types.contains n || QV.Gen.reservedFunctionNames.contains n

/-- `Env.defs` after `bind_function` with its guard
(`if self.know_type(deff[0]) or deff[0] in RESERVED_FUNCTION_NAMES: raise Exception(...)`): a definition under a
refused name is an error, every other definition is appended -/
def envBind (q : Quirks) (types : List String) (defs : List LogicFun)
    (orders : List (List String)) (f : LogicFun) : Except String (List LogicFun) :=
  if refusedName types f.name then .error "Exception" else .ok (defs ++ [bindFunction q orders f])

/-- `know_function`: exactly one definition of that name -/
def knowFunction (defs : List LogicFun) (n : String) : Bool :=
  (defs.filter (fun d => d.name == n)).length == 1

/-- `getdef`: the first definition of that name -/
def getDef (defs : List LogicFun) (n : String) : Option LogicFun := defs.find? (fun d => d.name == n)

/-- what a call of the name `n` reaches (the guard of the *Known function* branch, `env.know_function(n)`, then
`env.getdef(n)`): the definition of that name when the environment holds exactly one, nothing otherwise – a name
bound twice is not resolved at all (the caller is refused with `UnknownSymbolException`) -/
def resolve (defs : List LogicFun) (n : String) : Option LogicFun :=
  if knowFunction defs n then getDef defs n else none

/-! ## the call site -/

/-- a translated actual argument `(type, value)`: `isList` = the value is a Python list of bit
expressions (Qtype / tuple), else a single boolean expression; `nested` = the list has list
elements (a tuple display of tuples); `bits` = the bit expressions, flattened -/
structure Actual where
  isList : Bool
  nested : Bool := false
  bits : List BExp
  deriving Repr, Inhabited

def afterDot : List Char → List Char
  | [] => []
  | c :: cs => if c = '.' then cs else afterDot cs

/-- `".".join(name.split(".")[1:])`: what follows the first dot, `""` if there is none -/
def splitIndex (s : String) : String := String.ofList (afterDot s.toList)

def symName : BExp → Option String
  | .sym n => some n
  | _ => none

/-- the keys the code computes for a list-valued actual:
`index = ".".join(a[1][i].name.split(".")[1:]) or str(i)`, key `f"{fa.name}.{index}"` -/
def keysFromNames (fa : Arg) : Nat → List BExp → Except String (List (String × BExp))
  | _, [] => .ok []
  | i, b :: bs =>
    match symName b with
    | none => .error "AttributeError"
    | some nm =>
      let idx := splitIndex nm
      let idx := if idx == "" then toString i else idx
      match keysFromNames fa (i + 1) bs with
      | .ok r => .ok ((fa.name ++ "." ++ idx, b) :: r)
      | .error e => .error e

/-- the `(formal bit, actual bit)` pairs of one argument -/
def actualPairs (q : Quirks) (fa : Arg) (a : Actual) : Except String (List (String × BExp)) :=
  if q.argIndexFromName then
    if a.isList then
      if a.nested then .error "AttributeError" else keysFromNames fa 0 a.bits
    else .ok [(fa.name, a.bits.headD .ff)]
  else
    if a.bits.length != fa.bitvec.length then .error "TypeErrorException"
    else .ok (fa.bitvec.zip a.bits)

def allPairs (q : Quirks) : List Arg → List Actual → Except String (List (String × BExp))
  | fa :: fas, a :: as =>
    match actualPairs q fa a with
    | .error e => .error e
    | .ok p =>
      match allPairs q fas as with
      | .error e => .error e
      | .ok r => .ok (p ++ r)
  | _, _ => .ok []

def mkDict (pairs : List (String × BExp)) : Defs := pairs.foldl (fun d kv => dictSet d kv.1 kv.2) []

/-- `e.subs(subs, simultaneus=True)` (sic) vs `simultaneous=True` -/
def callSubst (q : Quirks) (d : Defs) (e : BExp) : BExp :=
  if q.subsSequential then seqSubst (sortKeys d) e else simSubst d e

/-- the *Known function* branch: the list of result bit expressions -/
def callSite (q : Quirks) (df : LogicFun) (actuals : List Actual) : Except String (List BExp) :=
  if actuals.length != df.args.length then .error "TypeErrorException"
  else
    match allPairs q df.args actuals with
    | .error e => .error e
    | .ok pairs => .ok (df.exps.map (fun se => callSubst q (mkDict pairs) se.2))

/-! ## `oraclize`: which name the wrapper source calls, and the callee object afterwards -/

structure Oraclized where
  calleeAfter : LogicFun
  passed : LogicFun
  calledName : String
  deriving Repr

def oraclize (q : Quirks) (f : LogicFun) (name : String) : Oraclized :=
  if f.name == name then
    let g := { f with name := "_" ++ name }
    { calleeAfter := if q.oraclizeRenames then g else f, passed := g, calledName := "_" ++ name }
  else { calleeAfter := f, passed := f, calledName := f.name }

/-! ## meaning of a definition list -/

def upd (ρ : Env) (s : String) (b : Bool) : Env := fun n => if n = s then b else ρ n

/-- sequential meaning: the final environment -/
def run (ρ : Env) : Defs → Env
  | [] => ρ
  | (s, e) :: t => run (upd ρ s (e.eval ρ)) t

/-- the value each definition computes, in order -/
def vals (ρ : Env) : Defs → List Bool
  | [] => []
  | (s, e) :: t => e.eval ρ :: vals (upd ρ s (e.eval ρ)) t

/-- environment giving `names[i]` the value `vs[i]` (first match), everything else `false` -/
def zipEnv : List String → List Bool → Env
  | n :: ns, v :: vs => fun x => if x = n then v else zipEnv ns vs x
  | _, _ => fun _ => false

def argBits (f : LogicFun) : List String := (f.args.map (·.bitvec)).flatten

/-- the Python-level meaning of a callee on argument bit values: run the definitions, read the
return bits -/
def LogicFun.sem (f : LogicFun) (argVals : List Bool) : List Bool :=
  f.ret.bitvec.map (run (zipEnv (argBits f) argVals) f.exps)

/-- `Closed A K l`: every definition of `l` reads only base symbols `A` and names defined earlier
(`K` = those already defined).  A definition MAY re-bind a name – an earlier definition's or a base
symbol's (`a = a ^ b` in a callee that re-assigns its parameter) -/
def Closed (A : List String) : List String → Defs → Prop
  | _, [] => True
  | K, (s, e) :: t => (∀ n ∈ e.syms, n ∈ A ∨ n ∈ K) ∧ Closed A (s :: K) t

/-- `Ok A K l`: `Closed`, and every definition defines a fresh name (single assignment, not a base
symbol) – what qlasskit's translator produces for a body without re-assignment -/
def Ok (A : List String) : List String → Defs → Prop
  | _, [] => True
  | K, (s, e) :: t => s ∉ A ∧ s ∉ K ∧ (∀ n ∈ e.syms, n ∈ A ∨ n ∈ K) ∧ Ok A (s :: K) t

/-- well-formed callee: closed over its argument bits (re-binding allowed), distinct argument bits,
return bits = the last definitions in order, pairwise distinct -/
structure WF (f : LogicFun) : Prop where
  closed : Closed (argBits f) [] f.exps
  argsNodup : (argBits f).Pairwise (· ≠ ·)
  retLast : (lastN f.ret.bitvec.length f.exps).map (·.1) = f.ret.bitvec
  retNodup : f.ret.bitvec.Pairwise (· ≠ ·)
  retNonempty : f.ret.bitvec ≠ []

/-- the stronger well-formedness the theorems assumed while the compression was sequential: single
assignment -/
structure WFStrict (f : LogicFun) : Prop where
  ok : Ok (argBits f) [] f.exps
  argsNodup : (argBits f).Pairwise (· ≠ ·)
  retLast : (lastN f.ret.bitvec.length f.exps).map (·.1) = f.ret.bitvec
  retNonempty : f.ret.bitvec ≠ []

/-- actuals have the shape of the formals -/
def Shaped : List Arg → List Actual → Prop
  | [], [] => True
  | fa :: fas, a :: as => a.bits.length = fa.bitvec.length ∧ Shaped fas as
  | _, _ => False

def actualBits (as : List Actual) : List BExp := (as.map (·.bits)).flatten

/-- values of the call's result bits in caller environment `ρ` (`none` = the call is rejected) -/
def callVals (q : Quirks) (f : LogicFun) (orders : List (List String)) (actuals : List Actual)
    (ρ : Env) : Option (List Bool) :=
  match callSite q (bindFunction q orders f) actuals with
  | .ok rs => some (rs.map (·.eval ρ))
  | .error _ => none

/-- symbols of the call's result bits -/
def callSyms (q : Quirks) (f : LogicFun) (orders : List (List String)) (actuals : List Actual) :
    List String :=
  match callSite q (bindFunction q orders f) actuals with
  | .ok rs => (rs.map (·.syms)).flatten
  | .error _ => []

/-! ## triggers of the listed defects (decidable predicates on the input) -/

/-- `argIndexFromName` bites: the keys recovered from the actual's symbol names are not the
formal's bits (tuple element of Qtype/tuple type, width mismatch, non-symbol bits) -/
def indexTrigger (fa : Arg) (a : Actual) : Bool :=
  match actualPairs { argIndexFromName := true } fa a with
  | .ok p => !(p.map (·.1) == fa.bitvec && p.map (·.1) == (fa.bitvec.zip a.bits).map (·.1)
              && a.bits.length == fa.bitvec.length)
  | .error _ => true

/-- `subsSequential` can bite: an actual mentions a symbol that is also a substituted key -/
def seqTrigger (d : Defs) : Bool :=
  d.any (fun kv => kv.2.syms.any (fun n => d.any (fun kv' => kv'.1 == n)))

/-- `renameSequential` can bite: the expression already has a symbol `p_x` for one of its own
symbols `x` -/
def renameTrigger (p : String) (e : BExp) : Bool :=
  e.syms.any (fun x => e.syms.contains (pref p x))

end QV.Call
