import QV.Model.Arith
import QV.Gen.Tables
/-!
# The typed expression / statement translator of `qlasskit/ast2logic`

Model of `translate_ast`, `translate_statement` (Assign, Return, Expr) and
`translate_expression` over the syntax that `ast2ast` hands to them (the harness feeds the tree
the *real* `ast2ast` produced; `ast2ast` itself is judged by the harness oracle on the source).
Types modelled: `bool`, `Qint[w]`, `Qchar`, `Tuple[...]` (hence `Qlist`, `Qmatrix`); every other
form is `unsupported` and the program is then outside the model (reported as such, never
compared).

`QintImp.mul` branches on `Qtype.is_const`, whose outcome depends on what sympy's automatic
evaluation did to an operand; those outcomes are an *input* of the model (`St.consts`, one pair
per call of `mul`, logged from the real run), falling back to the structural test when the log is
exhausted.

Quirks: those of `Arith`, plus `charEqZip` (`Qchar.eq/neq` compare only the zipped prefix) and
`modNonPow2` (`%` accepted for any right operand).
-/
namespace QV.Front
open QV QV.Arith

inductive Ty where
  | bool
  | qint (w : Nat)
  | qchar
  | tuple (ts : List Ty)
  deriving Repr, Inhabited

mutual
def Ty.beq : Ty → Ty → Bool
  | .bool, .bool => true
  | .qint a, .qint b => a == b
  | .qchar, .qchar => true
  | .tuple a, .tuple b => Ty.beqList a b
  | _, _ => false
def Ty.beqList : List Ty → List Ty → Bool
  | [], [] => true
  | a :: as, b :: bs => Ty.beq a b && Ty.beqList as bs
  | _, _ => false
end
instance : BEq Ty := ⟨Ty.beq⟩

/-- `BIT_SIZE` of the types that have one -/
def Ty.size? : Ty → Option Nat
  | .qint w => some w
  | .qchar => some 8
  | _ => none

mutual
/-- number of bits of a type (`translate_argument` bit vector length) -/
def Ty.bits : Ty → Nat
  | .bool => 1
  | .qint w => w
  | .qchar => 8
  | .tuple ts => Ty.bitsList ts
def Ty.bitsList : List Ty → Nat
  | [] => 0
  | t :: ts => t.bits + Ty.bitsList ts
end

mutual
/-- bit names `translate_argument(ann, base)` gives a value of this type -/
def Ty.names (base : String) : Ty → List String
  | .bool => [base]
  | .qint w => (List.range w).map fun i => s!"{base}.{i}"
  | .qchar => (List.range 8).map fun i => s!"{base}.{i}"
  | .tuple ts => Ty.namesList base 0 ts
def Ty.namesList (base : String) : Nat → List Ty → List String
  | _, [] => []
  | i, t :: ts => t.names s!"{base}.{i}" ++ Ty.namesList base (i + 1) ts
end

/-- a python value of the translator: one expression, or a (nested) list -/
inductive Val where
  | atom (e : BExp)
  | list (vs : List Val)
  deriving Inhabited

def Val.ofBits (l : List BExp) : Val := .list (l.map .atom)

/-- the elements of a list value as bit expressions; `none` when the value is not a flat list -/
def Val.bits? : Val → Option (List BExp)
  | .atom _ => none
  | .list vs => vs.mapM fun v => match v with | .atom e => some e | _ => none

mutual
/-- `_flatten_exp` -/
def Val.flatten : Val → List BExp
  | .atom e => [e]
  | .list vs => Val.flattenList vs
def Val.flattenList : List Val → List BExp
  | [] => []
  | v :: vs => v.flatten ++ Val.flattenList vs
end

mutual
/-- `decompose_to_symbols(v, base)` -/
def Val.decompose (base : String) : Val → List (String × BExp)
  | .atom e => [(base, e)]
  | .list vs => Val.decomposeList base 0 vs
def Val.decomposeList (base : String) : Nat → List Val → List (String × BExp)
  | _, [] => []
  | i, v :: vs => v.decompose s!"{base}.{i}" ++ Val.decomposeList base (i + 1) vs
end

mutual
/-- `_nest_as_type(bits, ttype)`: consumes a flat list; `none` = `pop` from an empty list -/
def nestAs : Ty → List BExp → Option (Val × List BExp)
  | .bool, b :: bs => some (.atom b, bs)
  | .bool, [] => none
  | .qint w, bs => if bs.length < w then none else some (Val.ofBits (bs.take w), bs.drop w)
  | .qchar, bs => if bs.length < 8 then none else some (Val.ofBits (bs.take 8), bs.drop 8)
  | .tuple ts, bs => (nestAsList ts bs).map fun (vs, r) => (.list vs, r)
def nestAsList : List Ty → List BExp → Option (List Val × List BExp)
  | [], bs => some ([], bs)
  | t :: ts, bs =>
    match nestAs t bs with
    | none => none
    | some (v, r) => (nestAsList ts r).map fun (vs, r') => (v :: vs, r')
end

/-- expressions as `ast2ast` leaves them -/
inductive PExp where
  | name (n : String)
  | cbool (b : Bool)
  | cint (v : Int)
  | cchar (code : Nat)
  | subs (n : String) (path : List Int)      -- `n[i][j]…` with constant indices
  | boolop (isAnd : Bool) (vs : List PExp)
  | not (e : PExp)
  | inv (e : PExp)
  | ite (c t e : PExp)
  | cmp (op : String) (l r : PExp)            -- op = name of the `ast` comparator class
  | bin (op : String) (l r : PExp)
  | tuple (es : List PExp)
  | unsupported (what : String)
  deriving Repr, Inhabited

inductive Stmt where
  | assign (target : String) (value : PExp)
  | ret (value : PExp)
  | expr (value : PExp)
  | unsupported (what : String)
  deriving Repr, Inhabited

structure Binding where
  name : String
  ty : Ty
  bitvec : List String
  deriving Inhabited

structure St where
  /-- `is_const` outcomes of the operands of each `mul`, in call order, from the real run -/
  consts : List (Bool × Bool) := []
  /-- quirk sites reached (for the attribution of failures) -/
  events : List String := []

abbrev M := StateT St (Except String)

def event (e : String) : M Unit := modify fun s => { s with events := s.events ++ [e] }

def popConsts (l r : List BExp) : M (Bool × Bool) := do
  let s ← get
  match s.consts with
  | c :: cs => set { s with consts := cs }; pure c
  | [] => pure (isConstBits l, isConstBits r)

abbrev Env := List Binding

def Env.find (env : Env) (n : String) : Option Binding := List.find? (fun b => b.name == n) env

/-- `const_to_qtype` for ints: the first of Qint2/4/6/8/12/16 with `v < 2**w`; `QintImp.const` -/
def constToQtype (v : Int) : Except String (Ty × List BExp) :=
  match (Gen.constQintCandidates.map (·.2)).find? (fun w => v < ((2 : Int) ^ w)) with
  | some w => pure (.qint w, qintConst w (v % ((2 : Int) ^ w)).toNat)
  | none => throw "Constant value is too big"

/-- `Qchar.const`: `bin_to_bool_list(bin(ord(c)))[::-1]` filled to 8 bits -/
def qcharConst (code : Nat) : List BExp := fill 8 (natBitsLE 32 code)

/-- walk the type along a subscript path (the loop over `sn.split(".")[1:]`) -/
def walkTy (neg : Bool) : Ty → List Int → Except String Ty
  | t, [] => pure t
  | t, i :: is =>
    if i < 0 && !neg then throw "OutOfBound: negative index" else
    match t.size? with
    | some n => if i < (n : Int) then walkTy neg .bool is else throw "OutOfBound"
    | none =>
      match t with
      | .tuple ts =>
        let len : Int := ts.length
        if i < len then
          let k := if i < 0 then len + i else i
          if k < 0 then throw "IndexError" else
          match ts[k.toNat]? with
          | some t' => walkTy neg t' is
          | none => throw "IndexError"
        else throw "OutOfBound"
      | _ => if i < 0 then throw "IndexError" else throw "OutOfBound"

def pathName (n : String) (path : List Int) : String :=
  path.foldl (fun s i => s!"{s}.{i}") n

/-- elementwise `ITE` of the IfExp branch for non-bool types: elements must be expressions -/
def iteZip (c : BExp) : List Val → List Val → Except String (List Val)
  | .atom t :: ts, .atom f :: fs => do
    let r ← iteZip c ts fs
    pure (.atom (.ite c t f) :: r)
  | [], _ => pure []
  | _, [] => pure []
  | _, _ => throw "ITE of a list"

def sizeOf! (t : Ty) : Except String Nat :=
  match t.size? with
  | some n => pure n
  | none => throw "TypeError: not a Qtype"

def isQint : Ty → Bool
  | .qint _ => true
  | _ => false

def bitsOf (v : Val) : Except String (List BExp) :=
  match v.bits? with
  | some l => pure l
  | none => throw "TypeError: not a bit list"

def atomOf (v : Val) : Except String BExp :=
  match v with
  | .atom e => pure e
  | _ => throw "TypeError: list where an expression is expected"

/-- `n` is a power of two not above 2^16 (the widest type has 16 bits) -/
def isPow2 (n : Nat) : Bool := (List.range 17).any fun k => n == 2 ^ k

/-- right-nested `unfold(v_exps, op)` of BoolOp -/
def unfoldBool (isAnd : Bool) : List BExp → BExp
  | [] => .tt
  | [x] => x
  | x :: xs => if isAnd then .and [x, unfoldBool isAnd xs] else .or [x, unfoldBool isAnd xs]

/-- tuple comparison loop of `translate_expression` (flat values indexed by position): the conjunction of
the bitwise equalities (since 6b91624 for `!=` too, which negates the result) -/
def tupleCmpLoop (l r : List Val) : List Ty → Nat → BExp → Except String BExp
  | [], _, c => pure c
  | t :: ts, idx, c => do
    let n ← match t with
      | .bool => pure 1
      | _ => sizeOf! t
    let mut c := c
    for k in [0:n] do
      match l[idx + k]?, r[idx + k]? with
      | some (.atom a), some (.atom b) => c := .and [c, bEq a b]
      | _, _ => throw "tuple comparison on nested values"
    tupleCmpLoop l r ts (idx + n) c

mutual
/-- `translate_expression` -/
def tr (q : Quirks) (env : Env) : PExp → M (Ty × Val)
  | .name n =>
    match env.find n with
    | some b =>
      if b.bitvec.length > 1 then pure (b.ty, .list (b.bitvec.map fun s => .atom (.sym s)))
      else match b.bitvec with
        | [s] => pure (b.ty, .atom (.sym s))
        | _ => throw "IndexError: empty bitvec"
    | none => throw s!"Unbound {n}"
  | .cbool b => pure (.bool, .atom (if b then .tt else .ff))
  | .cint v => do
    let (t, bits) ← (constToQtype v : Except String _)
    pure (t, Val.ofBits bits)
  | .cchar code => pure (.qchar, Val.ofBits (qcharConst code))
  | .subs n path =>
    match env.find n with
    | none => throw s!"Unbound {n}"
    | some b => do
      if path.any (· < 0) then event "negIndex"
      let t ← (walkTy q.negIndexAccepted b.ty path : Except String _)
      let sn := pathName n path
      match t.size? with
      | some w => pure (t, .list ((List.range w).map fun i => .atom (.sym s!"{sn}.{i}")))
      | none =>
        match t with
        | .tuple _ => pure (t, .list ((t.names sn).map fun s => .atom (.sym s)))   -- `_leaf_symbols` (6b971e4)
        | _ => pure (t, .atom (.sym sn))
  | .boolop isAnd vs => do
    let xs ← trList q env vs
    let mut es : List BExp := []
    for (_, v) in xs do
      es := es ++ [← (atomOf v : Except String _)]
    for (t, _) in xs do
      if t != .bool then throw "TypeError boolop"
    if es.isEmpty then throw "IndexError boolop"
    pure (.bool, .atom (unfoldBool isAnd es))
  | .not e => do
    let (t, v) ← tr q env e
    if t != .bool then throw "TypeError not"
    pure (.bool, .atom (.not (← (atomOf v : Except String _))))
  | .inv e => do
    let (t, v) ← tr q env e
    match t.size? with
    | some _ => pure (t, Val.ofBits (bitwiseNot (← (bitsOf v : Except String _))))
    | none => throw "ExpressionNotHandled invert"
  | .ite c t e => do
    let (ct, cv) ← tr q env c
    let (tt, tv) ← tr q env t
    let (et, ev) ← tr q env e
    if ct != .bool then throw "TypeError ite test"
    let cb ← (atomOf cv : Except String _)
    let mut tt := tt
    let mut tv := tv
    let mut ev := ev
    if tt != et then
      match tt.size?, et.size? with
      | some a, some b =>
        if a > b then
          ev := Val.ofBits (fill a (← (bitsOf ev : Except String _)))
        else if a < b then
          tv := Val.ofBits (fill b (← (bitsOf tv : Except String _)))
          tt := et
      | _, _ => throw "TypeError ite branches"
    if tt == .bool then
      pure (.bool, .atom (.ite cb (← (atomOf tv : Except String _)) (← (atomOf ev : Except String _))))
    else
      match tv, ev with
      | .list ts, .list fs => pure (tt, .list (← (iteZip cb ts fs : Except String _)))
      | _, _ => throw "TypeError: zip of a non list"
  | .tuple es => do
    let xs ← trList q env es
    pure (.tuple (xs.map (·.1)), .list (xs.map (·.2)))
  | .cmp astOp l r => do
    -- `for ast_comp, comp_name in comparators: if isinstance(expr.ops[0], ast_comp)`
    let op := match Gen.comparators.find? (·.1 == astOp) with
      | some (_, name) => name
      | none => "unhandled"
    let (lt, lv) ← tr q env l
    let (rt, rv) ← tr q env r
    match lt, rt with
    | .bool, .bool =>
      let a ← (atomOf lv : Except String _)
      let b ← (atomOf rv : Except String _)
      match op with
      | "eq" => pure (.bool, .atom (bEq a b))
      | "neq" => pure (.bool, .atom (bNeq a b))
      | _ => throw "OperationNotSupported"
    | .tuple ls, .tuple rs =>
      if ls.isEmpty || rs.isEmpty then throw "UnboundLocalError op_type" else
      if !(Ty.beqList ls rs) then throw "TypeError tuple compare" else
      let neq ← match astOp with   -- `isinstance(expr.ops[0], ast.Eq / ast.NotEq)`, not the table
        | "Eq" => pure false
        | "NotEq" => pure true
        | _ => throw "OperationNotSupported"
      match lv, rv with
      | .list a, .list b => do
        let c ← (tupleCmpLoop a b ls 0 .tt : Except String _)
        pure (.bool, .atom (if neq then .not c else c))   -- `a != b` is `not (a == b)`
      | _, _ => throw "TypeError: subscript of an expression"
    | _, _ =>
      match lt.size?, rt.size? with
      | some _, some _ => do
        let a ← (bitsOf lv : Except String _)
        let b ← (bitsOf rv : Except String _)
        match lt with
        | .qint _ =>
          if !isQint rt then throw "TypeError not comparable"
          if a.length < b.length && (op == "gt" || op == "lt" || op == "lte" || op == "gte") then
            event "gtLeftNarrow"
          let e ← match op with
            | "eq" => pure (qEq a b) | "neq" => pure (qNeq a b)
            | "gt" => pure (qGt q a b) | "lt" => pure (qLt q a b)
            | "lte" => pure (qLte q a b) | "gte" => pure (qGte q a b)
            | _ => throw "ExpressionNotHandled compare"
          pure (.bool, .atom e)
        | _ =>
          -- Qchar: comparable with Qchar and Qint; only eq / neq are implemented
          if a.length != b.length && (op == "eq" || op == "neq") then event "charEqZip"
          match op with
          | "eq" => pure (.bool, .atom (if q.charEqZip then eqLoop .tt a b else qEq a b))
          | "neq" => pure (.bool, .atom (if q.charEqZip then neqLoop .ff a b else qNeq a b))
          | "gt" | "lt" | "lte" | "gte" => throw "abstract comparator"
          | _ => throw "ExpressionNotHandled compare"
      | _, _ => throw "TypeError compare"
  | .bin op l r => do
    let (lt, lv) ← tr q env l
    let (rt, rv) ← tr q env r
    let boolCase : Option BExp :=
      match lt, rt, lv, rv with
      | .bool, .bool, .atom a, .atom b =>
        match op with
        | "xor" => some (.xor [a, b])
        | "and" => some (.and [a, b])
        | "or" => some (.or [a, b])
        | _ => none
      | _, _, _, _ => none
    match boolCase with
    | some e => pure (.bool, .atom e)
    | none =>
      match lt with
      | .qint nl =>
        match op with
        | "lshift" | "rshift" =>
          match r with
          | .cint k =>
            if k < 0 then throw "unsupported: negative shift" else
            let a ← (bitsOf lv : Except String _)
            pure (lt, Val.ofBits (if op == "lshift" then shiftLeft nl a k.toNat else shiftRight nl a k.toNat))
          | .cbool _ => throw "unsupported: bool shift"
          | _ => throw "ExpressionNotHandled shift"
        | _ =>
          match rt with
          | .qint nr => do
            let a ← (bitsOf lv : Except String _)
            let b ← (bitsOf rv : Except String _)
            match op with
            | "add" => pure (if nl < nr then rt else lt, Val.ofBits (qAdd a b))
            | "sub" =>
              if (fill nl a).length < (fill nl b).length then event "subLeftNarrow"
              pure (if nl < nr then rt else lt, Val.ofBits (qSub q nl a b))
            | "mul" =>
              let (cl, cr) ← popConsts a b
              if (cl || cr) then
                let l0 := if cl then fill nr a else a
                let r0 := if cr then fill nl b else b
                let r1 := if l0.length > r0.length then fill nl r0 else r0
                let l1 := if l0.length < r0.length then fill nr l0 else l0
                if litVal (if cl then l1 else r1) % 2 == 0 then event "mulEvenConst"
              let (t, bits) := qMul q cl cr nl nr a b
              pure (.qint t, Val.ofBits bits)
            | "mod" =>
              if isConstBits b then
                if !isPow2 (litVal b) then
                  event "modNonPow2"
                  if !q.modNonPow2 then throw "mod: literal right operand is not a power of two"
              else
                event "modVarDivisor"
                if !q.modVarDivisor then throw "mod: right operand is not a literal"
              pure (if nl > nr then lt else rt, Val.ofBits (qMod q nr a b))
            | "xor" => pure (if nl > nr then lt else rt, Val.ofBits (bitwiseGeneric opXor a b))
            | "and" => pure (if nl > nr then lt else rt, Val.ofBits (bitwiseGeneric opAnd a b))
            | "or" => pure (if nl > nr then lt else rt, Val.ofBits (bitwiseGeneric opOr a b))
            | _ => throw "ExpressionNotHandled binop"
          | .qchar => throw "unsupported: Qchar operand of Qint arithmetic"
          | _ => throw "TypeError binop"
      | .qchar => throw "unsupported: Qchar arithmetic"
      | _ => throw "ExpressionNotHandled / AttributeError binop"
  | .unsupported w => throw s!"unsupported: {w}"
def trList (q : Quirks) (env : Env) : List PExp → M (List (Ty × Val))
  | [] => pure []
  | e :: es => do
    let x ← tr q env e
    let xs ← trList q env es
    pure (x :: xs)
end

/-- `env.bind(Binding(..), rebind = target in env)` -/
def Env.bind (env : Env) (b : Binding) : Env :=
  (env.filter fun x => x.name != b.name) ++ [b]

/-- `translate_statement` for the statements `ast2ast` leaves; returns the new definitions -/
def trStmt (q : Quirks) (ret : Ty) (env : Env) : Stmt → M (List (String × BExp) × Env)
  | .assign target value => do
    let (t, v) ← tr q env value
    let mut v := v
    match t with
    | .tuple _ =>
      if (v.decompose target).map (·.1) != t.names target then
        event "tupleAssignFlat"
        if !q.tupleAssignFlat then
          match v with
          | .list _ =>
            match nestAs t v.flatten with
            | some (v', _) => v := v'
            | none => throw "IndexError: pop from empty list"
          | .atom _ => pure ()
    | _ => pure ()
    let res := v.decompose target
    pure (res, env.bind ⟨target, t, res.map (·.1)⟩)
  | .ret value => do
    let (t, v) ← tr q env value
    let mut t := t
    let mut v := v
    match t.size?, ret.size? with
    | some a, some b =>
      if a < b then
        let bits ← (bitsOf v : Except String _)
        v := Val.ofBits (fill b bits)
        t := ret
      else if a > b then
        let bits ← (bitsOf v : Except String _)
        v := Val.ofBits (crop b bits)
        t := ret
      else if t != ret then throw "TypeError return"
    | _, _ => if t != ret then throw "TypeError return"
    match t with
    | .tuple _ =>
      match nestAs t v.flatten with
      | some (v', _) => v := v'
      | none => throw "IndexError: pop from empty list"
    | _ => pure ()
    if (env.find "_ret").isSome then throw "duplicate bind"
    let res := v.decompose "_ret"
    pure (res, env ++ [⟨"_ret", t, res.map (·.1)⟩])
  | .expr value => do
    let _ ← tr q env value
    pure ([], env)
  | .unsupported w => throw s!"unsupported: {w}"

def trBody (q : Quirks) (ret : Ty) : Env → List Stmt → M (List (String × BExp))
  | env, [] => do
    if (env.find "_ret").isNone then
      event "noReturn"
      if !q.noReturnAccepted then throw "no return statement"
    pure []
  | env, s :: ss => do
    let (defs, env') ← trStmt q ret env s
    let rest ← trBody q ret env' ss
    pure (defs ++ rest)

structure Prog where
  args : List (String × Ty)
  ret : Ty
  body : List Stmt

/-- `translate_ast` (without `simplify_logic`, a semantics-preserving parameter) -/
def translate (q : Quirks) (consts : List (Bool × Bool)) (p : Prog) :
    Except String (List (String × BExp) × List String) :=
  let env : Env := p.args.foldl (fun env (n, t) => env ++ [⟨n, t, t.names n⟩]) []
  match (trBody q p.ret env p.body).run { consts := consts } with
  | .ok (defs, st) => .ok (defs, st.events)
  | .error e => .error e

/-- run the definitions in order on an assignment of the argument bits -/
def runDefs (defs : List (String × BExp)) (ρ0 : String → Bool) : String → Bool :=
  defs.foldl (fun ρ (n, e) => let v := e.eval ρ; fun x => if x == n then v else ρ x) ρ0

/-- truth table of the return bits: row k gives argument bit i the i-th bit of k -/
def retTable (argBits retBits : List String) (defs : List (String × BExp)) : String := Id.run do
  let mut out := ""
  for k in [0:2 ^ argBits.length] do
    let ρ := runDefs defs (assignment argBits k)
    for r in retBits do
      out := out.push (if ρ r then '1' else '0')
  return out

end QV.Front
