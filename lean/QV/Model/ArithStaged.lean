import QV.Model.Arith
/-!
# Evaluating the product of `QintImp.mul` on wide operands

The bits of the schoolbook product (`QV.Arith.schoolbook`) share their sub-expressions: `product[k]` of row `i`
is built from `product[k]` of row `i - 1` and from the carry of position `k - 1`, each used twice by
`_full_adder`.  In memory the expressions are a small graph, but `BExp.eval` walks them as trees, and the tree of
bit 15 of a `Qint[12] * Qint[12]` product has about 10^10 nodes.  To evaluate the model of `mul` on operands of
the largest shipped widths the outer loop is run *under an assignment* `ρ`: after every row the product list is
replaced by the literals of its values.  The inner loop is `QV.Arith.mulRow` itself, the prelude (`is_const`
fills, padding to one size, `__mul_sizing`, fill / crop of the result) is the one of `QV.Arith.qMul`.

`eval` is a homomorphism and `mulRow` reads `product` only through constructors, so every bit has the value
the bit of `qMul` has (`QV/Proofs/ArithStaged.lean`: `qMulLit_eval`); the driver also compares the two on every
request that is small enough to walk the trees.

Import-free apart from `QV/Model/Arith` (links into `qvdriver`).
-/
namespace QV.Arith
open QV

/-- the literal of a Boolean -/
def litB (b : Bool) : BExp := if b then .tt else .ff

/-- `mulRows` with the product list replaced, after every row, by the literals of its values under `ρ` -/
def mulRowsLit (ρ : Env) (r : List BExp) (last : Nat) : Nat → List BExp → List BExp → List BExp
  | _, [], product => product
  | i, li :: ls, product =>
    mulRowsLit ρ r last (i + 1) ls ((mulRow li last .ff i r product).map fun e => litB (e.eval ρ))

/-- `schoolbook` evaluated row by row under `ρ`: a list of literals -/
def schoolbookLit (ρ : Env) (l r : List BExp) : List BExp :=
  mulRowsLit ρ r (l.length + r.length - 1) 0 l (List.replicate (l.length + r.length) .ff)

/-- `qMul` (every product through the schoolbook loop, i.e. without the `mulEvenConst` shortcut of the old code)
with the product evaluated row by row under `ρ` -/
def qMulLit (ρ : Env) (cl cr : Bool) (nl nr : Nat) (l_ r_ : List BExp) : Nat × List BExp :=
  let l0 := if cl then fill nr l_ else l_
  let r0 := if cr then fill nl r_ else r_
  let n0 := l0.length
  let m0 := r0.length
  let r1 := if n0 > m0 then fill nl r0 else r0
  let l1 := if n0 < m0 then fill nr l0 else l0
  let n := if n0 < m0 then m0 else n0
  let m := if n0 > m0 then n0 else m0
  let t := mulSizing n m
  (t, crop t (fill t (schoolbookLit ρ l1 r1)))

end QV.Arith
