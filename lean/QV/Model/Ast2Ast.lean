import QV.Model.Front
import QV.Model.SemX
/-!
# The statement-level rewriting pass `qlasskit/ast2ast`

Model of `ast2ast.ast2ast` on the *source* statement tree (CPython `ast` of the function body, before
any pass ran), following the code line by line:

* `_reject_reserved_names` (`ast2ast.py`),
* `ConstantFolder` (`constantfolder.py`) – run before and after the rewriter: `visit_BinOp`,
  `visit_Compare`, `visit_UnaryOp`, `visit_IfExp`, `visit_If` (an `if` on a constant test is replaced
  by the chosen branch), `visit_Subscript`,
* `ReplaceMultiTargetAssign` (`replacemultitargetassign.py`),
* `ASTRewriter` (`astrewriter.py`): `visit_If` (guarded assignments under `_iftarg<hex n>`, the `__x`
  targets whose else-value is `x`, the unguarded copy of `_iftarg…` assignments in an else branch, the
  two exceptions), `visit_For` (`__unroll_arg`, `range`, literal tuples / lists, tuple-typed names,
  `NameValReplacer` on *every* `Name` – targets included –, the `else` suite rewritten after the last iteration),
  `visit_Assign` (the `Environment` updates, `IsNamePresent`, the `__target` temporary),
  `visit_AugAssign`, `visit_AnnAssign`, `visit_Name` (names starting with `__` raise),
  `visit_List`, `visit_BinOp` (`**` by a literal), `visit_Subscript` (only the branch that returns the
  node unchanged), the `_uniqd` counter.

Left to the real pass (the model answers `Err.outside`, the harness then compares nothing):
`visit_Call` builtins (`len sum min max any all ord chr print`; `range` only as the iterator of a
`for`), `visit_Subscript` with a `Name` / `Subscript` index (`create_if_exp`, constant tables),
constant folding that involves strings / floats / `is` / `in`, loops over a subscript or over elements
that are not constants, statement forms other than assignment / augmented assignment / annotated
assignment / `return` / expression statement / `if` / `for`.

Exceptions of the real pass are `Err.exc type key` (`key` = a text the message contains).

Mathlib-free (links into `qvdriver`, op `c01.ast2ast`).
-/
namespace QV.A2A
open QV QV.Front

/-- `ast.Constant.value` -/
inductive Const where
  | bool (b : Bool)
  | int (v : Int)
  | str (s : String)
  | other (what : String)
  deriving Repr, DecidableEq, Inhabited, BEq

/-- python expressions (`ast.expr`); operators are named by their `ast` class -/
inductive SExp where
  | name (n : String)
  | const (c : Const)
  | sub (v i : SExp)                         -- `v[i]`
  | boolop (isAnd : Bool) (vs : List SExp)
  | unop (op : String) (e : SExp)            -- Not Invert USub UAdd
  | ite (c t e : SExp)
  | cmp (op : String) (l r : SExp)           -- one comparator
  | bin (op : String) (l r : SExp)
  | tuple (es : List SExp)
  | list (es : List SExp)
  | call (fn : String) (args : List SExp)    -- `fn(args…)`, `fn` a name, no keywords
  | other (what : String)
  deriving Repr, Inhabited, BEq

/-- python statements (`ast.stmt`) -/
inductive SStmt where
  | assign (targets : List SExp) (value : SExp)
  | aug (target : SExp) (op : String) (value : SExp)
  | ann (target : SExp) (ann : String) (value : Option SExp)
  | ret (value : Option SExp)
  | expr (value : SExp)
  | ifs (test : SExp) (body orelse : List SStmt)
  | for_ (target iter : SExp) (body orelse : List SStmt)
  | other (what : String)
  deriving Repr, Inhabited, BEq

inductive Err where
  | exc (type key : String)
  | outside (why : String)
  deriving Repr, Inhabited, BEq

abbrev X := Except Err

def isDunder (n : String) : Bool := "__".toList.isPrefixOf n.toList
def isIfTarg (n : String) : Bool := "_iftarg".toList.isPrefixOf n.toList
/-- `target[2:]` -/
def dropDunder (n : String) : String := String.ofList (n.toList.drop 2)

/-! ## names (`ast.walk`, `IsNamePresent`) -/

mutual
/-- every `Name.id` of an expression -/
def namesE : SExp → List String
  | .name n => [n]
  | .const _ => []
  | .sub v i => namesE v ++ namesE i
  | .boolop _ vs => namesEs vs
  | .unop _ e => namesE e
  | .ite c t e => namesE c ++ namesE t ++ namesE e
  | .cmp _ l r => namesE l ++ namesE r
  | .bin _ l r => namesE l ++ namesE r
  | .tuple es => namesEs es
  | .list es => namesEs es
  | .call fn args => fn :: namesEs args
  | .other _ => []
def namesEs : List SExp → List String
  | [] => []
  | e :: es => namesE e ++ namesEs es
end

def namesOpt : Option SExp → List String
  | none => []
  | some e => namesE e

mutual
def namesS : SStmt → List String
  | .assign ts v => namesEs ts ++ namesE v
  | .aug t _ v => namesE t ++ namesE v
  | .ann t _ v => namesE t ++ namesOpt v
  | .ret v => namesOpt v
  | .expr v => namesE v
  | .ifs c b e => namesE c ++ namesSs b ++ namesSs e
  | .for_ t it b e => namesE t ++ namesE it ++ namesSs b ++ namesSs e
  | .other _ => []
def namesSs : List SStmt → List String
  | [] => []
  | s :: ss => namesS s ++ namesSs ss
end

/-- `_reject_reserved_names` -/
def rejectReserved (args : List String) (body : List SStmt) : X Unit :=
  if (args ++ namesSs body).any (fun n => isIfTarg n || n == "_temptup") then
    throw (.exc "Exception" "reserved for internal use")
  else pure ()

/-! ## `ConstantFolder` -/

def Const.asInt? : Const → Option Int
  | .bool b => some (if b then 1 else 0)
  | .int v => some v
  | _ => none

/-- python truthiness of a constant -/
def Const.truthy : Const → X Bool
  | .bool b => pure b
  | .int v => pure (v != 0)
  | .str s => pure (s != "")
  | .other w => throw (.outside s!"truth value of constant {w}")

def bigExp : Int := 4096

/-- `operator.<op>(l, r)` of `ConstantFolder.visit_BinOp`; `none` = the operator is not in its table -/
def pyBin (op : String) (l r : Const) : X (Option Const) :=
  let known := ["Add", "Sub", "Mult", "Div", "FloorDiv", "Mod", "Pow", "LShift", "RShift", "BitOr",
    "BitXor", "BitAnd"]
  if !known.contains op then pure none else
  match l, r with
  | .bool a, .bool b =>
    match op with
    | "BitAnd" => pure (some (.bool (a && b)))
    | "BitOr" => pure (some (.bool (a || b)))
    | "BitXor" => pure (some (.bool (Bool.xor a b)))
    | _ => arith op (if a then 1 else 0) (if b then 1 else 0)
  | _, _ =>
    match l.asInt?, r.asInt? with
    | some a, some b => arith op a b
    | _, _ => throw (.outside "constant folding of a string / float / None operand")
where
  arith (op : String) (a b : Int) : X (Option Const) :=
    match op with
    | "Add" => pure (some (.int (a + b)))
    | "Sub" => pure (some (.int (a - b)))
    | "Mult" => pure (some (.int (a * b)))
    | "Div" => if b == 0 then throw (.exc "ZeroDivisionError" "by zero")
               else throw (.outside "true division gives a float")
    | "FloorDiv" => if b == 0 then throw (.exc "ZeroDivisionError" "by zero")
                    else pure (some (.int (Int.fdiv a b)))
    | "Mod" => if b == 0 then throw (.exc "ZeroDivisionError" "by zero")
               else pure (some (.int (Int.fmod a b)))
    | "Pow" => if b < 0 then throw (.outside "negative exponent gives a float")
               else if b > bigExp then throw (.outside "huge exponent")
               else pure (some (.int (a ^ b.toNat)))
    | "LShift" => if b < 0 then throw (.exc "ValueError" "negative shift count")
                  else if b > bigExp then throw (.outside "huge shift")
                  else pure (some (.int (a * 2 ^ b.toNat)))
    | "RShift" => if b < 0 then throw (.exc "ValueError" "negative shift count")
                  else pure (some (.int (Int.fdiv a (2 ^ b.toNat))))
    | "BitAnd" => pure (some (.int (Sem.intBitwise (· && ·) 0 a b)))
    | "BitOr" => pure (some (.int (Sem.intBitwise (· || ·) 0 a b)))
    | "BitXor" => pure (some (.int (Sem.intBitwise Bool.xor 0 a b)))
    | _ => pure none

/-- `ConstantFolder.visit_Compare` on two constants; `none` = operator not in its table -/
def pyCmp (op : String) (l r : Const) : X (Option Const) :=
  match op with
  | "Eq" | "NotEq" | "Lt" | "LtE" | "Gt" | "GtE" =>
    match l.asInt?, r.asInt? with
    | some a, some b =>
      pure (some (.bool (match op with
        | "Eq" => a == b | "NotEq" => a != b | "Lt" => a < b | "LtE" => a ≤ b
        | "Gt" => a > b | _ => a ≥ b)))
    | _, _ => throw (.outside "comparison of string / float / None constants")
  | "Is" | "IsNot" | "In" | "NotIn" => throw (.outside "is / in on constants")
  | _ => pure none

/-- `ConstantFolder.visit_UnaryOp` on a constant -/
def pyUn (op : String) (c : Const) : X (Option Const) :=
  match op with
  | "Not" => do pure (some (.bool (!(← c.truthy))))
  | "UAdd" | "USub" | "Invert" =>
    match c.asInt? with
    | some a => pure (some (.int (match op with | "UAdd" => a | "USub" => -a | _ => -a - 1)))
    | none => throw (.outside "unary operator on a string / float / None constant")
  | _ => pure none

def builtinFuncs : List String := ["abs", "len", "min", "max", "sum", "any", "all", "chr", "ord"]

/-- an argument of a builtin call after `arg_tr`: a constant, or a tuple / list literal of constants -/
inductive PyArg where
  | scalar (c : Const)
  | lst (cs : List Const)

def constsOf : List SExp → Option (List Const)
  | [] => some []
  | .const c :: es => (constsOf es).map fun r => c :: r
  | _ :: _ => none

/-- `arg_tr` + the test `all(isinstance(arg, ast.Constant) …)`: `none` = some argument is not constant -/
def pyArgs : List SExp → Option (List PyArg)
  | [] => some []
  | .const c :: es => (pyArgs es).map fun r => .scalar c :: r
  | .tuple xs :: es =>
    match constsOf xs, pyArgs es with
    | some cs, some r => some (.lst cs :: r)
    | _, _ => none
  | .list xs :: es =>
    match constsOf xs, pyArgs es with
    | some cs, some r => some (.lst cs :: r)
    | _, _ => none
  | _ :: _ => none

def intsOf : List Const → Option (List Int)
  | [] => some []
  | c :: cs => match c.asInt?, intsOf cs with
    | some a, some r => some (a :: r)
    | _, _ => none

/-- python `min` / `max` over `int` / `bool` values: the first extremal element, with its own type -/
def pyExtreme (isMax : Bool) : List Const → Option Const
  | [] => none
  | c :: cs =>
    match pyExtreme isMax cs, c.asInt? with
    | none, _ => if cs.isEmpty then some c else none
    | some r, some a =>
      match r.asInt? with
      | some b => if isMax then (if b > a then some r else some c) else (if b < a then some r else some c)
      | none => none
    | some _, none => none

/-- `func(*args)` of `ConstantFolder.visit_Call` on constant arguments -/
def pyCall (fn : String) (args : List PyArg) : X Const :=
  let out : X Const := throw (.outside s!"constant folding of {fn} on these arguments")
  match fn, args with
  | "abs", [.scalar c] => match c.asInt? with
    | some a => pure (.int (if a < 0 then -a else a))
    | none => out
  | "len", [.lst cs] => pure (.int cs.length)
  | "len", [.scalar (.bool _)] => throw (.exc "TypeError" "has no len()")
  | "len", [.scalar (.int _)] => throw (.exc "TypeError" "has no len()")
  | "sum", [.lst cs] => match intsOf cs with
    | some l => pure (.int (l.foldl (· + ·) 0))
    | none => out
  | "any", [.lst cs] => match intsOf cs with
    | some l => pure (.bool (l.any (· != 0)))
    | none => out
  | "all", [.lst cs] => match intsOf cs with
    | some l => pure (.bool (l.all (· != 0)))
    | none => out
  | "min", [.lst cs] => match intsOf cs with
    | some _ => (match pyExtreme false cs with
      | some c => pure c
      | none => if cs.isEmpty then throw (.exc "ValueError" "empty") else out)
    | none => out
  | "max", [.lst cs] => match intsOf cs with
    | some _ => (match pyExtreme true cs with
      | some c => pure c
      | none => if cs.isEmpty then throw (.exc "ValueError" "empty") else out)
    | none => out
  | "chr", [.scalar c] => match c.asInt? with
    | some a => if 0 ≤ a ∧ a < 55296 then pure (.str (String.singleton (Char.ofNat a.toNat))) else out
    | none => out
  | "ord", [.scalar (.str t)] => match t.toList with
    | [ch] => pure (.int ch.toNat)
    | _ => throw (.exc "TypeError" "ord() expected a character")
  | fn, args =>
    -- no argument at all: every builtin of the table raises
    if args.isEmpty then throw (.exc "TypeError" "argument") else
    -- min / max of two or more scalars
    if (fn == "min" || fn == "max") && args.length ≥ 2 then
      match args.mapM (fun a => match a with | .scalar c => some c | .lst _ => none) with
      | some cs => (match intsOf cs, pyExtreme (fn == "max") cs with
        | some _, some c => pure c
        | _, _ => out)
      | none => out
    else out

mutual
/-- `ConstantFolder.visit` on an expression (children first: `generic_visit`) -/
def foldE : SExp → X SExp
  | .name n => pure (.name n)
  | .const c => pure (.const c)
  | .sub v i => do
    let v' ← foldE v
    let i' ← foldE i
    -- `visit_Subscript`: a constant index into a list literal of constants is the element
    match v', i' with
    | .list es, .const c =>
      match constsOf es with
      | some _ =>
        match c with
        | .str _ | .other _ => throw (.exc "TypeError" "list indices must be integers")
        | _ =>
          let k : Int := c.asInt?.getD 0
          let n : Int := es.length
          let k' := if k < 0 then k + n else k
          if 0 ≤ k' ∧ k' < n then pure (es.getD k'.toNat (.const c)) else pure (.sub v' i')
      | none => pure (.sub v' i')
    | _, _ => pure (.sub v' i')
  | .boolop a vs => do pure (.boolop a (← foldEs vs))
  | .unop op e => do
    let e' ← foldE e
    match e' with
    | .const c =>
      match ← pyUn op c with
      | some r => pure (.const r)
      | none => pure (.unop op e')
    | _ => pure (.unop op e')
  | .ite c t e => do
    let c' ← foldE c
    let t' ← foldE t
    let e' ← foldE e
    match c' with
    | .const k => if ← k.truthy then pure t' else pure e'
    | _ => pure (.ite c' t' e')
  | .cmp op l r => do
    let l' ← foldE l
    let r' ← foldE r
    match l', r' with
    | .const a, .const b =>
      match ← pyCmp op a b with
      | some k => pure (.const k)
      | none => pure (.cmp op l' r')
    | _, _ => pure (.cmp op l' r')
  | .bin op l r => do
    let l' ← foldE l
    let r' ← foldE r
    match l', r' with
    | .const a, .const b =>
      match ← pyBin op a b with
      | some k => pure (.const k)
      | none => pure (.bin op l' r')
    | _, _ => pure (.bin op l' r')
  | .tuple es => do pure (.tuple (← foldEs es))
  | .list es => do pure (.list (← foldEs es))
  | .call fn args => do
    let args' ← foldEs args
    if builtinFuncs.contains fn then
      match pyArgs args' with
      | some pa => pure (.const (← pyCall fn pa))
      | none => pure (.call fn args')
    else pure (.call fn args')
  | .other w =>
    -- a subscript whose slice `visit_Subscript` replaced by a python value: nothing to fold in it
    if "subscript-slice:".toList.isPrefixOf w.toList then pure (.other w) else throw (.outside s!"expression {w}")
def foldEs : List SExp → X (List SExp)
  | [] => pure []
  | e :: es => do
    let e' ← foldE e
    let es' ← foldEs es
    pure (e' :: es')
end

def foldOpt : Option SExp → X (Option SExp)
  | none => pure none
  | some e => do pure (some (← foldE e))

mutual
/-- `ConstantFolder.visit` on a statement; an `if` on a constant test becomes the chosen branch -/
def foldS : SStmt → X (List SStmt)
  | .assign ts v => do
    let ts' ← foldEs ts
    let v' ← foldE v
    pure [.assign ts' v']
  | .aug t op v => do
    let t' ← foldE t
    let v' ← foldE v
    pure [.aug t' op v']
  | .ann t a v => do
    let t' ← foldE t
    let v' ← foldOpt v
    pure [.ann t' a v']
  | .ret v => do pure [.ret (← foldOpt v)]
  | .expr v => do pure [.expr (← foldE v)]
  | .ifs c b e => do
    let c' ← foldE c
    let b' ← foldSs b
    let e' ← foldSs e
    match c' with
    | .const k => if ← k.truthy then pure b' else pure e'
    | _ => pure [.ifs c' b' e']
  | .for_ t it b e => do
    let t' ← foldE t
    let it' ← foldE it
    let b' ← foldSs b
    let e' ← foldSs e
    pure [.for_ t' it' b' e']
  | .other w => throw (.outside s!"statement {w}")
def foldSs : List SStmt → X (List SStmt)
  | [] => pure []
  | s :: ss => do
    let s' ← foldS s
    let ss' ← foldSs ss
    pure (s' ++ ss')
end

/-! ## `ReplaceMultiTargetAssign` -/

def targetIds : List SExp → X (List String)
  | [] => pure []
  | .name n :: es => do pure (n :: (← targetIds es))
  | _ :: _ => throw (.exc "AttributeError" "object has no attribute 'id'")

def indexed (v : SExp) : Nat → List String → List SStmt
  | _, [] => []
  | i, n :: ns => .assign [.name n] (.sub v (.const (.int i))) :: indexed v (i + 1) ns

def mtAssign (elts : List SExp) (v : SExp) : X (List SStmt) := do
  match v with
  | .name _ =>
    let ids ← targetIds elts
    pure (indexed v 0 ids)
  | _ =>
    let ids ← targetIds elts
    pure (.assign [.name "_temptup"] v :: indexed (.name "_temptup") 0 ids)

mutual
def mtS : SStmt → X (List SStmt)
  | .assign [.tuple elts] v => mtAssign elts v
  | .assign [.list elts] v => mtAssign elts v
  | .ifs c b e => do pure [.ifs c (← mtSs b) (← mtSs e)]
  | .for_ t it b e => do pure [.for_ t it (← mtSs b) (← mtSs e)]
  | s => pure [s]
def mtSs : List SStmt → X (List SStmt)
  | [] => pure []
  | s :: ss => do
    let s' ← mtS s
    let ss' ← mtSs ss
    pure (s' ++ ss')
end
/-! ## `NameValReplacer` -/

mutual
/-- replace every `Name` with id `v` by `val` (the value itself is not visited again) -/
def subst1 (v : String) (val : SExp) : SExp → SExp
  | .name n => if n == v then val else .name n
  | .const c => .const c
  | .sub a i => .sub (subst1 v val a) (subst1 v val i)
  | .boolop a vs => .boolop a (subst1s v val vs)
  | .unop op e => .unop op (subst1 v val e)
  | .ite c t e => .ite (subst1 v val c) (subst1 v val t) (subst1 v val e)
  | .cmp op l r => .cmp op (subst1 v val l) (subst1 v val r)
  | .bin op l r => .bin op (subst1 v val l) (subst1 v val r)
  | .tuple es => .tuple (subst1s v val es)
  | .list es => .list (subst1s v val es)
  | .call fn args => .call fn (subst1s v val args)
  | .other w => .other w
def subst1s (v : String) (val : SExp) : List SExp → List SExp
  | [] => []
  | e :: es => subst1 v val e :: subst1s v val es
end

/-- the substitutions of the enclosing loops, outermost first, applied in that order -/
abbrev Subst := List (String × SExp)

def substE (θ : Subst) (e : SExp) : SExp := θ.foldl (fun e p => subst1 p.1 p.2 e) e

/-! ## `Environment` -/

/-- what `Environment.types` / `.constants` hold -/
inductive EVal where
  | ann (e : SExp)                  -- an annotation (after `ReplaceTypeAnn`), as syntax
  | unknown                         -- the string "Unknown"
  | raw (c : Const)                 -- a python value (`set_constant` of a `Constant`)
  | node (e : SExp)                 -- a syntax node
  deriving Repr, Inhabited

structure RSt where
  uniq : Nat := 1
  types : List (String × EVal) := []
  consts : List (String × EVal) := []
  /-- rewrite rules exercised (evidence only) -/
  log : List String := []
  deriving Inhabited

abbrev RM := StateT RSt X

def lookup (l : List (String × EVal)) (n : String) : Option EVal := (l.find? (·.1 == n)).map (·.2)
def insert (l : List (String × EVal)) (n : String) (v : EVal) : List (String × EVal) :=
  (n, v) :: l.filter (·.1 != n)

def note (s : String) : RM Unit := modify fun st => if st.log.contains s then st else { st with log := st.log ++ [s] }

/-- `name in self.env` -/
def RSt.known (st : RSt) (n : String) : Bool := (lookup st.types n).isSome || (lookup st.consts n).isSome

def setType (n : String) (v : EVal) : RM Unit := modify fun st => { st with types := insert st.types n v }

/-- `Environment.set_constant(name, value)` (a `Constant` is unwrapped by the caller: `raw`) -/
def setConstant (n : String) (v : EVal) : RM Unit := modify fun st =>
  { st with consts := insert st.consts n v,
            types := if (lookup st.types n).isSome then st.types else insert st.types n v }

/-- `Environment.copy_type(origin, dest)` -/
def copyType (origin dest : String) : RM Unit := modify fun st =>
  match lookup st.types origin with
  | some v => { st with types := insert st.types dest v }
  | none => st

/-- `set_constant(name, node)` for a syntax node: a `Constant` is unwrapped -/
def setConstantNode (n : String) (e : SExp) : RM Unit :=
  match e with
  | .const c => setConstant n (.raw c)
  | e => setConstant n (.node e)

/-! ## `ASTRewriter` on expressions -/

def hexDigits (n : Nat) : String := String.ofList (Nat.toDigits 16 n)

/-- `left * left * … ` (`k` factors, nested to the left) -/
def powChain (l : SExp) : Nat → SExp
  | 0 => l
  | k + 1 => .bin "Mult" (powChain l k) l

/-- the syntax node an entry of `Environment.types` / `.constants` is, if it is one -/
def EVal.asNode? : EVal → Option SExp
  | .ann e => some e
  | .node e => some e
  | _ => none

def Const.pyType : Const → String
  | .bool _ => "bool"
  | .int _ => "int"
  | .str _ => "str"
  | .other w => w

def attrErr (what : String) : Err := .exc "AttributeError" s!"object has no attribute '{what}'"

/-- `L[i]` / `L[i][j]` of `create_if_exp` -/
def access1 (L : String) (i : Nat) : SExp := .sub (.name L) (.const (.int i))
def access2 (L : String) (i j : Nat) : SExp := .sub (.sub (.name L) (.const (.int i))) (.const (.int j))

/-- `create_if_exp(L, i, max_i)` from index `k` with `r` more elements after it:
`L[k] if i == k else … else L[k + r]` -/
def ifChain1 (L i : String) : Nat → Nat → SExp
  | k, 0 => access1 L k
  | k, r + 1 => .ite (.cmp "Eq" (.name i) (.const (.int k))) (access1 L k) (ifChain1 L i (k + 1) r)

/-- `create_if_exp(L, i, max_i, j, max_j)` over the positions in row-major order -/
def ifChain2 (L i j : String) : List (Nat × Nat) → SExp
  | [] => access2 L 0 0
  | [p] => access2 L p.1 p.2
  | p :: q :: ps =>
    .ite (.boolop true [.cmp "Eq" (.name i) (.const (.int p.1)), .cmp "Eq" (.name j) (.const (.int p.2))])
      (access2 L p.1 p.2) (ifChain2 L i j (q :: ps))

/-- the positions `(0,0) … (n-1, m-1)`, row by row -/
def positions (n m : Nat) : List (Nat × Nat) :=
  (List.range n).flatMap fun a => (List.range m).map fun b => (a, b)

/-- `.elts` of a syntax node -/
def eltsOf : SExp → X (List SExp)
  | .tuple es => pure es
  | .list es => pure es
  | _ => throw (attrErr "elts")

/-- `.slice` of a syntax node -/
def sliceOf : SExp → X SExp
  | .sub _ sl => pure sl
  | _ => throw (attrErr "slice")

/-- `gtype.slice` for what `Environment.get_type` returned (`None`, the string "Unknown", a python value or a node) -/
def typeSlice : Option EVal → X SExp
  | some v => match v.asNode? with
    | some e => sliceOf e
    | none => throw (attrErr "slice")
  | none => throw (attrErr "slice")

/-- python list indexing by a constant -/
def pyIndex (es : List SExp) (c : Const) : X SExp :=
  match c with
  | .str _ | .other _ => throw (.exc "TypeError" "indices must be integers")
  | _ =>
    let k : Int := c.asInt?.getD 0
    let n : Int := es.length
    let k' := if k < 0 then k + n else k
    if 0 ≤ k' ∧ k' < n then pure (es.getD k'.toNat (.const c)) else throw (.exc "IndexError" "index out of range")

/-- the end of `__unroll_arg`: a node whose elements are not known is its own only element, or (`strict`: `len`,
`sum`, `any`, `all`, one-argument `min` / `max`, since 5e521a1) refused -/
def unrollRest (strict : Bool) (arg : SExp) : X (List SExp) :=
  if strict then throw (.exc "Exception" "Not an iterable of known length") else pure [arg]

/-- `__unroll_arg` -/
def unrollArg (st : RSt) (strict : Bool) (arg : SExp) : X (List SExp) :=
  match arg with
  | .tuple es => pure es
  | .sub (.name L) sl =>
    match (lookup st.types L).bind EVal.asNode?, sl with
    | some (.sub _ (.tuple outer)), .const c => do
      -- the elements of the row that is indexed (a matrix need not be square)
      let row ← pyIndex outer c
      let row' := match row with
        | .sub _ s => s
        | r => r
      match row' with
      | .tuple r => pure ((List.range r.length).map fun (i : Nat) => .sub (.sub (.name L) (.const c)) (.const (.int (i : Int))))
      | _ => unrollRest strict arg
    | _, _ => unrollRest strict arg
  | .name n =>
    match (lookup st.types n).bind EVal.asNode? with
    | some (.sub hd sl) =>
      match hd with
      | .name h =>
        if h == "Tuple" then do
          let es ← eltsOf sl
          pure ((List.range es.length).map fun (i : Nat) => .sub (.name n) (.const (.int (i : Int))))
        else unrollRest strict arg
      | _ => throw (attrErr "id")
    | some (.tuple _) =>
      match lookup st.consts n with
      | some v => match v.asNode? with
        | some e => eltsOf e
        | none => throw (attrErr "elts")
      | none => unrollRest strict arg
    | _ => unrollRest strict arg
  | _ => unrollRest strict arg

/-- `a0 + (a1 + (…))` of `__call_sum` -/
def sumChain : List SExp → X SExp
  | [] => throw (.exc "IndexError" "list index out of range")
  | [x] => pure x
  | x :: y :: ys => do pure (.bin "Add" x (← sumChain (y :: ys)))

def cmpAll (op : String) (x : SExp) : List SExp → List SExp
  | [] => []
  | y :: ys => .cmp op x y :: cmpAll op x ys

/-- `iterif` of `__call_minmax` -/
def minmaxChain (op : String) : List SExp → X SExp
  | [] => throw (.exc "IndexError" "list index out of range")
  | [x] => pure x
  | x :: y :: ys => do pure (.ite (.boolop true (cmpAll op x (y :: ys))) x (← minmaxChain op (y :: ys)))

/-- `visit_Call` once the arguments are visited -/
def visitCall (st : RSt) (fn : String) (args : List SExp) : X SExp :=
  match fn with
  | "print" => throw (.outside "print")
  | "range" => throw (.outside "range outside the iterator of a for")
  | "len" =>
    match args with
    | [a] => do pure (.const (.int (← unrollArg st true a).length))
    | _ => throw (.exc "Exception" "Len only receives one argument")
  | "sum" =>
    match args with
    | [a] => do sumChain (← unrollArg st true a)
    | _ => throw (.exc "Exception" "sum() takes at most 1 argument")
  | "ord" | "chr" =>
    match args with
    | [a] => pure a
    | _ => throw (.exc "Exception" "takes exactly 1 argument")
  | "any" | "all" =>
    match args with
    | [a] => do pure (.boolop (fn == "all") (← unrollArg st true a))
    | _ => throw (.exc "Exception" "any() takes exactly 1 argument")
  | "min" | "max" => do
    let xs ← match args with
      | [a] => unrollArg st true a
      | _ => pure args
    minmaxChain (if fn == "max" then "Gt" else "LtE") xs
  | _ => pure (.call fn args)

/-- `visit_Subscript`, first branch: `L[a]` with `a` a constant of the environment - the slice becomes that constant
(a python value is no syntax: the node is then `other "subscript-slice:<type>"`) -/
def constSlice (st : RSt) (v i : SExp) : Option (X SExp) :=
  match i with
  | .name j =>
    match lookup st.consts j with
    | some (.raw c) => some (pure (.other ("subscript-slice:" ++ c.pyType)))
    | some cv =>
      match cv.asNode? with
      | some e => some (pure (.sub v e))
      | none => some (throw (.outside "constant of the environment"))
    | none => none
  | _ => none

/-- the number of elements `visit_Subscript` reads off the type of `L` for `L[i]` -/
def lenOfType (st : RSt) (L : String) : X Nat :=
  let gtype := lookup st.types L
  match gtype.bind EVal.asNode? with
  | some (.tuple es) => pure es.length
  | _ => do pure (← eltsOf (← typeSlice gtype)).length

/-- `visit_Subscript`, second branch: `L[i]` -/
def visitSub1 (st : RSt) (L iname : String) : X SExp := do
  let n ← lenOfType st L
  if n == 0 then throw (.exc "RecursionError" "maximum recursion depth exceeded")
  pure (ifChain1 L iname 0 (n - 1))

/-- the numbers of rows and of columns `visit_Subscript` reads off the type of `L` for `L[i][j]` (the columns are
those of row 0) -/
def dimsOfType (st : RSt) (L : String) : X (Nat × Nat) :=
  let gtype := lookup st.types L
  match gtype.bind EVal.asNode? with
  | some (.tuple (.tuple r :: es)) => pure (es.length + 1, r.length)
  | some (.tuple []) => throw (.exc "IndexError" "list index out of range")
  | _ => do
    let outer ← eltsOf (← typeSlice gtype)
    let inner ← match outer with
      | [] => throw (.exc "IndexError" "list index out of range")
      | x :: _ => pure x
    let inner' := match inner with
      | .sub _ sl => sl
      | x => x
    pure (outer.length, (← eltsOf inner').length)

/-- `visit_Subscript`, third branch: `L[i][j]` -/
def visitSub2 (st : RSt) (L iname jname : String) : X SExp := do
  let (n, m) ← dimsOfType st L
  if n == 0 || m == 0 then throw (.exc "RecursionError" "maximum recursion depth exceeded")
  pure (ifChain2 L iname jname (positions n m))

/-- the if-chain over the elements of a tuple: `x0` unless `i == 1` (`x1`) … -/
def tableChain (i : SExp) (x : SExp) (xs : List SExp) : SExp :=
  (xs.zipIdx).foldl (fun acc (p : SExp × Nat) => .ite (.cmp "Eq" i (.const (.int ((p.2 : Int) + 1)))) p.1 acc) x

/-- `visit_Subscript`, fourth branch: a variable index into a constant tuple / a tuple literal -/
def visitSubTable (st : RSt) (v i : SExp) : X SExp :=
  let varSlice := match i with
    | .name _ => true
    | .sub _ _ => true
    | _ => false
  if !varSlice then pure (.sub v i) else
  match v with
  | .name "Tuple" => pure (.sub v i)
  | _ =>
    let tup : Option SExp := match v with
      | .name L => (lookup st.consts L).bind EVal.asNode?
      | e => some e
    match tup with
    | some (.tuple []) => throw (.exc "IndexError" "list index out of range")
    | some (.tuple (x :: xs)) => pure (tableChain i x xs)
    | some (.const _) => throw (.exc "TypeError" "expected AST")
    | some _ => throw (.exc "Exception" "Not a tuple in ast2ast visit subscript")
    | none => throw (.exc "TypeError" "expected AST")

/-- `visit_Subscript` -/
def visitSub (st : RSt) (v i : SExp) : X SExp :=
  match constSlice st v i with
  | some r => r
  | none =>
    match v, i with
    | .name L, .name iname => visitSub1 st L iname
    | .sub (.name L) (.name iname), .name jname => visitSub2 st L iname jname
    | _, _ => visitSubTable st v i

mutual
/-- `ASTRewriter.visit` on an expression; `st` = the `Environment` at this point (expression visitors only read it) -/
def visitE (st : RSt) : SExp → X SExp
  | .name n => if isDunder n then throw (.exc "Exception" "invalid name starting with __") else pure (.name n)
  | .const c => pure (.const c)
  | .sub v i => visitSub st v i        -- the children are not visited
  | .boolop a vs => do pure (.boolop a (← visitEs st vs))
  | .unop op e => do pure (.unop op (← visitE st e))
  | .ite c t e => do
    let c' ← visitE st c
    let t' ← visitE st t
    let e' ← visitE st e
    pure (.ite c' t' e')
  | .cmp op l r => do
    let l' ← visitE st l
    let r' ← visitE st r
    pure (.cmp op l' r')
  | .bin op l r => do
    -- `visit_BinOp`: `**` by a literal is expanded before (instead of) visiting the operands
    let lit : Option Int := if op == "Pow" then (match r with
      | .const (.int k) => some k
      | .const (.bool b) => some (if b then 1 else 0)
      | _ => none) else none
    match lit with
    | some k =>
      if k > 0 then
        if k > bigExp then throw (.outside "huge exponent") else pure (powChain l (k.toNat - 1))
      else if k == 0 then pure (.const (.int 1))
      else do
        let l' ← visitE st l
        let r' ← visitE st r
        pure (.bin op l' r')
    | none => do
      let l' ← visitE st l
      let r' ← visitE st r
      pure (.bin op l' r')
  | .tuple es => do pure (.tuple (← visitEs st es))
  | .list es => do pure (.tuple (← visitEs st es))     -- `visit_List`
  | .call fn args => do
    let args' ← visitEs st args
    visitCall st fn args'
  | .other w => throw (.outside s!"expression {w}")
def visitEs (st : RSt) : List SExp → X (List SExp)
  | [] => pure []
  | e :: es => do
    let e' ← visitE st e
    let es' ← visitEs st es
    pure (e' :: es')
end

/-- an expression visited in the current state -/
def visitM (e : SExp) : RM SExp := fun s => match visitE s e with
  | .ok a => .ok (a, s)
  | .error err => .error err

def visitMs (es : List SExp) : RM (List SExp) := fun s => match visitEs s es with
  | .ok a => .ok (a, s)
  | .error err => .error err

def liftX {α} (x : X α) : RM α := fun s => match x with
  | .ok a => .ok (a, s)
  | .error e => .error e

/-! ## `visit_Assign`, `visit_AugAssign`, `visit_AnnAssign` -/

/-- the `Environment` update at the head of `visit_Assign` -/
def envUpdate (target : String) (value : SExp) : RM Unit :=
  match value with
  | .const c => setConstant target (.raw c)
  | .name m => do if (← get).known m then copyType m target else setType target .unknown
  | .tuple _ | .list _ => do
    let v' ← visitM value
    setConstantNode target v'
  | _ => setType target .unknown

def isConstE : SExp → Bool
  | .const _ => true
  | _ => false

/-- `visit_Assign` on `targets = value` -/
def visitAssign (targets : List SExp) (value : SExp) : RM (List SStmt) := do
  let target ← match targets with
    | .name t :: _ => pure t
    | _ :: _ => throw (.exc "AttributeError" "object has no attribute 'id'")
    | [] => throw (.outside "assignment without a target")
  let wasKnown := (← get).known target
  envUpdate target value
  if (namesE value).contains target && wasKnown && !isConstE value then
    note "self-assign"
    let v' ← visitM value
    let tmp := SExp.name ("__" ++ target)
    pure [.assign [tmp] v', .assign targets tmp]
  else
    let v' ← visitM value
    pure [.assign targets v']

/-- `visit_AugAssign` -/
def visitAug (target : SExp) (op : String) (value : SExp) : RM (List SStmt) := do
  let t ← match target with
    | .name t => pure t
    | _ => throw (.exc "AttributeError" "object has no attribute 'id'")
  note "augassign"
  let v' ← visitM (.bin op target value)
  let tmp := SExp.name ("__" ++ t)
  pure [.assign [tmp] v', .assign [target] tmp]

/-- `visit_AnnAssign` -/
def visitAnn (target : SExp) (a : String) (value : Option SExp) : RM (List SStmt) := do
  match target, value with
  | .name _, some v =>
    note "annassign"
    let res ← visitAssign [target] v
    match res.getLast? with
    | some (.assign _ v') => pure (res.dropLast ++ [.ann target a (some v')])
    | _ => throw (.outside "visit_AnnAssign: no assignment")
  | _, _ => pure [.ann target a value]

/-! ## `visit_If` -/

/-- the guarded form of the rewritten statements of the **if** branch -/
def guardBody (stKnown : String → Bool) (g : String) : List SStmt → X (List SStmt)
  | [] => pure []
  | .assign ts v :: rest => do
    let target ← match ts with
      | [.name t] => pure t
      | _ => throw (.exc "Exception" "if targets only allow one Name target")
    let old := if isDunder target && !stKnown target then dropDunder target else target
    let r ← guardBody stKnown g rest
    pure (.assign ts (.ite (.name g) v (.name old)) :: r)
  | _ :: _ => throw (.exc "Exception" "if body only allows assigns")

/-- the guarded form of the rewritten statements of the **else** branch: the assignment of an inner
`_iftarg…` is copied as it is -/
def guardElse (stKnown : String → Bool) (g : String) : List SStmt → X (List SStmt)
  | [] => pure []
  | .assign ts v :: rest => do
    let target ← match ts with
      | [.name t] => pure t
      | _ => throw (.exc "Exception" "if targets only allow one Name target")
    if isDunder target && !stKnown target then
      let r ← guardElse stKnown g rest
      pure (.assign ts (.ite (.name g) (.name (dropDunder target)) v) :: r)
    else if isIfTarg target then
      let r ← guardElse stKnown g rest
      pure (.assign ts v :: r)
    else
      let r ← guardElse stKnown g rest
      pure (.assign ts (.ite (.name g) (.name target) v) :: r)
  | _ :: _ => throw (.exc "Exception" "if body only allows assigns")

/-- the `uniqd` property -/
def nextUniq : RM String := do
  let st ← get
  set { st with uniq := st.uniq + 1 }
  pure (hexDigits (st.uniq + 1))

/-! ## `visit_For` -/

/-- `list(range(*args))` -/
def pyRange (start stop step : Int) : List Int :=
  if step > 0 then
    (List.range ((stop - start + step - 1) / step).toNat).map fun (i : Nat) => start + step * (i : Int)
  else if step < 0 then
    (List.range ((start - stop + (-step) - 1) / (-step)).toNat).map fun (i : Nat) => start + step * (i : Int)
  else []

def constInts : List SExp → X (List Int)
  | [] => pure []
  | .const c :: es =>
    match c with
    | .int v => do pure (v :: (← constInts es))
    | .bool b => do pure ((if b then 1 else 0) :: (← constInts es))
    | _ => throw (.exc "TypeError" "cannot be interpreted as an integer")
  | _ :: _ => throw (.exc "Exception" "Range call on not constant arguments is not handled")

def allConst : List SExp → Bool
  | [] => true
  | .const _ :: es => allConst es
  | _ :: _ => false

/-- an element of the unrolled iterator as `_val` -/
def iterVal : SExp → X SExp
  | .const c => pure (.const c)
  | .sub v i => pure (.sub v i)
  | _ => throw (.outside "loop over an element that is neither a constant nor a subscript")

def iterVals : List SExp → X (List SExp)
  | [] => pure []
  | e :: es => do
    let e' ← iterVal e
    let es' ← iterVals es
    pure (e' :: es')

/-- `self.__unroll_arg(self.visit(node.iter))`, flattened, each element as `_val` -/
def forIter (it : SExp) : RM (List SExp) := do
  match it with
  | .call "range" args =>
    note "for-range"
    let a1 ← visitMs args
    let a2 ← liftX (foldEs a1)
    if !allConst a2 then throw (.exc "Exception" "Range call on not constant arguments is not handled")
    let ints ← liftX (constInts a2)
    match ints with
    | [n] => pure ((pyRange 0 n 1).map fun i => .const (.int i))
    | [a, b] => pure ((pyRange a b 1).map fun i => .const (.int i))
    | [a, b, s] =>
      if s == 0 then throw (.exc "ValueError" "range() arg 3 must not be zero")
      else pure ((pyRange a b s).map fun i => .const (.int i))
    | _ => throw (.exc "TypeError" "range expected")
  | .tuple es =>
    note "for-tuple"
    let es' ← visitMs es
    liftX (iterVals es')
  | .list es =>
    note "for-list"
    let es' ← visitMs es
    liftX (iterVals es')
  | .name n =>
    note "for-name"
    let it' ← visitM (.name n)
    let elems ← liftX (unrollArg (← get) false it')
    liftX (iterVals elems)
  | it =>
    -- a row `m[c]`, an if-chain, a call …: visited, then unrolled as far as `__unroll_arg` knows it
    note "for-other"
    let it' ← visitM it
    let elems ← liftX (unrollArg (← get) false it')
    liftX (iterVals elems)

/-! ## statements -/

/-- the loop of `visit_For` over the values; `body v val` = the rewritten copy of the loop body with the
loop variable `v` replaced by `val` -/
def forLoop (t : SExp) (body : String → SExp → RM (List SStmt)) : List SExp → RM (List SStmt)
  | [] => pure []
  | val :: vals => do
    let v ← match t with
      | .name v => pure v
      | _ => throw (.exc "AttributeError" "object has no attribute 'id'")
    setConstantNode v val
    let tar ← visitAssign [t] val
    let b ← body v val
    let rest ← forLoop t body vals
    pure (tar ++ b ++ rest)

def isGuardAssign : SStmt → Bool
  | .assign [.name t] _ => isIfTarg t
  | _ => false

/-- evidence only: record several rules -/
def notes (l : List String) : RM Unit := modify fun st =>
  { st with log := l.foldl (fun acc m => if acc.contains m then acc else acc ++ [m]) st.log }

/-- evidence only: which shapes of `if` were rewritten -/
def noteIf (e b' e' : List SStmt) : RM Unit :=
  notes (["if"] ++ (if !e.isEmpty then ["else"] else [])
    ++ (match e with | [.ifs _ _ _] => ["elif"] | _ => [])
    ++ (if b'.any isGuardAssign then ["if-in-if-body"] else [])
    ++ (if e'.any isGuardAssign then ["if-in-else"] else []))

def noteFor (e : List SStmt) : RM Unit := notes (if !e.isEmpty then ["for-else"] else [])

mutual
/-- `ASTRewriter.visit` on a statement; `θ` = the loop-variable replacements of the enclosing loops -/
def rwS (θ : Subst) : SStmt → RM (List SStmt)
  | .assign ts v => visitAssign (ts.map (substE θ)) (substE θ v)
  | .aug t op v => visitAug (substE θ t) op (substE θ v)
  | .ann t a v => visitAnn (substE θ t) a (v.map (substE θ))
  | .ret none => pure [.ret none]
  | .ret (some v) => do pure [.ret (some (← visitM (substE θ v)))]
  | .expr v => do pure [.expr (← visitM (substE θ v))]
  | .ifs c b e => do
    let b' ← rwSs θ b
    let e' ← rwSs θ e
    noteIf e b' e'
    let g := "_iftarg" ++ (← nextUniq)
    let c' ← visitM (substE θ c)
    let st ← get
    let gb ← liftX (guardBody st.known g b')
    let ge ← liftX (guardElse st.known g e')
    pure (.assign [.name g] c' :: (gb ++ ge))
  | .for_ t it b e => do
    noteFor e
    let vals ← forIter (substE θ it)
    let rolls ← forLoop (substE θ t) (fun v val => rwSs (θ ++ [(v, val)]) b) vals
    -- there is no `break`: the else suite always runs after the last iteration (the loop variable is not replaced in it)
    let tail ← rwSs θ e
    pure (rolls ++ tail)
  | .other w => throw (.outside s!"statement {w}")
def rwSs (θ : Subst) : List SStmt → RM (List SStmt)
  | [] => pure []
  | s :: ss => do
    let s' ← rwS θ s
    let ss' ← rwSs θ ss
    pure (s' ++ ss')
end

/-! ## `ReplaceTypeAnn` on the annotations of the arguments (what `Environment.get_type` shows the rewriter) -/

def digitsVal (l : List Char) : Nat := l.foldl (fun a c => a * 10 + (c.toNat - 48)) 0

mutual
/-- `_replace_types_annotations` (since f3ecbf2: a one-element `Tuple[T]` is elaborated too, and the element annotation
of a `Qlist` / `Qmatrix` is elaborated before it is repeated) -/
def replaceAnn : SExp → X SExp
  | .sub (.name hd) sl =>
    if hd == "Tuple" then
      match sl with
      | .tuple es => do pure (.sub (.name "Tuple") (.tuple (← replaceAnns es)))
      | .list es => do pure (.sub (.name "Tuple") (.tuple (← replaceAnns es)))
      | e => do pure (.sub (.name "Tuple") (.tuple [← replaceAnn e]))
    else if hd == "Qlist" then
      match sl with
      | .tuple (t :: .const (.int n) :: _) => do
        let t' ← replaceAnn t
        pure (.sub (.name "Tuple") (.tuple (List.replicate n.toNat t')))
      | .tuple _ => throw (.outside "Qlist annotation form")
      | _ => pure (.sub (.name hd) sl)
    else if hd == "Qmatrix" then
      match sl with
      | .tuple (t :: .const (.int n) :: .const (.int m) :: _) => do
        let t' ← replaceAnn t
        pure (.sub (.name "Tuple") (.tuple (List.replicate n.toNat (.tuple (List.replicate m.toNat t')))))
      | .tuple _ => throw (.outside "Qmatrix annotation form")
      | _ => pure (.sub (.name hd) sl)
    else pure (.sub (.name hd) sl)
  | .name n =>
    if n.toList.take 4 == "Qint".toList then
      let d := n.toList.drop 4
      if !d.isEmpty && d.all Char.isDigit then pure (.sub (.name "Qint") (.const (.int (digitsVal d))))
      else throw (.exc "ValueError" "invalid literal for int()")
    else if n.toList.take 6 == "Qfixed".toList then throw (.outside "Qfixed<n> annotation")
    else pure (.name n)
  | e => pure e
def replaceAnns : List SExp → X (List SExp)
  | [] => pure []
  | e :: es => do
    let e' ← replaceAnn e
    let es' ← replaceAnns es
    pure (e' :: es')
end

/-- arguments: name and annotation -/
abbrev Args := List (String × SExp)

def replaceArgs : Args → X Args
  | [] => pure []
  | (n, a) :: r => do
    let a' ← replaceAnn a
    let r' ← replaceArgs r
    pure ((n, a') :: r')

/-- the state `visit_FunctionDef` leaves: the (replaced) annotation of each argument as its type -/
def initSt (args : Args) : RSt :=
  { types := args.foldl (fun l (n, a) => insert l n (.ann a)) [] }

/-- `generic_visit` of the `FunctionDef` also visits the annotations (arguments before the body, `returns` after it):
only an exception can be seen of it (`t: Tuple[bool]` is a `Subscript` by a `Name`: `visit_Subscript` asks the
environment for the type of `Tuple`) -/
def visitAnns (st : RSt) : List SExp → X Unit
  | [] => pure ()
  | a :: r => do
    let _ ← visitE st a
    visitAnns st r

def visitRet (st : RSt) : Option SExp → X Unit
  | none => pure ()
  | some a => do
    let _ ← visitE st a
    pure ()

def replaceRet : Option SExp → X (Option SExp)
  | none => pure none
  | some a => do pure (some (← replaceAnn a))

/-- `ast2ast` on a function (argument annotations, return annotation, body): the rewritten body and the rules
exercised -/
def ast2ast (args : Args) (ret : Option SExp) (body : List SStmt) : X (List SStmt × List String) := do
  rejectReserved (args.map (·.1)) body
  let b1 ← foldSs body
  let args' ← replaceArgs args
  let ret' ← replaceRet ret
  let b2 ← mtSs b1
  visitAnns (initSt args') (args'.map (·.2))
  let (b3, st) ← (rwSs [] b2).run (initSt args')
  visitRet st ret'
  let b4 ← foldSs b3
  let log := st.log ++ (if b1 != body then ["fold-pre"] else []) ++ (if b2 != b1 then ["multitarget"] else [])
    ++ (if b4 != b3 then ["fold-post"] else [])
  pure (b4, log)

/-! ## to the syntax of `QV.Model.Front` (what `harness/c01.py: pexp / stmt_json` do) -/

def cmpOps : List String := ["Eq", "NotEq", "Lt", "LtE", "Gt", "GtE", "Is", "IsNot", "In", "NotIn"]

def binName : String → Option String
  | "Add" => some "add" | "Sub" => some "sub" | "Mult" => some "mul" | "Mod" => some "mod"
  | "BitXor" => some "xor" | "BitAnd" => some "and" | "BitOr" => some "or"
  | "LShift" => some "lshift" | "RShift" => some "rshift"
  | _ => none

/-- a chain `n[i]…[k]` with literal `int` indices -/
def subsPath : SExp → Option (String × List Int)
  | .name n => some (n, [])
  | .sub v (.const (.int k)) => (subsPath v).map fun (n, p) => (n, p ++ [k])
  | _ => none

mutual
def toP : SExp → PExp
  | .name n => .name n
  | .const (.bool b) => .cbool b
  | .const (.int v) => .cint v
  | .const (.str s) => match s.toList with
    | [c] => .cchar c.toNat
    | _ => .unsupported "constant str"
  | .const (.other w) => .unsupported s!"constant {w}"
  | .sub v i =>
    match v with
    | .name _ | .sub _ _ =>
      match subsPath (.sub v i) with
      | some (n, p) => .subs n p
      | none => .unsupported "subscript slice"
    | _ => .unsupported "subscript root"
  | .boolop a vs => .boolop a (toPs vs)
  | .unop op e => if op == "Not" then .not (toP e) else if op == "Invert" then .inv (toP e)
                  else .unsupported "unaryop"
  | .ite c t e => .ite (toP c) (toP t) (toP e)
  | .cmp op l r => .cmp op (toP l) (toP r)
  | .bin op l r => match binName op with
    | some o => .bin o (toP l) (toP r)
    | none => .unsupported s!"binop {op}"
  | .tuple es => .tuple (toPs es)
  | .list _ => .unsupported "List"
  | .call _ _ => .unsupported "Call"
  | .other w => .unsupported w
def toPs : List SExp → List PExp
  | [] => []
  | e :: es => toP e :: toPs es
end

def toStmt : SStmt → Front.Stmt
  | .assign [.name t] v => .assign t (toP v)
  | .assign _ _ => .unsupported "assign target"
  | .ret (some v) => .ret (toP v)
  | .ret none => .unsupported "bare return"
  | .expr v => .expr (toP v)
  | .aug _ _ _ => .unsupported "AugAssign"
  | .ann _ _ _ => .unsupported "AnnAssign"
  | .ifs _ _ _ => .unsupported "If"
  | .for_ _ _ _ _ => .unsupported "For"
  | .other w => .unsupported w

end QV.A2A
