import QV.Model.SemX
import QV.Model.SemT
/-!
# `SemXT`: the exact python meaning widened to the structured types, with the claim it supports

The exact semantics `Sem` of `QV/Model/SemX.lean` (unbounded python ints at the library's types, each value
with the number `k` of low bits the fixed-width translation determines) for everything `QV.Sem.semT` gives a
meaning: a value is a bool / `Qint` leaf `XVal` as before, a `Qchar` leaf (code point; `k = none` = exact,
`some _` = nothing claimed), or a (nested) tuple of such.  The rules for the new forms are those of the
independent python oracle `harness/pysem.py`:

* `a[i]…` selects the element; the last index on a `Qint` leaf selects python's bit `i` of the exact value
  (`(x >> i) & 1`, two's complement), claimed when the leaf is exact or `i` is below its claim;
* `==` / `!=` on tuples of one type compare the exact leaves (`mk_open`: claimed iff every leaf of both
  operands is exact), on `Qchar` the code points;
* an if-expression over `Qchar` / tuples is the chosen branch, with nothing claimed (`undetermined`) when
  the test is not exact;
* `return` of a `Qchar` / tuple keeps the value (the declared type must be the value's type).

`XT.claim` = the claims of the leaves in the order of the return symbols.  Theorem
(`QV/Props/C01.lean`): `C01_straightline_struct`.  Mathlib-free (driver op `c01.semw`, field `exact`).
-/
namespace QV.Sem
open QV QV.Front

/-- exact values of the widened semantics -/
inductive XT where
  | leaf (x : XVal)
  | char (c : Nat) (k : Option Nat)
  | tuple (vs : List XT)
  deriving Repr, Inhabited

abbrev XTEnv := String → Option XT

mutual
def XT.ty : XT → Ty
  | .leaf ⟨.bool _, _⟩ => .bool
  | .leaf ⟨.int w _, _⟩ => .qint w
  | .char _ _ => .qchar
  | .tuple vs => .tuple (XT.tyList vs)
def XT.tyList : List XT → List Ty
  | [] => []
  | v :: vs => v.ty :: XT.tyList vs
end

mutual
/-- `undetermined`: the same value with nothing claimed -/
def XT.undet : XT → XT
  | .leaf ⟨v, _⟩ => .leaf ⟨v, some 0⟩
  | .char c _ => .char c (some 0)
  | .tuple vs => .tuple (XT.undetList vs)
def XT.undetList : List XT → List XT
  | [] => []
  | v :: vs => v.undet :: XT.undetList vs
end

mutual
/-- the least claim among the leaves (`none` = all exact) -/
def XT.kAll : XT → Option Nat
  | .leaf ⟨_, k⟩ => k
  | .char _ k => k
  | .tuple vs => XT.kAllList vs
def XT.kAllList : List XT → Option Nat
  | [] => none
  | v :: vs => kmin v.kAll (XT.kAllList vs)
end

mutual
/-- python `==` on the exact values of two values of one type -/
def XT.beq : XT → XT → Bool
  | .leaf ⟨.bool a, _⟩, .leaf ⟨.bool b, _⟩ => a == b
  | .leaf ⟨.int _ x, _⟩, .leaf ⟨.int _ y, _⟩ => x == y
  | .char c _, .char d _ => c == d
  | .tuple xs, .tuple ys => XT.beqList xs ys
  | _, _ => false
def XT.beqList : List XT → List XT → Bool
  | [], [] => true
  | x :: xs, y :: ys => x.beq y && XT.beqList xs ys
  | _, _ => false
end

/-- `v[i][j]…`: element of a tuple; the last index may select python's bit `i` of a `Qint` leaf -/
def XT.index : XT → List Int → Option XT
  | v, [] => some v
  | .tuple vs, i :: is =>
    if 0 ≤ i then
      match vs[i.toNat]? with
      | some v => v.index is
      | none => none
    else none
  | .leaf ⟨.int w x, k⟩, [i] =>
    if 0 ≤ i ∧ i < (w : Int) then
      some (.leaf ⟨.bool (decide ((x / (2 : Int) ^ i.toNat) % 2 = 1)),
        match k with
        | none => none
        | some j => if i.toNat < j then none else some 0⟩)
    else none
  | _, _ => none

def cmpEqInt : String → Int → Int → Option Bool
  | "Eq", a, b => some (decide (a = b))
  | "NotEq", a, b => some (decide (a ≠ b))
  | _, _, _ => none

def notXT : XT → Option XT
  | .leaf ⟨.bool b, k⟩ => some (.leaf ⟨.bool (!b), k⟩)
  | _ => none

def invXT : XT → Option XT
  | .leaf ⟨.int w x, k⟩ => some (.leaf (mkInt w (-x - 1) k))
  | _ => none

/-- `select` of the oracle -/
def iteXT : XT → XT → XT → Option XT
  | .leaf ⟨.bool cb, kc⟩, .leaf ⟨.bool x, kx⟩, .leaf ⟨.bool y, ky⟩ =>
    some (.leaf ⟨.bool (if cb then x else y), match kc with | none => (if cb then kx else ky) | some _ => some 0⟩)
  | .leaf ⟨.bool cb, kc⟩, .leaf ⟨.int a x, kx⟩, .leaf ⟨.int b y, ky⟩ =>
    some (.leaf ⟨.int (max a b) (if cb then x else y),
      match kc with | none => (if cb then kx else ky) | some _ => some 0⟩)
  | .leaf ⟨.bool cb, kc⟩, .char x kx, .char y ky =>
    some (.char (if cb then x else y) (match kc with | none => (if cb then kx else ky) | some _ => some 0))
  | .leaf ⟨.bool cb, kc⟩, .tuple xs, .tuple ys =>
    if Ty.beqList (XT.tyList xs) (XT.tyList ys) then
      some (match kc with
        | none => .tuple (if cb then xs else ys)
        | some _ => .tuple (XT.undetList (if cb then xs else ys)))
    else none
  | _, _, _ => none

def cmpXT (op : String) : XT → XT → Option XT
  | .leaf ⟨.bool x, kx⟩, .leaf ⟨.bool y, ky⟩ => (cmpBool op x y).map fun b => .leaf (mkBool b (kmin kx ky))
  | .leaf ⟨.int _ x, kx⟩, .leaf ⟨.int _ y, ky⟩ => (cmpInt op x y).map fun b => .leaf (mkBool b (kmin kx ky))
  | .char x kx, .char y ky => (cmpEqInt op x y).map fun b => .leaf (mkBool b (kmin kx ky))
  | .char x kx, .leaf ⟨.int _ y, ky⟩ => (cmpEqInt op x y).map fun b => .leaf (mkBool b (kmin kx ky))
  | .tuple xs, .tuple ys =>
    if Ty.beqList (XT.tyList xs) (XT.tyList ys) && !xs.isEmpty then
      match op with
      | "Eq" => some (.leaf (mkBool (XT.beqList xs ys) (kmin (XT.kAllList xs) (XT.kAllList ys))))
      | "NotEq" => some (.leaf (mkBool (!XT.beqList xs ys) (kmin (XT.kAllList xs) (XT.kAllList ys))))
      | _ => none
    else none
  | _, _ => none

/-- the leaves of `and` / `or` operands -/
def leavesOf : List XT → Option (List XVal)
  | [] => some []
  | .leaf x :: vs => (leavesOf vs).map (x :: ·)
  | _ => none

mutual
/-- the exact python meaning of an expression under the variable environment `σ` -/
def semXT (σ : XTEnv) : PExp → Option XT
  | .name n => σ n
  | .cbool b => some (.leaf ⟨.bool b, none⟩)
  | .cint v =>
    match constWidth v with
    | some w => some (.leaf ⟨.int w v, if 0 ≤ v then none else some w⟩)
    | none => none
  | .cchar c => if c < 256 then some (.char c none) else none
  | .subs n path =>
    match σ n with
    | some v => v.index path
    | none => none
  | .not e =>
    match semXT σ e with
    | some v => notXT v
    | none => none
  | .inv e =>
    match semXT σ e with
    | some v => invXT v
    | none => none
  | .boolop isAnd vs =>
    match semXTList σ vs with
    | some xs =>
      match leavesOf xs with
      | some ls => (boolFoldX isAnd ls).map fun (r, kk) => .leaf (mkBool r kk)
      | none => none
    | none => none
  | .ite c t e =>
    match semXT σ c, semXT σ t, semXT σ e with
    | some cv, some x, some y => iteXT cv x y
    | _, _, _ => none
  | .cmp op l r =>
    match semXT σ l, semXT σ r with
    | some x, some y => cmpXT op x y
    | _, _ => none
  | .bin op l r =>
    match semXT σ l with
    | some (.leaf ⟨.bool x, kx⟩) =>
      match semXT σ r with
      | some (.leaf ⟨.bool y, ky⟩) => (boolBinX op x y (kmin kx ky)).map .leaf
      | _ => none
    | some (.leaf ⟨.int wl x, kx⟩) =>
      if op == "lshift" || op == "rshift" then
        match r with
        | .cint k =>
          if k < 0 then none
          else if op == "lshift" then some (.leaf (mkInt wl (x * (2 : Int) ^ k.toNat) kx))
          else some (.leaf (mkOpen wl (x.fdiv ((2 : Int) ^ k.toNat)) kx))
        | _ => none
      else
        match semXT σ r with
        | some (.leaf ⟨.int wr y, ky⟩) => (intBinX op wl wr x y (kmin kx ky)).map .leaf
        | _ => none
    | _ => none
  | .tuple es =>
    match semXTList σ es with
    | some xs => some (.tuple xs)
    | none => none
  | .unsupported _ => none
def semXTList (σ : XTEnv) : List PExp → Option (List XT)
  | [] => some []
  | e :: es =>
    match semXT σ e, semXTList σ es with
    | some x, some xs => some (x :: xs)
    | _, _ => none
end

/-- the `return` statement -/
def coerceRetXT (ret : Ty) : XT → Option XT
  | .leaf x => (coerceRetX ret x).map .leaf
  | .char c k => match ret with
    | .qchar => some (.char c k)
    | _ => none
  | .tuple vs => match ret with
    | .tuple ts => if Ty.beqList (XT.tyList vs) ts then some (.tuple vs) else none
    | _ => none

def XTEnv.set (σ : XTEnv) (n : String) (v : XT) : XTEnv := fun m => if m == n then some v else σ m

def semBodyXT (ret : Ty) : XTEnv → List Stmt → Option XT
  | _, [] => none
  | σ, .assign t e :: ss =>
    match semXT σ e with
    | some v => semBodyXT ret (σ.set t v) ss
    | none => none
  | σ, .ret e :: _ =>
    match semXT σ e with
    | some v => coerceRetXT ret v
    | none => none
  | σ, .expr _ :: ss => semBodyXT ret σ ss
  | _, .unsupported _ :: _ => none

mutual
/-- the arguments decoded from their bits: exact and in range by construction -/
def decodeXT (ρ : String → Bool) (base : String) : Ty → XT
  | .bool => .leaf ⟨.bool (ρ base), none⟩
  | .qint w => .leaf ⟨.int w (valLE ((Ty.names base (.qint w)).map ρ) : Nat), none⟩
  | .qchar => .char (valLE ((Ty.names base .qchar).map ρ)) none
  | .tuple ts => .tuple (decodeXTList ρ base 0 ts)
def decodeXTList (ρ : String → Bool) (base : String) : Nat → List Ty → List XT
  | _, [] => []
  | i, t :: ts => decodeXT ρ s!"{base}.{i}" t :: decodeXTList ρ base (i + 1) ts
end

def argsEnvXT (args : List (String × Ty)) (ρ : String → Bool) : XTEnv := fun n =>
  match args.find? (·.1 == n) with
  | some (_, t) => some (decodeXT ρ n t)
  | none => none

/-- `Sem` (widened) of a program on an assignment of its argument bits -/
def semProgXT (p : Prog) (ρ : String → Bool) : Option XT :=
  semBodyXT p.ret (argsEnvXT p.args ρ) p.body

mutual
/-- what the property claims of the return bits, leaf by leaf in the order of the return symbols -/
def XT.claim : XT → List (Option Bool)
  | .leaf x => x.claim
  | .char c k => match k with
    | none => (toBitsLE 8 c).map some
    | some _ => List.replicate 8 none
  | .tuple vs => XT.claimList vs
def XT.claimList : List XT → List (Option Bool)
  | [] => []
  | v :: vs => v.claim ++ XT.claimList vs
end

/-- in range: `Sem` is defined and every leaf is exact -/
def inRangeProgT (p : Prog) (ρ : String → Bool) : Bool :=
  match semProgXT p ρ with
  | some v => v.kAll.isNone
  | none => false

end QV.Sem
