import QV.Model.Bind
/-!
# Model of `is_value_of(ann, w)` (qlasskit/qlassfun.py) on the annotation *as written*

`QV.Model.Bind.isValueOf` works on `Ty`, where `Tuple[..]`, `Qlist[T, n]` and `Qmatrix[T, n, m]` are
already elaborated to (nested) `Ty.tuple`s.  The step from the written annotation to that shape – which
argument of `Qmatrix[T, n, m]` counts the rows and which the entries of a row, which argument of
`Qlist[T, n]` is the length, how `Qint[n]` / `Qfixed[n, m]` name a builtin class – is what this file
models, following the code branch by branch:

```
def is_value_of(ann, w):
    is_iter(w, n) = hasattr(w, "__iter__") and not isinstance(w, (str, bytes)) and len(w) == n
    is_int(e)     = isinstance(e, ast.Constant) and type(e.value) is int and e.value > 0
    Name(id)                 -> name, elts = id, []
    Subscript(Name(id), s)   -> name, elts = id, (s.elts if s is a Tuple else [s])
    anything else            -> False
    "bool"    : elts == [] and isinstance(w, bool)
    "Tuple"   : len(elts) > 0 and is_iter(w, len(elts)) and all(is_value_of(e, x) for e, x in zip(elts, w))
    "Qlist"   : len(elts) == 2 and is_int(elts[1]) and is_iter(w, elts[1].value) and all(is_value_of(elts[0], x) for x in w)
    "Qmatrix" : len(elts) == 3 and is_int(elts[1]) and is_int(elts[2]) and is_iter(w, elts[1].value)
                and all(is_iter(r, elts[2].value) for r in w) and all(is_value_of(elts[0], x) for r in w for x in r)
    "Qint" / "Qfixed" with elts all is_int : name += "_".join(str(e.value) for e in elts);  other elts != [] : False
    the class of BUILTIN_TYPES called `name` that has a BIT_SIZE:  bool w -> False;  QintImp -> int, 0 <= w < 2**BIT_SIZE;
        QfixedImp -> int / float, 0 <= w < 2**BIT_SIZE_INTEGER;  Qchar -> str of length 1;   no such class -> False
```

A keyword value is a `PyVal`: an atom (bool / int / str – floats are outside `PyVal`) or an iterable with a
length (`list`, `tuple`, `range`, …).  The function recurses on the *value* (every recursive call of the
code is on an element of `w`), so the definition splits on the value first: for an atom every `is_iter` is
`False`, for an iterable every `isinstance(w, bool / int / str)` is `False`.
-/
namespace QV.Bind

/-- an annotation expression, as far as `is_value_of` looks at it -/
inductive AnnE where
  /-- `ast.Name(id)` -/
  | name (id : String)
  /-- `ast.Subscript` whose value is `ast.Name(id)`; `elts` = the slice's elements when the slice is a
      tuple, else the slice alone -/
  | sub (id : String) (elts : List AnnE)
  /-- `ast.Constant` with `type(value) is int` -/
  | int (v : Int)
  /-- any other node (`Attribute`, `Subscript` of something else, other constants, …) -/
  | other
  deriving Repr, Inhabited

/-- `name, elts` of the first lines of `is_value_of`; `none` = the `else: return False` -/
def AnnE.head : AnnE → Option (String × List AnnE)
  | .name id => some (id, [])
  | .sub id elts => some (id, elts)
  | _ => none

/-- `is_int(e)`, with the value -/
def AnnE.posInt : AnnE → Option Nat
  | .int v => if v > 0 then some v.toNat else none
  | _ => none

/-- `is_iter(w, n)` -/
def isIter (n : Nat) : PyVal → Bool
  | .iter l => l.length == n
  | .atom _ => false

/-- the name looked up in `BUILTIN_TYPES`: `Qint[4]` ↦ `Qint4`, `Qfixed[2, 3]` ↦ `Qfixed2_3`, a bare name ↦
    itself, any other subscript ↦ none (`return False`) -/
def builtinName (name : String) (elts : List AnnE) : Option String :=
  if (name = "Qint" ∨ name = "Qfixed") ∧ elts ≠ [] ∧ elts.all (fun e => e.posInt.isSome) then
    some (name ++ "_".intercalate (elts.map fun e => toString (e.posInt.getD 0)))
  else if elts ≠ [] then none
  else some name

/-- the loop over `BUILTIN_TYPES` for an atom `x`: class tables regenerated from the source
    (`QV.Gen.qintTypes`, `QV.Gen.qfixedTypes`; `Qchar` is the one other class with a `BIT_SIZE`) -/
def builtinValue (nm : String) (x : Atom) : Bool :=
  match x with
  | .b _ => false
  | .i v =>
      match lookupS QV.Gen.qintTypes nm with
      | some w => decide (0 ≤ v) && decide (v < ((2 ^ w : Nat) : Int))
      | none =>
        match lookupS QV.Gen.qfixedTypes nm with
        | some (_, bi, _) => decide (0 ≤ v) && decide (v < ((2 ^ bi : Nat) : Int))
        | none => false
  | .s s => nm == "Qchar" && s.length == 1

/-- `is_value_of(ann, w)` for a `w` that is not iterable -/
def scalarValueOf (name : String) (elts : List AnnE) (x : Atom) : Bool :=
  if name = "bool" then
    elts.isEmpty && (match x with | .b _ => true | _ => false)
  else if name = "Tuple" ∨ name = "Qlist" ∨ name = "Qmatrix" then false
  else
    match builtinName name elts with
    | some nm => builtinValue nm x
    | none => false

mutual
/-- `is_value_of(ann, w)` -/
def isValueOfAnn : AnnE → PyVal → Bool
  | a, .atom x =>
      match a.head with
      | some (name, elts) => scalarValueOf name elts x
      | none => false
  | a, .iter ws =>
      match a.head with
      | none => false
      | some (name, elts) =>
        if name = "Tuple" then
          !elts.isEmpty && ws.length == elts.length && zipValueOf elts ws
        else if name = "Qlist" then
          match elts with
          | [t, n] =>
            match n.posInt with
            | some n => ws.length == n && allValueOf t ws
            | none => false
          | _ => false
        else if name = "Qmatrix" then
          match elts with
          | [t, n, m] =>
            match n.posInt, m.posInt with
            | some n, some m => ws.length == n && ws.all (isIter m) && allRowsValueOf t ws
            | _, _ => false
          | _ => false
        else false
/-- `all(is_value_of(e, x) for e, x in zip(elts, w))` -/
def zipValueOf : List AnnE → List PyVal → Bool
  | e :: es, x :: xs => isValueOfAnn e x && zipValueOf es xs
  | [], _ => true
  | _, [] => true
/-- `all(is_value_of(t, x) for x in w)` -/
def allValueOf : AnnE → List PyVal → Bool
  | _, [] => true
  | t, x :: xs => isValueOfAnn t x && allValueOf t xs
/-- `all(is_value_of(t, x) for r in w for x in r)` (reached only when every `r` is an iterable) -/
def allRowsValueOf : AnnE → List PyVal → Bool
  | _, [] => true
  | t, .iter xs :: rs => allValueOf t xs && allRowsValueOf t rs
  | _, .atom _ :: _ => false
end

/-! ## Can the translator read the declared type of a typed assignment?

`bind` injects `k: T = v` with the annotation `T` as written; `ReplaceTypeAnn` (`_replace_types_annotations`,
qlasskit/ast2ast/replacetypeann.py) elaborates `Qlist[T, n]` to `Tuple[T, .., T]` and `Qmatrix[T, n, m]` to a tuple of
such rows before `translate_argument` evaluates it.  The `Tuple` branch elaborates its elements recursively.  With
quirk `annNestedContainerUnread` (the code today) the `Qlist` / `Qmatrix` branches copy their element annotation as it
is, and the `Tuple` branch is skipped for a one-element `Tuple[T]` (its slice has no `.elts`), so a `Qlist` / `Qmatrix`
anywhere inside such a `T` stays unread and the evaluation raises (`UnknownTypeException`, or `AttributeError` in
`to_name` when the unread node's arguments are bare names such as `bool`); without it
(docs/fixes/C08-nested-container-annotation.diff) these annotations are elaborated first.  `readable` speaks
about this one cause only (it is consulted for annotations some value is a value of). -/

mutual
/-- a `Qlist[..]` / `Qmatrix[..]` node occurs in the annotation -/
def AnnE.hasQ : AnnE → Bool
  | .sub id elts => id == "Qlist" || id == "Qmatrix" || hasQList elts
  | _ => false
def hasQList : List AnnE → Bool
  | [] => false
  | a :: l => a.hasQ || hasQList l
end

mutual
def AnnE.readable (q : Quirks) : AnnE → Bool
  | .sub id elts =>
      if id = "Qlist" ∨ id = "Qmatrix" then
        match elts with
        | t :: _ => if q.annNestedContainerUnread then !t.hasQ else t.readable q
        | [] => true
      -- `Tuple[T]`: the slice is not a tuple (no `.elts`), the code today skips the whole branch
      else if id = "Tuple" ∧ elts.length = 1 ∧ q.annNestedContainerUnread = true then !hasQList elts
      else readableList q elts
  | _ => true
def readableList (q : Quirks) : List AnnE → Bool
  | [] => true
  | a :: l => a.readable q && readableList q l
end

end QV.Bind
