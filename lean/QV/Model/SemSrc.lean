import QV.Model.Ast2Ast
import QV.Model.Sem
/-!
# Source-level meaning of statements with control flow (`if`, `for`)

Specification side of C01 for the *source* statement tree (`QV.A2A.SStmt`, what CPython's `ast` gives,
before `ast2ast`), on top of the fixed-width expression semantics `QV.Sem.semW`.

* An `if` evaluates its test **once**, to a value `g`, before any statement of a branch runs; the branch
  whose polarity `g` has is *taken*, the other is *skipped*.  Both are walked with the guard `(g, polarity)`
  pushed on the guard stack `gs`: an assignment `t = e` under the stack stores
  `wrapW gs (value of e) (old value of t)` – the new value when every guard on the stack holds, the old value
  otherwise, in both cases at the *joined* type (`selW`, the library's typing rule for `new if g else old`:
  the wider of the two `Qint` types).  So a skipped branch changes no value (`exec_skipped_keeps_values`,
  `QV/Proofs/A2A3.lean`): it only contributes to the types and has to be defined.  Nothing a branch
  assigns changes which branch is running.
* `elif` / an `if` nested anywhere: the inner test is evaluated where python evaluates it (after the
  statements before it) and pushed on the stack.
* `for v in <literal range / tuple / list of constants>` iterates: `v` is assigned each value in turn and the
  body runs in the environment so extended (no substitution).
* assignment = environment update; augmented assignment `t op= e` = `t = t op e`; an expression statement
  does nothing; the first `return` at the top level gives the value, filled / cropped to the declared type
  (`Sem.coerceRet`).

Mathlib-free (driver op `c01.semsrc`; compared with the python oracle `harness/pysem.py`, which interprets
the same source text and is itself cross-checked against CPython).
-/
namespace QV.A2A
open QV QV.Front QV.Sem

/-- `x if g else y` on values (the rule of `Sem.semW` for an if-expression) -/
def selW : SVal → SVal → SVal → Option SVal
  | .bool c, .bool x, .bool y => some (.bool (if c then x else y))
  | .bool c, .int a x, .int b y => some (.int (max a b) (if c then x else y))
  | _, _, _ => none

/-- the value an assignment stores under the guard stack `gs` (outermost first): `new` wrapped, from the
innermost guard outwards, in `new if g else old` (polarity `true`) / `old if g else new` (polarity `false`) -/
def wrapW : List (SVal × Bool) → SVal → SVal → Option SVal
  | [], new, _ => some new
  | (g, true) :: gs, new, old =>
    match wrapW gs new old with
    | some v => selW g v old
    | none => none
  | (g, false) :: gs, new, old =>
    match wrapW gs new old with
    | some v => selW g old v
    | none => none

/-- `t = v` under the guard stack: outside every `if` a plain update (the variable may be new); inside, the
variable must exist -/
def assignG (gs : List (SVal × Bool)) (σ : SEnv) (t : String) (v : SVal) : Option SEnv :=
  match gs with
  | [] => some (σ.set t v)
  | _ :: _ =>
    match σ t with
    | some old =>
      match wrapW gs v old with
      | some w => some (σ.set t w)
      | none => none
    | none => none

def constExps : List SExp → Option (List SExp)
  | [] => some []
  | .const c :: es => (constExps es).map fun r => .const c :: r
  | _ :: _ => none

def litInts : List SExp → Option (List Int)
  | [] => some []
  | .const (.int v) :: es => (litInts es).map fun r => v :: r
  | _ :: _ => none

/-- the values a `for` over a literal iterates over: `range` of `int` literals (step ≠ 0), a tuple or a list
of constants -/
def staticVals : SExp → Option (List SExp)
  | .call "range" args =>
    match litInts args with
    | some [n] => some ((pyRange 0 n 1).map fun i => .const (.int i))
    | some [a, b] => some ((pyRange a b 1).map fun i => .const (.int i))
    | some [a, b, s] => if s == 0 then none else some ((pyRange a b s).map fun i => .const (.int i))
    | _ => none
  | .tuple es => constExps es
  | .list es => constExps es
  | _ => none

mutual
/-- one statement under the guard stack `gs` -/
def exec (gs : List (SVal × Bool)) (σ : SEnv) : SStmt → Option SEnv
  | .assign [.name t] e =>
    match semW σ (toP e) with
    | some v => assignG gs σ t v
    | none => none
  | .aug (.name t) op e =>
    match semW σ (toP (.bin op (.name t) e)) with
    | some v => assignG gs σ t v
    | none => none
  | .expr _ => some σ
  | .ifs c b e =>
    match semW σ (toP c) with
    | some g =>
      match execList (gs ++ [(g, true)]) σ b with
      | some σ1 => execList (gs ++ [(g, false)]) σ1 e
      | none => none
    | none => none
  | .for_ (.name v) it b [] =>
    match staticVals it with
    | some vals =>
      vals.foldlM (fun σ val =>
        match semW σ (toP val) with
        | some x =>
          match assignG gs σ v x with
          | some σ1 => execList gs σ1 b
          | none => none
        | none => none) σ
    | none => none
  | _ => none
def execList (gs : List (SVal × Bool)) (σ : SEnv) : List SStmt → Option SEnv
  | [] => some σ
  | s :: ss =>
    match exec gs σ s with
    | some σ1 => execList gs σ1 ss
    | none => none
end

/-- the body of a function: statements run in order, the first `return` gives the value -/
def execBody (ret : Ty) : SEnv → List SStmt → Option SVal
  | _, [] => none
  | σ, .ret (some e) :: _ =>
    match semW σ (toP e) with
    | some v => coerceRet ret v
    | none => none
  | σ, s :: ss =>
    match exec [] σ s with
    | some σ1 => execBody ret σ1 ss
    | none => none

/-- a source function: typed arguments, declared return type, body -/
structure SProg where
  args : List (String × Ty)
  ret : Ty
  body : List SStmt

/-- the source-level fixed-width meaning of a function on an assignment of its argument bits -/
def execProg (p : SProg) (ρ : String → Bool) : Option SVal :=
  execBody p.ret (argsEnv p.args ρ) p.body

end QV.A2A
