import QV.Model.Ast2Ast
import QV.Model.Sem
/-!
# Source-level meaning of statements with control flow (`if`, `for`)

Specification side of C01 for the *source* statement tree (`QV.A2A.SStmt`, what CPython's `ast` gives,
before `ast2ast`), on top of the fixed-width expression semantics `QV.Sem.semW`.

* An `if` evaluates its test **once**, to a value `g`, before any statement of a branch runs; the branch
  whose polarity `g` has is *taken*, the other is *skipped*.  Both are walked with the guard `(g, polarity)`
  pushed on the guard stack `gs`: an assignment `t = e` under the stack stores
  `wrapW gs (value of e) (old value of t)` – the new value when every guard on the stack holds, the old value
  otherwise, in both cases at the *joined* type (`selW`, the library's typing rule for `new if g else old`:
  the wider of the two `Qint` types).  So a skipped branch changes no value (`exec_skipped_keeps_values`,
  `QV/Proofs/A2A3.lean`): it only contributes to the types and has to be defined.  Nothing a branch
  assigns changes which branch is running.
* `elif` / an `if` nested anywhere: the inner test is evaluated where python evaluates it (after the
  statements before it) and pushed on the stack.
* `for v in <literal range / tuple / list of constants>` iterates: `v` is assigned each value in turn and the
  body runs in the environment so extended (no substitution); the `else` suite runs once after the last
  iteration (the subset has no `break`).
* assignment = environment update; augmented assignment `t op= e` = `t = t op e`; an expression statement
  does nothing; the first `return` at the top level gives the value, filled / cropped to the declared type
  (`Sem.coerceRet`).

Mathlib-free (driver op `c01.semsrc`; compared with the python oracle `harness/pysem.py`, which interprets
the same source text and is itself cross-checked against CPython).
-/
namespace QV.A2A
open QV QV.Front QV.Sem

/-- `x if g else y` on values (the rule of `Sem.semW` for an if-expression) -/
def selW : SVal → SVal → SVal → Option SVal
  | .bool c, .bool x, .bool y => some (.bool (if c then x else y))
  | .bool c, .int a x, .int b y => some (.int (max a b) (if c then x else y))
  | _, _, _ => none

/-- the value an assignment stores under the guard stack `gs` (outermost first): `new` wrapped, from the
innermost guard outwards, in `new if g else old` (polarity `true`) / `old if g else new` (polarity `false`) -/
def wrapW : List (SVal × Bool) → SVal → SVal → Option SVal
  | [], new, _ => some new
  | (g, true) :: gs, new, old =>
    match wrapW gs new old with
    | some v => selW g v old
    | none => none
  | (g, false) :: gs, new, old =>
    match wrapW gs new old with
    | some v => selW g old v
    | none => none

/-- `t = v` under the guard stack: outside every `if` a plain update (the variable may be new); inside, the
variable must exist -/
def assignG (gs : List (SVal × Bool)) (σ : SEnv) (t : String) (v : SVal) : Option SEnv :=
  match gs with
  | [] => some (σ.set t v)
  | _ :: _ =>
    match σ t with
    | some old =>
      match wrapW gs v old with
      | some w => some (σ.set t w)
      | none => none
    | none => none

def constExps : List SExp → Option (List SExp)
  | [] => some []
  | .const c :: es => (constExps es).map fun r => .const c :: r
  | _ :: _ => none

def litInts : List SExp → Option (List Int)
  | [] => some []
  | .const (.int v) :: es => (litInts es).map fun r => v :: r
  | _ :: _ => none

/-- the values a `for` over a literal iterates over: `range` of `int` literals (step ≠ 0), a tuple or a list
of constants -/
def staticVals : SExp → Option (List SExp)
  | .call "range" args =>
    match litInts args with
    | some [n] => some ((pyRange 0 n 1).map fun i => .const (.int i))
    | some [a, b] => some ((pyRange a b 1).map fun i => .const (.int i))
    | some [a, b, s] => if s == 0 then none else some ((pyRange a b s).map fun i => .const (.int i))
    | _ => none
  | .tuple es => constExps es
  | .list es => constExps es
  | _ => none

mutual
/-- one statement under the guard stack `gs` -/
def exec (gs : List (SVal × Bool)) (σ : SEnv) : SStmt → Option SEnv
  | .assign [.name t] e =>
    match semW σ (toP e) with
    | some v => assignG gs σ t v
    | none => none
  | .aug (.name t) op e =>
    match semW σ (toP (.bin op (.name t) e)) with
    | some v => assignG gs σ t v
    | none => none
  | .expr _ => some σ
  | .ifs c b e =>
    match semW σ (toP c) with
    | some g =>
      match execList (gs ++ [(g, true)]) σ b with
      | some σ1 => execList (gs ++ [(g, false)]) σ1 e
      | none => none
    | none => none
  | .for_ (.name v) it b e =>
    match staticVals it with
    | some vals =>
      match vals.foldlM (fun σ val =>
        match semW σ (toP val) with
        | some x =>
          match assignG gs σ v x with
          | some σ1 => execList gs σ1 b
          | none => none
        | none => none) σ with
      | some σ1 => execList gs σ1 e     -- no `break` in the subset: the else suite runs once, after the last iteration
      | none => none
    | none => none
  | _ => none
def execList (gs : List (SVal × Bool)) (σ : SEnv) : List SStmt → Option SEnv
  | [] => some σ
  | s :: ss =>
    match exec gs σ s with
    | some σ1 => execList gs σ1 ss
    | none => none
end

/-- the body of a function: statements run in order, the first `return` gives the value -/
def execBody (ret : Ty) : SEnv → List SStmt → Option SVal
  | _, [] => none
  | σ, .ret (some e) :: _ =>
    match semW σ (toP e) with
    | some v => coerceRet ret v
    | none => none
  | σ, s :: ss =>
    match exec [] σ s with
    | some σ1 => execBody ret σ1 ss
    | none => none

/-- a source function: typed arguments, declared return type, body -/
structure SProg where
  args : List (String × Ty)
  ret : Ty
  body : List SStmt

/-- the source-level fixed-width meaning of a function on an assignment of its argument bits -/
def execProg (p : SProg) (ρ : String → Bool) : Option SVal :=
  execBody p.ret (argsEnv p.args ρ) p.body

/-! ## the class of source programs of the preservation theorems (`QV/Props/C01.lean`: `ast2ast_if_preserved`,
`C01_if`, `C01_for`); decidable, evaluated by the driver for the evidence -/

/-- a name a user may write: the passes generate none of these -/
def userName (n : String) : Bool := !isDunder n && !isIfTarg n


/-- a literal `int` -/
def isIntLit : SExp → Bool
  | .const (.int _) => true
  | _ => false

/-- a literal `int` or `bool`: what a loop variable is replaced by -/
def isIB : SExp → Bool
  | .const (.int _) => true
  | .const (.bool _) => true
  | _ => false

mutual
/-- expressions on which `ASTRewriter.visit` is the identity and whose image under `toP` is in the syntax of
`Sem.semW`: user variables, bool / int constants, `not`, `~`, `and` / `or`, if-expressions, comparisons,
the binary operators other than `**` (shifts by a literal amount: `Sem.semW` reads the amount from the syntax) -/
def plainE : SExp → Bool
  | .name n => userName n
  | .const (.bool _) => true
  | .const (.int _) => true
  | .const _ => false
  | .boolop _ vs => plainEs vs
  | .unop op e => (op == "Not" || op == "Invert") && plainE e
  | .ite c t e => plainE c && plainE t && plainE e
  | .cmp _ l r => plainE l && plainE r
  | .bin op l r => (binName op).isSome && plainE l && plainE r &&
      (if op == "LShift" || op == "RShift" then isIntLit r else true)
  | _ => false
def plainEs : List SExp → Bool
  | [] => true
  | e :: es => plainE e && plainEs es
end


mutual
/-- the statement contains an `if` -/
def hasIf : SStmt → Bool
  | .ifs _ _ _ => true
  | .for_ _ _ b e => hasIfs b || hasIfs e
  | _ => false
def hasIfs : List SStmt → Bool
  | [] => false
  | s :: ss => hasIf s || hasIfs ss
end


mutual
/-- the statement contains a `for` -/
def hasFor : SStmt → Bool
  | .for_ _ _ _ _ => true
  | .ifs _ b e => hasFors b || hasFors e
  | _ => false
def hasFors : List SStmt → Bool
  | [] => false
  | s :: ss => hasFor s || hasFors ss
end

def allIntLit : List SExp → Bool
  | [] => true
  | e :: es => isIntLit e && allIntLit es

def allIB : List SExp → Bool
  | [] => true
  | e :: es => isIB e && allIB es

/-- the iterators of the preservation theorem: `range` of one to three `int` literals, a tuple or a list of
`int` / `bool` literals -/
def closedIter : SExp → Bool
  | .call fn args => fn == "range" && allIntLit args
  | .tuple es => allIB es
  | .list es => allIB es
  | _ => false

mutual
/-- the statements of the preservation theorem: assignments and augmented assignments of plain expressions
to user variables; `if` / `elif` / `else` of such statements nested to any depth **through the else
branches** (an `if` inside the body of an `if` is rewritten into a list that reads `_iftargN` before it is
defined: the translator refuses it), without loops inside; `for v in <closedIter>` over such statements, loops
and `if`s nested inside to any depth, with or without an `else` suite of such statements -/
def okS : SStmt → Bool
  | .assign [.name t] e => userName t && plainE e
  | .aug (.name t) op e => userName t && plainE (.bin op (.name t) e)
  | .ifs c b e => plainE c && okSs b && !hasIfs b && okSs e && !hasFors b && !hasFors e
  | .for_ (.name v) it b e => userName v && closedIter it && okSs b && okSs e
  | _ => false
def okSs : List SStmt → Bool
  | [] => true
  | s :: ss => okS s && okSs ss
end


/-- a statement at the top level of a function body: a statement of `okS`, an expression statement, or
`return e` -/
def okTop : SStmt → Bool
  | .ret (some e) => plainE e
  | .expr e => plainE e
  | s => okS s

/-- the source programs of the preservation theorem: user names for the arguments, `okTop` statements -/
def okProg (p : SProg) : Bool := p.args.all (fun a => userName a.1) && p.body.all okTop


mutual
/-- the annotation of a type, as `ReplaceTypeAnn` leaves it -/
def tyAnn : Ty → SExp
  | .bool => .name "bool"
  | .qint w => .sub (.name "Qint") (.const (.int w))
  | .qchar => .name "Qchar"
  | .tuple ts => .sub (.name "Tuple") (.tuple (tyAnns ts))
def tyAnns : List Ty → List SExp
  | [] => []
  | t :: ts => tyAnn t :: tyAnns ts
end

/-- the arguments as the rewriter sees them -/
def aargsOf (p : SProg) : Args := p.args.map fun a => (a.1, tyAnn a.2)


/-! ## python's meaning of the expression forms `ast2ast` rewrites, on decoded values

The values of a tuple-typed variable are lists (of lists) of `SVal`s; the theorems `C01_index1`, `C01_index2`,
`C01_len_row` … of `QV/Props/C01.lean` say that the expressions the rewriter builds have these meanings. -/

/-- `t[x]` -/
def pyIndex1 (vals : List SVal) (x : Nat) : Option SVal := vals[x]?

/-- `m[x][y]` -/
def pyIndex2 (rows : List (List SVal)) (x y : Nat) : Option SVal := (rows[x]?).bind (·[y]?)

/-- `sum(…)` of `Qint[w]` values: the fixed-width sum -/
def pySum (w : Nat) (vals : List Nat) : SVal := .int w (vals.sum % 2 ^ w)

/-- `all(…)` / `any(…)` of bools -/
def pyAll (bs : List Bool) : SVal := .bool (bs.all id)
def pyAny (bs : List Bool) : SVal := .bool (bs.any id)

end QV.A2A
