import QV.Base.Quirks
import QV.Gen.Tables
/-!
# Model of `UnboundQlassf.bind` (qlasskit/qlassfun.py) and of the programs it specialises

* `Ann`, `isParamBind` (= `is_parameter_annotation`), `isParamFrom` (= the test in
  `QlassF.from_function` that fills `UnboundQlassf.parameters`);
* `PyVal` (the keyword values handed to `bind`) and `toVal` (= the local `to_val`: iterables other
  than `str`/`bytes` become `ast.Tuple`, everything else `ast.Constant`);
* a small statement language (`Exp`, `Stmt`, `Prog`) with an evaluator `Sem A p xs` that is
  parametric in the value algebra `A` (operators, constants); two algebras are given:
  `PyAlg` (Python's own values: unbounded ints, bools, strings, tuples) and `WAlg` (qlasskit's
  width-aware values: little-endian bit lists typed by their length, constants typed by
  `const_to_qtype`);
* `bind q p kv`: arity / unknown-name errors in the order of the code, removal of the arguments
  whose annotation `isParamBind`, constant assignments prepended in **keyword order**.

Quirk `bindDropsType` (on = the code as it is): the injected assignment is the bare literal
`k = v`; the declared `Parameter[T]` is dropped, so in `WAlg` the constant takes the smallest
`Qint` type of `const_to_qtype`.  Off (the repaired `bind`, docs/fixes/C08-bind-typed-constants.diff):
a keyword value that is a value of the declared type (`isValueOf` = `is_value_of`) is injected as the
typed assignment `k: T = v` (`Stmt.ty = some T`), which the translator reads as the typecast `T(v)`
(`cast`); any other value (an annotation that is no builtin type, an int that does not fit `Qint[n]`,
a wrong shape) is still injected as the bare literal.
-/
namespace QV.Bind

/-! ## Annotations and parameter detection -/

/-- the declared type inside `Parameter[...]` (what a typed constant would be coerced to) -/
inductive Ty where
  | bool
  | qint (w : Nat)
  | tuple (l : List Ty)
  | other (s : String)
  deriving Repr, Inhabited

/-- head of an annotation: `Name(id)`, `Attribute(_, attr)` or something else -/
inductive Head where
  | name (id : String)
  | attr (a : String)
  | other
  deriving Repr, DecidableEq, Inhabited

/-- argument annotation as far as the two detectors look at it -/
inductive Ann where
  | none
  /-- `head[slice]` -/
  | sub (h : Head) (slice : Ty)
  /-- a bare `Name` / `Attribute` / other expression -/
  | bare (h : Head)
  deriving Repr, Inhabited

/-- `is_parameter_annotation(node)` (qlassfun.py), used by `bind` to remove arguments -/
def isParamBind : Ann → Bool
  | .none => false
  | .sub (.name id) _ => id == "Parameter"
  | .sub (.attr a) _ => a == "Parameter"
  | .sub .other _ => false
  | .bare (.name id) => id == "Parameter"
  | .bare (.attr a) => a == "Parameter"
  | .bare .other => false

/-- the test of `QlassF.from_function`: `Subscript` whose value is `Name("Parameter")` -/
def isParamFrom : Ann → Bool
  | .sub (.name id) _ => id == "Parameter"
  | _ => false

/-- `params[arg.arg] = arg.annotation.slice` -/
def Ann.slice : Ann → Option Ty
  | .sub _ t => some t
  | _ => Option.none

/-! ## Values handed to `bind`, and the AST it builds from them -/

inductive Atom where
  | b (v : Bool)
  | i (v : Int)
  | s (v : String)
  deriving Repr, DecidableEq, Inhabited

/-- a keyword value: an atom (anything without `__iter__`, or `str`) or an iterable -/
inductive PyVal where
  | atom (a : Atom)
  | iter (l : List PyVal)
  deriving Repr, Inhabited

inductive UnOp where
  | not | inv
  deriving Repr, DecidableEq, Inhabited

inductive BinOp where
  | add | sub | band | bor | bxor | shl | shr
  | eq | ne | lt | le | gt | ge
  | and | or
  deriving Repr, DecidableEq, Inhabited

inductive Exp where
  | const (a : Atom)
  | tuple (l : List Exp)
  | var (n : String)
  | un (op : UnOp) (e : Exp)
  | bin (op : BinOp) (l r : Exp)
  | ite (c t e : Exp)
  | idx (e : Exp) (i : Nat)
  deriving Repr, Inhabited

mutual
/-- `to_val` of `UnboundQlassf.bind` -/
def toVal : PyVal → Exp
  | .atom a => .const a
  | .iter l => .tuple (toValList l)
def toValList : List PyVal → List Exp
  | [] => []
  | v :: l => toVal v :: toValList l
end

/-- `x = e`, or with `ty = some T` the typed form `x: T = e` (only produced by the repaired bind, with a
    constant `e`; the translator reads it as the typecast `T(e)`) -/
structure Stmt where
  target : String
  ty : Option Ty
  value : Exp
  deriving Repr, Inhabited

structure Arg where
  name : String
  ann : Ann
  deriving Repr, Inhabited

structure Prog where
  name : String
  args : List Arg
  body : List Stmt
  ret : Exp
  deriving Repr, Inhabited

/-! ## Value algebras and the evaluator -/

structure Alg where
  V : Type
  const : Atom → Option V
  tuple : List V → Option V
  un : UnOp → V → Option V
  /-- the right operand's syntax is passed too: shifts need a literal there -/
  bin : BinOp → V → V → Option Int → Option V
  ite : V → Option V → Option V → Option V
  idx : V → Nat → Option V
  /-- coercion of a value to a declared type -/
  cast : Ty → V → Option V

abbrev Env (V : Type) := String → Option V

def Env.empty {V : Type} : Env V := fun _ => none

def Env.set {V : Type} (ρ : Env V) (x : String) (v : V) : Env V :=
  fun y => if y = x then some v else ρ y

/-- first binding of `y` in an association list -/
def lookupS {V : Type} : List (String × V) → String → Option V
  | [], _ => none
  | (k, v) :: l, y => if y = k then some v else lookupS l y

def litOf : Exp → Option Int
  | .const (.i k) => some k
  | _ => none

mutual
def evalExp (A : Alg) (ρ : Env A.V) : Exp → Option A.V
  | .const a => A.const a
  | .tuple l => (evalList A ρ l).bind A.tuple
  | .var n => ρ n
  | .un op e => (evalExp A ρ e).bind (A.un op)
  | .bin op l r =>
      match evalExp A ρ l, evalExp A ρ r with
      | some a, some b => A.bin op a b (litOf r)
      | _, _ => none
  | .ite c t e =>
      match evalExp A ρ c with
      | some cv => A.ite cv (evalExp A ρ t) (evalExp A ρ e)
      | none => none
  | .idx e i => (evalExp A ρ e).bind (fun v => A.idx v i)
def evalList (A : Alg) (ρ : Env A.V) : List Exp → Option (List A.V)
  | [] => some []
  | e :: l =>
      match evalExp A ρ e, evalList A ρ l with
      | some v, some vs => some (v :: vs)
      | _, _ => none
end

def execStmt (A : Alg) (ρ : Env A.V) (s : Stmt) : Option (Env A.V) :=
  match evalExp A ρ s.value with
  | none => none
  | some v =>
      match s.ty with
      | none => some (ρ.set s.target v)
      | some t => (A.cast t v).map (ρ.set s.target)

def execStmts (A : Alg) : List Stmt → Env A.V → Option (Env A.V)
  | [], ρ => some ρ
  | s :: l, ρ => (execStmt A ρ s).bind (execStmts A l)

/-- positional binding of the arguments; `none` on an arity mismatch -/
def bindArgs {V : Type} : List String → List V → Env V → Option (Env V)
  | [], [], ρ => some ρ
  | n :: ns, v :: vs, ρ => bindArgs ns vs (ρ.set n v)
  | _, _, _ => none

/-- the function denoted by a program: positional arguments ↦ returned value -/
def Sem (A : Alg) (p : Prog) (xs : List A.V) : Option A.V :=
  (bindArgs (p.args.map (·.name)) xs Env.empty).bind fun ρ0 =>
  (execStmts A p.body ρ0).bind fun ρ => evalExp A ρ p.ret

/-! ## `bind` -/

inductive BindError where
  /-- "Parameter length mismatch" -/
  | lengthMismatch
  /-- "Unknown parameter k" -/
  | unknown (k : String)
  deriving Repr, DecidableEq, Inhabited

/-- `UnboundQlassf.parameters` as `from_function` builds it: name ↦ annotation slice -/
def Prog.parameters (p : Prog) : List (String × Option Ty) :=
  (p.args.filter (fun a => isParamFrom a.ann)).map (fun a => (a.name, a.ann.slice))

def Prog.paramNames (p : Prog) : List String := p.parameters.map (·.1)

/-- `from_function` returns an `UnboundQlassf` iff this is true -/
def Prog.isUnbound (p : Prog) : Bool := !p.parameters.isEmpty

/-- declared type of parameter `k` -/
def Prog.declTy (p : Prog) (k : String) : Option Ty :=
  match lookupS p.parameters k with
  | some t => t
  | none => none

mutual
/-- `is_value_of(ann, w)` of the repaired `bind`: `w` is a value of the declared type — a `bool` for
    `bool`; an `int` with `0 ≤ w < 2^n` for a builtin `Qint[n]` (`QV.Gen.qintTypes`); an iterable of the
    right length, element-wise, for `Tuple[..]` / `Qlist[T, n]` / `Qmatrix[T, n, m]` (all of them non-empty
    `Ty.tuple`s).  `Ty.other` (an annotation that is none of these) has no values. -/
def isValueOf : Ty → PyVal → Bool
  | .bool, .atom (.b _) => true
  | .qint w, .atom (.i v) =>
      (QV.Gen.qintTypes.map (·.2)).contains w && decide (0 ≤ v) && decide (v < ((2 ^ w : Nat) : Int))
  | .tuple ts, .iter vs => !ts.isEmpty && isValueOfList ts vs
  | _, _ => false
def isValueOfList : List Ty → List PyVal → Bool
  | [], [] => true
  | t :: ts, v :: vs => isValueOf t v && isValueOfList ts vs
  | _, _ => false
end

/-- the type the repaired `bind` keeps for keyword `k = v`: the declared one when `v` is a value of it -/
def Prog.keptTy (p : Prog) (k : String) (v : PyVal) : Option Ty :=
  match p.declTy k with
  | some t => if isValueOf t v then some t else none
  | none => none

/-- first keyword that is not a parameter, in keyword order (the loop of `bind`) -/
def firstUnknown (params : List String) : List (String × PyVal) → Option String
  | [] => none
  | (k, _) :: l => if params.contains k then firstUnknown params l else some k

/-- the type the injected constant of keyword `k = v` is given: none with the quirk -/
def tyOf (q : Quirks) (p : Prog) : String → PyVal → Option Ty :=
  fun k v => if q.bindDropsType then none else p.keptTy k v

def injectedWith (ty : String → PyVal → Option Ty) (kv : List (String × PyVal)) : List Stmt :=
  kv.map fun kv => ⟨kv.1, ty kv.1 kv.2, toVal kv.2⟩

def injected (q : Quirks) (p : Prog) (kv : List (String × PyVal)) : List Stmt :=
  injectedWith (tyOf q p) kv

/-- `UnboundQlassf.bind(**kv)`: the AST handed to `_do_translate` -/
def bind (q : Quirks) (p : Prog) (kv : List (String × PyVal)) : Except BindError Prog :=
  if kv.length != p.parameters.length then .error .lengthMismatch
  else match firstUnknown p.paramNames kv with
    | some k => .error (.unknown k)
    | none => .ok
        { p with
          args := p.args.filter (fun a => !isParamBind a.ann)
          body := injected q p kv ++ p.body }

/-! ### the unbound object and its history -/

/-- the state of an `UnboundQlassf` object that `bind` can read: `fun_ast` and `parameters`
    (the latter is a function of the former) -/
structure Unbound where
  funAst : Prog
  deriving Repr, Inhabited

/-- one `u.bind(**kv)` call: the object afterwards (bind works on a deep copy) and the result -/
def Unbound.bindStep (q : Quirks) (u : Unbound) (kv : List (String × PyVal)) :
    Unbound × Except BindError Prog :=
  (u, bind q u.funAst kv)

/-- the object after a history of binds -/
def Unbound.after (q : Quirks) (u : Unbound) : List (List (String × PyVal)) → Unbound
  | [] => u
  | kv :: h => ((u.bindStep q kv).1).after q h

/-! ## What the bound function is specified to be -/

/-- value of keyword `v` as a constant of algebra `A`, coerced to `ty` when there is one -/
def constVal (A : Alg) (ty : Option Ty) (v : PyVal) : Option A.V :=
  match evalExp A Env.empty (toVal v) with
  | none => none
  | some x => match ty with
    | none => some x
    | some t => A.cast t x

/-- the keyword values as values of `A`, keyword `k = v` coerced to `ty k v` -/
def kvVals (A : Alg) (ty : String → PyVal → Option Ty) :
    List (String × PyVal) → Option (List (String × A.V))
  | [] => some []
  | (k, v) :: l =>
      match constVal A (ty k v) v, kvVals A ty l with
      | some x, some r => some ((k, x) :: r)
      | _, _ => none

/-- argument list of the unbound function: parameters from `vals`, the others from `xs` in order -/
def merge {V : Type} (vals : List (String × V)) : List Arg → List V → Option (List V)
  | [], [] => some []
  | [], _ :: _ => none
  | a :: as, xs =>
      if isParamBind a.ann then
        match lookupS vals a.name with
        | some v => (merge vals as xs).map (v :: ·)
        | none => none
      else
        match xs with
        | [] => none
        | x :: xs' => (merge vals as xs').map (x :: ·)

/-- the specification: the unbound function called with the parameters set -/
def specialised (A : Alg) (ty : String → PyVal → Option Ty) (p : Prog) (kv : List (String × PyVal))
    (xs : List A.V) : Option A.V :=
  (kvVals A ty kv).bind fun vals => (merge vals p.args xs).bind fun all => Sem A p all

/-! ## `PyAlg`: Python's values -/

inductive PV where
  | b (v : Bool)
  | i (v : Int)
  | s (v : String)
  | tup (l : List PV)
  deriving Repr, Inhabited

mutual
def PV.beq : PV → PV → Bool
  | .b x, .b y => x == y
  | .i x, .i y => x == y
  | .s x, .s y => x == y
  | .tup x, .tup y => PV.beqList x y
  | _, _ => false
def PV.beqList : List PV → List PV → Bool
  | [], [] => true
  | u :: l, v :: m => PV.beq u v && PV.beqList l m
  | _, _ => false
end

instance : BEq PV := ⟨PV.beq⟩

def PV.ofAtom : Atom → PV
  | .b v => .b v
  | .i v => .i v
  | .s v => .s v

/-- Python `int(x)` for bool / int operands of an arithmetic operator -/
def PV.asInt : PV → Option Int
  | .b v => some (if v then 1 else 0)
  | .i v => some v
  | _ => none

def pyShift (left : Bool) (a k : Int) : Option PV :=
  if k < 0 then none
  else if left then some (.i (a * 2 ^ k.toNat)) else some (.i (a / 2 ^ k.toNat))

/-- bitwise operators, modelled on non-negative operands only -/
def pyBitwise (f : Nat → Nat → Nat) (a b : Int) : Option PV :=
  if a < 0 || b < 0 then none else some (.i (f a.toNat b.toNat : Nat))

/-- Python's binary operators on bool / int (comparison of tuples: only `==`, `!=`) -/
def pyBin (op : BinOp) (x y : PV) : Option PV :=
  match op, x, y with
  | .and, .b a, .b b => some (.b (a && b))
  | .or, .b a, .b b => some (.b (a || b))
  | .band, .b a, .b b => some (.b (a && b))
  | .bor, .b a, .b b => some (.b (a || b))
  | .bxor, .b a, .b b => some (.b (a != b))
  | .eq, u, v => some (.b (u == v))
  | .ne, u, v => some (.b (!(u == v)))
  | op, .i a, .i b =>
      match op with
      | .add => some (.i (a + b))
      | .sub => some (.i (a - b))
      | .band => pyBitwise (· &&& ·) a b
      | .bor => pyBitwise (· ||| ·) a b
      | .bxor => pyBitwise (· ^^^ ·) a b
      | .shl => pyShift true a b
      | .shr => pyShift false a b
      | .lt => some (.b (a < b))
      | .le => some (.b (a ≤ b))
      | .gt => some (.b (a > b))
      | .ge => some (.b (a ≥ b))
      | _ => none
  | _, _, _ => none

def PyAlg : Alg where
  V := PV
  const a := some (PV.ofAtom a)
  tuple l := some (.tup l)
  un op v := match op, v with
    | .not, .b x => some (.b (!x))
    | .inv, .i x => some (.i (-x - 1))
    | _, _ => none
  bin op a b _ := pyBin op a b
  ite c t e := match c with
    | .b true => t
    | .b false => e
    | _ => none
  idx v i := match v with
    | .tup l => l[i]?
    | _ => none
  cast _ v := some v

/-! ## `WAlg`: qlasskit's width-aware values

A `Qint` value is its little-endian bit list; its type is the length of the list.  Mirrors
`QintImp.const/fill/crop/add/bitwise_generic/eq/neq`, `Qtype.shift_left/shift_right/bitwise_not`,
`const_to_qtype`, and the `IfExp` / `BoolOp` / `Compare` / `BinOp` branches of
`translate_expression`; `QintImp.gt/lt/lte/gte/sub` with their C01 quirks `gtLeftNarrow`,
`subLeftNarrow`.  Operators outside this set (`*`, `%`) are `none`. -/

inductive WV where
  | b (v : Bool)
  | q (bits : List Bool)
  | tup (l : List WV)
  deriving Repr, Inhabited

/-- binary digits of `n`, least significant first, `0 ↦ [false]` (= `bin(v)[2:]` reversed) -/
def natBitsLE : Nat → Nat → List Bool
  | 0, _ => []
  | f + 1, v => if v < 2 then [v == 1] else (v % 2 == 1) :: natBitsLE f (v / 2)

/-- `cls.fill`: leading `False` up to `w` -/
def wfill (w : Nat) (l : List Bool) : List Bool :=
  if l.length ≥ w then l else l ++ List.replicate (w - l.length) false

/-- `cls.crop` -/
def wcrop (w : Nat) (l : List Bool) : List Bool :=
  if l.length ≤ w then l else l.take w

/-- `QintImp.const` of the class of width `w` -/
def qintConst (w : Nat) (v : Int) : List Bool :=
  let n := (v % (2 ^ w : Nat)).toNat
  wfill w (natBitsLE 64 n)

/-- `const_to_qtype` on ints: first candidate width with `v < 2^w` -/
def constToQint (v : Int) : Option (List Bool) :=
  match (QV.Gen.constQintCandidates.map (·.2)).find? (fun w => v < ((2 ^ w : Nat) : Int)) with
  | some w => some (qintConst w v)
  | none => none

/-- ripple-carry of `QintImp.add` on equal-length lists (`_full_adder`) -/
def wadd : Bool → List Bool → List Bool → List Bool
  | c, a :: as, b :: bs => ((a != b) != c) :: wadd ((a && b) || (c && (a != b))) as bs
  | _, _, _ => []

def wfillBoth (a b : List Bool) : List Bool × List Bool :=
  if a.length > b.length then (a, wfill a.length b)
  else if a.length < b.length then (wfill b.length a, b)
  else (a, b)

def wzipWith (f : Bool → Bool → Bool) : List Bool → List Bool → List Bool
  | a :: as, b :: bs => f a b :: wzipWith f as bs
  | _, _ => []

/-- `QintImp.eq`: zip, then the surplus bits of the longer operand must be 0 -/
def weq (a b : List Bool) : Bool :=
  (wzipWith (fun x y => x == y) a b).all id && (a.drop b.length).all (!·) && (b.drop a.length).all (!·)

/-- little-endian value of a bit list -/
def wval : List Bool → Nat
  | [] => 0
  | b :: l => (if b then 1 else 0) + 2 * wval l

/-- `QintImp.gt`: MSB-first comparison of the common low parts, then the surplus bits of the longer
    operand: of the left OR-ed in; of the right OR-ed in as well with quirk `gtLeftNarrow` (the code
    today), AND-NOT-ed in the repaired code -/
def wgt (q : Quirks) (a b : List Bool) : Bool :=
  let m := min a.length b.length
  let ex := decide (wval (a.take m) > wval (b.take m)) || (a.drop m).any id
  if q.gtLeftNarrow then ex || (b.drop m).any id else ex && (b.drop m).all (!·)

/-- `QintImp.sub` with `cls` = the left operand's class: `~(~l + r)`; with quirk `subLeftNarrow`
    (the code today) a narrower left operand is complemented before `add` zero-fills it -/
def wsub (q : Quirks) (a b : List Bool) : List Bool :=
  let r1 := wfill a.length b
  let l2 := if q.subLeftNarrow then a else wfill r1.length a
  let (x, y) := wfillBoth (l2.map (!·)) r1
  (wadd false x y).map (!·)

def wBin (q : Quirks) (op : BinOp) (x y : WV) (lit : Option Int) : Option WV :=
  match op, x, y with
  | .and, .b a, .b b => some (.b (a && b))
  | .or, .b a, .b b => some (.b (a || b))
  | .band, .b a, .b b => some (.b (a && b))
  | .bor, .b a, .b b => some (.b (a || b))
  | .bxor, .b a, .b b => some (.b (a != b))
  | .eq, .b a, .b b => some (.b (a == b))
  | .ne, .b a, .b b => some (.b (a != b))
  | op, .q a, .q b =>
      match op with
      | .add => let (a', b') := wfillBoth a b; some (.q (wadd false a' b'))
      | .band => let (a', b') := wfillBoth a b; some (.q (wzipWith (· && ·) a' b'))
      | .bor => let (a', b') := wfillBoth a b; some (.q (wzipWith (· || ·) a' b'))
      | .bxor => let (a', b') := wfillBoth a b; some (.q (wzipWith (· != ·) a' b'))
      | .eq => some (.b (weq a b))
      | .ne => some (.b (!(weq a b)))
      | .gt => some (.b (wgt q a b))
      | .le => some (.b (!(wgt q a b)))
      | .lt => some (.b (!(wgt q a b) && !(weq a b)))
      | .ge => some (.b (wgt q a b || weq a b))
      | .sub => some (.q (wsub q a b))
      | .shl => match lit with
          | some k => if k < 0 then none else
              some (.q (wcrop a.length (List.replicate k.toNat false ++ a)))
          | none => none
      | .shr => match lit with
          | some k => if k < 0 then none else some (.q (wfill a.length (a.drop k.toNat)))
          | none => none
      | _ => none
  | _, _, _ => none

mutual
def wCast : Ty → WV → Option WV
  | .bool, .b v => some (.b v)
  -- the typecast `Qint_w(v)` of a constant that fits: exactly `w` bits (bits beyond `w` must be 0;
  -- `const_to_qtype` may have typed the literal wider, e.g. 5 as a `Qint4`, declared `Qint[3]`)
  | .qint w, .q l => if (l.drop w).all (!·) then some (.q (wfill w (l.take w))) else none
  | .tuple ts, .tup vs => (wCastList ts vs).map .tup
  | _, _ => none
def wCastList : List Ty → List WV → Option (List WV)
  | [], [] => some []
  | t :: ts, v :: vs =>
      match wCast t v, wCastList ts vs with
      | some x, some r => some (x :: r)
      | _, _ => none
  | _, _ => none
end

def WAlg (q : Quirks) : Alg where
  V := WV
  const a := match a with
    | .b v => some (.b v)
    | .i v => (constToQint v).map .q
    | .s _ => none
  tuple l := some (.tup l)
  un op v := match op, v with
    | .not, .b x => some (.b (!x))
    | .inv, .q l => some (.q (l.map (!·)))
    | _, _ => none
  bin := wBin q
  ite c t e := match c, t, e with
    | .b cv, some (.b x), some (.b y) => some (.b (if cv then x else y))
    | .b cv, some (.q x), some (.q y) =>
        let (x', y') := wfillBoth x y
        some (.q (if cv then x' else y'))
    | _, _, _ => none
  idx v i := match v with
    | .tup l => l[i]?
    | .q l => (l[i]?).map .b
    | _ => none
  cast := wCast

/-- `return e` of a function declared `-> T`: fill / crop to the declared width -/
def wRet (t : Ty) (v : WV) : Option WV :=
  match t, v with
  | .bool, .b x => some (.b x)
  | .qint w, .q l => some (.q (wcrop w (wfill w l)))
  | _, _ => none

end QV.Bind
