import QV.Base.Quirks
import QV.Gen.Tables
/-!
# The public API as a state machine over an explicit heap (property C10)

What each public operation of qlasskit *reads and writes*, taken from the code:

* `qlassfun.py: qlassf / QlassF.from_function` – `exec(f, globals())` writes the user's function
  into the namespace of the module `qlasskit.qlassfun` (quirk `execIntoModuleGlobals`);
  `eval(name)` resolves the locals of `from_function` before the globals (quirk `evalSeesLocals`);
  every global the function uses afterwards (`ast`, `len`, `copy` …) is read from that same
  namespace.  `to_logicfun` deep-copies `(name, args, returns, expressions)` of each definition.
* `algorithms/qalgorithm.py: oraclize` – assigns `qf.name = "_oracle"` when the argument is called
  `oracle` (quirk `oraclizeRenames`), then compiles a generated source `def oracle(v) …`.
* `algorithms/grover.py: Grover.__init__` – `oracle_qc = self.oracle.circuit()` is the oracle's own
  circuit object; `add_qubit("_ret_phased")` and `mctrl(Z, [_ret], _ret_phased)` write through it
  (quirk `groverMutatesOracle`).
* `DeutschJozsa / Simon / BernsteinVazirani.__init__` – only read `f.circuit()`.
* `QCircuit.copy` – writes the private cache `__native := None` (not observable, modelled).
* `qlassfun.py: UnboundQlassf` – `qlassf` on a source with `Parameter[...]` arguments keeps the
  parsed function (`fun_ast`) and the closure `_do_translate`, which holds the definitions
  (`defs=`: the deep copies made by `to_logicfun`) as they were at that moment.  `bind` deep-copies
  the tree, injects the values and translates with those same definitions: the result is a function
  of (program, values, definitions); the unbound object is only read.  The bound source is run by
  `exec(c, globals(), ns)`: its `original_f` sees the library module's globals but not the
  callables of the definitions (quirk `bindOrigWithoutDefs`).
* `QlassF.from_function` on a string: `exec(f, ns)` with `ns` = module globals overlaid by the callables
  of the definitions; a definition called like a type in the annotations shadows it (quirk
  `defShadowsAnnotation`).
* `export`, `decompile`, `truth_table`, `repr` – read only.
* mutable default arguments (`types=[]`, `defs=[]`, `res=[]`, `sections=[]`): never written by the
  code on any path; modelled as the component `defaults` that no operation touches.

Compilation itself (source text + fingerprints of the definitions ↦ expressions and circuit) is an
opaque pure function `K` – C10 is about what is read and written, not what is computed.

No Mathlib; total; no `partial`.
-/
namespace QV.Api

/-! ## circuits -/

/-- an applied gate as the harness prints it: `"<class>|<name>"`, wires, `repr(param)` -/
structure Gate where
  name : String
  wires : List Nat
  param : String := "None"
  deriving DecidableEq, Repr, Inhabited

/-- the observable data of a `QCircuit` object (its private `__native` cache is the field `native`
of the owning object below) -/
structure Circ where
  cname : String
  nq : Nat
  gates : List Gate
  qmap : List (String × Nat)
  deriving DecidableEq, Repr, Inhabited

/-- `d[k] = v` on an insertion-ordered dict -/
def dictSet {α : Type} (d : List (String × α)) (k : String) (v : α) : List (String × α) :=
  if d.any (fun e => e.1 == k) then d.map (fun e => if e.1 == k then (k, v) else e)
  else d ++ [(k, v)]

def dictGet {α : Type} (d : List (String × α)) (k : String) : Option α :=
  (d.find? (fun e => e.1 == k)).map (fun e => e.2)

def dictHas {α : Type} (d : List (String × α)) (k : String) : Bool :=
  d.any (fun e => e.1 == k)

/-- `QCircuit(n, name=...)` -/
def Circ.new (n : Nat) (name : String) : Circ :=
  { cname := name, nq := n, gates := [],
    qmap := (List.range n).map (fun i => (s!"q{i}", i)) }

/-- `QCircuit.add_qubit(name)` -/
def Circ.addQubit (c : Circ) (name : Option String) : Circ :=
  let nm := name.getD s!"q{c.nq}"
  { c with qmap := dictSet c.qmap nm c.nq, nq := c.nq + 1 }

def Circ.push (c : Circ) (g : Gate) : Circ := { c with gates := c.gates ++ [g] }

def Circ.pushAll (c : Circ) (gs : List Gate) : Circ := { c with gates := c.gates ++ gs }

def Circ.addQubits : Nat → Circ → Circ
  | 0, c => c
  | k + 1, c => Circ.addQubits k (c.addQubit none)

def gH (i : Nat) : Gate := { name := "H|H", wires := [i] }
def gX (i : Nat) : Gate := { name := "X|X", wires := [i] }
def gZ (i : Nat) : Gate := { name := "Z|Z", wires := [i] }
def gBarrier (label : String) : Gate := { name := "Barrier|_barrier", wires := [], param := s!"'{label}'" }
/-- `mctrl(gates.Z(), ctrls, target)` -/
def gMCZ (ctrls : List Nat) (t : Nat) : Gate :=
  { name := "MCtrl|" ++ String.ofList (List.replicate ctrls.length 'C') ++ "Z", wires := ctrls ++ [t] }

def repeatGates (gs : List Gate) : Nat → List Gate
  | 0 => []
  | k + 1 => gs ++ repeatGates gs k

/-! ## sources, objects, state -/

/-- a source text handed to `from_function` -/
inductive Src where
  | pool (i : Nat)                              -- program `i` of the pool
  | bound (i : Nat) (pkey : String)             -- program `i` with its parameters bound
  | oraclize (callee : String) (argT : String) (elem : String)  -- text generated by `oraclize`
  | secret (n s : Nat)                          -- text generated by `secret_oracle`
  deriving DecidableEq, Repr, Inhabited

/-- static description of one program of the pool -/
structure Prog where
  name : String
  callees : List String := []     -- functions it calls (resolved through `defs=`)
  annots : List String := []      -- global names its annotations mention (`Qint`, …)
  params : Bool := false          -- has `Parameter[...]` arguments: compiles to an UnboundQlassf
  deriving DecidableEq, Repr, Inhabited

abbrev Pool := List Prog

def Pool.prog (P : Pool) (i : Nat) : Prog := P.getD i default

def Src.name (P : Pool) : Src → String
  | .pool i => (P.prog i).name
  | .bound i _ => (P.prog i).name
  | .oraclize _ _ _ => "oracle"
  | .secret _ _ => "oracle"

def Src.callees (P : Pool) : Src → List String
  | .pool i => (P.prog i).callees
  | .bound i _ => (P.prog i).callees
  | .oraclize c _ _ => [c]
  | .secret _ _ => []

/-- what `qf.original_f` is: a function (source + the functions its free names resolve to), a
name that resolves to nothing, or not a function at all -/
inductive OTree where
  | missing (name : String)
  | notCallable
  | diverges                      -- the calls never bottom out (RecursionError)
  | node (src : Src) (kids : List OTree)
  deriving Repr, Inhabited

/-- what `qlassf(..., defs=[d])` takes from a definition: the deep copy made by `to_logicfun`
(name + args/returns/expressions) and, in the repaired code, its `original_f` -/
structure DefView where
  name : String
  sig : String
  orig : OTree
  deriving Repr, Inhabited

def defKey (d : DefView) : String := "|" ++ d.name ++ "#" ++ d.sig

/-- what the compile oracle returns for one (source, definitions) key -/
structure Compiled where
  sig : String              -- hash of (args, returns, expressions)
  argT : String             -- `type_repr(args[0].ttype)`
  arg0 : Nat                -- `len(args[0])`
  nargs : Nat
  nIn : Nat                 -- total number of argument bits
  retBits : List String     -- `returns.bitvec`
  retBool : Bool
  circ : Circ
  deriving DecidableEq, Repr, Inhabited

/-- the opaque pure compiler: key ↦ `none` (no entry), `some none` (the translation raises),
`some (some c)` -/
abbrev Oracle := String → Option (Option Compiled)

structure QF where
  name : String
  info : Compiled           -- `info.circ` is the circuit object `circuit()` hands out
  src : Src
  orig : OTree              -- `original_f` as bound at creation (used when nothing is shared)
  viaExec : Bool := false   -- `original_f` was created by `exec(src, globals())`
  native : Bool := false    -- `_qcircuit.__native` is set
  deriving Repr, Inhabited

structure Alg where
  kind : String
  circ : Circ
  outq : List Nat
  sub : Nat                 -- heap index of the QlassF it wraps (the same Python object)
  own : Option QF           -- Grover with `element_to_search`: its private oracle
  native : Bool := false
  deriving Repr, Inhabited

inductive Obj where
  | dead                    -- the operation raised / produced nothing that lives on
  | qf (q : QF)
  | unbound (i : Nat) (defs : List DefView)   -- program `i` + the definitions its closure holds
  | alg (a : Alg)
  deriving Repr, Inhabited

structure ApiState where
  objs : List Obj := []                 -- slot `i` = what operation `i` returned
  ns : List (String × Src) := []        -- user functions living in `qlasskit.qlassfun.__dict__`
  defaults : List (List Nat) := [[], [], [], [], [], [], [], []]  -- the mutable default arguments
  deriving Repr, Inhabited

def ApiState.init : ApiState := {}

inductive Result where
  | ok | raised | unknown
  deriving DecidableEq, Repr, Inhabited

/-- outcome of an operation before it is put into its slot -/
inductive Tri (α : Type) where
  | unknown            -- the compile oracle has no entry: the model makes no prediction
  | raised
  | val (a : α)
  deriving Repr, Inhabited

inductive Op where
  | compile (prog : Nat) (defs : List Nat) (asCallable : Bool)
  | bind (r : Nat) (pkey : String)
  | oraclize (r : Nat) (elem : String)
  | grover (r : Nat) (elem : Option String) (iters : Nat)
  | dj (r : Nat) | simon (r : Nat) | bv (r : Nat)
  | secretOracle (n s : Nat)
  | readOnly (kind : String) (r : Nat)
  deriving DecidableEq, Repr, Inhabited

/-! ## the namespace of `qlasskit.qlassfun` -/

/-- some name the operation reads from the module namespace is a user function now -/
def collides (q : Quirks) (ns : List (String × Src)) (reads : List String) : Bool :=
  q.execIntoModuleGlobals && reads.any (dictHas ns)

/-- `exec(f, globals())` -/
def nsWrite (q : Quirks) (ns : List (String × Src)) (name : String) (s : Src) : List (String × Src) :=
  if q.execIntoModuleGlobals then dictSet ns name s else ns

/-- names read (and whose replacement by a function makes the call raise) by
`QlassF.from_function` on a string before `exec` returns … -/
def readsFromFunctionPre (annots : List String) : List String :=
  ["ast", "isinstance", "str", "exec", "globals"] ++ annots
/-- … and after the `exec` (parameter scan, `_do_translate`, `compile`) -/
def readsFromFunctionPost (params : Bool) : List String :=
  ["isinstance", "str", "ast", "len"] ++
    (if params then ["UnboundQlassf"] else ["ast2ast", "translate_ast", "QlassF", "to_quantum"])
/-- `qlassf(...)`: `list(map(lambda q: q.to_logicfun(), defs))`, then `QlassF.from_function` -/
def readsQlassf (hasDefs : Bool) : List String :=
  ["list", "map"] ++ (if hasDefs then ["copy"] else []) ++ ["QlassF"]
def readsBind : List String :=
  ["copy", "len", "hasattr", "isinstance", "ast", "in_ipynb", "compile", "exec", "globals",
   "ast2ast", "translate_ast", "QlassF", "to_quantum"]
def readsTruthTable : List String :=
  ["flatten", "list", "map", "len", "merge_expressions", "range", "bin", "zip", "isinstance", "Symbol"]
def readsRepr : List String := ["type_repr", "map"]
def readsInputQubits : List String := ["list", "range", "reduce", "len"]

/-! ## `original_f` -/

/-- the function a name denotes when it is looked up in the shared module namespace; call chains
through distinct functions are shorter than `callDepth`, so running out of fuel means a cycle (a
generated `oracle` that calls a caller of `oracle`) -/
def resolve (P : Pool) (ns : List (String × Src)) : Nat → Src → OTree
  | 0, _ => .diverges
  | fuel + 1, s =>
    .node s ((s.callees P).map (fun c =>
      match dictGet ns c with
      | some s' => resolve P ns fuel s'
      | none => .missing c))

/-- the repaired binding: free names are the `original_f` of the definitions passed -/
def bindOrig (P : Pool) (s : Src) (defs : List DefView) : OTree :=
  .node s ((s.callees P).map (fun c =>
    match defs.find? (fun d => d.name == c) with
    | some d => d.orig
    | none => .missing c))

/-- `original_f` of a bound function: the repaired code runs the bound source with the callables of
the definitions visible; the code as it is runs it in the module globals only, so every callee is a
free name there -/
def boundOrig (q : Quirks) (P : Pool) (s : Src) (defs : List DefView) : OTree :=
  if q.bindOrigWithoutDefs then .node s ((s.callees P).map .missing) else bindOrig P s defs

def callDepth : Nat := 8

def OTree.src? : OTree → Option Src
  | .node s _ => some s
  | _ => none

/-- what `qf.original_f` is when observed with the module namespace `ns`: a function created by
`exec(src, globals())` looks its free names up in `ns` at call time -/
def QF.origNow (q : Quirks) (P : Pool) (ns : List (String × Src)) (f : QF) : OTree :=
  if q.execIntoModuleGlobals && f.viaExec then
    match f.orig.src? with
    | some s => resolve P ns callDepth s
    | none => f.orig
  else f.orig

/-! ## fingerprints: everything observable about a live object -/

structure QFFp where
  name : String
  info : Compiled
  inq : Option (List Nat)        -- `none`: the property raises
  outq : Option (List Nat)
  orig : OTree
  deriving Repr, Inhabited

def QF.fp (q : Quirks) (P : Pool) (ns : List (String × Src)) (f : QF) : QFFp :=
  { name := f.name, info := f.info,
    inq := if collides q ns readsInputQubits then none else some (List.range f.info.nIn),
    outq := f.info.retBits.mapM (dictGet f.info.circ.qmap),
    orig := f.origNow q P ns }

inductive Fp where
  | dead
  | qf (f : QFFp)
  | unbound (i : Nat) (defKeys : List String)
  | alg (kind : String) (circ : Circ) (outq : List Nat) (sub : Nat) (own : Option QFFp)
  deriving Repr, Inhabited

def Obj.fp (q : Quirks) (P : Pool) (ns : List (String × Src)) : Obj → Fp
  | .dead => .dead
  | .qf f => .qf (f.fp q P ns)
  | .unbound i defs => .unbound i (defs.map defKey)
  | .alg a => .alg a.kind a.circ a.outq a.sub (a.own.map (QF.fp q P ns))

/-- fingerprint of the object in slot `r` -/
def fingerprint (q : Quirks) (P : Pool) (s : ApiState) (r : Nat) : Fp :=
  (s.objs.getD r .dead).fp q P s.ns

/-! ## the operations -/

def getQF (s : ApiState) (r : Nat) : Option QF :=
  match s.objs.getD r .dead with
  | .qf f => some f
  | _ => none

def setObj (s : ApiState) (r : Nat) (o : Obj) : ApiState := { s with objs := s.objs.set r o }

def QF.view (f : QF) : DefView := { name := f.name, sig := f.info.sig, orig := f.orig }

/-- the definition in slot `r`, as `to_logicfun` sees it -/
def defView (s : ApiState) (r : Nat) : Option DefView := (getQF s r).map QF.view

/-- the locals of `from_function` that `eval(name)` finds before the module globals -/
def evalHitsLocal (q : Quirks) (name : String) : Bool :=
  q.evalSeesLocals && Gen.fromFunctionLocalsAtEval.contains name

/-- `ns = dict(globals()); ns.update(def_originals); exec(f, ns)`: a definition named like a global the
annotations of the source mention (all of them subscripted types in the pool: `Qint[2]`, `Qlist[...]`) is what the
annotation finds, and subscripting a function raises before anything is translated -/
def defShadows (q : Quirks) (annots : List String) (defs : List DefView) : Bool :=
  q.defShadowsAnnotation && defs.any (fun d => annots.contains d.name)

/-- `QlassF.from_function(src_text, defs=defs)` on a string, after the caller's own reads -/
def fromFunction (q : Quirks) (P : Pool) (K : Oracle) (s : ApiState) (src : Src) (key : String)
    (annots : List String) (params : Bool) (defs : List DefView) : ApiState × Tri Obj :=
  if collides q s.ns (readsFromFunctionPre annots) then (s, .raised)
  else if defShadows q annots defs then (s, .raised)
  else
    let name := src.name P
    let s1 := { s with ns := nsWrite q s.ns name src }
    if collides q s1.ns (readsFromFunctionPost params) then (s1, .raised)
    else if params then
      (s1, match src with | .pool i => .val (.unbound i defs) | _ => .raised)
    else
      match K key with
      | none => (s1, .unknown)
      | some none => (s1, .raised)
      | some (some c) =>
        let orig := if evalHitsLocal q name then .notCallable else bindOrig P src defs
        (s1, .val (.qf { name := name, info := c, src := src, orig := orig, viaExec := true }))

/-- `oraclize(qf, elem)`: the state (argument possibly renamed, namespace written) and the oracle -/
def oraclizeCore (q : Quirks) (P : Pool) (K : Oracle) (s : ApiState) (r : Nat) (f : QF) (elem : String) :
    ApiState × Tri Obj :=
  let callee := if f.name == "oracle" then "_oracle" else f.name
  -- the code assigns `qf.name`; the repaired code renames only the deep copy it passes on
  let s0 := if q.oraclizeRenames then setObj s r (.qf { f with name := callee }) else s
  let v : DefView := { f.view with name := callee }
  if collides q s0.ns ["copy"] then (s0, .raised)
  else
    fromFunction q P K s0 (.oraclize callee f.info.argT elem)
      ("O" ++ callee ++ "|" ++ elem ++ defKey v) ["bool"] false [v]

/-- gates `Grover.__init__` builds around the (extended) oracle circuit `oc` -/
def groverCirc (name : String) (ssz : Nat) (oc : Circ) (phased : Nat) (iters : Nat) : Circ :=
  let rng := List.range ssz
  let c0 := (Circ.new ssz s!"grover__{name}").pushAll (rng.map gH)
  let diff : List Gate :=
    (rng.flatMap (fun i => [gH i, gX i])) ++ [gH phased, gX phased] ++ [gMCZ rng phased] ++
    (rng.flatMap (fun i => [gX i, gH i])) ++ [gX phased, gH phased]
  let c1 := (Circ.addQubits (oc.nq - ssz) c0).push (gH phased)
  c1.pushAll (repeatGates (oc.gates ++ diff) iters)

/-- `DeutschJozsa` (`prep = [X, H]`), `BernsteinVazirani` (`prep = [H, Z]`), `Simon` (no `_ret`) -/
def wrapCirc (cname : String) (f : QF) (prep : List Gate) : Circ :=
  let rng := List.range f.info.arg0
  (Circ.new f.info.circ.nq cname).pushAll
    ([gBarrier "s"] ++ rng.map gH ++ prep ++ [gBarrier "f"] ++ f.info.circ.gates ++
     [gBarrier "s"] ++ rng.map gH)

/-- `self.oracle`: the argument itself (`none`), or a private oracle made by `oraclize` -/
def groverPre (q : Quirks) (P : Pool) (K : Oracle) (s : ApiState) (r : Nat) (f : QF)
    (elem : Option String) : ApiState × Tri (Option QF) :=
  match elem with
  | none => (s, .val none)
  | some e =>
    let x := oraclizeCore q P K s r f e
    (x.1, match x.2 with
          | .unknown => .unknown
          | .raised => .raised
          | .val (.qf o) => .val (some o)
          | .val _ => .raised)

/-- `oracle_qc = self.oracle.circuit()` extended in place by `_ret_phased` and the MCZ, then the
Grover circuit around it.  `own` is the private oracle, if any; `f` the argument in slot `r`. -/
def groverFinish (q : Quirks) (s1 : ApiState) (r : Nat) (f : QF) (own : Option QF) (iters : Nat) :
    ApiState × Tri Obj :=
  let ssz := f.info.arg0
  let orc : QF := own.getD f
  let c1 := orc.info.circ.addQubit (some "_ret_phased")
  let phased := orc.info.circ.nq
  -- the circuit object that was extended is the oracle's own one, unless the repaired code copied it
  let stAfter (c : Circ) : ApiState :=
    if q.groverMutatesOracle && own.isNone then setObj s1 r (.qf { orc with info := { orc.info with circ := c } })
    else s1
  let ownAfter (c : Circ) : Option QF :=
    if q.groverMutatesOracle then own.map (fun o => { o with info := { o.info with circ := c } }) else own
  match dictGet c1.qmap "_ret" with
  | none => (stAfter c1, .raised)
  | some rq =>
    let c2 := c1.push (gMCZ [rq] phased)
    (stAfter c2,
     .val (.alg { kind := "Grover", circ := groverCirc f.name ssz c2 phased iters,
                  outq := List.range ssz, sub := r, own := ownAfter c2 }))

/-- `Grover(qf, elem, n_iterations=iters)` -/
def groverCore (q : Quirks) (P : Pool) (K : Oracle) (s : ApiState) (r : Nat) (f : QF)
    (elem : Option String) (iters : Nat) : ApiState × Tri Obj :=
  if f.info.nargs != 1 then (s, .raised)
  else
    let pre := groverPre q P K s r f elem
    match pre.2 with
    | .unknown => (pre.1, .unknown)
    | .raised => (pre.1, .raised)
    | .val own => groverFinish q pre.1 r f own iters

/-- the operation up to the point where its result is stored -/
def stepCore (q : Quirks) (P : Pool) (K : Oracle) (s : ApiState) : Op → ApiState × Tri Obj
  | .compile i defRefs asCallable =>
    let p := P.prog i
    match defRefs.mapM (defView s) with
    | none => (s, .raised)
    | some defs =>
      if collides q s.ns (readsQlassf (!defs.isEmpty)) then (s, .raised)
      else
        let key := s!"P{i}" ++ String.join (defs.map defKey)
        if asCallable then
          -- nothing is exec'd; `original_f` is the callable itself
          if collides q s.ns (["ast", "isinstance", "str", "inspect"] ++ readsFromFunctionPost p.params) then
            (s, .raised)
          else if p.params then (s, .val (.unbound i defs))
          else match K key with
            | none => (s, .unknown)
            | some none => (s, .raised)
            | some (some c) =>
              (s, .val (.qf { name := p.name, info := c, src := .pool i, orig := bindOrig P (.pool i) defs }))
        else fromFunction q P K s (.pool i) key p.annots p.params defs
  | .bind r pkey =>
    match s.objs.getD r .dead with
    | .unbound i defs =>
      if collides q s.ns readsBind then (s, .raised)
      else match K (s!"B{i}|" ++ pkey ++ String.join (defs.map defKey)) with
        | none => (s, .unknown)
        | some none => (s, .raised)
        | some (some c) =>
          (s, .val (.qf { name := (P.prog i).name, info := c, src := .bound i pkey,
                          orig := boundOrig q P (.bound i pkey) defs }))
    | _ => (s, .raised)
  | .oraclize r elem =>
    match getQF s r with
    | none => (s, .raised)
    | some f => oraclizeCore q P K s r f elem
  | .grover r elem iters =>
    match getQF s r with
    | none => (s, .raised)
    | some f => groverCore q P K s r f elem iters
  | .dj r =>
    match getQF s r with
    | none => (s, .raised)
    | some f =>
      if f.info.nargs != 1 || !f.info.retBool then (s, .raised)
      else match dictGet f.info.circ.qmap "_ret" with
        | none => (s, .raised)
        | some rq =>
          (s, .val (.alg { kind := "DeutschJozsa", circ := wrapCirc s!"deutsch_{f.name}" f [gX rq, gH rq],
                           outq := List.range f.info.arg0, sub := r, own := none }))
  | .bv r =>
    match getQF s r with
    | none => (s, .raised)
    | some f =>
      if f.info.nargs != 1 || !f.info.retBool then (s, .raised)
      else match dictGet f.info.circ.qmap "_ret" with
        | none => (s, .raised)
        | some rq =>
          (s, .val (.alg { kind := "BernsteinVazirani", circ := wrapCirc s!"deutsch_{f.name}" f [gH rq, gZ rq],
                           outq := List.range f.info.arg0, sub := r, own := none }))
  | .simon r =>
    match getQF s r with
    | none => (s, .raised)
    | some f =>
      if f.info.nargs != 1 then (s, .raised)
      else
        (s, .val (.alg { kind := "Simon", circ := wrapCirc s!"simon_{f.name}" f [],
                         outq := List.range f.info.arg0, sub := r, own := none }))
  | .secretOracle n sec =>
    fromFunction q P K s (.secret n sec) s!"S{n}|{sec}" ["Qint", "bool"] false []
  | .readOnly kind r =>
    match s.objs.getD r .dead with
    | .dead => (s, .raised)
    | .unbound _ _ => (s, .raised)
    | .qf f =>
      if kind == "truth_table" && collides q s.ns readsTruthTable then (s, .raised)
      else if kind == "repr" && collides q s.ns readsRepr then (s, .raised)
      else if kind == "qc_copy" then
        -- `QCircuit.copy`: `self.__native = None`
        (setObj s r (.qf { f with native := false }), .val .dead)
      else (s, .val .dead)
    | .alg a =>
      if kind == "truth_table" then (s, .raised)
      else if kind == "qc_copy" then (setObj s r (.alg { a with native := false }), .val .dead)
      else (s, .val .dead)

/-- store the outcome in the operation's slot -/
def close (r : ApiState × Tri Obj) : ApiState × Result :=
  match r.2 with
  | .unknown => ({ r.1 with objs := r.1.objs ++ [.dead] }, .unknown)
  | .raised => ({ r.1 with objs := r.1.objs ++ [.dead] }, .raised)
  | .val o => ({ r.1 with objs := r.1.objs ++ [o] }, .ok)

def step (q : Quirks) (P : Pool) (K : Oracle) (s : ApiState) (op : Op) : ApiState × Result :=
  close (stepCore q P K s op)

/-- does the operation run into `groverMutatesOracle` / `oraclizeRenames` / `bindOrigWithoutDefs`
in state `s`? -/
def opTrigger (q : Quirks) (s : ApiState) : Op → Bool
  | .grover r elem _ =>
    q.groverMutatesOracle ||
    (q.oraclizeRenames && elem.isSome && ((getQF s r).map (·.name)) == some "oracle")
  | .oraclize r _ => q.oraclizeRenames && ((getQF s r).map (·.name)) == some "oracle"
  | .bind _ _ => q.bindOrigWithoutDefs
  | _ => false

/-- a whole history -/
def run (q : Quirks) (P : Pool) (K : Oracle) : ApiState → List Op → ApiState
  | s, [] => s
  | s, op :: ops => run q P K (step q P K s op).1 ops

/-- the heap slots an operation is given -/
def Op.refs : Op → List Nat
  | .compile _ defs _ => defs
  | .bind r _ | .oraclize r _ | .grover r _ _ | .dj r | .simon r | .bv r | .readOnly _ r => [r]
  | .secretOracle _ _ => []

end QV.Api
