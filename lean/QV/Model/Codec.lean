import QV.Model.Types
import QV.Model.Circuit
/-!
# Model of the value <-> qubit codec of a compiled function

`qlasskit/qlassfun.py` (`QlassF.encode_input`, `decode_output`, `input_qubits`,
`output_qubits`), `qlasskit/qcircuit/qcircuitwrapper.py` (`decode_counts`),
`qlasskit/ast2logic/t_arguments.py` (`translate_argument`: bit naming),
`qlasskit/ast2logic/typing.py` (`Arg`), the naming of the `Return` statement
(`t_statement.py` + `t_expression.decompose_to_symbols`) and the naming part of
`InternalCompiler.compile` (`add_qubit` per input bit, `map_qubit` per expression).

The scalar codecs and `interpret_as_qtype` are in `QV.Model.Types`.

A bit name `a.0.1` is kept structurally as `⟨"a", [0, 1]⟩` (`Name.render` prints it); Python
identifiers contain no `.`, so printing is injective on the names that occur.
-/
namespace QV.Codec
open QV QV.Types

/-! ## Bit names (`translate_argument`) -/

structure Name where
  base : String
  path : List Nat
  deriving DecidableEq, Repr, Inhabited

/-- `f"{base}.{k}"` -/
def Name.sub (n : Name) (k : Nat) : Name := { n with path := n.path ++ [k] }

def Name.render (n : Name) : String :=
  n.path.foldl (fun s i => s ++ "." ++ toString i) n.base

/-- `[f"{base}.{i}" for i in range(n)]` -/
def subNames (b : Name) (n : Nat) : List Name := (List.range n).map b.sub

mutual
/-- `translate_argument(ann, env, base).bitvec`: a bool is named `base`, the bits of a scalar
Qtype `base.i`, the elements of a tuple recursively with base `base.ind` -/
def argNames : QTy → Name → List Name
  | .bool, b => [b]
  | .qint w, b => subNames b w
  | .qchar, b => subNames b 8
  | .qfixed i f, b => subNames b (i + f)
  | .tuple ts, b => argNamesList ts b 0
def argNamesList : List QTy → Name → Nat → List Name
  | [], _, _ => []
  | t :: ts, b, k => argNames t (b.sub k) ++ argNamesList ts b (k + 1)
end

/-- `ast2logic/typing.py: Arg` -/
structure Arg where
  name : String
  ty : QTy
  bitvec : List Name
  deriving Repr, Inhabited

def translateArgument (base : String) (ty : QTy) : Arg :=
  ⟨base, ty, argNames ty ⟨base, []⟩⟩

/-- `translate_arguments` -/
def translateArguments (sig : List (String × QTy)) : List Arg :=
  sig.map fun a => translateArgument a.1 a.2

/-- the return `Arg`: `translate_argument(fun.returns, env, base="_ret")` -/
def retArg (ty : QTy) : Arg := translateArgument "_ret" ty

/-- `[arg_b for arg in args for arg_b in arg.bitvec]` (`InternalCompiler.compile`, step 1) -/
def inputSymbols : List Arg → List Name
  | [] => []
  | a :: as => a.bitvec ++ inputSymbols as

/-- `QlassF.input_qubits`: `list(range(reduce(lambda a, b: a + len(b), self.args, 0)))` -/
def inputQubits (args : List Arg) : List Nat :=
  List.range (args.foldl (fun a b => a + b.bitvec.length) 0)

/-! ## The qubit map (`QCircuit.qubit_map`, a Python dict) -/

/-- `d[k] = v` -/
def dictSet : List (Name × Nat) → Name → Nat → List (Name × Nat)
  | [], k, v => [(k, v)]
  | (k', v') :: r, k, v => if k' = k then (k, v) :: r else (k', v') :: dictSet r k v

/-- `d[k]`; `none` = KeyError -/
def dictGet : List (Name × Nat) → Name → Option Nat
  | [], _ => none
  | (k', v') :: r, k => if k' = k then some v' else dictGet r k

structure QMap where
  numQubits : Nat := 0
  entries : List (Name × Nat) := []
  deriving Repr, Inhabited

def QMap.get (m : QMap) (n : Name) : Option Nat := dictGet m.entries n

/-- `QCircuit.add_qubit(name)` -/
def QMap.addQubit (m : QMap) (n : Name) : QMap :=
  { numQubits := m.numQubits + 1, entries := dictSet m.entries n m.numQubits }

def QMap.addQubits (m : QMap) (ns : List Name) : QMap := ns.foldl QMap.addQubit m

/-- `QCircuitEnhanced.map_qubit(name, index)` (the key it may delete when promoting an ancilla
is that ancilla's own name, never an input or `_ret` name) -/
def QMap.mapQubit (m : QMap) (n : Name) (i : Nat) : QMap :=
  { m with entries := dictSet m.entries n i }

/-- the naming part of `InternalCompiler.compile`: one qubit per input bit in order, then
`map_qubit(sym, iret)` for every expression `(sym, exp)`, `iret` being whatever qubit the
expression compiler returned for it (a parameter here: C02 models that choice); `nq` = final
number of qubits -/
def compileMap (inputs : List Name) (steps : List (Name × Nat)) (nq : Nat) : QMap :=
  let m := (QMap.addQubits {} inputs)
  let m := steps.foldl (fun m s => m.mapQubit s.1 s.2) m
  { m with numQubits := max nq m.numQubits }

/-- `QlassF.output_qubits`: `[qubit_map[i] for i in returns.bitvec]`; `none` = KeyError -/
def outputQubits (m : QMap) : List Name → Option (List Nat)
  | [] => some []
  | n :: ns =>
    match m.get n, outputQubits m ns with
    | some q, some qs => some (q :: qs)
    | _, _ => none

/-! ## Names given by the `Return` statement (`decompose_to_symbols(vexp, "_ret")`) -/

/-- nesting of the Python value expression `vexp` (a boolean expression or a list) -/
inductive VShape where
  | leaf
  | node (cs : List VShape)
  deriving Repr, Inhabited

mutual
/-- `decompose_to_symbols(vlist, base)`: names of the leaves -/
def retNames : VShape → Name → List Name
  | .leaf, b => [b]
  | .node cs, b => retNamesList cs b 0
def retNamesList : List VShape → Name → Nat → List Name
  | [], _, _ => []
  | c :: cs, b, k => retNames c (b.sub k) ++ retNamesList cs b (k + 1)
end

def leaves (n : Nat) : VShape := .node (List.replicate n .leaf)

/-- `Arg.to_exp()` / `Binding.to_exp()`: a *flat* list of the symbols of `bitvec`, or the
single symbol when there is only one -/
def bindingShape (n : Nat) : VShape := if n > 1 then leaves n else .leaf

mutual
/-- nesting that agrees with the type (what `translate_argument` names) -/
def tyShape : QTy → VShape
  | .bool => .leaf
  | .qint w => leaves w
  | .qchar => leaves 8
  | .qfixed i f => leaves (i + f)
  | .tuple ts => .node (tyShapes ts)
def tyShapes : List QTy → List VShape
  | [] => []
  | t :: ts => tyShape t :: tyShapes ts
end

/-- the expression returned, as far as naming goes -/
inductive RExp where
  /-- a name bound to a variable or argument of type `t` -/
  | var (t : QTy)
  /-- any other expression of a non-tuple type `t` (its value is a bool or a list of bits) -/
  | scalar (t : QTy)
  /-- a tuple display `(e0, e1, ...)` -/
  | tup (es : List RExp)
  deriving Repr, Inhabited

mutual
def RExp.ty : RExp → QTy
  | .var t => t
  | .scalar t => t
  | .tup es => .tuple (RExp.tys es)
def RExp.tys : List RExp → List QTy
  | [] => []
  | e :: es => e.ty :: RExp.tys es
end

mutual
/-- nesting of `vexp` as `translate_expression` builds it -/
def RExp.rawShape : RExp → VShape
  | .var t => bindingShape t.size
  | .scalar t => tyShape t
  | .tup es => .node (RExp.rawShapes es)
def RExp.rawShapes : List RExp → List VShape
  | [] => []
  | e :: es => e.rawShape :: RExp.rawShapes es
end

/-- symbols defined by `return e`.  Quirk `retFlatNames` (the code as it is): the nesting of
`vexp`; repaired: the nesting of the type. -/
def returnNames (q : Quirks) (e : RExp) : List Name :=
  if q.retFlatNames then retNames e.rawShape ⟨"_ret", []⟩
  else retNames (tyShape e.ty) ⟨"_ret", []⟩

/-- trigger of the quirk, decidable: the Return names differ from `returns.bitvec` -/
def retNamesAgree (e : RExp) : Bool :=
  retNames e.rawShape ⟨"_ret", []⟩ == argNames e.ty ⟨"_ret", []⟩

/-! ## `encode_input` -/

mutual
/-- `val_to_bin(argt, val)` -/
def valToBin : QTy → QVal → List Char
  | .bool, .bool b => [bitChar b]
  | .qint w, .int v => boolListToBin (qintToBool w v)
  | .qchar, .char c => boolListToBin (qcharToBool c)
  | .qfixed i f, .fixed sv => boolListToBin (qfixedToBool i f sv)
  | .tuple ts, .tuple vs => valToBinList ts vs
  | _, _ => []
/-- the `zip` loops of `val_to_bin` (tuple) and of `encode_input` (arguments) -/
def valToBinList : List QTy → List QVal → List Char
  | t :: ts, v :: vs => valToBin t v ++ valToBinList ts vs
  | _, _ => []
end

/-- `QlassF.encode_input(*qvals)`: concatenation over the arguments, then `[::-1]` -/
def encodeInput (args : List Arg) (vals : List QVal) : List Char :=
  (valToBinList (args.map (·.ty)) vals).reverse

/-! ## `decode_output` -/

/-- `format_outcome(out: int)` with `out_len = None`: the digits of `bin(out)` -/
def formatOutcomeInt (n : Nat) : List Bool := (binDigits n).map (· == '1')

/-- `str.zfill` on digit strings -/
def zfill (m : Nat) (s : List Char) : List Char := List.replicate (m - s.length) '0' ++ s

/-- `QlassF.decode_output(istr)` for `str` / `List[bool]` readings:
`fcome = format_outcome(istr)[::-1]; interpret_as_qtype(fcome[::-1], returns.ttype, len(returns))` -/
def decodeOutput (r : Arg) (istr : List Bool) : QVal :=
  let fcome := (formatOutcome istr none).reverse
  interpretAsQtype fcome.reverse r.ty (some r.bitvec.length)

/-- `decode_output(istr: int)`.  Quirk `formatOutcomeIntPadRight` (the code as it is): the
digits of `bin(istr)` are padded on the right by `interpret_as_qtype`; repaired: the digits
are zero-filled on the left to the return width first. -/
def decodeOutputInt (q : Quirks) (r : Arg) (n : Nat) : QVal :=
  if q.formatOutcomeIntPadRight then decodeOutput r (formatOutcomeInt n)
  else decodeOutput r ((zfill r.bitvec.length (binDigits n)).map (· == '1'))

/-! ## What the caller's reading object looks like after a call

Python passes the `List[bool]` reading by reference; `str` and `int` readings are immutable. -/

/-- the caller's list after `format_outcome(out, out_len)` — and after
`interpret_as_qtype(out, qtype, out_len)`, whose first statement is that call on the same object.
Quirk `formatOutcomePadsInPlace` (the code as it is): `out += [False] * (out_len - len(out))`
extends the caller's object; repaired: the padding goes onto a copy. -/
def formatOutcomeArgAfter (q : Quirks) (out : List Bool) (outLen : Option Nat) : List Bool :=
  if q.formatOutcomePadsInPlace then formatOutcome out outLen else out

/-- the caller's list after `decode_output(istr)`: `format_outcome(istr)` (no `out_len`) is the only
call that sees the object itself, `[::-1]` copies -/
def decodeOutputArgAfter (q : Quirks) (istr : List Bool) : List Bool :=
  formatOutcomeArgAfter q istr none

/-! ## `decode_counts` -/

/-- `if e in d: d[e] += c else: d[e] = c` -/
def countsAdd {V : Type} [BEq V] : List (V × Nat) → V → Nat → List (V × Nat)
  | [], e, c => [(e, c)]
  | (e', c') :: r, e, c => if e' == e then (e', c' + c) :: r else (e', c') :: countsAdd r e c

/-- `QCircuitWrapper.decode_counts(counts, discard_lower)` with `decode_output = dec` -/
def decodeCounts {K V : Type} [BEq V] (dec : K → V) (counts : List (K × Nat))
    (discardLower : Option Nat) : List (V × Nat) :=
  let ic := counts.foldl (fun d e => countsAdd d (dec e.1) e.2) []
  match discardLower with
  | some d => if d ≠ 0 then ic.filter (fun el => el.2 ≥ d) else ic
  | none => ic

def totalCount {V : Type} (l : List (V × Nat)) : Nat := (l.map (·.2)).sum

/-! ## Preparing the input state and reading the output qubits -/

/-- basis state of an `nq`-qubit register initialised from the `encode_input` string:
qubit `i` is 1 iff character `len-1-i` is `'1'` (qubit 0 is the rightmost character) -/
def initState (nq : Nat) (s : List Char) : BState :=
  s.reverse.map (· == '1') ++ List.replicate (nq - s.length) false

/-- the measured string of the listed qubits, first listed qubit rightmost -/
def readOut (st : BState) (oq : List Nat) : List Bool :=
  (oq.map fun q => st.getD q false).reverse

end QV.Codec
