import QV.Model.Amp
import QV.Model.Types
/-!
# `qlasskit/algorithms/{deutschjozsa,bernsteinvazirani,simon}.py`

The constructors' gate lists as functions of `n = len(f.args[0])` (`search_space_size`), the
index `ret = f.circuit()["_ret"]` and the gate list of `f.circuit()`; `output_qubits`;
`decode_output`.
-/
namespace QV.Algo
open QV QV.Types QV.Amp

/-- `qc.barrier(label=l)` -/
def barrier (l : String) : AGate := { cls := .Barrier, wires := [], param := .lit l }
def gH (i : Nat) : AGate := { cls := .H, wires := [i] }
def gX (i : Nat) : AGate := { cls := .X, wires := [i] }
def gZ (i : Nat) : AGate := { cls := .Z, wires := [i] }

/-- `for i in range(self.search_space_size): self._qcircuit.h(i)` -/
def hLayer (n : Nat) : List AGate := (List.range n).map gH

/-- `DeutschJozsa.__init__`: barrier "s"; H on 0..n-1; X ret; H ret; barrier "f";
`+= f.circuit()`; barrier "s"; H on 0..n-1 -/
def djGates (n ret : Nat) (oracle : List AGate) : List AGate :=
  [barrier "s"] ++ hLayer n ++ [gX ret, gH ret] ++ [barrier "f"] ++ oracle ++ [barrier "s"] ++ hLayer n

/-- `BernsteinVazirani.__init__`: as Deutsch-Jozsa with `H ret; Z ret` -/
def bvGates (n ret : Nat) (oracle : List AGate) : List AGate :=
  [barrier "s"] ++ hLayer n ++ [gH ret, gZ ret] ++ [barrier "f"] ++ oracle ++ [barrier "s"] ++ hLayer n

/-- `Simon.__init__` -/
def simonGates (n : Nat) (oracle : List AGate) : List AGate :=
  [barrier "s"] ++ hLayer n ++ [barrier "f"] ++ oracle ++ [barrier "s"] ++ hLayer n

/-- `output_qubits` (all three): `list(range(len(f.args[0])))` -/
def outputQubits (n : Nat) : List Nat := List.range n

inductive DJOut where
  | constant | balanced | error
  deriving DecidableEq, Repr

/-- Python `iq == 0` on a decoded value -/
def pyEqZero : QVal → Option Bool
  | .bool b => some (!b)
  | .int v => some (v == 0)
  | .fixed sv => some (sv == 0)
  | .char _ => some false
  | .tuple _ => some false
  | .error => none

/-- `DeutschJozsa.decode_output(istr)`; `istr` is the measured string, qubit 0 rightmost.
Quirk `djDecodeEqZero` (current code): `"Constant" if interpret_as_qtype(...) == 0`, which is
never true for a `Tuple`/`Qlist`/`Qchar` argument.  Repaired: all `n` output bits are 0. -/
def djDecode (q : Quirks) (ty : QTy) (n : Nat) (istr : List Bool) : DJOut :=
  if q.djDecodeEqZero then
    match pyEqZero (interpretAsQtype istr ty (some n)) with
    | some true => .constant
    | some false => .balanced
    | none => .error
  else
    if (((formatOutcome istr (some n)).reverse).take n).any id then .balanced else .constant

/-- the finding's trigger: the decoded value is not a number -/
def djDecodeTriggers : QTy → Bool
  | .tuple _ => true
  | .qchar => true
  | _ => false

/-- `BernsteinVazirani.decode_output` and `Simon.decode_output` -/
def argDecode (ty : QTy) (n : Nat) (istr : List Bool) : QVal := interpretAsQtype istr ty (some n)

end QV.Algo
