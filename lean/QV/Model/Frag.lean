import QV.Model.Front
/-!
# The fragments of the C01 theorems (decidable predicates)

`inFrag` (expressions of `C01_expr`), `straightLine` (`C01_body`, `C01_straightline`), `guardedLine`
(`C01_body_guarded`, `C01_guarded`, `C01_if`).  The definitions only; everything proved about them is in
`QV/Proofs/Front6 … Front11.lean`.  Mathlib-free so that the driver can tell the harness which programs of a run
the theorems cover.
-/
namespace QV.Sem
open QV QV.Front

def cmpOps : List String := ["Eq", "NotEq", "Lt", "LtE", "Gt", "GtE"]
def binOps : List String := ["add", "sub", "mul", "mod", "xor", "and", "or", "lshift", "rshift"]

mutual
/-- the expression fragment of `C01_expr`: variables, bool / int constants, `not`, `~`, `and` / `or`,
if-expressions, the six comparisons, `+ - * % ^ & | << >>` -/
def inFrag : PExp → Bool
  | .name _ => true
  | .cbool _ => true
  | .cint _ => true
  | .not e => inFrag e
  | .inv e => inFrag e
  | .boolop _ vs => inFragList vs
  | .ite c t e => inFrag c && inFrag t && inFrag e
  | .cmp op l r => cmpOps.contains op && inFrag l && inFrag r
  | .bin op l r => binOps.contains op && inFrag l && inFrag r
  | .cchar _ => false
  | .subs _ _ => false
  | .tuple _ => false
  | .unsupported _ => false
def inFragList : List PExp → Bool
  | [] => true
  | e :: es => inFrag e && inFragList es
end


/-- the argument types the fragment covers: `bool` and `Qint[w]`, `w ≠ 1` (the library has no `Qint1`;
a one-bit list would be handed on as a bare expression) -/
def argTyOK : Ty → Bool
  | .bool => true
  | .qint w => w != 1
  | _ => false


/-- a python identifier has no dot -/
def goodName (n : String) : Bool := !n.toList.contains '.'


mutual
/-- the expression reads the variable `t` -/
def mentions (t : String) : PExp → Bool
  | .name n => n == t
  | .subs n _ => n == t
  | .cbool _ => false
  | .cint _ => false
  | .cchar _ => false
  | .unsupported _ => false
  | .not e => mentions t e
  | .inv e => mentions t e
  | .boolop _ vs => mentionsList t vs
  | .ite c a b => mentions t c || mentions t a || mentions t b
  | .cmp _ l r => mentions t l || mentions t r
  | .bin _ l r => mentions t l || mentions t r
  | .tuple es => mentionsList t es
def mentionsList (t : String) : List PExp → Bool
  | [] => false
  | e :: es => mentions t e || mentionsList t es
end


/-- a statement of the straight-line fragment: an assignment of a fragment expression that does not
read its own target (`ast2ast` routes `a = a + 1` and every augmented assignment through the temporary
`__a`) to a dot-free name other than `_ret`; a `return` of a fragment expression; an expression
statement -/
def stmtOK : Stmt → Bool
  | .assign t e => goodName t && t != "_ret" && inFrag e && !mentions t e
  | .ret e => inFrag e && !mentions "_ret" e
  | .expr _ => true
  | .unsupported _ => false

/-- the straight-line fragment of `C01_body`: arguments `bool` / `Qint[w]` (`w ≠ 1`) with dot-free names
other than `_ret`, return type `bool` / `Qint[w]`, every statement `stmtOK` -/
def straightLine (p : Prog) : Bool :=
  p.args.all (fun a => argTyOK a.2 && goodName a.1 && a.1 != "_ret") && argTyOK p.ret &&
    p.body.all stmtOK


/-- `e` may be assigned to `t` although it reads `t`: a tree of if-expressions whose tests are variables
other than `t` and whose leaves are `t` itself or expressions that do not read `t` -/
def guardedRhs (t : String) : PExp → Bool
  | .ite (.name g) a b => (g != t && guardedRhs t a && guardedRhs t b) || !mentions t (.ite (.name g) a b)
  | .name _ => true
  | e => !mentions t e


/-- a statement of the guarded fragment: as `stmtOK`, but the right-hand side of an assignment may be a
`guardedRhs` (it may read its own target through the else-leaves of if-expressions on other variables) -/
def stmtOKg : Stmt → Bool
  | .assign t e => goodName t && t != "_ret" && inFrag e && guardedRhs t e
  | .ret e => inFrag e && !mentions "_ret" e
  | .expr _ => true
  | .unsupported _ => false

/-- the guarded fragment of `C01_body_guarded` -/
def guardedLine (p : Prog) : Bool :=
  p.args.all (fun a => argTyOK a.2 && goodName a.1 && a.1 != "_ret") && argTyOK p.ret &&
    p.body.all stmtOKg


end QV.Sem
