import QV.Model.Front
import QV.Base.Bits
/-!
# `SemW`: the documented fixed-width unsigned meaning of the bool / Qint fragment

Reference semantics (specification side of C01) for the expressions and straight-line statements that
`ast2ast` leaves, over the types `bool` and `Qint[w]`.  A value is a python `bool`, or an unsigned
integer together with the width of the library type it has.  Every operator is computed *exactly* on
the (already reduced) operand values and then reduced modulo `2^w`, `w` the width the library's typing
rules give the result:

* integer constants take the least of `Qint2/4/6/8/12/16` that holds them (negative constants: `Qint2`,
  reduced modulo 4);
* `+`, `-`, `&`, `|`, `^`, `%` take the wider operand type; `*` takes `__mul_sizing(max, max)`;
* `<<`, `>>` (by a literal non-negative amount) and `~` keep the type of the left operand;
* an if-expression takes the wider branch type; comparisons, `not`, `and`, `or` give `bool`;
* `return` fills (value kept) or crops (value modulo `2^w`) to the declared type.

Nothing here looks at bits or boolean expressions: the only link to `QV.Model.Front` is the syntax
(`PExp`, `Stmt`, `Prog`, `Ty`).  Everything outside the fragment (tuples, `Qchar`, subscripts other
than a constant bit index of a `Qint` variable) is `none` = no meaning given.

Import-free apart from `QV/Model` (links into `qvdriver`; the harness compares it with the independent
python oracle `harness/pysem.py`).
-/
namespace QV.Sem
open QV QV.Front

/-- values of the reference semantics: a bool, or `x : Qint[w]` (always `x < 2^w`) -/
inductive SVal where
  | bool (b : Bool)
  | int (w : Nat) (x : Nat)
  deriving Repr, DecidableEq, Inhabited

abbrev SEnv := String → Option SVal

/-- candidate widths of an integer constant (`const_to_qtype`) -/
def constWidths : List Nat := [2, 4, 6, 8, 12, 16]

/-- type width of the integer constant `v`: the first candidate with `v < 2^w` -/
def constWidth (v : Int) : Option Nat := constWidths.find? (fun w => v < ((2 : Int) ^ w))

/-- `__mul_sizing` on the sum `s` of the two operand widths -/
def mulWidth (s : Nat) : Nat :=
  if s ≤ 2 then 2 else if s ≤ 4 then 4 else if s ≤ 6 then 6
  else if s ≤ 8 then 8 else if s ≤ 12 then 12 else 16

/-- bitwise operator on two naturals below `2^w`, digit by digit -/
def natBitwise (f : Bool → Bool → Bool) (w x y : Nat) : Nat :=
  valLE (List.zipWith f (toBitsLE w x) (toBitsLE w y))

/-- python comparison named by its `ast` class -/
def cmpNat : String → Nat → Nat → Option Bool
  | "Eq", a, b => some (decide (a = b))
  | "NotEq", a, b => some (decide (a ≠ b))
  | "Lt", a, b => some (decide (a < b))
  | "LtE", a, b => some (decide (a ≤ b))
  | "Gt", a, b => some (decide (a > b))
  | "GtE", a, b => some (decide (a ≥ b))
  | _, _, _ => none

def cmpBool : String → Bool → Bool → Option Bool
  | "Eq", a, b => some (a == b)
  | "NotEq", a, b => some (a != b)
  | _, _, _ => none

/-- `& | ^` on bools (operator named as the harness names the `ast` class) -/
def boolBin : String → Bool → Bool → Option SVal
  | "xor", a, b => some (.bool (Bool.xor a b))
  | "and", a, b => some (.bool (a && b))
  | "or", a, b => some (.bool (a || b))
  | _, _, _ => none

/-- arithmetic on `x : Qint[wl]`, `y : Qint[wr]`: exact result reduced modulo `2^w` of the result type -/
def intBin (op : String) (wl wr x y : Nat) : Option SVal :=
  let w := max wl wr
  match op with
  | "add" => some (.int w ((x + y) % 2 ^ w))
  | "sub" => some (.int w ((x + 2 ^ w - y) % 2 ^ w))
  | "mul" => let t := mulWidth (w + w); some (.int t ((x * y) % 2 ^ t))
  | "mod" => if y = 0 then none else some (.int w (x % y))
  | "xor" => some (.int w (natBitwise Bool.xor w x y))
  | "and" => some (.int w (natBitwise (· && ·) w x y))
  | "or" => some (.int w (natBitwise (· || ·) w x y))
  | _ => none

/-- `and` / `or` over at least one bool (python evaluates left to right and stops early; on total
operands that is the conjunction / disjunction) -/
def boolFold (isAnd : Bool) : List SVal → Option Bool
  | [] => none
  | [.bool b] => some b
  | .bool b :: xs => (boolFold isAnd xs).map fun r => if isAnd then b && r else b || r
  | _ => none

mutual
/-- the fixed-width meaning of an expression under the variable environment `σ` -/
def semW (σ : SEnv) : PExp → Option SVal
  | .name n => σ n
  | .cbool b => some (.bool b)
  | .cint v =>
    match constWidth v with
    | some w => some (.int w (v % ((2 : Int) ^ w)).toNat)
    | none => none
  | .subs n path =>
    match σ n, path with
    | some (.int w x), [i] => if 0 ≤ i ∧ i < (w : Int) then some (.bool (x.testBit i.toNat)) else none
    | _, _ => none
  | .not e =>
    match semW σ e with
    | some (.bool b) => some (.bool (!b))
    | _ => none
  | .inv e =>
    match semW σ e with
    | some (.int w x) => some (.int w (2 ^ w - 1 - x))
    | _ => none
  | .boolop isAnd vs =>
    match semWList σ vs with
    | some xs => (boolFold isAnd xs).map .bool
    | none => none
  | .ite c t e =>
    match semW σ c, semW σ t, semW σ e with
    | some (.bool cb), some (.bool x), some (.bool y) => some (.bool (if cb then x else y))
    | some (.bool cb), some (.int a x), some (.int b y) => some (.int (max a b) (if cb then x else y))
    | _, _, _ => none
  | .cmp op l r =>
    match semW σ l, semW σ r with
    | some (.bool x), some (.bool y) => (cmpBool op x y).map .bool
    | some (.int _ x), some (.int _ y) => (cmpNat op x y).map .bool
    | _, _ => none
  | .bin op l r =>
    match semW σ l with
    | some (.bool x) =>
      match semW σ r with
      | some (.bool y) => boolBin op x y
      | _ => none
    | some (.int wl x) =>
      if op == "lshift" || op == "rshift" then
        match r with
        | .cint k =>
          if k < 0 then none
          else if op == "lshift" then some (.int wl ((x * 2 ^ k.toNat) % 2 ^ wl))
          else some (.int wl (x / 2 ^ k.toNat))
        | _ => none
      else
        match semW σ r with
        | some (.int wr y) => intBin op wl wr x y
        | _ => none
    | none => none
  | .cchar _ => none
  | .tuple _ => none
  | .unsupported _ => none
def semWList (σ : SEnv) : List PExp → Option (List SVal)
  | [] => some []
  | e :: es =>
    match semW σ e, semWList σ es with
    | some x, some xs => some (x :: xs)
    | _, _ => none
end

/-- the `return` statement: fill or crop to the declared type -/
def coerceRet (ret : Ty) : SVal → Option SVal
  | .bool b => match ret with
    | .bool => some (.bool b)
    | _ => none
  | .int a x => match ret with
    | .qint b => if a ≤ b then some (.int b x) else some (.int b (x % 2 ^ b))
    | _ => none

def SEnv.set (σ : SEnv) (n : String) (v : SVal) : SEnv := fun m => if m == n then some v else σ m

/-- straight-line body: assignments update the environment, the first `return` gives the value -/
def semBody (ret : Ty) : SEnv → List Stmt → Option SVal
  | _, [] => none
  | σ, .assign t e :: ss =>
    match semW σ e with
    | some v => semBody ret (σ.set t v) ss
    | none => none
  | σ, .ret e :: _ =>
    match semW σ e with
    | some v => coerceRet ret v
    | none => none
  | σ, .expr _ :: ss => semBody ret σ ss
  | _, .unsupported _ :: _ => none

/-- the value of an argument of type `t` named `n` under an assignment of the argument bits -/
def decodeArg (ρ : String → Bool) (n : String) : Ty → Option SVal
  | .bool => some (.bool (ρ n))
  | .qint w => some (.int w (valLE ((Ty.names n (.qint w)).map ρ)))
  | _ => none

def argsEnv (args : List (String × Ty)) (ρ : String → Bool) : SEnv := fun n =>
  match args.find? (·.1 == n) with
  | some (_, t) => decodeArg ρ n t
  | none => none

/-- `SemW` of a program on an assignment of its argument bits -/
def semProg (p : Prog) (ρ : String → Bool) : Option SVal :=
  semBody p.ret (argsEnv p.args ρ) p.body

/-- the bits of a value, in the order of the return bit names -/
def SVal.bits : SVal → List Bool
  | .bool b => [b]
  | .int w x => toBitsLE w x

end QV.Sem
