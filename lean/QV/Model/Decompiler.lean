import QV.Base.BExp
import QV.Base.Quirks
import QV.Model.Circuit
import QV.Gen.Tables
/-!
# Decompiler: symbolic execution of classical gate runs, section splitting

Model of `qlasskit/decompiler/decompiler.py` (`Decompiler.decompile`,
`Decompiler.__exps_of_section`, `ZB_GATES`).  Import-free apart from `QV/Base`, `QV/Model`,
`QV/Gen`.

* `isinstance(g, C)` is decided through the class table `Gen.gateAncestors` (every class of
  `gates.py` with its chain of base classes) and `Gen.zbGates` (the names listed in `ZB_GATES`),
  both regenerated from the source on every run.
* sympy's `Not/And/Xor` constructors are a parameter `K : Kernel` (only their meaning is
  used); `rawKernel` are the raw `BExp` constructors.
* the Python dict `exps` (insertion ordered, keyed by `Symbol(name)`) is an association list.
* quirks: `identityGateRaises` (on = the code as it is: `gates.I` passes the `ZB_GATES` test
  and then hits the `raise` of `__exps_of_section`), `mctrlXSplits` (on = the code as it is:
  `MCtrl(X(), n)` is not an instance of any `ZB_GATES` class, so it ends a section).
-/
namespace QV.Decompiler
open QV

/-! ## class tests -/

/-- Python class name of a gate object (`type(g).__name__`) -/
def pyClass : GClass → String
  | .I => "I" | .X => "X" | .Y => "Y" | .Z => "Z" | .H => "H" | .S => "S" | .T => "T" | .P => "P"
  | .Swap => "Swap" | .CX => "CX" | .CZ => "CZ" | .CP => "CP" | .CCX => "CCX"
  | .MCX _ => "MCX" | .MCtrl _ _ => "MCtrl" | .Barrier => "Barrier" | .Nop => "NopGate"

/-- the class named `cname` followed by its base classes, from the generated table -/
def ancestorsOf (cname : String) : List String :=
  match Gen.gateAncestors.find? (fun p => p.1 == cname) with
  | some p => p.2
  | none => [cname]

/-- `isinstance(g, gates.<name>)` for an object of the class named `cname` -/
def isInstanceName (cname name : String) : Bool := (ancestorsOf cname).contains name

/-- `any(isinstance(g, zb_g) for zb_g in ZB_GATES)` for an object of the class named `cname` -/
def zbClassName (cname : String) : Bool := Gen.zbGates.any (fun z => isInstanceName cname z)

/-- `any(isinstance(g, zb_g) for zb_g in ZB_GATES)`; the repaired code (`mctrlXSplits` off)
also accepts `MCtrl` objects whose inner gate is an `X` -/
def isZB (q : Quirks) (c : GClass) : Bool :=
  zbClassName (pyClass c) ||
    (!q.mctrlXSplits && match c with | .MCtrl g _ => g == "X" | _ => false)

/-- `issubclass(g.__class__, gates.NopGate)` -/
def isNopClass (c : GClass) : Bool := isInstanceName (pyClass c) "NopGate"

/-! ## `__exps_of_section` -/

/-- the three sympy constructors the symbolic execution uses -/
structure Kernel where
  mkNot : BExp → BExp
  mkAnd : List BExp → BExp
  mkXor : List BExp → BExp

def rawKernel : Kernel := ⟨.not, .and, .xor⟩

/-- what is assumed of sympy's constructors: their meaning -/
structure Kernel.Sound (K : Kernel) : Prop where
  not_eval : ∀ ρ e, (K.mkNot e).eval ρ = !e.eval ρ
  and_eval : ∀ ρ l, (K.mkAnd l).eval ρ = evalAnd ρ l
  xor_eval : ∀ ρ l, (K.mkXor l).eval ρ = evalXor ρ l

/-- name of qubit `i` in the vanilla copy `QCircuit(num_qubits)`: `f"q{i}"` -/
def qname (i : Nat) : String := "q" ++ toString i

abbrev Dict := List (String × BExp)

/-- `exps[k]` (always after `check_or_add`, which would have inserted `k ↦ Symbol(k)`) -/
def Dict.get : Dict → String → BExp
  | [], k => .sym k
  | (k', e) :: d, k => if k' = k then e else Dict.get d k

/-- `if k not in exps: exps[k] = k` -/
def Dict.touch : Dict → String → Dict
  | [], k => [(k, .sym k)]
  | (k', e) :: d, k => if k' = k then (k', e) :: d else (k', e) :: Dict.touch d k

/-- `exps[k] = v` (position of an existing key is kept, a new key goes last) -/
def Dict.set : Dict → String → BExp → Dict
  | [], k, v => [(k, v)]
  | (k', e) :: d, k, v => if k' = k then (k', v) :: d else (k', e) :: Dict.set d k v

/-- the new expression of the target of an X / CX / CCX / MCX gate from the expressions of its
controls and of its target, in the four shapes the code builds -/
def mcxExp (K : Kernel) (cls : GClass) (ce : List BExp) (te : BExp) : BExp :=
  match cls, ce with
  | .X, _ => K.mkNot te
  | .CX, [c] => K.mkXor [c, te]
  | .CCX, [c0, c1] => K.mkXor [K.mkAnd [c0, c1], te]
  | _, ce => K.mkXor [K.mkAnd ce, te]

def notHandled (c : GClass) : String := "Gate not handled for decompilation: " ++ c.name

/-- one iteration of `for g, w, p in section` -/
def gateStep (q : Quirks) (K : Kernel) (n : Nat) (d : Dict) (g : AGate) : Except String Dict :=
  -- check_or_add: qc.get_key_by_index raises for an index that is not in the qubit map
  match g.wires.find? (fun i => decide (n ≤ i)) with
  | some i => .error ("Qubit with index " ++ toString i ++ " not found")
  | none =>
    -- gates.apply guarantees len(wires) == n_qubits for circuits built with QCircuit.append;
    -- other gate tuples are outside the model
    if g.wires.length != g.cls.nQubits then .error "malformed gate tuple" else
    let wn := g.wires.map qname
    let d := wn.foldl Dict.touch d
    let upd : Except String Dict :=
      match wn.getLast? with
      | none => .ok d
      | some t => .ok (d.set t (mcxExp K g.cls (wn.dropLast.map d.get) (d.get t)))
    match g.cls with
    | .X | .CX | .CCX | .MCX _ => upd
    | .Barrier | .Nop => .ok d
    | .I => if q.identityGateRaises then .error (notHandled g.cls) else .ok d
    | .MCtrl inner _ =>
      if inner == "X" && !q.mctrlXSplits then upd else .error (notHandled g.cls)
    | _ => .error (notHandled g.cls)

def runSection (q : Quirks) (K : Kernel) (n : Nat) : Dict → List AGate → Except String Dict
  | d, [] => .ok d
  | d, g :: gs =>
    match gateStep q K n d g with
    | .ok d' => runSection q K n d' gs
    | .error e => .error e

/-- `filter(lambda e: e[0] != e[1], exps.items())` -/
def dropIdentities (d : Dict) : Dict := d.filter (fun p => !(p.2 == BExp.sym p.1))

def expsOfSection (q : Quirks) (K : Kernel) (n : Nat) (sec : List AGate) : Except String Dict :=
  match runSection q K n [] sec with
  | .ok d => .ok (dropIdentities d)
  | .error e => .error e

/-- the expression reported for qubit `i`, the symbol itself when none is reported -/
def expOf (exps : Dict) (i : Nat) : BExp := exps.get (qname i)

/-! ## `decompile` -/

structure Section where
  gates : List AGate
  exps : Dict
  start : Nat
  stop : Nat

/-- The loop `for g, w, p in qc.gates + [(None, [0], None)]` from position `i` on.
`prev` is `qc.gates[i - 1]` (read by the code only when the current section is not empty, hence
`i ≥ 1`), `cur` is `current_section`, `start` is `current_section_start_index`.
The sections found from here on are returned in order (the code appends them to `results`;
an exception of `__exps_of_section` discards everything). -/
def go (q : Quirks) (K : Kernel) (n : Nat) :
    Nat → Option AGate → List AGate → Option Nat → List AGate → Except String (List Section)
  | i, prev, cur, start, [] =>
    -- the sentinel `(None, [0], None)`: not a ZB gate, not a nop
    if cur.isEmpty then .ok []
    else
      let stop := if (prev.map (fun p => isNopClass p.cls)).getD false then i - 1 else i
      match expsOfSection q K n cur with
      | .ok e => .ok [⟨cur, e, start.getD 0, stop⟩]
      | .error e => .error e
  | i, prev, cur, start, g :: rest =>
    if isZB q g.cls then
      go q K n (i + 1) (some g) (cur ++ [g]) (some (start.getD i)) rest
    else if isNopClass g.cls then
      go q K n (i + 1) (some g) cur start rest
    else if cur.isEmpty then
      go q K n (i + 1) (some g) [] start rest
    else
      let stop := if (prev.map (fun p => isNopClass p.cls)).getD false then i - 1 else i
      match expsOfSection q K n cur with
      | .ok e =>
        match go q K n (i + 1) (some g) [] none rest with
        | .ok r => .ok (⟨cur, e, start.getD 0, stop⟩ :: r)
        | .error e => .error e
      | .error e => .error e

/-- `Decompiler().decompile(qc)` for a circuit with `n` qubits and gate list `gs` -/
def decompile (q : Quirks) (K : Kernel) (n : Nat) (gs : List AGate) : Except String (List Section) :=
  go q K n 0 none [] none gs

/-- the message of a raised exception -/
def errMsg {α : Type} : Except String α → Option String
  | .error e => some e
  | .ok _ => none

/-- inputs on which the code as it is departs from the repaired code -/
def triggers (q : Quirks) (gs : List AGate) : Bool :=
  gs.any (fun g =>
    (q.identityGateRaises && g.cls == .I) ||
    (q.mctrlXSplits && match g.cls with | .MCtrl inner _ => inner == "X" | _ => false))

end QV.Decompiler
