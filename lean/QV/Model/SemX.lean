import QV.Model.Sem
/-!
# `Sem`: the exact python meaning of the bool / Qint fragment, with the claim it supports

Second reference semantics of C01 (specification side), next to the fixed-width `SemW` of
`QV/Model/Sem.lean`.  A value is a python `bool`, or an **unbounded python `int`** together with the
width `w` of the library type the typing rules give it (the same rules as `SemW`; the value is *not*
reduced).  Every value also carries how much of it the fixed-width translation can be expected to
reproduce (`k`, exactly the bookkeeping of the independent python oracle `harness/pysem.py`):

* `k = none` – **in range**: no intermediate value that flowed into this one left the range
  `0 ≤ x < 2^w` of its type; the translation must give exactly this value;
* `k = some n` – only the low `n` bits are determined by wrap-around arithmetic (the value was
  reached through `+ - * << & | ^ ~`, constants and if-expressions with exact tests after some
  intermediate left its range); `some 0` = nothing is claimed (a comparison, `>>`, `%` read a
  wrapped value).

`inRange` is the decidable predicate "`Sem` is defined and `k = none`".  Theorems
(`QV/Props/C01.lean`): `semW_eq_sem` (`inRange → SemW = Sem`), `semW_low_bits` (the low `k` bits).

`& | ^` on python ints are two's-complement operations on unbounded integers: `intBitwise` computes
them on `N` bits, `N` beyond the magnitude of both operands (and of the result width), and decodes the
sign; the result does not depend on `N` once it is that large.  (That this is CPython's operator is
checked on every run against the python oracle, not proved.)

Mathlib-free (links into `qvdriver`, op `c01.semw`).
-/
namespace QV.Sem
open QV QV.Front

/-- exact values: a python bool, or the python int `x` at the library type `Qint[w]` -/
inductive EVal where
  | bool (b : Bool)
  | int (w : Nat) (x : Int)
  deriving Repr, DecidableEq, Inhabited

/-- an exact value with the number of low bits the fixed-width translation determines
(`none` = all of it: in range) -/
structure XVal where
  v : EVal
  k : Option Nat
  deriving Repr, DecidableEq, Inhabited

abbrev XEnv := String → Option XVal

/-- minimum of two determinacies (`none` = exact = infinity) -/
def kmin : Option Nat → Option Nat → Option Nat
  | none, b => b
  | a, none => a
  | some a, some b => some (min a b)

/-- `0 ≤ x < 2^w` -/
def fits (w : Nat) (x : Int) : Bool := decide (0 ≤ x) && decide (x < (2 : Int) ^ w)

/-- result of an operation that is a ring homomorphism on the low bits (`+ - * << & | ^ ~`) -/
def mkInt (w : Nat) (x : Int) (kk : Option Nat) : XVal :=
  match kk with
  | none => if fits w x then ⟨.int w x, none⟩ else ⟨.int w x, some w⟩
  | some k => ⟨.int w x, some (min k w)⟩

/-- result of an operation that reads whole values (`>>`, `%`): exact iff every operand is -/
def mkOpen (w : Nat) (x : Int) (kk : Option Nat) : XVal :=
  match kk with
  | none => if fits w x then ⟨.int w x, none⟩ else ⟨.int w x, some 0⟩
  | some _ => ⟨.int w x, some 0⟩

/-- a bool computed from whole values: exact iff every operand is, else nothing is claimed -/
def mkBool (b : Bool) (kk : Option Nat) : XVal :=
  match kk with
  | none => ⟨.bool b, none⟩
  | some _ => ⟨.bool b, some 0⟩

/-- number of bits on which `& | ^` are computed: beyond both operands and the result width -/
def bitwiseWidth (w : Nat) (x y : Int) : Nat := max w (max x.natAbs.log2 y.natAbs.log2) + 2

/-- python `& | ^` on unbounded ints: two's complement on `N = bitwiseWidth` bits, sign decoded -/
def intBitwise (f : Bool → Bool → Bool) (w : Nat) (x y : Int) : Int :=
  let N := bitwiseWidth w x y
  let r := natBitwise f N (x % (2 : Int) ^ N).toNat (y % (2 : Int) ^ N).toNat
  if r < 2 ^ (N - 1) then (r : Int) else (r : Int) - (2 : Int) ^ N

def cmpInt : String → Int → Int → Option Bool
  | "Eq", a, b => some (decide (a = b))
  | "NotEq", a, b => some (decide (a ≠ b))
  | "Lt", a, b => some (decide (a < b))
  | "LtE", a, b => some (decide (a ≤ b))
  | "Gt", a, b => some (decide (a > b))
  | "GtE", a, b => some (decide (a ≥ b))
  | _, _, _ => none

/-- `& | ^` on bools -/
def boolBinX (op : String) (a b : Bool) (kk : Option Nat) : Option XVal :=
  match op with
  | "xor" => some (mkBool (Bool.xor a b) kk)
  | "and" => some (mkBool (a && b) kk)
  | "or" => some (mkBool (a || b) kk)
  | _ => none

/-- python arithmetic on the exact values `x : Qint[wl]`, `y : Qint[wr]` (no reduction) -/
def intBinX (op : String) (wl wr : Nat) (x y : Int) (kk : Option Nat) : Option XVal :=
  let w := max wl wr
  match op with
  | "add" => some (mkInt w (x + y) kk)
  | "sub" => some (mkInt w (x - y) kk)
  | "mul" => some (mkInt (mulWidth (w + w)) (x * y) kk)
  | "mod" => if y = 0 then none else some (mkOpen w (x.fmod y) kk)   -- python `%`: sign of the divisor
  | "xor" => some (mkInt w (intBitwise Bool.xor w x y) kk)
  | "and" => some (mkInt w (intBitwise (· && ·) w x y) kk)
  | "or" => some (mkInt w (intBitwise (· || ·) w x y) kk)
  | _ => none

/-- `and` / `or`: python evaluates left to right and stops at the deciding operand; only the operands
evaluated count for the determinacy -/
def boolFoldX (isAnd : Bool) : List XVal → Option (Bool × Option Nat)
  | [] => none
  | [⟨.bool b, k⟩] => some (b, k)
  | ⟨.bool b, k⟩ :: xs =>
    match boolFoldX isAnd xs with
    | none => none
    | some (r, k') => if b != isAnd then some (b, k) else some (r, kmin k k')
  | _ => none

mutual
/-- the exact python meaning of an expression under the variable environment `σ` -/
def sem (σ : XEnv) : PExp → Option XVal
  | .name n => σ n
  | .cbool b => some ⟨.bool b, none⟩
  | .cint v =>
    match constWidth v with
    | some w => some ⟨.int w v, if 0 ≤ v then none else some w⟩
    | none => none
  | .not e =>
    match sem σ e with
    | some ⟨.bool b, k⟩ => some ⟨.bool (!b), k⟩
    | _ => none
  | .inv e =>
    match sem σ e with
    | some ⟨.int w x, k⟩ => some (mkInt w (-x - 1) k)
    | _ => none
  | .boolop isAnd vs =>
    match semList σ vs with
    | some xs => (boolFoldX isAnd xs).map fun (r, kk) => mkBool r kk
    | none => none
  | .ite c t e =>
    match sem σ c, sem σ t, sem σ e with
    | some ⟨.bool cb, kc⟩, some ⟨.bool x, kx⟩, some ⟨.bool y, ky⟩ =>
      some ⟨.bool (if cb then x else y), match kc with | none => (if cb then kx else ky) | some _ => some 0⟩
    | some ⟨.bool cb, kc⟩, some ⟨.int a x, kx⟩, some ⟨.int b y, ky⟩ =>
      some ⟨.int (max a b) (if cb then x else y), match kc with | none => (if cb then kx else ky) | some _ => some 0⟩
    | _, _, _ => none
  | .cmp op l r =>
    match sem σ l, sem σ r with
    | some ⟨.bool x, kx⟩, some ⟨.bool y, ky⟩ => (cmpBool op x y).map fun b => mkBool b (kmin kx ky)
    | some ⟨.int _ x, kx⟩, some ⟨.int _ y, ky⟩ => (cmpInt op x y).map fun b => mkBool b (kmin kx ky)
    | _, _ => none
  | .bin op l r =>
    match sem σ l with
    | some ⟨.bool x, kx⟩ =>
      match sem σ r with
      | some ⟨.bool y, ky⟩ => boolBinX op x y (kmin kx ky)
      | _ => none
    | some ⟨.int wl x, kx⟩ =>
      if op == "lshift" || op == "rshift" then
        match r with
        | .cint k =>
          if k < 0 then none
          else if op == "lshift" then some (mkInt wl (x * (2 : Int) ^ k.toNat) kx)
          else some (mkOpen wl (x.fdiv ((2 : Int) ^ k.toNat)) kx)    -- python `>>` floors
        | _ => none
      else
        match sem σ r with
        | some ⟨.int wr y, ky⟩ => intBinX op wl wr x y (kmin kx ky)
        | _ => none
    | none => none
  | .subs _ _ => none
  | .cchar _ => none
  | .tuple _ => none
  | .unsupported _ => none
def semList (σ : XEnv) : List PExp → Option (List XVal)
  | [] => some []
  | e :: es =>
    match sem σ e, semList σ es with
    | some x, some xs => some (x :: xs)
    | _, _ => none
end

/-- `inRange`: `Sem` is defined and no intermediate value that flowed into the result left the
range of its type -/
def inRange (σ : XEnv) (e : PExp) : Bool :=
  match sem σ e with
  | some ⟨_, none⟩ => true
  | _ => false

/-- the `return` statement: the python value is unchanged; filling keeps the claim, cropping to `b`
bits claims at most the low `b` bits unless the value fits -/
def coerceRetX (ret : Ty) : XVal → Option XVal
  | ⟨.bool b, k⟩ => match ret with
    | .bool => some ⟨.bool b, k⟩
    | _ => none
  | ⟨.int a x, k⟩ => match ret with
    | .qint b => if a ≤ b then some ⟨.int b x, k⟩ else some (mkInt b x k)
    | _ => none

def XEnv.set (σ : XEnv) (n : String) (v : XVal) : XEnv := fun m => if m == n then some v else σ m

/-- straight-line body, as `semBody` -/
def semBodyX (ret : Ty) : XEnv → List Stmt → Option XVal
  | _, [] => none
  | σ, .assign t e :: ss =>
    match sem σ e with
    | some v => semBodyX ret (σ.set t v) ss
    | none => none
  | σ, .ret e :: _ =>
    match sem σ e with
    | some v => coerceRetX ret v
    | none => none
  | σ, .expr _ :: ss => semBodyX ret σ ss
  | _, .unsupported _ :: _ => none

/-- the arguments decoded from their bits: exact and in range by construction -/
def argsEnvX (args : List (String × Ty)) (ρ : String → Bool) : XEnv := fun n =>
  match args.find? (·.1 == n) with
  | some (_, .bool) => some ⟨.bool (ρ n), none⟩
  | some (_, .qint w) => some ⟨.int w (valLE ((Ty.names n (.qint w)).map ρ) : Nat), none⟩
  | _ => none

/-- `Sem` of a program on an assignment of its argument bits -/
def semProgX (p : Prog) (ρ : String → Bool) : Option XVal :=
  semBodyX p.ret (argsEnvX p.args ρ) p.body

/-- `inRange` for a program on an assignment of its argument bits -/
def inRangeProg (p : Prog) (ρ : String → Bool) : Bool :=
  match semProgX p ρ with
  | some ⟨_, none⟩ => true
  | _ => false

/-- number of low bits claimed of a value of width `w` -/
def claimWidth (w : Nat) : Option Nat → Nat
  | none => w
  | some j => min j w

/-- what the property claims of the return bits: for every bit of the declared type (in the order of
the return symbols) the bit the python value has, or `none` where nothing is claimed (beyond the low
`k` bits of a value that left its range) -/
def XVal.claim : XVal → List (Option Bool)
  | ⟨.bool b, k⟩ => [match k with | none => some b | some _ => none]
  | ⟨.int w x, k⟩ =>
    (toBitsLE (claimWidth w k) (x % (2 : Int) ^ claimWidth w k).toNat).map some
      ++ List.replicate (w - claimWidth w k) none

end QV.Sem
