import QV.Base.Quirks
/-!
# Circuits: gates, applied gates, classical semantics

Model of `qlasskit/qcircuit/gates.py` and the data part of `qcircuit.py`.  A gate *object*
(`X()`, `MCX(3)` …) is identified by `gid` (Python object identity matters for
`remove_identities`, which compares `(gate, wires, param)` tuples: gates by identity).
-/
namespace QV

/-- Python class of the gate object -/
inductive GClass where
  | I | X | Y | Z | H | S | T | P | Swap | CX | CZ | CP | CCX
  | MCX (n : Nat)
  | MCtrl (inner : String) (n : Nat)   -- `MCtrl(g, n)`: inner gate name, number of controls
  | Barrier
  | Nop
  deriving DecidableEq, Repr, Inhabited

/-- gate parameter: none, a literal (text of the Python value), or the QFT phase `±2π/2^k` -/
inductive Param where
  | none
  | lit (s : String)
  | qft (neg : Bool) (k : Nat)
  deriving DecidableEq, Repr, Inhabited

structure AGate where
  cls : GClass
  wires : List Nat
  param : Param := .none
  gid : Nat := 0
  deriving DecidableEq, Repr, Inhabited

/-- `QGate.name` -/
def GClass.name : GClass → String
  | .I => "I" | .X => "X" | .Y => "Y" | .Z => "Z" | .H => "H" | .S => "S" | .T => "T" | .P => "P"
  | .Swap => "SWAP" | .CX => "CX" | .CZ => "CZ" | .CP => "CP" | .CCX => "CCX"
  | .MCX n => String.ofList (List.replicate n 'C') ++ "X"
  | .MCtrl g n => String.ofList (List.replicate n 'C') ++ g
  | .Barrier => "_barrier"
  | .Nop => "nop"

/-- `QGate.n_qubits` (inner gates of `MCtrl` are single-qubit in every use of the library) -/
def GClass.nQubits : GClass → Nat
  | .Swap | .CX | .CZ | .CP => 2
  | .CCX => 3
  | .MCX n => n + 1
  | .MCtrl _ n => n + 1
  | .Barrier | .Nop => 0
  | _ => 1

def GClass.isNop : GClass → Bool
  | .Barrier | .Nop => true
  | _ => false

/-- gates whose action on basis states is "flip the last wire iff all other wires are 1" -/
def GClass.isMCXLike : GClass → Bool
  | .X | .CX | .CCX | .MCX _ => true
  | .MCtrl g _ => g == "X"
  | _ => false

/-- `_is_self_inverse(g)` of `qcircuitenhanced.py`: applying the gate twice is the identity -/
def GClass.isSelfInverse : GClass → Bool
  | .I | .X | .Y | .Z | .H | .Swap | .CX | .CZ | .CCX | .MCX _ | .Barrier | .Nop => true
  | .MCtrl g _ => g == "I" || g == "X" || g == "Y" || g == "Z" || g == "H" || g == "SWAP"
  | .S | .T | .P | .CP => false

abbrev BState := List Bool

def BState.flip (s : BState) (i : Nat) : BState := s.modify i (fun b => !b)

/-- classical action of an X/CX/CCX/MCX gate: controls = all wires but the last -/
def AGate.applyClassical (g : AGate) (s : BState) : BState :=
  match g.wires.getLast? with
  | none => s
  | some t =>
    if g.wires.dropLast.all (fun c => s.getD c false) then s.flip t else s

/-- run the X/CX/MCX-like gates of a list, skipping nop gates; other gates are not classical
and make the result meaningless (callers check `allClassical`) -/
def runClassical (gs : List AGate) (s : BState) : BState :=
  gs.foldl (fun s g => if g.cls.isMCXLike then g.applyClassical s else s) s

def allClassical (gs : List AGate) : Bool :=
  gs.all (fun g => g.cls.isMCXLike || g.cls.isNop)

/-- `QCircuit.append` checks: `x > num_qubits` (sic, so index == num_qubits passes), duplicates,
`len(qubits) == gate.n_qubits` -/
def appendError (numQubits : Nat) (g : AGate) : Option String :=
  if g.wires.any (· > numQubits) then some "qubit not present"
  else if !g.wires.Nodup then some "duplicate qubit in gate append"
  else if g.wires.length != g.cls.nQubits then some "expected n qubits"
  else none

end QV
