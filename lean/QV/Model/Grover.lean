import QV.Base.Quirks
import QV.Model.Circuit
import QV.Model.Types
import QV.Base.BExp
/-!
# Grover search: constructor gate list, default iteration count, reduced amplitude model

Model of `qlasskit/algorithms/grover.py:Grover.__init__` (+ `output_qubits`, `decode_output`)
and of the part of `qlasskit/qcircuit/qcircuit.py` it uses (`h`, `x`, `mctrl`, `add_qubit`,
`__add__`, `repeat`, `__iadd__`/`append_circuit`).

The compiled oracle is an *input* of the model: its gate list `og`, its number of qubits `nq`
(before `Grover` adds `_ret_phased`) and the index `ret` of its `_ret` qubit.  (Whether that
circuit is a clean xor-oracle of the predicate is C02/C03/C06's business.)
-/
namespace QV.Grover
open QV

/-! ## 1. The constructor's gate list -/

def gH (i : Nat) : AGate := { cls := .H, wires := [i] }
def gX (i : Nat) : AGate := { cls := .X, wires := [i] }

/-- `qc.mctrl(gates.Z(), ctrls, target)` = `append(MCtrl(Z, len(ctrls)), ctrls + [target])` -/
def gMCZ (ctrls : List Nat) (t : Nat) : AGate :=
  { cls := .MCtrl "Z" ctrls.length, wires := ctrls ++ [t] }

/-- `for i in range(n): qc.h(i)` -/
def hLayer (n : Nat) : List AGate := (List.range n).map gH

/-- `oracle_qc` after `add_qubit("_ret_phased")` (index `p = nq`) and
`mctrl(Z, [oracle_qc["_ret"]], oracle_qc["_ret_phased"])` -/
def oracleWithPhase (og : List AGate) (ret p : Nat) : List AGate := og ++ [gMCZ [ret] p]

/-- `diffuser_qc`: `H X` on the `n` search qubits and on the phase qubit `p`, `MCtrl(Z)` from the
search qubits onto `p`, `X H` on all of them again -/
def diffuser (n p : Nat) : List AGate :=
  (List.range n).flatMap (fun i => [gH i, gX i]) ++ [gH p, gX p]
    ++ [gMCZ (List.range n) p]
    ++ (List.range n).flatMap (fun i => [gX i, gH i]) ++ [gX p, gH p]

/-- number of copies `QCircuit.repeat(k)` produces: `n_qc = copy; for i in range(k-1): n_qc += copy`,
i.e. one copy also for `k = 0` as the code stands (quirk `repeatZero`, listed under C14; off = the
repaired `repeat`).  The default iteration count is never 0. -/
def repeatCopies (q : Quirks) (k : Nat) : Nat :=
  if k = 0 then (if q.repeatZero then 1 else 0) else k

/-- gate list of `l.repeat(k)` (gate objects are deep-copied; identity is not modelled here) -/
def repeatGates (l : List AGate) : Nat → List AGate
  | 0 => []
  | c + 1 => l ++ repeatGates l c

/-- one Grover iteration `oracle_qc + diffuser_qc` -/
def iteration (n : Nat) (og : List AGate) (nq ret : Nat) : List AGate :=
  oracleWithPhase og ret nq ++ diffuser n nq

/-- `Grover(...).circuit().gates`: H layer on the search register, the added qubits, `H` on
`_ret_phased` (index `nq`), then `(oracle_qc + diffuser_qc).repeat(k)` -/
def groverGates (q : Quirks) (n : Nat) (og : List AGate) (nq ret k : Nat) : List AGate :=
  hLayer n ++ [gH nq] ++ repeatGates (iteration n og nq ret) (repeatCopies q k)

/-- number of qubits of the algorithm circuit: `n` plus `oracle_qc.num_qubits - n` added ones
(`range` of a negative number is empty) -/
def groverNumQubits (n nq : Nat) : Nat := n + ((nq + 1) - n)

/-- `Grover.output_qubits` -/
def outputQubits (n : Nat) : List Nat := List.range n

/-- `Grover.decode_output(istr)` = `interpret_as_qtype(istr, argtype, len(arg))` -/
def decodeOutput (t : Types.QTy) (out : List Bool) : Types.QVal :=
  Types.interpretAsQtype out t (some t.size)

/-! ## 2. Default iteration count `ceil(pi/4 * sqrt(2**n / M))`

`k ≥ π/4·√(N/M)  ⇔  16·k²·M ≥ π²·N`.  With a rational `pn/pd` in place of π this is the decidable
`kOk`; the default count is the least such `k`.  `piLo < π < piHi` (six decimals); wherever both
bounds give the same `k` (theorem `QV.C15.kdefault_table`: the whole table) that `k` is
`⌈π/4·√(N/M)⌉` for the real π. -/

def piLo : Nat × Nat := (3141592, 1000000)
def piHi : Nat × Nat := (3141593, 1000000)

def kOk (p : Nat × Nat) (n M k : Nat) : Bool :=
  decide (p.1 * p.1 * 2 ^ n ≤ 16 * k * k * M * p.2 * p.2)

def kSearch (p : Nat × Nat) (n M : Nat) : Nat → Nat → Nat
  | 0, k => k
  | fuel + 1, k => if kOk p n M k then k else kSearch p n M fuel (k + 1)

/-- least `k ≤ 2^n + 1` with `kOk`; `none` for `M = 0` (Python: ZeroDivisionError) -/
def kDefaultWith (p : Nat × Nat) (n M : Nat) : Option Nat :=
  if M = 0 then none else some (kSearch p n M (2 ^ n + 1) 0)

def kDefault (n M : Nat) : Option Nat := kDefaultWith piHi n M

/-! ## 3. Reduced amplitude model

Phase qubit in the basis |±⟩.  The state is uniform on solutions and on non-solutions in each of
the four (`_ret`, ±) sectors: amplitude of |x⟩|r⟩|±⟩ is `a/(N^j·√N)` for a solution `x` and
`b/(N^j·√N)` for a non-solution, `j` = number of iterations done.  Integer numerators only. -/

/-- numerators of one class (solutions or non-solutions): sectors (ret=0,+) (ret=0,−) (ret=1,+) (ret=1,−) -/
structure Amp where
  zp : Int
  zm : Int
  op : Int
  om : Int
  deriving DecidableEq, Repr, Inhabited

structure RState where
  sol : Amp
  non : Amp
  deriving DecidableEq, Repr, Inhabited

/-- after the H layers: everything in sector (ret = 0, +) with amplitude 1/√N -/
def RState.init : RState := ⟨⟨1, 0, 0, 0⟩, ⟨1, 0, 0, 0⟩⟩

def Amp.sq (a : Amp) : Int := a.zp * a.zp + a.zm * a.zm + a.op * a.op + a.om * a.om

/-- xor-oracle: `_ret ^= f(x)` — swaps the `ret = 0/1` sectors on solutions only -/
def oracleStep (s : RState) : RState :=
  { s with sol := ⟨s.sol.op, s.sol.om, s.sol.zp, s.sol.zm⟩ }

/-- `MCtrl(Z)` from `_ret` onto the phase qubit: swaps |+⟩ and |−⟩ where `_ret = 1` -/
def phaseStep (s : RState) : RState :=
  ⟨⟨s.sol.zp, s.sol.zm, s.sol.om, s.sol.op⟩, ⟨s.non.zp, s.non.zm, s.non.om, s.non.op⟩⟩

/-- diffuser = `I − 2|u⟩⟨u|`, `|u⟩ = |s⟩|+⟩`, acting per `_ret` sector: on the two `+` sectors
subtract twice the mean `(M·a + (N−M)·b)/N`; the common denominator grows by a factor `N` -/
def diffuseStep (N M : Int) (s : RState) : RState :=
  let tz := M * s.sol.zp + (N - M) * s.non.zp
  let to := M * s.sol.op + (N - M) * s.non.op
  ⟨⟨N * s.sol.zp - 2 * tz, N * s.sol.zm, N * s.sol.op - 2 * to, N * s.sol.om⟩,
   ⟨N * s.non.zp - 2 * tz, N * s.non.zm, N * s.non.op - 2 * to, N * s.non.om⟩⟩

def rstep (N M : Int) (s : RState) : RState := diffuseStep N M (phaseStep (oracleStep s))

def riter (N M : Int) : Nat → RState → RState
  | 0, s => s
  | k + 1, s => riter N M k (rstep N M s)

/-- weighted squared norm `M·Σa² + (N−M)·Σb²` (total probability × denominator) -/
def RState.norm (N M : Int) (s : RState) : Int := M * s.sol.sq + (N - M) * s.non.sq

/-- prediction after `k` iterations on `n` search bits with `M` solutions:
`(numerator of P(one solution), numerator of P(one non-solution), common denominator N^(2k+1))` -/
def predict (n M k : Nat) : Int × Int × Int :=
  let N : Int := 2 ^ n
  let s := riter N M k RState.init
  (s.sol.sq, s.non.sq, N ^ (2 * k + 1))

/-- the (n, M) table of the property: 2 ≤ n ≤ 6, 1 ≤ M ≤ 2^n/4 -/
def table : List (Nat × Nat) :=
  (List.range 5).flatMap fun i => (List.range (2 ^ (i + 2) / 4)).map fun m => (i + 2, m + 1)

/-- the three claims for one table entry with `k` iterations:
success probability above one half, every solution more likely than every non-solution,
total probability one -/
def entryOk (n M k : Nat) : Bool :=
  let (ps, pn, d) := predict n M k
  let N : Int := 2 ^ n
  decide (d < 2 * (M * ps)) && decide (pn < ps) && decide (M * ps + (N - M) * pn = d)

/-! ## 4. Exact amplitude semantics of H / X-like / Z-like gate lists (specification level)

Every gate used by the constructor is `1/√2 ·` an integer matrix (H) or a signed permutation
(X, CX, MCX, Z, MCtrl Z).  A state is therefore `(1/√2)^h ·` an integer-valued function on basis
states, `h` = number of H gates applied.  This is the textbook action of the gates (trusted
base); it is what `C15_statement` is stated over.  Exponential – not used by the driver. -/

abbrev Wave := BState → Int

def isZLike : GClass → Bool
  | .Z | .CZ => true
  | .MCtrl g _ => g == "Z"
  | _ => false

def applyWave (g : AGate) (ψ : Wave) : Wave :=
  if g.cls.isMCXLike then fun s => ψ (g.applyClassical s)          -- involution on basis states
  else if isZLike g.cls then fun s => if g.wires.all (fun c => s.getD c false) then - ψ s else ψ s
  else match g.cls, g.wires with
    | .H, [t] => fun s => ψ (s.set t false) + (if s.getD t false then -1 else 1) * ψ (s.set t true)
    | _, _ => ψ

def runWave (gs : List AGate) (ψ : Wave) : Wave := gs.foldl (fun ψ g => applyWave g ψ) ψ

def hCount (gs : List AGate) : Nat := gs.countP (fun g => g.cls == .H)

/-- |0…0⟩ -/
def zeroWave : Wave := fun s => if s.all (fun b => !b) then 1 else 0

def allStates : Nat → List BState
  | 0 => [[]]
  | L + 1 => (allStates L).flatMap fun s => [false :: s, true :: s]

/-- numerator of the probability of reading `x` on qubits `0..n-1` after running `gs` on `L`
qubits from |0…0⟩; the denominator is `2 ^ hCount gs` -/
def probNum (gs : List AGate) (L n : Nat) (x : BState) : Int :=
  ((allStates (L - n)).map fun rest => (runWave gs zeroWave (x ++ rest)) ^ 2).sum

/-- basis state of `nq` qubits: search register `x`, `_ret = r` at index `ret`, everything else 0 -/
def oracleState (nq ret : Nat) (x : BState) (r : Bool) : BState :=
  ((x ++ List.replicate (nq - x.length) false).set ret r)

/-- `og` is a clean xor-oracle of the predicate `f` on `n` search bits: classical gates inside
`nq` qubits, each on distinct wires (what `QCircuit.append` admits: it raises on a duplicate
qubit – without this a "gate" like `CX [3, 3]` is not a permutation of basis states and
`applyWave` would not be its action), `_ret ^= f x`, search register and scratch qubits restored -/
def CleanXorOracle (n nq ret : Nat) (og : List AGate) (f : BState → Bool) : Prop :=
  n ≤ ret ∧ ret < nq ∧ allClassical og = true ∧ (∀ g ∈ og, ∀ w ∈ g.wires, w < nq) ∧
  (∀ g ∈ og, g.wires.Nodup) ∧
  ∀ x : BState, x.length = n → ∀ r : Bool,
    runClassical og (oracleState nq ret x r) = oracleState nq ret x (xor r (f x))

/-! ## 5. Quirk-model of the one optimizer step through which a listed defect reaches Grover

`qlasskit/boolopt/exp_transformers.py:transform_or2xor.visit_Or` rewrites
`Or(And(a, b, …), And(¬a, ¬b, …))` to `¬Xor(a, b)` looking only at the **first two** arguments of
each `And` (quirk `or2xorNoArity`; off = the rewrite requires both `And`s to be binary).  A
predicate with two complementary minterms (e.g. `a == 0 or a == 7` on three bits) is thereby
compiled to an oracle marking a *different* solution set, and Grover amplifies that set. -/

/-- sympy `Not(e)`: double negation is removed -/
def negOf : BExp → BExp
  | .not x => x
  | x => .not x

/-- the guard of `visit_Or` -/
def or2xorFires (q : Quirks) : List BExp → Bool
  | [.and (a0 :: a1 :: r0), .and (b0 :: b1 :: r1)] =>
    ((b0 == negOf a0 && b1 == negOf a1) || (negOf b0 == a0 && negOf b1 == a1))
      && (q.or2xorNoArity || (r0.isEmpty && r1.isEmpty))
  | _ => false

mutual
/-- `transform_or2xor().visit(e)` (top-down; the visited `a`, `b` are read off the visited list) -/
def or2xor (q : Quirks) : BExp → BExp
  | .tt => .tt
  | .ff => .ff
  | .sym n => .sym n
  | .not e => .not (or2xor q e)
  | .and l => .and (or2xorList q l)
  | .or l =>
    let l' := or2xorList q l
    if or2xorFires q l then
      match l' with
      | .and (a :: b :: _) :: _ => .not (.xor [a, b])
      | _ => .or l'
    else .or l'
  | .xor l => .xor (or2xorList q l)
  | .ite c t e => .ite (or2xor q c) (or2xor q t) (or2xor q e)
  | .imp a b => .imp (or2xor q a) (or2xor q b)
def or2xorList (q : Quirks) : List BExp → List BExp
  | [] => []
  | e :: es => or2xor q e :: or2xorList q es
end

/-- solution set of a predicate over the argument bits `names` (index bit i = `names[i]`) -/
def solutionsOf (names : List String) (e : BExp) : List Nat :=
  (List.range (2 ^ names.length)).filter fun k => e.eval (assignment names k)

/-- predicted probability `(numerator, denominator)` of reading `x` when the predicate `e`, declared
to have `M` solutions, goes through the `or2xor` step and the result is compiled to a clean
xor-oracle: the recurrence runs with the solution set of the *rewritten* predicate -/
def predicateDist (q : Quirks) (names : List String) (e : BExp) (M x : Nat) : Option (Int × Int) :=
  let S' := solutionsOf names (or2xor q e)
  (kDefault names.length M).map fun k =>
    let pr := predict names.length S'.length k
    (if S'.contains x then pr.1 else pr.2.1, pr.2.2)

end QV.Grover
