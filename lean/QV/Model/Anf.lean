import QV.Model.Tools
/-!
# The algebraic normal form py2bexp prints: `qlasskit/tools/py2bexp.py::to_anf`

```
variables = sorted(expr.free_symbols, key=str)
values = [int(bool(v)) for _, v in truth_table(expr, variables)]
return ANFform(variables, values)
```

* `truth_table(expr, variables)` walks `product((0, 1), repeat=n)`: the **first** variable is the
  most significant bit of the row number (`[1, 0]` is row 2 of `[a, b]`);
* `ANFform` calls `anf_coeffs(values)` — `n` rounds of the butterfly
  `tmp.append(coeffs[2*j] + map(xor, coeffs[2*j], coeffs[2*j+1]))` over a list of blocks that starts
  as the singletons of the table — keeps the monomials `product((0, 1), repeat=n)[i]` whose
  coefficient is 1, turns each into `And(*[variables[k] for k with bit 1])` (`true` for the empty
  one) and returns `Xor(*monomials, remove_true=False)`.

Everything here is a definite algorithm: nothing is a parameter.  Mathlib-free.
-/
namespace QV.Anf
open QV QV.Tools

/-- `expr.xreplace({v: b})` seen on environments -/
def upd (ρ : Env) (v : String) (b : Bool) : Env := fun x => if x == v then b else ρ x

/-- `sorted(expr.free_symbols, key=str)`: the set of free symbols, by name (code-point order) -/
def vars (e : BExp) : List String := (dedupStrings e.syms).mergeSort (fun a b => decide (a ≤ b))

/-- the value column of `truth_table(e, vs)`: rows in the order of `product((0, 1), repeat=n)`,
first variable slowest (most significant) -/
def table (e : BExp) : List String → Env → List Bool
  | [], ρ => [e.eval ρ]
  | v :: vs, ρ => table e vs (upd ρ v false) ++ table e vs (upd ρ v true)

def xorL (a b : List Bool) : List Bool := List.zipWith Bool.xor a b

/-! ## `anf_coeffs` as sympy writes it: rounds over a list of blocks -/

/-- one round: `for j in range(len/2): tmp.append(c[2j] + list(map(xor, c[2j], c[2j+1])))` -/
def round : List (List Bool) → List (List Bool)
  | a :: b :: rest => (a ++ xorL a b) :: round rest
  | _ => []

def rounds : Nat → List (List Bool) → List (List Bool)
  | 0, c => c
  | n + 1, c => rounds n (round c)

/-- `anf_coeffs(truthvalues)` for a table of length `2^n`: `coeffs = [[v] for v in truthvalues]`,
`n` rounds, `coeffs[0]` -/
def anfCoeffs (n : Nat) (t : List Bool) : List Bool := (rounds n (t.map ([·]))).headD []

/-! ## the same transform, by halves (Möbius / Reed–Muller: `f = f0 ⊕ x·(f0 ⊕ f1)`) -/

/-- block `j` of round `i+1` is `block 2j ++ (block 2j xor block 2j+1)` of round `i`: the
transform of a table of length `2^(n+1)` is built from the transforms of its halves -/
def mobius : Nat → List Bool → List Bool
  | 0, t => t
  | n + 1, t =>
    let a := mobius n (t.take (2 ^ n))
    let b := mobius n (t.drop (2 ^ n))
    a ++ xorL a b

/-! ## `ANFform` -/

/-- `product((0, 1), repeat=n)` read as sets of variables, in the same order (entry `i` holds the
variables whose bit is 1 in `i`, first variable most significant); variables keep their order -/
def monos : List String → List (List String)
  | [] => [[]]
  | v :: vs => monos vs ++ (monos vs).map (v :: ·)

/-- `terms`: the monomials whose coefficient is 1, in index order -/
def terms (ms : List (List String)) (cs : List Bool) : List (List String) :=
  ((ms.zip cs).filter (·.2)).map (·.1)

/-- `_convert_to_varsANF`: `true` for no variable, `And(*temp)` otherwise (`And(x)` is `x`) -/
def monoExp : List String → BExp
  | [] => .tt
  | [v] => .sym v
  | vs => .and (vs.map .sym)

/-- `Xor(*monomials, remove_true=False)`: `false` for none, the monomial itself for one -/
def xorExp : List BExp → BExp
  | [] => .ff
  | [m] => m
  | ms => .xor ms

/-- the monomials of the ANF of `e` (variable sets, index order) -/
def anfTerms (e : BExp) : List (List String) :=
  let vs := vars e
  terms (monos vs) (mobius vs.length (table e vs (fun _ => false)))

/-- the same through sympy's rounds -/
def anfTermsButterfly (e : BExp) : List (List String) :=
  let vs := vars e
  terms (monos vs) (anfCoeffs vs.length (table e vs (fun _ => false)))

/-- `to_anf(e)` (arguments of `Xor` in index order; sympy sorts them its own way) -/
def anfOf (e : BExp) : BExp := xorExp ((anfTerms e).map monoExp)

/-- the normal forms of the tool with `to_anf` computed, the other three still parameters -/
def withAnf (nf : NF) : NF := fun f e =>
  match f with
  | .anf => .ok (anfOf e)
  | f => nf f e

end QV.Anf
