import QV.Model.Circuit
/-!
# Exporters (C13)

Model of `qlasskit/qcircuit/exporter_qiskit.py`, `exporter_cirq.py`, `exporter_sympy.py`,
`exporter_qasm.py` and of `QCircuit.get_key_by_index` / `qubit_map`.

What an exporter *does* is a sequence of calls into a third-party library (qiskit, cirq,
sympy.physics.quantum) or a text.  The model's output is exactly that: the call list / the text.
Every call kind has a fixed reading `…​.op` as a controlled base gate on a wire list (`Op`); that
reading is the trusted part (qiskit's `mcx`, cirq's `CNOT`, … mean the textbook gates) and is
validated numerically by the harness (unitary of the exported object against an own simulator).

Texts are `List Char` (`Text`); the driver converts from/to `String` at the boundary.
-/
namespace QV.Export
open QV

abbrev Text := List Char

/-- exact value of a numeric Python object: sign and `abs(p).as_integer_ratio()` -/
structure FVal where
  neg : Bool
  num : Nat
  den : Nat
  deriving DecidableEq, Repr, Inhabited

/-- external: the value of a parameter literal (CPython `float(text)`), supplied by the harness
from `float.as_integer_ratio()`; `none` for non-numeric objects (barrier labels) -/
abbrev FloatOf := String → Option FVal

/-- Python truthiness `if p:` of a gate parameter -/
def truthy (fv : FloatOf) : Param → Bool
  | .none => false
  | .lit s => match fv s with
    | some v => v.num != 0
    | none => s != ""
  | .qft _ _ => true

/-- `if p:` in the exporters (`exportParamTruthy` = code as it is) vs. `if p is not None:` -/
def hasParam (q : Quirks) (fv : FloatOf) (p : Param) : Bool :=
  if q.exportParamTruthy then truthy fv p else p != .none

/-! ## what a gate is: controlled base gate on wires -/

inductive Base where
  | I | X | Y | Z | H | S | T | P | Swap
  deriving DecidableEq, Repr, Inhabited

def Base.arity : Base → Nat
  | .Swap => 2
  | _ => 1

def Base.ofName (s : String) : Option Base :=
  if s = "I" then some .I else if s = "X" then some .X else if s = "Y" then some .Y
  else if s = "Z" then some .Z else if s = "H" then some .H else if s = "S" then some .S
  else if s = "T" then some .T else if s = "P" then some .P else if s = "SWAP" then some .Swap
  else none

/-- base gate and number of controls of a gate class; `none` for nop gates (and for an `MCtrl`
of something that is not one of the library's gates) -/
def kind : GClass → Option (Base × Nat)
  | .I => some (.I, 0) | .X => some (.X, 0) | .Y => some (.Y, 0) | .Z => some (.Z, 0)
  | .H => some (.H, 0) | .S => some (.S, 0) | .T => some (.T, 0) | .P => some (.P, 0)
  | .Swap => some (.Swap, 0)
  | .CX => some (.X, 1) | .CZ => some (.Z, 1) | .CP => some (.P, 1) | .CCX => some (.X, 2)
  | .MCX n => some (.X, n)
  | .MCtrl g n => (Base.ofName g).map (·, n)
  | .Barrier => none
  | .Nop => none

/-- a gate applied to wires: `nctrl` controls (the first wires) on `base`; `param` as passed -/
structure Op where
  base : Base
  nctrl : Nat
  wires : List Nat
  param : Param
  deriving DecidableEq, Repr, Inhabited

def takesParam : Base → Bool
  | .P => true
  | _ => false

/-- the operation a circuit entry denotes (`none`: nop gate) -/
def gateOp (g : AGate) : Option Op :=
  (kind g.cls).map fun (b, n) => { base := b, nctrl := n, wires := g.wires, param := g.param }

/-! ## qiskit -/

inductive QkCall where
  /-- `qc.mcx(w[0:-1], w[-1])` -/
  | mcx (ctrls : List Nat) (tgt : Nat)
  /-- `qc.append(ZGate().control(n), w)` -/
  | appendCZ (n : Nat) (wires : List Nat)
  /-- `qc.barrier(label=p)` -/
  | barrier (label : Param)
  /-- `getattr(qc, name)(p, *w)` (`some p`) or `getattr(qc, name)(*w)` -/
  | meth (name : Text) (p : Option Param) (wires : List Nat)
  deriving DecidableEq, Repr, Inhabited

/-- `g.__class__.__name__.lower()` -/
def pyClassLower : GClass → Text
  | .I => ['i'] | .X => ['x'] | .Y => ['y'] | .Z => ['z'] | .H => ['h'] | .S => ['s'] | .T => ['t']
  | .P => ['p'] | .Swap => ['s','w','a','p'] | .CX => ['c','x'] | .CZ => ['c','z'] | .CP => ['c','p']
  | .CCX => ['c','c','x'] | .MCX _ => ['m','c','x'] | .MCtrl _ _ => ['m','c','t','r','l']
  | .Barrier => ['b','a','r','r','i','e','r'] | .Nop => ['n','o','p','g','a','t','e']

/-- reading of the `QuantumCircuit` methods the exporter can reach through `getattr`:
base gate, number of controls.  Its domain is the model of `hasattr(qc, g_name)` over the
lower-cased class names (validated against the installed qiskit by the harness: `i` is absent). -/
def qiskitMethod (name : Text) : Option (Base × Nat) :=
  if name = ['x'] then some (.X, 0) else if name = ['y'] then some (.Y, 0)
  else if name = ['z'] then some (.Z, 0) else if name = ['h'] then some (.H, 0)
  else if name = ['s'] then some (.S, 0) else if name = ['t'] then some (.T, 0)
  else if name = ['p'] then some (.P, 0) else if name = ['s','w','a','p'] then some (.Swap, 0)
  else if name = ['c','x'] then some (.X, 1) else if name = ['c','z'] then some (.Z, 1)
  else if name = ['c','p'] then some (.P, 1) else if name = ['c','c','x'] then some (.X, 2)
  else none

/-- what a call puts on the circuit (`none`: nothing, or the call raises) -/
def QkCall.op : QkCall → Option Op
  | .mcx cs t => some { base := .X, nctrl := cs.length, wires := cs ++ [t], param := .none }
  | .appendCZ n w => some { base := .Z, nctrl := n, wires := w, param := .none }
  | .barrier _ => none
  | .meth name p w =>
    match qiskitMethod name with
    | none => none
    | some (b, n) =>
      -- positional arguments must fit the method's signature (else TypeError/CircuitError)
      if w.length = n + b.arity ∧ (takesParam b = p.isSome) then
        some { base := b, nctrl := n, wires := w, param := p.getD .none }
      else none

/-- does the call raise inside qiskit (wrong positional arguments) -/
def QkCall.raises : QkCall → Bool
  | .meth name p w => (QkCall.op (.meth name p w)).isNone
  | _ => false

/-- `isinstance(g, MCX) or (isinstance(g, MCtrl) and isinstance(g.gate, X))` -/
def isMCXg : GClass → Bool
  | .MCX _ => true
  | .MCtrl inner _ => inner == "X"
  | _ => false

/-- `isinstance(g, MCtrl) and isinstance(g.gate, Z)` -/
def isMCZg : GClass → Bool
  | .MCtrl inner _ => inner == "Z"
  | _ => false

inductive Step (α : Type) where
  | skip                 -- nothing emitted
  | emit (a : α)
  | fail (msg : String)
  deriving Repr

/-- one iteration of the loop of `QiskitExporter.export` -/
def qiskitStep (q : Quirks) (fv : FloatOf) (gateMode : Bool) (g : AGate) : Step QkCall :=
  if isMCXg g.cls then
    match g.wires.getLast? with
    | none => .fail "IndexError"
    | some t => .emit (.mcx g.wires.dropLast t)
  else if isMCZg g.cls then .emit (.appendCZ (g.wires.length - 1) g.wires)
  else if g.cls = .Barrier ∧ !gateMode then .emit (.barrier g.param)
  else if g.cls.isNop then .skip
  else if (qiskitMethod (pyClassLower g.cls)).isSome then
    let c := QkCall.meth (pyClassLower g.cls) (if hasParam q fv g.param then some g.param else none) g.wires
    if c.raises then .fail "TypeError" else .emit c
  else .fail "unhandled"

def runSteps {α β : Type} (f : α → Step β) : List α → Except String (List β)
  | [] => .ok []
  | a :: as =>
    match f a with
    | .fail m => .error m
    | .skip => runSteps f as
    | .emit b =>
      match runSteps f as with
      | .error m => .error m
      | .ok bs => .ok (b :: bs)

def exportQiskit (q : Quirks) (fv : FloatOf) (gateMode : Bool) (gs : List AGate) :
    Except String (List QkCall) :=
  runSteps (qiskitStep q fv gateMode) gs

/-! ## cirq -/

inductive CqOp where
  /-- `cirq.ControlledGate(sub_gate=cirq.X|cirq.Z, num_controls=n)(*qubits[w])` -/
  | ctrl (sub : Base) (n : Nat) (wires : List Nat)
  /-- `cirq.SWAP(qubits[w0], qubits[w1])` -/
  | swap (a b : Nat)
  /-- `cirq.CZPowGate(exponent=p / math.pi)(qubits[w0], qubits[w1])` -/
  | czpow (p : Param) (a b : Nat)
  /-- `getattr(cirq, name)(*qubits[w])` -/
  | named (name : Text) (wires : List Nat)
  deriving DecidableEq, Repr, Inhabited

/-- `g.__class__.__name__` after `gate_mapping = {"CX": "CNOT", "CCX": "CCNOT"}` -/
def cirqName : GClass → Text
  | .I => ['I'] | .X => ['X'] | .Y => ['Y'] | .Z => ['Z'] | .H => ['H'] | .S => ['S'] | .T => ['T']
  | .P => ['P'] | .Swap => ['S','w','a','p'] | .CX => ['C','N','O','T'] | .CZ => ['C','Z']
  | .CP => ['C','P'] | .CCX => ['C','C','N','O','T'] | .MCX _ => ['M','C','X']
  | .MCtrl _ _ => ['M','C','t','r','l'] | .Barrier => ['B','a','r','r','i','e','r']
  | .Nop => ['N','o','p','G','a','t','e']

/-- reading of the `cirq` attributes the exporter can reach through `getattr`; the domain models
`hasattr(cirq, g_name)` over the class names (validated against the installed cirq) -/
def cirqAttr (name : Text) : Option (Base × Nat) :=
  if name = ['I'] then some (.I, 0) else if name = ['X'] then some (.X, 0)
  else if name = ['Y'] then some (.Y, 0) else if name = ['Z'] then some (.Z, 0)
  else if name = ['H'] then some (.H, 0) else if name = ['S'] then some (.S, 0)
  else if name = ['T'] then some (.T, 0) else if name = ['C','N','O','T'] then some (.X, 1)
  else if name = ['C','Z'] then some (.Z, 1) else if name = ['C','C','N','O','T'] then some (.X, 2)
  else none

def CqOp.op : CqOp → Option Op
  | .ctrl sub n w => some { base := sub, nctrl := n, wires := w, param := .none }
  | .swap a b => some { base := .Swap, nctrl := 0, wires := [a, b], param := .none }
  | .czpow p a b => some { base := .P, nctrl := 1, wires := [a, b], param := p }
  | .named name w =>
    match cirqAttr name with
    | none => none
    | some (b, n) =>
      if w.length = n + b.arity then some { base := b, nctrl := n, wires := w, param := .none }
      else none

/-- one iteration of `ExportedGate._decompose_` -/
def cirqStep (q : Quirks) (g : AGate) : Step CqOp :=
  if isMCXg g.cls then .emit (.ctrl .X (g.wires.length - 1) g.wires)
  else if isMCZg g.cls then .emit (.ctrl .Z (g.wires.length - 1) g.wires)
  else if g.cls = .Swap then
    match g.wires with
    | a :: b :: _ => .emit (.swap a b)
    | _ => .fail "IndexError"
  else if g.cls = .CP then
    match g.wires with
    | a :: b :: _ =>
      -- `p / math.pi` raises on None (and on a non-number)
      if g.param = .none then .fail "TypeError" else .emit (.czpow g.param a b)
    | _ => .fail "IndexError"
  -- repaired exporter: nop gates (barriers) are skipped, as the other exporters do
  else if g.cls.isNop ∧ !q.cirqNopRaises then .skip
  else if (cirqAttr (cirqName g.cls)).isSome then
    let c := CqOp.named (cirqName g.cls) g.wires
    if c.op.isNone then .fail "TypeError" else .emit c
  else .fail "unhandled"

def exportCirq (q : Quirks) (gs : List AGate) : Except String (List CqOp) :=
  runSteps (cirqStep q) gs

/-! ## sympy -/

inductive SyGate where
  | X (w : Nat) | H (w : Nat) | CNOT (a b : Nat) | SWAP (a b : Nat)
  /-- `CGate(tuple(w[0:-1]), XGate(w[-1]))` -/
  | CGateX (ctrls : List Nat) (tgt : Nat)
  deriving DecidableEq, Repr, Inhabited

def SyGate.op : SyGate → Option Op
  | .X w => some { base := .X, nctrl := 0, wires := [w], param := .none }
  | .H w => some { base := .H, nctrl := 0, wires := [w], param := .none }
  | .CNOT a b => some { base := .X, nctrl := 1, wires := [a, b], param := .none }
  | .SWAP a b => some { base := .Swap, nctrl := 0, wires := [a, b], param := .none }
  | .CGateX cs t => some { base := .X, nctrl := cs.length, wires := cs ++ [t], param := .none }

/-- one iteration of `SympyExporter.export`; the factors are multiplied on the left, so the
exported product is the reverse of the emitted list (times `Qubit("0"*n)` in circuit mode) -/
def sympyMcx (w : List Nat) : Step SyGate :=
  match w.getLast? with
  | none => .fail "IndexError"
  | some t =>
    -- sympy's `CGate` needs at least one control (`max()` of an empty sequence)
    if w.dropLast = [] then .fail "ValueError" else .emit (.CGateX w.dropLast t)

def sympyStep (g : AGate) : Step SyGate :=
  match g.cls with
  | .X => match g.wires with
    | w :: _ => .emit (.X w)
    | [] => .fail "IndexError"
  | .H => match g.wires with
    | w :: _ => .emit (.H w)
    | [] => .fail "IndexError"
  | .CX => match g.wires with
    | a :: b :: _ => .emit (.CNOT a b)
    | _ => .fail "IndexError"
  | .Swap => match g.wires with
    | a :: b :: _ => .emit (.SWAP a b)
    | _ => .fail "IndexError"
  | .CCX => sympyMcx g.wires
  | .MCX _ => sympyMcx g.wires
  | .Barrier => .skip
  | .Nop => .skip
  | _ => .fail "unhandled"

def exportSympy (gs : List AGate) : Except String (List SyGate) :=
  runSteps sympyStep gs

/-! ## OpenQASM text -/

structure Circ where
  name : Text
  numQubits : Nat
  /-- `qubit_map.items()` in insertion order -/
  qmap : List (Text × Nat)
  gates : List AGate
  deriving Repr, Inhabited

/-- `QCircuit.get_key_by_index`: the last inserted name that maps to `i` -/
def getKeyByIndex (qmap : List (Text × Nat)) (i : Nat) : Option Text :=
  (qmap.reverse.find? (fun kv => kv.2 == i)).map (·.1)

def natText (n : Nat) : Text := Nat.toDigits 10 n

/-- `while name in qubit_map: name = "_" + name` (at most `len(qubit_map) + 1` rounds) -/
def freshName (names : List Text) : Nat → Text → Text
  | 0, n => n
  | fuel+1, n => if names.contains n then freshName names fuel ('_' :: n) else n

/-- name of qubit `i` in the repaired exporter: its last name, or `q<i>` (prefixed with `_`
until it is no other qubit's name) when it has none -/
def nameOfIndex (qmap : List (Text × Nat)) (i : Nat) : Text :=
  (getKeyByIndex qmap i).getD (freshName (qmap.map (·.1)) (qmap.length + 1) ('q' :: natText i))

/-- formal parameters of the gate declaration.
Code as it is (`qasmFormalsFromKeys`): `qubit_map.keys()` – one per *name*, insertion order.
Repaired: one per qubit, in index order. -/
def qasmFormals (q : Quirks) (c : Circ) : List Text :=
  if q.qasmFormalsFromKeys then c.qmap.map (·.1)
  else (List.range c.numQubits).map (nameOfIndex c.qmap)

/-- name used for wire `w` in the body (`none`: `get_key_by_index` raises) -/
def qasmWireName (q : Quirks) (c : Circ) (w : Nat) : Option Text :=
  if q.qasmFormalsFromKeys then getKeyByIndex c.qmap w else some (nameOfIndex c.qmap w)

def pad2 (n : Nat) : Text := if n < 10 then '0' :: natText n else natText n

/-- CPython `format(v, ".2f")` on the exact value: round-half-even of `100·v`, sign kept -/
def fmt2f (v : FVal) : Text :=
  let s := v.num * 100
  let q0 := s / v.den
  let r := s % v.den
  let q1 := if 2 * r > v.den ∨ (2 * r = v.den ∧ q0 % 2 = 1) then q0 + 1 else q0
  (if v.neg then ['-'] else []) ++ natText (q1 / 100) ++ '.' :: pad2 (q1 % 100)

/-- text of the parameter (`none`: the format raises on a non-number).
Code as it is (`qasmParam2f`): `{p:.2f}`; repaired: the literal itself. -/
def qasmParamText (q : Quirks) (fv : FloatOf) : Param → Option Text
  | .none => none
  | .qft _ _ => none
  | .lit s => if q.qasmParam2f then (fv s).map fmt2f else some s.toList

def lowerText (t : Text) : Text := t.map Char.toLower

/-- `g.__name__.lower()` -/
def qasmName : GClass → Text
  | .I => ['i'] | .X => ['x'] | .Y => ['y'] | .Z => ['z'] | .H => ['h'] | .S => ['s'] | .T => ['t']
  | .P => ['p'] | .Swap => ['s','w','a','p'] | .CX => ['c','x'] | .CZ => ['c','z'] | .CP => ['c','p']
  | .CCX => ['c','c','x'] | .MCX n => List.replicate n 'c' ++ ['x']
  | .MCtrl g n => List.replicate n 'c' ++ lowerText g.toList
  | .Barrier => ['_','b','a','r','r','i','e','r'] | .Nop => ['n','o','p']

def joinSp : List Text → Text
  | [] => []
  | [t] => t
  | t :: ts => t ++ ' ' :: joinSp ts

def mapOpt {α β : Type} (f : α → Option β) : List α → Option (List β)
  | [] => some []
  | a :: as =>
    match f a, mapOpt f as with
    | some b, some bs => some (b :: bs)
    | _, _ => none

/-- one parsed / printed body line: gate name, parameter text, argument names -/
structure QLine where
  gname : Text
  ptext : Option Text
  args : List Text
  deriving DecidableEq, Repr, Inhabited

/-- the body line of a non-nop gate (`none`: the exporter raises) -/
def qasmLineOf (q : Quirks) (fv : FloatOf) (c : Circ) (g : AGate) : Option QLine :=
  match mapOpt (qasmWireName q c) g.wires with
  | none => none
  | some qbs =>
    if hasParam q fv g.param then
      match qasmParamText q fv g.param with
      | none => none
      | some pt => some { gname := qasmName g.cls, ptext := some pt, args := qbs }
    else some { gname := qasmName g.cls, ptext := none, args := qbs }

def QLine.render (l : QLine) : Text :=
  '\t' :: (l.gname ++ (match l.ptext with
    | some pt => '(' :: pt ++ [')']
    | none => []) ++ ' ' :: joinSp l.args)

def qasmStep (q : Quirks) (fv : FloatOf) (c : Circ) (g : AGate) : Step QLine :=
  if g.cls.isNop then .skip
  else match qasmLineOf q fv c g with
    | none => .fail "raises"
    | some l => .emit l

def qasmBody (q : Quirks) (fv : FloatOf) (c : Circ) : Except String (List QLine) :=
  runSteps (qasmStep q fv c) c.gates

def renderLines : List QLine → Text
  | [] => []
  | l :: ls => l.render ++ '\n' :: renderLines ls

/-- the gate declaration: `gate <name> <formals> {\n<lines>}\n\n` -/
def renderGate (name : Text) (formals : List Text) (body : List QLine) : Text :=
  ("gate ".toList ++ name ++ ' ' :: joinSp formals ++ " {".toList) ++ '\n' ::
    (renderLines body ++ '}' :: '\n' :: '\n' :: [])

def callArgs (n : Nat) : List Text :=
  (List.range n).map fun i => 'q' :: '[' :: natText i ++ [']']

def joinComma : List Text → Text
  | [] => []
  | [t] => t
  | t :: ts => t ++ ',' :: joinComma ts

/-- `<name> q[0],q[1],…;\n` -/
def callLine (name : Text) (n : Nat) : Text :=
  name ++ ' ' :: joinComma (callArgs n) ++ [';', '\n']

def qasmHeader (version : Nat) (n : Nat) : Text :=
  if version = 3 then "OPENQASM 3.0;\n\n".toList
  else "OPENQASM 2.0;\n\ninclude \"qelib1.inc\";\n\nqreg q[".toList ++ natText n ++ "];\n".toList

/-- `QasmExporter(version).export(qc, mode)` -/
def exportQasm (q : Quirks) (fv : FloatOf) (version : Nat) (gateMode : Bool) (c : Circ) :
    Except String Text :=
  match qasmBody q fv c with
  | .error m => .error m
  | .ok body =>
    let gate := renderGate c.name (qasmFormals q c) body
    if gateMode then .ok gate
    else .ok (qasmHeader version c.numQubits ++ gate ++ callLine c.name c.numQubits)

/-! ## a line-based reader for the emitted gate declaration -/

/-- split at every `c` -/
def splitOn (c : Char) : Text → List Text
  | [] => [[]]
  | x :: xs =>
    if x = c then [] :: splitOn c xs
    else match splitOn c xs with
      | [] => [[x]]
      | t :: ts => (x :: t) :: ts

/-- `name(param)` → (`name`, `param`) -/
def splitHead (t : Text) : Text × Option Text :=
  match splitOn '(' t with
  | [nm] => (nm, none)
  | nm :: rest =>
    -- everything after the first '(' up to the final ')'
    let r := joinWith '(' rest
    (nm, some r.dropLast)
  | [] => ([], none)
where
  joinWith (c : Char) : List Text → Text
    | [] => []
    | [t] => t
    | t :: ts => t ++ c :: joinWith c ts

def parseLine (l : Text) : Option QLine :=
  match l with
  | '\t' :: rest =>
    match splitOn ' ' rest with
    | hd :: args =>
      let (nm, pt) := splitHead hd
      some { gname := nm, ptext := pt, args := args }
    | [] => none
  | _ => none

/-- body lines up to the closing `}` -/
def parseBody : List Text → Option (List QLine)
  | [] => none
  | l :: ls =>
    if l = ['}'] then some []
    else match parseLine l, parseBody ls with
      | some x, some xs => some (x :: xs)
      | _, _ => none

structure QGateDecl where
  name : Text
  formals : List Text
  body : List QLine
  deriving DecidableEq, Repr, Inhabited

/-- reads `gate <name> <formals…> {` then body lines then `}` -/
def parseDecl (t : Text) : Option QGateDecl :=
  match splitOn '\n' t with
  | [] => none
  | l0 :: ls =>
    match (splitOn ' ' l0).filter (· ≠ []) with
    | kw :: nm :: rest =>
      if kw = "gate".toList ∧ rest.getLast? = some ['{'] then
        (parseBody ls).map fun b => { name := nm, formals := rest.dropLast, body := b }
      else none
    | _ => none

/-- position of a name among the formals = index of the qubit `q[i]` it is bound to by the call -/
def indexOfName : List Text → Text → Option Nat
  | [], _ => none
  | f :: fs, nm => if f = nm then some 0 else (indexOfName fs nm).map (· + 1)

/-- number of leading `c`s and the rest -/
def stripCs : Text → Nat × Text
  | 'c' :: t => let (n, r) := stripCs t; (n + 1, r)
  | t => (0, t)

def baseOfQasm (t : Text) : Option Base :=
  if t = ['i'] then some .I else if t = ['x'] then some .X else if t = ['y'] then some .Y
  else if t = ['z'] then some .Z else if t = ['h'] then some .H else if t = ['s'] then some .S
  else if t = ['t'] then some .T else if t = ['p'] then some .P
  else if t = ['s','w','a','p'] then some .Swap else none

/-- reading of an emitted gate name: `c…c<base>` -/
def kindOfQasm (t : Text) : Option (Base × Nat) :=
  let (n, r) := stripCs t
  (baseOfQasm r).map (·, n)

/-- a body line as an operation on qubit indices (parameter as text) -/
structure TOp where
  base : Base
  nctrl : Nat
  wires : List Nat
  ptext : Option Text
  deriving DecidableEq, Repr, Inhabited

def lineOp (formals : List Text) (l : QLine) : Option TOp :=
  match kindOfQasm l.gname, mapOpt (indexOfName formals) l.args with
  | some (b, n), some ws => some { base := b, nctrl := n, wires := ws, ptext := l.ptext }
  | _, _ => none

/-- the operations a gate declaration applies, in order (`none`: some line is unreadable) -/
def declOps (d : QGateDecl) : Option (List TOp) := mapOpt (lineOp d.formals) d.body

/-- the operation a circuit entry denotes, with the parameter as the text of its literal -/
def gateTOp (g : AGate) : Option TOp :=
  (kind g.cls).map fun (b, n) =>
    { base := b, nctrl := n, wires := g.wires,
      ptext := match g.param with
        | .lit s => some s.toList
        | _ => none }

/-- the same, with the parameter as the exporter `q` prints it (`{p:.2f}` under `qasmParam2f`) -/
def gateTOpQ (q : Quirks) (fv : FloatOf) (g : AGate) : Option TOp :=
  (kind g.cls).map fun (b, n) =>
    { base := b, nctrl := n, wires := g.wires, ptext := qasmParamText q fv g.param }

/-! ## well-formedness and triggers -/

/-- a token of the emitted text: non-empty, no blank, newline or parenthesis -/
def tokenOK (t : Text) : Bool :=
  !t.isEmpty && t.all (fun c => c != ' ' && c != '\n' && c != '(')

def ptextOK : Option Text → Bool
  | none => true
  | some pt => pt.all (fun c => c != ' ' && c != '\n')

def lineOK (l : QLine) : Bool :=
  tokenOK l.gname && ptextOK l.ptext && !l.args.isEmpty && l.args.all tokenOK


/-- what `QCircuit.append` guarantees plus in-range wires; parameters only where the gate takes
one (`P`, `CP`, `MCtrl(P)`), and then a numeric literal -/
def gateWF (fv : FloatOf) (n : Nat) (g : AGate) : Bool :=
  g.wires.length == g.cls.nQubits && g.wires.all (· < n) &&
  match kind g.cls with
  | none => true
  | some (b, _) =>
    if takesParam b then
      match g.param with
      | .lit s => (fv s).isSome
      | _ => false
    else g.param == .none

/-- the listed defects a circuit runs into -/
def zeroParam (fv : FloatOf) (g : AGate) : Bool :=
  !g.cls.isNop && g.param != .none && !truthy fv g.param

def lossy2f (fv : FloatOf) (g : AGate) : Bool :=
  !g.cls.isNop && match g.param with
    | .lit s => match fv s with
      | some v => (v.num * 100) % v.den != 0
      | none => false
    | _ => false

def mapInOrder (c : Circ) : Bool := c.qmap.map (·.2) == List.range c.numQubits

/-- gate classes each object exporter has a branch for -/
def qiskitExportable : GClass → Bool
  | .I => false
  | .MCtrl g _ => g == "X" || g == "Z"
  | _ => true

def cirqExportable : GClass → Bool
  | .P => false
  | .MCtrl g _ => g == "X" || g == "Z"
  | _ => true

def sympyExportable : GClass → Bool
  | .X | .H | .CX | .Swap | .CCX | .Barrier | .Nop => true
  | .MCX n => n != 0
  | _ => false

/-- the emitted declaration consists of readable tokens (decidable; holds whenever the qubit and
circuit names and parameter texts contain no blank, newline or parenthesis) -/
def qasmReadable (q : Quirks) (fv : FloatOf) (c : Circ) : Bool :=
  tokenOK c.name && (qasmFormals q c).all tokenOK &&
  match qasmBody q fv c with
  | .ok body => body.all lineOK
  | .error _ => false

/-! ## domain of the QASM read-back: gate set and names -/

/-- the QASM exporter with the formals and the parameter test repaired (both fixed in the code);
`qasmParam2f` is left free, so `q` ranges over the fully repaired model and the code as it is -/
def QasmRepaired (q : Quirks) : Prop := q.qasmFormalsFromKeys = false ∧ q.exportParamTruthy = false

/-- gate classes the QASM text has a reading for: nop gates (no line) and (controlled) library
gates; excludes only an `MCtrl` of something that is not one of the library's nine base gates -/
def qasmExportable (cls : GClass) : Bool := cls.isNop || (kind cls).isSome

/-- characters of a qubit / circuit name: letters, digits, `_`, `.` -/
def nameCharOK (c : Char) : Bool := c.isAlphanum || c == '_' || c == '.'

/-- identifier-shaped (dotted names of compiled functions included) -/
def identOK (t : Text) : Bool := !t.isEmpty && t.all nameCharOK

/-- a parameter literal is one token (true of every `repr` of a Python number) -/
def paramPlain : Param → Bool
  | .lit s => s.toList.all (fun c => c != ' ' && c != '\n')
  | _ => true

def paramsPlain (gs : List AGate) : Bool := gs.all (fun g => paramPlain g.param)

/-- condition on the circuit's names only: the circuit name and every qubit name are
identifier-shaped, the names are distinct (keys of a dict), and the fallback name `q<i>` of a
qubit without a name is not also the name of some qubit -/
def wellNamed (c : Circ) : Bool :=
  identOK c.name && c.qmap.all (fun kv => identOK kv.1) &&
  decide ((c.qmap.map (·.1)).Nodup) &&
  (List.range c.numQubits).all (fun i =>
    (getKeyByIndex c.qmap i).isSome || !(c.qmap.map (·.1)).contains ('q' :: natText i))

end QV.Export
