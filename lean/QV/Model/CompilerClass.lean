import QV.Model.Compiler
/-!
# Decidable sub-classes of the compiler fragment for cleanliness (C03) and xor-oracles (C06)

`inFragment` (in `QV/Model/Compiler.lean`) is the class of `QV.C02.C02_fragment_partial`.
`inCleanFragment`, the class of `QV.C03.C03_fragment_partial`, is now the same class: either the defined
name is a requested return bit (the statement ends with the inline `uncompute` and the final
`uncompute_all` finds every gate target kept or already freed) or no return name is requested (the
statement ends with `keep_ancillas` and `uncompute_all([])` replays every gate in reverse).

History: for the unrepaired compiler the class also asked (1) that every `Or` has at most two arguments
(`smallOr`): `compile_or` with three or more distinct argument qubits took a De Morgan branch
(`X… MCX X… X`) that flipped its argument qubits temporarily, and `uncompute` replayed the `MCX` without
the surrounding `X` gates (finding `C03-uncompute-stale`, repaired: `compile_or` now folds binary ors
into new ancillas), and (2) for a non-empty return list: with no return name nothing was kept and
`uncompute_all` replayed the gates of the result qubit after their controls had been uncomputed inline
(repaired: ancillas of a definition that is not a return bit are kept until `uncompute_all`).  `smallOr`
is kept for the witness about the unrepaired compiler (`QV.C03.C03_fragment_demorgan_witness`); it is no
longer part of any class.
-/
namespace QV.Compiler
open QV

mutual
/-- every `Or` sub-expression has at most two arguments (the unrepaired `compile_or` never took its De
Morgan branch); not part of any class any more -/
def smallOr : BExp → Bool
  | .not a => smallOr a
  | .and l => smallOrList l
  | .or l => decide (l.length ≤ 2) && smallOrList l
  | .xor l => smallOrList l
  | _ => true
def smallOrList : List BExp → Bool
  | [] => true
  | a :: as => smallOr a && smallOrList as
end

/-- the class of `QV.C03.C03_fragment_partial`: `inFragment` (`Or`s of any arity; every requested return
name is the defined one, or none is requested) -/
def inCleanFragment (inputs : List String) (defs : List (String × BExp)) (rets : List String) : Bool :=
  inFragment inputs defs rets

/-- the class of `QV.C06.C06_fragment_partial`: `inCleanFragment` and the output qubit is not an
argument qubit (a bare argument symbol is copied into a new qubit only under a return name `_ret…`,
otherwise the defined name is an alias of the argument qubit) -/
def inXorFragment (inputs : List String) (defs : List (String × BExp)) (rets : List String) : Bool :=
  inCleanFragment inputs defs rets &&
    (match defs with
     | [(r, e)] => !isSym e || r.startsWith "_ret"
     | _ => false)

end QV.Compiler
