import QV.Model.Compiler
/-!
# Decidable sub-classes of the compiler fragment for cleanliness (C03) and xor-oracles (C06)

`inFragment` (in `QV/Model/Compiler.lean`) is the class of `QV.C02.C02_fragment_partial`.
`inCleanFragment`, the class of `QV.C03.C03_fragment_partial`, is now the same class: either the defined
name is a requested return bit (the statement ends with the inline `uncompute` and the final
`uncompute_all` finds every gate target kept or already freed) or no return name is requested (the
statement ends with `keep_ancillas` and `uncompute_all([])` replays every gate in reverse).

History: for the unrepaired compiler the class also asked (1) that every `Or` has at most two arguments
(`smallOr`): `compile_or` with three or more distinct argument qubits took a De Morgan branch
(`X… MCX X… X`) that flipped its argument qubits temporarily, and `uncompute` replayed the `MCX` without
the surrounding `X` gates (finding `C03-uncompute-stale`, repaired: `compile_or` now folds binary ors
into new ancillas), and (2) for a non-empty return list: with no return name nothing was kept and
`uncompute_all` replayed the gates of the result qubit after their controls had been uncomputed inline
(repaired: ancillas of a definition that is not a return bit are kept until `uncompute_all`).  `smallOr`
is kept for the witness about the unrepaired compiler (`QV.C03.C03_fragment_demorgan_witness`); it is no
longer part of any class.
-/
namespace QV.Compiler
open QV

mutual
/-- every `Or` sub-expression has at most two arguments (the unrepaired `compile_or` never took its De
Morgan branch); not part of any class any more -/
def smallOr : BExp → Bool
  | .not a => smallOr a
  | .and l => smallOrList l
  | .or l => decide (l.length ≤ 2) && smallOrList l
  | .xor l => smallOrList l
  | _ => true
def smallOrList : List BExp → Bool
  | [] => true
  | a :: as => smallOr a && smallOrList as
end

/-- the class of `QV.C03.C03_fragment_partial`: `inFragment` (`Or`s of any arity; every requested return
name is the defined one, or none is requested) -/
def inCleanFragment (inputs : List String) (defs : List (String × BExp)) (rets : List String) : Bool :=
  inFragment inputs defs rets

/-- the class of `QV.C06.C06_fragment_partial`: `inCleanFragment` and the output qubit is not an
argument qubit (a bare argument symbol is copied into a new qubit only under a return name `_ret…`,
otherwise the defined name is an alias of the argument qubit) -/
def inXorFragment (inputs : List String) (defs : List (String × BExp)) (rets : List String) : Bool :=
  inCleanFragment inputs defs rets &&
    (match defs with
     | [(r, e)] => !isSym e || r.startsWith "_ret"
     | _ => false)

/-! ## The general class (`QV.C02.C02_general_partial`; proofs in `QV/Proofs/CompilerGen*.lean`)

Definition lists with shared sub-expressions (cache hits inside and across statements), names defined
more than once (re-binding, also of an argument) and several return bits. -/

mutual
/-- expressions of the general class: symbols of `scope`, constants, `Not` / `And` / `Or` / `Xor` of any arity;
no constant (or negated constant) directly under `Xor` (`compile_xor` would take the constant's qubit as its
accumulator; `_symplify_exp` removes these before the real compiler sees them); no `Or` / `Xor` without
arguments (sympy cannot build them; their ancilla is never the target of a gate, `uncompute` frees it but
leaves it marked and cached) -/
def wfExpG (scope : List String) : BExp → Bool
  | .sym n => scope.contains n
  | .tt => true
  | .ff => true
  | .not a => wfExpG scope a
  | .and l => wfExpListG scope l
  | .or l => wfExpListG scope l && !l.isEmpty
  | .xor l => wfExpListG scope l && l.all (fun a => !xorArgBad a) && !l.isEmpty
  | _ => false
def wfExpListG (scope : List String) : List BExp → Bool
  | [] => true
  | a :: as => wfExpG scope a && wfExpListG scope as
end

mutual
/-- the expression mentions a constant -/
def hasConst : BExp → Bool
  | .tt => true
  | .ff => true
  | .sym _ => false
  | .not a => hasConst a
  | .and l => hasConstList l
  | .or l => hasConstList l
  | .xor l => hasConstList l
  | .ite c t e => hasConst c || hasConst t || hasConst e
  | .imp a b => hasConst a || hasConst b
def hasConstList : List BExp → Bool
  | [] => false
  | a :: as => hasConst a || hasConstList as
end

/-- `r = Not(r)`: `compile_not` negates the qubit of `r` in place (step 0 of `compile_not`) -/
def selfNot (r : String) : BExp → Bool
  | .not (.sym n) => n == r
  | _ => false

/-- definition lists of the general class: every left-hand side is not reserved (`TRUE`, `FALSE`, `anc_…`) –
it may be an argument or an earlier left-hand side (re-binding) –, every right-hand side is `wfExpG` over the
arguments and the earlier left-hand sides, and no definition is the in-place self-negation `r = Not(r)`
(the qubit of `r` is flipped in place; every other name bound to the same qubit by an earlier alias
`b = r` changes with it – the compiler is wrong there, see `docs/notes/C02_C03_C06.md`) -/
def genDefs (scope : List String) : List (String × BExp) → Bool
  | [] => true
  | (r, e) :: rest => !reservedName r && wfExpG scope e && !selfNot r e && genDefs (scope ++ [r]) rest

/-- the class of `QV.C02.C02_general_partial`: argument names distinct and not reserved, `genDefs`, every
requested return name is an argument or a left-hand side -/
def inGeneral (inputs : List String) (defs : List (String × BExp)) (rets : List String) : Bool :=
  decide inputs.Nodup && inputs.all (fun n => !reservedName n) && genDefs inputs defs &&
    rets.all (fun r => inputs.contains r || defs.any (fun p => p.1 == r))

/-- what the driver reports as `in_general`: the general class or one of the older single-definition classes
(which also admit the degenerate `Or` / `Xor` without arguments) -/
def inGeneralClass (inputs : List String) (defs : List (String × BExp)) (rets : List String) : Bool :=
  inGeneral inputs defs rets || inFragment inputs defs rets || inFragmentConst inputs defs rets

/-! ## The general class for cleanliness (`QV.C03.C03_general_partial`, `QV.C06.C06_general_partial`) -/

/-- the right-hand side of a return statement: without constants, or a bare constant (the only forms sympy leaves:
`_symplify_exp` folds every constant inside an expression) -/
def retExprOK (e : BExp) : Bool := !(hasConst e && !isLeaf e)

/-- the return phase: every left-hand side is a requested return bit and a NEW name (not an argument, not defined
before: a requested return name that is bound again later leaves its first qubit to `uncompute_all` after the
ancillas were released – the compiler is wrong there, `docs/notes/C02_C03_C06.md`) -/
def retDefs (rets : List String) (scope : List String) : List (String × BExp) → Bool
  | [] => true
  | (r, e) :: rest => rets.contains r && !scope.contains r && retExprOK e && retDefs rets (scope ++ [r]) rest

/-- the intermediates (left-hand sides that are not requested return bits: with final uncomputation on their
ancillas are kept for `uncompute_all`; they may be defined more than once, re-bind an argument, mention constants)
come first, the return bits last -/
def keptThenRet (rets : List String) (scope : List String) : List (String × BExp) → Bool
  | [] => true
  | (r, e) :: rest =>
    if rets.contains r then retDefs rets scope ((r, e) :: rest) else keptThenRet rets (scope ++ [r]) rest

/-- the class of `QV.C03.C03_general_partial`: the general class of C02 (sharing, cache hits inside and across
statements, re-binding of intermediates and arguments, several return bits) with the intermediates first and every
requested return bit defined once, last -/
def inGeneralClean (inputs : List String) (defs : List (String × BExp)) (rets : List String) : Bool :=
  inGeneral inputs defs rets && keptThenRet rets inputs defs

/-- what the driver reports as `in_clean_general`: the class of `QV.C03.C03_general_partial` -/
def inGeneralCleanClass (inputs : List String) (defs : List (String × BExp)) (rets : List String) : Bool :=
  inGeneralClean inputs defs rets || inCleanFragment inputs defs rets

/-- the static part of the class of `QV.C06.C06_general_partial`: `inGeneralClean` with exactly one requested
return bit (the theorem also asks that the compiled circuit never uses the output qubit as a control,
`retNeverControl`, which the driver evaluates on the model's gate list) -/
def inGeneralXor (inputs : List String) (defs : List (String × BExp)) (rets : List String) : Bool :=
  inGeneralClean inputs defs rets && rets.length == 1

end QV.Compiler
