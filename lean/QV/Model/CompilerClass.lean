import QV.Model.Compiler
/-!
# Decidable sub-classes of the compiler fragment for cleanliness (C03) and xor-oracles (C06)

`inFragment` (in `QV/Model/Compiler.lean`) is the class of `QV.C02.C02_fragment_partial`.  With
`uncompute = true` the compiled circuit of an instance of that class need not be clean: `compile_or`
with three or more distinct argument qubits (the De Morgan branch `X… MCX X… X`) flips its argument
qubits temporarily; when the result ancilla is later marked and uncomputed, `uncompute` replays the
`MCX` *without* the surrounding `X` gates (they target argument qubits, which are not marked), so the
ancilla is handed back dirty (open finding `C03-uncompute-stale`).  `inCleanFragment` excludes that:
every `Or` has at most two arguments.  It also asks for a non-empty return list: with no return name
nothing is kept, `uncompute_all` replays the gates of the result qubit after their controls were
already uncomputed.
-/
namespace QV.Compiler
open QV

mutual
/-- every `Or` sub-expression has at most two arguments (`compile_or` never takes its De Morgan branch) -/
def smallOr : BExp → Bool
  | .not a => smallOr a
  | .and l => smallOrList l
  | .or l => decide (l.length ≤ 2) && smallOrList l
  | .xor l => smallOrList l
  | _ => true
def smallOrList : List BExp → Bool
  | [] => true
  | a :: as => smallOr a && smallOrList as
end

/-- the class of `QV.C03.C03_fragment_partial`: `inFragment`, at least one requested return name, and
every `Or` with at most two arguments -/
def inCleanFragment (inputs : List String) (defs : List (String × BExp)) (rets : List String) : Bool :=
  inFragment inputs defs rets && !rets.isEmpty &&
    (match defs with
     | [(_, e)] => smallOr e
     | _ => false)

/-- the class of `QV.C06.C06_fragment_partial`: `inCleanFragment` and the output qubit is not an
argument qubit (a bare argument symbol is copied into a new qubit only under a return name `_ret…`,
otherwise the defined name is an alias of the argument qubit) -/
def inXorFragment (inputs : List String) (defs : List (String × BExp)) (rets : List String) : Bool :=
  inCleanFragment inputs defs rets &&
    (match defs with
     | [(r, e)] => !isSym e || r.startsWith "_ret"
     | _ => false)

end QV.Compiler
