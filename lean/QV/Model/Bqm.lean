import QV.Base.BExp
import QV.Base.Quirks
import QV.Model.Types
/-!
# Model of `qlasskit/bqm.py` (and `boolopt/bool_optimizer.py:merge_expressions`)

`to_bqm(args, returns, exprs, fmt)` builds a *pyqubo expression tree* and hands it to pyqubo
(`e.compile()` then `model.to_bqm()/to_ising()/to_qubo()`).  pyqubo is not installed here: the
tree is the observable (recorded by `harness/pyqubo_stub.py`), and its meaning is the
polynomial pyqubo's documentation gives for every node (`PExp.eval`) - a stated assumption.
What pyqubo does with the tree afterwards (degree reduction, offsets, spin conversion) is
outside this model.

Import-free apart from `QV.Base.*` / `QV.Model.Types`; total; no Mathlib.
-/
namespace QV.Bqm
open QV QV.Types

/-- pyqubo expression trees as `to_bqm` can build them.  `num` is a Python number / bool that
ended up inside an expression (`visit` returns `True`/`False` for constants). -/
inductive PExp where
  | num (n : Int)
  | bin (label : String)
  | not (a : PExp)
  | and (a b : PExp)
  | or (a b : PExp)
  | xor (a b : PExp)
  | notConst (a b : PExp) (label : String)
  | andConst (a b c : PExp) (label : String)
  | orConst (a b c : PExp) (label : String)
  | xorConst (a b c : PExp) (label : String)
  | add (a b : PExp)
  deriving Repr, Inhabited, DecidableEq

def b2i (b : Bool) : Int := if b then 1 else 0

/-- the polynomial of a tree under a 0/1 assignment of the binary variables (pyqubo docs:
`Not = 1-a`, `And = ab`, `Or = a+b-ab`, `Xor = a+b-2ab`, `NotConst = 2ab-a-b+1`,
`AndConst = ab-2(a+b)c+3c`, `OrConst = ab+(a+b)(1-2c)+c`,
`XorConst = 2ab-2(a+b)c-4(a+b)x+4xc+a+b+c+4x` with `x = Binary(label+"_aux")`) -/
def PExp.eval (σ : String → Bool) : PExp → Int
  | .num n => n
  | .bin l => b2i (σ l)
  | .not a => 1 - a.eval σ
  | .and a b => a.eval σ * b.eval σ
  | .or a b => a.eval σ + b.eval σ - a.eval σ * b.eval σ
  | .xor a b => a.eval σ + b.eval σ - 2 * (a.eval σ * b.eval σ)
  | .notConst a b _ => 2 * (a.eval σ * b.eval σ) - a.eval σ - b.eval σ + 1
  | .andConst a b c _ =>
      a.eval σ * b.eval σ - 2 * ((a.eval σ + b.eval σ) * c.eval σ) + 3 * c.eval σ
  | .orConst a b c _ =>
      a.eval σ * b.eval σ + (a.eval σ + b.eval σ) * (1 - 2 * c.eval σ) + c.eval σ
  | .xorConst a b c l =>
      2 * (a.eval σ * b.eval σ) - 2 * ((a.eval σ + b.eval σ) * c.eval σ)
        - 4 * ((a.eval σ + b.eval σ) * b2i (σ (l ++ "_aux"))) + 4 * (b2i (σ (l ++ "_aux")) * c.eval σ)
        + a.eval σ + b.eval σ + c.eval σ + 4 * b2i (σ (l ++ "_aux"))
  | .add a b => a.eval σ + b.eval σ

/-- labels of the binary variables of a tree, in order of occurrence (with repetitions) -/
def PExp.vars : PExp → List String
  | .num _ => []
  | .bin l => [l]
  | .not a => a.vars
  | .and a b => a.vars ++ b.vars
  | .or a b => a.vars ++ b.vars
  | .xor a b => a.vars ++ b.vars
  | .notConst a b _ => a.vars ++ b.vars
  | .andConst a b c _ => a.vars ++ b.vars ++ c.vars
  | .orConst a b c _ => a.vars ++ b.vars ++ c.vars
  | .xorConst a b c l => a.vars ++ b.vars ++ c.vars ++ [l ++ "_aux"]
  | .add a b => a.vars ++ b.vars

/-- Python `x + y` where each side is a pyqubo expression or a number (`bool` is a number) -/
def pyAdd : PExp → PExp → PExp
  | .num a, .num b => .num (a + b)
  | a, b => .add a b

abbrev R := Except String

/-! ## `SympyToBQM.visit` -/

mutual
/-- `SympyToBQM(a_vars).visit(e)`; `vars` = keys of `a_vars`.  Errors are the exception
classes of the Python code: `KeyError` (symbol not in `a_vars`), `TypeError` (pyqubo's
`And/Or/Xor` take exactly two operands), `Untranslatable` (the final `raise`). -/
def visit (vars : List String) : BExp → R PExp
  | .sym n => if vars.contains n then .ok (.bin n) else .error "KeyError"
  | .ff => .ok (.num 0)
  | .tt => .ok (.num 1)
  | .not e => match visit vars e with
      | .ok a => .ok (.not a)
      | .error m => .error m
  | .and l => visitAnd vars l
  | .xor l => visitXor vars l
  | .or l => match visitList vars l with
      | .ok [a, b] => .ok (.or a b)
      | .ok _ => .error "TypeError"
      | .error m => .error m
  | .ite _ _ _ => .error "Untranslatable"
  | .imp _ _ => .error "Untranslatable"
/-- `[self.visit(a) for a in e.args]` -/
def visitList (vars : List String) : List BExp → R (List PExp)
  | [] => .ok []
  | e :: es => match visit vars e with
      | .error m => .error m
      | .ok a => match visitList vars es with
          | .error m => .error m
          | .ok as => .ok (a :: as)
/-- the `And` branch: two operands -> `pyqubo.And(a, b)`; more ->
`pyqubo.And(args[0], self.visit(And(*e.args[1:])))`; fewer -> pyqubo's `TypeError` -/
def visitAnd (vars : List String) : List BExp → R PExp
  | [] => .error "TypeError"
  | [e] => match visit vars e with
      | .ok _ => .error "TypeError"
      | .error m => .error m
  | e :: e' :: es => match visit vars e with
      | .error m => .error m
      | .ok a => match es with
          | [] => match visit vars e' with
              | .ok b => .ok (.and a b)
              | .error m => .error m
          | _ :: _ => match visitAnd vars (e' :: es) with
              | .ok b => .ok (.and a b)
              | .error m => .error m
/-- the `Xor` branch, same shape -/
def visitXor (vars : List String) : List BExp → R PExp
  | [] => .error "TypeError"
  | [e] => match visit vars e with
      | .ok _ => .error "TypeError"
      | .error m => .error m
  | e :: e' :: es => match visit vars e with
      | .error m => .error m
      | .ok a => match es with
          | [] => match visit vars e' with
              | .ok b => .ok (.xor a b)
              | .error m => .error m
          | _ :: _ => match visitXor vars (e' :: es) with
              | .ok b => .ok (.xor a b)
              | .error m => .error m
end

/-! ## `merge_expressions` -/

/-- `sym.name[0:4] == "_ret"` -/
def isRet (s : String) : Bool := s.toList.take 4 == ['_', 'r', 'e', 't']

def lookup (m : List (String × BExp)) (n : String) : Option BExp :=
  match m with
  | [] => none
  | (k, v) :: rest => if k == n then some v else lookup rest n

/-- `merge_expressions`: every non-`_ret` definition is inlined (`xreplace(emap)`, a
simultaneous substitution; a later definition of the same name overrides) and dropped; `simp`
stands for `custom_simplify_logic` (sympy's `simplify_logic`, not modelled - the theorems take
"`simp` preserves `eval`" as a hypothesis, the harness checks it on every case). -/
def mergeGo (simp : BExp → BExp) : List (String × BExp) → List (String × BExp) → List (String × BExp)
  | _, [] => []
  | emap, (s, e) :: rest =>
      let e' := simp (e.subst (lookup emap))
      if isRet s then (s, e') :: mergeGo simp emap rest
      else mergeGo simp ((s, e') :: emap) rest

def merge (simp : BExp → BExp) (exprs : List (String × BExp)) : List (String × BExp) :=
  mergeGo simp [] exprs

def update (ρ : Env) (s : String) (v : Bool) : Env := fun n => if s == n then v else ρ n

/-- the function an expression list denotes: definitions are evaluated in order, a non-`_ret`
definition updates the environment, a `_ret…` definition is one return bit -/
def retVals (ρ : Env) : List (String × BExp) → List Bool
  | [] => []
  | (s, e) :: rest =>
      if isRet s then e.eval ρ :: retVals ρ rest
      else retVals (update ρ s (e.eval ρ)) rest

def countTrue : List Bool → Nat
  | [] => 0
  | b :: bs => (if b then 1 else 0) + countTrue bs

/-! ## `to_bqm` -/

def isSym : BExp → Bool
  | .sym _ => true
  | _ => false

/-- first / second element of a Python list (`IndexError` otherwise) -/
def nth0 : List PExp → R PExp
  | a :: _ => .ok a
  | _ => .error "IndexError"
def nth1 : List PExp → R PExp
  | _ :: b :: _ => .ok b
  | _ => .error "IndexError"

/-- the non-`_ret` branches of the loop body (`NotConst/OrConst/XorConst/AndConst`, the symbol
case `AndConst(x, x, sym)`); unreachable through `to_bqm` because `merge_expressions` keeps
only `_ret…` definitions - modelled for completeness -/
def constTerm (vars : List String) (s : String) : BExp → R PExp
  | .sym n => match visit vars (.sym n) with
      | .ok a => .ok (.andConst a a (.bin s) s)
      | .error m => .error m
  | .not e => match visit vars e with
      | .ok a => .ok (.notConst a (.bin s) s)
      | .error m => .error m
  | .or l => match visitList vars l with
      | .error m => .error m
      | .ok as => match nth0 as, nth1 as with
          | .ok a, .ok b => .ok (.orConst a b (.bin s) s)
          | _, _ => .error "IndexError"
  | .xor l => match visitList vars l with
      | .error m => .error m
      | .ok as => match nth0 as, nth1 as with
          | .ok a, .ok b => .ok (.xorConst a b (.bin s) s)
          | _, _ => .error "IndexError"
  | .and l => match visitList vars l with
      | .error m => .error m
      | .ok as => match nth0 as, nth1 as with
          | .ok a, .ok b => .ok (.andConst a b (.bin s) s)
          | _, _ => .error "IndexError"
  | _ => .error "NotHandled"

/-- one iteration of the loop of `to_bqm`: the term for definition `s = e`; `vars` are the
keys of `a_vars` *after* `a_vars[sym.name] = Binary(sym.name)`.

Quirk `retSymbolAndConst` (the code as it is): `isinstance(exp, Symbol)` is tested *before*
`sym.name[0:4] == "_ret"`, so a return bit that is a bare symbol becomes the constraint
`AndConst(x, x, _ret)` (zero energy whenever `_ret = x`) instead of the term `x`.
Flag off = `docs/fixes/C18-ret-symbol.diff` (the `_ret` test first). -/
def termOf (q : Quirks) (vars : List String) (s : String) (e : BExp) : R PExp :=
  if q.retSymbolAndConst && isSym e then constTerm vars s e
  else if isRet s then visit vars e
  else constTerm vars s e

/-- the loop: `acc` is `e` (`None` at the start), `e += new_e` -/
def sumTerms (q : Quirks) : List String → Option PExp → List (String × BExp) → R (Option PExp)
  | _, acc, [] => .ok acc
  | vars, acc, (s, e) :: rest =>
      match termOf q (vars ++ [s]) s e with
      | .error m => .error m
      | .ok t => sumTerms q (vars ++ [s])
          (some (match acc with | none => t | some a => pyAdd a t)) rest

def formats : List String := ["bqm", "ising", "qubo", "pq_model"]

/-- `to_bqm(args, returns, exprs, fmt)` given the already merged expressions: the tree handed
to pyqubo (`compile` and the three exporters are the identity on the tree - see the stub).
`Empty`: no definition; `NoCompile`: the sum is a plain Python number (all return bits
constant) and has no `.compile()`; `UnknownFormat`: the final `raise`. -/
def toBqmMerged (q : Quirks) (argBits : List String) (merged : List (String × BExp))
    (fmt : String) : R PExp :=
  match sumTerms q argBits none merged with
  | .error m => .error m
  | .ok none => .error "Empty"
  | .ok (some (.num _)) => .error "NoCompile"
  | .ok (some p) => if formats.contains fmt then .ok p else .error "UnknownFormat"

/-- `to_bqm` including `merge_expressions` with simplifier `simp` -/
def toBqm (q : Quirks) (simp : BExp → BExp) (argBits : List String)
    (exprs : List (String × BExp)) (fmt : String) : R PExp :=
  toBqmMerged q argBits (merge simp exprs) fmt

/-- energy of an assignment = value of the tree's polynomial -/
def energy (p : PExp) (σ : String → Bool) : Int := p.eval σ

/-! ## `decode_samples` -/

structure Arg where
  name : String
  ty : QTy
  bitvec : List String

def sampleLookup (sample : List (String × Bool)) (n : String) : Option Bool :=
  match sample with
  | [] => none
  | (k, v) :: rest => if k == n then some v else sampleLookup rest n

/-- `[el.sample[bv] if bv in el.sample else random.randint(0, 1) for bv in arg.bitvec]`;
`fill` stands for the random choices -/
def sampleBits (sample : List (String × Bool)) (fill : String → Bool) (bv : List String) : List Bool :=
  bv.map fun b => match sampleLookup sample b with
    | some v => v
    | none => fill b

/-- `interpret_as_qtype(bitstr[::-1], arg.ttype, len(arg))` -/
def decodeArg (sample : List (String × Bool)) (fill : String → Bool) (a : Arg) : QVal :=
  interpretAsQtype (sampleBits sample fill a.bitvec).reverse a.ty (some a.bitvec.length)

def decodeSample (sample : List (String × Bool)) (fill : String → Bool) (args : List Arg) :
    List (String × QVal) :=
  args.map fun a => (a.name, decodeArg sample fill a)

end QV.Bqm
