import QV.Model.Circuit
/-!
# Amplitude semantics with integer amplitudes

A state of `N` qubits is a function from basis states (bit lists, index `k` = qubit `k`) to
integers; the normalisation `2^{-h/2}` (`h` = number of Hadamard gates applied so far) is
left out, so every amplitude of a circuit made of `H`, `Z`, `X`, `CX`, `CCX`, `MCX` and
barriers – everything `DeutschJozsa`, `BernsteinVazirani` and `Simon` emit – is an integer.

* `H` on qubit `i`:   `(Hψ)(b) = ψ(b[i:=0]) + (-1)^{b_i} ψ(b[i:=1])`
* `Z` on qubit `i`:   `(Zψ)(b) = (-1)^{b_i} ψ(b)`
* `X/CX/CCX/MCX`:     `(Gψ)(b) = ψ(G b)` with `G` the classical action
  (`AGate.applyClassical`, an involution on basis states because `QCircuit.append` rejects
  duplicate wires; proved in `QV/Proofs/Algo.lean: step_step`)
* barriers / nop: identity.
-/
namespace QV.Amp
open QV

abbrev State := List Bool → Int

def sgn (b : Bool) : Int := if b then -1 else 1

/-- amplitude 1 on the all-zero basis state -/
def ket0 : State := fun b => if b.all (fun x => !x) then 1 else 0

def applyH (i : Nat) (ψ : State) : State := fun b =>
  if i < b.length then ψ (b.set i false) + sgn (b.getD i false) * ψ (b.set i true) else 0

def applyZ (i : Nat) (ψ : State) : State := fun b => sgn (b.getD i false) * ψ b

/-- one classical step (shared with `runClassical`) -/
def step (g : AGate) (s : BState) : BState :=
  if g.cls.isMCXLike then g.applyClassical s else s

def applyGate (g : AGate) (ψ : State) : State :=
  if g.cls.isMCXLike then fun b => ψ (g.applyClassical b)
  else match g.cls, g.wires with
    | .H, [i] => applyH i ψ
    | .Z, [i] => applyZ i ψ
    | _, _ => ψ

/-- gates with an integer-amplitude meaning in this model -/
def supported (g : AGate) : Bool :=
  g.cls.isMCXLike || g.cls.isNop ||
    (match g.cls, g.wires with
     | .H, [_] => true
     | .Z, [_] => true
     | _, _ => false)

/-- run a gate list, first gate first -/
def run (gs : List AGate) (ψ : State) : State := gs.foldl (fun ψ g => applyGate g ψ) ψ

/-- number of `H` gates (the amplitudes are to be scaled by `2^{-h/2}`) -/
def hCount (gs : List AGate) : Nat := (gs.filter (fun g => g.cls == .H)).length

/-- all basis states of `n` qubits, in the order of the state-vector index
(`index = Σ b_k 2^k`) -/
def allBits : Nat → List (List Bool)
  | 0 => [[]]
  | n+1 => (allBits n).map (· ++ [false]) ++ (allBits n).map (· ++ [true])

/-- the amplitude table of a state -/
def table (n : Nat) (ψ : State) : List Int := (allBits n).map ψ

/-- sum of `f` over all bit lists of length `n` -/
def sumBits : Nat → (List Bool → Int) → Int
  | 0, f => f []
  | n+1, f => sumBits n (fun t => f (false :: t)) + sumBits n (fun t => f (true :: t))

/-- number of bit lists of length `n` on which `f` is true -/
def countBits : Nat → (List Bool → Bool) → Nat
  | 0, f => if f [] then 1 else 0
  | n+1, f => countBits n (fun t => f (false :: t)) + countBits n (fun t => f (true :: t))

/-- `x · y` over GF(2) -/
def dot : List Bool → List Bool → Bool
  | a :: as, b :: bs => Bool.xor (a && b) (dot as bs)
  | _, _ => false

def xorBits (a b : List Bool) : List Bool := List.zipWith Bool.xor a b

def zeros (n : Nat) : List Bool := List.replicate n false

def allFalse (l : List Bool) : Bool := l.all (fun x => !x)

end QV.Amp
