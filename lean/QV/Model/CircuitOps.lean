import QV.Model.Circuit
/-!
# Circuit composition operators (property C14)

Model of `qlasskit/qcircuit/qcircuit.py`: `append`, `append_circuit`, `__iadd__`, `__add__`,
`copy`, `repeat`, `add_qubit`, `qft`, `iqft`, and of
`qlasskit/qcircuit/qcircuitenhanced.py`: `remove_identities`.

## Heap
Python object identity matters twice: `remove_identities` compares `(gate, wires, param)`
tuples, i.e. gate objects by identity (`AGate.gid`); and "operands are not modified / a copy
is independent" is a statement about which *mutable* objects are shared.  The mutable objects
reachable from a `QCircuit` are the list `gates`, the list `gates_computed`, the dict
`qubit_map` and the wire list of every applied gate.  Each carries an object id here
(`gatesId`, `computedId`, `qmapId`, `HGate.wid`); gate objects carry `gid`.  All ids live in one
id space (the heap); every operation that allocates takes the next free id `nx` and returns
the new one.  `copy.deepcopy` is modelled by adding `nx` to every id reachable from the source
(all of them are `< nx`): injective, so the aliasing pattern inside the copy is the source's
(the deepcopy memo), and every id of the copy is fresh.  Only the *pattern* of ids is compared
with the real code (canonical renumbering in the harness), never the numbers.

Gate descriptor objects (`X()`, `MCX(3)`) and parameters are treated as immutable values:
`append_circuit` shares them between circuits (so do these functions), `deepcopy` copies them.
Tuples `(g, w, p)` are immutable, their identity is not modelled.
-/
namespace QV.CircuitOps
open QV

/-- an applied gate `(g, w, p)` in the heap: `wid` is the identity of the list object `w` -/
structure HGate where
  g : AGate
  wid : Nat := 0
  deriving DecidableEq, Repr, Inhabited

structure Circ where
  numQubits : Nat
  gates : List HGate := []
  computed : List HGate := []
  /-- `qubit_map`, a dict in insertion order -/
  qmap : List (String × Nat) := []
  /-- `QCircuitEnhanced` (true) or `QCircuit` -/
  enhanced : Bool := false
  name : String := "qc"
  gatesId : Nat := 0
  computedId : Nat := 0
  qmapId : Nat := 0
  deriving DecidableEq, Repr, Inhabited

inductive Err where
  | tooManyQubits   -- Exception "Other circuit has too many qubits"
  | qubitsMismatch  -- Exception "Other circuit and qubits list mismatch"
  | indexError      -- IndexError
  | notPresent      -- Exception "qubit x not present"
  | duplicate       -- Exception "duplicate qubit in gate append"
  | arity           -- Exception "expected n qubits"
  deriving DecidableEq, Repr, Inhabited

def Err.tag : Err → String
  | .tooManyQubits => "too_many_qubits" | .qubitsMismatch => "qubits_mismatch"
  | .indexError => "index_error" | .notPresent => "not_present" | .duplicate => "duplicate"
  | .arity => "arity"

/-! ## ids -/

def HGate.shift (k : Nat) (h : HGate) : HGate :=
  { g := { h.g with gid := h.g.gid + k }, wid := h.wid + k }

/-- every id reachable from the circuit moved up by `k` -/
def Circ.shift (k : Nat) (c : Circ) : Circ :=
  { c with gates := c.gates.map (HGate.shift k), computed := c.computed.map (HGate.shift k),
           gatesId := c.gatesId + k, computedId := c.computedId + k, qmapId := c.qmapId + k }

/-- ids of the mutable objects reachable from the circuit -/
def Circ.objs (c : Circ) : List Nat :=
  c.gatesId :: c.computedId :: c.qmapId :: (c.gates.map (·.wid) ++ c.computed.map (·.wid))

/-- ids of the gate descriptor objects -/
def Circ.gids (c : Circ) : List Nat := c.gates.map (·.g.gid) ++ c.computed.map (·.g.gid)

/-- everything reachable from `c` was allocated before `nx` -/
def Circ.below (c : Circ) (nx : Nat) : Prop := (∀ o ∈ c.objs, o < nx) ∧ (∀ o ∈ c.gids, o < nx)

/-- the circuit without object identities: what `==` on the gate lists would see, apart from
gate-object identity -/
def HGate.erase (h : HGate) : HGate := { g := { h.g with gid := 0 }, wid := 0 }

def Circ.erase (c : Circ) : Circ :=
  { c with gates := c.gates.map HGate.erase, computed := c.computed.map HGate.erase,
           gatesId := 0, computedId := 0, qmapId := 0 }

/-! ## heap writes, as seen from a circuit -/

/-- a mutation of one heap object (what user code can do to a circuit it holds) -/
inductive Write where
  /-- `w[k] = v` on the wire list object `o` -/
  | setWire (o k v : Nat)
  /-- `l.append(x)` on the gate-list object `o` -/
  | listAppend (o : Nat) (x : HGate)
  /-- `l.clear()` on the gate-list object `o` -/
  | listClear (o : Nat)
  /-- `d[key] = v` on the dict object `o` -/
  | mapSet (o : Nat) (key : String) (v : Nat)
  deriving Repr

def Write.target : Write → Nat
  | .setWire o _ _ => o | .listAppend o _ => o | .listClear o => o | .mapSet o _ _ => o

def HGate.write (w : Write) (h : HGate) : HGate :=
  match w with
  | .setWire o k v => if h.wid = o then { h with g := { h.g with wires := h.g.wires.set k v } } else h
  | _ => h

def listWrite (w : Write) (id : Nat) (l : List HGate) : List HGate :=
  match w with
  | .listAppend o x => if id = o then l ++ [x] else l
  | .listClear o => if id = o then [] else l
  | _ => l

/-- python dict assignment -/
def dictSet (d : List (String × Nat)) (key : String) (v : Nat) : List (String × Nat) :=
  if d.any (·.1 == key) then d.map (fun kv => if kv.1 == key then (key, v) else kv) else d ++ [(key, v)]

def mapWrite (w : Write) (id : Nat) (d : List (String × Nat)) : List (String × Nat) :=
  match w with
  | .mapSet o key v => if id = o then dictSet d key v else d
  | _ => d

/-- how circuit `c` looks after the heap write `w` -/
def Circ.apply (w : Write) (c : Circ) : Circ :=
  { c with gates := listWrite w c.gatesId (c.gates.map (HGate.write w)),
           computed := listWrite w c.computedId (c.computed.map (HGate.write w)),
           qmap := mapWrite w c.qmapId c.qmap }

/-! ## construction -/

def defaultQmap (n : Nat) : List (String × Nat) := (List.range n).map (fun x => (s!"q{x}", x))

/-- `QCircuit(n)` -/
def mkCircuit (n : Nat) (enhanced : Bool) (nx : Nat) : Circ × Nat :=
  ({ numQubits := n, qmap := defaultQmap n, enhanced := enhanced,
     gatesId := nx, computedId := nx + 1, qmapId := nx + 2 }, nx + 3)

/-- checks of `QCircuit.append` + `gates.apply`, in the code's order -/
def appendErr (numQubits : Nat) (g : AGate) : Option Err :=
  if g.wires.any (· > numQubits) then some .notPresent
  else if !g.wires.Nodup then some .duplicate
  else if g.wires.length != g.cls.nQubits then some .arity
  else none

/-- `QCircuit.append(gate, qubits, param)`: the caller's list object `qubits` is stored as is -/
def Circ.append (c : Circ) (h : HGate) : Except Err Circ :=
  match appendErr c.numQubits h.g with
  | some e => .error e
  | none => .ok { c with gates := c.gates ++ [h],
                         computed := if h.g.cls.isNop then c.computed else c.computed ++ [h] }

/-- `add_qubit(name)` -/
def Circ.addQubit (c : Circ) (name : Option String) : Circ × Nat :=
  let nm := name.getD s!"q{c.numQubits}"
  ({ c with qmap := dictSet c.qmap nm c.numQubits, numQubits := c.numQubits + 1 }, c.numQubits)

/-! ## append_circuit, +=, + -/

/-- `[qubits[ww] for ww in w]` (IndexError = none) -/
def relabelWires (qs : List Nat) : List Nat → Option (List Nat)
  | [] => some []
  | w :: t =>
    match qs[w]?, relabelWires qs t with
    | some x, some t' => some (x :: t')
    | _, _ => none

/-- the loop `for g, w, p in l: wn = [...]; out.append((g, wn, p))`: gate object and parameter
shared, one new wire list per gate (ids `nx`, `nx+1`, …) -/
def relabelFrom (qs : List Nat) : Nat → List HGate → Option (List HGate)
  | _, [] => some []
  | nx, h :: t =>
    match relabelWires qs h.g.wires, relabelFrom qs (nx + 1) t with
    | some w, some t' => some ({ g := { h.g with wires := w }, wid := nx } :: t')
    | _, _ => none

/-- `self.append_circuit(other, qubits)`; on an error `self` is untouched (all three raise
before the `extend`s) -/
def appendCircuit (a b : Circ) (qs : List Nat) (nx : Nat) : Except Err (Circ × Nat) :=
  if b.numQubits > a.numQubits then .error .tooManyQubits
  else if qs.length != b.numQubits then .error .qubitsMismatch
  else
    match relabelFrom qs nx b.gates, relabelFrom qs (nx + b.gates.length) b.computed with
    | some og, some oc =>
      .ok ({ a with gates := a.gates ++ og, computed := a.computed ++ oc },
           nx + b.gates.length + b.computed.length)
    | _, _ => .error .indexError

/-- `self += other` for a circuit operand -/
def iaddCirc (a b : Circ) (nx : Nat) : Except Err (Circ × Nat) :=
  appendCircuit a b (List.range b.numQubits) nx

/-- `self += (g, w, p)`: `self.append(other[0], other[1], other[2])` -/
def iaddGate (a : Circ) (h : HGate) : Except Err Circ := a.append h

/-- `copy.deepcopy(c)` when every id reachable from `c` is `< nx` -/
def deepcopy (c : Circ) (nx : Nat) : Circ × Nat := (c.shift nx, nx + nx)

/-- `a + b`: `nqc = deepcopy(a); nqc += b` -/
def add (a b : Circ) (nx : Nat) : Except Err (Circ × Nat) :=
  iaddCirc (deepcopy a nx).1 b (deepcopy a nx).2

/-! ## copy, repeat -/

/-- `c.copy(vanilla)`; vanilla: `QCircuit(n)` with `gates = deepcopy(self.gates)` only -/
def copy (c : Circ) (vanilla : Bool) (nx : Nat) : Circ × Nat :=
  if vanilla then
    ({ numQubits := c.numQubits, gates := c.gates.map (HGate.shift nx), computed := [],
       qmap := defaultQmap c.numQubits, enhanced := false, name := "qc",
       gatesId := c.gatesId + nx, computedId := nx + nx, qmapId := nx + nx + 1 }, nx + nx + 2)
  else deepcopy c nx

/-- `for i in range(k): n_qc += o.copy()` -/
def repeatLoop : Nat → Circ → Circ → Nat → Except Err (Circ × Nat)
  | 0, acc, _, nx => .ok (acc, nx)
  | k + 1, acc, o, nx =>
    match iaddCirc acc (copy o false nx).1 (copy o false nx).2 with
    | .error e => .error e
    | .ok (acc', nx') => repeatLoop k acc' o nx'

/-- `c.repeat(n)`.  Quirk `repeatZero`: `range(n - 1)` is empty for `n = 0` as well, so one
copy comes back.  Repaired: `n = 0` gives the empty circuit on the same qubits. -/
def «repeat» (q : Quirks) (c : Circ) (n : Nat) (nx : Nat) : Except Err (Circ × Nat) :=
  let o := copy c false nx
  let nqc := copy c false o.2
  if n = 0 ∧ q.repeatZero = false then
    .ok ({ nqc.1 with gates := [], computed := [], gatesId := nqc.2, computedId := nqc.2 + 1 },
         nqc.2 + 2)
  else repeatLoop (n - 1) nqc.1 o.1 nqc.2

/-! ## remove_identities -/

/-- gates `g` with `g·g = 1` whatever the wires (the repaired `remove_identities` cancels only
these) -/
def selfInverse : GClass → Bool
  | .I | .X | .Y | .Z | .H | .Swap | .CX | .CZ | .CCX | .MCX _ | .Barrier | .Nop => true
  | .MCtrl g _ => g == "X" || g == "Y" || g == "Z" || g == "H" || g == "I"
  | _ => false

/-- python `(g, w, p) == (g', w', p')`: gate objects have no `__eq__`, so identity -/
def sameApplied (a b : HGate) : Bool :=
  a.g.gid == b.g.gid && a.g.wires == b.g.wires && a.g.param == b.g.param

/-- quirk `cancelsNonInvolutions`: any identical pair is dropped (S·S, T·T, P(θ)·P(θ) …) -/
def canCancel (q : Quirks) (g : HGate) : Bool := q.cancelsNonInvolutions || selfInverse g.g.cls

/-- `if isinstance(result[-1][0], Barrier): result.pop()`; `res` is kept reversed.
Quirk `removeIdEmptyResult`: `result[-1]` on the empty list raises IndexError. -/
def popBarrier (q : Quirks) (res : List HGate) : Except Err (List HGate) :=
  match res with
  | [] => if q.removeIdEmptyResult then .error .indexError else .ok []
  | r :: rs => if r.g.cls == .Barrier then .ok rs else .ok (r :: rs)

/-- the `while i < len_g` loop on the remaining gates (`fuel` ≥ their number; structural
recursion on it) -/
def riLoop (q : Quirks) : Nat → List HGate → List HGate → Except Err (List HGate)
  | 0, l, res => .ok (res.reverse ++ l)
  | _ + 1, [], res => .ok res.reverse
  | _ + 1, [g], res => .ok (g :: res).reverse
  | fuel + 1, g :: h :: rest, res =>
    if sameApplied g h && canCancel q g then
      match popBarrier q res with
      | .error e => .error e
      | .ok res' => riLoop q fuel rest res'
    else
      match rest with
      | [] => riLoop q fuel (h :: rest) (g :: res)
      | k :: rest' =>
        if sameApplied g k && h.g.cls == .Barrier && canCancel q g then
          match popBarrier q res with
          | .error e => .error e
          | .ok res' => riLoop q fuel rest' res'
        else riLoop q fuel (h :: rest) (g :: res)

/-- `qc.remove_identities()`: `self.gates = result` (a new list object); `gates_computed`
is not touched -/
def removeIdentities (q : Quirks) (c : Circ) (nx : Nat) : Except Err (Circ × Nat) :=
  match riLoop q c.gates.length c.gates [] with
  | .error e => .error e
  | .ok r => .ok ({ c with gates := r, gatesId := nx }, nx + 1)

/-- `result.pop()` of a trailing barrier in the repaired code -/
def popBarrierOk (res : List HGate) : List HGate :=
  match res with
  | r :: rs => if r.g.cls == .Barrier then rs else r :: rs
  | [] => []

/-- does `remove_identities` meet a listed defect on this gate list?  (the loop of the
repaired code, recording whether it would cancel a non-involution or cancel while the result
is empty) -/
def riTriggers : Nat → List HGate → List HGate → Bool
  | 0, _, _ => false
  | _ + 1, [], _ => false
  | _ + 1, [_], _ => false
  | fuel + 1, g :: h :: rest, res =>
    if sameApplied g h then
      !selfInverse g.g.cls || res.isEmpty || riTriggers fuel rest (popBarrierOk res)
    else
      match rest with
      | [] => riTriggers fuel (h :: rest) (g :: res)
      | k :: rest' =>
        if sameApplied g k && h.g.cls == .Barrier then
          !selfInverse g.g.cls || res.isEmpty || riTriggers fuel rest' (popBarrierOk res)
        else riTriggers fuel (h :: rest) (g :: res)

def Circ.riTriggers (c : Circ) : Bool := QV.CircuitOps.riTriggers c.gates.length c.gates []

/-! ## qft, iqft -/

def hGate (w : Nat) : AGate := { cls := .H, wires := [w] }
def swapGate (a b : Nat) : AGate := { cls := .Swap, wires := [a, b] }
/-- `cp(±2π/2^k, a, b)` -/
def cpGate (neg : Bool) (k a b : Nat) : AGate := { cls := .CP, wires := [a, b], param := .qft neg k }

/-- `h(wl[i]); for j in range(i+1, n): cp(2π/2^(j-i+1), wl[j], wl[i])` -/
def qftRow (wl : List Nat) (i : Nat) : List AGate :=
  hGate (wl.getD i 0) ::
    (List.range' (i + 1) (wl.length - (i + 1))).map (fun j => cpGate false (j - i + 1) (wl.getD j 0) (wl.getD i 0))

def qftMain (wl : List Nat) : List AGate := ((List.range wl.length).map (qftRow wl)).flatten

/-- `for i in range(n // 2): swap(wl[i], wl[n - i - 1])` -/
def swapLayer (wl : List Nat) : List AGate :=
  (List.range (wl.length / 2)).map (fun i => swapGate (wl.getD i 0) (wl.getD (wl.length - i - 1) 0))

def qftGates (wl : List Nat) : List AGate := qftMain wl ++ swapLayer wl

/-- `for j in reversed(range(i+1, n)): cp(-2π/2^(j-i+1), wl[j], wl[i]);  h(wl[i])` -/
def iqftRow (wl : List Nat) (i : Nat) : List AGate :=
  (List.range' (i + 1) (wl.length - (i + 1))).reverse.map
      (fun j => cpGate true (j - i + 1) (wl.getD j 0) (wl.getD i 0)) ++ [hGate (wl.getD i 0)]

def iqftMain (wl : List Nat) : List AGate := ((List.range wl.length).reverse.map (iqftRow wl)).flatten

def iqftGates (wl : List Nat) : List AGate := swapLayer wl ++ iqftMain wl

/-- inverse gate, for the gates of the Fourier transform -/
def invGate (g : AGate) : AGate :=
  match g.param with
  | .qft neg k => { g with param := .qft (!neg) k }
  | _ => g

/-- the `self.h / self.cp / self.swap` calls one after the other: every call makes a new gate
object and a new wire list and goes through `append`; the first failing call raises and
leaves the gates appended so far -/
def appendAll (c : Circ) : List AGate → Nat → Circ × Nat × Option Err
  | [], nx => (c, nx, none)
  | g :: t, nx =>
    match c.append { g := { g with gid := nx }, wid := nx + 1 } with
    | .error e => (c, nx, some e)
    | .ok c' => appendAll c' t (nx + 2)

def qft (c : Circ) (wl : List Nat) (nx : Nat) : Circ × Nat × Option Err := appendAll c (qftGates wl) nx
def iqft (c : Circ) (wl : List Nat) (nx : Nat) : Circ × Nat × Option Err := appendAll c (iqftGates wl) nx

/-- all wires of all gates are qubits of the circuit (stricter than `append`'s own check,
which lets index `num_qubits` through) -/
def Circ.wiresOk (c : Circ) : Bool :=
  c.gates.all (fun h => h.g.wires.all (· < c.numQubits)) &&
  c.computed.all (fun h => h.g.wires.all (· < c.numQubits))

end QV.CircuitOps
