import QV.Base.Bits
import QV.Base.Quirks
/-!
# Model of the type codecs (`qlasskit/types/{qtype,qint,qchar,qfixed,__init__}.py`)

Values: a `Qint` value is a `Nat`; a `Qchar` value is a code point (`Nat`); a `Qfixed I F`
value `x` is the scaled natural `x * 2^F` (every value the codecs produce from a bit pattern
is such a dyadic rational, and IEEE doubles are exact on them for the shipped sizes).
-/
namespace QV.Types

open QV

/-! ## Qint -/

/-- `QintImp.__init__`: `value % 2**BIT_SIZE` -/
def qintInit (w v : Nat) : Nat := v % 2 ^ w

/-- `QintImp.from_bool`: `cls(int(bool_list_to_bin(v[::-1]), 2))`; `none` = `ValueError` (empty list) -/
def qintFromBool (w : Nat) (v : List Bool) : Option Nat :=
  (pyInt2 (boolListToBin v.reverse)).map (qintInit w)

/-- `QintImp.to_bool`: `bin_to_bool_list(bin(self.value), BIT_SIZE)[::-1]` -/
def qintToBool (w value : Nat) : List Bool :=
  (binToBoolList (pyBin value) (some w)).reverse

/-- `Qtype.fill` on plain bit lists -/
def fillBits (w : Nat) (l : List Bool) : List Bool :=
  if l.length ≥ w then l else l ++ List.replicate (w - l.length) false

/-- `QintImp.const` (the bit list of the returned TExp) -/
def qintConst (w v : Nat) : List Bool :=
  let v := v % 2 ^ w
  let cval := (binDigits v).map (· == '1')
  fillBits w cval.reverse

/-- `QintImp.to_amplitudes`: (length of the vector, index holding 1) -/
def qintAmp (w value : Nat) : Nat × Nat := (2 ^ w, value)

/-! ## Qchar (BIT_SIZE = 8) -/

def qcharToBool (code : Nat) : List Bool :=
  (binToBoolList (pyBin code) (some 8)).reverse

/-- `chr(int(bool_list_to_bin(v)[::-1], 2))`; `none` = ValueError -/
def qcharFromBool (v : List Bool) : Option Nat :=
  match pyInt2 (boolListToBin v).reverse with
  | some c => if c < 0x110000 then some c else none
  | none => none

def qcharConst (code : Nat) : List Bool :=
  fillBits 8 (binToBoolList (pyBin code) none).reverse

def qcharAmp (code : Nat) : Nat × Nat := (2 ^ 8, code)

/-! ## Qfixed -/

/-- `Σ_i [bit_i] 2^-(i+1)` scaled by `2^F`, `i` counted from the given start index -/
def fracVal (F : Nat) : Nat → List Bool → Nat
  | _, [] => 0
  | i, b :: bs => (if b then 2 ^ (F - (i + 1)) else 0) + fracVal F (i + 1) bs

/-- `QfixedImp.from_bool`: scaled value `x * 2^F` -/
def qfixedFromBool (I F : Nat) (v : List Bool) : Option Nat :=
  let ip := v.take I
  let fp := v.drop I
  match pyInt2 (boolListToBin ip.reverse) with
  | none => none
  | some iv =>
    let fv := fracVal F 0 fp
    some (iv * 2 ^ F + fv)

/-- the fractional loop of `to_bool`: `c %= 1; c *= 2; bit = int(c) == 1`, on the scaled value -/
def fracLoop (F : Nat) : Nat → Nat → List Bool
  | 0, _ => []
  | k+1, c =>
    let c := c % 2 ^ F
    let c := 2 * c
    (c / 2 ^ F == 1) :: fracLoop F k c

/-- integer part of `QfixedImp.to_bool`:
`bin_to_bool_list(bin(int(v) % 2**I), I)[::-1]` -/
def qfixedIntBits (I n : Nat) : List Bool :=
  (binToBoolList (pyBin (n % 2 ^ I)) (some I)).reverse

/-- `QfixedImp.to_bool` on the scaled value -/
def qfixedToBool (I F sv : Nat) : List Bool :=
  qfixedIntBits I (sv / 2 ^ F) ++ fracLoop F F sv

/-- `QfixedImp.const(v) = cls(v).to_bool()` -/
def qfixedConst (I F sv : Nat) : List Bool := qfixedToBool I F sv

/-- `QfixedImp.to_amplitudes`: `ampl[int(self.to_bin()[::-1], 2)] = 1`; `none` = ValueError -/
def qfixedAmp (I F sv : Nat) : Nat × Option Nat :=
  let bits := qfixedToBool I F sv
  (2 ^ (I + F), pyInt2 (boolListToBin bits).reverse)

/-! ## Nested types and `interpret_as_qtype` -/

inductive QTy where
  | bool
  | qint (w : Nat)
  | qchar
  | qfixed (i f : Nat)
  | tuple (ts : List QTy)
  deriving Repr, Inhabited

inductive QVal where
  | bool (b : Bool)
  | int (v : Nat)          -- Qint value
  | char (c : Nat)         -- Qchar code point
  | fixed (sv : Nat)       -- Qfixed scaled value
  | tuple (vs : List QVal)
  | error                  -- an exception in the real code
  deriving Repr, Inhabited

mutual
def QVal.beq : QVal → QVal → Bool
  | .bool a, .bool b => a == b
  | .int a, .int b => a == b
  | .char a, .char b => a == b
  | .fixed a, .fixed b => a == b
  | .tuple a, .tuple b => beqVals a b
  | .error, .error => true
  | _, _ => false
def beqVals : List QVal → List QVal → Bool
  | [], [] => true
  | a :: as, b :: bs => QVal.beq a b && beqVals as bs
  | _, _ => false
end

mutual
/-- `_getsize` -/
def QTy.size : QTy → Nat
  | .bool => 1
  | .qint w => w
  | .qchar => 8
  | .qfixed i f => i + f
  | .tuple ts => sizeList ts
def sizeList : List QTy → Nat
  | [] => 0
  | t :: ts => t.size + sizeList ts
end

def optVal (f : Nat → QVal) : Option Nat → QVal
  | some v => f v
  | none => .error

mutual
/-- `_interpret(out, qtype, out_len)` with `out_len = len` of the slice it is given -/
def interpret : QTy → List Bool → QVal
  | .bool, out => match out with
      | b :: _ => .bool b
      | [] => .error                      -- IndexError
  | .qint w, out => optVal .int (qintFromBool w out)
  | .qchar, out => optVal .char (qcharFromBool out)
  | .qfixed i f, out => optVal .fixed (qfixedFromBool i f out)
  | .tuple ts, out => .tuple (interpretList ts out)
def interpretList : List QTy → List Bool → List QVal
  | [], _ => []
  | t :: ts, out => interpret t (out.take t.size) :: interpretList ts (out.drop t.size)
end

/-- `format_outcome` for `str` / list input with an optional `out_len` (right padding) -/
def formatOutcome (out : List Bool) (outLen : Option Nat) : List Bool :=
  let n := outLen.getD out.length
  if out.length < n then out ++ List.replicate (n - out.length) false else out

/-- `interpret_as_qtype(out, qtype, out_len)` for string/list outcomes.  The top-level call
passes `out_len` through to `from_bool(out[0:out_len])`; for a scalar top-level type and
`out_len = none` Python slices `out[0:None]` = everything. -/
def interpretAsQtype (out : List Bool) (t : QTy) (outLen : Option Nat) : QVal :=
  let o := (formatOutcome out outLen).reverse
  match t with
  | .tuple _ => interpret t o
  | .bool => interpret t o
  | _ => interpret t (match outLen with | some n => o.take n | none => o)

mutual
/-- runtime encoding of a value in a type (`to_bool`, concatenated for tuples) -/
def encode : QTy → QVal → List Bool
  | .bool, .bool b => [b]
  | .qint w, .int v => qintToBool w v
  | .qchar, .char c => qcharToBool c
  | .qfixed i f, .fixed sv => qfixedToBool i f sv
  | .tuple ts, .tuple vs => encodeList ts vs
  | _, _ => []
def encodeList : List QTy → List QVal → List Bool
  | t :: ts, v :: vs => encode t v ++ encodeList ts vs
  | _, _ => []
end

end QV.Types
