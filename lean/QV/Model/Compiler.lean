import QV.Base.BExp
import QV.Model.Circuit
/-!
# Model of the internal compiler

`qlasskit/compiler/internalcompiler.py` (`InternalCompiler.compile`, `compile_expr` and the
`compile_*` methods), `compiler/expqmap.py` (`ExpQMap`) and the bookkeeping half of
`qcircuit/qcircuitenhanced.py` (`map_qubit`, `get_free_ancilla`, `mark_ancilla`, `uncompute`,
`remove_identities`, `uncompute_all`), written as total functions in a state+exception monad.

The model follows the compiler with the repairs `docs/fixes/CC-*.diff` (every named qubit is
promoted; `compile_not` negates in place only an ancilla computed by that very call; a symbol that
is rebound evicts the cached expressions that mention it; `compile_or` with more than two distinct
argument qubits folds binary ors into new ancillas; ancillas are released after a statement only
when the statement's result is kept to the end, otherwise `keep_ancillas`).

Two things the Python code leaves to CPython:
* `free_ancilla_lst.pop()` pops an arbitrary element of a `set`: the popped qubits are logged
  from the real run and passed as `choices` (an *input* of the model); the model checks each is
  admissible.
* `list(set(erets))` iterates a set.  Where only the *set* matters (controls of one MCX, a run of
  CX gates on one target) the model sorts and the harness sorts on the code side before
  comparing.  The or-chain of `compile_or` depends on the order itself: `pySetOrder` reproduces
  CPython's iteration order of a `set` built from a list of small non-negative ints (hash table
  with linear probing and perturbation, `Objects/setobject.c`); the model checks that the result
  is a permutation of the sorted list and raises a `model:` error otherwise.

Hybrid `Q.*` gates (`QuantumBooleanGate`) are not modelled (`unsupported`).
The model raises *events* (`cacheHit`, `destAmongArgs`, `inplaceNot`, `xorRepl`, `staleReplay`) as
diagnostics at the sites where the unrepaired compiler went wrong.
-/
namespace QV.Compiler
open QV

structure QC where
  numQubits : Nat := 0
  gates : Array AGate := #[]
  gatesComputed : Array AGate := #[]
  /-- `qubit_map`: insertion-ordered dict -/
  qmap : List (String × Nat) := []
  anc : List Nat := []
  free : List Nat := []
  marked : List Nat := []
  /-- `kept_ancillas`: ancillas of statements whose result `uncompute_all` will undo; never marked again -/
  kept : List Nat := []
  nextGid : Nat := 1
  /-- shadow bookkeeping for attribution only (no influence on the emitted gates): a version
  per qubit, bumped to a fresh number whenever the qubit is targeted -/
  vers : List (Nat × Nat) := []
  nextVer : Nat := 1
  /-- per gate object: versions of its controls at first application, version of its target
  before and after -/
  gateVers : List (Nat × (List Nat × Nat × Nat)) := []
  deriving Repr, Inhabited

structure CState where
  qc : QC := {}
  /-- `ExpQMap.exp_map`: insertion-ordered dict keyed by (structurally compared) expression -/
  expq : List (BExp × Nat) := []
  choices : List Nat := []
  inputs : List String := []
  events : List String := []
  deriving Inhabited

abbrev M := StateT CState (Except String)

def setIns (s : List Nat) (x : Nat) : List Nat := if s.contains x then s else s ++ [x]

def dictSet (d : List (String × Nat)) (k : String) (v : Nat) : List (String × Nat) :=
  if d.any (·.1 == k) then d.map (fun p => if p.1 == k then (k, v) else p) else d ++ [(k, v)]

def dictGet? (d : List (String × Nat)) (k : String) : Option Nat := (d.find? (·.1 == k)).map (·.2)

def modQC (f : QC → QC) : M Unit := modify fun s => { s with qc := f s.qc }
def getQC : M QC := do return (← get).qc
def event (e : String) : M Unit := modify fun s => { s with events := s.events ++ [e] }

/-- `qc[name]` (KeyError when absent) -/
def lookup (name : String) : M Nat := do
  match dictGet? (← getQC).qmap name with
  | some i => pure i
  | none => throw s!"KeyError {name}"

/-- `QCircuit.add_qubit(name)` -/
def addQubit (name : String) : M Nat := do
  let qc ← getQC
  modQC fun qc => { qc with qmap := dictSet qc.qmap name qc.numQubits, numQubits := qc.numQubits + 1 }
  pure qc.numQubits

def verOf (qc : QC) (q : Nat) : Nat := ((qc.vers.find? (·.1 == q)).map (·.2)).getD 0
def setVer (vs : List (Nat × Nat)) (q v : Nat) : List (Nat × Nat) := (q, v) :: vs.filter (·.1 != q)

/-- `QCircuit.append`; `gid = none` creates a new gate object, `some (i, orig)` re-appends gate
object `i` (a replay of the gate first applied as object `orig`).  Returns whether a replay
found one of its controls changed since the first application (`staleReplay`). -/
def appendG (cls : GClass) (wires : List Nat) (gid : Option (Nat × Nat)) : M Bool := do
  let qc ← getQC
  let g0 : AGate := { cls := cls, wires := wires }
  match appendError qc.numQubits g0 with
  | some e => throw e
  | none =>
    let t := wires.getLast?.getD 0
    let ctl := wires.dropLast.map (verOf qc)
    match gid with
    | some (i, orig) =>
      let g := { g0 with gid := i }
      let (stale, newVer) := match qc.gateVers.find? (·.1 == orig) with
        | some (_, (c, before, after)) =>
          (c != ctl, if verOf qc t == after then before else qc.nextVer)
        | none => (false, qc.nextVer)
      modQC fun qc => { qc with gates := qc.gates.push g,
                                gatesComputed := if cls.isNop then qc.gatesComputed else qc.gatesComputed.push g,
                                vers := if cls.isNop then qc.vers else setVer qc.vers t newVer,
                                nextVer := qc.nextVer + 1 }
      pure stale
    | none =>
      let g := { g0 with gid := qc.nextGid }
      modQC fun qc => { qc with gates := qc.gates.push g,
                                gatesComputed := if cls.isNop then qc.gatesComputed else qc.gatesComputed.push g,
                                nextGid := qc.nextGid + 1,
                                vers := if cls.isNop then qc.vers else setVer qc.vers t qc.nextVer,
                                gateVers := (qc.nextGid, (ctl, verOf qc t, qc.nextVer)) :: qc.gateVers,
                                nextVer := qc.nextVer + 1 }
      pure false

def append (cls : GClass) (wires : List Nat) : M Unit := do discard <| appendG cls wires none

def xGate (w : Nat) : M Unit := append .X [w]
def cx (a b : Nat) : M Unit := append .CX [a, b]
def mcx (cs : List Nat) (t : Nat) : M Unit := append (.MCX cs.length) (cs ++ [t])

/-- `QCircuitEnhanced.get_free_ancilla` (the popped element is the next logged choice) -/
def getFreeAncilla : M Nat := do
  let s ← get
  let qc := s.qc
  match s.choices with
  | [] => throw "model: choices exhausted"
  | c :: rest =>
    set { s with choices := rest }
    if qc.free.isEmpty then
      let i ← addQubit s!"anc_{qc.anc.length}"
      modQC fun qc => { qc with anc := setIns qc.anc i }
      if i != c then throw s!"model: new ancilla {i} but logged choice {c}"
      pure i
    else
      if !qc.free.contains c then throw s!"model: logged choice {c} not in the free set {qc.free}"
      modQC fun qc => { qc with free := qc.free.erase c }
      pure c

/-- `mark_ancilla`: `if w in self.ancilla_lst and w not in self.kept_ancillas` -/
def markAncilla (w : Nat) : M Unit := do
  let qc ← getQC
  if qc.anc.contains w && !qc.kept.contains w then
    modQC fun qc => { qc with marked := setIns qc.marked w }

/-- `keep_ancillas`: `kept_ancillas |= ancilla_lst - free_ancilla_lst; marked_ancillas = set()` -/
def keepAncillas : M Unit :=
  modQC fun qc => { qc with kept := (qc.anc.filter (fun a => !qc.free.contains a)).foldl setIns qc.kept,
                            marked := [] }

def markAll : List Nat → M Unit
  | [] => pure ()
  | w :: ws => do markAncilla w; markAll ws

/-- `ExpQMap.remove` -/
def expqRemove (qs : List Nat) : M Unit :=
  modify fun s => { s with expq := s.expq.filter (fun p => !qs.contains p.2) }

/-- `ExpQMap.__setitem__` -/
def expqSet (e : BExp) (q : Nat) : M Unit := do
  expqRemove [q]
  modify fun s =>
    if s.expq.any (·.1 == e) then { s with expq := s.expq.map (fun p => if p.1 == e then (e, q) else p) }
    else { s with expq := s.expq ++ [(e, q)] }

/-- `ExpQMap.remove_symbol`: drop the keys that mention the symbol -/
def expqRemoveSymbol (x : String) : M Unit :=
  modify fun s => { s with expq := s.expq.filter (fun p => !p.1.syms.contains x) }

def expqGet? (e : BExp) : M (Option Nat) := do
  return ((← get).expq.find? (·.1 == e)).map (·.2)

/-- `get_key_by_index`: the last name mapped to the index -/
def keyByIndex? (qmap : List (String × Nat)) (i : Nat) : Option String :=
  (qmap.reverse.find? (·.2 == i)).map (·.1)

/-- `QCircuitEnhanced.map_qubit` -/
def mapQubit (name : String) (index : Nat) (promote : Bool) : M Unit := do
  let qc ← getQC
  if promote && qc.anc.contains index then
    modQC fun qc => { qc with anc := qc.anc.erase index }
    match keyByIndex? qc.qmap index with
    | some k => modQC fun qc => { qc with qmap := qc.qmap.filter (·.1 != k) }
    | none => pure ()
  modQC fun qc => { qc with qmap := dictSet qc.qmap name index }

def _root_.QV.AGate.target (g : AGate) : Nat := g.wires.getLast?.getD 0

/-- replay loop of `uncompute` over `reversed(gates_computed)` -/
def uncomputeLoop (marked : List Nat) : List AGate → List Nat → List AGate → M (List Nat × List AGate)
  | [], unc, keepRev => pure (unc, keepRev)
  | g :: gs, unc, keepRev => do
    if marked.contains g.target then
      if ← appendG g.cls g.wires (some (g.gid, g.gid)) then event "staleReplay"
      uncomputeLoop marked gs (setIns unc g.target) keepRev
    else
      uncomputeLoop marked gs unc (keepRev ++ [g])

/-- `QCircuitEnhanced.uncompute()` -/
def uncompute : M (List Nat) := do
  let qc ← getQC
  if qc.marked.isEmpty then return []
  let (unc, keepRev) ← uncomputeLoop qc.marked qc.gatesComputed.toList.reverse [] []
  modQC fun qc' => { qc' with
    free := qc.marked.foldl setIns qc'.free,
    marked := qc.marked.filter (fun x => !unc.contains x),
    gatesComputed := keepRev.reverse.toArray }
  return unc

/-- `if result and isinstance(result[-1][0], Barrier): result.pop()` (result kept reversed) -/
def popBarrier (res : List AGate) : List AGate :=
  match res with
  | [] => []
  | r :: rs => if r.cls == .Barrier then rs else res

/-- `remove_identities` on a gate list.  Tuple equality: same gate object (gid), equal
wires, equal param; only pairs of self-inverse gates are cancelled. -/
def removeIdentitiesLoop : Nat → List AGate → List AGate → List AGate
  | 0, _, res => res.reverse
  | _, [], res => res.reverse
  | fuel+1, g :: rest, res =>
    match rest with
    | g1 :: rest1 =>
      if g.cls.isSelfInverse && g == g1 then
        removeIdentitiesLoop fuel rest1 (popBarrier res)
      else
        match rest1 with
        | g2 :: rest2 =>
          if g.cls.isSelfInverse && g == g2 && g1.cls == .Barrier then
            removeIdentitiesLoop fuel rest2 (popBarrier res)
          else removeIdentitiesLoop fuel rest (g :: res)
        | [] => removeIdentitiesLoop fuel rest (g :: res)
    | [] => removeIdentitiesLoop fuel rest (g :: res)

def removeIdentitiesList (gs : List AGate) : List AGate :=
  removeIdentitiesLoop (gs.length + 1) gs []

def removeIdentities : M Unit := do
  let qc ← getQC
  modQC fun q => { q with gates := (removeIdentitiesList qc.gates.toList).toArray }

/-- loop of `uncompute_all` over `reversed(deepcopy(gates))`; `off` renumbers the copied gate
objects; `alreadyFree` is the free set as it was when the loop started -/
def uncomputeAllLoop (keep alreadyFree : List Nat) (off : Nat) : List AGate → M Unit
  | [] => pure ()
  | g :: gs => do
    let cur ← getQC
    let t := g.target
    if g.cls.isNop || keep.contains t || alreadyFree.contains t then
      uncomputeAllLoop keep alreadyFree off gs
    else
      if cur.anc.contains t then
        modQC fun q => { q with free := setIns q.free t }
      if ← appendG g.cls g.wires (some (g.gid + off, g.gid)) then event "staleReplay"
      uncomputeAllLoop keep alreadyFree off gs

/-- `uncompute_all(keep)` -/
def uncomputeAll (keep : List Nat) : M Unit := do
  let qc ← getQC
  uncomputeAllLoop keep qc.free qc.nextGid qc.gates.toList.reverse
  modQC fun q => { q with nextGid := q.nextGid + qc.nextGid }

/-- ascending sort of qubit indices (the sorted permutation is unique, so any sorting
algorithm gives the same list; `List.mergeSort` comes with the lemmas the proofs need) -/
def sortNat (l : List Nat) : List Nat := l.mergeSort (fun a b => decide (a ≤ b))

def cxAll (d : Nat) : List Nat → M Unit
  | [] => pure ()
  | i :: is => do cx i d; cxAll d is

/-! ### `list(set(erets))` in CPython -/

/-- probing of `set_add_entry` / `set_insert_clean`: from slot `i` look at `LINEAR_PROBES = 9` further
slots when they fit below the mask, then jump by `i*5 + 1 + (perturb >>= 5)`.  Returns the slot and
whether it already holds the key. -/
def pySlot (tbl : Array (Option Nat)) (mask key : Nat) : Nat → Nat → Nat → Option (Nat × Bool)
  | 0, _, _ => none
  | fuel+1, i, perturb =>
    let probes := if i + 9 ≤ mask then 9 else 0
    match (List.range (probes + 1)).findSome? (fun j =>
        match tbl[i + j]? with
        | some none => some (i + j, false)
        | some (some k) => if k == key then some (i + j, true) else none
        | none => none) with
    | some r => some r
    | none =>
      let p := perturb >>> 5
      pySlot tbl mask key fuel ((i * 5 + 1 + p) % (mask + 1)) p

def pyInsert (tbl : Array (Option Nat)) (mask key : Nat) : Option (Array (Option Nat) × Bool) :=
  match pySlot tbl mask key (4 * (mask + 1) + 64) (key % (mask + 1)) key with
  | some (_, true) => some (tbl, false)
  | some (i, false) => some (tbl.set! i (some key), true)
  | none => none

/-- `newsize = PySet_MINSIZE; while (newsize <= minused) newsize <<= 1` -/
def pyNewSize : Nat → Nat → Nat → Nat
  | 0, sz, _ => sz
  | fuel+1, sz, minused => if sz ≤ minused then pyNewSize fuel (sz * 2) minused else sz

/-- one `set_add_key` (`hash(i) = i`): insert, then resize to `used * 4` when `fill * 5 ≥ mask * 3` -/
def pySetAdd (st : Option (Array (Option Nat) × Nat × Nat)) (key : Nat) :
    Option (Array (Option Nat) × Nat × Nat) :=
  match st with
  | none => none
  | some (tbl, mask, fill) =>
    match pyInsert tbl mask key with
    | none => none
    | some (tbl', added) =>
      if !added then some (tbl', mask, fill)
      else
        let fill' := fill + 1
        if fill' * 5 < mask * 3 then some (tbl', mask, fill')
        else
          let newsize := pyNewSize 64 8 (fill' * 4)
          let nm := newsize - 1
          let nt := tbl'.toList.foldl (fun (acc : Option (Array (Option Nat))) e =>
            match acc, e with
            | some t, some k => (pyInsert t nm k).map (·.1)
            | a, _ => a) (some (Array.replicate newsize none))
          nt.map (fun t => (t, nm, fill'))

/-- `list(set(l))` for a list of small non-negative ints (CPython 3.12) -/
def pySetOrder (l : List Nat) : List Nat :=
  match l.foldl pySetAdd (some (Array.replicate 8 none, 7, 0)) with
  | some (tbl, _, _) => tbl.toList.filterMap id
  | none => []

/-- the fold of binary ors of `compile_or` (more than two distinct argument qubits): every
intermediate result goes to a new marked ancilla, the last one to `dest` -/
def orChain (dest : Nat) : Nat → List Nat → M Unit
  | _, [] => pure ()
  | acc, [i] => do
    cx acc dest
    cx i dest
    mcx [acc, i] dest
  | acc, i :: rest => do
    let d ← getFreeAncilla
    markAncilla d
    cx acc d
    cx i d
    mcx [acc, i] d
    orChain dest d rest

/-- step 4 of `compile_or` for more than two distinct argument qubits; `erets` is the argument
list the set is built from, `es` its sorted duplicate-free form -/
def orWide (dest : Nat) (erets es : List Nat) : M Unit := do
  let o := pySetOrder erets
  if sortNat o != es then throw "model: iteration order of set(erets) not reproduced"
  match o with
  | [] => pure ()
  | a :: rest => orChain dest a rest

def constFalse : M Nat := do
  if (dictGet? (← getQC).qmap "FALSE").isNone then discard <| addQubit "FALSE"
  lookup "FALSE"

def constTrue : M Nat := do
  if (dictGet? (← getQC).qmap "TRUE").isNone then
    discard <| addQubit "TRUE"
    xGate (← lookup "TRUE")
  lookup "TRUE"

/-- `compile_symbol` -/
def compileSymbol (n : String) (sym : Option String) : M Nat := do
  match sym with
  | some s =>
    if s.startsWith "_ret" then
      if (← get).inputs.contains n then
        let iret ← addQubit s
        cx (← lookup n) iret
        return iret
      else
        let q ← lookup n
        -- an alias of an argument qubit is copied like the argument itself
        if q < (← get).inputs.length then
          let iret ← addQubit s
          cx q iret
          return iret
        return q
  | none => pure ()
  match dictGet? (← getQC).qmap n with
  | some i => pure i
  | none => throw s!"CompilerException: Symbol not found in qc: {n}"

/-- step 3 of `compile_expr`: the expression is cached on qubit `q`; an accumulating caller
gets the cached value xor-ed into its destination -/
def cacheHit (q : Nat) (dest : Option Nat) : M Nat := do
  event "cacheHit"
  match dest with
  | some d =>
    if d != q then
      cx q d
      pure d
    else pure q
  | none => pure q

def isSym : BExp → Bool
  | .sym _ => true
  | _ => false

mutual
/-- `compile_expr(qc, expr, dest, sym)` -/
def compileExpr (e : BExp) (dest : Option Nat) (sym : Option String) : M Nat :=
  match e with
  | .ff => constFalse
  | .tt => constTrue
  | .sym n => compileSymbol n sym
  | .xor args => do
    match ← expqGet? (.xor args) with
    | some q => cacheHit q dest
    | none =>
      let d ← match dest with | some d => pure d | none => getFreeAncilla
      let d' ← compileXorArgs args d
      if dest.isNone then expqSet (.xor args) d'
      pure d'
  | .not a => do
    match ← expqGet? (.not a) with
    | some q => cacheHit q dest
    | none =>
      let selfNot : Bool := match a, sym with
        | .sym n, some s => n == s
        | _, _ => false
      if selfNot then
        match sym with
        | some s => do
          let iret ← lookup s
          xGate iret
          pure iret
        | none => throw "unreachable"
      else
        -- `shared = expr.args[0] in self.expqmap`: already computed, someone else may read it
        let shared := (← expqGet? a).isSome
        let eret ← compileExpr a none none
        if dest.isNone && (← getQC).anc.contains eret && !shared then
          event "inplaceNot"
          xGate eret
          expqSet (.not a) eret
          pure eret
        else
          let d ← match dest with | some d => pure d | none => getFreeAncilla
          cx eret d
          xGate d
          markAncilla eret
          if dest.isNone then expqSet (.not a) d
          pure d
  | .and args => do
    match ← expqGet? (.and args) with
    | some q => cacheHit q dest
    | none =>
      let erets ← compileArgs args
      let d ← match dest with | some d => pure d | none => getFreeAncilla
      if erets.contains d then event "destAmongArgs"
      let erets := if erets.contains d then erets.erase d else erets
      let es := sortNat erets.eraseDups
      mcx es d
      markAll es
      if dest.isNone then expqSet (.and args) d
      pure d
  | .or args => do
    match ← expqGet? (.or args) with
    | some q => cacheHit q dest
    | none =>
      let erets ← compileArgs args
      let d ← match dest with | some d => pure d | none => getFreeAncilla
      if erets.contains d then event "destAmongArgs"
      let erets := if erets.contains d then erets.erase d else erets
      let es := sortNat erets.eraseDups
      if es.length ≤ 2 then
        cxAll d es
        if es.length == 2 then mcx es d
      else
        orWide d erets es
      markAll es
      if dest.isNone then expqSet (.or args) d
      pure d
  | .ite _ _ _ => throw "CompilerException"
  | .imp _ _ => throw "CompilerException"
/-- `list(map(lambda e: self.compile_expr(qc, e), expr.args))` -/
def compileArgs : List BExp → M (List Nat)
  | [] => pure []
  | a :: as => do
    let r ← compileExpr a none none
    let rs ← compileArgs as
    pure (r :: rs)
/-- the argument loop of `compile_xor` with accumulator `d` -/
def compileXorArgs : List BExp → Nat → M Nat
  | [], d => pure d
  | (.sym n) :: as, d => do
    let q ← lookup n
    if q == d then compileXorArgs as d
    else do
      cx q d
      compileXorArgs as d
  | (.not (.sym n)) :: as, d => do
    let d' ← compileExpr (.not (.sym n)) (some d) none
    if d' != d then event "xorRepl"
    compileXorArgs as d'
  | (.not inner) :: as, d => do
    let d' ← compileExpr inner (some d) none
    if d' != d then event "xorRepl"
    xGate d'
    compileXorArgs as d'
  | a :: as, d => do
    let d' ← compileExpr a (some d) none
    if d' != d then event "xorRepl"
    compileXorArgs as d'
end

/-- `not uncompute or returns is None or sym.name in returns.bitvec`: the statement's result is
kept to the end, its ancillas can be released right after the statement -/
def inlineUncompute (retBits : Option (List String)) (doUncompute : Bool) (s : String) : Bool :=
  !doUncompute || match retBits with
    | none => true
    | some rb => rb.contains s

/-- the statement loop of `compile` -/
def compileDefs (retBits : Option (List String)) (doUncompute : Bool) : List (String × BExp) → M Unit
  | [] => pure ()
  | (s, e) :: rest => do
    let iret ← compileExpr e none (some s)
    expqRemoveSymbol s
    expqSet (.sym s) iret
    mapQubit s iret true
    if inlineUncompute retBits doUncompute s then
      let unc ← uncompute
      expqRemove unc
    else
      keepAncillas
    compileDefs retBits doUncompute rest

def addInputs : List String → M Unit
  | [] => pure ()
  | n :: ns => do discard <| addQubit n; addInputs ns

/-- `InternalCompiler.compile(name, args, returns, exprs, uncompute)`; `retBits = none` is
`returns=None` (the decompiler's `exprs_to_quantum`) -/
def compile (inputs : List String) (exprs : List (String × BExp)) (retBits : Option (List String))
    (doUncompute : Bool) : M Unit := do
  modify fun s => { s with inputs := inputs }
  addInputs inputs
  compileDefs retBits doUncompute exprs
  removeIdentities
  match retBits with
  | some rb =>
    if doUncompute then
      let qc ← getQC
      uncomputeAll (rb.filterMap (dictGet? qc.qmap))
  | none => pure ()

/-! ## Reference semantics of a definition list and validators -/

/-- sequential evaluation of `[(sym, exp)]` starting from the input assignment; later
bindings of a name shadow earlier ones -/
def evalDefs (defs : List (String × BExp)) (ρ : List (String × Bool)) : List (String × Bool) :=
  defs.foldl (fun env (p : String × BExp) => (p.1, p.2.eval (envOf env)) :: env) ρ

/-- all bit lists of length `n` -/
def allBits : Nat → List (List Bool)
  | 0 => [[]]
  | n+1 => (allBits n).flatMap fun l => [false :: l, true :: l]

/-- initial basis state: inputs on qubits `0..n-1`, zeros elsewhere -/
def initState (x : List Bool) (numQubits : Nat) : BState :=
  x ++ List.replicate (numQubits - x.length) false

/-- C02 on one input: every listed return bit is mapped and its qubit ends with the value
of its expression -/
def checkOutputs (gates : List AGate) (numQubits : Nat) (qmap : List (String × Nat))
    (inputs : List String) (defs : List (String × BExp)) (rets : List String) (x : List Bool) : Bool :=
  let final := runClassical gates (initState x numQubits)
  let env := evalDefs defs (inputs.zip x)
  rets.all fun r =>
    match dictGet? qmap r with
    | none => false
    | some q => final.getD q false == envOf env r

def validate (gates : List AGate) (numQubits : Nat) (qmap : List (String × Nat))
    (inputs : List String) (defs : List (String × BExp)) (rets : List String) : Bool :=
  allClassical gates && (allBits inputs.length).all (checkOutputs gates numQubits qmap inputs defs rets)

/-- C03 on one input: argument qubits unchanged, every qubit that is neither an argument nor
in `outs` back to zero -/
def checkClean (gates : List AGate) (numQubits nIn : Nat) (outs : List Nat) (x : List Bool) : Bool :=
  let final := runClassical gates (initState x numQubits)
  (List.range numQubits).all fun q =>
    if q < nIn then final.getD q false == x.getD q false
    else if outs.contains q then true
    else final.getD q false == false

def validateClean (gates : List AGate) (numQubits nIn : Nat) (outs : List Nat) : Bool :=
  allClassical gates && (allBits nIn).all (checkClean gates numQubits nIn outs)

/-- C06 on one `(x, y)`: the output qubit ends as `y xor f(x)`, inputs unchanged, scratch zero -/
def checkXor (gates : List AGate) (numQubits nIn r : Nat) (f : List Bool → Bool) (x : List Bool) (y : Bool) : Bool :=
  let s0 := (initState x numQubits).set r y
  let final := runClassical gates s0
  (List.range numQubits).all fun q =>
    if q == r then final.getD q false == Bool.xor y (f x)
    else if q < nIn then final.getD q false == x.getD q false
    else final.getD q false == false

def validateXor (gates : List AGate) (numQubits nIn r : Nat) (f : List Bool → Bool) : Bool :=
  allClassical gates && (allBits nIn).all fun x => checkXor gates numQubits nIn r f x false && checkXor gates numQubits nIn r f x true

/-- the output qubit is never a control (hypothesis of `xor_oracle_of_clean`) -/
def retNeverControl (gates : List AGate) (r : Nat) : Bool :=
  gates.all fun g => !g.cls.isMCXLike || !(g.wires.dropLast.contains r)

/-- gates are X/CX/MCX-like with distinct in-range wires -/
def wellFormed (gates : List AGate) (numQubits : Nat) : Bool :=
  gates.all fun g => (g.cls.isMCXLike || g.cls.isNop) && g.wires.Nodup && g.wires.all (· < numQubits)
    && g.wires.length == g.cls.nQubits

/-! ## Decidable side conditions of the structural theorems (`QV/Props/C02.lean`) -/

/-- the name has the shape of an ancilla name `anc_<k>` created by `get_free_ancilla` -/
def ancLike (x : String) : Bool := x.toList.take 4 == ['a', 'n', 'c', '_']

/-- names the compiler itself binds to scratch qubits: the ancilla names (such a name is deleted when
its qubit is promoted under another name, and bound again when `get_free_ancilla` creates the next
ancilla).  A temporary `__x` is a name like any other since every named qubit is promoted. -/
def scratchName (x : String) : Bool := ancLike x

/-- names the compiler binds on its own: constants, ancillas -/
def reservedName (x : String) : Bool := x == "FALSE" || x == "TRUE" || scratchName x

/-! ## The decidable class of the semantic fragment theorem (`QV.C02.C02_fragment_partial`) -/

mutual
/-- the compound (non-symbol) sub-expressions of an expression, with repetitions: the keys
`compile_expr` looks up in / adds to the expression cache while compiling it -/
def compSubs : BExp → List BExp
  | .sym _ => []
  | .tt => [.tt]
  | .ff => [.ff]
  | .not a => .not a :: compSubs a
  | .and l => .and l :: compSubsList l
  | .or l => .or l :: compSubsList l
  | .xor l => .xor l :: compSubsList l
  | .ite c t e => [.ite c t e]
  | .imp a b => [.imp a b]
def compSubsList : List BExp → List BExp
  | [] => []
  | a :: as => compSubs a ++ compSubsList as
end

mutual
/-- built from symbols of `inputs` with `Not` / `And` / `Or` / `Xor` only -/
def overInputs (inputs : List String) : BExp → Bool
  | .sym n => inputs.contains n
  | .not a => overInputs inputs a
  | .and l => overInputsList inputs l
  | .or l => overInputsList inputs l
  | .xor l => overInputsList inputs l
  | _ => false
def overInputsList (inputs : List String) : List BExp → Bool
  | [] => true
  | a :: as => overInputs inputs a && overInputsList inputs as
end

/-- pairwise different under the structural comparison the cache uses -/
def distinctB : List BExp → Bool
  | [] => true
  | x :: xs => xs.all (fun y => !(x == y)) && distinctB xs

/-- no compound sub-expression occurs twice -/
def treeLike (e : BExp) : Bool := distinctB (compSubs e)

/-- the decidable class covered by `QV.C02.C02_fragment_partial`: one definition `r = e`; argument names
pairwise distinct, different from `r` and not reserved (`TRUE`, `FALSE`, `__…`, `anc_…`); `e` built
from argument symbols with `Not`/`And`/`Or`/`Xor` only (`overInputs`); no compound sub-expression
of `e` occurs twice under the structural comparison the cache uses (`treeLike`); every requested
return name is `r` -/
def inFragment (inputs : List String) (defs : List (String × BExp)) (rets : List String) : Bool :=
  match defs with
  | [(r, e)] =>
    decide inputs.Nodup && inputs.all (fun n => n != r && !reservedName n) &&
      overInputs inputs e && treeLike e && rets.all (· == r)
  | _ => false

/-! ## The widened classes of the semantic fragment theorems
(`QV.C02.C02_fragment_consts`, `C02_fragment_multi`, `C02_fragment_named`; proofs in `QV/Proofs/CompilerSem2*.lean`) -/

mutual
/-- the keys `compile_expr` looks up in / adds to the expression cache while compiling an expression: its
`Not` / `And` / `Or` / `Xor` sub-expressions, with repetitions (constants and symbols are answered before the
cache is consulted, steps 1 and 2 of `compile_expr`) -/
def compKeys : BExp → List BExp
  | .not a => .not a :: compKeys a
  | .and l => .and l :: compKeysList l
  | .or l => .or l :: compKeysList l
  | .xor l => .xor l :: compKeysList l
  | _ => []
def compKeysList : List BExp → List BExp
  | [] => []
  | a :: as => compKeys a ++ compKeysList as
end

/-- symbol or constant: compiled without a gate on a scratch qubit -/
def isLeaf : BExp → Bool
  | .sym _ => true
  | .tt => true
  | .ff => true
  | _ => false

/-- an argument `compile_xor` cannot accumulate: a constant or `Not` of a constant (`compile_expr` answers
with the constant's qubit, which the loop then takes as its accumulator – event `xorRepl`) -/
def xorArgBad : BExp → Bool
  | .tt => true
  | .ff => true
  | .not .tt => true
  | .not .ff => true
  | _ => false

mutual
/-- expressions of the widened classes: symbols of `scope`, constants, `Not` / `And` / `Or` / `Xor`; no constant
(or negated constant) directly under `Xor`.  With `lax = false` (the multi-definition classes, where freed
ancillas are re-used) additionally: every `Or` has one or two arguments, or only compound arguments (De
Morgan's `X… MCX X…` on a symbol's qubit is not undone by the inline `uncompute`, which replays the `MCX` but
not the `X` gates – finding `C02-uncompute-stale`); no `Or` / `Xor` without arguments (its ancilla is never the
target of a gate, so `uncompute` frees it but leaves it marked) -/
def wfExp (scope : List String) (lax : Bool) : BExp → Bool
  | .sym n => scope.contains n
  | .tt => true
  | .ff => true
  | .not a => wfExp scope lax a
  | .and l => wfExpList scope lax l
  | .or l => wfExpList scope lax l &&
      (lax || (!l.isEmpty && (decide (l.length ≤ 2) || l.all (fun a => !isLeaf a))))
  | .xor l => wfExpList scope lax l && l.all (fun a => !xorArgBad a) && (lax || !l.isEmpty)
  | _ => false
def wfExpList (scope : List String) (lax : Bool) : List BExp → Bool
  | [] => true
  | a :: as => wfExp scope lax a && wfExpList scope lax as
end

/-- class (a) – `QV.C02.C02_fragment_consts`: `inFragment` plus the constants `True` / `False` anywhere in the
expression except directly (or under one `Not`) as an argument of `Xor`, and as the whole right-hand side;
the defined name is not `TRUE` / `FALSE` -/
def inFragmentConst (inputs : List String) (defs : List (String × BExp)) (rets : List String) : Bool :=
  match defs with
  | [(r, e)] =>
    decide inputs.Nodup && inputs.all (fun n => n != r && !reservedName n) && r != "TRUE" && r != "FALSE" &&
      wfExp inputs true e && distinctB (compKeys e) && rets.all (· == r)
  | _ => false

/-- a straight-line definition list: every left-hand side is a new, not reserved name; every right-hand side
reads only arguments and earlier left-hand sides and is in the expression class with `wideOr = false` -/
def slDefs (scope : List String) : List (String × BExp) → Bool
  | [] => true
  | (r, e) :: rest => !reservedName r && !scope.contains r && wfExp scope false e && slDefs (scope ++ [r]) rest

/-- class (c) – `QV.C02.C02_fragment_named` (final uncomputation off): straight-line definition lists with
named intermediates (`m0 = e0; _ret = f(m0, args)`, each intermediate read any number of times), argument
names distinct and not reserved, no cache key occurring twice in the whole list (within or across
definitions), every requested return name defined -/
def inFragmentNamed (inputs : List String) (defs : List (String × BExp)) (rets : List String) : Bool :=
  decide inputs.Nodup && inputs.all (fun n => !reservedName n) && slDefs inputs defs &&
    distinctB (defs.flatMap (fun p => compKeys p.2)) && rets.all (fun r => defs.any (fun p => p.1 == r))

/-- class (b) – `QV.C02.C02_fragment_multi` (final uncomputation off): several definitions, each an
independent tree over the arguments alone -/
def inFragmentMulti (inputs : List String) (defs : List (String × BExp)) (rets : List String) : Bool :=
  inFragmentNamed inputs defs rets && defs.all (fun p => wfExp inputs false p.2)

/-- what the driver reports as `in_fragment`: some semantic fragment theorem of `QV.C02` applies to the run -/
def inAnyFragment (inputs : List String) (defs : List (String × BExp)) (rets : List String) (unc : Bool) : Bool :=
  inFragment inputs defs rets || inFragmentConst inputs defs rets || (!unc && inFragmentNamed inputs defs rets)

end QV.Compiler
