import QV.Proofs.Front8
/-! C01: `SemW` against the exact `Sem` on statements and programs, and the claimed return bits. -/
namespace QV.Sem
open QV QV.Arith QV.Front

set_option linter.unusedSimpArgs false
set_option linter.unusedVariables false

theorem coerceRet_agree (ret : Ty) (xv : XVal) (sv : SVal) (h : Agree xv sv) (sv' : SVal) (xv' : XVal)
    (hw : coerceRet ret sv = some sv') (hx : coerceRetX ret xv = some xv') : Agree xv' sv' := by
  obtain ⟨v, k⟩ := xv
  cases sv with
  | bool b' =>
    cases v with
    | int _ _ => exact h.elim
    | bool b =>
      cases ret <;> simp only [coerceRet, coerceRetX, Option.some.injEq, reduceCtorEq] at hw hx
      subst hw; subst hx; exact h
  | int a' y =>
    cases v with
    | bool _ => exact h.elim
    | int a x =>
      obtain rfl : a' = a := h.1
      cases ret with
      | qint b =>
        simp only [coerceRet, coerceRetX] at hw hx
        by_cases hab : a' ≤ b
        · simp only [hab, if_true, Option.some.injEq] at hw hx
          subst hw; subst hx
          refine ⟨rfl, Nat.lt_of_lt_of_le h.2.1 (two_pow_le hab), h.2.2.1, fun j hj => ?_⟩
          obtain ⟨h1, h2⟩ := h.2.2.2 j hj
          exact ⟨Nat.le_trans h1 hab, h2⟩
        · simp only [hab, if_false, Option.some.injEq] at hw hx
          subst hw; subst hx
          apply mkInt_agree _ _ _ _ (Nat.mod_lt _ (Nat.pow_pos (by decide)))
          intro j hj hwi
          rw [natmod_cong _ hj]
          exact agree_cong h hwi
      | bool => simp [coerceRet] at hw
      | qchar => simp [coerceRet] at hw
      | tuple _ => simp [coerceRet] at hw

theorem envAgree_set {σX : XEnv} {σW : SEnv} (h : EnvAgree σX σW) (t : String) {xv : XVal} {sv : SVal}
    (ha : Agree xv sv) : EnvAgree (σX.set t xv) (σW.set t sv) := by
  intro n xv' sv' hx hw
  simp only [XEnv.set] at hx
  simp only [SEnv.set] at hw
  by_cases hn : (n == t) = true
  · simp only [hn, if_true, Option.some.injEq] at hx hw
    subst hx; subst hw; exact ha
  · simp only [hn, if_false] at hx hw
    exact h n xv' sv' hx hw

theorem semBody_agree (ret : Ty) :
    ∀ (ss : List Stmt) (σX : XEnv) (σW : SEnv), EnvAgree σX σW → ∀ (sv : SVal) (xv : XVal),
      semBody ret σW ss = some sv → semBodyX ret σX ss = some xv → Agree xv sv
  | [], _, _, _, sv, xv, hw, _ => by simp [semBody] at hw
  | .assign t e :: ss, σX, σW, henv, sv, xv, hw, hx => by
    simp only [semBody] at hw
    simp only [semBodyX] at hx
    cases hw1 : semW σW e with
    | none => simp [hw1] at hw
    | some s1 =>
    cases hx1 : sem σX e with
    | none => simp [hx1] at hx
    | some x1 =>
    simp only [hw1] at hw
    simp only [hx1] at hx
    exact semBody_agree ret ss _ _ (envAgree_set henv t (sem_agree σX σW henv e s1 x1 hw1 hx1)) sv xv hw hx
  | .ret e :: ss, σX, σW, henv, sv, xv, hw, hx => by
    simp only [semBody] at hw
    simp only [semBodyX] at hx
    cases hw1 : semW σW e with
    | none => simp [hw1] at hw
    | some s1 =>
    cases hx1 : sem σX e with
    | none => simp [hx1] at hx
    | some x1 =>
    simp only [hw1] at hw
    simp only [hx1] at hx
    exact coerceRet_agree ret x1 s1 (sem_agree σX σW henv e s1 x1 hw1 hx1) sv xv hw hx
  | .expr _ :: ss, σX, σW, henv, sv, xv, hw, hx => by
    simp only [semBody] at hw
    simp only [semBodyX] at hx
    exact semBody_agree ret ss σX σW henv sv xv hw hx
  | .unsupported _ :: ss, _, _, _, sv, xv, hw, _ => by simp [semBody] at hw

theorem envAgree_args (args : List (String × Ty)) (ρ : QV.Env) :
    EnvAgree (argsEnvX args ρ) (argsEnv args ρ) := by
  intro n xv sv hx hw
  simp only [argsEnvX] at hx
  simp only [argsEnv] at hw
  cases hf : args.find? (·.1 == n) with
  | none => simp [hf] at hw
  | some p =>
    obtain ⟨m, ty⟩ := p
    simp only [hf] at hx hw
    cases ty with
    | bool =>
      simp only [decodeArg, Option.some.injEq] at hx hw
      subst hx; subst hw
      exact fun _ => rfl
    | qint w =>
      simp only [decodeArg, Option.some.injEq] at hx hw
      subst hx; subst hw
      refine ⟨rfl, ?_, fun _ => rfl, fun j hj => (by cases hj)⟩
      have := valLE_lt ((Ty.names n (.qint w)).map ρ)
      simpa [Ty.names] using this
    | qchar => simp at hx
    | tuple _ => simp at hx

/-- `SemW` against `Sem` on whole (straight-line) programs -/
theorem semProg_agree (p : Prog) (ρ : QV.Env) (sv : SVal) (xv : XVal)
    (hw : semProg p ρ = some sv) (hx : semProgX p ρ = some xv) : Agree xv sv :=
  semBody_agree p.ret p.body _ _ (envAgree_args p.args ρ) sv xv hw hx

/-- every return bit the exact semantics claims is the bit of the fixed-width value -/
theorem agree_claim {xv : XVal} {sv : SVal} (h : Agree xv sv) (i : Nat) (b : Bool)
    (hc : xv.claim[i]? = some (some b)) : sv.bits[i]? = some b := by
  obtain ⟨v, k⟩ := xv
  cases sv with
  | bool b' =>
    cases v with
    | int _ _ => exact h.elim
    | bool b0 =>
      cases k with
      | some _ =>
        simp only [XVal.claim] at hc
        cases i <;> simp at hc
      | none =>
        simp only [XVal.claim] at hc
        cases i with
        | zero =>
          simp only [List.getElem?_cons_zero, Option.some.injEq] at hc
          subst hc
          simp [SVal.bits, h rfl]
        | succ _ => simp at hc
  | int w' y =>
    cases v with
    | bool _ => exact h.elim
    | int w x =>
      obtain rfl : w' = w := h.1
      simp only [XVal.claim] at hc
      generalize hn : claimWidth w' k = n at hc
      have hnw : n ≤ w' := by
        cases k <;> simp only [claimWidth] at hn <;> omega
      have hwi : Within n k := by
        intro k' hk'
        subst hk'
        simp only [claimWidth] at hn
        omega
      have hcong := agree_cong h hwi
      have hlen : (toBitsLE n (x % (2 : Int) ^ n).toNat).length = n := by simp
      by_cases hi : i < n
      · rw [List.getElem?_append_left (by simpa using hi)] at hc
        simp only [List.getElem?_map, Option.map_eq_some_iff, Option.some.injEq] at hc
        obtain ⟨b1, hb1, rfl⟩ := hc
        have e1 : toBitsLE n (x % (2 : Int) ^ n).toNat = (toBitsLE w' y).take n := by
          rw [take_toBitsLE hnw, ← toBitsLE_mod n y]
          congr 1
          apply Int.ofNat_inj.mp
          rw [cast_mod_pow2, toNat_emod_cast, hcong]
        rw [e1, List.getElem?_take_of_lt hi] at hb1
        simpa [SVal.bits] using hb1
      · rw [List.getElem?_append_right (by simpa using Nat.le_of_not_lt hi)] at hc
        simp only [List.getElem?_replicate] at hc
        split at hc <;> simp at hc

end QV.Sem
