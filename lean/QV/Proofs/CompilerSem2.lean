import QV.Proofs.CompilerSem2d
/-!
# Semantic correctness of the compiler model on wider classes – part 5: the statement loop and `compile`

* `uncompute_sem`: what the inline `uncompute` does to the qubit values (it runs `rep marked gates_computed`);
* `topExpr2`: the right-hand side of a definition compiled with `sym = some r` (constants, symbols – copied
  into a new qubit for a `_ret…` name –, compound expressions);
* `Inv` / `defs_sem`: the invariant between definitions (scratch space zero, no marks left, every gate of
  `gates_computed` targets an allocated qubit, cache keys are symbols or keys of earlier definitions) and its
  preservation by one definition – the step where `bennettF` shows that the freed ancillas are zero again;
* `compile_named_sem` (straight-line definition lists, final uncomputation off) and `compile_const_sem`
  (one definition with constants, final uncomputation on or off).
-/
namespace QV.Compiler
open QV

variable {scope : List String} {ρ : Env} {σ0 : FState} {wo : Bool}

/-! ### the inline `uncompute` -/

theorem applyF_congr {g g' : AGate} (h : g'.wires = g.wires) (f : FState) : applyF g' f = applyF g f := by
  unfold applyF; rw [h]

theorem mcx_nq_pos {cls : GClass} (h : cls.isMCXLike = true) : 0 < cls.nQubits := by
  cases cls <;> simp_all [GClass.isMCXLike, GClass.nQubits]

theorem uncomputeLoop_sem {marked : List Nat} :
    ∀ (gs : List AGate) (unc : List Nat) (keepRev : List AGate) {r : List Nat × List AGate} {s s' : CState},
    (uncomputeLoop marked gs unc keepRev).run s = .ok (r, s') →
    (∀ g ∈ gs, g.cls.isMCXLike = true) →
    cur σ0 s' = runF (gs.filter (fun g => marked.contains g.target)) (cur σ0 s) ∧
    s'.qc.qmap = s.qc.qmap ∧ s'.qc.numQubits = s.qc.numQubits ∧ s'.qc.free = s.qc.free ∧
    s'.qc.anc = s.qc.anc ∧ s'.qc.marked = s.qc.marked ∧ s'.expq = s.expq ∧
    (∀ x ∈ unc, x ∈ r.1) ∧ (∀ g ∈ gs, marked.contains g.target = true → g.target ∈ r.1) ∧
    r.2 = keepRev ++ gs.filter (fun g => !marked.contains g.target) ∧ s'.qc.kept = s.qc.kept
  | [], unc, keepRev, r, s, s', h, _ => by
    unfold uncomputeLoop at h
    obtain ⟨rfl, rfl⟩ := run_pure_ok.mp h
    exact ⟨rfl, rfl, rfl, rfl, rfl, rfl, rfl, fun x hx => hx, fun g hg => absurd hg List.not_mem_nil, by simp, rfl⟩
  | g :: gs, unc, keepRev, r, s, s', h, hm => by
    unfold uncomputeLoop at h
    dsimp only at h
    have hm' : ∀ g' ∈ gs, g'.cls.isMCXLike = true := fun g' hg' => hm g' (List.mem_cons_of_mem _ hg')
    rcases run_ite_ok.mp h with ⟨hc, h⟩ | ⟨hc, h⟩
    · obtain ⟨b, s1, happ, h1⟩ := run_bind_ok.mp h
      have ha := appendG_run happ
      obtain ⟨g', hgw, he⟩ := ha.cur_step (hm g List.mem_cons_self) σ0
      have hstep : cur σ0 s1 = stepF (cur σ0 s) g := by
        rw [he, applyF_congr hgw]
        unfold stepF; rw [hm g List.mem_cons_self]; rfl
      have rest : ∀ {s2 : CState}, s2.qc = s1.qc → s2.expq = s1.expq →
          (uncomputeLoop marked gs (setIns unc g.target) keepRev).run s2 = .ok (r, s') →
          cur σ0 s' = runF ((g :: gs).filter (fun g => marked.contains g.target)) (cur σ0 s) ∧
          s'.qc.qmap = s.qc.qmap ∧ s'.qc.numQubits = s.qc.numQubits ∧ s'.qc.free = s.qc.free ∧
          s'.qc.anc = s.qc.anc ∧ s'.qc.marked = s.qc.marked ∧ s'.expq = s.expq ∧
          (∀ x ∈ unc, x ∈ r.1) ∧ (∀ g' ∈ g :: gs, marked.contains g'.target = true → g'.target ∈ r.1) ∧
          r.2 = keepRev ++ (g :: gs).filter (fun g => !marked.contains g.target) ∧ s'.qc.kept = s.qc.kept := by
        intro s2 hq he2 h2
        obtain ⟨e1, e2, e3, e4, e5, e6, e7, e8, e9, e10, e11⟩ := uncomputeLoop_sem gs _ _ h2 hm'
        have hcur2 : cur σ0 s2 = cur σ0 s1 := by unfold cur; rw [hq]
        refine ⟨?_, by rw [e2, hq]; exact ha.qmap, by rw [e3, hq]; exact ha.nq, by rw [e4, hq]; exact ha.free,
          by rw [e5, hq]; exact ha.anc, by rw [e6, hq]; exact ha.marked, by rw [e7, he2]; exact ha.expq,
          fun x hx => e8 x (mem_setIns_of_mem hx), ?_, ?_, by rw [e11, hq]; exact ha.kept⟩
        · rw [e1, hcur2, hstep]
          simp only [List.filter_cons, hc, ↓reduceIte, runF_cons]
        · intro g'' hg'' hc''
          rcases List.mem_cons.mp hg'' with rfl | hg''
          · exact e8 _ mem_setIns_self
          · exact e9 g'' hg'' hc''
        · rw [e10]; simp only [List.filter_cons, hc, Bool.not_true, Bool.false_eq_true, ↓reduceIte]
      rcases run_ite_ok.mp h1 with ⟨_, h1⟩ | ⟨_, h1⟩
      · obtain ⟨u, s2, hev, h2⟩ := run_bind_ok.mp h1
        have := event_run hev; subst this
        exact rest (s2 := { s1 with events := s1.events ++ ["staleReplay"] }) rfl rfl h2
      · exact rest rfl rfl h1
    · have hc' : marked.contains g.target = false := by simpa using hc
      obtain ⟨e1, e2, e3, e4, e5, e6, e7, e8, e9, e10, e11⟩ := uncomputeLoop_sem gs _ _ h hm'
      refine ⟨?_, e2, e3, e4, e5, e6, e7, e8, ?_, ?_, e11⟩
      · rw [e1]; simp only [List.filter_cons, hc', Bool.false_eq_true, ↓reduceIte]
      · intro g'' hg'' hc''
        rcases List.mem_cons.mp hg'' with rfl | hg''
        · rw [hc'] at hc''; cases hc''
        · exact e9 g'' hg'' hc''
      · rw [e10]; simp only [List.filter_cons, hc', Bool.not_false, ↓reduceIte, List.append_assoc, List.singleton_append]

/-- **the inline `uncompute`**: the gates it appends act like `rep marked gates_computed`; the marked qubits
join the free set; a marked qubit that is the target of a gate of `gates_computed` loses its mark; the
replayed gates leave `gates_computed` -/
theorem uncompute_sem {r : List Nat} {s s' : CState} (h : uncompute.run s = .ok (r, s')) (hg : Good s) :
    cur σ0 s' = runF (rep s.qc.marked s.qc.gatesComputed.toList) (cur σ0 s) ∧
    s'.qc.qmap = s.qc.qmap ∧ s'.qc.numQubits = s.qc.numQubits ∧ s'.qc.anc = s.qc.anc ∧
    (∀ p ∈ s'.expq, p ∈ s.expq) ∧
    s'.qc.free = s.qc.marked.foldl setIns s.qc.free ∧
    s'.qc.marked = s.qc.marked.filter (fun x => !r.contains x) ∧
    (∀ g ∈ s.qc.gatesComputed.toList, s.qc.marked.contains g.target = true → g.target ∈ r) ∧
    s'.qc.gatesComputed.toList = s.qc.gatesComputed.toList.filter (fun g => !s.qc.marked.contains g.target) ∧
    s'.qc.kept = s.qc.kept := by
  unfold uncompute at h
  obtain ⟨qc, s1, hq, h1⟩ := run_bind_ok.mp h
  obtain ⟨rfl, rfl⟩ := getQC_run hq
  rcases run_ite_ok.mp h1 with ⟨hemp, h1⟩ | ⟨_, h1⟩
  · obtain ⟨rfl, rfl⟩ := run_pure_ok.mp h1
    have hm : s'.qc.marked = [] := by simpa using hemp
    rw [hm]
    have hf : ∀ l : List AGate, l.filter (fun g => ([] : List Nat).contains g.target) = [] :=
      fun l => List.filter_eq_nil_iff.mpr (by simp)
    have ht : ∀ l : List AGate, l.filter (fun g => !([] : List Nat).contains g.target) = l :=
      fun l => List.filter_eq_self.mpr (by simp)
    refine ⟨by unfold rep; rw [hf]; rfl, rfl, rfl, rfl, fun p hp => hp, rfl, rfl, fun g _ hc => by simp at hc,
      (ht _).symm, rfl⟩
  · obtain ⟨x, s2, hloop, h2⟩ := run_bind_ok.mp h1
    obtain ⟨e1, e2, e3, e4, e5, e6, e7, _, e9, e10, e11⟩ := uncomputeLoop_sem (σ0 := σ0) _ _ _ hloop
      (fun g hg' => (hg.comp_ok g (List.mem_reverse.mp hg')).1)
    obtain ⟨unc, keepRev⟩ := x
    dsimp only at h2
    obtain ⟨u, s3, hm, h3⟩ := run_bind_ok.mp h2
    obtain ⟨rfl, rfl⟩ := run_pure_ok.mp h3
    have := modQC_run hm; subst this
    dsimp only at e9 e10 ⊢
    refine ⟨?_, e2, e3, e5, fun p hp => by rw [← e7]; exact hp, by rw [e4], rfl, ?_, ?_, e11⟩
    · show runF s2.qc.gates.toList σ0 = _
      have : cur σ0 s2 = runF s2.qc.gates.toList σ0 := rfl
      rw [← this, e1]
      unfold rep
      rw [List.filter_reverse]
    · intro g hg' hc
      exact e9 g (List.mem_reverse.mpr hg') hc
    · show keepRev.reverse.toArray.toList = _
      rw [e10]
      simp [List.filter_reverse]

/-! ### the right-hand side of a definition -/

theorem Pre2.addQubit {name : String} {a : Nat} {s s' : CState} (hp : Pre2 scope ρ σ0 s)
    (hadd : (addQubit name).run s = .ok (a, s')) (hne : ∀ n, Known scope n → n ≠ name) :
    Pre2 scope ρ σ0 s' := by
  have hg : Good s' := (addQubit_ok (B := fun _ => True) hadd hp.good (Or.inl trivial)).1.good
  obtain ⟨rfl, rfl⟩ := addQubit_run hadd
  refine ⟨hg, ?_, ?_, ?_, hp.scopeOK, hp.freeNd, hp.freeAnc, hp.mkAnc, hp.keptNF⟩
  · intro q hq
    refine hp.zero q ?_
    rcases hq with hq | hq
    · exact Or.inl hq
    · exact Or.inr (by simp only at hq ⊢; omega)
  · intro n q hk hq
    have hq' : dictGet? (dictSet s.qc.qmap name s.qc.numQubits) n = some q := hq
    rw [dictGet?_dictSet_ne (hne n hk)] at hq'
    exact hp.tbl n q hk hq'
  · intro n hn
    obtain ⟨q, hq⟩ := hp.bound n hn
    refine ⟨q, ?_⟩
    show dictGet? (dictSet s.qc.qmap name s.qc.numQubits) n = some q
    rw [dictGet?_dictSet_ne (hne n (Or.inl hn))]; exact hq

/-- what the compilation of the right-hand side of `r = e` establishes -/
def TopGoal (scope : List String) (ρ : Env) (σ0 : FState) (wo : Bool) (K : BExp → Prop) (v : Bool)
    (s t : CState) (iret : Nat) : Prop :=
  Pre2 scope ρ σ0 t ∧
  Sem2 scope σ0 wo (CtlQ scope ρ t) NoQ K (fun m => Avail s m ∧ ¬ Avail t m ∧ m ≠ iret) s t ∧
  ¬ Avail t iret ∧ cur σ0 t iret = v

/-- `r = n` with `r` a return name: the symbol's qubit is copied (`CX`) into a new qubit named `r` -/
theorem copyTop {n r : String} {q a : Nat} {u : Unit} {s t0 t : CState} (hp : Pre2 scope ρ σ0 s)
    (hn : n ∈ scope) (hq : dictGet? s.qc.qmap n = some q) (hr : ∀ m, Known scope m → m ≠ r)
    (hadd : (addQubit r).run s = .ok (a, t0)) (hcx : (cx q a).run t0 = .ok (u, t)) :
    TopGoal scope ρ σ0 wo NoK (ρ n) s t a := by
  have hk : Known scope n := Or.inl hn
  have hp0 : Pre2 scope ρ σ0 t0 := hp.addQubit hadd hr
  obtain ⟨ea, sem0, hcur0, hn0, hf0, ha0, hm0, hqm0⟩ := addQubit_sem2 (wo := wo) (Q := CtlQ scope ρ t) hadd hp
    (fun m _ hkm _ => hr m hkm)
  have hq0 : dictGet? t0.qc.qmap n = some q := by rw [hqm0, dictGet?_dictSet_ne (hr n hk)]; exact hq
  have hnavq : ¬ Avail t0 q := hp0.sym_notAvail hk hq0
  have hava : Avail s a := Or.inr (by rw [ea]; exact Nat.le_refl _)
  have hpriv : Priv scope t0 a := by
    refine ⟨?_, fun m hkm hqm => ?_⟩
    · unfold Avail; rw [hf0, hn0, ea]
      rintro (h' | h')
      · exact absurd (hp.good.free_lt _ h') (Nat.lt_irrefl _)
      · omega
    · rw [hqm0, dictGet?_dictSet_ne (hr m hkm)] at hqm
      have := hp.good.qmap_lt _ (dictGet?_mem hqm)
      simp only at this; omega
  have hpt := cx_pre2 hcx hp0 hpriv hnavq
  have ac := cx_run hcx
  obtain ⟨_, semc, _⟩ := cx_sem2 (scope := scope) (σ0 := σ0) (wo := wo) (Q := CtlQ scope ρ t) hcx hpriv.1
    (fun _ => Or.inr ⟨n, hk, by rw [ac.qmap]; exact hq0, by
      rw [hcur0, (hp.tbl n q hk hq).2.2]⟩)
  have hnavt : ¬ Avail t a := fun h' => hpriv.1 (semc.avail a h')
  refine ⟨hpt, (sem0.trans' semc).mono ?_ (fun _ h' => h'.elim id id) (fun _ h' => (h'.elim id id).elim), hnavt, ?_⟩
  · rintro x hx (h' | h')
    · exact h'
    · rcases hx with hx | hx
      · exact hx (h' ▸ hava)
      · exact hnavt (h' ▸ hx)
  · rw [ac.cur_eq rfl σ0, hcur0, hp.zero a hava]
    simp only [List.all_cons, List.all_nil, Bool.and_true, Bool.false_bne]
    rw [(hp.tbl n q hk hq).2.2, kval_scope hp.scopeOK hn]

theorem topSym2 {n r : String} {iret : Nat} {s t : CState}
    (h : (compileSymbol n (some r)).run s = .ok (iret, t)) (hp : Pre2 scope ρ σ0 s) (hn : n ∈ scope)
    (hr : ∀ m, Known scope m → m ≠ r) : TopGoal scope ρ σ0 wo NoK (ρ n) s t iret := by
  have hk : Known scope n := Or.inl hn
  have alias : ∀ {a : Nat} {s' : CState}, StateT.run (do
      let qc ← getQC
      match dictGet? qc.qmap n with
        | some i => pure i
        | none => throw s!"CompilerException: Symbol not found in qc: {n}" : M Nat) s = .ok (a, s') →
      TopGoal scope ρ σ0 wo NoK (ρ n) s s' a := by
    intro a s' h
    obtain ⟨qc, s1, hq, h⟩ := run_bind_ok.mp h
    obtain ⟨rfl, rfl⟩ := getQC_run hq
    split at h
    · next j hj =>
      obtain ⟨rfl, rfl⟩ := run_pure_ok.mp h
      refine ⟨hp, Sem2.refl _, hp.sym_notAvail hk hj, ?_⟩
      rw [(hp.tbl n _ hk hj).2.2, kval_scope hp.scopeOK hn]
    · exact (run_throw_ok.mp h).elim
  unfold compileSymbol at h
  dsimp only at h
  split at h
  · rw [run_get_bind_ok] at h
    split at h
    · obtain ⟨a0, s2, hadd, h2⟩ := run_bind_ok.mp h
      obtain ⟨q, s3, hl, h3⟩ := run_bind_ok.mp h2
      have hg2 : Good s2 := (addQubit_ok (B := fun _ => True) hadd hp.good (Or.inl trivial)).1.good
      obtain ⟨e3, hq, _⟩ := lookup_ok hl hg2
      subst e3
      obtain ⟨u, s4, hcx, hpure⟩ := run_bind_ok.mp h3
      obtain ⟨e1, e2⟩ := run_pure_ok.mp hpure
      subst e1; subst e2
      have hq' : dictGet? s.qc.qmap n = some q := by
        have := (addQubit_run hadd).2
        rw [this] at hq
        have hq2 : dictGet? (dictSet s.qc.qmap r s.qc.numQubits) n = some q := hq
        rw [dictGet?_dictSet_ne (hr n hk)] at hq2
        exact hq2
      exact copyTop hp hn hq' hr hadd hcx
    · obtain ⟨q, s2, hl, h2⟩ := run_bind_ok.mp h
      obtain ⟨e2, hq, _⟩ := lookup_ok hl hp.good
      subst e2
      rw [run_get_bind_ok] at h2
      split at h2
      · obtain ⟨a0, s3, hadd, h3⟩ := run_bind_ok.mp h2
        obtain ⟨u, s4, hcx, hpure⟩ := run_bind_ok.mp h3
        obtain ⟨e1, e2⟩ := run_pure_ok.mp hpure
        subst e1; subst e2
        exact copyTop hp hn hq hr hadd hcx
      · obtain ⟨e1, e2⟩ := run_pure_ok.mp h2
        subst e1; subst e2
        refine ⟨hp, Sem2.refl _, hp.sym_notAvail hk hq, ?_⟩
        rw [(hp.tbl n _ hk hq).2.2, kval_scope hp.scopeOK hn]
  · exact alias h

theorem topExpr2 {e : BExp} {r : String} {iret : Nat} {s t : CState}
    (h : (compileExpr e none (some r)).run s = .ok (iret, t)) (hp : Pre2 scope ρ σ0 s)
    (hwf : wfExpW scope wo e = true) (hdist : Distinct (compKeys e)) (hr : ∀ m, Known scope m → m ≠ r)
    (hcache : ∀ p ∈ s.expq, ∀ c ∈ compKeys e, (p.1 == c) = false) :
    TopGoal scope ρ σ0 wo (· ∈ compKeys e) (e.eval ρ) s t iret := by
  have gen : isLeaf e = false → TopGoal scope ρ σ0 wo (· ∈ compKeys e) (e.eval ρ) s t iret := by
    intro hl
    obtain ⟨hp', sem, hv, _⟩ := exprSem2 (ρ := ρ) (σ0 := σ0) e hwf hdist none (some r) h hp hcache
      (by intro d hd; cases hd) (by intro x hx; cases hx; exact fun hm => hr r (Or.inl hm) rfl)
      (by intro hl'; rw [hl] at hl'; cases hl')
    obtain ⟨_, hnav, hval, _⟩ := hv rfl
    exact ⟨hp', sem.mono (fun _ _ h' => nomatch h') (fun _ h' => h') (fun _ h' => ⟨h'.1, h'.2.1, h'.2.2 rfl⟩),
      hnav, hval⟩
  cases e with
  | sym n =>
    unfold compileExpr at h
    obtain ⟨p, sem, hnav, hval⟩ := topSym2 (wo := wo) h hp (by simpa [wfExpW] using hwf) hr
    exact ⟨p, sem.mono (fun _ _ h' => h') (fun _ h' => h'.elim) (fun _ h' => h'), hnav, hval⟩
  | tt =>
    unfold compileExpr at h
    obtain ⟨hp', sem, hq⟩ := constTrue_sem2 (wo := wo) (Q := CtlQ scope ρ t) h hp
    have hk : Known scope "TRUE" := Or.inr (Or.inl rfl)
    refine ⟨hp', sem.mono (fun _ _ h' => h') (fun _ h' => h'.elim) (fun _ h' => h'.elim),
      hp'.sym_notAvail hk hq, ?_⟩
    rw [(hp'.tbl _ iret hk hq).2.2, kval_TRUE]; rfl
  | ff =>
    unfold compileExpr at h
    obtain ⟨hp', sem, hq⟩ := constFalse_sem2 (wo := wo) (Q := CtlQ scope ρ t) h hp
    have hk : Known scope "FALSE" := Or.inr (Or.inr rfl)
    refine ⟨hp', sem.mono (fun _ _ h' => h') (fun _ h' => h'.elim) (fun _ h' => h'.elim),
      hp'.sym_notAvail hk hq, ?_⟩
    rw [(hp'.tbl _ iret hk hq).2.2, kval_FALSE]; rfl
  | not a => exact gen rfl
  | and l => exact gen rfl
  | or l => exact gen rfl
  | xor l => exact gen rfl
  | ite a b c => simp [wfExpW] at hwf
  | imp a b => simp [wfExpW] at hwf

/-! ### the statement loop -/

theorem mapQubit_run2 {name : String} {index : Nat} {promote : Bool} {u : Unit} {s s' : CState}
    (h : (mapQubit name index promote).run s = .ok (u, s')) (hg : Good s) :
    s'.qc.gates = s.qc.gates ∧ s'.qc.gatesComputed = s.qc.gatesComputed ∧ s'.qc.marked = s.qc.marked ∧
    s'.qc.free = s.qc.free ∧ s'.qc.numQubits = s.qc.numQubits ∧ s'.expq = s.expq ∧ s'.qc.kept = s.qc.kept ∧
    (∀ x ∈ s'.qc.anc, x ∈ s.qc.anc) ∧ (promote = true → index ∉ s'.qc.anc) ∧
    (∀ x ∈ s.qc.anc, x ≠ index → x ∈ s'.qc.anc) ∧
    dictGet? s'.qc.qmap name = some index ∧
    (∀ x, scratchName x = false → x ≠ name → dictGet? s'.qc.qmap x = dictGet? s.qc.qmap x) := by
  unfold mapQubit at h
  dsimp only at h
  obtain ⟨qc, s1, hq, h⟩ := run_bind_ok.mp h
  obtain ⟨rfl, rfl⟩ := getQC_run hq
  split at h
  · next hc =>
    simp only [Bool.and_eq_true] at hc
    have hia : index ∈ s1.qc.anc := by simpa using hc.2
    obtain ⟨u2, s3, hm1, hmatch⟩ := run_bind_ok.mp h
    have := modQC_run hm1; subst this
    have hne : index ∉ s1.qc.anc.erase index := by
      rw [hg.anc_nodup.mem_erase_iff]; simp
    split at hmatch
    · next k hk =>
      obtain ⟨u3, s4, hm2, hm3⟩ := run_bind_ok.mp hmatch
      have := modQC_run hm2; subst this
      have := modQC_run hm3; subst this
      have hks : scratchName k = true := hg.anc_named _ (keyByIndex?_mem hk) hia
      refine ⟨rfl, rfl, rfl, rfl, rfl, rfl, rfl, fun x hx => List.mem_of_mem_erase hx, fun _ => hne,
        fun x hx hxi => (List.mem_erase_of_ne hxi).mpr hx, dictGet?_dictSet_self, fun x hx hxn => ?_⟩
      show dictGet? (dictSet _ _ _) _ = _
      rw [dictGet?_dictSet_ne hxn]
      exact dictGet?_filter_ne (by rintro rfl; rw [hks] at hx; cases hx)
    · have := modQC_run hmatch; subst this
      refine ⟨rfl, rfl, rfl, rfl, rfl, rfl, rfl, fun x hx => List.mem_of_mem_erase hx, fun _ => hne,
        fun x hx hxi => (List.mem_erase_of_ne hxi).mpr hx, dictGet?_dictSet_self, fun x hx hxn => ?_⟩
      show dictGet? (dictSet _ _ _) _ = _
      rw [dictGet?_dictSet_ne hxn]
  · next hc =>
    have := modQC_run h; subst this
    refine ⟨rfl, rfl, rfl, rfl, rfl, rfl, rfl, fun x hx => hx, fun hpt hia => hc ?_, fun x hx _ => hx,
      dictGet?_dictSet_self, fun x hx hxn => ?_⟩
    · rw [hpt]; simpa using hia
    · show dictGet? (dictSet _ _ _) _ = _
      rw [dictGet?_dictSet_ne hxn]

mutual
theorem compKeys_notSym : ∀ (e c : BExp), c ∈ compKeys e → isSym c = false
  | .not a, c, h => by
    simp only [compKeys, List.mem_cons] at h
    rcases h with rfl | h
    · rfl
    · exact compKeys_notSym a c h
  | .and l, c, h => by
    simp only [compKeys, List.mem_cons] at h
    rcases h with rfl | h
    · rfl
    · exact compKeysList_notSym l c h
  | .or l, c, h => by
    simp only [compKeys, List.mem_cons] at h
    rcases h with rfl | h
    · rfl
    · exact compKeysList_notSym l c h
  | .xor l, c, h => by
    simp only [compKeys, List.mem_cons] at h
    rcases h with rfl | h
    · rfl
    · exact compKeysList_notSym l c h
  | .sym _, _, h => by simp [compKeys] at h
  | .tt, _, h => by simp [compKeys] at h
  | .ff, _, h => by simp [compKeys] at h
  | .ite _ _ _, _, h => by simp [compKeys] at h
  | .imp _ _, _, h => by simp [compKeys] at h
theorem compKeysList_notSym : ∀ (l : List BExp) (c : BExp), c ∈ compKeysList l → isSym c = false
  | [], _, h => by simp [compKeysList] at h
  | a :: as, c, h => by
    simp only [compKeysList, List.mem_append] at h
    rcases h with h | h
    · exact compKeys_notSym a c h
    · exact compKeysList_notSym as c h
end

theorem beq_sym_false {x c : BExp} (hx : isSym x = true) (hc : isSym c = false) : (x == c) = false := by
  cases x <;> cases c <;> first | rfl | simp_all [isSym]

/-- invariant between two definitions -/
structure Inv (scope : List String) (ρ : Env) (σ0 : FState) (done : List BExp) (s : CState) : Prop where
  pre : Pre2 scope ρ σ0 s
  nomark : s.qc.marked = []
  comp : ∀ g ∈ s.qc.gatesComputed.toList, ¬ Avail s g.target
  cache : ∀ p ∈ s.expq, isSym p.1 = true ∨ p.1 ∈ done

theorem foldl_setIns_nodup : ∀ (l f : List Nat), f.Nodup → (l.foldl setIns f).Nodup
  | [], _, h => h
  | a :: l, f, h => foldl_setIns_nodup l (setIns f a) (setIns_nodup h)

theorem mem_foldl_setIns_of_mem : ∀ (l f : List Nat) (x : Nat), x ∈ f ∨ x ∈ l → x ∈ l.foldl setIns f
  | [], f, x, h => by
    rcases h with h | h
    · exact h
    · cases h
  | a :: l, f, x, h => by
    apply mem_foldl_setIns_of_mem l (setIns f a) x
    rcases h with h | h
    · exact Or.inl (mem_setIns_of_mem h)
    · rcases List.mem_cons.mp h with rfl | h
      · exact Or.inl mem_setIns_self
      · exact Or.inr h

theorem envOf_cons_ne {r n : String} {v : Bool} {env : List (String × Bool)} (h : n ≠ r) :
    envOf ((r, v) :: env) n = envOf env n := by
  have : (r == n) = false := by simpa using fun e => h e.symm
  simp [envOf, List.find?_cons, this]

theorem envOf_cons_self {r : String} {v : Bool} {env : List (String × Bool)} :
    envOf ((r, v) :: env) r = v := by
  simp [envOf, List.find?_cons]

/-- straight-line definition lists over the expression class of the repaired compiler (`slDefs` with `wfExpW`
for `wfExp`): every left-hand side is a new, not reserved name; every right-hand side reads only arguments and
earlier left-hand sides -/
def slDefsW (scope : List String) : List (String × BExp) → Bool
  | [] => true
  | (r, e) :: rest => !reservedName r && !scope.contains r && wfExpW scope false e && slDefsW (scope ++ [r]) rest

theorem slDefsW_of_slDefs : ∀ (defs : List (String × BExp)) (scope : List String),
    slDefs scope defs = true → slDefsW scope defs = true
  | [], _, _ => rfl
  | (r, e) :: rest, scope, h => by
    simp only [slDefs, Bool.and_eq_true] at h
    simp only [slDefsW, Bool.and_eq_true]
    exact ⟨⟨h.1.1, wfExpW_of_wfExp e h.1.2⟩, slDefsW_of_slDefs rest _ h.2⟩

/-- what the head of a statement `r = e` (`compile_expr`, `expqmap.remove_symbol`, `expqmap[sym] = iret`,
`map_qubit`) establishes: `t1` the state after the expression, `t3` the state before the end of the statement -/
structure Head (scope : List String) (ρ : Env) (σ0 : FState) (e : BExp) (r : String) (s t1 t3 : CState)
    (iret : Nat) : Prop where
  hp1 : Pre2 scope ρ σ0 t1
  sem1 : Sem2 scope σ0 false (CtlQ scope ρ t1) NoQ (· ∈ compKeys e)
    (fun m => Avail s m ∧ ¬ Avail t1 m ∧ m ≠ iret) s t1
  hnav1 : ¬ Avail t1 iret
  hval1 : cur σ0 t1 iret = e.eval ρ
  hM : ∀ m ∈ t1.qc.marked, Avail s m ∧ ¬ Avail t1 m ∧ m ≠ iret ∧ Tgt t1 m
  g3 : Good t3
  gates3 : t3.qc.gates = t1.qc.gates
  comp3 : t3.qc.gatesComputed = t1.qc.gatesComputed
  mk3 : t3.qc.marked = t1.qc.marked
  fr3 : t3.qc.free = t1.qc.free
  nq3 : t3.qc.numQubits = t1.qc.numQubits
  kp3 : t3.qc.kept = t1.qc.kept
  anc3a : ∀ x ∈ t3.qc.anc, x ∈ t1.qc.anc
  anc3b : iret ∉ t3.qc.anc
  anc3c : ∀ x ∈ t1.qc.anc, x ≠ iret → x ∈ t3.qc.anc
  qm3r : dictGet? t3.qc.qmap r = some iret
  qm3o : ∀ x, scratchName x = false → x ≠ r → dictGet? t3.qc.qmap x = dictGet? t1.qc.qmap x
  ex3 : ∀ p ∈ t3.expq, (∃ p0 ∈ t1.expq, p0.1 = p.1) ∨ p.1 = .sym r

theorem stmt_head {done : List BExp} {e : BExp} {r : String} {iret : Nat} {u1 u2 u3 : Unit}
    {s t1 t1' t2 t3 : CState} (hinv : Inv scope ρ σ0 done s)
    (hr : ∀ m, Known scope m → m ≠ r) (hwf : wfExpW scope false e = true) (hdistE : Distinct (compKeys e))
    (hcache : ∀ p ∈ s.expq, ∀ c ∈ compKeys e, (p.1 == c) = false)
    (he : (compileExpr e none (some r)).run s = .ok (iret, t1))
    (hrs : (expqRemoveSymbol r).run t1 = .ok (u1, t1'))
    (hset : (expqSet (.sym r) iret).run t1' = .ok (u2, t2))
    (hmap : (mapQubit r iret true).run t2 = .ok (u3, t3)) :
    Head scope ρ σ0 e r s t1 t3 iret := by
  obtain ⟨hp1, sem1, hnav1, hval1⟩ := topExpr2 (wo := false) he hinv.pre hwf hdistE hr hcache
  have hM : ∀ m ∈ t1.qc.marked, Avail s m ∧ ¬ Avail t1 m ∧ m ≠ iret ∧ Tgt t1 m := by
    intro m hm
    rcases sem1.marks m hm with h' | h'
    · rw [hinv.nomark] at h'; cases h'
    · exact ⟨h'.1.1, h'.1.2.1, h'.1.2.2, h'.2 rfl⟩
  have hlt1 : iret < t1.qc.numQubits := notAvail_lt hnav1
  have hg1' : Good t1' := (expqRemoveSymbol_ok (B := fun _ => True) hrs hp1.good).good
  have hs1' : t1' = { t1 with expq := t1.expq.filter (fun p => !p.1.syms.contains r) } := by
    unfold expqRemoveSymbol at hrs
    exact run_modify_ok.mp hrs
  have hqc1' : t1'.qc = t1.qc := by rw [hs1']
  have hex1' : ∀ p ∈ t1'.expq, p ∈ t1.expq := by
    rw [hs1']; exact fun p hp => (List.mem_filter.mp hp).1
  obtain ⟨hqc2', hk2⟩ := expqSet_run hset
  have hqc2 : t2.qc = t1.qc := hqc2'.trans hqc1'
  have hg2 : Good t2 := (expqSet_ok (B := fun _ => True) hset hg1' (by rw [hqc1']; exact hlt1)).good
  obtain ⟨m1, m2, m3, m4, m5, m6, mk, m7, m8, m9, m10, m11⟩ := mapQubit_run2 hmap hg2
  have hg3 : Good t3 := (mapQubit_ok (B := fun _ => True) hmap hg2 (by rw [hqc2]; exact hlt1) trivial
    (by intro hpf; cases hpf)).1.good
  refine ⟨hp1, sem1, hnav1, hval1, hM, hg3, by rw [m1, hqc2], by rw [m2, hqc2], by rw [m3, hqc2],
    by rw [m4, hqc2], by rw [m5, hqc2], by rw [mk, hqc2], fun x hx => by rw [← hqc2]; exact m7 x hx, m8 rfl,
    fun x hx hxi => m9 x (by rw [hqc2]; exact hx) hxi, m10, fun x hx hxr => by rw [m11 x hx hxr, hqc2], ?_⟩
  intro p hp
  rw [m6] at hp
  rcases hk2 p hp with ⟨p0, hp0, e0⟩ | h'
  · exact Or.inl ⟨p0, hex1' p0 hp0, e0⟩
  · exact Or.inr h'

/-- what the end of a statement (the inline `uncompute`, or `keep_ancillas`) establishes about the state `t5`
the next statement starts from -/
structure EndOK (σ0 : FState) (t1 t3 t5 : CState) : Prop where
  good : Good t5
  avail : ∀ x, Avail t5 x → Avail t1 x ∨ x ∈ t1.qc.marked
  zero : ∀ q, Avail t5 q → cur σ0 t5 q = false
  val : ∀ q, q ∉ t1.qc.marked → cur σ0 t5 q = cur σ0 t1 q
  free : ∀ x ∈ t5.qc.free, x ∈ t1.qc.free ∨ x ∈ t1.qc.marked
  qmap : t5.qc.qmap = t3.qc.qmap
  anc : t5.qc.anc = t3.qc.anc
  nomark : t5.qc.marked = []
  freeNd : t5.qc.free.Nodup
  comp : ∀ g ∈ t5.qc.gatesComputed.toList, ¬ Avail t5 g.target
  expq : ∀ p ∈ t5.expq, p ∈ t3.expq
  keptNF : ∀ k ∈ t5.qc.kept, k ∉ t5.qc.free

/-- the statement's result is kept to the end: the inline `uncompute` replays, in reverse, the gates whose
target is marked; `bennettF` shows that the freed ancillas are zero again -/
theorem stmtEnd_unc {done : List BExp} {e : BExp} {r : String} {iret : Nat} {unc : List Nat} {u : Unit}
    {s t1 t3 t4 t5 : CState} (hinv : Inv scope ρ σ0 done s) (hd : Head scope ρ σ0 e r s t1 t3 iret)
    (hunc : uncompute.run t3 = .ok (unc, t4)) (hrm : (expqRemove unc).run t4 = .ok (u, t5)) :
    EndOK σ0 t1 t3 t5 := by
  obtain ⟨l, hgl, hcl, htl, hql⟩ := hd.sem1.seg
  have hp1 := hd.hp1
  have hM := hd.hM
  obtain ⟨c1, c2, c3, c4, c5, c6, c7, c8, c9, c10⟩ := uncompute_sem (σ0 := σ0) hunc hd.g3
  have hg4 : Good t4 := (uncompute_ok (B := fun _ => True) hunc hd.g3).good
  have hqc5 := expqRemove_run hrm
  have hg5 : Good t5 := (expqRemove_ok (B := fun _ => True) hrm hg4).good
  have hex5 : ∀ p ∈ t5.expq, p ∈ t4.expq := by
    unfold expqRemove at hrm
    have := run_modify_ok.mp hrm; subst this
    exact fun p hp => (List.mem_filter.mp hp).1
  have hmk3 := hd.mk3
  have hcomp3 : t3.qc.gatesComputed.toList = s.qc.gatesComputed.toList ++ l := by rw [hd.comp3, hcl]
  have hMc : ∀ q, t1.qc.marked.contains q = true ↔ q ∈ t1.qc.marked := by intro q; simp
  have hrep : rep t3.qc.marked t3.qc.gatesComputed.toList = rep t1.qc.marked l := by
    rw [hcomp3, hmk3]; unfold rep; rw [List.filter_append]
    have : s.qc.gatesComputed.toList.filter (fun g => t1.qc.marked.contains g.target) = [] :=
      List.filter_eq_nil_iff.mpr (fun g hg hc => hinv.comp g hg (hM _ ((hMc _).mp hc)).1)
    rw [this, List.nil_append]
  have hcur31 : cur σ0 t3 = cur σ0 t1 := cur_congr hd.gates3
  have hok : ∀ g ∈ l, g.cls.isMCXLike = true ∧ g.wires.Nodup ∧ g.wires ≠ [] := by
    intro g hg
    have hgo := hp1.good.comp_ok g (by rw [hcl]; exact List.mem_append_right _ hg)
    refine ⟨hgo.1, hgo.2.1, fun hnil => ?_⟩
    have := mcx_nq_pos hgo.1
    rw [← hgo.2.2.2, hnil] at this
    exact absurd this (Nat.lt_irrefl _)
  obtain ⟨bM, bN⟩ := bennettF t1.qc.marked (cur σ0 t1) l (cur σ0 s) hok
    (CtlOK.mono (fun f c hq => by
      rcases hq with hm | ⟨n, hk, hq', hv⟩
      · exact Or.inl ((hMc c).mpr hm)
      · exact Or.inr (by rw [hv, (hp1.tbl n c hk hq').2.2])) l _ (hql rfl)) (cur_of_gates hgl).symm
  have hcur4 : cur σ0 t4 = runF (rep t1.qc.marked l) (cur σ0 t1) := by rw [c1, hrep, hcur31]
  have hcur5 : cur σ0 t5 = cur σ0 t4 := by unfold cur; rw [hqc5]
  have hv4M : ∀ q ∈ t1.qc.marked, cur σ0 t5 q = false := by
    intro q hq
    rw [hcur5, hcur4, bM q ((hMc q).mpr hq)]
    exact hinv.pre.zero q (hM q hq).1
  have hv4N : ∀ q, q ∉ t1.qc.marked → cur σ0 t5 q = cur σ0 t1 q := by
    intro q hq
    rw [hcur5, hcur4]
    exact bN q (by
      cases hc : t1.qc.marked.contains q
      · rfl
      · exact absurd ((hMc q).mp hc) hq)
  have hfree5 : ∀ x, x ∈ t5.qc.free ↔ (x ∈ t1.qc.free ∨ x ∈ t1.qc.marked) := by
    intro x
    rw [hqc5, c6, hmk3, hd.fr3]
    exact ⟨mem_foldl_setIns, mem_foldl_setIns_of_mem _ _ x⟩
  have hnq5 : t5.qc.numQubits = t1.qc.numQubits := by rw [hqc5, c3, hd.nq3]
  have hav5 : ∀ x, Avail t5 x ↔ (Avail t1 x ∨ x ∈ t1.qc.marked) := by
    intro x
    unfold Avail
    rw [hfree5, hnq5]
    constructor
    · rintro ((h' | h') | h')
      · exact Or.inl (Or.inl h')
      · exact Or.inr h'
      · exact Or.inl (Or.inr h')
    · rintro ((h' | h') | h')
      · exact Or.inl (Or.inl h')
      · exact Or.inr h'
      · exact Or.inl (Or.inr h')
  refine ⟨hg5, fun x hx => (hav5 x).mp hx, ?_, hv4N, fun x hx => (hfree5 x).mp hx, by rw [hqc5, c2],
    by rw [hqc5, c4], ?_, by rw [hqc5, c6, hmk3, hd.fr3]; exact foldl_setIns_nodup _ _ hp1.freeNd, ?_,
    fun p hp => c5 p (hex5 p hp), ?_⟩
  · intro q hq
    rcases (hav5 q).mp hq with h' | h'
    · by_cases hqm : q ∈ t1.qc.marked
      · exact hv4M q hqm
      · rw [hv4N q hqm]; exact hp1.zero q h'
    · exact hv4M q h'
  · rw [hqc5, c7, hmk3]
    apply List.filter_eq_nil_iff.mpr
    intro m hm
    obtain ⟨g, hg, ht⟩ := (hM m hm).2.2.2
    have : g.target ∈ unc := c8 g (by rw [hd.comp3]; exact hg) (by rw [hmk3, ht]; exact (hMc m).mpr hm)
    rw [ht] at this
    simp [this]
  · intro g hg
    rw [hqc5, c9, hmk3] at hg
    obtain ⟨hg1, hg2⟩ := List.mem_filter.mp hg
    have hnM : g.target ∉ t1.qc.marked := fun hm => by
      rw [(hMc _).mpr hm] at hg2; cases hg2
    have hna1 : ¬ Avail t1 g.target := by
      rw [hcomp3] at hg1
      rcases List.mem_append.mp hg1 with h' | h'
      · exact fun ha => hinv.comp g h' (hd.sem1.avail _ ha)
      · exact htl g h'
    exact fun ha => ((hav5 _).mp ha).elim hna1 hnM
  · intro k hk hf
    rw [hqc5, c10, hd.kp3] at hk
    rcases (hfree5 k).mp hf with h' | h'
    · exact hp1.keptNF k hk h'
    · exact hinv.pre.notKept (hM k h').1 (by rw [← hd.sem1.kkeep]; exact hk)

/-- the statement's result is undone by the final `uncompute_all`: `keep_ancillas` leaves every qubit as it
is, moves the ancillas in use to the kept set and drops the marks -/
theorem stmtEnd_keep {done : List BExp} {e : BExp} {r : String} {iret : Nat} {u : Unit}
    {s t1 t3 t5 : CState} (hinv : Inv scope ρ σ0 done s) (hd : Head scope ρ σ0 e r s t1 t3 iret)
    (hk : keepAncillas.run t3 = .ok (u, t5)) : EndOK σ0 t1 t3 t5 := by
  obtain ⟨l, hgl, hcl, htl, _⟩ := hd.sem1.seg
  have hg5 : Good t5 := (keepAncillas_ok (B := fun _ => True) hk hd.g3).good
  unfold keepAncillas at hk
  have := modQC_run hk; subst this
  have hav : ∀ x, Avail { t3 with qc := { t3.qc with
      kept := (t3.qc.anc.filter (fun a => !t3.qc.free.contains a)).foldl setIns t3.qc.kept, marked := [] } } x ↔
      Avail t1 x := by
    intro x; unfold Avail; simp only; rw [hd.fr3, hd.nq3]
  have hcur : ∀ q, cur σ0 { t3 with qc := { t3.qc with
      kept := (t3.qc.anc.filter (fun a => !t3.qc.free.contains a)).foldl setIns t3.qc.kept, marked := [] } } q =
      cur σ0 t1 q := by
    intro q
    have : cur σ0 { t3 with qc := { t3.qc with
      kept := (t3.qc.anc.filter (fun a => !t3.qc.free.contains a)).foldl setIns t3.qc.kept, marked := [] } } =
      cur σ0 t3 := cur_congr rfl
    rw [this, cur_congr hd.gates3]
  refine ⟨hg5, fun x hx => Or.inl ((hav x).mp hx), fun q hq => by rw [hcur]; exact hd.hp1.zero q ((hav q).mp hq),
    fun q _ => hcur q, fun x hx => Or.inl (by rw [← hd.fr3]; exact hx), rfl, rfl, rfl,
    by show t3.qc.free.Nodup; rw [hd.fr3]; exact hd.hp1.freeNd, ?_, fun p hp => hp, ?_⟩
  · intro g hg ha
    have hg' : g ∈ s.qc.gatesComputed.toList ++ l := by
      rw [← hcl, ← hd.comp3]; exact hg
    have ha1 : Avail t1 g.target := (hav _).mp ha
    rcases List.mem_append.mp hg' with h' | h'
    · exact hinv.comp g h' (hd.sem1.avail _ ha1)
    · exact htl g h' ha1
  · intro k hk hf
    have hf3 : k ∈ t3.qc.free := hf
    rcases mem_foldl_setIns (show k ∈ (t3.qc.anc.filter (fun a => !t3.qc.free.contains a)).foldl setIns t3.qc.kept
      from hk) with h' | h'
    · exact hd.hp1.keptNF k (by rw [← hd.kp3]; exact h') (by rw [← hd.fr3]; exact hf3)
    · have := (List.mem_filter.mp h').2
      simp only [Bool.not_eq_true', List.contains_eq_mem, decide_eq_false_iff_not] at this
      exact this hf3

/-- the invariant for the scope extended by the defined name -/
theorem Inv.step {done : List BExp} {env : List (String × Bool)} {e : BExp} {r : String} {iret : Nat}
    {s t1 t3 t5 : CState} (hinv : Inv scope (envOf env) σ0 done s)
    (hd : Head scope (envOf env) σ0 e r s t1 t3 iret) (he : EndOK σ0 t1 t3 t5)
    (hres : reservedName r = false) (hnr : r ∉ scope) :
    Inv (scope ++ [r]) (envOf ((r, e.eval (envOf env)) :: env)) σ0 (done ++ compKeys e) t5 := by
  have hp1 := hd.hp1
  have hrs : scratchName r = false := by
    simp only [reservedName, Bool.or_eq_false_iff] at hres; exact hres.2
  have hrT : r ≠ "TRUE" ∧ r ≠ "FALSE" := by
    simp only [reservedName, Bool.or_eq_false_iff, beq_eq_false_iff_ne, ne_eq] at hres
    exact ⟨hres.1.2, hres.1.1⟩
  have hr : ∀ m, Known scope m → m ≠ r := by
    rintro m (hm | rfl | rfl)
    · rintro rfl; exact hnr hm
    · exact fun e => hrT.1 e.symm
    · exact fun e => hrT.2 e.symm
  have hiretM : iret ∉ t1.qc.marked := fun hm => (hd.hM iret hm).2.2.1 rfl
  have hiretF : iret ∉ t5.qc.free := by
    intro hf
    rcases he.free _ hf with h' | h'
    · exact hd.hnav1 (Or.inl h')
    · exact hiretM h'
  have hρ : ∀ n, n ≠ r → envOf ((r, e.eval (envOf env)) :: env) n = envOf env n := fun n hn => envOf_cons_ne hn
  have hkv : ∀ n, n ≠ r → kval (envOf ((r, e.eval (envOf env)) :: env)) n = kval (envOf env) n := by
    intro n hn; unfold kval; rw [hρ n hn]
  have hkvr : kval (envOf ((r, e.eval (envOf env)) :: env)) r = e.eval (envOf env) := by
    unfold kval; rw [if_neg hrT.1, if_neg hrT.2, envOf_cons_self]
  have hqmK : ∀ n, Known scope n → dictGet? t5.qc.qmap n = dictGet? t1.qc.qmap n := by
    intro n hk
    rw [he.qmap, hd.qm3o n (by
      rcases hk with hk | rfl | rfl
      · have := hinv.pre.scopeOK n hk
        simp only [reservedName, Bool.or_eq_false_iff] at this; exact this.2
      · decide +kernel
      · decide +kernel) (hr n hk)]
  refine ⟨⟨he.good, he.zero, ?_, ?_, ?_, he.freeNd, ?_, ?_, he.keptNF⟩, he.nomark, he.comp, ?_⟩
  · -- known names
    intro n q hk hq
    have hcase : n = r ∨ Known scope n := by
      rcases hk with hk | hk | hk
      · rcases List.mem_append.mp hk with hk | hk
        · exact Or.inr (Or.inl hk)
        · exact Or.inl (by simpa using hk)
      · exact Or.inr (Or.inr (Or.inl hk))
      · exact Or.inr (Or.inr (Or.inr hk))
    rcases hcase with rfl | hk'
    · rw [he.qmap, hd.qm3r] at hq
      cases hq
      exact ⟨hiretF, by rw [he.anc]; exact hd.anc3b, by rw [he.val _ hiretM, hkvr]; exact hd.hval1⟩
    · rw [hqmK n hk'] at hq
      obtain ⟨t1f, t1a, t1v⟩ := hp1.tbl n q hk' hq
      have hqM : q ∉ t1.qc.marked := fun hm => t1a (hp1.mkAnc q hm)
      refine ⟨fun hf => ?_, fun ha => t1a (hd.anc3a q (by rw [← he.anc]; exact ha)), ?_⟩
      · rcases he.free _ hf with h' | h'
        · exact t1f h'
        · exact hqM h'
      · rw [he.val q hqM, hkv n (hr n hk')]; exact t1v
  · -- names in scope are bound
    intro n hn
    rcases List.mem_append.mp hn with hn | hn
    · obtain ⟨q, hq⟩ := hp1.bound n hn
      exact ⟨q, by rw [hqmK n (Or.inl hn)]; exact hq⟩
    · have : n = r := by simpa using hn
      rw [this]; exact ⟨iret, by rw [he.qmap]; exact hd.qm3r⟩
  · intro n hn
    rcases List.mem_append.mp hn with hn | hn
    · exact hinv.pre.scopeOK n hn
    · have : n = r := by simpa using hn
      rw [this]; exact hres
  · intro q hq
    have hq1 : q ∈ t1.qc.anc := by
      rcases he.free q hq with h' | h'
      · exact hp1.freeAnc q h'
      · exact hp1.mkAnc q h'
    have hqi : q ≠ iret := by rintro rfl; exact hiretF hq
    rw [he.anc]; exact hd.anc3c q hq1 hqi
  · intro m hm; rw [he.nomark] at hm; cases hm
  · -- cache keys
    intro p hp
    rcases hd.ex3 p (he.expq p hp) with ⟨p0, hp0, e0⟩ | h'
    · rcases hd.sem1.keys p0 hp0 with ⟨p00, hp00, e00⟩ | h'
      · rw [← e0, ← e00]
        exact (hinv.cache p00 hp00).imp id (fun h' => List.mem_append_left _ h')
      · rw [← e0]; exact Or.inr (List.mem_append_right _ h')
    · rw [h']; exact Or.inl rfl

/-- **the statement loop on straight-line definition lists**, for every return list and with or without final
uncomputation: the invariant `Inv` is kept by every definition (the inline `uncompute` gives back zeroed
ancillas: `bennettF`; `keep_ancillas` leaves the free set alone), the scope grows by the defined names, the
environment follows `evalDefs` -/
theorem defs_sem {retBits : Option (List String)} {doUnc : Bool} :
    ∀ (defs : List (String × BExp)) (scope : List String) (env : List (String × Bool))
    (done : List BExp) {u : Unit} {s s' : CState},
    (compileDefs retBits doUnc defs).run s = .ok (u, s') → Inv scope (envOf env) σ0 done s →
    slDefsW scope defs = true → Distinct (done ++ defs.flatMap (fun p => compKeys p.2)) →
    ∃ scope' done', Inv scope' (envOf (evalDefs defs env)) σ0 done' s' ∧ (∀ n ∈ scope, n ∈ scope') ∧
      (∀ p ∈ defs, p.1 ∈ scope')
  | [], scope, env, done, u, s, s', h, hinv, _, _ => by
    unfold compileDefs at h
    obtain ⟨_, rfl⟩ := run_pure_ok.mp h
    exact ⟨scope, done, hinv, fun n hn => hn, fun p hp => absurd hp List.not_mem_nil⟩
  | (r, e) :: rest, scope, env, done, u, s, s', h, hinv, hsl, hdist => by
    unfold compileDefs at h
    obtain ⟨iret, t1, he, k1⟩ := run_bind_ok.mp h
    obtain ⟨u3, t1', hrs, k1'⟩ := run_bind_ok.mp k1
    obtain ⟨u4, t2, hset, k2⟩ := run_bind_ok.mp k1'
    obtain ⟨u5, t3, hmap, k3⟩ := run_bind_ok.mp k2
    -- the class
    simp only [slDefsW, Bool.and_eq_true, Bool.not_eq_true', List.contains_eq_mem, decide_eq_false_iff_not] at hsl
    obtain ⟨⟨⟨hres, hnr⟩, hwf⟩, hrest⟩ := hsl
    have hrT : r ≠ "TRUE" ∧ r ≠ "FALSE" := by
      simp only [reservedName, Bool.or_eq_false_iff, beq_eq_false_iff_ne, ne_eq] at hres
      exact ⟨hres.1.2, hres.1.1⟩
    have hr : ∀ m, Known scope m → m ≠ r := by
      rintro m (hm | rfl | rfl)
      · rintro rfl; exact hnr hm
      · exact fun e => hrT.1 e.symm
      · exact fun e => hrT.2 e.symm
    have hd0 : Distinct (done ++ (compKeys e ++ rest.flatMap (fun p => compKeys p.2))) := by
      simpa [List.flatMap_cons] using hdist
    have hd1 := List.pairwise_append.mp hd0
    have hdistE : Distinct (compKeys e) := (List.pairwise_append.mp hd1.2.1).1
    have hcache : ∀ p ∈ s.expq, ∀ c ∈ compKeys e, (p.1 == c) = false := by
      intro p hp c hc
      rcases hinv.cache p hp with h' | h'
      · exact beq_sym_false h' (compKeys_notSym e c hc)
      · exact hd1.2.2 p.1 h' c (List.mem_append_left _ hc)
    have hd := stmt_head hinv hr hwf hdistE hcache he hrs hset hmap
    have fin : ∀ {t5 : CState}, EndOK σ0 t1 t3 t5 → (compileDefs retBits doUnc rest).run t5 = .ok (u, s') →
        ∃ scope' done', Inv scope' (envOf (evalDefs ((r, e) :: rest) env)) σ0 done' s' ∧
          (∀ n ∈ scope, n ∈ scope') ∧ (∀ p ∈ (r, e) :: rest, p.1 ∈ scope') := by
      intro t5 hend k5
      obtain ⟨scope', done', hfin, hsub, hmem⟩ := defs_sem rest (scope ++ [r]) ((r, e.eval (envOf env)) :: env)
        (done ++ compKeys e) k5 (hinv.step hd hend hres hnr) hrest (by
          rw [List.append_assoc]; exact hd0)
      refine ⟨scope', done', hfin, fun n hn => hsub n (List.mem_append_left _ hn), fun p hp => ?_⟩
      rcases List.mem_cons.mp hp with rfl | hp
      · exact hsub r (by simp)
      · exact hmem p hp
    rcases run_ite_ok.mp k3 with ⟨_, k3⟩ | ⟨_, k3⟩
    · obtain ⟨unc, t4, hunc, k4⟩ := run_bind_ok.mp k3
      obtain ⟨u6, t5, hrm, k5⟩ := run_bind_ok.mp k4
      exact fin (stmtEnd_unc hinv hd hunc hrm) k5
    · obtain ⟨u6, t5, hk, k5⟩ := run_bind_ok.mp k3
      exact fin (stmtEnd_keep hinv hd hk) k5

/-! ### `compile` -/

theorem addInputs_keys : ∀ (ns : List String) {u : Unit} {s s' : CState},
    (addInputs ns).run s = .ok (u, s') →
    (∀ p ∈ s'.qc.qmap, p ∈ s.qc.qmap ∨ p.1 ∈ ns) ∧ s'.qc.gatesComputed = s.qc.gatesComputed
  | [], u, s, s', h => by
    unfold addInputs at h
    obtain ⟨_, rfl⟩ := run_pure_ok.mp h
    exact ⟨fun p hp => Or.inl hp, rfl⟩
  | n :: ns, u, s, s', h => by
    unfold addInputs at h
    obtain ⟨u1, s1, hd, h1⟩ := run_bind_ok.mp h
    obtain ⟨i0, hadd⟩ := run_discard_ok.mp hd
    have hs1 := (addQubit_run hadd).2
    obtain ⟨h2, h3⟩ := addInputs_keys ns h1
    rw [hs1] at h2 h3
    refine ⟨fun p hp => ?_, h3⟩
    rcases h2 p hp with h' | h'
    · rcases mem_dictSet h' with h'' | rfl
      · exact Or.inl h''
      · exact Or.inr List.mem_cons_self
    · exact Or.inr (List.mem_cons_of_mem _ h')

/-- the state after the argument qubits have been added satisfies the invariants, for the initial basis
state of input `x` -/
theorem init_pre2 {inputs : List String} {cs : List Nat} {x : List Bool} {u : Unit} {s1 : CState} (N : Nat)
    (hin : (addInputs inputs).run { choices := cs, inputs := inputs } = .ok (u, s1))
    (hnd : inputs.Nodup) (hfresh : ∀ n ∈ inputs, reservedName n = false) (hx : x.length = inputs.length) :
    Pre2 inputs (envOf (inputs.zip x)) (toF (initState x N)) s1 ∧ s1.qc.marked = [] ∧
      s1.qc.gatesComputed.toList = [] ∧ s1.expq = [] ∧ s1.qc.numQubits = inputs.length := by
  have hg0 : Good { choices := cs, inputs := inputs } := good_init cs inputs
  obtain ⟨st1, hn1, _, hpos⟩ := addInputs_ok inputs hin hg0
  obtain ⟨ha1, hf1, hm1, hk1⟩ := addInputs_scratch inputs hin
  obtain ⟨hga1, hex1, _⟩ := addInputs_quiet inputs hin
  obtain ⟨hkeys, hgc1⟩ := addInputs_keys inputs hin
  have hn1' : s1.qc.numQubits = inputs.length := by rw [hn1]; simp
  have hcur : ∀ q, cur (toF (initState x N)) s1 q = x.getD q false := by
    intro q
    show runF s1.qc.gates.toList _ q = _
    rw [hga1]
    show (initState x N).getD q false = _
    rw [initState_getD]
  have hbind : ∀ (i : Nat) (n : String), inputs[i]? = some n → dictGet? s1.qc.qmap n = some i := by
    intro i n hi
    have := hpos hnd hfresh i n hi
    simpa using this
  refine ⟨⟨st1.good, ?_, ?_, ?_, hfresh, (by rw [hf1]; exact List.nodup_nil),
    (by rw [hf1]; intro q hq; exact absurd hq List.not_mem_nil),
    (by rw [hm1]; intro q hq; exact absurd hq List.not_mem_nil),
    (by rw [hk1]; intro q hq; exact absurd hq List.not_mem_nil)⟩, hm1, (by rw [hgc1]), hex1, hn1'⟩
  · intro q hq
    rw [hcur]
    have hge : inputs.length ≤ q := by
      rcases hq with hq | hq
      · rw [hf1] at hq; cases hq
      · rw [hn1'] at hq; exact hq
    have : x[q]? = none := by simp; omega
    simp [List.getD_eq_getElem?_getD, this]
  · intro n q hk hq
    have hmem := dictGet?_mem hq
    have hin' : n ∈ inputs := by
      rcases hkeys _ hmem with h' | h'
      · cases h'
      · exact h'
    obtain ⟨i, hi⟩ := idx_of_mem hin'
    have hqi : q = i := by
      have := hbind i n hi
      rw [hq] at this; exact Option.some.inj this
    refine ⟨by rw [hf1]; exact List.not_mem_nil, by rw [ha1]; exact List.not_mem_nil, ?_⟩
    rw [hcur, kval_scope hfresh hin', hqi, envOf_zip hnd hi]
  · intro n hn
    obtain ⟨i, hi⟩ := idx_of_mem hn
    exact ⟨i, hbind i n hi⟩

/-- the end of `compile`: `remove_identities`, then (final uncomputation on) `uncompute_all`, which appends
only gates whose target is not the qubit of a requested return bit -/
theorem compile_tail {rets : List String} {unc : Bool} {u : Unit} {s2 s : CState}
    (h : StateT.run (do
        removeIdentities
        match (some rets : Option (List String)) with
        | some rb =>
          if unc = true then do
            let qc ← getQC
            uncomputeAll (rb.filterMap (dictGet? qc.qmap))
          else pure ()
        | none => pure () : M Unit) s2 = .ok (u, s)) :
    ∃ extra, s.qc.gates.toList = removeIdentitiesList s2.qc.gates.toList ++ extra ∧
      (∀ g ∈ extra, unc = true ∧ (rets.filterMap (dictGet? s2.qc.qmap)).contains g.target = false) ∧
      s.qc.qmap = s2.qc.qmap ∧ s.qc.numQubits = s2.qc.numQubits := by
  obtain ⟨u3, s3, hrem, h4⟩ := run_bind_ok.mp h
  obtain ⟨hrg, hrq, hrn⟩ := removeIdentities_run hrem
  dsimp only at h4
  rcases run_ite_ok.mp h4 with ⟨hc, h4⟩ | ⟨_, h4⟩
  · obtain ⟨qc, s4, hq, h5⟩ := run_bind_ok.mp h4
    obtain ⟨rfl, rfl⟩ := getQC_run hq
    obtain ⟨extra, e1, e2, e3, e4⟩ := uncomputeAll_gates h5
    exact ⟨extra, by rw [e1, hrg], fun g hg => ⟨hc, by rw [← hrq]; exact e2 g hg⟩, e3.trans hrq, e4.trans hrn⟩
  · obtain ⟨_, rfl⟩ := run_pure_ok.mp h4
    exact ⟨[], by rw [hrg]; simp, by simp, hrq, hrn⟩

/-- the value of a qubit after `compile`, from its value after the statement loop: no gate appended by the
final `uncompute_all` targets it -/
theorem compile_tail_val {x : List Bool} {rets : List String} {unc : Bool} {extra : List AGate} {s2 s : CState}
    {q : Nat} (hgs : Good s) (hg2 : Good s2)
    (f1 : s.qc.gates.toList = removeIdentitiesList s2.qc.gates.toList ++ extra)
    (f2 : ∀ g ∈ extra, unc = true ∧ (rets.filterMap (dictGet? s2.qc.qmap)).contains g.target = false)
    (f4 : s.qc.numQubits = s2.qc.numQubits) (hlen : x.length ≤ s2.qc.numQubits)
    (hq : unc = true → q ∈ rets.filterMap (dictGet? s2.qc.qmap)) :
    (runClassical s.qc.gates.toList (initState x s.qc.numQubits)).getD q false =
      cur (toF (initState x s.qc.numQubits)) s2 q := by
  rw [f1, runClassical_append, removeIdentitiesList_sound _ (fun g hg => (hg2.gates_ok g hg).2.1),
    ← runClassical_append]
  have hlen' : (initState x s.qc.numQubits).length = s.qc.numQubits :=
    initState_length x _ (by rw [f4]; exact hlen)
  have hspec := congrFun (runF_spec (s2.qc.gates.toList ++ extra) (initState x s.qc.numQubits) (by
    intro g hg w hw
    rw [hlen']
    rcases List.mem_append.mp hg with hg | hg
    · rw [f4]; exact (hg2.gates_ok g hg).2.2.1 w hw
    · exact (hgs.gates_ok g (by rw [f1]; exact List.mem_append_right _ hg)).2.2.1 w hw)) q
  refine hspec.trans ?_
  rw [runF_append, untargeted_runF]
  · rfl
  · intro g hg hlast
    have ht : g.target = q := by unfold AGate.target; rw [hlast]; rfl
    obtain ⟨hu, hk⟩ := f2 g hg
    rw [ht] at hk
    have : (rets.filterMap (dictGet? s2.qc.qmap)).contains q = true := by simpa using hq hu
    rw [hk] at this; cases this

/-- **straight-line definition lists, final uncomputation on or off**: after every successful run of `compile`
the qubit mapped to a defined name that is a requested return bit (any defined name when the final
uncomputation is off) ends with the value the reference semantics `evalDefs` gives the name, on every input -/
theorem compile_named_sem {inputs : List String} {defs : List (String × BExp)} {rets : List String}
    {unc : Bool} {cs : List Nat} {s : CState}
    (h : (compile inputs defs (some rets) unc).run { choices := cs } = .ok ((), s))
    (hnd : inputs.Nodup) (hfresh : ∀ n ∈ inputs, reservedName n = false)
    (hsl : slDefsW inputs defs = true) (hdist : Distinct (defs.flatMap (fun p => compKeys p.2)))
    (x : List Bool) (hx : x.length = inputs.length) (r : String) (hr : ∃ p ∈ defs, p.1 = r)
    (hrr : unc = true → r ∈ rets) :
    ∃ q, dictGet? s.qc.qmap r = some q ∧
      (runClassical s.qc.gates.toList (initState x s.qc.numQubits)).getD q false =
        envOf (evalDefs defs (inputs.zip x)) r := by
  have hgs : Good s := (compile_ok h).1
  unfold compile at h
  obtain ⟨u0, s0, hmod, h1⟩ := run_bind_ok.mp h
  have := run_modify_ok.mp hmod; subst this
  obtain ⟨u1, s1, hin, h2⟩ := run_bind_ok.mp h1
  obtain ⟨u2, s2, hdefs, h3⟩ := run_bind_ok.mp h2
  obtain ⟨extra, f1, f2, f3, f4⟩ := compile_tail h3
  obtain ⟨hp1, hm1, hgc1, hex1, hn1⟩ := init_pre2 s.qc.numQubits hin hnd hfresh hx
  have hinv1 : Inv inputs (envOf (inputs.zip x)) (toF (initState x s.qc.numQubits)) [] s1 :=
    ⟨hp1, hm1, (by rw [hgc1]; intro g hg; exact absurd hg List.not_mem_nil),
      (by rw [hex1]; intro p hp; exact absurd hp List.not_mem_nil)⟩
  obtain ⟨scope', done', hfin, _, hmem⟩ := defs_sem defs inputs (inputs.zip x) [] hdefs hinv1 hsl
    (by simpa using hdist)
  obtain ⟨p, hpd, rfl⟩ := hr
  have hrs : p.1 ∈ scope' := hmem p hpd
  obtain ⟨q, hq⟩ := hfin.pre.bound p.1 hrs
  have hval := (hfin.pre.tbl p.1 q (Or.inl hrs) hq).2.2
  rw [kval_scope hfin.pre.scopeOK hrs] at hval
  refine ⟨q, by rw [f3]; exact hq, ?_⟩
  rw [compile_tail_val hgs hfin.pre.good f1 f2 f4 (by
      rw [hx, ← hn1]
      exact (compileDefs_ok (B := fun _ => True) defs hdefs hp1.good (fun _ _ => trivial)).1.nq_le)
    (fun hu => List.mem_filterMap.mpr ⟨p.1, hrr hu, hq⟩)]
  exact hval

/-- **one definition `r = e` with constants**, with or without final uncomputation: after every successful
run of `compile` the qubit mapped to `r` ends with the value of `e`, on every input (the defined name is a
requested return bit, or there is no final uncomputation, so the statement ends with the inline `uncompute`,
which replays no gate whose target is the result qubit; neither does the final `uncompute_all`) -/
theorem compile_const_sem {inputs : List String} {r : String} {e : BExp} {rets : List String}
    {unc : Bool} {cs : List Nat} {s : CState}
    (h : (compile inputs [(r, e)] (some rets) unc).run { choices := cs } = .ok ((), s))
    (hr : unc = true → r ∈ rets)
    (hnd : inputs.Nodup) (hfresh : ∀ n ∈ inputs, n ≠ r ∧ reservedName n = false)
    (hrT : r ≠ "TRUE" ∧ r ≠ "FALSE")
    (hwf : wfExpW inputs true e = true) (hdist : Distinct (compKeys e))
    (x : List Bool) (hx : x.length = inputs.length) :
    ∃ q, dictGet? s.qc.qmap r = some q ∧
      (runClassical s.qc.gates.toList (initState x s.qc.numQubits)).getD q false =
        e.eval (envOf (inputs.zip x)) := by
  have hgs : Good s := (compile_ok h).1
  unfold compile at h
  obtain ⟨u0, s0, hmod, h1⟩ := run_bind_ok.mp h
  have := run_modify_ok.mp hmod; subst this
  have hg0 : Good { choices := cs, inputs := inputs } := good_init cs inputs
  obtain ⟨u1, s1, hin, h2⟩ := run_bind_ok.mp h1
  obtain ⟨st1, _, _, _⟩ := addInputs_ok inputs hin hg0
  obtain ⟨u2, s2, hdefs, h3⟩ := run_bind_ok.mp h2
  obtain ⟨st2, _⟩ := compileDefs_ok (B := (· = r)) (retBits := some rets) (doUnc := unc) [(r, e)] hdefs st1.good
    (fun p hp => by simp at hp; rw [hp])
  have hg2 := st2.good
  obtain ⟨extra', f1, f2, f3, f4⟩ := compile_tail h3
  obtain ⟨hp1, hm1, _, hex1, hn1'⟩ := init_pre2 s.qc.numQubits hin hnd (fun n hn => (hfresh n hn).2) hx
  have hnin2 : inputs.length ≤ s2.qc.numQubits := by rw [← hn1']; exact st2.nq_le
  -- the statement loop
  unfold compileDefs at hdefs
  obtain ⟨iret, t1, he, k1⟩ := run_bind_ok.mp hdefs
  obtain ⟨u40, t1', hrs, k1'⟩ := run_bind_ok.mp k1
  obtain ⟨u4, t2, hset, k2⟩ := run_bind_ok.mp k1'
  obtain ⟨u5, t3, hmap, k3⟩ := run_bind_ok.mp k2
  have hinl : inlineUncompute (some rets) unc r = true := by
    unfold inlineUncompute
    cases unc with
    | false => rfl
    | true => simpa using hr rfl
  rw [if_pos hinl] at k3
  obtain ⟨unc', t4, hunc, k4⟩ := run_bind_ok.mp k3
  obtain ⟨u6, t5, hrm, k5⟩ := run_bind_ok.mp k4
  unfold compileDefs at k5
  obtain ⟨_, rfl⟩ := run_pure_ok.mp k5
  have hrK : ∀ m, Known inputs m → m ≠ r := by
    rintro m (hm | rfl | rfl)
    · exact (hfresh m hm).1
    · exact fun e' => hrT.1 e'.symm
    · exact fun e' => hrT.2 e'.symm
  obtain ⟨hpt1, sem1, hnav1, hval⟩ := topExpr2 (wo := true) he hp1 hwf hdist hrK
    (by intro p hp'; rw [hex1] at hp'; cases hp')
  have hnm : iret ∉ t1.qc.marked := by
    intro hm
    rcases sem1.marks iret hm with h' | h'
    · rw [hm1] at h'; cases h'
    · exact h'.1.2.2 rfl
  have hlt : iret < t1.qc.numQubits := notAvail_lt hnav1
  have q1' : Step (· = r) t1 t1' := expqRemoveSymbol_ok hrs hpt1.good
  have hqc1' : t1'.qc = t1.qc := by
    unfold expqRemoveSymbol at hrs
    have := run_modify_ok.mp hrs; subst this; rfl
  have q2 : Step (· = r) t1' t2 := expqSet_ok hset q1'.good (Nat.lt_of_lt_of_le hlt q1'.nq_le)
  obtain ⟨hqc2', _⟩ := expqSet_run hset
  have hqc2 : t2.qc = t1.qc := hqc2'.trans hqc1'
  obtain ⟨q3, hkey⟩ := mapQubit_ok (B := (· = r)) hmap q2.good
    (Nat.lt_of_lt_of_le hlt (q1'.trans q2).nq_le) rfl (by intro hp; cases hp)
  obtain ⟨hg3, hm3, _⟩ := mapQubit_run hmap
  obtain ⟨extra, e1, e2, e3, e4⟩ := uncompute_gates hunc
  have hqc5 := expqRemove_run hrm
  have hcur : cur (toF (initState x s.qc.numQubits)) s2 iret = e.eval (envOf (inputs.zip x)) := by
    unfold cur
    rw [hqc5, e1, runF_append, untargeted_runF]
    · rw [hg3, hqc2]; exact hval
    · intro g hg hlast
      have ht : g.target = iret := by unfold AGate.target; rw [hlast]; rfl
      have := e2 g hg
      rw [ht, hm3, hqc2] at this
      exact hnm this
  have hkey2 : dictGet? s2.qc.qmap r = some iret := by rw [hqc5, e3]; exact hkey
  refine ⟨iret, by rw [f3]; exact hkey2, ?_⟩
  rw [compile_tail_val hgs hg2 f1 f2 f4 (by rw [hx]; exact hnin2)
    (fun hu => List.mem_filterMap.mpr ⟨r, hr hu, hkey2⟩)]
  exact hcur

/-! ### the classes without the De Morgan restriction -/

/-- class (c) of `QV.C02` over the expression class of the repaired compiler: `inFragmentNamed` with `slDefsW`
for `slDefs`, i.e. `Or` of any arity over any arguments (symbols, constants, compound expressions) -/
def inFragmentNamedW (inputs : List String) (defs : List (String × BExp)) (rets : List String) : Bool :=
  decide inputs.Nodup && inputs.all (fun n => !reservedName n) && slDefsW inputs defs &&
    distinctB (defs.flatMap (fun p => compKeys p.2)) && rets.all (fun r => defs.any (fun p => p.1 == r))

theorem inFragmentNamedW_of_inFragmentNamed {inputs : List String} {defs : List (String × BExp)}
    {rets : List String} (h : inFragmentNamed inputs defs rets = true) :
    inFragmentNamedW inputs defs rets = true := by
  simp only [inFragmentNamed, Bool.and_eq_true] at h
  simp only [inFragmentNamedW, Bool.and_eq_true]
  exact ⟨⟨⟨h.1.1.1, slDefsW_of_slDefs _ _ h.1.1.2⟩, h.1.2⟩, h.2⟩

end QV.Compiler
