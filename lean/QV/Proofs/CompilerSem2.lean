import QV.Proofs.CompilerSem2d
/-!
# Semantic correctness of the compiler model on wider classes – part 5: the statement loop and `compile`

* `uncompute_sem`: what the inline `uncompute` does to the qubit values (it runs `rep marked gates_computed`);
* `topExpr2`: the right-hand side of a definition compiled with `sym = some r` (constants, symbols – copied
  into a new qubit for a `_ret…` name –, compound expressions);
* `Inv` / `defs_sem`: the invariant between definitions (scratch space zero, no marks left, every gate of
  `gates_computed` targets an allocated qubit, cache keys are symbols or keys of earlier definitions) and its
  preservation by one definition – the step where `bennettF` shows that the freed ancillas are zero again;
* `compile_named_sem` (straight-line definition lists, final uncomputation off) and `compile_const_sem`
  (one definition with constants, final uncomputation on or off).
-/
namespace QV.Compiler
open QV

variable {scope : List String} {ρ : Env} {σ0 : FState} {wo : Bool}

/-! ### the inline `uncompute` -/

theorem applyF_congr {g g' : AGate} (h : g'.wires = g.wires) (f : FState) : applyF g' f = applyF g f := by
  unfold applyF; rw [h]

theorem mcx_nq_pos {cls : GClass} (h : cls.isMCXLike = true) : 0 < cls.nQubits := by
  cases cls <;> simp_all [GClass.isMCXLike, GClass.nQubits]

theorem uncomputeLoop_sem {marked : List Nat} :
    ∀ (gs : List AGate) (unc : List Nat) (keepRev : List AGate) {r : List Nat × List AGate} {s s' : CState},
    (uncomputeLoop marked gs unc keepRev).run s = .ok (r, s') →
    (∀ g ∈ gs, g.cls.isMCXLike = true) →
    cur σ0 s' = runF (gs.filter (fun g => marked.contains g.target)) (cur σ0 s) ∧
    s'.qc.qmap = s.qc.qmap ∧ s'.qc.numQubits = s.qc.numQubits ∧ s'.qc.free = s.qc.free ∧
    s'.qc.anc = s.qc.anc ∧ s'.qc.marked = s.qc.marked ∧ s'.expq = s.expq ∧
    (∀ x ∈ unc, x ∈ r.1) ∧ (∀ g ∈ gs, marked.contains g.target = true → g.target ∈ r.1) ∧
    r.2 = keepRev ++ gs.filter (fun g => !marked.contains g.target)
  | [], unc, keepRev, r, s, s', h, _ => by
    unfold uncomputeLoop at h
    obtain ⟨rfl, rfl⟩ := run_pure_ok.mp h
    exact ⟨rfl, rfl, rfl, rfl, rfl, rfl, rfl, fun x hx => hx, fun g hg => absurd hg List.not_mem_nil, by simp⟩
  | g :: gs, unc, keepRev, r, s, s', h, hm => by
    unfold uncomputeLoop at h
    dsimp only at h
    have hm' : ∀ g' ∈ gs, g'.cls.isMCXLike = true := fun g' hg' => hm g' (List.mem_cons_of_mem _ hg')
    rcases run_ite_ok.mp h with ⟨hc, h⟩ | ⟨hc, h⟩
    · obtain ⟨b, s1, happ, h1⟩ := run_bind_ok.mp h
      have ha := appendG_run happ
      obtain ⟨g', hgw, he⟩ := ha.cur_step (hm g List.mem_cons_self) σ0
      have hstep : cur σ0 s1 = stepF (cur σ0 s) g := by
        rw [he, applyF_congr hgw]
        unfold stepF; rw [hm g List.mem_cons_self]; rfl
      have rest : ∀ {s2 : CState}, s2.qc = s1.qc → s2.expq = s1.expq →
          (uncomputeLoop marked gs (setIns unc g.target) keepRev).run s2 = .ok (r, s') →
          cur σ0 s' = runF ((g :: gs).filter (fun g => marked.contains g.target)) (cur σ0 s) ∧
          s'.qc.qmap = s.qc.qmap ∧ s'.qc.numQubits = s.qc.numQubits ∧ s'.qc.free = s.qc.free ∧
          s'.qc.anc = s.qc.anc ∧ s'.qc.marked = s.qc.marked ∧ s'.expq = s.expq ∧
          (∀ x ∈ unc, x ∈ r.1) ∧ (∀ g' ∈ g :: gs, marked.contains g'.target = true → g'.target ∈ r.1) ∧
          r.2 = keepRev ++ (g :: gs).filter (fun g => !marked.contains g.target) := by
        intro s2 hq he2 h2
        obtain ⟨e1, e2, e3, e4, e5, e6, e7, e8, e9, e10⟩ := uncomputeLoop_sem gs _ _ h2 hm'
        have hcur2 : cur σ0 s2 = cur σ0 s1 := by unfold cur; rw [hq]
        refine ⟨?_, by rw [e2, hq]; exact ha.qmap, by rw [e3, hq]; exact ha.nq, by rw [e4, hq]; exact ha.free,
          by rw [e5, hq]; exact ha.anc, by rw [e6, hq]; exact ha.marked, by rw [e7, he2]; exact ha.expq,
          fun x hx => e8 x (mem_setIns_of_mem hx), ?_, ?_⟩
        · rw [e1, hcur2, hstep]
          simp only [List.filter_cons, hc, ↓reduceIte, runF_cons]
        · intro g'' hg'' hc''
          rcases List.mem_cons.mp hg'' with rfl | hg''
          · exact e8 _ mem_setIns_self
          · exact e9 g'' hg'' hc''
        · rw [e10]; simp only [List.filter_cons, hc, Bool.not_true, Bool.false_eq_true, ↓reduceIte]
      rcases run_ite_ok.mp h1 with ⟨_, h1⟩ | ⟨_, h1⟩
      · obtain ⟨u, s2, hev, h2⟩ := run_bind_ok.mp h1
        have := event_run hev; subst this
        exact rest (s2 := { s1 with events := s1.events ++ ["staleReplay"] }) rfl rfl h2
      · exact rest rfl rfl h1
    · have hc' : marked.contains g.target = false := by simpa using hc
      obtain ⟨e1, e2, e3, e4, e5, e6, e7, e8, e9, e10⟩ := uncomputeLoop_sem gs _ _ h hm'
      refine ⟨?_, e2, e3, e4, e5, e6, e7, e8, ?_, ?_⟩
      · rw [e1]; simp only [List.filter_cons, hc', Bool.false_eq_true, ↓reduceIte]
      · intro g'' hg'' hc''
        rcases List.mem_cons.mp hg'' with rfl | hg''
        · rw [hc'] at hc''; cases hc''
        · exact e9 g'' hg'' hc''
      · rw [e10]; simp only [List.filter_cons, hc', Bool.not_false, ↓reduceIte, List.append_assoc, List.singleton_append]

/-- **the inline `uncompute`**: the gates it appends act like `rep marked gates_computed`; the marked qubits
join the free set; a marked qubit that is the target of a gate of `gates_computed` loses its mark; the
replayed gates leave `gates_computed` -/
theorem uncompute_sem {r : List Nat} {s s' : CState} (h : uncompute.run s = .ok (r, s')) (hg : Good s) :
    cur σ0 s' = runF (rep s.qc.marked s.qc.gatesComputed.toList) (cur σ0 s) ∧
    s'.qc.qmap = s.qc.qmap ∧ s'.qc.numQubits = s.qc.numQubits ∧ s'.qc.anc = s.qc.anc ∧
    (∀ p ∈ s'.expq, p ∈ s.expq) ∧
    s'.qc.free = s.qc.marked.foldl setIns s.qc.free ∧
    s'.qc.marked = s.qc.marked.filter (fun x => !r.contains x) ∧
    (∀ g ∈ s.qc.gatesComputed.toList, s.qc.marked.contains g.target = true → g.target ∈ r) ∧
    s'.qc.gatesComputed.toList = s.qc.gatesComputed.toList.filter (fun g => !s.qc.marked.contains g.target) := by
  unfold uncompute at h
  obtain ⟨qc, s1, hq, h1⟩ := run_bind_ok.mp h
  obtain ⟨rfl, rfl⟩ := getQC_run hq
  rcases run_ite_ok.mp h1 with ⟨hemp, h1⟩ | ⟨_, h1⟩
  · obtain ⟨rfl, rfl⟩ := run_pure_ok.mp h1
    have hm : s'.qc.marked = [] := by simpa using hemp
    rw [hm]
    have hf : ∀ l : List AGate, l.filter (fun g => ([] : List Nat).contains g.target) = [] :=
      fun l => List.filter_eq_nil_iff.mpr (by simp)
    have ht : ∀ l : List AGate, l.filter (fun g => !([] : List Nat).contains g.target) = l :=
      fun l => List.filter_eq_self.mpr (by simp)
    refine ⟨by unfold rep; rw [hf]; rfl, rfl, rfl, rfl, fun p hp => hp, rfl, rfl, fun g _ hc => by simp at hc,
      (ht _).symm⟩
  · obtain ⟨x, s2, hloop, h2⟩ := run_bind_ok.mp h1
    obtain ⟨e1, e2, e3, e4, e5, e6, e7, _, e9, e10⟩ := uncomputeLoop_sem (σ0 := σ0) _ _ _ hloop
      (fun g hg' => (hg.comp_ok g (List.mem_reverse.mp hg')).1)
    obtain ⟨unc, keepRev⟩ := x
    dsimp only at h2
    obtain ⟨u, s3, hm, h3⟩ := run_bind_ok.mp h2
    obtain ⟨rfl, rfl⟩ := run_pure_ok.mp h3
    have := modQC_run hm; subst this
    dsimp only at e9 e10 ⊢
    refine ⟨?_, e2, e3, e5, fun p hp => by rw [← e7]; exact hp, by rw [e4], rfl, ?_, ?_⟩
    · show runF s2.qc.gates.toList σ0 = _
      have : cur σ0 s2 = runF s2.qc.gates.toList σ0 := rfl
      rw [← this, e1]
      unfold rep
      rw [List.filter_reverse]
    · intro g hg' hc
      exact e9 g (List.mem_reverse.mpr hg') hc
    · show keepRev.reverse.toArray.toList = _
      rw [e10]
      simp [List.filter_reverse]

/-! ### the right-hand side of a definition -/

theorem Pre2.addQubit {name : String} {a : Nat} {s s' : CState} (hp : Pre2 scope ρ σ0 s)
    (hadd : (addQubit name).run s = .ok (a, s')) (hne : ∀ n, Known scope n → n ≠ name) :
    Pre2 scope ρ σ0 s' := by
  have hg : Good s' := (addQubit_ok (B := fun _ => True) hadd hp.good (Or.inl trivial)).1.good
  obtain ⟨rfl, rfl⟩ := addQubit_run hadd
  refine ⟨hg, ?_, ?_, ?_, hp.scopeOK, hp.freeNd, hp.freeAnc, hp.mkAnc⟩
  · intro q hq
    refine hp.zero q ?_
    rcases hq with hq | hq
    · exact Or.inl hq
    · exact Or.inr (by simp only at hq ⊢; omega)
  · intro n q hk hq
    have hq' : dictGet? (dictSet s.qc.qmap name s.qc.numQubits) n = some q := hq
    rw [dictGet?_dictSet_ne (hne n hk)] at hq'
    exact hp.tbl n q hk hq'
  · intro n hn
    obtain ⟨q, hq⟩ := hp.bound n hn
    refine ⟨q, ?_⟩
    show dictGet? (dictSet s.qc.qmap name s.qc.numQubits) n = some q
    rw [dictGet?_dictSet_ne (hne n (Or.inl hn))]; exact hq

/-- what the compilation of the right-hand side of `r = e` establishes -/
def TopGoal (scope : List String) (ρ : Env) (σ0 : FState) (wo : Bool) (K : BExp → Prop) (v : Bool)
    (s t : CState) (iret : Nat) : Prop :=
  Pre2 scope ρ σ0 t ∧
  Sem2 scope σ0 wo (CtlQ scope ρ t) NoQ K (fun m => Avail s m ∧ ¬ Avail t m ∧ m ≠ iret) s t ∧
  ¬ Avail t iret ∧ cur σ0 t iret = v

/-- `r = n` with `r` a return name: the symbol's qubit is copied (`CX`) into a new qubit named `r` -/
theorem copyTop {n r : String} {q a : Nat} {u : Unit} {s t0 t : CState} (hp : Pre2 scope ρ σ0 s)
    (hn : n ∈ scope) (hq : dictGet? s.qc.qmap n = some q) (hr : ∀ m, Known scope m → m ≠ r)
    (hadd : (addQubit r).run s = .ok (a, t0)) (hcx : (cx q a).run t0 = .ok (u, t)) :
    TopGoal scope ρ σ0 wo NoK (ρ n) s t a := by
  have hk : Known scope n := Or.inl hn
  have hp0 : Pre2 scope ρ σ0 t0 := hp.addQubit hadd hr
  obtain ⟨ea, sem0, hcur0, hn0, hf0, ha0, hm0, hqm0⟩ := addQubit_sem2 (wo := wo) (Q := CtlQ scope ρ t) hadd hp
    (fun m _ hkm _ => hr m hkm)
  have hq0 : dictGet? t0.qc.qmap n = some q := by rw [hqm0, dictGet?_dictSet_ne (hr n hk)]; exact hq
  have hnavq : ¬ Avail t0 q := hp0.sym_notAvail hk hq0
  have hava : Avail s a := Or.inr (by rw [ea]; exact Nat.le_refl _)
  have hpriv : Priv scope t0 a := by
    refine ⟨?_, fun m hkm hqm => ?_⟩
    · unfold Avail; rw [hf0, hn0, ea]
      rintro (h' | h')
      · exact absurd (hp.good.free_lt _ h') (Nat.lt_irrefl _)
      · omega
    · rw [hqm0, dictGet?_dictSet_ne (hr m hkm)] at hqm
      have := hp.good.qmap_lt _ (dictGet?_mem hqm)
      simp only at this; omega
  have hpt := cx_pre2 hcx hp0 hpriv hnavq
  have ac := cx_run hcx
  obtain ⟨_, semc, _⟩ := cx_sem2 (scope := scope) (σ0 := σ0) (wo := wo) (Q := CtlQ scope ρ t) hcx hpriv.1
    (fun _ => Or.inr ⟨n, hk, by rw [ac.qmap]; exact hq0, by
      rw [hcur0, (hp.tbl n q hk hq).2.2]⟩)
  have hnavt : ¬ Avail t a := fun h' => hpriv.1 (semc.avail a h')
  refine ⟨hpt, (sem0.trans' semc).mono ?_ (fun _ h' => h'.elim id id) (fun _ h' => (h'.elim id id).elim), hnavt, ?_⟩
  · rintro x hx (h' | h')
    · exact h'
    · rcases hx with hx | hx
      · exact hx (h' ▸ hava)
      · exact hnavt (h' ▸ hx)
  · rw [ac.cur_eq rfl σ0, hcur0, hp.zero a hava]
    simp only [List.all_cons, List.all_nil, Bool.and_true, Bool.false_bne]
    rw [(hp.tbl n q hk hq).2.2, kval_scope hp.scopeOK hn]

theorem topSym2 {n r : String} {iret : Nat} {s t : CState}
    (h : (compileSymbol n (some r)).run s = .ok (iret, t)) (hp : Pre2 scope ρ σ0 s) (hn : n ∈ scope)
    (hr : ∀ m, Known scope m → m ≠ r) : TopGoal scope ρ σ0 wo NoK (ρ n) s t iret := by
  have hk : Known scope n := Or.inl hn
  have alias : ∀ {a : Nat} {s' : CState}, StateT.run (do
      let qc ← getQC
      match dictGet? qc.qmap n with
        | some i => pure i
        | none => throw s!"CompilerException: Symbol not found in qc: {n}" : M Nat) s = .ok (a, s') →
      TopGoal scope ρ σ0 wo NoK (ρ n) s s' a := by
    intro a s' h
    obtain ⟨qc, s1, hq, h⟩ := run_bind_ok.mp h
    obtain ⟨rfl, rfl⟩ := getQC_run hq
    split at h
    · next j hj =>
      obtain ⟨rfl, rfl⟩ := run_pure_ok.mp h
      refine ⟨hp, Sem2.refl _, hp.sym_notAvail hk hj, ?_⟩
      rw [(hp.tbl n _ hk hj).2.2, kval_scope hp.scopeOK hn]
    · exact (run_throw_ok.mp h).elim
  unfold compileSymbol at h
  dsimp only at h
  split at h
  · rw [run_get_bind_ok] at h
    split at h
    · obtain ⟨a0, s2, hadd, h2⟩ := run_bind_ok.mp h
      obtain ⟨q, s3, hl, h3⟩ := run_bind_ok.mp h2
      have hg2 : Good s2 := (addQubit_ok (B := fun _ => True) hadd hp.good (Or.inl trivial)).1.good
      obtain ⟨e3, hq, _⟩ := lookup_ok hl hg2
      subst e3
      obtain ⟨u, s4, hcx, hpure⟩ := run_bind_ok.mp h3
      obtain ⟨e1, e2⟩ := run_pure_ok.mp hpure
      subst e1; subst e2
      have hq' : dictGet? s.qc.qmap n = some q := by
        have := (addQubit_run hadd).2
        rw [this] at hq
        have hq2 : dictGet? (dictSet s.qc.qmap r s.qc.numQubits) n = some q := hq
        rw [dictGet?_dictSet_ne (hr n hk)] at hq2
        exact hq2
      exact copyTop hp hn hq' hr hadd hcx
    · obtain ⟨q, s2, hl, h2⟩ := run_bind_ok.mp h
      obtain ⟨e2, hq, _⟩ := lookup_ok hl hp.good
      subst e2
      rw [run_get_bind_ok] at h2
      split at h2
      · obtain ⟨a0, s3, hadd, h3⟩ := run_bind_ok.mp h2
        obtain ⟨u, s4, hcx, hpure⟩ := run_bind_ok.mp h3
        obtain ⟨e1, e2⟩ := run_pure_ok.mp hpure
        subst e1; subst e2
        exact copyTop hp hn hq hr hadd hcx
      · obtain ⟨e1, e2⟩ := run_pure_ok.mp h2
        subst e1; subst e2
        refine ⟨hp, Sem2.refl _, hp.sym_notAvail hk hq, ?_⟩
        rw [(hp.tbl n _ hk hq).2.2, kval_scope hp.scopeOK hn]
  · exact alias h

theorem topExpr2 {e : BExp} {r : String} {iret : Nat} {s t : CState}
    (h : (compileExpr e none (some r)).run s = .ok (iret, t)) (hp : Pre2 scope ρ σ0 s)
    (hwf : wfExp scope wo e = true) (hdist : Distinct (compKeys e)) (hr : ∀ m, Known scope m → m ≠ r)
    (hcache : ∀ p ∈ s.expq, ∀ c ∈ compKeys e, (p.1 == c) = false) :
    TopGoal scope ρ σ0 wo (· ∈ compKeys e) (e.eval ρ) s t iret := by
  have gen : isLeaf e = false → TopGoal scope ρ σ0 wo (· ∈ compKeys e) (e.eval ρ) s t iret := by
    intro hl
    obtain ⟨hp', sem, hv, _⟩ := exprSem2 (ρ := ρ) (σ0 := σ0) e hwf hdist none (some r) h hp hcache
      (by intro d hd; cases hd) (by intro x hx; cases hx; exact fun hm => hr r (Or.inl hm) rfl)
      (by intro hl'; rw [hl] at hl'; cases hl')
    obtain ⟨_, hnav, hval, _⟩ := hv rfl
    exact ⟨hp', sem.mono (fun _ _ h' => nomatch h') (fun _ h' => h') (fun _ h' => ⟨h'.1, h'.2.1, h'.2.2 rfl⟩),
      hnav, hval⟩
  cases e with
  | sym n =>
    unfold compileExpr at h
    obtain ⟨p, sem, hnav, hval⟩ := topSym2 (wo := wo) h hp (by simpa [wfExp] using hwf) hr
    exact ⟨p, sem.mono (fun _ _ h' => h') (fun _ h' => h'.elim) (fun _ h' => h'), hnav, hval⟩
  | tt =>
    unfold compileExpr at h
    obtain ⟨hp', sem, hq⟩ := constTrue_sem2 (wo := wo) (Q := CtlQ scope ρ t) h hp
    have hk : Known scope "TRUE" := Or.inr (Or.inl rfl)
    refine ⟨hp', sem.mono (fun _ _ h' => h') (fun _ h' => h'.elim) (fun _ h' => h'.elim),
      hp'.sym_notAvail hk hq, ?_⟩
    rw [(hp'.tbl _ iret hk hq).2.2, kval_TRUE]; rfl
  | ff =>
    unfold compileExpr at h
    obtain ⟨hp', sem, hq⟩ := constFalse_sem2 (wo := wo) (Q := CtlQ scope ρ t) h hp
    have hk : Known scope "FALSE" := Or.inr (Or.inr rfl)
    refine ⟨hp', sem.mono (fun _ _ h' => h') (fun _ h' => h'.elim) (fun _ h' => h'.elim),
      hp'.sym_notAvail hk hq, ?_⟩
    rw [(hp'.tbl _ iret hk hq).2.2, kval_FALSE]; rfl
  | not a => exact gen rfl
  | and l => exact gen rfl
  | or l => exact gen rfl
  | xor l => exact gen rfl
  | ite a b c => simp [wfExp] at hwf
  | imp a b => simp [wfExp] at hwf

end QV.Compiler
