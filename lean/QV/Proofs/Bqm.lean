import QV.Model.Bqm
/-! Helper lemmas for the model of `qlasskit/bqm.py` (`QV.Model.Bqm`). -/
namespace QV.Bqm
open QV QV.Types

/-! ### 0/1 arithmetic of the documented polynomials -/

theorem b2i_not (a : Bool) : 1 - b2i a = b2i (!a) := by cases a <;> rfl
theorem b2i_and (a b : Bool) : b2i a * b2i b = b2i (a && b) := by cases a <;> cases b <;> rfl
theorem b2i_or (a b : Bool) : b2i a + b2i b - b2i a * b2i b = b2i (a || b) := by
  cases a <;> cases b <;> rfl
theorem b2i_xor (a b : Bool) : b2i a + b2i b - 2 * (b2i a * b2i b) = b2i (Bool.xor a b) := by
  cases a <;> cases b <;> rfl
theorem b2i_nonneg (a : Bool) : 0 ≤ b2i a := by cases a <;> decide
theorem b2i_eq_zero (a : Bool) : b2i a = 0 ↔ a = false := by cases a <;> decide

/-! ### `visit` computes the indicator polynomial -/

mutual
theorem visit_eval (vars : List String) (σ : Env) :
    ∀ (e : BExp) (p : PExp), visit vars e = .ok p → p.eval σ = b2i (e.eval σ)
  | .sym n, p, h => by
      simp only [visit] at h
      split at h
      · cases h; rfl
      · cases h
  | .tt, p, h => by simp only [visit] at h; cases h; rfl
  | .ff, p, h => by simp only [visit] at h; cases h; rfl
  | .not e, p, h => by
      simp only [visit] at h
      cases hv : visit vars e with
      | error m => rw [hv] at h; cases h
      | ok a =>
        rw [hv] at h; cases h
        simp only [PExp.eval, BExp.eval, visit_eval vars σ e a hv, b2i_not]
  | .and l, p, h => by
      simp only [visit] at h
      simpa only [BExp.eval] using visitAnd_eval vars σ l p h
  | .xor l, p, h => by
      simp only [visit] at h
      simpa only [BExp.eval] using visitXor_eval vars σ l p h
  | .or l, p, h => by
      simp only [visit] at h
      cases hv : visitList vars l with
      | error m => rw [hv] at h; cases h
      | ok ps =>
        rw [hv] at h
        have hm := visitList_eval vars σ l ps hv
        match ps, l, h, hm with
        | [a, b], [e1, e2], h, hm =>
          cases h
          simp only [List.map, List.cons.injEq, and_true] at hm
          simp only [PExp.eval, BExp.eval, evalOr, hm.1, hm.2, Bool.or_false, b2i_or]
        | [a, b], [], h, hm => simp at hm
        | [a, b], [_], h, hm => simp at hm
        | [a, b], _ :: _ :: _ :: _, h, hm => simp at hm
        | [], _, h, _ => cases h
        | [_], _, h, _ => cases h
        | _ :: _ :: _ :: _, _, h, _ => cases h
  | .ite _ _ _, p, h => by simp only [visit] at h; cases h
  | .imp _ _, p, h => by simp only [visit] at h; cases h
theorem visitList_eval (vars : List String) (σ : Env) :
    ∀ (l : List BExp) (ps : List PExp), visitList vars l = .ok ps →
      ps.map (fun p => p.eval σ) = l.map (fun e => b2i (e.eval σ))
  | [], ps, h => by simp only [visitList] at h; cases h; rfl
  | e :: es, ps, h => by
      simp only [visitList] at h
      cases hv : visit vars e with
      | error m => rw [hv] at h; cases h
      | ok a =>
        rw [hv] at h
        cases hl : visitList vars es with
        | error m => rw [hl] at h; cases h
        | ok as =>
          rw [hl] at h; cases h
          simp only [List.map, visit_eval vars σ e a hv, visitList_eval vars σ es as hl]
theorem visitAnd_eval (vars : List String) (σ : Env) :
    ∀ (l : List BExp) (p : PExp), visitAnd vars l = .ok p → p.eval σ = b2i (evalAnd σ l)
  | [], p, h => by simp only [visitAnd] at h; cases h
  | [e], p, h => by
      simp only [visitAnd] at h
      cases hv : visit vars e <;> rw [hv] at h <;> cases h
  | e :: e' :: es, p, h => by
      simp only [visitAnd] at h
      cases hv : visit vars e with
      | error m => rw [hv] at h; cases h
      | ok a =>
        rw [hv] at h
        match es, h with
        | [], h =>
          cases hb : visit vars e' with
          | error m => rw [hb] at h; cases h
          | ok b =>
            rw [hb] at h; cases h
            simp only [PExp.eval, evalAnd, visit_eval vars σ e a hv, visit_eval vars σ e' b hb,
              Bool.and_true, b2i_and]
        | e'' :: es', h =>
          cases hb : visitAnd vars (e' :: e'' :: es') with
          | error m => rw [hb] at h; cases h
          | ok b =>
            rw [hb] at h; cases h
            have ih := visitAnd_eval vars σ (e' :: e'' :: es') b hb
            simp only [PExp.eval, visit_eval vars σ e a hv, ih, b2i_and]
            simp only [evalAnd]
theorem visitXor_eval (vars : List String) (σ : Env) :
    ∀ (l : List BExp) (p : PExp), visitXor vars l = .ok p → p.eval σ = b2i (evalXor σ l)
  | [], p, h => by simp only [visitXor] at h; cases h
  | [e], p, h => by
      simp only [visitXor] at h
      cases hv : visit vars e <;> rw [hv] at h <;> cases h
  | e :: e' :: es, p, h => by
      simp only [visitXor] at h
      cases hv : visit vars e with
      | error m => rw [hv] at h; cases h
      | ok a =>
        rw [hv] at h
        match es, h with
        | [], h =>
          cases hb : visit vars e' with
          | error m => rw [hb] at h; cases h
          | ok b =>
            rw [hb] at h; cases h
            simp only [PExp.eval, evalXor, visit_eval vars σ e a hv, visit_eval vars σ e' b hb,
              Bool.xor_false, b2i_xor]
        | e'' :: es', h =>
          cases hb : visitXor vars (e' :: e'' :: es') with
          | error m => rw [hb] at h; cases h
          | ok b =>
            rw [hb] at h; cases h
            have ih := visitXor_eval vars σ (e' :: e'' :: es') b hb
            simp only [PExp.eval, visit_eval vars σ e a hv, ih, b2i_xor]
            simp only [evalXor]
end

/-! ### substitution and `merge_expressions` -/

/-- environment seen through a substitution -/
def substEnv (m : String → Option BExp) (ρ : Env) : Env := fun n =>
  match m n with
  | some e => e.eval ρ
  | none => ρ n

mutual
theorem eval_subst (m : String → Option BExp) (ρ : Env) :
    ∀ e : BExp, (e.subst m).eval ρ = e.eval (substEnv m ρ)
  | .tt => rfl
  | .ff => rfl
  | .sym n => by
      simp only [BExp.subst, BExp.eval, substEnv]
      cases m n <;> rfl
  | .not e => by simp only [BExp.subst, BExp.eval, eval_subst m ρ e]
  | .and l => by simp only [BExp.subst, BExp.eval, evalAnd_subst m ρ l]
  | .or l => by simp only [BExp.subst, BExp.eval, evalOr_subst m ρ l]
  | .xor l => by simp only [BExp.subst, BExp.eval, evalXor_subst m ρ l]
  | .ite c t e => by
      simp only [BExp.subst, BExp.eval, eval_subst m ρ c, eval_subst m ρ t, eval_subst m ρ e]
  | .imp a b => by simp only [BExp.subst, BExp.eval, eval_subst m ρ a, eval_subst m ρ b]
theorem evalAnd_subst (m : String → Option BExp) (ρ : Env) :
    ∀ l : List BExp, evalAnd ρ (substList m l) = evalAnd (substEnv m ρ) l
  | [] => rfl
  | e :: es => by simp only [substList, evalAnd, eval_subst m ρ e, evalAnd_subst m ρ es]
theorem evalOr_subst (m : String → Option BExp) (ρ : Env) :
    ∀ l : List BExp, evalOr ρ (substList m l) = evalOr (substEnv m ρ) l
  | [] => rfl
  | e :: es => by simp only [substList, evalOr, eval_subst m ρ e, evalOr_subst m ρ es]
theorem evalXor_subst (m : String → Option BExp) (ρ : Env) :
    ∀ l : List BExp, evalXor ρ (substList m l) = evalXor (substEnv m ρ) l
  | [] => rfl
  | e :: es => by simp only [substList, evalXor, eval_subst m ρ e, evalXor_subst m ρ es]
end

theorem substEnv_cons (emap : List (String × BExp)) (s : String) (e' : BExp)
    (ρ : Env) :
    substEnv (lookup ((s, e') :: emap)) ρ = update (substEnv (lookup emap) ρ) s (e'.eval ρ) := by
  funext n
  simp only [substEnv, lookup, update]
  cases s == n <;> simp

/-- `merge_expressions` with a truth-table preserving simplifier yields, per return bit, an
expression over the inputs whose value is that bit of the function -/
theorem mergeGo_sound (simp : BExp → BExp) (hs : ∀ e ρ, (simp e).eval ρ = e.eval ρ) (ρ : Env) :
    ∀ (exprs emap : List (String × BExp)),
      (mergeGo simp emap exprs).map (fun se => se.2.eval ρ)
        = retVals (substEnv (lookup emap) ρ) exprs
  | [], emap => rfl
  | (s, e) :: rest, emap => by
      simp only [mergeGo, retVals]
      have he : (simp (e.subst (lookup emap))).eval ρ = e.eval (substEnv (lookup emap) ρ) := by
        rw [hs, eval_subst]
      split
      · simp only [List.map, he, mergeGo_sound simp hs ρ rest emap]
      · rw [mergeGo_sound simp hs ρ rest ((s, simp (e.subst (lookup emap))) :: emap),
          substEnv_cons, he]

theorem substEnv_nil (ρ : Env) : substEnv (lookup []) ρ = ρ := rfl

theorem mergeGo_names (simp : BExp → BExp) :
    ∀ (exprs emap : List (String × BExp)), ∀ se ∈ mergeGo simp emap exprs, isRet se.1 = true
  | [], _, se, h => by simp [mergeGo] at h
  | (s, e) :: rest, emap, se, h => by
      simp only [mergeGo] at h
      split at h
      · next hr =>
        rcases List.mem_cons.mp h with h | h
        · subst h; exact hr
        · exact mergeGo_names simp rest emap se h
      · exact mergeGo_names simp rest _ se h

/-! ### the sum of the terms -/

theorem pyAdd_eval (σ : Env) (a b : PExp) : (pyAdd a b).eval σ = a.eval σ + b.eval σ := by
  unfold pyAdd
  split <;> rfl

theorem pyAdd_vars (a b : PExp) : (pyAdd a b).vars = a.vars ++ b.vars := by
  unfold pyAdd
  split <;> rfl

/-- the loop-body term of a return bit evaluates to that bit - unless the quirk is on and the
expression is a bare symbol -/
theorem termOf_eval (q : Quirks) (vars : List String) (σ : Env) (s : String) (e : BExp) (t : PExp)
    (hr : isRet s = true) (hq : q.retSymbolAndConst = false ∨ isSym e = false)
    (h : termOf q vars s e = .ok t) : t.eval σ = b2i (e.eval σ) := by
  unfold termOf at h
  have : (q.retSymbolAndConst && isSym e) = false := by
    rcases hq with h' | h' <;> simp [h']
  rw [this, hr] at h
  exact visit_eval vars σ e t h

def accEval (σ : Env) : Option PExp → Int
  | none => 0
  | some p => p.eval σ

def countInt (σ : Env) : List (String × BExp) → Int
  | [] => 0
  | (_, e) :: rest => b2i (e.eval σ) + countInt σ rest

theorem countInt_eq (σ : Env) : ∀ l : List (String × BExp),
    countInt σ l = (countTrue (l.map fun se => se.2.eval σ) : Nat)
  | [] => rfl
  | (s, e) :: rest => by
      simp only [countInt, List.map, countTrue, countInt_eq σ rest, b2i]
      cases e.eval σ <;> simp

theorem sumTerms_eval (q : Quirks) (σ : Env) :
    ∀ (l : List (String × BExp)) (vars : List String) (acc r : Option PExp),
      (∀ se ∈ l, isRet se.1 = true) →
      (q.retSymbolAndConst = false ∨ ∀ se ∈ l, isSym se.2 = false) →
      sumTerms q vars acc l = .ok r → accEval σ r = accEval σ acc + countInt σ l
  | [], vars, acc, r, _, _, h => by
      simp only [sumTerms] at h; cases h; simp [countInt]
  | (s, e) :: rest, vars, acc, r, hr, hq, h => by
      simp only [sumTerms] at h
      cases ht : termOf q (vars ++ [s]) s e with
      | error m => rw [ht] at h; cases h
      | ok t =>
        rw [ht] at h
        have hte : t.eval σ = b2i (e.eval σ) :=
          termOf_eval q _ σ s e t (hr (s, e) (List.mem_cons_self ..))
            (hq.imp id (fun hh => hh (s, e) (List.mem_cons_self ..))) ht
        have ih := sumTerms_eval q σ rest _ _ r
          (fun se hse => hr se (List.mem_cons_of_mem _ hse))
          (hq.imp id (fun hh se hse => hh se (List.mem_cons_of_mem _ hse))) h
        rw [ih]
        cases acc with
        | none => simp only [accEval, countInt, hte]; omega
        | some a => simp only [accEval, countInt, pyAdd_eval, hte]; omega

/-- when `to_bqm` returns a tree: it is the sum built by the loop, not a bare number, and the
format is one of the four -/
theorem toBqmMerged_ok (q : Quirks) (argBits : List String) (merged : List (String × BExp))
    (fmt : String) (p : PExp) :
    toBqmMerged q argBits merged fmt = .ok p ↔
      (sumTerms q argBits none merged = .ok (some p) ∧ (∀ n, p ≠ .num n) ∧
        formats.contains fmt = true) := by
  unfold toBqmMerged
  cases hs : sumTerms q argBits none merged with
  | error m => simp
  | ok r =>
    cases r with
    | none => simp
    | some p' =>
      cases p' <;> simp only [] <;> (try split) <;> simp_all <;> (intro h; subst h; simp)

/-! ### variables -/

mutual
theorem visit_vars (vars : List String) :
    ∀ (e : BExp) (p : PExp), visit vars e = .ok p → p.vars = e.syms ∧ ∀ v ∈ p.vars, v ∈ vars
  | .sym n, p, h => by
      simp only [visit] at h
      split at h
      · next hc => cases h; simp only [PExp.vars, BExp.syms, List.mem_singleton, true_and]
                   intro v hv; subst hv; simpa using hc
      · cases h
  | .tt, p, h => by simp only [visit] at h; cases h; simp [PExp.vars, BExp.syms]
  | .ff, p, h => by simp only [visit] at h; cases h; simp [PExp.vars, BExp.syms]
  | .not e, p, h => by
      simp only [visit] at h
      cases hv : visit vars e with
      | error m => rw [hv] at h; cases h
      | ok a => rw [hv] at h; cases h; simpa only [PExp.vars, BExp.syms] using visit_vars vars e a hv
  | .and l, p, h => by
      simp only [visit] at h
      simpa only [BExp.syms] using visitAnd_vars vars l p h
  | .xor l, p, h => by
      simp only [visit] at h
      simpa only [BExp.syms] using visitXor_vars vars l p h
  | .or l, p, h => by
      simp only [visit] at h
      cases hv : visitList vars l with
      | error m => rw [hv] at h; cases h
      | ok ps =>
        rw [hv] at h
        have hm := visitList_vars vars l ps hv
        match ps, h, hm with
        | [a, b], h, hm =>
          cases h
          simp only [PExp.vars, BExp.syms]
          simpa [List.flatMap] using hm
        | [], h, _ => cases h
        | [_], h, _ => cases h
        | _ :: _ :: _ :: _, h, _ => cases h
  | .ite _ _ _, p, h => by simp only [visit] at h; cases h
  | .imp _ _, p, h => by simp only [visit] at h; cases h
theorem visitList_vars (vars : List String) :
    ∀ (l : List BExp) (ps : List PExp), visitList vars l = .ok ps →
      ps.flatMap PExp.vars = symsList l ∧ ∀ v ∈ ps.flatMap PExp.vars, v ∈ vars
  | [], ps, h => by simp only [visitList] at h; cases h; simp [symsList]
  | e :: es, ps, h => by
      simp only [visitList] at h
      cases hv : visit vars e with
      | error m => rw [hv] at h; cases h
      | ok a =>
        rw [hv] at h
        cases hl : visitList vars es with
        | error m => rw [hl] at h; cases h
        | ok as =>
          rw [hl] at h; cases h
          have h1 := visit_vars vars e a hv
          have h2 := visitList_vars vars es as hl
          simp only [List.flatMap_cons, symsList, h1.1, h2.1, true_and]
          intro v hv'
          rcases List.mem_append.mp hv' with h' | h'
          · exact h1.2 v (h1.1 ▸ h')
          · exact h2.2 v (h2.1 ▸ h')
theorem visitAnd_vars (vars : List String) :
    ∀ (l : List BExp) (p : PExp), visitAnd vars l = .ok p →
      p.vars = symsList l ∧ ∀ v ∈ p.vars, v ∈ vars
  | [], p, h => by simp only [visitAnd] at h; cases h
  | [e], p, h => by
      simp only [visitAnd] at h
      cases hv : visit vars e <;> rw [hv] at h <;> cases h
  | e :: e' :: es, p, h => by
      simp only [visitAnd] at h
      cases hv : visit vars e with
      | error m => rw [hv] at h; cases h
      | ok a =>
        rw [hv] at h
        have h1 := visit_vars vars e a hv
        match es, h with
        | [], h =>
          cases hb : visit vars e' with
          | error m => rw [hb] at h; cases h
          | ok b =>
            rw [hb] at h; cases h
            have h2 := visit_vars vars e' b hb
            simp only [PExp.vars, symsList, h1.1, h2.1, List.append_nil, true_and]
            intro v hv'
            rcases List.mem_append.mp hv' with h' | h'
            · exact h1.2 v (h1.1 ▸ h')
            · exact h2.2 v (h2.1 ▸ h')
        | e'' :: es', h =>
          cases hb : visitAnd vars (e' :: e'' :: es') with
          | error m => rw [hb] at h; cases h
          | ok b =>
            rw [hb] at h; cases h
            have h2 := visitAnd_vars vars (e' :: e'' :: es') b hb
            refine ⟨?_, ?_⟩
            · simp only [PExp.vars, h1.1, h2.1]; simp only [symsList]
            · intro v hv'
              simp only [PExp.vars] at hv'
              rcases List.mem_append.mp hv' with h' | h'
              · exact h1.2 v h'
              · exact h2.2 v h'
theorem visitXor_vars (vars : List String) :
    ∀ (l : List BExp) (p : PExp), visitXor vars l = .ok p →
      p.vars = symsList l ∧ ∀ v ∈ p.vars, v ∈ vars
  | [], p, h => by simp only [visitXor] at h; cases h
  | [e], p, h => by
      simp only [visitXor] at h
      cases hv : visit vars e <;> rw [hv] at h <;> cases h
  | e :: e' :: es, p, h => by
      simp only [visitXor] at h
      cases hv : visit vars e with
      | error m => rw [hv] at h; cases h
      | ok a =>
        rw [hv] at h
        have h1 := visit_vars vars e a hv
        match es, h with
        | [], h =>
          cases hb : visit vars e' with
          | error m => rw [hb] at h; cases h
          | ok b =>
            rw [hb] at h; cases h
            have h2 := visit_vars vars e' b hb
            simp only [PExp.vars, symsList, h1.1, h2.1, List.append_nil, true_and]
            intro v hv'
            rcases List.mem_append.mp hv' with h' | h'
            · exact h1.2 v (h1.1 ▸ h')
            · exact h2.2 v (h2.1 ▸ h')
        | e'' :: es', h =>
          cases hb : visitXor vars (e' :: e'' :: es') with
          | error m => rw [hb] at h; cases h
          | ok b =>
            rw [hb] at h; cases h
            have h2 := visitXor_vars vars (e' :: e'' :: es') b hb
            refine ⟨?_, ?_⟩
            · simp only [PExp.vars, h1.1, h2.1]; simp only [symsList]
            · intro v hv'
              simp only [PExp.vars] at hv'
              rcases List.mem_append.mp hv' with h' | h'
              · exact h1.2 v h'
              · exact h2.2 v h'
end

/-- all symbols of the merged return expressions, in order -/
def defsSyms : List (String × BExp) → List String
  | [] => []
  | (_, e) :: rest => e.syms ++ defsSyms rest

def accVars : Option PExp → List String
  | none => []
  | some p => p.vars

theorem sumTerms_vars (q : Quirks) (hq : q.retSymbolAndConst = false) :
    ∀ (l : List (String × BExp)) (vars : List String) (acc r : Option PExp),
      (∀ se ∈ l, isRet se.1 = true) →
      sumTerms q vars acc l = .ok r →
      accVars r = accVars acc ++ defsSyms l ∧
        ∀ v ∈ defsSyms l, v ∈ vars ∨ v ∈ l.map (·.1)
  | [], vars, acc, r, _, h => by
      simp only [sumTerms] at h; cases h; simp [defsSyms]
  | (s, e) :: rest, vars, acc, r, hr, h => by
      simp only [sumTerms] at h
      cases ht : termOf q (vars ++ [s]) s e with
      | error m => rw [ht] at h; cases h
      | ok t =>
        rw [ht] at h
        have hv : visit (vars ++ [s]) e = .ok t := by
          unfold termOf at ht
          rw [hq, hr (s, e) (List.mem_cons_self ..)] at ht
          simpa using ht
        have h1 := visit_vars _ e t hv
        have ih := sumTerms_vars q hq rest _ _ r
          (fun se hse => hr se (List.mem_cons_of_mem _ hse)) h
        refine ⟨?_, ?_⟩
        · rw [ih.1]
          cases acc with
          | none => simp only [accVars, defsSyms, h1.1, List.nil_append]
          | some a => simp only [accVars, defsSyms, pyAdd_vars, h1.1, List.append_assoc]
        · intro v hv'
          simp only [defsSyms] at hv'
          rcases List.mem_append.mp hv' with h' | h'
          · have := h1.2 v (h1.1 ▸ h')
            rcases List.mem_append.mp this with h'' | h''
            · exact Or.inl h''
            · right; simp only [List.mem_singleton] at h''; subst h''; simp
          · rcases ih.2 v h' with h'' | h''
            · rcases List.mem_append.mp h'' with h3 | h3
              · exact Or.inl h3
              · right; simp only [List.mem_singleton] at h3; subst h3; simp
            · right; simp only [List.map, List.mem_cons]; exact Or.inr h''

/-! ### an expression depends only on the symbols it mentions -/

mutual
theorem eval_congr (ρ ρ' : Env) :
    ∀ e : BExp, (∀ n ∈ e.syms, ρ n = ρ' n) → e.eval ρ = e.eval ρ'
  | .tt, _ => rfl
  | .ff, _ => rfl
  | .sym n, h => by simpa only [BExp.eval] using h n (by simp [BExp.syms])
  | .not e, h => by simp only [BExp.eval, eval_congr ρ ρ' e (by simpa only [BExp.syms] using h)]
  | .and l, h => by simpa only [BExp.eval] using evalAnd_congr ρ ρ' l (by simpa only [BExp.syms] using h)
  | .or l, h => by simpa only [BExp.eval] using evalOr_congr ρ ρ' l (by simpa only [BExp.syms] using h)
  | .xor l, h => by simpa only [BExp.eval] using evalXor_congr ρ ρ' l (by simpa only [BExp.syms] using h)
  | .ite c t e, h => by
      simp only [BExp.syms, List.mem_append] at h
      simp only [BExp.eval, eval_congr ρ ρ' c (fun n hn => h n (Or.inl (Or.inl hn))),
        eval_congr ρ ρ' t (fun n hn => h n (Or.inl (Or.inr hn))),
        eval_congr ρ ρ' e (fun n hn => h n (Or.inr hn))]
  | .imp a b, h => by
      simp only [BExp.syms, List.mem_append] at h
      simp only [BExp.eval, eval_congr ρ ρ' a (fun n hn => h n (Or.inl hn)),
        eval_congr ρ ρ' b (fun n hn => h n (Or.inr hn))]
theorem evalAnd_congr (ρ ρ' : Env) :
    ∀ l : List BExp, (∀ n ∈ symsList l, ρ n = ρ' n) → evalAnd ρ l = evalAnd ρ' l
  | [], _ => rfl
  | e :: es, h => by
      simp only [symsList, List.mem_append] at h
      simp only [evalAnd, eval_congr ρ ρ' e (fun n hn => h n (Or.inl hn)),
        evalAnd_congr ρ ρ' es (fun n hn => h n (Or.inr hn))]
theorem evalOr_congr (ρ ρ' : Env) :
    ∀ l : List BExp, (∀ n ∈ symsList l, ρ n = ρ' n) → evalOr ρ l = evalOr ρ' l
  | [], _ => rfl
  | e :: es, h => by
      simp only [symsList, List.mem_append] at h
      simp only [evalOr, eval_congr ρ ρ' e (fun n hn => h n (Or.inl hn)),
        evalOr_congr ρ ρ' es (fun n hn => h n (Or.inr hn))]
theorem evalXor_congr (ρ ρ' : Env) :
    ∀ l : List BExp, (∀ n ∈ symsList l, ρ n = ρ' n) → evalXor ρ l = evalXor ρ' l
  | [], _ => rfl
  | e :: es, h => by
      simp only [symsList, List.mem_append] at h
      simp only [evalXor, eval_congr ρ ρ' e (fun n hn => h n (Or.inl hn)),
        evalXor_congr ρ ρ' es (fun n hn => h n (Or.inr hn))]
end

theorem defs_congr (ρ ρ' : Env) : ∀ l : List (String × BExp),
    (∀ n ∈ defsSyms l, ρ n = ρ' n) → l.map (fun se => se.2.eval ρ) = l.map (fun se => se.2.eval ρ')
  | [], _ => rfl
  | (s, e) :: rest, h => by
      simp only [defsSyms, List.mem_append] at h
      simp only [List.map, eval_congr ρ ρ' e (fun n hn => h n (Or.inl hn)),
        defs_congr ρ ρ' rest (fun n hn => h n (Or.inr hn))]

/-! ### `decode_samples` -/

theorem formatOutcome_exact (l : List Bool) : formatOutcome l (some l.length) = l := by
  simp [formatOutcome]

theorem decodeArg_eq (sample : List (String × Bool)) (fill : String → Bool) (a : Arg)
    (h : a.bitvec.length = a.ty.size) :
    decodeArg sample fill a = interpret a.ty (sampleBits sample fill a.bitvec) := by
  have hl : (sampleBits sample fill a.bitvec).length = a.bitvec.length := by
    simp [sampleBits]
  unfold decodeArg interpretAsQtype
  have : formatOutcome (sampleBits sample fill a.bitvec).reverse (some a.bitvec.length)
      = (sampleBits sample fill a.bitvec).reverse := by
    have := formatOutcome_exact (sampleBits sample fill a.bitvec).reverse
    rwa [List.length_reverse, hl] at this
  simp only [this, List.reverse_reverse]
  cases hty : a.ty <;> simp only [] <;>
    rw [List.take_of_length_le (by omega)]

end QV.Bqm
