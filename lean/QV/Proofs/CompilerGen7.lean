import QV.Proofs.CompilerGen6
/-!
# Semantic correctness of the compiler model on the general class – part 7: the statement loop

`BI`: the invariant between two statements (scratch space zero; the qubit of every name in scope holds the
name's value under the current environment; every cache entry holds the value of its key; no mark left; every
gate of `gates_computed` targets a qubit in use; **every ancilla is free or kept** – no ancilla in use is left
behind by a statement whose ancillas were released).  `top_g`: the right-hand side of a statement;
`stmt_unc` / `stmt_keep`: the two ends of a statement; `BI.step`: the invariant for the next statement, with
the environment updated at the defined name (which may be bound already: re-binding).
-/
namespace QV.Compiler
open QV

variable {ρ : Env} {σ0 : FState}

/-- invariant between two statements -/
structure BI (scope : List String) (ρ : Env) (σ0 : FState) (s : CState) : Prop where
  good : Good s
  zero : ∀ q, Avail s q → cur σ0 s q = false
  names : ∀ n q, Known scope n → dictGet? s.qc.qmap n = some q →
    q ∉ s.qc.free ∧ q ∉ s.qc.anc ∧ cur σ0 s q = kval ρ n
  bound : ∀ n ∈ scope, ∃ q, dictGet? s.qc.qmap n = some q
  scopeOK : ∀ n ∈ scope, reservedName n = false
  cache : ∀ p ∈ s.expq, ¬ Avail s p.2 ∧ cur σ0 s p.2 = p.1.eval ρ
  freeNd : s.qc.free.Nodup
  freeAnc : ∀ q ∈ s.qc.free, q ∈ s.qc.anc
  keptNF : ∀ k ∈ s.qc.kept, k ∉ s.qc.free
  nomark : s.qc.marked = []
  comp : ∀ g ∈ s.qc.gatesComputed.toList, ¬ Avail s g.target
  nl : ∀ a ∈ s.qc.anc, a ∈ s.qc.free ∨ a ∈ s.qc.kept

/-- the invariant inside the statement that starts in `s` -/
theorem BI.start {scope : List String} {s : CState} (bi : BI scope ρ σ0 s) : GI (Known scope) ρ σ0 s s := by
  refine ⟨bi.good, by rw [Lof_self]; simp, by rw [Lof_self]; simp, ?_, ?_, ?_, Nat.le_refl _, fun _ h => h, rfl,
    bi.zero, bi.names, fun n hk => known_notAnc bi.scopeOK hk, ?_, bi.freeNd, bi.freeAnc, bi.keptNF, ?_, ?_⟩
  · intro g hg; rw [Lof_self] at hg; cases hg
  · intro g hg; rw [Lof_self] at hg; cases hg
  · rw [Lof_self]; trivial
  · intro p hp _
    obtain ⟨c1, c2⟩ := bi.cache p hp
    refine ⟨c1, c2, fun h1 h2 => ?_⟩
    rcases bi.nl _ h1 with h' | h'
    · exact absurd (Or.inl h') c1
    · exact absurd h' h2
  · intro m hm; rw [bi.nomark] at hm; cases hm
  · intro a ha
    rcases bi.nl a ha with h' | h'
    · exact Or.inr (Or.inl h')
    · exact Or.inl h'

theorem BI.knOK {scope : List String} {s : CState} (bi : BI scope ρ σ0 s) : KnOK (Known scope) ρ scope :=
  ⟨fun n hn => ⟨Or.inl hn, kval_scope bi.scopeOK hn⟩, Or.inr (Or.inl rfl), Or.inr (Or.inr rfl)⟩

/-- what the right-hand side of `r = e` establishes: `t1` the state after `compile_expr`, `iret` its result;
the known names are those of the scope other than `r` (a `_ret…` name bound to a copy is re-bound already) -/
structure TopG (scope : List String) (ρ : Env) (σ0 : FState) (r : String) (v : Bool) (nc : Bool) (s t1 : CState)
    (iret : Nat) : Prop where
  gi : GI (fun n => Known scope n ∧ n ≠ r) ρ σ0 s t1
  nav : ¬ Avail t1 iret
  val : cur σ0 t1 iret = v
  nm : iret ∉ t1.qc.marked
  pend : ∀ a ∈ t1.qc.anc, a ∉ t1.qc.free → a ∉ t1.qc.kept → a ∉ t1.qc.marked → a = iret
  /-- qubits in use when the statement started are not written -/
  frame : ∀ q, ¬ Avail s q → cur σ0 t1 q = cur σ0 s q
  akeep : ∀ a ∈ s.qc.anc, a ∈ t1.qc.anc
  fkeep : ∀ q ∈ t1.qc.free, q ∈ s.qc.free
  /-- a right-hand side without constants allocates ancillas only (and the qubit of a `_ret…` copy) -/
  alloc : nc = false → ∀ q, s.qc.numQubits ≤ q → q < t1.qc.numQubits → q ∈ t1.qc.anc ∨ q = iret

/-- the frame facts of `TopG` from the frame of the compilation of the right-hand side -/
theorem top_frame {Kn : String → Prop} {s t1 : CState} {D R C E : Nat → Prop} {iret : Nat} {nc : Bool}
    (fr : Fr Kn σ0 s s t1 D R C E) (hD : ∀ q, ¬ Avail s q → ¬ D q) (hE : nc = false → ∀ q, E q → q = iret) :
    (∀ q, ¬ Avail s q → cur σ0 t1 q = cur σ0 s q) ∧ (∀ a ∈ s.qc.anc, a ∈ t1.qc.anc) ∧
    (∀ q ∈ t1.qc.free, q ∈ s.qc.free) ∧ (nc = false → ∀ q, s.qc.numQubits ≤ q → q < t1.qc.numQubits → q ∈ t1.qc.anc ∨ q = iret) :=
  ⟨fun q hq => fr.val q hq (hD q hq), fr.akeep, fr.fkeep, fun hn q h1 h2 => (fr.alloc q h1 h2).imp id (hE hn q)⟩

/-- no ancilla in use is left unmarked by a piece of compilation that started between two statements, except
its result -/
theorem pend_top {Kn : String → Prop} {scope : List String} {s t1 : CState} {D R C E : Nat → Prop} {iret : Nat}
    (bi : BI scope ρ σ0 s) (fr : Fr Kn σ0 s s t1 D R C E) (hR : ∀ q, R q → q = iret) :
    ∀ a ∈ t1.qc.anc, a ∉ t1.qc.free → a ∉ t1.qc.kept → a ∉ t1.qc.marked → a = iret := by
  intro a h1 h2 h3 h4
  rcases fr.pend a h1 h2 h3 h4 with ⟨a1, a2, _⟩ | hh
  · rcases bi.nl a a1 with h' | h'
    · exact absurd h' a2
    · exact absurd (by rw [fr.kkeep]; exact h') h3
  · exact hR a hh

/-- a marked qubit was in the scratch space when the statement started -/
theorem GIh.marked_av0 {Kn : String → Prop} {H : Nat → Prop} {s0 s : CState} (gi : GIh Kn ρ σ0 s0 H s) {m : Nat}
    (hm : m ∈ s.qc.marked) : Avail s0 m := by
  obtain ⟨m1, m2, _, _⟩ := gi.marks m hm
  rcases gi.ancOld m m1 with h' | h'
  · exact absurd h' m2
  · exact h'

/-- `r = n` with a copy: the symbol's qubit is copied (`CX`) into a new qubit named `r` -/
theorem copyTop_g {scope : List String} {n r : String} {q a : Nat} {u : Unit} {s t0 t : CState}
    (bi : BI scope ρ σ0 s) (hn : n ∈ scope) (hnr : n ≠ r)
    (hadd : (addQubit r).run s = .ok (a, t0)) (hq : dictGet? t0.qc.qmap n = some q)
    (hcx : (cx q a).run t0 = .ok (u, t)) {nc : Bool} : TopG scope ρ σ0 r (ρ n) nc s t a := by
  have gi0 : GI (fun n => Known scope n ∧ n ≠ r) ρ σ0 s s := bi.start.monoKn (fun _ h => h.1)
  obtain ⟨gi1, fr1, ha, hcur, pd, hava, hqa, hna, hnf, hex, hmk, hqm⟩ := addQubit_gi hadd gi0 (fun _ h => h.2)
  have hk : Known scope n ∧ n ≠ r := ⟨Or.inl hn, hnr⟩
  have hnavq : ¬ Avail t0 q := gi1.name_nav hk hq
  obtain ⟨gi2, fr2, pd2, tg2, ac, _⟩ := gateP (cs := [q]) (t := a) hcx gi1 rfl rfl
    (by intro c hc; have : c = q := by simpa using hc
        rw [this]; exact hnavq) pd
  obtain ⟨f1, f2, f4, f3⟩ := top_frame (nc := nc) (iret := a) (fr1.trans fr2)
    (fun x hx hh => hh.elim (fun h' => h') (fun h' => hx (h' ▸ hava)))
    (fun _ x hh => hh.elim (fun h' => h') (fun h' => h'.elim))
  refine ⟨gi2, pd2.nav, ?_, pd2.nm, pend_top bi (fr1.trans fr2) (fun _ hh => hh.elim (fun h' => h'.elim) (fun h' => h'.elim)),
    f1, f2, f4, f3⟩
  rw [ac.cur_eq rfl σ0, hcur, bi.zero a hava]
  simp only [List.all_cons, List.all_nil, Bool.and_true, Bool.false_bne]
  rw [← hcur, (gi1.names n q hk hq).2.2, kval_scope bi.scopeOK hn]

theorem cx_same_fails {a : Nat} {u : Unit} {s s' : CState} (h : (cx a a).run s = .ok (u, s')) : False := by
  have ha := cx_run h
  have := ha.noerr
  unfold appendError at this
  simp at this
  split at this <;> cases this

theorem topSym_g {scope : List String} {n r : String} {iret : Nat} {s t : CState}
    (h : (compileSymbol n (some r)).run s = .ok (iret, t)) (bi : BI scope ρ σ0 s) (hn : n ∈ scope) {nc : Bool} :
    TopG scope ρ σ0 r (ρ n) nc s t iret := by
  have hk : Known scope n := Or.inl hn
  have alias : ∀ {a : Nat} {s' : CState}, StateT.run (do
      let qc ← getQC
      match dictGet? qc.qmap n with
        | some i => pure i
        | none => throw s!"CompilerException: Symbol not found in qc: {n}" : M Nat) s = .ok (a, s') →
      TopG scope ρ σ0 r (ρ n) nc s s' a := by
    intro a s' h
    obtain ⟨qc, s1, hq, h⟩ := run_bind_ok.mp h
    obtain ⟨rfl, rfl⟩ := getQC_run hq
    split at h
    · next j hj =>
      obtain ⟨rfl, rfl⟩ := run_pure_ok.mp h
      obtain ⟨t1, t2, t3⟩ := bi.names n _ hk hj
      refine ⟨bi.start.monoKn (fun _ h => h.1), bi.start.name_nav hk hj, by rw [t3, kval_scope bi.scopeOK hn],
        by rw [bi.nomark]; exact List.not_mem_nil, pend_top (Kn := Known scope) bi (Fr.refl (D := NoN) (R := NoN) (C := NoN) (E := NoN) _)
          (fun _ hh => hh.elim), fun _ _ => rfl, fun _ h => h, fun _ h => h, fun _ q h1 h2 => absurd h2 (by omega)⟩
    · exact (run_throw_ok.mp h).elim
  have aliasq : ∀ {q : Nat}, dictGet? s.qc.qmap n = some q → TopG scope ρ σ0 r (ρ n) nc s s q := by
    intro q hj
    obtain ⟨t1, t2, t3⟩ := bi.names n _ hk hj
    exact ⟨bi.start.monoKn (fun _ h => h.1), bi.start.name_nav hk hj, by rw [t3, kval_scope bi.scopeOK hn],
      by rw [bi.nomark]; exact List.not_mem_nil, pend_top (Kn := Known scope) bi (Fr.refl (D := NoN) (R := NoN) (C := NoN) (E := NoN) _)
        (fun _ hh => hh.elim), fun _ _ => rfl, fun _ h => h, fun _ h => h, fun _ q h1 h2 => absurd h2 (by omega)⟩
  unfold compileSymbol at h
  dsimp only at h
  split at h
  · rw [run_get_bind_ok] at h
    split at h
    · obtain ⟨a0, s2, hadd, h2⟩ := run_bind_ok.mp h
      obtain ⟨q, s3, hl, h3⟩ := run_bind_ok.mp h2
      have hg2 : Good s2 := (addQubit_ok (B := fun _ => True) hadd bi.good (Or.inl trivial)).1.good
      obtain ⟨e3, hq, _⟩ := lookup_ok hl hg2
      subst e3
      obtain ⟨u, s4, hcx, hpure⟩ := run_bind_ok.mp h3
      obtain ⟨e1, e2⟩ := run_pure_ok.mp hpure
      subst e1; subst e2
      by_cases hnr : n = r
      · exfalso
        subst hnr
        have hs2 := (addQubit_run hadd).2
        have ha0 := (addQubit_run hadd).1
        rw [hs2] at hq
        have hq' : dictGet? (dictSet s.qc.qmap n s.qc.numQubits) n = some q := hq
        rw [dictGet?_dictSet_self] at hq'
        have : q = iret := by rw [ha0]; exact (Option.some.inj hq').symm
        subst this
        exact cx_same_fails hcx
      · exact copyTop_g bi hn hnr hadd hq hcx
    · obtain ⟨q, s2, hl, h2⟩ := run_bind_ok.mp h
      obtain ⟨e2, hq, _⟩ := lookup_ok hl bi.good
      subst e2
      rw [run_get_bind_ok] at h2
      split at h2
      · obtain ⟨a0, s3, hadd, h3⟩ := run_bind_ok.mp h2
        obtain ⟨u, s4, hcx, hpure⟩ := run_bind_ok.mp h3
        obtain ⟨e1, e2⟩ := run_pure_ok.mp hpure
        subst e1; subst e2
        by_cases hnr : n = r
        · -- `r = r` with a copy: the new qubit would be copied from the old qubit of `r`; the name is re-bound
          -- by `addQubit`, but the copy reads the qubit looked up before: handled like any other symbol with
          -- the known names `≠ r` – here the source qubit is the old qubit of `r` itself, not known any more;
          -- its value is still `ρ r`
          subst hnr
          have gi0 := bi.start.monoKn (Kn' := fun m => Known scope m ∧ m ≠ n) (fun _ h => h.1)
          obtain ⟨gi1, fr1, ha, hcur, pd, hava, hqa, hna, hnf, hex, hmk, hqm⟩ := addQubit_gi hadd gi0 (fun _ h => h.2)
          obtain ⟨t1', t2', t3'⟩ := bi.names n q hk hq
          have hnavq : ¬ Avail s3 q := fun h' => (bi.start.name_nav hk hq) (fr1.avail q h')
          obtain ⟨gi2, fr2, pd2, tg2, ac, _⟩ := gateP (cs := [q]) (t := iret) hcx gi1 rfl rfl
            (by intro c hc; have : c = q := by simpa using hc
                rw [this]; exact hnavq) pd
          obtain ⟨f1, f2, f4, f3⟩ := top_frame (nc := nc) (iret := iret) (fr1.trans fr2)
            (fun x hx hh => hh.elim (fun h' => h') (fun h' => hx (h' ▸ hava)))
            (fun _ x hh => hh.elim (fun h' => h') (fun h' => h'.elim))
          refine ⟨gi2, pd2.nav, ?_, pd2.nm, pend_top bi (fr1.trans fr2)
            (fun _ hh => hh.elim (fun h' => h'.elim) (fun h' => h'.elim)), f1, f2, f4, f3⟩
          rw [ac.cur_eq rfl σ0, hcur, bi.zero iret hava]
          simp only [List.all_cons, List.all_nil, Bool.and_true, Bool.false_bne]
          rw [t3', kval_scope bi.scopeOK hn]
        · have hq3 : dictGet? s3.qc.qmap n = some q := by
            rw [(addQubit_run hadd).2]
            show dictGet? (dictSet _ r _) n = some q
            rw [dictGet?_dictSet_ne hnr]; exact hq
          exact copyTop_g bi hn hnr hadd hq3 hcx
      · obtain ⟨e1, e2⟩ := run_pure_ok.mp h2
        subst e1; subst e2
        exact aliasq hq
  · exact alias h

theorem topExpr_g {scope : List String} {e : BExp} {r : String} {iret : Nat} {s t : CState}
    (h : (compileExpr e none (some r)).run s = .ok (iret, t)) (bi : BI scope ρ σ0 s)
    (hwf : wfExpG scope e = true) (hsn : selfNot r e = false) :
    TopG scope ρ σ0 r (e.eval ρ) (hasConst e && !isLeaf e) s t iret := by
  have core : ∀ {E : Nat → Prop}, GI (Known scope) ρ σ0 s t →
      Fr (Known scope) σ0 s s t (fun q => (none : Option Nat) = some q) (· = iret) NoN E →
      ResG (Known scope) ρ σ0 s s t e iret → ((hasConst e && !isLeaf e) = false → ∀ q, E q → q = iret) →
      TopG scope ρ σ0 r (e.eval ρ) (hasConst e && !isLeaf e) s t iret := by
    intro E gi fr res hE
    obtain ⟨f1, f2, f4, f3⟩ := top_frame (nc := hasConst e && !isLeaf e) (iret := iret) fr
      (fun _ _ hh => by cases hh) hE
    refine ⟨gi.monoKn (fun _ hh => hh.1), res.nav, res.val, ?_, pend_top bi fr (fun _ hh => hh), f1, f2, f4, f3⟩
    intro hm
    have hav := gi.marked_av0 hm
    exact (res.fresh hav).2 hm
  have gen : isLeaf e = false → TopG scope ρ σ0 r (e.eval ρ) (hasConst e && !isLeaf e) s t iret := by
    intro hl
    obtain ⟨gi, fr, hv, _⟩ := exprG (σ0 := σ0) (s0 := s) bi.knOK e hwf none (some r) h bi.start
      (by intro d hd; cases hd) (fun hle => by rw [hl] at hle; cases hle) (by intro x hx; cases hx; exact hsn)
    refine core gi fr (hv rfl) (fun hn _ hh => ?_)
    rw [hl] at hn
    simp only [Bool.not_false, Bool.and_true] at hn
    rw [hn] at hh; cases hh
  cases e with
  | sym n =>
    unfold compileExpr at h
    exact topSym_g h bi (by simpa [wfExpG] using hwf)
  | tt =>
    have h' : (compileExpr .tt none none).run s = .ok (iret, t) := by unfold compileExpr at h ⊢; exact h
    obtain ⟨gi, fr, hv, _⟩ := exprGc_tt (σ0 := σ0) (s0 := s) bi.knOK.tt none none h' bi.start
      (by intro d hd; cases hd) (fun _ => ⟨rfl, rfl⟩) (by intro x hx; cases hx)
    exact core gi fr (hv rfl) (fun _ _ hh => hh)
  | ff =>
    have h' : (compileExpr .ff none none).run s = .ok (iret, t) := by unfold compileExpr at h ⊢; exact h
    obtain ⟨gi, fr, hv, _⟩ := exprGc_ff (σ0 := σ0) (s0 := s) bi.knOK.ff none none h' bi.start
      (by intro d hd; cases hd) (fun _ => ⟨rfl, rfl⟩) (by intro x hx; cases hx)
    exact core gi fr (hv rfl) (fun _ _ hh => hh)
  | not a => exact gen rfl
  | and l => exact gen rfl
  | or l => exact gen rfl
  | xor l => exact gen rfl
  | ite a b c => simp [wfExpG] at hwf
  | imp a b => simp [wfExpG] at hwf

/-! ### the value of an expression depends on its symbols only -/

mutual
theorem evalG_congr (ρ ρ' : Env) : ∀ e : BExp, (∀ n ∈ e.syms, ρ n = ρ' n) → e.eval ρ = e.eval ρ'
  | .tt, _ => rfl
  | .ff, _ => rfl
  | .sym n, h => h n (by simp [BExp.syms])
  | .not e, h => by simp only [BExp.eval, evalG_congr ρ ρ' e (by simpa only [BExp.syms] using h)]
  | .and l, h => by simp only [BExp.eval, evalAndG_congr ρ ρ' l (by simpa only [BExp.syms] using h)]
  | .or l, h => by simp only [BExp.eval, evalOrG_congr ρ ρ' l (by simpa only [BExp.syms] using h)]
  | .xor l, h => by simp only [BExp.eval, evalXorG_congr ρ ρ' l (by simpa only [BExp.syms] using h)]
  | .ite c t e, h => by
      simp only [BExp.syms, List.mem_append] at h
      simp only [BExp.eval, evalG_congr ρ ρ' c (fun n hn => h n (Or.inl (Or.inl hn))),
        evalG_congr ρ ρ' t (fun n hn => h n (Or.inl (Or.inr hn))),
        evalG_congr ρ ρ' e (fun n hn => h n (Or.inr hn))]
  | .imp a b, h => by
      simp only [BExp.syms, List.mem_append] at h
      simp only [BExp.eval, evalG_congr ρ ρ' a (fun n hn => h n (Or.inl hn)),
        evalG_congr ρ ρ' b (fun n hn => h n (Or.inr hn))]
theorem evalAndG_congr (ρ ρ' : Env) : ∀ l : List BExp, (∀ n ∈ symsList l, ρ n = ρ' n) → evalAnd ρ l = evalAnd ρ' l
  | [], _ => rfl
  | e :: es, h => by
      simp only [symsList, List.mem_append] at h
      simp only [evalAnd, evalG_congr ρ ρ' e (fun n hn => h n (Or.inl hn)),
        evalAndG_congr ρ ρ' es (fun n hn => h n (Or.inr hn))]
theorem evalOrG_congr (ρ ρ' : Env) : ∀ l : List BExp, (∀ n ∈ symsList l, ρ n = ρ' n) → evalOr ρ l = evalOr ρ' l
  | [], _ => rfl
  | e :: es, h => by
      simp only [symsList, List.mem_append] at h
      simp only [evalOr, evalG_congr ρ ρ' e (fun n hn => h n (Or.inl hn)),
        evalOrG_congr ρ ρ' es (fun n hn => h n (Or.inr hn))]
theorem evalXorG_congr (ρ ρ' : Env) : ∀ l : List BExp, (∀ n ∈ symsList l, ρ n = ρ' n) → evalXor ρ l = evalXor ρ' l
  | [], _ => rfl
  | e :: es, h => by
      simp only [symsList, List.mem_append] at h
      simp only [evalXor, evalG_congr ρ ρ' e (fun n hn => h n (Or.inl hn)),
        evalXorG_congr ρ ρ' es (fun n hn => h n (Or.inr hn))]
end

end QV.Compiler
