import QV.Proofs.Front6
import Std.Data.String.ToNat
/-! Statement level of C01, part 1: names, the environment invariant `EnvInv` that `Env.bind` and
`decompose_to_symbols` preserve along the definition list, independence of a translated value from
the symbols of a variable the expression does not mention, sequential evaluation of the definitions
of one assignment. -/
namespace QV.Sem
open QV QV.Arith QV.Front

set_option linter.unusedSimpArgs false
set_option linter.unusedVariables false

/-! ### names of bit symbols -/

/-- the symbol of bit `i` of the variable `t` (`decompose_to_symbols`, `translate_argument`) -/
def bitName (t : String) (i : Nat) : String := s!"{t}.{i}"

/-- the symbols that belong to the variable `t`: `t` itself (a bool) or `t.i` -/
def Owned (t s : String) : Prop := s = t ∨ ∃ i : Nat, s = bitName t i

theorem bitName_toList (t : String) (i : Nat) :
    (bitName t i).toList = t.toList ++ '.' :: (toString i).toList := by
  unfold bitName
  simp [toString, String.toList_append]

theorem bitName_inj {t : String} {i j : Nat} (h : bitName t i = bitName t j) : i = j := by
  have h1 := congrArg String.toList h
  rw [bitName_toList, bitName_toList] at h1
  have h2 := List.append_cancel_left h1
  simp only [List.cons.injEq, true_and] at h2
  exact Nat.repr_injective (String.toList_inj.mp h2)

theorem dot_split {a b c d : List Char} (ha : '.' ∉ a) (hb : '.' ∉ b)
    (h : a ++ '.' :: c = b ++ '.' :: d) : a = b := by
  induction a generalizing b with
  | nil =>
    cases b with
    | nil => rfl
    | cons x xs =>
      simp only [List.nil_append, List.cons_append, List.cons.injEq] at h
      exact absurd (by rw [← h.1]; simp) hb
  | cons y ys ih =>
    cases b with
    | nil =>
      simp only [List.nil_append, List.cons_append, List.cons.injEq] at h
      exact absurd (by rw [h.1]; simp) ha
    | cons x xs =>
      simp only [List.cons_append, List.cons.injEq] at h
      obtain ⟨rfl, h⟩ := h
      congr 1
      exact ih (fun hh => ha (List.mem_cons_of_mem _ hh)) (fun hh => hb (List.mem_cons_of_mem _ hh)) h

theorem goodName_iff (n : String) : goodName n = true ↔ '.' ∉ n.toList := by
  simp [goodName]

theorem owned_disjoint {n m s : String} (hn : goodName n = true) (hm : goodName m = true)
    (hne : n ≠ m) (h1 : Owned n s) : ¬ Owned m s := by
  rw [goodName_iff] at hn hm
  intro h2
  rcases h1 with rfl | ⟨i, rfl⟩
  · rcases h2 with h2 | ⟨j, h2⟩
    · exact hne h2
    · have := congrArg String.toList h2
      rw [bitName_toList] at this
      exact hn (by rw [this]; simp)
  · rcases h2 with h2 | ⟨j, h2⟩
    · have := congrArg String.toList h2
      rw [bitName_toList] at this
      exact hm (by rw [← this]; simp)
    · have := congrArg String.toList h2
      rw [bitName_toList, bitName_toList] at this
      exact hne (String.toList_inj.mp (dot_split hn hm this))

theorem owned_self (t : String) : Owned t t := Or.inl rfl
theorem owned_bit (t : String) (i : Nat) : Owned t (bitName t i) := Or.inr ⟨i, rfl⟩

/-- `ρ'` differs from `ρ` at most on the symbols of `t` -/
def AgreeOff (t : String) (ρ ρ' : QV.Env) : Prop := ∀ s, ¬ Owned t s → ρ' s = ρ s

theorem AgreeOff.refl (t : String) (ρ : QV.Env) : AgreeOff t ρ ρ := fun _ _ => rfl

/-! ### which variables an expression reads -/

mutual
theorem semW_congr (t : String) (σ σ' : SEnv) (h : ∀ n, n ≠ t → σ n = σ' n) :
    ∀ e : PExp, mentions t e = false → semW σ e = semW σ' e
  | .name n, hm => by
    simp only [mentions, beq_eq_false_iff_ne, ne_eq] at hm
    simp only [semW, h n hm]
  | .subs n p, hm => by
    simp only [mentions, beq_eq_false_iff_ne, ne_eq] at hm
    simp only [semW, h n hm]
  | .cbool _, _ => by simp only [semW]
  | .cint _, _ => by simp only [semW]
  | .cchar _, _ => by simp only [semW]
  | .unsupported _, _ => by simp only [semW]
  | .tuple _, _ => by simp only [semW]
  | .not e, hm => by
    simp only [mentions] at hm
    simp only [semW, semW_congr t σ σ' h e hm]
  | .inv e, hm => by
    simp only [mentions] at hm
    simp only [semW, semW_congr t σ σ' h e hm]
  | .boolop _ vs, hm => by
    simp only [mentions] at hm
    simp only [semW, semWList_congr t σ σ' h vs hm]
  | .ite c a b, hm => by
    simp only [mentions, Bool.or_eq_false_iff] at hm
    simp only [semW, semW_congr t σ σ' h c hm.1.1, semW_congr t σ σ' h a hm.1.2,
      semW_congr t σ σ' h b hm.2]
  | .cmp _ l r, hm => by
    simp only [mentions, Bool.or_eq_false_iff] at hm
    simp only [semW, semW_congr t σ σ' h l hm.1, semW_congr t σ σ' h r hm.2]
  | .bin _ l r, hm => by
    simp only [mentions, Bool.or_eq_false_iff] at hm
    simp only [semW, semW_congr t σ σ' h l hm.1, semW_congr t σ σ' h r hm.2]
theorem semWList_congr (t : String) (σ σ' : SEnv) (h : ∀ n, n ≠ t → σ n = σ' n) :
    ∀ es : List PExp, mentionsList t es = false → semWList σ es = semWList σ' es
  | [], _ => by simp only [semWList]
  | e :: es, hm => by
    simp only [mentionsList, Bool.or_eq_false_iff] at hm
    simp only [semWList, semW_congr t σ σ' h e hm.1, semWList_congr t σ σ' h es hm.2]
end

/-! ### no value of the fragment has the width 1 -/

/-- no integer variable has the width 1 (the library has no `Qint1`) -/
def WidthOK (σ : SEnv) : Prop := ∀ n w x, σ n = some (.int w x) → w ≠ 1

theorem mulWidth_ne_one (s : Nat) : mulWidth s ≠ 1 := by
  unfold mulWidth
  repeat' split
  all_goals omega

theorem constWidth_ne_one (v : Int) (w : Nat) (h : constWidth v = some w) : w ≠ 1 := by
  have hmem := List.mem_of_find?_eq_some h
  simp only [constWidths, List.mem_cons, List.mem_nil_iff, or_false] at hmem
  omega

theorem semW_width (σ : SEnv) (hσ : WidthOK σ) :
    ∀ (e : PExp) (w x : Nat), semW σ e = some (.int w x) → w ≠ 1
  | .name n, w, x, h => hσ n w x (by simpa only [semW] using h)
  | .cbool _, w, x, h => by simp [semW] at h
  | .cchar _, w, x, h => by simp [semW] at h
  | .unsupported _, w, x, h => by simp [semW] at h
  | .tuple _, w, x, h => by simp [semW] at h
  | .cint v, w, x, h => by
    simp only [semW] at h
    split at h
    · rename_i w' hw
      simp only [Option.some.injEq, SVal.int.injEq] at h
      rw [← h.1]
      exact constWidth_ne_one v w' hw
    · cases h
  | .subs n p, w, x, h => by
    simp only [semW] at h
    split at h
    · split at h <;> simp at h
    · cases h
  | .not e, w, x, h => by
    simp only [semW] at h
    split at h <;> simp at h
  | .inv e, w, x, h => by
    simp only [semW] at h
    split at h
    · rename_i w' x' he
      simp only [Option.some.injEq, SVal.int.injEq] at h
      rw [← h.1]
      exact semW_width σ hσ e w' x' he
    · cases h
  | .boolop _ vs, w, x, h => by
    simp only [semW] at h
    split at h
    · simp at h
    · cases h
  | .ite c a b, w, x, h => by
    simp only [semW] at h
    split at h
    · simp at h
    · rename_i cb wa xa wb xb hc ha hb
      simp only [Option.some.injEq, SVal.int.injEq] at h
      have h1 := semW_width σ hσ a wa xa ha
      have h2 := semW_width σ hσ b wb xb hb
      omega
    · cases h
  | .cmp _ l r, w, x, h => by
    simp only [semW] at h
    split at h
    · simp at h
    · simp at h
    · cases h
  | .bin op l r, w, x, h => by
    simp only [semW] at h
    split at h
    · -- bool left operand
      split at h
      · unfold boolBin at h
        split at h <;> simp at h
      · cases h
    · rename_i wl xl hl
      have h1 := semW_width σ hσ l wl xl hl
      split at h
      · split at h
        · split at h
          · cases h
          · split at h
            · simp only [Option.some.injEq, SVal.int.injEq] at h
              omega
            · simp only [Option.some.injEq, SVal.int.injEq] at h
              omega
        · cases h
      · split at h
        · rename_i wr xr hr
          have h2 := semW_width σ hσ r wr xr hr
          unfold intBin at h
          have hm := mulWidth_ne_one (max wl wr + max wl wr)
          split at h
          all_goals (try split at h)
          all_goals simp only [Option.some.injEq, SVal.int.injEq, reduceCtorEq] at h
          all_goals omega
        · cases h
    · cases h

/-! ### the environment invariant -/

/-- the binding `b` has the shape `translate_argument` / `decompose_to_symbols` give a `bool` or a
`Qint[w]` (`w ≠ 1`) variable, and the variable's value in `σ` is the value of its symbols under `ρ` -/
def BindOK (ρ : QV.Env) (σ : SEnv) (b : Binding) : Prop :=
  (b.ty = .bool ∧ b.bitvec = [b.name] ∧ σ b.name = some (.bool (ρ b.name))) ∨
  (∃ w, w ≠ 1 ∧ b.ty = .qint w ∧ b.bitvec = (List.range w).map (bitName b.name) ∧
      σ b.name = some (.int w (valLE (b.bitvec.map ρ))))

/-- invariant of the statement translator: every variable that can be looked up is a well-shaped
`bool` / `Qint` binding with a dot-free name whose value in `σ` is what its symbols say under `ρ` -/
structure EnvInv (ρ : QV.Env) (env : Front.Env) (σ : SEnv) : Prop where
  bind : ∀ n b, env.find n = some b → BindOK ρ σ b
  good : ∀ n b, env.find n = some b → goodName n = true
  width : WidthOK σ

theorem find_name {env : Front.Env} {n : String} {b : Binding} (h : env.find n = some b) : b.name = n := by
  have := List.find?_some h
  simpa using this

theorem names_qint (m : String) (w : Nat) : Ty.names m (.qint w) = (List.range w).map (bitName m) := by
  simp only [Ty.names]
  rfl

theorem ofBits_syms (names : List String) :
    Val.list (names.map fun s => Val.atom (BExp.sym s)) = Val.ofBits (names.map BExp.sym) := by
  simp [Val.ofBits, List.map_map, Function.comp_def]

/-- the invariant gives the hypothesis of `C01_expr` -/
theorem envOK_of_inv {ρ : QV.Env} {env : Front.Env} {σ : SEnv} (hinv : EnvInv ρ env σ) :
    EnvOK ρ env σ := by
  intro n s t v s' h
  rw [tr] at h
  cases hf : env.find n with
  | none =>
    rw [hf] at h
    simp only [run_throw_ok] at h
  | some b =>
    rw [hf] at h
    have hname := find_name hf
    rcases hinv.bind n b hf with ⟨hty, hbv, hσ⟩ | ⟨w, hw, hty, hbv, hσ⟩
    · simp only [hbv, List.length_singleton, Nat.lt_irrefl, if_false, run_pure_ok, gt_iff_lt] at h
      obtain ⟨h, _⟩ := h
      cases h
      rw [hname] at hσ
      refine ⟨.bool (ρ n), by simpa only [semW] using hσ, ?_⟩
      rw [hty, hname]
      exact Den.mk_bool _ _ rfl
    · have hlen : b.bitvec.length = w := by rw [hbv]; simp
      simp only [hlen, gt_iff_lt] at h
      by_cases hw1 : 1 < w
      · simp only [hw1, if_true, run_pure_ok] at h
        obtain ⟨h, _⟩ := h
        cases h
        rw [hname] at hσ
        refine ⟨_, by simpa only [semW] using hσ, ?_⟩
        rw [hty, ofBits_syms]
        exact Den.mk_int _ _ _ (by simpa using hlen) (val_syms ρ _)
      · have hw0 : w = 0 := by omega
        subst hw0
        simp only [Nat.lt_irrefl, Nat.not_lt_zero, if_false, hbv, List.range_zero, List.map_nil,
          run_throw_ok] at h

/-- a binding of another variable is not disturbed by a change of the symbols of `t` -/
theorem bindOK_agree {ρ ρ' : QV.Env} {σ : SEnv} {b : Binding} {t : String} (hb : BindOK ρ σ b)
    (hg : goodName b.name = true) (hgt : goodName t = true) (hne : b.name ≠ t)
    (ha : AgreeOff t ρ ρ') : ρ' b.name = ρ b.name ∧ b.bitvec.map ρ' = b.bitvec.map ρ := by
  have hown : ∀ s, Owned b.name s → ρ' s = ρ s := fun s hs => ha s (owned_disjoint hg hgt hne hs)
  refine ⟨hown _ (owned_self _), ?_⟩
  rcases hb with ⟨_, hbv, _⟩ | ⟨w, _, _, hbv, _⟩
  · rw [hbv]; simp [hown _ (owned_self _)]
  · rw [hbv]
    simp only [List.map_map]
    apply List.map_congr_left
    intro i _
    exact hown _ (owned_bit _ i)

theorem bindOK_transfer {ρ ρ' : QV.Env} {σ σ' : SEnv} {b : Binding} {t : String} (hb : BindOK ρ σ b)
    (hg : goodName b.name = true) (hgt : goodName t = true) (hne : b.name ≠ t)
    (ha : AgreeOff t ρ ρ') (hσ : σ' b.name = σ b.name) : BindOK ρ' σ' b := by
  obtain ⟨h1, h2⟩ := bindOK_agree hb hg hgt hne ha
  rcases hb with ⟨hty, hbv, hs⟩ | ⟨w, hw, hty, hbv, hs⟩
  · exact Or.inl ⟨hty, hbv, by rw [hσ, hs, h1]⟩
  · exact Or.inr ⟨w, hw, hty, hbv, by rw [hσ, hs, h2]⟩

/-! ### `Env.bind` -/

theorem find_bind (env : Front.Env) (b : Binding) (n : String) :
    (env.bind b).find n = if n = b.name then some b else env.find n := by
  unfold Env.bind Env.find
  rw [List.find?_append, List.find?_filter]
  by_cases hn : n = b.name
  · subst hn
    have : List.find? (fun a : Binding => decide ((a.name != b.name) = true ∧ (a.name == b.name) = true)) env
        = none := by
      rw [List.find?_eq_none]
      intro x _
      simp
    rw [this]
    simp [List.find?]
  · have hfun : (fun a : Binding => decide ((a.name != b.name) = true ∧ (a.name == n) = true))
        = fun a : Binding => a.name == n := by
      funext a
      by_cases ha : a.name = n
      · subst ha; simp [hn]
      · simp [ha]
    rw [hfun]
    have hb : ([b] : List Binding).find? (fun a => a.name == n) = none := by
      have : (b.name == n) = false := by simp [Ne.symm hn]
      simp only [List.find?, this]
    rw [hb]
    simp [hn]

theorem find_append_ret (env : Front.Env) (b : Binding) (n : String) (hnone : env.find b.name = none) :
    Env.find (env ++ [b]) n = if n = b.name then some b else env.find n := by
  unfold Env.find at *
  rw [List.find?_append]
  by_cases hn : n = b.name
  · subst hn
    simp [hnone]
  · have hb : ([b] : List Binding).find? (fun a => a.name == n) = none := by
      have : (b.name == n) = false := by simp [Ne.symm hn]
      simp only [List.find?, this]
    rw [hb]
    simp [hn]

/-! ### the definitions of one assignment, evaluated in order -/

/-- `decompose_to_symbols` of a bit list from index `k` -/
def defsOf (t : String) : Nat → List BExp → List (String × BExp)
  | _, [] => []
  | k, b :: bs => (bitName t k, b) :: defsOf t (k + 1) bs

theorem decomposeList_atoms (t : String) (k : Nat) (bits : List BExp) :
    Val.decomposeList t k (bits.map .atom) = defsOf t k bits := by
  induction bits generalizing k with
  | nil => simp [Val.decomposeList, defsOf]
  | cons b bs ih =>
    simp only [List.map_cons, Val.decomposeList, Val.decompose, defsOf, ih, List.singleton_append]
    rfl

theorem decompose_ofBits (t : String) (bits : List BExp) :
    (Val.ofBits bits).decompose t = defsOf t 0 bits := by
  simp only [Val.ofBits, Val.decompose, decomposeList_atoms]

theorem defsOf_names (t : String) (k : Nat) (bits : List BExp) :
    (defsOf t k bits).map (·.1) = (List.range' k bits.length).map (bitName t) := by
  induction bits generalizing k with
  | nil => simp [defsOf]
  | cons b bs ih => simp [defsOf, ih, List.range'_succ]

theorem defsOf_names0 (t : String) (bits : List BExp) :
    (defsOf t 0 bits).map (·.1) = (List.range bits.length).map (bitName t) := by
  rw [defsOf_names, List.range_eq_range']

def stepDef (ρ : QV.Env) (d : String × BExp) : QV.Env := fun x => if x == d.1 then d.2.eval ρ else ρ x

theorem runDefs_nil (ρ : QV.Env) : runDefs [] ρ = ρ := rfl

theorem runDefs_cons (d : String × BExp) (ds : List (String × BExp)) (ρ : QV.Env) :
    runDefs (d :: ds) ρ = runDefs ds (stepDef ρ d) := by
  cases d; rfl

theorem runDefs_append (a b : List (String × BExp)) (ρ : QV.Env) :
    runDefs (a ++ b) ρ = runDefs b (runDefs a ρ) := by
  unfold runDefs; rw [List.foldl_append]

theorem seq_eval (t : String) (ρ : QV.Env) :
    ∀ (suf : List BExp) (k : Nat) (ρ1 : QV.Env), AgreeOff t ρ ρ1 →
      (∀ b ∈ suf, ∀ ρ'', AgreeOff t ρ ρ'' → b.eval ρ'' = b.eval ρ) →
      AgreeOff t ρ (runDefs (defsOf t k suf) ρ1) ∧
      (List.range' k suf.length).map (fun i => runDefs (defsOf t k suf) ρ1 (bitName t i)) = evalBits ρ suf ∧
      (∀ j, j < k → runDefs (defsOf t k suf) ρ1 (bitName t j) = ρ1 (bitName t j))
  | [], k, ρ1, h1, _ => by
    simp only [defsOf, runDefs_nil]
    refine ⟨h1, by simp [evalBits], ?_⟩
    intro _ _; trivial
  | b :: bs, k, ρ1, h1, hb => by
    simp only [defsOf, runDefs_cons]
    have h2 : AgreeOff t ρ (stepDef ρ1 (bitName t k, b)) := by
      intro s hs
      have hne : s ≠ bitName t k := fun h => hs (h ▸ owned_bit t k)
      simp only [stepDef, beq_iff_eq, hne, if_false]
      exact h1 s hs
    obtain ⟨i1, i2, i3⟩ := seq_eval t ρ bs (k + 1) _ h2 (fun b' hb' => hb b' (List.mem_cons_of_mem _ hb'))
    refine ⟨i1, ?_, ?_⟩
    · simp only [List.length_cons, List.range'_succ, List.map_cons, evalBits]
      congr 1
      · rw [i3 k (Nat.lt_succ_self k)]
        simp only [stepDef, beq_self_eq_true, if_true]
        exact hb b (List.mem_cons_self) ρ1 h1
    · intro j hj
      rw [i3 j (by omega)]
      have hne : bitName t j ≠ bitName t k := fun h => by have := bitName_inj h; omega
      simp only [stepDef, beq_iff_eq, hne, if_false]

end QV.Sem
