import QV.Proofs.CompilerSem2b
/-!
# Semantic correctness of the compiler model on wider classes – part 3: `And`, `Or`, `Xor`, the induction
-/
namespace QV.Compiler
open QV

variable {scope : List String} {ρ : Env} {σ0 : FState} {wo : Bool}

theorem Res.weaken {Q : FState → Nat → Prop} {W : Nat → Prop} {K : BExp → Prop} {Mk : Nat → Prop}
    {s s1 s2 : CState} {a : Nat} (h : Res scope wo s1 s2 a) (sem : Sem2 scope σ0 wo Q W K Mk s s1) :
    Res scope wo s s2 a := by
  rcases h with h | ⟨h1, h2⟩
  · exact Or.inl h
  · exact Or.inr ⟨sem.avail a h1, h2⟩

theorem cache_next2 {Q : FState → Nat → Prop} {W : Nat → Prop} {K : BExp → Prop} {Mk : Nat → Prop}
    {s s1 : CState} {a : BExp} {as : List BExp}
    (hcache : ∀ p ∈ s.expq, ∀ c ∈ compKeysList (a :: as), (p.1 == c) = false)
    (sem1 : Sem2 scope σ0 wo Q W K Mk s s1) (hK : ∀ c, K c → c ∈ compKeys a)
    (hdis : ∀ x ∈ compKeys a, ∀ y ∈ compKeysList as, (x == y) = false) :
    ∀ p ∈ s1.expq, ∀ c ∈ compKeysList as, (p.1 == c) = false := by
  intro p hp' c hc
  rcases sem1.keys p hp' with ⟨p0, hp0, e0⟩ | hk
  · rw [← e0]; exact hcache p0 hp0 c (by simp [compKeysList, hc])
  · exact hdis _ (hK _ hk) c hc

/-! ### argument lists -/

theorem argsSem2_nil : ArgsSem2 scope ρ σ0 wo [] := by
  intro rs s s' h hp _
  unfold compileArgs at h
  obtain ⟨rfl, rfl⟩ := run_pure_ok.mp h
  exact ⟨hp, Sem2.refl _, rfl, fun q hq => absurd hq List.not_mem_nil, fun _ q hq => absurd hq List.not_mem_nil⟩

theorem argsSem2_cons {a : BExp} {as : List BExp} (iha : ExprSem2 scope ρ σ0 wo a)
    (ihs : ArgsSem2 scope ρ σ0 wo as)
    (hdis : ∀ x ∈ compKeys a, ∀ y ∈ compKeysList as, (x == y) = false) :
    ArgsSem2 scope ρ σ0 wo (a :: as) := by
  intro rs s s' h hp hcache
  unfold compileArgs at h
  obtain ⟨q1, s1, h1, h2⟩ := run_bind_ok.mp h
  obtain ⟨rs', s2, h3, h4⟩ := run_bind_ok.mp h2
  obtain ⟨rfl, rfl⟩ := run_pure_ok.mp h4
  obtain ⟨hp1, sem1, hv1, _⟩ := iha none none h1 hp
    (fun p hp' c hc => hcache p hp' c (by simp [compKeysList, hc])) (by intro d hd0; cases hd0)
    (by intro y hy; cases hy) (fun _ => ⟨rfl, rfl⟩)
  obtain ⟨hres1, hnav1, hval1, hanc1⟩ := hv1 rfl
  obtain ⟨hp2, sem2, hvals, hb, hancs⟩ := ihs h3 hp1 (cache_next2 hcache sem1 (fun _ h => h) hdis)
  refine ⟨hp2, ((sem1.monoQ (CtlQ.of_sem sem2)).trans' sem2).mono ?_ ?_ ?_, ?_, ?_, ?_⟩
  · rintro q _ (h' | h')
    · exact nomatch h'
    · exact h'.elim
  · rintro c (h' | h')
    · simp [compKeysList, show c ∈ compKeys a from h']
    · simp [compKeysList, show c ∈ compKeysList as from h']
  · rintro m (h' | h')
    · exact ⟨h'.1, fun hm => h'.2.1 (sem2.avail m hm)⟩
    · exact ⟨sem1.avail m h'.1, h'.2⟩
  · simp only [List.map_cons, hvals]
    rw [sem2.frame q1 (fun h' => h') (Or.inl hnav1), hval1]
  · intro q hq
    simp only [List.mem_cons] at hq
    rcases hq with rfl | hq
    · exact ⟨hres1.next sem2, fun h' => hnav1 (sem2.avail q h')⟩
    · exact ⟨(hb q hq).1.weaken sem1, (hb q hq).2⟩
  · intro hall q hq
    simp only [List.mem_cons] at hq
    rcases hq with rfl | hq
    · exact sem2.akeep q (hanc1 (hall a List.mem_cons_self))
    · exact hancs (fun a' ha' => hall a' (List.mem_cons_of_mem _ ha')) q hq

/-- the common tail of `compile_and` / `compile_or` -/
theorem finish_sem2 {Q : FState → Nat → Prop} {es : List Nat} {dest : Option Nat} {e : BExp} {d a : Nat}
    {s s' : CState}
    (h : StateT.run (do
          markAll es
          if dest.isNone = true then do
              expqSet e d
              pure d
            else pure d : M Nat) s = .ok (a, s'))
    (hp : Pre2 scope ρ σ0 s) (hd : d < s.qc.numQubits)
    (htgt : wo = false → ∀ m ∈ es, m ∈ s.qc.anc → Tgt s m) :
    a = d ∧ Pre2 scope ρ σ0 s' ∧ Sem2 scope σ0 wo Q NoQ (· = e) (fun m => m ∈ es ∧ m ∈ s.qc.anc) s s' ∧
      cur σ0 s' = cur σ0 s ∧ (∀ m ∈ es, m ∈ s.qc.anc → m ∉ s.qc.kept → m ∈ s'.qc.marked) ∧
      s'.qc.anc = s.qc.anc := by
  obtain ⟨u1, s1, hm, h1⟩ := run_bind_ok.mp h
  obtain ⟨hp1, sem1, hc1, hmk1, ha1, hn1⟩ := markAll_sem2 (wo := wo) (Q := Q) hm hp htgt
  split at h1
  · obtain ⟨u2, s2, hset, h2⟩ := run_bind_ok.mp h1
    obtain ⟨e1, e2⟩ := run_pure_ok.mp h2
    subst e2
    obtain ⟨hp2, sem2, hc2, hqc2⟩ := expqSet_sem2 (wo := wo) (Q := Q) hset hp1 (by rw [hn1]; exact hd)
    refine ⟨e1, hp2, (sem1.trans' sem2).mono ?_ ?_ ?_, hc2.trans hc1,
      fun m hm' ha hk => sem2.mkeep m (hmk1 m hm' ha hk), by rw [hqc2]; exact ha1⟩
    · rintro q _ (h' | h') <;> exact h'
    · rintro c (h' | h')
      · exact h'.elim
      · exact h'
    · rintro m (h' | h')
      · exact h'
      · exact h'.elim
  · obtain ⟨e1, e2⟩ := run_pure_ok.mp h1
    subst e2
    exact ⟨e1, hp1, sem1.mono (fun _ _ h' => h') (fun _ h' => h'.elim) (fun _ h' => h'), hc1, hmk1, ha1⟩

/-! ### `And` -/

theorem exprSem2_and {args : List BExp} (ih : ArgsSem2 scope ρ σ0 wo args) :
    ExprSem2 scope ρ σ0 wo (.and args) := by
  intro dest sym a s s' h hp hcache hd hsym _
  unfold compileExpr at h
  dsimp only at h
  obtain ⟨r0, s1, hget, h1⟩ := run_bind_ok.mp h
  obtain ⟨rfl, rfl⟩ := expqGet?_miss hget (fun p hp' => hcache p hp' _ (by simp [compKeys]))
  dsimp only at h1
  obtain ⟨erets, s2, hargs, h2⟩ := run_bind_ok.mp h1
  obtain ⟨hp2, sem1, hvals, hb, _⟩ := ih hargs hp (fun p hp' c hc => hcache p hp' c (by simp [compKeys, hc]))
  have hd2 : ∀ d, dest = some d → Priv scope s2 d := fun d hd' => (hd d hd').next sem1
  have body : ∀ {d : Nat} {s3 : CState},
      (destOr dest).run s2 = .ok (d, s3) →
      StateT.run (
        if erets.contains d = true then do
          event "destAmongArgs"
          mcx (sortNat (if erets.contains d = true then erets.erase d else erets).eraseDups) d
          markAll (sortNat (if erets.contains d = true then erets.erase d else erets).eraseDups)
          if dest.isNone = true then do
              expqSet (BExp.and args) d
              pure d
            else pure d
        else do
          mcx (sortNat (if erets.contains d = true then erets.erase d else erets).eraseDups) d
          markAll (sortNat (if erets.contains d = true then erets.erase d else erets).eraseDups)
          if dest.isNone = true then do
              expqSet (BExp.and args) d
              pure d
            else pure d : M Nat) s3 = .ok (a, s') →
      Pre2 scope ρ σ0 s' ∧
      Sem2 scope σ0 wo (CtlQ scope ρ s') (fun q => dest = some q) (· ∈ compKeys (BExp.and args))
        (fun m => Avail s1 m ∧ ¬ Avail s' m ∧ (dest = none → m ≠ a)) s1 s' ∧
      (dest = none → Res scope wo s1 s' a ∧ ¬ Avail s' a ∧ cur σ0 s' a = (BExp.and args).eval ρ ∧
        (isLeaf (BExp.and args) = false → a ∈ s'.qc.anc)) ∧
      (∀ d, dest = some d → a = d ∧ cur σ0 s' d = Bool.xor (cur σ0 s1 d) ((BExp.and args).eval ρ) ∧
        (wo = false → Tgt s' d)) := by
    intro d s3 hdest h3
    obtain ⟨hp3, semd, hcd, hdn, hpriv3, hdcase⟩ := dest_sem2 (wo := wo) (Q := CtlQ scope ρ s') hp2 hd hd2 hb hdest
    have hcdn : ¬ (erets.contains d = true) := by simpa using hdn
    rcases run_ite_ok.mp h3 with ⟨hc, _⟩ | ⟨_, h3⟩
    · exact absurd hc hcdn
    · rw [if_neg hcdn] at h3
      obtain ⟨u1, t1, hmcx, k1⟩ := run_bind_ok.mp h3
      have hes3 : ∀ c ∈ sortNat erets.eraseDups, ¬ Avail s3 c :=
        fun c hc h' => (hb c (mem_sortDedup.mp hc)).2 (semd.avail c h')
      have hpt1 := mcx_pre2 hmcx hp3 hpriv3 hes3
      have am := mcx_run hmcx
      obtain ⟨ead, hp', semf, hcf, hmkf, hancf⟩ := finish_sem2 (wo := wo) (Q := CtlQ scope ρ s') k1 hpt1
        (by rw [am.nq]; exact notAvail_lt hpriv3.1)
        (fun hwo m hm ha => (((hb m (mem_sortDedup.mp hm)).1.next semd).tgt_of_anc hp3
          (by rw [← am.anc]; exact ha) hwo).appended am)
      subst ead
      obtain ⟨_, semg, tgg⟩ := mcx_sem2 (scope := scope) (σ0 := σ0) (wo := wo) (Q := CtlQ scope ρ s') hmcx hpriv3.1
        (fun _ c hc => ctl_of_res hp2 (hb c (mem_sortDedup.mp hc)).1 (by rw [hcd])
          (fun n q hk hq' => semf.qkeep n q hk (by rw [am.qmap]; exact semd.qkeep n q hk hq'))
          (fun ha => hmkf c hc (by rw [am.anc]; exact semd.akeep c ha) (by
            rw [am.kept, semd.kkeep, sem1.kkeep]
            exact hp.notKept ((hb c (mem_sortDedup.mp hc)).1.sym_or_anc hp2 ha))))
      have tail := (semd.trans' semg).trans' semf
      have tot := (sem1.monoQ (CtlQ.of_sem tail)).trans' tail
      have tgd' : Tgt s' a := tgg.of_sem semf
      have hval : cur σ0 s' a = Bool.xor (cur σ0 s2 a) (evalAnd ρ args) := by
        rw [hcf, am.cur_eq rfl σ0, all_sortDedup, hcd, all_of_map hvals]
      have hnava' : ¬ Avail s' a := fun h' => hpriv3.1 ((semg.trans' semf).avail a h')
      have hmk : ∀ m, m ∈ sortNat erets.eraseDups ∧ m ∈ t1.qc.anc → Avail s1 m ∧ ¬ Avail s' m ∧ m ≠ a := by
        rintro m ⟨h1', h2'⟩
        have hm := hb m (mem_sortDedup.mp h1')
        rw [am.anc] at h2'
        exact ⟨(hm.1.next semd).sym_or_anc hp3 h2', fun h' => hm.2 (tail.avail m h'),
          fun e => hdn (e ▸ mem_sortDedup.mp h1')⟩
      rcases hdcase with hsome | ⟨hnone, hava, hanca, hz⟩
      · subst hsome
        refine ⟨hp', tot.mono ?_ ?_ ?_, fun hn => (by cases hn), fun d' hd' => ?_⟩
        · rintro q _ (h' | ((h' | h') | h'))
          · exact h'.elim
          · exact h'.elim
          · rw [h']
          · exact h'.elim
        · rintro c (h' | ((h' | h') | h'))
          · simp [compKeys, show c ∈ compKeysList args from h']
          · exact h'.elim
          · exact h'.elim
          · simp [compKeys, show c = BExp.and args from h']
        · rintro m (h' | ((h' | h') | h'))
          · exact ⟨h'.1, fun hm => h'.2 (tail.avail m hm), fun hn => by cases hn⟩
          · exact h'.elim
          · exact h'.elim
          · exact ⟨(hmk m h').1, (hmk m h').2.1, fun hn => by cases hn⟩
        · cases hd'
          refine ⟨rfl, ?_, fun _ => tgd'⟩
          rw [hval, sem1.frame a (fun h' => h') (Or.inl (hd a rfl).1)]
          simp [BExp.eval]
      · subst hnone
        have hav1 : Avail s1 a := sem1.avail a hava
        have hanc' : a ∈ s'.qc.anc := (semg.trans' semf).akeep a hanca
        refine ⟨hp', tot.mono ?_ ?_ ?_, fun _ => ⟨Or.inr ⟨hav1, hanc', fun _ => tgd'⟩, hnava', ?_, fun _ => hanc'⟩,
          fun d' hd' => by cases hd'⟩
        · rintro q hq' (h' | ((h' | h') | h'))
          · exact h'.elim
          · exact h'.elim
          · rcases hq' with hq' | hq'
            · exact absurd (h' ▸ hav1) hq'
            · exact absurd (h' ▸ hq') hnava'
          · exact h'.elim
        · rintro c (h' | ((h' | h') | h'))
          · simp [compKeys, show c ∈ compKeysList args from h']
          · exact h'.elim
          · exact h'.elim
          · simp [compKeys, show c = BExp.and args from h']
        · rintro m (h' | ((h' | h') | h'))
          · exact ⟨h'.1, fun hm => h'.2 (tail.avail m hm), fun _ e => h'.2 (e ▸ hava)⟩
          · exact h'.elim
          · exact h'.elim
          · exact ⟨(hmk m h').1, (hmk m h').2.1, fun _ => (hmk m h').2.2⟩
        · rw [hval, hz]
          simp [BExp.eval]
  cases dest with
  | some d0 =>
    dsimp only at h2
    obtain ⟨d, s3, hp0, h4⟩ := run_bind_ok.mp h2
    exact body hp0 h4
  | none =>
    dsimp only at h2
    obtain ⟨d, s3, hf, h4⟩ := run_bind_ok.mp h2
    exact body hf h4

/-! ### `Or` -/

/-- what `mark_ancilla w` changes -/
theorem markAncilla_run3 {w : Nat} {u : Unit} {s s' : CState} (h : (markAncilla w).run s = .ok (u, s')) :
    s'.expq = s.expq ∧ s'.qc.gates = s.qc.gates ∧ s'.qc.gatesComputed = s.qc.gatesComputed ∧
      s'.qc.numQubits = s.qc.numQubits ∧ s'.qc.free = s.qc.free ∧ s'.qc.anc = s.qc.anc ∧
      s'.qc.qmap = s.qc.qmap ∧ s'.qc.kept = s.qc.kept ∧
      (∀ m ∈ s'.qc.marked, m ∈ s.qc.marked ∨ m = w) ∧
      (∀ m ∈ s.qc.marked, m ∈ s'.qc.marked) ∧ (w ∈ s.qc.anc → w ∉ s.qc.kept → w ∈ s'.qc.marked) := by
  have h' : (markAll [w]).run s = .ok (u, s') := by
    unfold markAll markAll
    show (markAncilla w >>= fun _ => pure ()).run s = _
    rw [run_bind_ok]
    exact ⟨u, s', h, rfl⟩
  obtain ⟨b0, b1, b2, b3, b4, b5, b6, bk, b7, b8, b9⟩ := markAll_run2 [w] h'
  refine ⟨b0, b1, b2, b3, b4, b5, b6, bk, fun m hm => ?_, b8, fun ha hk => b9 w (by simp) ha hk⟩
  rcases b7 m hm with h1 | ⟨h1, _⟩
  · exact Or.inl h1
  · exact Or.inr (by simpa using h1)

/-- a qubit marked *before* the gates that target it are emitted (the ancillas of the or-chain): the relation
of the gates, extended backwards over the `mark_ancilla` -/
theorem Sem2.after_mark {Q : FState → Nat → Prop} {W : Nat → Prop} {K : BExp → Prop} {Mk : Nat → Prop}
    {w : Nat} {u : Unit} {s1 s2 s3 : CState} (hmk : (markAncilla w).run s1 = .ok (u, s2))
    (sem : Sem2 scope σ0 wo Q W K Mk s2 s3) (ht : wo = false → Tgt s3 w) :
    Sem2 scope σ0 wo Q W K (fun m => Mk m ∨ m = w) s1 s3 := by
  obtain ⟨b0, b1, b2, b3, b4, b5, b6, bk, b7, b8, _⟩ := markAncilla_run3 hmk
  have hav : ∀ q, Avail s2 q ↔ Avail s1 q := by intro q; unfold Avail; rw [b4, b3]
  have hcur : cur σ0 s2 = cur σ0 s1 := cur_congr b1
  obtain ⟨l, g, c, t, q⟩ := sem.seg
  refine ⟨by rw [← b3]; exact sem.nq, fun x hx => (hav x).mp (sem.avail x hx), ?_, ?_, ?_,
    fun m hm => sem.mkeep m (b8 m hm), fun a ha => sem.akeep a (by rw [b5]; exact ha),
    fun n x hk hx => sem.qkeep n x hk (by rw [b6]; exact hx), ?_, sem.kkeep.trans bk,
    ⟨l, by rw [g, b1], by rw [c, b2], t, fun hwo => by rw [← hcur]; exact q hwo⟩⟩
  · intro x hw hx
    rw [sem.frame x hw (hx.imp (fun h' h'' => h' ((hav x).mp h'')) id), hcur]
  · intro p hp'
    rcases sem.keys p hp' with ⟨p0, hp0, e0⟩ | hk
    · exact Or.inl ⟨p0, by rw [← b0]; exact hp0, e0⟩
    · exact Or.inr hk
  · intro m hm
    rcases sem.marks m hm with h' | h'
    · rcases b7 m h' with h'' | h''
      · exact Or.inl h''
      · exact Or.inr ⟨Or.inr h'', fun hwo => h'' ▸ ht hwo⟩
    · exact Or.inr ⟨Or.inl h'.1, h'.2⟩
  · intro n x hx
    rcases sem.qnew n x hx with h' | h'
    · exact Or.inl (by rw [← b6]; exact h')
    · exact Or.inr (by rw [← b3]; exact h')

/-- `cx acc d; cx i d; mcx [acc, i] d` (`d ^= acc | i`), `d` a qubit the caller owns -/
theorem orGate_sem2 {Q : FState → Nat → Prop} {acc i d : Nat} {u : Unit} {s s' : CState}
    (h : StateT.run (do cx acc d; cx i d; mcx [acc, i] d : M Unit) s = .ok (u, s'))
    (hp : Pre2 scope ρ σ0 s) (hpd : Priv scope s d) (hacc : acc ≠ d) (hi : i ≠ d)
    (hna : ¬ Avail s acc) (hni : ¬ Avail s i)
    (hq : wo = false → ∀ f : FState, f acc = cur σ0 s acc → f i = cur σ0 s i → Q f acc ∧ Q f i) :
    Pre2 scope ρ σ0 s' ∧ Sem2 scope σ0 wo Q (· = d) NoK NoQ s s' ∧ Tgt s' d ∧
      cur σ0 s' d = Bool.xor (cur σ0 s d) (cur σ0 s acc || cur σ0 s i) ∧
      (∀ q, q ≠ d → cur σ0 s' q = cur σ0 s q) ∧
      s'.qc.anc = s.qc.anc ∧ s'.qc.qmap = s.qc.qmap ∧ s'.qc.numQubits = s.qc.numQubits ∧
      s'.qc.free = s.qc.free ∧ s'.qc.marked = s.qc.marked ∧ s'.qc.kept = s.qc.kept ∧
      (∀ q, Tgt s q → Tgt s' q) := by
  obtain ⟨u1, s1, hc1, k1⟩ := run_bind_ok.mp h
  obtain ⟨u2, s2, hc3, hm⟩ := run_bind_ok.mp k1
  have a1 := cx_run hc1
  have a2 := cx_run hc3
  have a3 : Appended (.MCX [acc, i].length) ([acc, i] ++ [d]) s2 s' := mcx_run hm
  have hav1 : ∀ q, Avail s1 q ↔ Avail s q := by intro q; unfold Avail; rw [a1.free, a1.nq]
  have hav2 : ∀ q, Avail s2 q ↔ Avail s q := by
    intro q; unfold Avail; rw [a2.free, a2.nq, a1.free, a1.nq]
  have hpd1 : Priv scope s1 d := ⟨fun h' => hpd.1 ((hav1 d).mp h'), by rw [a1.qmap]; exact hpd.2⟩
  have hpd2 : Priv scope s2 d :=
    ⟨fun h' => hpd.1 ((hav2 d).mp h'), by rw [a2.qmap, a1.qmap]; exact hpd.2⟩
  have hp1 := cx_pre2 hc1 hp hpd hna
  have hp2 := cx_pre2 hc3 hp1 hpd1 (fun h' => hni ((hav1 i).mp h'))
  have hmem : ∀ c ∈ [acc, i], c = acc ∨ c = i := fun c hc => by simpa using hc
  have hp3 := mcx_pre2 hm hp2 hpd2 (fun c hc h' => by
    rcases hmem c hc with e | e
    · exact hna (e ▸ (hav2 c).mp h')
    · exact hni (e ▸ (hav2 c).mp h'))
  have e1 : ∀ q, q ≠ d → cur σ0 s1 q = cur σ0 s q := fun q hq => a1.cur_ne rfl σ0 q hq
  have e2 : ∀ q, q ≠ d → cur σ0 s2 q = cur σ0 s q := fun q hq => by
    rw [a2.cur_ne rfl σ0 q hq, e1 q hq]
  have sg1 := cx_sem2 (scope := scope) (σ0 := σ0) (wo := wo) (Q := Q) hc1 hpd.1
    (fun hwo => (hq hwo _ rfl rfl).1)
  have sg2 := cx_sem2 (scope := scope) (σ0 := σ0) (wo := wo) (Q := Q) hc3 hpd1.1
    (fun hwo => (hq hwo _ (e1 acc hacc) (e1 i hi)).2)
  have sg3 := mcx_sem2 (scope := scope) (σ0 := σ0) (wo := wo) (Q := Q) hm hpd2.1
    (fun hwo c hc => by
      rcases hmem c hc with e | e
      · rw [e]; exact (hq hwo _ (e2 acc hacc) (e2 i hi)).1
      · rw [e]; exact (hq hwo _ (e2 acc hacc) (e2 i hi)).2)
  refine ⟨hp3, ((sg1.2.1.trans' sg2.2.1).trans' sg3.2.1).mono ?_ ?_ ?_, sg3.2.2, ?_, ?_,
    a3.anc.trans (a2.anc.trans a1.anc), a3.qmap.trans (a2.qmap.trans a1.qmap),
    a3.nq.trans (a2.nq.trans a1.nq), a3.free.trans (a2.free.trans a1.free),
    a3.marked.trans (a2.marked.trans a1.marked), a3.kept.trans (a2.kept.trans a1.kept),
    fun q hq => ((hq.appended a1).appended a2).appended a3⟩
  · rintro q _ ((h' | h') | h') <;> exact h'
  · rintro c ((h' | h') | h') <;> exact h'
  · rintro m ((h' | h') | h') <;> exact h'
  · rw [a3.cur_eq rfl σ0, a2.cur_eq rfl σ0, a1.cur_eq rfl σ0]
    simp only [List.all_cons, List.all_nil]
    rw [a2.cur_ne rfl σ0 acc hacc, a2.cur_ne rfl σ0 i hi, a1.cur_ne rfl σ0 acc hacc, a1.cur_ne rfl σ0 i hi]
    cases cur σ0 s d <;> cases cur σ0 s acc <;> cases cur σ0 s i <;> rfl
  · intro q hq
    rw [a3.cur_ne rfl σ0 q hq, e2 q hq]

/-- the or-chain never removes a mark -/
theorem orChain_mkeep {dest : Nat} : ∀ (rest : List Nat) (acc : Nat) {u : Unit} {s s' : CState},
    (orChain dest acc rest).run s = .ok (u, s') → ∀ m ∈ s.qc.marked, m ∈ s'.qc.marked
  | [], acc, u, s, s', h, m, hm => by
    unfold orChain at h
    obtain ⟨_, rfl⟩ := run_pure_ok.mp h
    exact hm
  | [i], acc, u, s, s', h, m, hm => by
    unfold orChain at h
    obtain ⟨u1, s1, hc1, k1⟩ := run_bind_ok.mp h
    obtain ⟨u2, s2, hc3, k2⟩ := run_bind_ok.mp k1
    rw [(mcx_run k2).marked, (cx_run hc3).marked, (cx_run hc1).marked]; exact hm
  | i :: j :: rest, acc, u, s, s', h, m, hm => by
    unfold orChain at h
    obtain ⟨d, s1, hfa, k1⟩ := run_bind_ok.mp h
    obtain ⟨u2, s2, hmk, k2⟩ := run_bind_ok.mp k1
    obtain ⟨u3, s3, hc1, k3⟩ := run_bind_ok.mp k2
    obtain ⟨u4, s4, hc2, k4⟩ := run_bind_ok.mp k3
    obtain ⟨u5, s5, hc3, k5⟩ := run_bind_ok.mp k4
    have h1 := (getFreeAncilla_run2 hfa).2.2.2.1
    have h2 := (markAncilla_run3 hmk).2.2.2.2.2.2.2.2.2.1
    exact orChain_mkeep (j :: rest) d k5 m (by
      rw [(mcx_run hc3).marked, (cx_run hc2).marked, (cx_run hc1).marked]
      exact h2 m (by rw [h1]; exact hm))

/-- **the or-chain** (`compile_or` with more than two distinct argument qubits) from any state satisfying the
invariant: every intermediate or goes to an ancilla taken from the scratch space (zero) and marked; `dest ^=
acc | rest…`; no argument qubit is written -/
theorem orChain_sem2 {Q : FState → Nat → Prop} {dest : Nat} :
    ∀ (rest : List Nat) (acc : Nat) {u : Unit} {s s' : CState},
    (orChain dest acc rest).run s = .ok (u, s') → rest ≠ [] → Pre2 scope ρ σ0 s → Priv scope s dest →
    acc ≠ dest → ¬ Avail s acc → (∀ i ∈ rest, ¬ Avail s i ∧ i ≠ dest) →
    (wo = false → ∀ (f : FState) (c : Nat), c ∈ s'.qc.marked → Q f c) →
    (wo = false → acc ∈ s.qc.marked ∨ ∀ f : FState, f acc = cur σ0 s acc → Q f acc) →
    (wo = false → ∀ c ∈ rest, ∀ f : FState, f c = cur σ0 s c → Q f c) →
    Pre2 scope ρ σ0 s' ∧
    Sem2 scope σ0 wo Q (· = dest) NoK (fun m => Avail s m ∧ ¬ Avail s' m ∧ m ≠ dest) s s' ∧
    cur σ0 s' dest = Bool.xor (cur σ0 s dest) (cur σ0 s acc || rest.any (cur σ0 s)) ∧ Tgt s' dest ∧
    (∀ q, Tgt s q → Tgt s' q)
  | [], acc, u, s, s', _, hne, _, _, _, _, _, _, _, _ => absurd rfl hne
  | [i], acc, u, s, s', h, _, hp, hpd, hacc, hna, hr, hQm, hQa, hQr => by
    have hmk := orChain_mkeep [i] acc h
    unfold orChain at h
    obtain ⟨hni, hi⟩ := hr i List.mem_cons_self
    obtain ⟨hp', sem, tg, hv, _, _, _, _, _, _, _, htk⟩ := orGate_sem2 (wo := wo) (Q := Q) h hp hpd hacc hi hna hni
      (fun hwo f hfa hfi => ⟨(hQa hwo).elim (fun hm => hQm hwo f acc (hmk acc hm)) (fun h' => h' f hfa),
        hQr hwo i List.mem_cons_self f hfi⟩)
    refine ⟨hp', sem.mono (fun _ _ h' => h') (fun _ h' => h') (fun _ h' => h'.elim), ?_, tg, htk⟩
    rw [hv]; simp
  | i :: j :: rest, acc, u, s, s', h, _, hp, hpd, hacc, hna, hr, hQm, hQa, hQr => by
    have hmkAll := orChain_mkeep (i :: j :: rest) acc h
    unfold orChain at h
    obtain ⟨d, s1, hfa, k1⟩ := run_bind_ok.mp h
    obtain ⟨hp1, semf, hcf, hava, hnava, hanca⟩ := getFreeAncilla_sem2 (wo := wo) (Q := Q) hfa hp
    obtain ⟨u2, s2, hmk, k2⟩ := run_bind_ok.mp k1
    obtain ⟨hp2, _, hcm, _, _⟩ := markAncilla_sem2 (wo := true) (Q := Q) hmk hp1 (fun hwo => by cases hwo)
    obtain ⟨_, _, _, mn, mf, manc, mqm, mk, _, mkeep2, mmark⟩ := markAncilla_run3 hmk
    have k2' : StateT.run (do
        (do cx acc d; cx i d; mcx [acc, i] d : M Unit)
        orChain dest d (j :: rest) : M Unit) s2 = .ok (u, s') := by
      simpa only [bind_assoc] using k2
    obtain ⟨u3, s3, hgate, k3⟩ := run_bind_ok.mp k2'
    have hmk3 := orChain_mkeep (j :: rest) d k3
    obtain ⟨hni, hi⟩ := hr i List.mem_cons_self
    have hav2 : ∀ q, Avail s2 q ↔ Avail s1 q := by intro q; unfold Avail; rw [mf, mn]
    have hnav2 : ∀ q, ¬ Avail s q → ¬ Avail s2 q := fun q hq h' => hq (semf.avail q ((hav2 q).mp h'))
    have hdd : d ≠ dest := fun e => hpd.1 (e ▸ hava)
    have haccd : acc ≠ d := fun e => hna (e ▸ hava)
    have hid : i ≠ d := fun e => hni (e ▸ hava)
    have hcur2 : cur σ0 s2 = cur σ0 s := by rw [hcm, hcf]
    have hpd2 : Priv scope s2 d :=
      ⟨fun h' => hnava ((hav2 d).mp h'), fun n hk hq' => (hp2.tbl n d hk hq').2.1 (by rw [manc]; exact hanca)⟩
    have hd2m : d ∈ s2.qc.marked := mmark hanca (by rw [semf.kkeep]; exact hp.notKept hava)
    obtain ⟨hp3, semg, tg3, hv3, hfr3, anc3, qm3, nq3, fr3, mk3, kp3, htk3⟩ :=
      orGate_sem2 (wo := wo) (Q := Q) hgate hp2 hpd2 haccd hid (hnav2 acc hna) (hnav2 i hni)
        (fun hwo f hfa hfi => ⟨(hQa hwo).elim (fun hm => hQm hwo f acc (hmkAll acc hm))
            (fun h' => h' f (by rw [hfa, hcur2])),
          hQr hwo i List.mem_cons_self f (by rw [hfi, hcur2])⟩)
    have semmg := Sem2.after_mark hmk semg (fun _ => tg3)
    have sem03 := semf.trans' semmg
    have hav3 : ∀ q, Avail s3 q → Avail s q := sem03.avail
    have hfr3' : ∀ q, q ≠ d → cur σ0 s3 q = cur σ0 s q := by
      intro q hq; rw [hfr3 q hq, hcur2]
    obtain ⟨hp', semr, hvr, tgr, htkr⟩ := orChain_sem2 (Q := Q) (j :: rest) d k3 (by simp) hp3 (hpd.next sem03)
      hdd (fun h' => hnava ((hav2 d).mp (semg.avail d h')))
      (fun x hx => ⟨fun h' => (hr x (List.mem_cons_of_mem _ hx)).1 (hav3 x h'), (hr x (List.mem_cons_of_mem _ hx)).2⟩)
      hQm (fun _ => Or.inl (by rw [mk3]; exact hd2m))
      (fun hwo c hc f hf => hQr hwo c (List.mem_cons_of_mem _ hc) f (by
        rw [hf, hfr3' c (fun e => (hr c (List.mem_cons_of_mem _ hc)).1 (e ▸ hava))]))
    have hnav' : ¬ Avail s' d := fun h' => hnava ((hav2 d).mp (semg.avail d (semr.avail d h')))
    have hany : (j :: rest).any (cur σ0 s3) = (j :: rest).any (cur σ0 s) := by
      apply any_congr_mem
      intro x hx
      exact hfr3' x (fun e => (hr x (List.mem_cons_of_mem _ hx)).1 (e ▸ hava))
    refine ⟨hp', (sem03.trans' semr).mono ?_ ?_ ?_, ?_, tgr,
      fun q hq => htkr q (htk3 q ?_)⟩
    · rintro q hq ((h' | h') | h')
      · exact h'.elim
      · rcases hq with hq | hq
        · exact absurd (h' ▸ hava) hq
        · exact absurd (h' ▸ hq) hnav'
      · exact h'
    · rintro c ((h' | h') | h') <;> exact h'.elim
    · rintro m ((h' | (h' | h')) | h')
      · exact h'.elim
      · exact h'.elim
      · rw [h']; exact ⟨hava, hnav', hdd⟩
      · exact ⟨hav3 m h'.1, h'.2⟩
    · rw [hvr, hfr3' dest (Ne.symm hdd), hv3, hcur2, hp.zero d hava, hany]
      simp only [List.any_cons, Bool.or_assoc, Bool.false_xor]
    · obtain ⟨g, hg, ht⟩ := hq
      obtain ⟨_, _, hgc, _⟩ := getFreeAncilla_run2 hfa
      exact ⟨g, by rw [(markAncilla_run3 hmk).2.2.1, hgc]; exact hg, ht⟩

theorem orWide_sem2 {Q : FState → Nat → Prop} {d : Nat} {erets es : List Nat} {u : Unit} {s s' : CState}
    (h : (orWide d erets es).run s = .ok (u, s')) (hlen : 2 < es.length) (hd : d ∉ es)
    (hp : Pre2 scope ρ σ0 s) (hpd : Priv scope s d) (hes : ∀ c ∈ es, ¬ Avail s c)
    (hQm : wo = false → ∀ (f : FState) (c : Nat), c ∈ s'.qc.marked → Q f c)
    (hQe : wo = false → ∀ c ∈ es, ∀ f : FState, f c = cur σ0 s c → Q f c) :
    Pre2 scope ρ σ0 s' ∧
    Sem2 scope σ0 wo Q (· = d) NoK (fun m => Avail s m ∧ ¬ Avail s' m ∧ m ≠ d) s s' ∧
    cur σ0 s' d = Bool.xor (cur σ0 s d) (es.any (cur σ0 s)) ∧ Tgt s' d ∧ (∀ q, Tgt s q → Tgt s' q) := by
  unfold orWide at h
  dsimp only at h
  rcases run_ite_ok.mp h with ⟨_, h⟩ | ⟨hne, h⟩
  · obtain ⟨_, _, hthrow, _⟩ := run_bind_ok.mp h
    exact (run_throw_ok.mp hthrow).elim
  · have heq : sortNat (pySetOrder erets) = es := by simpa using hne
    have hmem : ∀ x, x ∈ pySetOrder erets ↔ x ∈ es := by
      intro x; rw [← heq]; unfold sortNat; exact List.mem_mergeSort.symm
    have hl : (pySetOrder erets).length = es.length := by
      rw [← heq]; unfold sortNat; exact (List.length_mergeSort _).symm
    cases ho : pySetOrder erets with
    | nil => rw [ho] at hl; simp at hl; omega
    | cons a rest =>
      rw [ho] at h hmem hl
      have hrest : rest ≠ [] := by
        rintro rfl; simp at hl; omega
      have ha : a ∈ es := (hmem a).mp List.mem_cons_self
      obtain ⟨hp', sem, hv, tg, htk⟩ := orChain_sem2 (wo := wo) (Q := Q) rest a h hrest hp hpd
        (by rintro rfl; exact hd ha) (hes a ha)
        (fun i hi => by
          have hie : i ∈ es := (hmem i).mp (List.mem_cons_of_mem _ hi)
          exact ⟨hes i hie, by rintro rfl; exact hd hie⟩)
        hQm (fun hwo => Or.inr (hQe hwo a ha))
        (fun hwo c hc => hQe hwo c ((hmem c).mp (List.mem_cons_of_mem _ hc)))
      have hany : (cur σ0 s a || rest.any (cur σ0 s)) = es.any (cur σ0 s) := by
        have := any_of_mem_iff (cur σ0 s) hmem
        simpa only [List.any_cons] using this
      exact ⟨hp', sem, by rw [hv, hany], tg, htk⟩

end QV.Compiler
