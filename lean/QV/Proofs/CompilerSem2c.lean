import QV.Proofs.CompilerSem2b
/-!
# Semantic correctness of the compiler model on wider classes – part 3: `And`, `Or`, `Xor`, the induction
-/
namespace QV.Compiler
open QV

variable {scope : List String} {ρ : Env} {σ0 : FState} {wo : Bool}

theorem Res.weaken {Q : FState → Nat → Prop} {W : Nat → Prop} {K : BExp → Prop} {Mk : Nat → Prop}
    {s s1 s2 : CState} {a : Nat} (h : Res scope wo s1 s2 a) (sem : Sem2 scope σ0 wo Q W K Mk s s1) :
    Res scope wo s s2 a := by
  rcases h with h | ⟨h1, h2⟩
  · exact Or.inl h
  · exact Or.inr ⟨sem.avail a h1, h2⟩

theorem cache_next2 {Q : FState → Nat → Prop} {W : Nat → Prop} {K : BExp → Prop} {Mk : Nat → Prop}
    {s s1 : CState} {a : BExp} {as : List BExp}
    (hcache : ∀ p ∈ s.expq, ∀ c ∈ compKeysList (a :: as), (p.1 == c) = false)
    (sem1 : Sem2 scope σ0 wo Q W K Mk s s1) (hK : ∀ c, K c → c ∈ compKeys a)
    (hdis : ∀ x ∈ compKeys a, ∀ y ∈ compKeysList as, (x == y) = false) :
    ∀ p ∈ s1.expq, ∀ c ∈ compKeysList as, (p.1 == c) = false := by
  intro p hp' c hc
  rcases sem1.keys p hp' with ⟨p0, hp0, e0⟩ | hk
  · rw [← e0]; exact hcache p0 hp0 c (by simp [compKeysList, hc])
  · exact hdis _ (hK _ hk) c hc

/-! ### argument lists -/

theorem argsSem2_nil : ArgsSem2 scope ρ σ0 wo [] := by
  intro rs s s' h hp _
  unfold compileArgs at h
  obtain ⟨rfl, rfl⟩ := run_pure_ok.mp h
  exact ⟨hp, Sem2.refl _, rfl, fun q hq => absurd hq List.not_mem_nil, fun _ q hq => absurd hq List.not_mem_nil⟩

theorem argsSem2_cons {a : BExp} {as : List BExp} (iha : ExprSem2 scope ρ σ0 wo a)
    (ihs : ArgsSem2 scope ρ σ0 wo as)
    (hdis : ∀ x ∈ compKeys a, ∀ y ∈ compKeysList as, (x == y) = false) :
    ArgsSem2 scope ρ σ0 wo (a :: as) := by
  intro rs s s' h hp hcache
  unfold compileArgs at h
  obtain ⟨q1, s1, h1, h2⟩ := run_bind_ok.mp h
  obtain ⟨rs', s2, h3, h4⟩ := run_bind_ok.mp h2
  obtain ⟨rfl, rfl⟩ := run_pure_ok.mp h4
  obtain ⟨hp1, sem1, hv1, _⟩ := iha none none h1 hp
    (fun p hp' c hc => hcache p hp' c (by simp [compKeysList, hc])) (by intro d hd0; cases hd0)
    (by intro y hy; cases hy) (fun _ => ⟨rfl, rfl⟩)
  obtain ⟨hres1, hnav1, hval1, hanc1⟩ := hv1 rfl
  obtain ⟨hp2, sem2, hvals, hb, hancs⟩ := ihs h3 hp1 (cache_next2 hcache sem1 (fun _ h => h) hdis)
  refine ⟨hp2, ((sem1.monoQ (CtlQ.of_sem sem2)).trans' sem2).mono ?_ ?_ ?_, ?_, ?_, ?_⟩
  · rintro q _ (h' | h')
    · exact nomatch h'
    · exact h'.elim
  · rintro c (h' | h')
    · simp [compKeysList, show c ∈ compKeys a from h']
    · simp [compKeysList, show c ∈ compKeysList as from h']
  · rintro m (h' | h')
    · exact ⟨h'.1, fun hm => h'.2.1 (sem2.avail m hm)⟩
    · exact ⟨sem1.avail m h'.1, h'.2⟩
  · simp only [List.map_cons, hvals]
    rw [sem2.frame q1 (fun h' => h') (Or.inl hnav1), hval1]
  · intro q hq
    simp only [List.mem_cons] at hq
    rcases hq with rfl | hq
    · exact ⟨hres1.next sem2, fun h' => hnav1 (sem2.avail q h')⟩
    · exact ⟨(hb q hq).1.weaken sem1, (hb q hq).2⟩
  · intro hall q hq
    simp only [List.mem_cons] at hq
    rcases hq with rfl | hq
    · exact sem2.akeep q (hanc1 (hall a List.mem_cons_self))
    · exact hancs (fun a' ha' => hall a' (List.mem_cons_of_mem _ ha')) q hq

/-- the common tail of `compile_and` / `compile_or` -/
theorem finish_sem2 {Q : FState → Nat → Prop} {es : List Nat} {dest : Option Nat} {e : BExp} {d a : Nat}
    {s s' : CState}
    (h : StateT.run (do
          markAll es
          if dest.isNone = true then do
              expqSet e d
              pure d
            else pure d : M Nat) s = .ok (a, s'))
    (hp : Pre2 scope ρ σ0 s) (hd : d < s.qc.numQubits)
    (htgt : wo = false → ∀ m ∈ es, m ∈ s.qc.anc → Tgt s m) :
    a = d ∧ Pre2 scope ρ σ0 s' ∧ Sem2 scope σ0 wo Q NoQ (· = e) (fun m => m ∈ es ∧ m ∈ s.qc.anc) s s' ∧
      cur σ0 s' = cur σ0 s ∧ (∀ m ∈ es, m ∈ s.qc.anc → m ∈ s'.qc.marked) ∧ s'.qc.anc = s.qc.anc := by
  obtain ⟨u1, s1, hm, h1⟩ := run_bind_ok.mp h
  obtain ⟨hp1, sem1, hc1, hmk1, ha1, hn1⟩ := markAll_sem2 (wo := wo) (Q := Q) hm hp htgt
  split at h1
  · obtain ⟨u2, s2, hset, h2⟩ := run_bind_ok.mp h1
    obtain ⟨e1, e2⟩ := run_pure_ok.mp h2
    subst e2
    obtain ⟨hp2, sem2, hc2, hqc2⟩ := expqSet_sem2 (wo := wo) (Q := Q) hset hp1 (by rw [hn1]; exact hd)
    refine ⟨e1, hp2, (sem1.trans' sem2).mono ?_ ?_ ?_, hc2.trans hc1,
      fun m hm' ha => sem2.mkeep m (hmk1 m hm' ha), by rw [hqc2]; exact ha1⟩
    · rintro q _ (h' | h') <;> exact h'
    · rintro c (h' | h')
      · exact h'.elim
      · exact h'
    · rintro m (h' | h')
      · exact h'
      · exact h'.elim
  · obtain ⟨e1, e2⟩ := run_pure_ok.mp h1
    subst e2
    exact ⟨e1, hp1, sem1.mono (fun _ _ h' => h') (fun _ h' => h'.elim) (fun _ h' => h'), hc1, hmk1, ha1⟩

/-! ### `And` -/

theorem exprSem2_and {args : List BExp} (ih : ArgsSem2 scope ρ σ0 wo args) :
    ExprSem2 scope ρ σ0 wo (.and args) := by
  intro dest sym a s s' h hp hcache hd hsym _
  unfold compileExpr at h
  dsimp only at h
  obtain ⟨r0, s1, hget, h1⟩ := run_bind_ok.mp h
  obtain ⟨rfl, rfl⟩ := expqGet?_miss hget (fun p hp' => hcache p hp' _ (by simp [compKeys]))
  dsimp only at h1
  obtain ⟨erets, s2, hargs, h2⟩ := run_bind_ok.mp h1
  obtain ⟨hp2, sem1, hvals, hb, _⟩ := ih hargs hp (fun p hp' c hc => hcache p hp' c (by simp [compKeys, hc]))
  have hd2 : ∀ d, dest = some d → Priv scope s2 d := fun d hd' => (hd d hd').next sem1
  have body : ∀ {d : Nat} {s3 : CState},
      (destOr dest).run s2 = .ok (d, s3) →
      StateT.run (
        if erets.contains d = true then do
          event "destAmongArgs"
          mcx (sortNat (if erets.contains d = true then erets.erase d else erets).eraseDups) d
          markAll (sortNat (if erets.contains d = true then erets.erase d else erets).eraseDups)
          if dest.isNone = true then do
              expqSet (BExp.and args) d
              pure d
            else pure d
        else do
          mcx (sortNat (if erets.contains d = true then erets.erase d else erets).eraseDups) d
          markAll (sortNat (if erets.contains d = true then erets.erase d else erets).eraseDups)
          if dest.isNone = true then do
              expqSet (BExp.and args) d
              pure d
            else pure d : M Nat) s3 = .ok (a, s') →
      Pre2 scope ρ σ0 s' ∧
      Sem2 scope σ0 wo (CtlQ scope ρ s') (fun q => dest = some q) (· ∈ compKeys (BExp.and args))
        (fun m => Avail s1 m ∧ ¬ Avail s' m ∧ (dest = none → m ≠ a)) s1 s' ∧
      (dest = none → Res scope wo s1 s' a ∧ ¬ Avail s' a ∧ cur σ0 s' a = (BExp.and args).eval ρ ∧
        (isLeaf (BExp.and args) = false → a ∈ s'.qc.anc)) ∧
      (∀ d, dest = some d → a = d ∧ cur σ0 s' d = Bool.xor (cur σ0 s1 d) ((BExp.and args).eval ρ) ∧
        (wo = false → Tgt s' d)) := by
    intro d s3 hdest h3
    obtain ⟨hp3, semd, hcd, hdn, hpriv3, hdcase⟩ := dest_sem2 (wo := wo) (Q := CtlQ scope ρ s') hp2 hd hd2 hb hdest
    have hcdn : ¬ (erets.contains d = true) := by simpa using hdn
    rcases run_ite_ok.mp h3 with ⟨hc, _⟩ | ⟨_, h3⟩
    · exact absurd hc hcdn
    · rw [if_neg hcdn] at h3
      obtain ⟨u1, t1, hmcx, k1⟩ := run_bind_ok.mp h3
      have hes3 : ∀ c ∈ sortNat erets.eraseDups, ¬ Avail s3 c :=
        fun c hc h' => (hb c (mem_sortDedup.mp hc)).2 (semd.avail c h')
      have hpt1 := mcx_pre2 hmcx hp3 hpriv3 hes3
      have am := mcx_run hmcx
      obtain ⟨ead, hp', semf, hcf, hmkf, hancf⟩ := finish_sem2 (wo := wo) (Q := CtlQ scope ρ s') k1 hpt1
        (by rw [am.nq]; exact notAvail_lt hpriv3.1)
        (fun hwo m hm ha => (((hb m (mem_sortDedup.mp hm)).1.next semd).tgt_of_anc hp3
          (by rw [← am.anc]; exact ha) hwo).appended am)
      subst ead
      obtain ⟨_, semg, tgg⟩ := mcx_sem2 (scope := scope) (σ0 := σ0) (wo := wo) (Q := CtlQ scope ρ s') hmcx hpriv3.1
        (fun _ c hc => ctl_of_res hp2 (hb c (mem_sortDedup.mp hc)).1 (by rw [hcd])
          (fun n q hk hq' => semf.qkeep n q hk (by rw [am.qmap]; exact semd.qkeep n q hk hq'))
          (fun ha => hmkf c hc (by rw [am.anc]; exact semd.akeep c ha)))
      have tail := (semd.trans' semg).trans' semf
      have tot := (sem1.monoQ (CtlQ.of_sem tail)).trans' tail
      have tgd' : Tgt s' a := tgg.of_sem semf
      have hval : cur σ0 s' a = Bool.xor (cur σ0 s2 a) (evalAnd ρ args) := by
        rw [hcf, am.cur_eq rfl σ0, all_sortDedup, hcd, all_of_map hvals]
      have hnava' : ¬ Avail s' a := fun h' => hpriv3.1 ((semg.trans' semf).avail a h')
      have hmk : ∀ m, m ∈ sortNat erets.eraseDups ∧ m ∈ t1.qc.anc → Avail s1 m ∧ ¬ Avail s' m ∧ m ≠ a := by
        rintro m ⟨h1', h2'⟩
        have hm := hb m (mem_sortDedup.mp h1')
        rw [am.anc] at h2'
        exact ⟨(hm.1.next semd).sym_or_anc hp3 h2', fun h' => hm.2 (tail.avail m h'),
          fun e => hdn (e ▸ mem_sortDedup.mp h1')⟩
      rcases hdcase with hsome | ⟨hnone, hava, hanca, hz⟩
      · subst hsome
        refine ⟨hp', tot.mono ?_ ?_ ?_, fun hn => (by cases hn), fun d' hd' => ?_⟩
        · rintro q _ (h' | ((h' | h') | h'))
          · exact h'.elim
          · exact h'.elim
          · rw [h']
          · exact h'.elim
        · rintro c (h' | ((h' | h') | h'))
          · simp [compKeys, show c ∈ compKeysList args from h']
          · exact h'.elim
          · exact h'.elim
          · simp [compKeys, show c = BExp.and args from h']
        · rintro m (h' | ((h' | h') | h'))
          · exact ⟨h'.1, fun hm => h'.2 (tail.avail m hm), fun hn => by cases hn⟩
          · exact h'.elim
          · exact h'.elim
          · exact ⟨(hmk m h').1, (hmk m h').2.1, fun hn => by cases hn⟩
        · cases hd'
          refine ⟨rfl, ?_, fun _ => tgd'⟩
          rw [hval, sem1.frame a (fun h' => h') (Or.inl (hd a rfl).1)]
          simp [BExp.eval]
      · subst hnone
        have hav1 : Avail s1 a := sem1.avail a hava
        have hanc' : a ∈ s'.qc.anc := (semg.trans' semf).akeep a hanca
        refine ⟨hp', tot.mono ?_ ?_ ?_, fun _ => ⟨Or.inr ⟨hav1, hanc', fun _ => tgd'⟩, hnava', ?_, fun _ => hanc'⟩,
          fun d' hd' => by cases hd'⟩
        · rintro q hq' (h' | ((h' | h') | h'))
          · exact h'.elim
          · exact h'.elim
          · rcases hq' with hq' | hq'
            · exact absurd (h' ▸ hav1) hq'
            · exact absurd (h' ▸ hq') hnava'
          · exact h'.elim
        · rintro c (h' | ((h' | h') | h'))
          · simp [compKeys, show c ∈ compKeysList args from h']
          · exact h'.elim
          · exact h'.elim
          · simp [compKeys, show c = BExp.and args from h']
        · rintro m (h' | ((h' | h') | h'))
          · exact ⟨h'.1, fun hm => h'.2 (tail.avail m hm), fun _ e => h'.2 (e ▸ hava)⟩
          · exact h'.elim
          · exact h'.elim
          · exact ⟨(hmk m h').1, (hmk m h').2.1, fun _ => (hmk m h').2.2⟩
        · rw [hval, hz]
          simp [BExp.eval]
  cases dest with
  | some d0 =>
    dsimp only at h2
    obtain ⟨d, s3, hp0, h4⟩ := run_bind_ok.mp h2
    exact body hp0 h4
  | none =>
    dsimp only at h2
    obtain ⟨d, s3, hf, h4⟩ := run_bind_ok.mp h2
    exact body hf h4

/-! ### `Or` -/

theorem xAll_sem2 {Q : FState → Nat → Prop} : ∀ (es : List Nat) {u : Unit} {s s' : CState},
    (xAll es).run s = .ok (u, s') → (∀ c ∈ es, ¬ Avail s c) →
    Sem2 scope σ0 wo Q (· ∈ es) NoK NoQ s s' ∧ s'.qc.qmap = s.qc.qmap
  | [], u, s, s', h, _ => by
    unfold xAll at h
    obtain ⟨_, rfl⟩ := run_pure_ok.mp h
    exact ⟨Sem2.refl _, rfl⟩
  | i :: is, u, s, s', h, hes => by
    unfold xAll at h
    obtain ⟨u1, s1, h1, h2⟩ := run_bind_ok.mp h
    obtain ⟨a1, sem1, _⟩ := xGate_sem2 (scope := scope) (σ0 := σ0) (wo := wo) (Q := Q) h1 (hes i List.mem_cons_self)
    obtain ⟨sem2, hq2⟩ := xAll_sem2 (Q := Q) is h2
      (fun c hc h' => hes c (List.mem_cons_of_mem _ hc) (sem1.avail c h'))
    refine ⟨(sem1.trans' sem2).mono ?_ (fun _ h' => h'.elim id id) (fun _ h' => h'.elim id id), hq2.trans a1.qmap⟩
    rintro q _ (h' | h')
    · rw [h']; exact List.mem_cons_self
    · exact List.mem_cons_of_mem _ h'

/-- after the gates of `compile_or` (state `t`): the common tail, and the assembly of the node's relation -/
theorem orFin {es : List Nat} {dest : Option Nat} {e : BExp} {d a : Nat} {s t s' : CState}
    (hpt : Pre2 scope ρ σ0 t)
    (hanc : t.qc.anc = s.qc.anc) (hqm : t.qc.qmap = s.qc.qmap) (hdlt : d < t.qc.numQubits)
    (hv : cur σ0 t d = Bool.xor (cur σ0 s d) (es.any (cur σ0 s)))
    (hrun : StateT.run (do
          markAll es
          if dest.isNone = true then do
              expqSet e d
              pure d
            else pure d : M Nat) t = .ok (a, s'))
    (htgt : wo = false → ∀ m ∈ es, m ∈ t.qc.anc → Tgt t m) (htd : wo = false → es ≠ [] → Tgt t d)
    (hsem : (∀ (f : FState) (c : Nat), c ∈ es →
        (c ∈ s.qc.anc ∨ ∃ n, Known scope n ∧ dictGet? s.qc.qmap n = some c ∧ f c = kval ρ n) →
          CtlQ scope ρ s' f c) →
       Sem2 scope σ0 wo (CtlQ scope ρ s') (· = d) NoK NoQ s t) :
    a = d ∧ Pre2 scope ρ σ0 s' ∧
      Sem2 scope σ0 wo (CtlQ scope ρ s') (· = d) (· = e) (fun m => m ∈ es ∧ m ∈ s.qc.anc) s s' ∧
      cur σ0 s' d = Bool.xor (cur σ0 s d) (es.any (cur σ0 s)) ∧ (wo = false → es ≠ [] → Tgt s' d) := by
  obtain ⟨ead, hp', semf, hcf, hmkf, _⟩ := finish_sem2 (wo := wo) (Q := CtlQ scope ρ s') hrun hpt hdlt htgt
  have hQ : ∀ (f : FState) (c : Nat), c ∈ es →
      (c ∈ s.qc.anc ∨ ∃ n, Known scope n ∧ dictGet? s.qc.qmap n = some c ∧ f c = kval ρ n) →
        CtlQ scope ρ s' f c := by
    intro f c hc h'
    rcases h' with h' | ⟨n, hk, hq, hv'⟩
    · exact Or.inl (hmkf c hc (by rw [hanc]; exact h'))
    · exact Or.inr ⟨n, hk, semf.qkeep n c hk (by rw [hqm]; exact hq), hv'⟩
  have semg := hsem hQ
  refine ⟨ead, hp', (semg.trans' semf).mono ?_ ?_ ?_, by rw [hcf, hv], fun hwo hne => (htd hwo hne).of_sem semf⟩
  · rintro q _ (h' | h')
    · exact h'
    · exact h'.elim
  · rintro c (h' | h')
    · exact h'.elim
    · exact h'
  · rintro m (h' | h')
    · exact h'.elim
    · exact ⟨h'.1, hanc ▸ h'.2⟩

theorem orGates_sem2 {es : List Nat} {dest : Option Nat} {e : BExp} {d a : Nat} {s s' : CState}
    (h : StateT.run (
        if es.length ≤ 2 then do
          cxAll d es
          if (es.length == 2) = true then do
              mcx es d
              markAll es
              if dest.isNone = true then do
                  expqSet e d
                  pure d
                else pure d
            else do
              markAll es
              if dest.isNone = true then do
                  expqSet e d
                  pure d
                else pure d
        else do
          xAll es
          mcx es d
          xAll es
          xGate d
          markAll es
          if dest.isNone = true then do
              expqSet e d
              pure d
            else pure d : M Nat) s = .ok (a, s'))
    (hp : Pre2 scope ρ σ0 s) (hd : d ∉ es) (hpd : Priv scope s d) (hes : ∀ c ∈ es, ¬ Avail s c)
    (hctl : wo = false → ∀ c ∈ es, c ∈ s.qc.anc ∨ ((es.Nodup → es.length ≤ 2) ∧
        ∃ n, Known scope n ∧ dictGet? s.qc.qmap n = some c ∧ cur σ0 s c = kval ρ n))
    (htgt : wo = false → ∀ m ∈ es, m ∈ s.qc.anc → Tgt s m) :
    a = d ∧ Pre2 scope ρ σ0 s' ∧
      Sem2 scope σ0 wo (CtlQ scope ρ s') (· = d) (· = e) (fun m => m ∈ es ∧ m ∈ s.qc.anc) s s' ∧
      cur σ0 s' d = Bool.xor (cur σ0 s d) (es.any (cur σ0 s)) ∧ (wo = false → es ≠ [] → Tgt s' d) := by
  -- a gate applied while the argument qubits hold the values they have in `s`
  have hctl' : ∀ (f : FState), (∀ c ∈ es, f c = cur σ0 s c) → wo = false → ∀ c ∈ es,
      (c ∈ s.qc.anc ∨ ∃ n, Known scope n ∧ dictGet? s.qc.qmap n = some c ∧ f c = kval ρ n) := by
    intro f hf hwo c hc
    rcases hctl hwo c hc with h' | ⟨_, n, hk, hq, hv⟩
    · exact Or.inl h'
    · exact Or.inr ⟨n, hk, hq, by rw [hf c hc]; exact hv⟩
  have hdlt := notAvail_lt hpd.1
  rcases run_ite_ok.mp h with ⟨hle, h⟩ | ⟨hnle, h⟩
  · obtain ⟨u1, s1, hcx, h1⟩ := run_bind_ok.mp h
    match es, hd, hes, hctl', htgt, hle, hcx, h1 with
    | [], _, _, _, _, _, hcx, h1 =>
      unfold cxAll at hcx
      obtain ⟨_, rfl⟩ := run_pure_ok.mp hcx
      rcases run_ite_ok.mp h1 with ⟨hc, _⟩ | ⟨_, h1⟩
      · simp at hc
      · exact orFin hp rfl rfl hdlt (by simp) h1 (fun _ _ hm => absurd hm List.not_mem_nil)
          (fun _ hne => absurd rfl hne) (fun _ => Sem2.refl _)
    | [q1], hd, hes, hctl', htgt, _, hcx, h1 =>
      unfold cxAll at hcx
      obtain ⟨u2, s2, hc1, hc2⟩ := run_bind_ok.mp hcx
      unfold cxAll at hc2
      obtain ⟨_, rfl⟩ := run_pure_ok.mp hc2
      have a1 := cx_run hc1
      have hp1 := cx_pre2 hc1 hp hpd (hes q1 (by simp))
      rcases run_ite_ok.mp h1 with ⟨hc, _⟩ | ⟨_, h1⟩
      · simp at hc
      · refine orFin hp1 a1.anc a1.qmap (by rw [a1.nq]; exact hdlt) (by rw [a1.cur_eq rfl σ0]; simp) h1
          (fun hwo m hm ha => (htgt hwo m hm (by rw [← a1.anc]; exact ha)).appended a1)
          (fun _ _ => (cx_sem2 (scope := scope) (σ0 := σ0) (wo := wo) (Q := fun _ _ => True) hc1 hpd.1
            (fun _ => trivial)).2.2)
          (fun hQ => ?_)
        exact (cx_sem2 (scope := scope) (σ0 := σ0) (wo := wo) hc1 hpd.1
          (fun hwo => hQ _ q1 (by simp) (hctl' _ (fun _ _ => rfl) hwo q1 (by simp)))).2.1
    | [q1, q2], hd, hes, hctl', htgt, _, hcx, h1 =>
      unfold cxAll at hcx
      obtain ⟨u2, s2, hc1, hc2⟩ := run_bind_ok.mp hcx
      unfold cxAll at hc2
      obtain ⟨u3, s3, hc3, hc4⟩ := run_bind_ok.mp hc2
      unfold cxAll at hc4
      obtain ⟨_, rfl⟩ := run_pure_ok.mp hc4
      have a1 := cx_run hc1
      have a2 := cx_run hc3
      have hne : ∀ c ∈ [q1, q2], c ≠ d := fun c hc => by rintro rfl; exact hd hc
      have hq1 : q1 ≠ d := hne q1 (by simp)
      have hq2 : q2 ≠ d := hne q2 (by simp)
      have hav2 : ∀ q, Avail s2 q ↔ Avail s q := by intro q; unfold Avail; rw [a1.free, a1.nq]
      have hpd2 : Priv scope s2 d := ⟨fun h' => hpd.1 ((hav2 d).mp h'), by rw [a1.qmap]; exact hpd.2⟩
      have hp1 := cx_pre2 hc1 hp hpd (hes q1 (by simp))
      have hp2 := cx_pre2 hc3 hp1 hpd2 (fun h' => hes q2 (by simp) ((hav2 q2).mp h'))
      have e1 : ∀ q, q ≠ d → cur σ0 s2 q = cur σ0 s q := fun q hq => a1.cur_ne rfl σ0 q hq
      rcases run_ite_ok.mp h1 with ⟨_, h1⟩ | ⟨hc, _⟩
      · obtain ⟨u4, s4, hm, h2⟩ := run_bind_ok.mp h1
        have a3 := mcx_run hm
        have hav3 : ∀ q, Avail s1 q ↔ Avail s q := by
          intro q; unfold Avail; rw [a2.free, a2.nq, a1.free, a1.nq]
        have hpd3 : Priv scope s1 d :=
          ⟨fun h' => hpd.1 ((hav3 d).mp h'), by rw [a2.qmap, a1.qmap]; exact hpd.2⟩
        have hp3 := mcx_pre2 hm hp2 hpd3 (fun c hc h' => hes c hc ((hav3 c).mp h'))
        have e2 : ∀ q, q ≠ d → cur σ0 s1 q = cur σ0 s q := fun q hq => by
          rw [a2.cur_ne rfl σ0 q hq, e1 q hq]
        refine orFin hp3 (a3.anc.trans (a2.anc.trans a1.anc)) (a3.qmap.trans (a2.qmap.trans a1.qmap))
          (by rw [a3.nq, a2.nq, a1.nq]; exact hdlt) ?_ h2
          (fun hwo m hm ha => (((htgt hwo m hm (by
            rw [← a1.anc, ← a2.anc, ← a3.anc]; exact ha)).appended a1).appended a2).appended a3)
          (fun _ _ => (mcx_sem2 (scope := scope) (σ0 := σ0) (wo := wo) (Q := fun _ _ => True) hm hpd3.1
            (fun _ _ _ => trivial)).2.2)
          (fun hQ => ?_)
        · rw [a3.cur_eq rfl σ0, a2.cur_eq rfl σ0, a1.cur_eq rfl σ0]
          simp only [List.all_cons, List.all_nil, List.any_cons, List.any_nil]
          rw [a2.cur_ne rfl σ0 q1 hq1, a2.cur_ne rfl σ0 q2 hq2, a1.cur_ne rfl σ0 q1 hq1, a1.cur_ne rfl σ0 q2 hq2]
          cases cur σ0 s d <;> cases cur σ0 s q1 <;> cases cur σ0 s q2 <;> rfl
        · have sg1 := (cx_sem2 (scope := scope) (σ0 := σ0) (wo := wo) (Q := CtlQ scope ρ s') hc1 hpd.1
            (fun hwo => hQ _ q1 (by simp) (hctl' _ (fun _ _ => rfl) hwo q1 (by simp)))).2.1
          have sg2 := (cx_sem2 (scope := scope) (σ0 := σ0) (wo := wo) (Q := CtlQ scope ρ s') hc3 hpd2.1
            (fun hwo => hQ _ q2 (by simp) (hctl' _ (fun c hc => e1 c (hne c hc)) hwo q2 (by simp)))).2.1
          have sg3 := (mcx_sem2 (scope := scope) (σ0 := σ0) (wo := wo) (Q := CtlQ scope ρ s') hm hpd3.1
            (fun hwo c hc => hQ _ c hc (hctl' _ (fun c hc => e2 c (hne c hc)) hwo c hc))).2.1
          refine ((sg1.trans' sg2).trans' sg3).mono ?_ ?_ ?_
          · rintro q _ ((h' | h') | h') <;> exact h'
          · rintro c ((h' | h') | h') <;> exact h'
          · rintro m ((h' | h') | h') <;> exact h'
      · simp at hc
    | _ :: _ :: _ :: _, _, _, _, _, hle, _, _ => simp at hle
  · obtain ⟨u1, s1, hx1, h1⟩ := run_bind_ok.mp h
    obtain ⟨u2, s2, hm, h2⟩ := run_bind_ok.mp h1
    obtain ⟨u3, s3, hx2, h3⟩ := run_bind_ok.mp h2
    obtain ⟨u4, s4, hx3, h4⟩ := run_bind_ok.mp h3
    have am := mcx_run hm
    have hnd : es.Nodup := (List.nodup_append.mp (appendError_none am.noerr).1).1
    obtain ⟨g1, v1⟩ := xAll_run (σ0 := σ0) es hx1 hnd
    obtain ⟨g3, v3⟩ := xAll_run (σ0 := σ0) es hx2 hnd
    have a4 := xGate_run hx3
    have hlt : ∀ c ∈ es, c < s.qc.numQubits := fun c hc => notAvail_lt (hes c hc)
    have st1 : Step (fun _ => False) s s1 := xAll_ok es hx1 hp.good hlt
    have st2 : Step (fun _ => False) s1 s2 :=
      mcx_ok hm st1.good (fun c hc => by rw [g1.nq]; exact hlt c hc) (by rw [g1.nq]; exact hdlt)
    have hn2 : s2.qc.numQubits = s.qc.numQubits := am.nq.trans g1.nq
    have st3 : Step (fun _ => False) s2 s3 := xAll_ok es hx2 st2.good (fun c hc => by rw [hn2]; exact hlt c hc)
    have hn3 : s3.qc.numQubits = s.qc.numQubits := g3.nq.trans hn2
    have st4 : Step (fun _ => False) s3 s4 := xGate_ok hx3 st3.good (by rw [hn3]; exact hdlt)
    have hfr : ∀ q, q ≠ d → cur σ0 s4 q = cur σ0 s q := by
      intro q hq
      rw [a4.cur_ne rfl σ0 q hq, v3 q, am.cur_ne rfl σ0 q hq, v1 q]
      by_cases hqe : q ∈ es <;> simp [hqe]
    have hvd : cur σ0 s4 d = Bool.xor (cur σ0 s d) (es.any (cur σ0 s)) := by
      rw [a4.cur_eq rfl σ0, v3 d, am.cur_eq rfl σ0, v1 d]
      simp only [hd, if_false, List.all_nil, Bool.xor_true]
      rw [all_not_eq es (cur σ0 s) (cur σ0 s1) (fun q hq => by rw [v1 q]; simp [hq])]
      cases cur σ0 s d <;> cases es.any (cur σ0 s) <;> rfl
    have hav1 : ∀ q, Avail s1 q ↔ Avail s q := by intro q; unfold Avail; rw [g1.free, g1.nq]
    have hav2 : ∀ q, Avail s2 q ↔ Avail s q := by
      intro q; unfold Avail; rw [am.free, am.nq, g1.free, g1.nq]
    have hav3 : ∀ q, Avail s3 q ↔ Avail s q := by
      intro q; unfold Avail; rw [g3.free, g3.nq, am.free, am.nq, g1.free, g1.nq]
    obtain ⟨sx1, hqm1⟩ := xAll_sem2 (scope := scope) (σ0 := σ0) (wo := wo) (Q := CtlQ scope ρ s') es hx1 hes
    obtain ⟨sx3, hqm3⟩ := xAll_sem2 (scope := scope) (σ0 := σ0) (wo := wo) (Q := CtlQ scope ρ s') es hx2
      (fun c hc h' => hes c hc ((hav2 c).mp h'))
    have hqm4 : s4.qc.qmap = s.qc.qmap := a4.qmap.trans (hqm3.trans (am.qmap.trans hqm1))
    have hanc4 : s4.qc.anc = s.qc.anc := a4.anc.trans (g3.anc.trans (am.anc.trans g1.anc))
    have hfree4 : s4.qc.free = s.qc.free := a4.free.trans (g3.free.trans (am.free.trans g1.free))
    have hmk4 : s4.qc.marked = s.qc.marked := a4.marked.trans (g3.marked.trans (am.marked.trans g1.marked))
    have hp4 : Pre2 scope ρ σ0 s4 := hp.of_same st4.good (a4.nq.trans hn3) hfree4 hanc4 hqm4
      (fun m hm' => Or.inl (by rw [← hmk4]; exact hm')) (fun q hq => hfr q (by
        rintro rfl
        rcases hq with hq | ⟨n, hk, hq⟩
        · exact hpd.1 hq
        · exact hpd.2 n hk hq))
    refine orFin hp4 hanc4 hqm4 (by rw [a4.nq, hn3]; exact hdlt) hvd h4
      (fun hwo m hm ha => (((((htgt hwo m hm (by rw [← hanc4]; exact ha)).of_sem sx1).appended am).of_sem sx3).appended a4))
      (fun _ _ => (xGate_sem2 (scope := scope) (σ0 := σ0) (wo := wo) (Q := fun _ _ => True) hx3
        (fun h' => hpd.1 ((hav3 d).mp h'))).2.2)
      (fun hQ => ?_)
    have sgm := (mcx_sem2 (scope := scope) (σ0 := σ0) (wo := wo) (Q := CtlQ scope ρ s') hm
      (fun h' => hpd.1 ((hav1 d).mp h')) (fun hwo c hc => by
        rcases hctl hwo c hc with h' | ⟨h', _⟩
        · exact hQ _ c hc (Or.inl h')
        · exact absurd (h' hnd) hnle)).2.1
    have sx4 := (xGate_sem2 (scope := scope) (σ0 := σ0) (wo := wo) (Q := CtlQ scope ρ s') hx3
      (fun h' => hpd.1 ((hav3 d).mp h'))).2.1
    refine ((((sx1.trans' sgm).trans' sx3).trans' sx4).reframe (W' := (· = d)) (fun q hq _ => hfr q hq)).mono
      (fun _ _ h' => h') ?_ ?_
    · rintro c (((h' | h') | h') | h') <;> exact h'
    · rintro m (((h' | h') | h') | h') <;> exact h'

theorem exprSem2_or {args : List BExp} (ih : ArgsSem2 scope ρ σ0 wo args)
    (hor : wo = false → args.length ≤ 2 ∨ ∀ a ∈ args, isLeaf a = false) (hne : wo = false → args ≠ []) :
    ExprSem2 scope ρ σ0 wo (.or args) := by
  intro dest sym a s s' h hp hcache hd hsym _
  unfold compileExpr at h
  dsimp only at h
  obtain ⟨r0, s1, hget, h1⟩ := run_bind_ok.mp h
  obtain ⟨rfl, rfl⟩ := expqGet?_miss hget (fun p hp' => hcache p hp' _ (by simp [compKeys]))
  dsimp only at h1
  obtain ⟨erets, s2, hargs, h2⟩ := run_bind_ok.mp h1
  obtain ⟨hp2, sem1, hvals, hb, hancs⟩ := ih hargs hp
    (fun p hp' c hc => hcache p hp' c (by simp [compKeys, hc]))
  have hd2 : ∀ d, dest = some d → Priv scope s2 d := fun d hd' => (hd d hd').next sem1
  have hlen : erets.length = args.length := by
    have := congrArg List.length hvals
    simpa using this
  have body : ∀ {d : Nat} {s3 : CState} {k : M Nat} (es : List Nat),
      es = sortNat (if erets.contains d = true then erets.erase d else erets).eraseDups →
      (destOr dest).run s2 = .ok (d, s3) →
      StateT.run (if erets.contains d = true then do event "destAmongArgs"; k else k) s3 = .ok (a, s') →
      (∀ {t : CState}, k.run t = .ok (a, s') → Pre2 scope ρ σ0 t → d ∉ es → Priv scope t d →
        (∀ c ∈ es, ¬ Avail t c) →
        (wo = false → ∀ c ∈ es, c ∈ t.qc.anc ∨ ((es.Nodup → es.length ≤ 2) ∧
          ∃ n, Known scope n ∧ dictGet? t.qc.qmap n = some c ∧ cur σ0 t c = kval ρ n)) →
        (wo = false → ∀ m ∈ es, m ∈ t.qc.anc → Tgt t m) →
        a = d ∧ Pre2 scope ρ σ0 s' ∧
          Sem2 scope σ0 wo (CtlQ scope ρ s') (· = d) (· = BExp.or args) (fun m => m ∈ es ∧ m ∈ t.qc.anc) t s' ∧
          cur σ0 s' d = Bool.xor (cur σ0 t d) (es.any (cur σ0 t)) ∧ (wo = false → es ≠ [] → Tgt s' d)) →
      Pre2 scope ρ σ0 s' ∧
      Sem2 scope σ0 wo (CtlQ scope ρ s') (fun q => dest = some q) (· ∈ compKeys (BExp.or args))
        (fun m => Avail s1 m ∧ ¬ Avail s' m ∧ (dest = none → m ≠ a)) s1 s' ∧
      (dest = none → Res scope wo s1 s' a ∧ ¬ Avail s' a ∧ cur σ0 s' a = (BExp.or args).eval ρ ∧
        (isLeaf (BExp.or args) = false → a ∈ s'.qc.anc)) ∧
      (∀ d, dest = some d → a = d ∧ cur σ0 s' d = Bool.xor (cur σ0 s1 d) ((BExp.or args).eval ρ) ∧
        (wo = false → Tgt s' d)) := by
    intro d s3 k es hes hdest h3 hk
    obtain ⟨hp3, semd, hcd, hdn, hpriv3, hdcase⟩ := dest_sem2 (wo := wo) (Q := CtlQ scope ρ s') hp2 hd hd2 hb hdest
    have hcdn : ¬ (erets.contains d = true) := by simpa using hdn
    rw [if_neg hcdn] at hes
    have hmem : ∀ c, c ∈ es → c ∈ erets := fun c hc => mem_sortDedup.mp (hes ▸ hc)
    have hdes : d ∉ es := fun h' => hdn (hmem d h')
    rcases run_ite_ok.mp h3 with ⟨hc, _⟩ | ⟨_, h3⟩
    · exact absurd hc hcdn
    · obtain ⟨ead, hp', semo, hv, htd⟩ := hk h3 hp3 hdes hpriv3
        (fun c hc h' => (hb c (hmem c hc)).2 (semd.avail c h'))
        (fun hwo c hc => by
          rcases (hb c (hmem c hc)).1 with ⟨n, hkn, hq⟩ | ⟨_, hanc, _⟩
          · rcases hor hwo with hle | hall
            · refine Or.inr ⟨fun hnd => ?_, n, hkn, semd.qkeep n c hkn hq, by
                rw [hcd]; exact (hp2.tbl n c hkn hq).2.2⟩
              exact Nat.le_trans (hnd.length_le_of_subset (fun x hx => hmem x hx)) (by rw [hlen]; exact hle)
            · exact Or.inl (semd.akeep c (hancs hall c (hmem c hc)))
          · exact Or.inl (semd.akeep c hanc))
        (fun hwo m hm ha => ((hb m (hmem m hm)).1.next semd).tgt_of_anc hp3 ha hwo)
      subst ead
      have tgd' : wo = false → Tgt s' a := fun hwo => htd hwo (by
        have hne' := hne hwo
        cases hea : erets with
        | nil => rw [hea] at hlen; exact absurd (List.length_eq_zero_iff.mp hlen.symm) hne'
        | cons x xs =>
          intro hnil
          have : x ∈ es := by rw [hes]; exact mem_sortDedup.mpr (by rw [hea]; exact List.mem_cons_self)
          rw [hnil] at this; cases this)
      have tail := semd.trans' semo
      have tot := (sem1.monoQ (CtlQ.of_sem tail)).trans' tail
      have hval : cur σ0 s' a = Bool.xor (cur σ0 s2 a) (evalOr ρ args) := by
        rw [hv, hes, any_sortDedup, hcd, any_of_map hvals]
      have hnava' : ¬ Avail s' a := fun h' => hpriv3.1 (semo.avail a h')
      have hmk : ∀ m, m ∈ es ∧ m ∈ s3.qc.anc → Avail s1 m ∧ ¬ Avail s' m ∧ m ≠ a := by
        rintro m ⟨h1', h2'⟩
        have hm := hb m (hmem m h1')
        exact ⟨(hm.1.next semd).sym_or_anc hp3 h2', fun h' => hm.2 (tail.avail m h'),
          fun e => hdes (e ▸ h1')⟩
      rcases hdcase with hsome | ⟨hnone, hava, hanca, hz⟩
      · subst hsome
        refine ⟨hp', tot.mono ?_ ?_ ?_, fun hn => (by cases hn), fun d' hd' => ?_⟩
        · rintro q _ (h' | (h' | h'))
          · exact h'.elim
          · exact h'.elim
          · rw [h']
        · rintro c (h' | (h' | h'))
          · simp [compKeys, show c ∈ compKeysList args from h']
          · exact h'.elim
          · simp [compKeys, show c = BExp.or args from h']
        · rintro m (h' | (h' | h'))
          · exact ⟨h'.1, fun hm => h'.2 (tail.avail m hm), fun hn => by cases hn⟩
          · exact h'.elim
          · exact ⟨(hmk m h').1, (hmk m h').2.1, fun hn => by cases hn⟩
        · cases hd'
          refine ⟨rfl, ?_, tgd'⟩
          rw [hval, sem1.frame a (fun h' => h') (Or.inl (hd a rfl).1)]
          simp [BExp.eval]
      · subst hnone
        have hav1 : Avail s1 a := sem1.avail a hava
        have hanc' : a ∈ s'.qc.anc := semo.akeep a hanca
        refine ⟨hp', tot.mono ?_ ?_ ?_, fun _ => ⟨Or.inr ⟨hav1, hanc', tgd'⟩, hnava', ?_, fun _ => hanc'⟩,
          fun d' hd' => by cases hd'⟩
        · rintro q hq' (h' | (h' | h'))
          · exact h'.elim
          · exact h'.elim
          · rcases hq' with hq' | hq'
            · exact absurd (h' ▸ hav1) hq'
            · exact absurd (h' ▸ hq') hnava'
        · rintro c (h' | (h' | h'))
          · simp [compKeys, show c ∈ compKeysList args from h']
          · exact h'.elim
          · simp [compKeys, show c = BExp.or args from h']
        · rintro m (h' | (h' | h'))
          · exact ⟨h'.1, fun hm => h'.2 (tail.avail m hm), fun _ e => h'.2 (e ▸ hava)⟩
          · exact h'.elim
          · exact ⟨(hmk m h').1, (hmk m h').2.1, fun _ => (hmk m h').2.2⟩
        · rw [hval, hz]
          simp [BExp.eval]
  cases dest with
  | some d0 =>
    dsimp only at h2
    obtain ⟨d, s3, hp0, h4⟩ := run_bind_ok.mp h2
    exact body _ rfl hp0 h4 (fun hk hpt hdes hpd hes hctl htgt => orGates_sem2 hk hpt hdes hpd hes hctl htgt)
  | none =>
    dsimp only at h2
    obtain ⟨d, s3, hf, h4⟩ := run_bind_ok.mp h2
    exact body _ rfl hf h4 (fun hk hpt hdes hpd hes hctl htgt => orGates_sem2 hk hpt hdes hpd hes hctl htgt)

end QV.Compiler
