import QV.Proofs.A2X2
/-! Expression-level rewrites of `ast2ast`, part 3 (meaning): `sum`, `all`, `any`, `len` over an unrolled argument. -/
namespace QV.A2A
open QV QV.Front QV.Sem

set_option linter.unusedSimpArgs false
set_option linter.unusedVariables false

/-! ### `sum` -/

/-- `a0 + (a1 + (… + ak))` -/
def sumE : SExp → List SExp → SExp
  | x, [] => x
  | x, y :: ys => .bin "Add" x (sumE y ys)

theorem sumChain_cons : ∀ (x : SExp) (xs : List SExp), sumChain (x :: xs) = .ok (sumE x xs)
  | x, [] => by simp [sumChain, sumE, pure, Except.pure]
  | x, y :: ys => by simp [sumChain, sumE, sumChain_cons y ys, bind, Except.bind, pure, Except.pure]

def sumP : PExp → List PExp → PExp
  | x, [] => x
  | x, y :: ys => .bin "add" x (sumP y ys)

theorem toP_sumE : ∀ (x : SExp) (xs : List SExp), toP (sumE x xs) = sumP (toP x) (toPs xs)
  | x, [] => by simp [sumE, sumP, toPs]
  | x, y :: ys => by simp [sumE, sumP, toPs, toP, binName, toP_sumE y ys]

theorem semW_add (σ : SEnv) (l r : PExp) (w a b : Nat) (hl : semW σ l = some (.int w a))
    (hr : semW σ r = some (.int w b)) : semW σ (.bin "add" l r) = some (.int w ((a + b) % 2 ^ w)) := by
  simp [semW, hl, hr, intBin]

/-- the chain of `+` over expressions whose values are `Qint[w]` numbers below `2^w`: their sum modulo `2^w` -/
theorem sumP_value (σ : SEnv) (w : Nat) : ∀ (es : List PExp) (vs : List Nat) (e : PExp) (v : Nat),
    semW σ e = some (.int w v) → v < 2 ^ w →
    List.Forall₂ (fun e v => semW σ e = some (.int w v) ∧ v < 2 ^ w) es vs →
    semW σ (sumP e es) = some (.int w ((v + vs.sum) % 2 ^ w))
  | [], vs, e, v, he, hv, h => by
    cases h
    simp [sumP, he, Nat.mod_eq_of_lt hv]
  | y :: ys, vs, e, v, he, hv, h => by
    cases h with
    | cons hy hys =>
      rename_i vy vys
      have ih := sumP_value σ w ys vys y vy hy.1 hy.2 hys
      simp only [sumP, semW_add σ e (sumP y ys) w v _ he ih, List.sum_cons]
      congr 2
      rw [Nat.add_mod_mod]

/-! ### `all` / `any` -/

theorem semWList_bools (σ : SEnv) : ∀ (es : List PExp) (bs : List Bool),
    List.Forall₂ (fun e b => semW σ e = some (.bool b)) es bs → semWList σ es = some (bs.map .bool)
  | [], bs, h => by cases h; rfl
  | e :: es, bs, h => by
    cases h with
    | cons he hes =>
      simp [semWList, he, semWList_bools σ es _ hes]

theorem boolFold_bools (isAnd : Bool) : ∀ (b : Bool) (bs : List Bool),
    boolFold isAnd ((b :: bs).map .bool) = some (if isAnd then (b :: bs).all id else (b :: bs).any id)
  | b, [] => by cases isAnd <;> simp [boolFold]
  | b, c :: cs => by
    have ih := boolFold_bools isAnd c cs
    simp only [List.map_cons] at ih ⊢
    simp only [boolFold, ih, Option.map_some]
    cases isAnd <;> simp

/-- `all(…)` / `any(…)` over expressions with bool values: python's `all` / `any` of the values -/
theorem boolop_value (σ : SEnv) (isAnd : Bool) (e : PExp) (es : List PExp) (b : Bool) (bs : List Bool)
    (h : List.Forall₂ (fun e b => semW σ e = some (.bool b)) (e :: es) (b :: bs)) :
    semW σ (.boolop isAnd (e :: es)) = some (.bool (if isAnd then (b :: bs).all id else (b :: bs).any id)) := by
  rw [semW, semWList_bools σ _ _ h]
  simp only [boolFold_bools, Option.map_some]

/-! ### `len` -/

theorem semW_len (σ : SEnv) (k : Nat) (hk : k < 65536) : ∃ w, semW σ (toP (.const (.int k))) = some (.int w k) :=
  semW_cint_nat σ k hk

theorem toPs_map (f : Nat → SExp) : ∀ l : List Nat, toPs (l.map f) = l.map fun a => toP (f a)
  | [] => rfl
  | a :: l => by simp [toPs, toPs_map f l]

theorem toPs_elems1 (L : String) (n : Nat) :
    toPs (elems1 L n) = (List.range n).map fun (a : Nat) => PExp.subs L [(a : Int)] := by
  unfold elems1
  rw [toPs_map]
  simp only [toP_access1]

theorem toPs_elems2 (L : String) (c m : Nat) :
    toPs (elems2 L c m) = (List.range m).map fun (b : Nat) => PExp.subs L [(c : Int), (b : Int)] := by
  unfold elems2
  rw [toPs_map]
  simp only [toP_access2]

end QV.A2A
