import QV.Proofs.CompilerGen3
/-!
# Semantic correctness of the compiler model on the general class – part 4: argument lists, `And`

`node_tail`: what `compile_and` and `compile_or` share – the arguments have been compiled, the destination
chosen, the gates emitted; then the argument qubits are marked and a fresh destination is cached.
-/
namespace QV.Compiler
open QV

variable {Kn : String → Prop} {ρ : Env} {σ0 : FState} {s0 : CState}

/-! ### argument lists -/

theorem argsG_nil : ArgsG Kn ρ σ0 s0 [] := by
  intro rs s s' h gi
  unfold compileArgs at h
  obtain ⟨rfl, rfl⟩ := run_pure_ok.mp h
  exact ⟨gi, Fr.refl _, rfl, fun q hq => absurd hq List.not_mem_nil⟩

theorem argsG_cons {a : BExp} {as : List BExp} (iha : ExprG Kn ρ σ0 s0 a) (ihs : ArgsG Kn ρ σ0 s0 as) :
    ArgsG Kn ρ σ0 s0 (a :: as) := by
  intro rs s s' h gi
  unfold compileArgs at h
  obtain ⟨q1, s1, h1, h2⟩ := run_bind_ok.mp h
  obtain ⟨rs', s2, h3, h4⟩ := run_bind_ok.mp h2
  obtain ⟨rfl, rfl⟩ := run_pure_ok.mp h4
  obtain ⟨gi1, fr1, hv1, _⟩ := iha none none h1 gi (by intro d hd0; cases hd0) (fun _ => ⟨rfl, rfl⟩)
    (by intro y hy; cases hy)
  have res := hv1 rfl
  obtain ⟨gi2, fr2, hvals, hb⟩ := ihs h3 gi1
  refine ⟨gi2, (fr1.trans fr2).mono ?_ ?_ ?_ (fun q h => by simpa [hasConstList] using h), ?_, ?_⟩
  · rintro q _ (hh | hh)
    · cases hh
    · exact hh
  · rintro q (hh | hh) _ _ _
    · exact hh ▸ List.mem_cons_self
    · exact List.mem_cons_of_mem _ hh
  · rintro q _ (hh | hh) <;> exact hh
  · simp only [List.map_cons, hvals]
    rw [fr2.val q1 res.nav (fun hh => hh), res.val]
  · intro q hq
    simp only [List.mem_cons] at hq
    rcases hq with rfl | hq
    · refine ⟨fun h' => res.nav (fr2.avail q h'), fun h1' h2' => ?_, res.np⟩
      refine fr2.tkeep _ (res.tgt ?_ (by rw [← fr2.kkeep]; exact h2'))
      rcases fr2.anew _ h1' with h'' | h''
      · exact h''
      · exact absurd h'' res.nav
    · obtain ⟨b1, b2, b3⟩ := hb q hq
      exact ⟨b1, b2, fun x hx => b3 x (fr1.priv x hx (fun hh => hh))⟩

/-! ### the common tail of `compile_and` / `compile_or` -/

theorem node_tail {E : Nat → Prop} {e : BExp} {dest : Option Nat} {erets es : List Nat} {d a : Nat}
    {s1 s2 s3 t1 s' : CState}
    (hes : ∀ x, x ∈ es ↔ x ∈ erets) (hnl : isLeaf e = false)
    (hd : ∀ d, dest = some d → PrivD Kn s0 s1 d)
    (frA : Fr Kn σ0 s0 s1 s2 NoN (· ∈ erets) NoN E)
    (hb : ∀ q ∈ erets, ¬ Avail s2 q ∧ (q ∈ s2.qc.anc → q ∉ s2.qc.kept → TgtL s0 s2 q) ∧
      ∀ x, PrivD Kn s0 s1 x → q ≠ x)
    (frd : Fr Kn σ0 s0 s2 s3 NoN (fun q => dest = none ∧ q = d) NoN) (hcd : cur σ0 s3 = cur σ0 s2)
    (gi2 : GI Kn ρ σ0 s0 s2)
    (dcase : dest = some d ∨ (dest = none ∧ Avail s2 d ∧ d ∈ s3.qc.anc ∧ d ∉ s3.qc.kept))
    (git1 : GI Kn ρ σ0 s0 t1) (frg : Fr Kn σ0 s0 s3 t1 (· = d) NoN (· ∈ es)) (pd1 : PrivD Kn s0 t1 d)
    (tg1 : TgtL s0 t1 d) (hval : cur σ0 t1 d = Bool.xor (cur σ0 s3 d) (e.eval ρ))
    (hfin : StateT.run (do
          markAll es
          if dest.isNone = true then do
              expqSet e d
              pure d
            else pure d : M Nat) t1 = .ok (a, s')) :
    GI Kn ρ σ0 s0 s' ∧ Fr Kn σ0 s0 s1 s' (fun q => dest = some q) (· = a) NoN E ∧
    (dest = none → ResG Kn ρ σ0 s0 s1 s' e a) ∧
    (∀ d, dest = some d → a = d ∧ cur σ0 s' d = Bool.xor (cur σ0 s1 d) (e.eval ρ) ∧ TgtL s0 s' d) := by
  have frB := frd.trans frg
  have hdn : d ∉ erets := by
    intro hm
    rcases dcase with hsome | ⟨_, hava, _, _⟩
    · exact (hb d hm).2.2 d (hd d hsome) rfl
    · exact (hb d hm).1 hava
  obtain ⟨u1, t2, hmk, k1⟩ := run_bind_ok.mp hfin
  have hws : ∀ w ∈ es, ¬ Avail t1 w ∧ (w ∈ t1.qc.anc → w ∉ t1.qc.kept → TgtL s0 t1 w) := by
    intro w hw
    obtain ⟨b1, b2, _⟩ := hb w ((hes w).mp hw)
    refine ⟨fun h' => b1 (frB.avail w h'), fun h1' h2' => frB.tkeep _ (b2 ?_ (by rw [← frB.kkeep]; exact h2'))⟩
    rcases frB.anew _ h1' with h'' | h''
    · exact h''
    · exact absurd h'' b1
  obtain ⟨git2, frm, hcm, hmarks, hancm, hexm, hfm, hnm⟩ := markAll_gi hmk git1 (fun w hw => ⟨(hws w hw).1, fun h1 h2 _ => (hws w hw).2 h1 h2⟩)
  have pd2 : PrivD Kn s0 t2 d := frm.priv d pd1 (fun hm => hdn ((hes d).mp hm))
  have tg2 : TgtL s0 t2 d := frm.tkeep _ tg1
  have hval2 : cur σ0 t2 d = Bool.xor (cur σ0 s2 d) (e.eval ρ) := by rw [hcm, hval, hcd]
  have frC := frB.trans frm
  have hmarked : ∀ {sf : CState}, (∀ m ∈ t2.qc.marked, m ∈ sf.qc.marked) → sf.qc.anc = t2.qc.anc →
      sf.qc.kept = t2.qc.kept → ∀ q ∈ erets, q ∈ sf.qc.anc → q ∉ sf.qc.kept → q ∈ sf.qc.marked := by
    intro sf hmm ha hk q hq h1' h2'
    exact hmm _ (hmarks q ((hes q).mpr hq) (by rw [← hancm, ← ha]; exact h1')
      (by rw [← frm.kkeep, ← hk]; exact h2'))
  rcases dcase with hsome | ⟨hnone, hava, hanca, hnk⟩
  · subst hsome
    simp only [Option.isNone_some, Bool.false_eq_true, ↓reduceIte] at k1
    obtain ⟨e1, e2⟩ := run_pure_ok.mp k1
    subst e2; subst e1
    refine ⟨git2, (frA.trans frC).mono ?_ ?_ ?_ (fun q h => by simpa using h), fun hn => (by cases hn), fun d' hd' => ?_⟩
    · rintro q _ (hh | ((hh | hh) | hh))
      · exact hh.elim
      · exact hh.elim
      · rw [hh]
      · exact hh.elim
    · rintro q (hh | ((hh | hh) | hh)) h1' h2' h3'
      · exact absurd (hmarked (fun _ hm => hm) rfl rfl q hh h1' h2') h3'
      · cases hh.1
      · exact hh.elim
      · exact hh.elim
    · rintro q hq' (hh | ((hh | hh) | hh))
      · exact hh
      · exact hh
      · exact (hb q ((hes q).mp hh)).2.2 q hq' rfl
      · exact (hb q ((hes q).mp hh)).2.2 q hq' rfl
    · cases hd'
      refine ⟨rfl, ?_, tg2⟩
      rw [hval2, frA.val a (hd a rfl).nav (fun hh => hh)]
  · subst hnone
    simp only [Option.isNone_none, ↓reduceIte] at k1
    obtain ⟨u4, t4, hset, k4⟩ := run_bind_ok.mp k1
    obtain ⟨e1, e2⟩ := run_pure_ok.mp k4
    subst e2; subst e1
    have hz : cur σ0 s2 a = false := gi2.zero a hava
    have hval3 : cur σ0 t2 a = e.eval ρ := by rw [hval2, hz]; simp
    obtain ⟨gi5, fr5, hc5, hqc5, _⟩ := expqSet_gi hset (git2.monoH (fun _ hh => hh.elim)) pd2.nav hval3
      (fun _ _ => tg2)
    have hav1 : Avail s1 a := frA.avail a hava
    refine ⟨gi5, ((frA.trans frC).trans fr5).mono ?_ ?_ ?_ (fun q h => by simpa using h), fun _ => ⟨fun h' => pd2.nav (fr5.avail a h'),
      by rw [hc5]; exact hval3, fun _ _ => fr5.tkeep _ tg2,
      fun _ => ⟨Unread.congr (by rw [hqc5]) pd2.unread, by rw [hqc5]; exact pd2.nm⟩, fun _ _ => hav1,
      fun q hq' e' => hq'.nav (e' ▸ hav1), fun hl => (by rw [hnl] at hl; cases hl)⟩, fun d' hd' => (by cases hd')⟩
    · rintro q hq' ((hh | ((hh | hh) | hh)) | hh)
      · exact hh.elim
      · exact hh.elim
      · exact absurd (hh ▸ hav1) hq'
      · exact hh.elim
      · exact hh.elim
    · rintro q ((hh | ((hh | hh) | hh)) | hh) h1' h2' h3'
      · exact absurd (hmarked (sf := s') (fun m hm => by rw [hqc5]; exact hm) (by rw [hqc5]) (by rw [hqc5])
          q hh h1' h2') h3'
      · exact hh.2
      · exact hh.elim
      · exact hh.elim
      · exact hh.elim
    · rintro q hq' ((hh | ((hh | hh) | hh)) | hh)
      · exact hh
      · exact hh
      · exact (hb q ((hes q).mp hh)).2.2 q hq' rfl
      · exact (hb q ((hes q).mp hh)).2.2 q hq' rfl
      · exact hq'.nav (hh ▸ hav1)

/-! ### `And` -/

theorem exprG_and {args : List BExp} (ih : ArgsG Kn ρ σ0 s0 args) : ExprG Kn ρ σ0 s0 (.and args) := by
  intro dest sym a s s' h gi hd _ _
  unfold compileExpr at h
  dsimp only at h
  obtain ⟨r0, s1, hget, h1⟩ := run_bind_ok.mp h
  cases r0 with
  | some q =>
    obtain ⟨rfl, hp⟩ := expqGet?_hit hget
    exact cacheHit_g h1 gi hd hp rfl
  | none =>
  obtain ⟨rfl, _⟩ := expqGet?_none hget
  dsimp only at h1
  obtain ⟨erets, s2, hargs, h2⟩ := run_bind_ok.mp h1
  obtain ⟨gi2, frA, hvals, hb⟩ := ih hargs gi
  have hd2 : ∀ d, dest = some d → PrivD Kn s0 s2 d := fun d hd' => frA.priv d (hd d hd') (fun hh => hh)
  have body : ∀ {d : Nat} {s3 : CState},
      (destOr dest).run s2 = .ok (d, s3) →
      StateT.run (
        if erets.contains d = true then do
          event "destAmongArgs"
          mcx (sortNat (if erets.contains d = true then erets.erase d else erets).eraseDups) d
          markAll (sortNat (if erets.contains d = true then erets.erase d else erets).eraseDups)
          if dest.isNone = true then do
              expqSet (BExp.and args) d
              pure d
            else pure d
        else do
          mcx (sortNat (if erets.contains d = true then erets.erase d else erets).eraseDups) d
          markAll (sortNat (if erets.contains d = true then erets.erase d else erets).eraseDups)
          if dest.isNone = true then do
              expqSet (BExp.and args) d
              pure d
            else pure d : M Nat) s3 = .ok (a, s') →
      GI Kn ρ σ0 s0 s' ∧
      Fr Kn σ0 s0 s1 s' (fun q => dest = some q) (· = a) NoN (fun _ => hasConstList args = true) ∧
      (dest = none → ResG Kn ρ σ0 s0 s1 s' (BExp.and args) a) ∧
      (∀ d, dest = some d → a = d ∧ cur σ0 s' d = Bool.xor (cur σ0 s1 d) ((BExp.and args).eval ρ) ∧
        TgtL s0 s' d) := by
    intro d s3 hdest h3
    obtain ⟨gi3, frd, hcd, pd3, hex3, hmk3, dcase⟩ := dest_g hdest gi2 hd2
    have hdn : d ∉ erets := by
      intro hm
      rcases dcase with hsome | ⟨_, hava, _, _⟩
      · exact (hb d hm).2.2 d (hd d hsome) rfl
      · exact (hb d hm).1 hava
    have hcdn : ¬ (erets.contains d = true) := by simpa using hdn
    rcases run_ite_ok.mp h3 with ⟨hc, _⟩ | ⟨_, k3⟩
    · exact absurd hc hcdn
    · rw [if_neg hcdn] at k3
      obtain ⟨u1, t1, hmcx, k1⟩ := run_bind_ok.mp k3
      obtain ⟨git1, frg, pd1, tg1, am, _⟩ := gateP (cs := sortNat erets.eraseDups) (t := d) hmcx gi3 rfl rfl
        (fun c hc h' => (hb c (mem_sortDedup.mp hc)).1 (frd.avail c h')) pd3
      refine node_tail (e := .and args) (fun x => mem_sortDedup) rfl hd frA hb frd hcd gi2 dcase git1 frg pd1 tg1 ?_ k1
      rw [am.cur_eq rfl σ0, all_sortDedup, hcd, all_of_map hvals]
      simp [BExp.eval]
  cases dest with
  | some d0 =>
    dsimp only at h2
    obtain ⟨d, s3, hp0, h4⟩ := run_bind_ok.mp h2
    simpa only [hasConst] using body hp0 h4
  | none =>
    dsimp only at h2
    obtain ⟨d, s3, hf, h4⟩ := run_bind_ok.mp h2
    simpa only [hasConst] using body hf h4

end QV.Compiler
