import QV.Proofs.A2A2
/-! `ast2ast` preserves the source-level meaning, part 3: the class of source programs the preservation
theorem covers (`okS`), what the visitors of the rewriter return on it, the simulation of one (possibly
self-reading) assignment under a stack of guards. -/
namespace QV.A2A
open QV QV.Front QV.Sem

set_option linter.unusedSimpArgs false
set_option linter.unusedVariables false

/-! ### plain expressions -/

theorem binName_ne_pow {op : String} (h : (binName op).isSome = true) : (op == "Pow") = false := by
  cases hp : op == "Pow"
  · rfl
  · have : op = "Pow" := by simpa using hp
    subst this
    simp [binName] at h

mutual
theorem visitE_plain (st : RSt) : ∀ e : SExp, plainE e = true → visitE st e = .ok e
  | .name n, h => by
    simp only [plainE] at h
    simp [visitE, userName_not_dunder h, pure, Except.pure]
  | .const c, _ => by simp [visitE, pure, Except.pure]
  | .boolop a vs, h => by
    simp only [plainE] at h
    simp [visitE, visitEs_plain st vs h, bind, Except.bind, pure, Except.pure]
  | .unop op e, h => by
    simp only [plainE, Bool.and_eq_true] at h
    simp [visitE, visitE_plain st e h.2, bind, Except.bind, pure, Except.pure]
  | .ite c t e, h => by
    simp only [plainE, Bool.and_eq_true] at h
    simp [visitE, visitE_plain st c h.1.1, visitE_plain st t h.1.2, visitE_plain st e h.2, bind, Except.bind, pure,
      Except.pure]
  | .cmp op l r, h => by
    simp only [plainE, Bool.and_eq_true] at h
    simp [visitE, visitE_plain st l h.1, visitE_plain st r h.2, bind, Except.bind, pure, Except.pure]
  | .bin op l r, h => by
    simp only [plainE, Bool.and_eq_true] at h
    simp [visitE, binName_ne_pow h.1.1.1, visitE_plain st l h.1.1.2, visitE_plain st r h.1.2, bind, Except.bind, pure,
      Except.pure]
  | .sub _ _, h => by simp [plainE] at h
  | .tuple _, h => by simp [plainE] at h
  | .list _, h => by simp [plainE] at h
  | .call _ _, h => by simp [plainE] at h
  | .other _, h => by simp [plainE] at h
theorem visitEs_plain (st : RSt) : ∀ es : List SExp, plainEs es = true → visitEs st es = .ok es
  | [], _ => by simp [visitEs, pure, Except.pure]
  | e :: es, h => by
    simp only [plainEs, Bool.and_eq_true] at h
    simp [visitEs, visitE_plain st e h.1, visitEs_plain st es h.2, bind, Except.bind, pure, Except.pure]
end

mutual
/-- a plain expression reads user variables only -/
theorem mentions_plain (n : String) : ∀ e : SExp, plainE e = true → mentions n (toP e) = true → userName n = true
  | .name m, h, hm => by
    simp only [toP, mentions, beq_iff_eq] at hm
    subst hm
    simpa [plainE] using h
  | .const (.bool _), _, hm => by simp [toP, mentions] at hm
  | .const (.int _), _, hm => by simp [toP, mentions] at hm
  | .const (.str _), h, _ => by simp [plainE] at h
  | .const (.other _), h, _ => by simp [plainE] at h
  | .boolop a vs, h, hm => by
    simp only [plainE] at h
    simp only [toP, mentions] at hm
    exact mentions_plains n vs h hm
  | .unop op e, h, hm => by
    simp only [plainE, Bool.and_eq_true, Bool.or_eq_true, beq_iff_eq] at h
    rcases h.1 with rfl | rfl
    · simp only [toP, beq_self_eq_true, if_true, mentions] at hm
      exact mentions_plain n e h.2 hm
    · simp only [toP, mentions] at hm
      exact mentions_plain n e h.2 (by simpa [mentions] using hm)
  | .ite c t e, h, hm => by
    simp only [plainE, Bool.and_eq_true] at h
    simp only [toP, mentions, Bool.or_eq_true] at hm
    rcases hm with (hm | hm) | hm
    · exact mentions_plain n c h.1.1 hm
    · exact mentions_plain n t h.1.2 hm
    · exact mentions_plain n e h.2 hm
  | .cmp op l r, h, hm => by
    simp only [plainE, Bool.and_eq_true] at h
    simp only [toP, mentions, Bool.or_eq_true] at hm
    rcases hm with hm | hm
    · exact mentions_plain n l h.1 hm
    · exact mentions_plain n r h.2 hm
  | .bin op l r, h, hm => by
    simp only [plainE, Bool.and_eq_true] at h
    cases hb : binName op with
    | none => simp [hb] at h
    | some o =>
      simp only [toP, hb, mentions, Bool.or_eq_true] at hm
      rcases hm with hm | hm
      · exact mentions_plain n l h.1.1.2 hm
      · exact mentions_plain n r h.1.2 hm
  | .sub _ _, h, _ => by simp [plainE] at h
  | .tuple _, h, _ => by simp [plainE] at h
  | .list _, h, _ => by simp [plainE] at h
  | .call _ _, h, _ => by simp [plainE] at h
  | .other _, h, _ => by simp [plainE] at h
theorem mentions_plains (n : String) :
    ∀ es : List SExp, plainEs es = true → mentionsList n (toPs es) = true → userName n = true
  | [], _, hm => by simp [toPs, mentionsList] at hm
  | e :: es, h, hm => by
    simp only [plainEs, Bool.and_eq_true] at h
    simp only [toPs, mentionsList, Bool.or_eq_true] at hm
    rcases hm with hm | hm
    · exact mentions_plain n e h.1 hm
    · exact mentions_plains n es h.2 hm
end

/-! ### the class of statements -/

/-! ### the replacement of loop variables -/

/-- the loop variables replaced so far hold, in the source environment, the constants they are replaced by -/
def ThetaOK (θ : Subst) (σ : SEnv) : Prop :=
  ∀ p ∈ θ, userName p.1 = true ∧ isIB p.2 = true ∧ σ p.1 = semW σ (toP p.2)

theorem isIB_plain {c : SExp} (h : isIB c = true) : plainE c = true := by
  cases c with
  | const k => cases k <;> simp [isIB, plainE] at h ⊢
  | _ => simp [isIB] at h

theorem subst1_isIntLit (v : String) (c : SExp) (e : SExp) (h : isIntLit e = true) : subst1 v c e = e := by
  cases e with
  | const k => rfl
  | _ => simp [isIntLit] at h

theorem semW_toP_IB (σ σ' : SEnv) {c : SExp} (h : isIB c = true) : semW σ (toP c) = semW σ' (toP c) := by
  cases c with
  | const k => cases k <;> simp [isIB, toP, semW] at h ⊢
  | _ => simp [isIB] at h

mutual
theorem subst1_plain (v : String) (c : SExp) (hc : isIB c = true) :
    ∀ e : SExp, plainE e = true → plainE (subst1 v c e) = true
  | .name n, h => by
    simp only [subst1]
    split
    · exact isIB_plain hc
    · exact h
  | .const k, h => h
  | .boolop a vs, h => by
    simp only [plainE] at h
    simp only [subst1, plainE]
    exact subst1s_plain v c hc vs h
  | .unop op e, h => by
    simp only [plainE, Bool.and_eq_true] at h
    simp only [subst1, plainE, Bool.and_eq_true]
    exact ⟨h.1, subst1_plain v c hc e h.2⟩
  | .ite a b d, h => by
    simp only [plainE, Bool.and_eq_true] at h
    simp only [subst1, plainE, Bool.and_eq_true]
    exact ⟨⟨subst1_plain v c hc a h.1.1, subst1_plain v c hc b h.1.2⟩, subst1_plain v c hc d h.2⟩
  | .cmp op l r, h => by
    simp only [plainE, Bool.and_eq_true] at h
    simp only [subst1, plainE, Bool.and_eq_true]
    exact ⟨subst1_plain v c hc l h.1, subst1_plain v c hc r h.2⟩
  | .bin op l r, h => by
    simp only [plainE, Bool.and_eq_true] at h
    simp only [subst1, plainE, Bool.and_eq_true]
    refine ⟨⟨⟨h.1.1.1, subst1_plain v c hc l h.1.1.2⟩, subst1_plain v c hc r h.1.2⟩, ?_⟩
    have h4 := h.2
    split at h4
    · rename_i hs
      simp only [hs, if_true]
      rw [subst1_isIntLit v c r h4]; exact h4
    · rename_i hs
      simp [hs]
  | .sub _ _, h => by simp [plainE] at h
  | .tuple _, h => by simp [plainE] at h
  | .list _, h => by simp [plainE] at h
  | .call _ _, h => by simp [plainE] at h
  | .other _, h => by simp [plainE] at h
theorem subst1s_plain (v : String) (c : SExp) (hc : isIB c = true) :
    ∀ es : List SExp, plainEs es = true → plainEs (subst1s v c es) = true
  | [], _ => rfl
  | e :: es, h => by
    simp only [plainEs, Bool.and_eq_true] at h
    simp only [subst1s, plainEs, Bool.and_eq_true]
    exact ⟨subst1_plain v c hc e h.1, subst1s_plain v c hc es h.2⟩
end

theorem binName_shift {op o : String} (h : binName op = some o) :
    (o == "lshift" || o == "rshift") = (op == "LShift" || op == "RShift") := by
  unfold binName at h
  split at h <;> simp at h <;> subst h <;> decide

mutual
/-- replacing a variable by the constant it holds does not change the value -/
theorem subst1_sem (σ : SEnv) (v : String) (c : SExp) (hc : isIB c = true) (hσ : σ v = semW σ (toP c)) :
    ∀ e : SExp, plainE e = true → semW σ (toP (subst1 v c e)) = semW σ (toP e)
  | .name n, _ => by
    simp only [subst1]
    split
    · rename_i hn
      have : n = v := by simpa using hn
      subst this
      simp only [toP, semW]
      exact hσ.symm
    · rfl
  | .const k, _ => rfl
  | .boolop a vs, h => by
    simp only [plainE] at h
    simp only [subst1, toP, semW, subst1s_sem σ v c hc hσ vs h]
  | .unop op e, h => by
    simp only [plainE, Bool.and_eq_true, Bool.or_eq_true, beq_iff_eq] at h
    rcases h.1 with rfl | rfl
    · simp only [subst1, toP, beq_self_eq_true, if_true, semW, subst1_sem σ v c hc hσ e h.2]
    · have hne : ("Invert" == "Not") = false := by decide
      simp only [subst1, toP, hne, Bool.false_eq_true, if_false, beq_self_eq_true, if_true, semW,
        subst1_sem σ v c hc hσ e h.2]
  | .ite a b d, h => by
    simp only [plainE, Bool.and_eq_true] at h
    simp only [subst1, toP, semW, subst1_sem σ v c hc hσ a h.1.1, subst1_sem σ v c hc hσ b h.1.2,
      subst1_sem σ v c hc hσ d h.2]
  | .cmp op l r, h => by
    simp only [plainE, Bool.and_eq_true] at h
    simp only [subst1, toP, semW, subst1_sem σ v c hc hσ l h.1, subst1_sem σ v c hc hσ r h.2]
  | .bin op l r, h => by
    simp only [plainE, Bool.and_eq_true] at h
    cases hb : binName op with
    | none => simp [hb] at h
    | some o =>
      have hl := subst1_sem σ v c hc hσ l h.1.1.2
      have hr := subst1_sem σ v c hc hσ r h.1.2
      have h4 := h.2
      by_cases hs : (op == "LShift" || op == "RShift") = true
      · simp only [hs, if_true] at h4
        simp only [subst1, toP, hb, subst1_isIntLit v c r h4, semW, hl]
      · simp only [Bool.not_eq_true] at hs
        have hs' := binName_shift hb
        rw [hs] at hs'
        simp only [subst1, toP, hb, semW, hl, hr, hs', Bool.false_eq_true, if_false]
  | .sub _ _, h => by simp [plainE] at h
  | .tuple _, h => by simp [plainE] at h
  | .list _, h => by simp [plainE] at h
  | .call _ _, h => by simp [plainE] at h
  | .other _, h => by simp [plainE] at h
theorem subst1s_sem (σ : SEnv) (v : String) (c : SExp) (hc : isIB c = true) (hσ : σ v = semW σ (toP c)) :
    ∀ es : List SExp, plainEs es = true → semWList σ (toPs (subst1s v c es)) = semWList σ (toPs es)
  | [], _ => rfl
  | e :: es, h => by
    simp only [plainEs, Bool.and_eq_true] at h
    simp only [subst1s, toPs, semWList, subst1_sem σ v c hc hσ e h.1, subst1s_sem σ v c hc hσ es h.2]
end

theorem substE_cons (p : String × SExp) (θ : Subst) (e : SExp) : substE (p :: θ) e = substE θ (subst1 p.1 p.2 e) := rfl

theorem substE_plain : ∀ (θ : Subst) (σ : SEnv), ThetaOK θ σ → ∀ e, plainE e = true → plainE (substE θ e) = true
  | [], _, _, _, h => h
  | p :: θ, σ, hθ, e, h => by
    rw [substE_cons]
    exact substE_plain θ σ (fun q hq => hθ q (List.mem_cons_of_mem _ hq)) _
      (subst1_plain p.1 p.2 (hθ p (List.mem_cons_self)).2.1 e h)

theorem substE_sem : ∀ (θ : Subst) (σ : SEnv), ThetaOK θ σ → ∀ e, plainE e = true →
    semW σ (toP (substE θ e)) = semW σ (toP e)
  | [], _, _, _, _ => rfl
  | p :: θ, σ, hθ, e, h => by
    have hp := hθ p (List.mem_cons_self)
    rw [substE_cons, substE_sem θ σ (fun q hq => hθ q (List.mem_cons_of_mem _ hq)) _
      (subst1_plain p.1 p.2 hp.2.1 e h)]
    exact subst1_sem σ p.1 p.2 hp.2.1 hp.2.2 e h

/-- a target under the replacements: itself when it is not a loop variable, a constant otherwise -/
theorem substE_name : ∀ (θ : Subst), (∀ p ∈ θ, isIB p.2 = true) → ∀ t : String,
    (substE θ (.name t) = .name t ∧ ∀ p ∈ θ, p.1 ≠ t) ∨ ∃ k, substE θ (.name t) = .const k
  | [], _, t => Or.inl ⟨rfl, fun p hp => by simp at hp⟩
  | p :: θ, h, t => by
    rw [substE_cons]
    by_cases hn : t = p.1
    · right
      have hc := h p (List.mem_cons_self)
      simp only [subst1, hn, beq_self_eq_true, if_true]
      cases hp2 : p.2 with
      | const k =>
        refine ⟨k, ?_⟩
        clear hc hn
        induction θ with
        | nil => rfl
        | cons q θ ih => rw [substE_cons]; simp only [subst1]; exact ih (fun r hr => by
            simp only [List.mem_cons] at hr
            rcases hr with rfl | hr
            · exact h _ (List.mem_cons_self)
            · exact h r (List.mem_cons_of_mem _ (List.mem_cons_of_mem _ hr)))
      | _ => rw [hp2] at hc; simp [isIB] at hc
    · have : subst1 p.1 p.2 (.name t) = .name t := by
        simp only [subst1]
        have : (t == p.1) = false := by simpa using hn
        simp [this]
      rw [this]
      rcases substE_name θ (fun q hq => h q (List.mem_cons_of_mem _ hq)) t with ⟨h1, h2⟩ | h1
      · left
        refine ⟨h1, fun q hq => ?_⟩
        simp only [List.mem_cons] at hq
        rcases hq with rfl | hq
        · exact fun hh => hn hh.symm
        · exact h2 q hq
      · exact Or.inr h1

theorem ThetaOK.set {θ : Subst} {σ : SEnv} (h : ThetaOK θ σ) (t : String) (x : SVal) (ht : ∀ p ∈ θ, p.1 ≠ t) :
    ThetaOK θ (σ.set t x) := by
  intro p hp
  obtain ⟨h1, h2, h3⟩ := h p hp
  refine ⟨h1, h2, ?_⟩
  rw [← semW_toP_IB σ _ h2, ← h3]
  simp [SEnv.set, ht p hp]

/-! ### the environment of the rewriter never learns a `__` name -/

def KnownOK (st : RSt) : Prop := ∀ n, st.known n = true → isDunder n = false

theorem KnownOK.core {s s' : RSt} (h : KnownOK s) (hc : SameCore s s') : KnownOK s' := by
  intro n hn; rw [hc.known] at hn; exact h n hn

theorem lookup_insert (l : List (String × EVal)) (n m : String) (v : EVal) :
    (lookup (insert l n v) m).isSome = true → m = n ∨ (lookup l m).isSome = true := by
  intro hs
  by_cases h : m = n
  · exact Or.inl h
  · right
    simp only [lookup, insert, Option.isSome_map] at hs ⊢
    rw [List.find?_isSome] at hs ⊢
    obtain ⟨x, hx, hp⟩ := hs
    simp only [List.mem_cons, List.mem_filter] at hx
    rcases hx with rfl | ⟨hx, _⟩
    · simp only [beq_iff_eq] at hp
      exact absurd hp.symm h
    · exact ⟨x, hx, hp⟩

/-- names known after an update of the state that only inserts `t` -/
def KnownGrows (t : String) (s s' : RSt) : Prop :=
  s'.uniq = s.uniq ∧ ∀ n, s'.known n = true → n = t ∨ s.known n = true

theorem knownGrows_setType (t : String) (v : EVal) (s : RSt) (u : Unit) (s1 : RSt)
    (h : (setType t v).run s = .ok (u, s1)) : KnownGrows t s s1 := by
  unfold setType at h
  rw [rm_modify_ok] at h
  subst h
  refine ⟨rfl, fun n hn => ?_⟩
  simp only [RSt.known, Bool.or_eq_true] at hn ⊢
  rcases hn with hn | hn
  · rcases lookup_insert _ _ _ _ hn with h | h
    · exact Or.inl h
    · exact Or.inr (Or.inl h)
  · exact Or.inr (Or.inr hn)

theorem knownGrows_setConstant (t : String) (v : EVal) (s : RSt) (u : Unit) (s1 : RSt)
    (h : (setConstant t v).run s = .ok (u, s1)) : KnownGrows t s s1 := by
  unfold setConstant at h
  rw [rm_modify_ok] at h
  subst h
  refine ⟨rfl, fun n hn => ?_⟩
  simp only [RSt.known, Bool.or_eq_true] at hn ⊢
  rcases hn with hn | hn
  · split at hn
    · exact Or.inr (Or.inl hn)
    · rcases lookup_insert _ _ _ _ hn with h | h
      · exact Or.inl h
      · exact Or.inr (Or.inl h)
  · rcases lookup_insert _ _ _ _ hn with h | h
    · exact Or.inl h
    · exact Or.inr (Or.inr h)

theorem knownGrows_copyType (m t : String) (s : RSt) (u : Unit) (s1 : RSt)
    (h : (copyType m t).run s = .ok (u, s1)) : KnownGrows t s s1 := by
  unfold copyType at h
  rw [rm_modify_ok] at h
  subst h
  refine ⟨by split <;> rfl, fun n hn => ?_⟩
  split at hn
  · simp only [RSt.known, Bool.or_eq_true] at hn ⊢
    rcases hn with hn | hn
    · rcases lookup_insert _ _ _ _ hn with h | h
      · exact Or.inl h
      · exact Or.inr (Or.inl h)
    · exact Or.inr (Or.inr hn)
  · exact Or.inr hn

theorem knownGrows_setConstantNode (t : String) (e : SExp) (s : RSt) (u : Unit) (s1 : RSt)
    (h : (setConstantNode t e).run s = .ok (u, s1)) : KnownGrows t s s1 := by
  unfold setConstantNode at h
  split at h <;> exact knownGrows_setConstant _ _ _ _ _ h

theorem knownGrows_envUpdate (t : String) (v : SExp) (s : RSt) (u : Unit) (s1 : RSt)
    (h : (envUpdate t v).run s = .ok (u, s1)) : KnownGrows t s s1 := by
  unfold envUpdate at h
  split at h
  · exact knownGrows_setConstant _ _ _ _ _ h
  · simp only [rm_bind_ok, rm_get_ok] at h
    obtain ⟨_, _, ⟨rfl, rfl⟩, h⟩ := h
    split at h
    · exact knownGrows_copyType _ _ _ _ _ h
    · exact knownGrows_setType _ _ _ _ _ h
  · simp only [rm_bind_ok, rm_visitM_ok] at h
    obtain ⟨_, _, ⟨_, rfl⟩, h⟩ := h
    exact knownGrows_setConstantNode _ _ _ _ _ h
  · simp only [rm_bind_ok, rm_visitM_ok] at h
    obtain ⟨_, _, ⟨_, rfl⟩, h⟩ := h
    exact knownGrows_setConstantNode _ _ _ _ _ h
  · exact knownGrows_setType _ _ _ _ _ h

theorem KnownOK.grows {t : String} {s s' : RSt} (h : KnownOK s) (hg : KnownGrows t s s')
    (ht : isDunder t = false) : KnownOK s' := by
  intro n hn
  rcases hg.2 n hn with rfl | h1
  · exact ht
  · exact h n h1

/-! ### what the visitors return -/

/-- `visit_Assign` on `t = v` for a user variable and a plain value: the assignment itself, or the pair through
the temporary `__t` -/
theorem visitAssign_inv (t : String) (v : SExp) (ht : userName t = true) (hv : plainE v = true)
    (st st' : RSt) (L : List SStmt) (h : (visitAssign [.name t] v).run st = .ok (L, st')) (hk : KnownOK st) :
    KnownOK st' ∧ st'.uniq = st.uniq ∧
      (L = [.assign [.name t] v] ∨
       L = [.assign [.name ("__" ++ t)] v, .assign [.name t] (.name ("__" ++ t))]) := by
  unfold visitAssign at h
  simp only [rm_bind_ok, rm_pure_ok, rm_get_ok] at h
  obtain ⟨_, _, ⟨rfl, rfl⟩, _, _, ⟨rfl, rfl⟩, _, s1, h1, h2⟩ := h
  have hg := knownGrows_envUpdate _ _ _ _ _ h1
  have hk1 := hk.grows hg (userName_not_dunder ht)
  rw [rm_ite_ok] at h2
  rcases h2 with ⟨_, h2⟩ | ⟨_, h2⟩
  · simp only [rm_bind_ok, rm_liftX_ok, rm_visitM_ok, rm_pure_ok, visitE_plain _ v hv, Except.ok.injEq] at h2
    obtain ⟨_, s2, hn, _, _, ⟨rfl, rfl⟩, rfl, rfl⟩ := h2
    have hc := note_core _ _ _ _ hn
    exact ⟨hk1.core hc, by rw [hc.1, hg.1], Or.inr rfl⟩
  · simp only [rm_bind_ok, rm_liftX_ok, rm_visitM_ok, rm_pure_ok, visitE_plain _ v hv, Except.ok.injEq] at h2
    obtain ⟨_, _, ⟨rfl, rfl⟩, rfl, rfl⟩ := h2
    exact ⟨hk1, hg.1, Or.inl rfl⟩

/-- `visit_AugAssign` on `t op= v` -/
theorem visitAug_inv (t op : String) (v : SExp) (hp : plainE (.bin op (.name t) v) = true) (st st' : RSt) (L : List SStmt)
    (h : (visitAug (.name t) op v).run st = .ok (L, st')) :
    SameCore st st' ∧
      L = [.assign [.name ("__" ++ t)] (.bin op (.name t) v), .assign [.name t] (.name ("__" ++ t))] := by
  unfold visitAug at h
  simp only [rm_bind_ok, rm_pure_ok, rm_liftX_ok, rm_visitM_ok, visitE_plain _ _ hp, Except.ok.injEq] at h
  obtain ⟨_, _, ⟨rfl, rfl⟩, _, s1, hn, _, _, ⟨rfl, rfl⟩, rfl, rfl⟩ := h
  exact ⟨note_core _ _ _ _ hn, rfl⟩

theorem nextUniq_inv (st st' : RSt) (h : String) (hr : nextUniq.run st = .ok (h, st')) :
    h = hexDigits (st.uniq + 1) ∧ st'.uniq = st.uniq + 1 ∧ st'.known = st.known := by
  unfold nextUniq at hr
  simp only [rm_bind_ok, rm_get_ok, rm_set_ok, rm_pure_ok] at hr
  obtain ⟨_, _, ⟨rfl, rfl⟩, _, _, rfl, rfl, rfl⟩ := hr
  exact ⟨rfl, rfl, rfl⟩

/-! ### the guards on rewritten lists -/

/-- the statement is an assignment to one name -/
def IsAssign (s : SStmt) : Prop := ∃ t v, s = .assign [.name t] v

def sBody (g : String) : SStmt → SStmt
  | .assign [.name t] v => .assign [.name t] (.ite (.name g) v (.name (oldOf t)))
  | s => s

def sElse (g : String) : SStmt → SStmt
  | .assign [.name t] v =>
    if isDunder t then .assign [.name t] (.ite (.name g) (.name (dropDunder t)) v)
    else if isIfTarg t then .assign [.name t] v
    else .assign [.name t] (.ite (.name g) (.name t) v)
  | s => s

theorem guardBody_ok (known : String → Bool) (hk : ∀ n, known n = true → isDunder n = false) (g : String) :
    ∀ L : List SStmt, (∀ s ∈ L, IsAssign s) → guardBody known g L = .ok (L.map (sBody g))
  | [], _ => by simp [guardBody, pure, Except.pure]
  | s :: L, h => by
    obtain ⟨t, v, rfl⟩ := h s (List.mem_cons_self)
    have ih := guardBody_ok known hk g L (fun x hx => h x (List.mem_cons_of_mem _ hx))
    have hold : (if isDunder t = true ∧ known t = false then dropDunder t else t) = oldOf t := by
      unfold oldOf
      by_cases hd : isDunder t = true
      · have : known t = false := by
          cases hkt : known t
          · rfl
          · have := hk t hkt; rw [hd] at this; cases this
        simp [hd, this]
      · simp [hd]
    simp [guardBody, ih, bind, Except.bind, pure, Except.pure, sBody, hold]

theorem guardElse_ok (known : String → Bool) (hk : ∀ n, known n = true → isDunder n = false) (g : String) :
    ∀ L : List SStmt, (∀ s ∈ L, IsAssign s) → guardElse known g L = .ok (L.map (sElse g))
  | [], _ => by simp [guardElse, pure, Except.pure]
  | s :: L, h => by
    obtain ⟨t, v, rfl⟩ := h s (List.mem_cons_self)
    have ih := guardElse_ok known hk g L (fun x hx => h x (List.mem_cons_of_mem _ hx))
    by_cases hd : isDunder t = true
    · have : known t = false := by
        cases hkt : known t
        · rfl
        · have := hk t hkt; rw [hd] at this; cases this
      simp [guardElse, ih, bind, Except.bind, pure, Except.pure, sElse, hd, this]
    · by_cases hi : isIfTarg t = true
      · simp [guardElse, ih, bind, Except.bind, pure, Except.pure, sElse, hd, hi]
      · simp [guardElse, ih, bind, Except.bind, pure, Except.pure, sElse, hd, hi]

theorem toStmt_sBody (g : String) (s : SStmt) (h : IsAssign s) : toStmt (sBody g s) = fBody g (toStmt s) := by
  obtain ⟨t, v, rfl⟩ := h
  simp [sBody, toStmt, fBody, toP]

theorem toStmt_sElse (g : String) (s : SStmt) (h : IsAssign s) : toStmt (sElse g s) = fElse g (toStmt s) := by
  obtain ⟨t, v, rfl⟩ := h
  simp only [sElse, toStmt, fElse]
  by_cases hd : isDunder t = true
  · simp [hd, toStmt, toP]
  · by_cases hi : isIfTarg t = true
    · simp [hd, hi, toStmt]
    · simp [hd, hi, toStmt, toP]

theorem map_toStmt_sBody (g : String) (L : List SStmt) (h : ∀ s ∈ L, IsAssign s) :
    (L.map (sBody g)).map toStmt = (L.map toStmt).map (fBody g) := by
  simp only [List.map_map]
  apply List.map_congr_left
  intro s hs
  exact toStmt_sBody g s (h s hs)

theorem map_toStmt_sElse (g : String) (L : List SStmt) (h : ∀ s ∈ L, IsAssign s) :
    (L.map (sElse g)).map toStmt = (L.map toStmt).map (fElse g) := by
  simp only [List.map_map]
  apply List.map_congr_left
  intro s hs
  exact toStmt_sElse g s (h s hs)

/-- the targets the rewriter assigns: user variables, their `__` temporaries, the guards numbered in `(lo, hi]` -/
def GoodT (lo hi : Nat) (t : String) : Prop :=
  userName t = true ∨ (∃ u, userName u = true ∧ t = "__" ++ u) ∨ (∃ k, lo < k ∧ k ≤ hi ∧ t = iftargName k)

def GoodS (lo hi : Nat) (s : SStmt) : Prop := ∃ t v, s = .assign [.name t] v ∧ GoodT lo hi t

theorem GoodS.isAssign {lo hi : Nat} {s : SStmt} (h : GoodS lo hi s) : IsAssign s := by
  obtain ⟨t, v, rfl, _⟩ := h; exact ⟨t, v, rfl⟩

theorem GoodS.mono {lo hi lo' hi' : Nat} {s : SStmt} (h : GoodS lo hi s) (h1 : lo' ≤ lo) (h2 : hi ≤ hi') :
    GoodS lo' hi' s := by
  obtain ⟨t, v, rfl, ht⟩ := h
  refine ⟨t, v, rfl, ?_⟩
  rcases ht with h | h | ⟨k, hk1, hk2, rfl⟩
  · exact Or.inl h
  · exact Or.inr (Or.inl h)
  · exact Or.inr (Or.inr ⟨k, by omega, by omega, rfl⟩)

theorem GoodS.sBody {lo hi : Nat} {s : SStmt} (g : String) (h : GoodS lo hi s) : GoodS lo hi (sBody g s) := by
  obtain ⟨t, v, rfl, ht⟩ := h
  exact ⟨t, _, rfl, ht⟩

theorem GoodS.sElse {lo hi : Nat} {s : SStmt} (g : String) (h : GoodS lo hi s) : GoodS lo hi (sElse g s) := by
  obtain ⟨t, v, rfl, ht⟩ := h
  simp only [QV.A2A.sElse]
  split
  · exact ⟨t, _, rfl, ht⟩
  · split
    · exact ⟨t, _, rfl, ht⟩
    · exact ⟨t, _, rfl, ht⟩

end QV.A2A
