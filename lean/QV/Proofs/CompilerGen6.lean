import QV.Proofs.CompilerGen5
/-!
# Semantic correctness of the compiler model on the general class – part 6: `Xor`, the induction

`compile_xor` accumulates every argument into one qubit; the mutual structural recursion
`exprG` / `argsG` / `xorG` over the expression class `wfExpG` ties the branches together.
-/
namespace QV.Compiler
open QV

variable {Kn : String → Prop} {ρ : Env} {σ0 : FState} {s0 : CState}

theorem xorG_nil : XorG Kn ρ σ0 s0 [] := by
  intro d a s s' h gi _
  unfold compileXorArgs at h
  obtain ⟨rfl, rfl⟩ := run_pure_ok.mp h
  exact ⟨rfl, gi, Fr.refl _, by simp [evalXor], fun h => absurd rfl h⟩

/-- generic branch of the `compile_xor` loop -/
theorem xorStep_g {a : BExp} {as : List BExp} {d q : Nat} {s s' : CState}
    (iha : ExprG Kn ρ σ0 s0 a) (ihs : XorG Kn ρ σ0 s0 as) (hns : isLeaf a = false)
    (h : StateT.run (do
          let d' ← compileExpr a (some d) none
          if d' != d then event "xorRepl"
          compileXorArgs as d' : M Nat) s = .ok (q, s'))
    (gi : GI Kn ρ σ0 s0 s) (pd : PrivD Kn s0 s d) :
    q = d ∧ GI Kn ρ σ0 s0 s' ∧
      Fr Kn σ0 s0 s s' (· = d) (· = d) NoN (fun _ => hasConstList (a :: as) = true) ∧
      cur σ0 s' d = Bool.xor (cur σ0 s d) (evalXor ρ (a :: as)) ∧ (a :: as ≠ [] → TgtL s0 s' d) := by
  obtain ⟨d', s1, h1, h2⟩ := run_bind_ok.mp h
  obtain ⟨gi1, fr1, _, hv1⟩ := iha (some d) none h1 gi (by intro d0 h0; cases h0; exact pd)
    (by intro hs; rw [hns] at hs; cases hs) (by intro y hy; cases hy)
  obtain ⟨e', hval, htg⟩ := hv1 d rfl
  subst e'
  dsimp only at h2
  rcases run_ite_ok.mp h2 with ⟨hc, _⟩ | ⟨_, k2⟩
  · simp at hc
  · obtain ⟨rfl, gi2, fr2, hv2, _⟩ := ihs d' k2 gi1 (fr1.priv d' pd (fun hh => hh))
    refine ⟨rfl, gi2, (fr1.trans fr2).mono ?_ ?_ ?_ (fun q h => by simpa [hasConstList, hasConst] using h), ?_, fun _ => fr2.tkeep _ htg⟩
    · rintro x _ (hh | hh)
      · cases hh; rfl
      · exact hh
    · rintro x (hh | hh) _ _ _ <;> exact hh
    · rintro x _ (hh | hh) <;> exact hh
    · rw [hv2, hval, Bool.xor_assoc]; rfl

/-- `Not` of a compound argument: accumulate the argument, then `X` -/
theorem xorNotStep_g {inner : BExp} {as : List BExp} {d q : Nat} {s s' : CState}
    (iha : ExprG Kn ρ σ0 s0 inner) (ihs : XorG Kn ρ σ0 s0 as) (hns : isLeaf inner = false)
    (h : StateT.run (do
          let d' ← compileExpr inner (some d) none
          if d' != d then event "xorRepl"
          xGate d'
          compileXorArgs as d' : M Nat) s = .ok (q, s'))
    (gi : GI Kn ρ σ0 s0 s) (pd : PrivD Kn s0 s d) :
    q = d ∧ GI Kn ρ σ0 s0 s' ∧
      Fr Kn σ0 s0 s s' (· = d) (· = d) NoN (fun _ => hasConstList (.not inner :: as) = true) ∧
      cur σ0 s' d = Bool.xor (cur σ0 s d) (evalXor ρ (.not inner :: as)) ∧
      (BExp.not inner :: as ≠ [] → TgtL s0 s' d) := by
  obtain ⟨d', s1, h1, h2⟩ := run_bind_ok.mp h
  obtain ⟨gi1, fr1, _, hv1⟩ := iha (some d) none h1 gi (by intro d0 h0; cases h0; exact pd)
    (by intro hs; rw [hns] at hs; cases hs) (by intro y hy; cases hy)
  obtain ⟨e', hval, htg⟩ := hv1 d rfl
  subst e'
  dsimp only at h2
  rcases run_ite_ok.mp h2 with ⟨hc, _⟩ | ⟨_, k2⟩
  · simp at hc
  · obtain ⟨u, s2, hx, h3⟩ := run_bind_ok.mp k2
    have pd1 := fr1.priv d' pd (fun hh => hh)
    obtain ⟨gi2, frx, pd2, tg2, ax, _⟩ := gateP (cs := []) (t := d') hx gi1 rfl rfl (fun _ hc => by cases hc) pd1
    obtain ⟨rfl, gi3, fr3, hv3, _⟩ := ihs d' h3 gi2 pd2
    refine ⟨rfl, gi3, ((fr1.trans frx).trans fr3).mono ?_ ?_ ?_ (fun q h => by simpa [hasConstList, hasConst] using h), ?_, fun _ => fr3.tkeep _ tg2⟩
    · rintro x _ ((hh | hh) | hh)
      · cases hh; rfl
      · exact hh
      · exact hh
    · rintro x ((hh | hh) | hh) _ _ _
      · exact hh
      · exact hh.elim
      · exact hh
    · rintro x _ ((hh | hh) | hh)
      · exact hh
      · simp at hh
      · exact hh
    · rw [hv3, ax.cur_eq rfl σ0, hval]
      simp only [List.all_nil, Bool.xor_true, evalXor, BExp.eval]
      rw [bnot_xor, Bool.xor_assoc]

theorem xorG_cons {a : BExp} {as : List BExp}
    (hsym : ∀ n, a = .sym n → Kn n ∧ kval ρ n = ρ n) (hbad : xorArgBad a = false)
    (hwf : ∀ x y z, a ≠ .ite x y z ∧ a ≠ .imp x y ∧ a ≠ .not (.ite x y z) ∧ a ≠ .not (.imp x y))
    (iha : ExprG Kn ρ σ0 s0 a) (ihi : ExprG Kn ρ σ0 s0 (stripNot a)) (ihs : XorG Kn ρ σ0 s0 as) :
    XorG Kn ρ σ0 s0 (a :: as) := by
  intro d q s s' h gi pd
  cases a with
  | sym n =>
    obtain ⟨hk, hkv⟩ := hsym n rfl
    unfold compileXorArgs at h
    obtain ⟨q0, s1, hl, h1⟩ := run_bind_ok.mp h
    obtain ⟨rfl, hq0, _⟩ := lookup_ok hl gi.good
    rcases run_ite_ok.mp h1 with ⟨hc, _⟩ | ⟨_, k1⟩
    · have : q0 = d := by simpa using hc
      exact absurd hq0 (this ▸ pd.nn n hk)
    · obtain ⟨u, s2, hcx, h2⟩ := run_bind_ok.mp k1
      have hnav0 := gi.name_nav hk hq0
      obtain ⟨gi2, frc, pd2, tgc, ac, _⟩ := gateP (cs := [q0]) (t := d) hcx gi rfl rfl
        (by intro c hc; have : c = q0 := by simpa using hc
            rw [this]; exact hnav0) pd
      obtain ⟨rfl, gi3, fr3, hv3, _⟩ := ihs d h2 gi2 pd2
      refine ⟨rfl, gi3, (frc.trans fr3).mono ?_ ?_ ?_ (fun q h => by simpa [hasConstList, hasConst] using h), ?_, fun _ => fr3.tkeep _ tgc⟩
      · rintro x _ (hh | hh) <;> exact hh
      · rintro x (hh | hh) _ _ _
        · exact hh.elim
        · exact hh
      · rintro x hx (hh | hh)
        · have : x = q0 := by simpa using hh
          exact hx.nn n hk (this ▸ hq0)
        · exact hh
      · rw [hv3, ac.cur_eq rfl σ0]
        simp only [List.all_cons, List.all_nil, Bool.and_true, evalXor, BExp.eval]
        rw [(gi.names n q0 hk hq0).2.2, hkv, Bool.xor_assoc]
  | not inner =>
    cases inner with
    | sym n =>
      unfold compileXorArgs at h
      exact xorStep_g iha ihs rfl h gi pd
    | ff => simp [xorArgBad] at hbad
    | tt => simp [xorArgBad] at hbad
    | xor l => unfold compileXorArgs at h; exact xorNotStep_g ihi ihs rfl h gi pd
    | not l => unfold compileXorArgs at h; exact xorNotStep_g ihi ihs rfl h gi pd
    | and l => unfold compileXorArgs at h; exact xorNotStep_g ihi ihs rfl h gi pd
    | or l => unfold compileXorArgs at h; exact xorNotStep_g ihi ihs rfl h gi pd
    | ite x y z => exact absurd rfl (hwf x y z).2.2.1
    | imp x y => exact absurd rfl (hwf x y .tt).2.2.2
  | ff => simp [xorArgBad] at hbad
  | tt => simp [xorArgBad] at hbad
  | xor l => unfold compileXorArgs at h; exact xorStep_g iha ihs rfl h gi pd
  | and l => unfold compileXorArgs at h; exact xorStep_g iha ihs rfl h gi pd
  | or l => unfold compileXorArgs at h; exact xorStep_g iha ihs rfl h gi pd
  | ite x y z => exact absurd rfl (hwf x y z).1
  | imp x y => exact absurd rfl (hwf x y .tt).2.1

theorem exprG_xor {args : List BExp} (ih : XorG Kn ρ σ0 s0 args) (hne : args ≠ []) :
    ExprG Kn ρ σ0 s0 (.xor args) := by
  intro dest sym a s s' h gi hd _ _
  unfold compileExpr at h
  dsimp only at h
  obtain ⟨r0, s1, hget, h1⟩ := run_bind_ok.mp h
  cases r0 with
  | some q =>
    obtain ⟨rfl, hp⟩ := expqGet?_hit hget
    exact cacheHit_g h1 gi hd hp rfl
  | none =>
  obtain ⟨rfl, _⟩ := expqGet?_none hget
  dsimp only at h1
  cases dest with
  | some d =>
    simp only [Option.isNone_some, Bool.false_eq_true, ↓reduceIte] at h1
    obtain ⟨d0, s2, hp0, h2⟩ := run_bind_ok.mp h1
    obtain ⟨rfl, rfl⟩ := run_pure_ok.mp hp0
    obtain ⟨d', s3, hx, h3⟩ := run_bind_ok.mp h2
    obtain ⟨rfl, rfl⟩ := run_pure_ok.mp h3
    obtain ⟨rfl, gi', fr, hv, htg⟩ := ih d0 hx gi (hd d0 rfl)
    refine ⟨gi', fr.mono (fun _ _ hh => by rw [hh]) (fun _ hh _ _ _ => hh) (fun _ _ hh => hh)
        (fun q h => by simpa [hasConst] using h),
      fun hn => (by cases hn), fun d' hd' => ?_⟩
    cases hd'
    exact ⟨rfl, by rw [hv]; simp [BExp.eval], htg hne⟩
  | none =>
    simp only [Option.isNone_none, ↓reduceIte] at h1
    obtain ⟨d, s2, hf, h2⟩ := run_bind_ok.mp h1
    obtain ⟨gi2, frf, hcf, hava, pd2, hanca, hnk, hmk2, hex2⟩ := getFreeAncilla_gi hf gi
    obtain ⟨d', s3, hx, h3⟩ := run_bind_ok.mp h2
    obtain ⟨u, s4, hset, h4⟩ := run_bind_ok.mp h3
    obtain ⟨rfl, rfl⟩ := run_pure_ok.mp h4
    obtain ⟨rfl, gi3, fr3, hv, htg⟩ := ih d hx gi2 pd2
    have pd3 : PrivD Kn s0 s3 a := fr3.priv a pd2 (fun hh => hh)
    have hval3 : cur σ0 s3 a = (BExp.xor args).eval ρ := by
      rw [hv, hcf, gi.zero a hava]; simp [BExp.eval]
    obtain ⟨gi4, fr4, hc4, hqc4, _⟩ := expqSet_gi hset (gi3.monoH (fun _ hh => hh.elim)) pd3.nav hval3
      (fun _ _ => htg hne)
    refine ⟨gi4, ((frf.trans fr3).trans fr4).mono ?_ ?_ ?_ (fun q h => by simpa [hasConst] using h),
      fun _ => ⟨fun h' => pd3.nav (fr4.avail a h'),
      by rw [hc4]; exact hval3, fun _ _ => fr4.tkeep _ (htg hne),
      fun _ => ⟨Unread.congr (by rw [hqc4]) pd3.unread, by rw [hqc4]; exact pd3.nm⟩, fun _ _ => hava,
      fun x hx' e' => hx'.nav (e' ▸ hava), fun hl => (by cases hl)⟩, fun d' hd' => (by cases hd')⟩
    · rintro x hx' ((hh | hh) | hh)
      · exact hh.elim
      · exact absurd (hh ▸ hava) hx'
      · exact hh.elim
    · rintro x ((hh | hh) | hh) _ _ _
      · exact hh
      · exact hh
      · exact hh.elim
    · rintro x hx' ((hh | hh) | hh)
      · exact hh
      · exact hh
      · exact hx'.nav (hh ▸ hava)

/-! ### the induction over the expression class -/

theorem wfExpG_strip {scope : List String} {a : BExp} (h : wfExpG scope a = true) :
    wfExpG scope (stripNot a) = true := by
  cases a <;> first | exact h | (simp only [stripNot]; simpa [wfExpG] using h)

/-- what the induction needs about the known names: the names of the scope and the two constants are known, and
a name of the scope is not `TRUE` / `FALSE` -/
structure KnOK (Kn : String → Prop) (ρ : Env) (scope : List String) : Prop where
  sc : ∀ n ∈ scope, Kn n ∧ kval ρ n = ρ n
  tt : Kn "TRUE"
  ff : Kn "FALSE"

/-- `xorG_cons` with its side conditions read off the class -/
theorem xorG_cons' {scope : List String} (hk : KnOK Kn ρ scope) {a : BExp} {as : List BExp}
    (hwf : wfExpG scope a = true) (hbad : xorArgBad a = false)
    (iha : ExprG Kn ρ σ0 s0 a) (ihi : ExprG Kn ρ σ0 s0 (stripNot a)) (ihs : XorG Kn ρ σ0 s0 as) :
    XorG Kn ρ σ0 s0 (a :: as) := by
  refine xorG_cons ?_ hbad ?_ iha ihi ihs
  · rintro n rfl
    exact hk.sc n (by simpa [wfExpG] using hwf)
  · intro x y z
    refine ⟨?_, ?_, ?_, ?_⟩ <;> (rintro rfl; simp [wfExpG] at hwf)

theorem wfG_cons {scope : List String} {a : BExp} {as : List BExp} (h : wfExpListG scope (a :: as) = true) :
    wfExpG scope a = true ∧ wfExpListG scope as = true := by
  simpa [wfExpListG] using h

mutual
theorem exprG {scope : List String} (hk : KnOK Kn ρ scope) :
    ∀ e : BExp, wfExpG scope e = true → ExprG Kn ρ σ0 s0 e
  | .sym n => fun hwf =>
    exprG_sym n (hk.sc n (by simpa [wfExpG] using hwf)).1 (hk.sc n (by simpa [wfExpG] using hwf)).2
  | .tt => fun _ => exprG_tt hk.tt
  | .ff => fun _ => exprG_ff hk.ff
  | .not a => fun hwf => exprG_not (exprG hk a (by simpa [wfExpG] using hwf))
  | .and l => fun hwf => exprG_and (argsG hk l (by simpa [wfExpG] using hwf))
  | .or l => fun hwf =>
    have h' : wfExpListG scope l = true ∧ l ≠ [] := by
      simpa [wfExpG] using hwf
    exprG_or (argsG hk l h'.1) h'.2
  | .xor l => fun hwf =>
    have h' : (wfExpListG scope l = true ∧ ∀ a ∈ l, xorArgBad a = false) ∧ l ≠ [] := by
      simpa [wfExpG] using hwf
    exprG_xor (xorG hk l h'.1.1 h'.1.2) h'.2
  | .ite _ _ _ => fun hwf => by simp [wfExpG] at hwf
  | .imp _ _ => fun hwf => by simp [wfExpG] at hwf
theorem argsG {scope : List String} (hk : KnOK Kn ρ scope) :
    ∀ as : List BExp, wfExpListG scope as = true → ArgsG Kn ρ σ0 s0 as
  | [] => fun _ => argsG_nil
  | a :: as => fun hwf => argsG_cons (exprG hk a (wfG_cons hwf).1) (argsG hk as (wfG_cons hwf).2)
theorem xorG {scope : List String} (hk : KnOK Kn ρ scope) :
    ∀ as : List BExp, wfExpListG scope as = true → (∀ a ∈ as, xorArgBad a = false) → XorG Kn ρ σ0 s0 as
  | [] => fun _ _ => xorG_nil
  | .not i :: as => fun hwf hb =>
    xorG_cons' hk (wfG_cons hwf).1 (hb _ List.mem_cons_self) (exprG hk (.not i) (wfG_cons hwf).1)
      (exprG hk i (wfExpG_strip (wfG_cons hwf).1))
      (xorG hk as (wfG_cons hwf).2 (fun x hx => hb x (List.mem_cons_of_mem _ hx)))
  | .sym n :: as => fun hwf hb =>
    xorG_cons' hk (wfG_cons hwf).1 (hb _ List.mem_cons_self) (exprG hk (.sym n) (wfG_cons hwf).1)
      (exprG hk (.sym n) (wfG_cons hwf).1)
      (xorG hk as (wfG_cons hwf).2 (fun x hx => hb x (List.mem_cons_of_mem _ hx)))
  | .xor l :: as => fun hwf hb =>
    xorG_cons' hk (wfG_cons hwf).1 (hb _ List.mem_cons_self) (exprG hk (.xor l) (wfG_cons hwf).1)
      (exprG hk (.xor l) (wfG_cons hwf).1)
      (xorG hk as (wfG_cons hwf).2 (fun x hx => hb x (List.mem_cons_of_mem _ hx)))
  | .and l :: as => fun hwf hb =>
    xorG_cons' hk (wfG_cons hwf).1 (hb _ List.mem_cons_self) (exprG hk (.and l) (wfG_cons hwf).1)
      (exprG hk (.and l) (wfG_cons hwf).1)
      (xorG hk as (wfG_cons hwf).2 (fun x hx => hb x (List.mem_cons_of_mem _ hx)))
  | .or l :: as => fun hwf hb =>
    xorG_cons' hk (wfG_cons hwf).1 (hb _ List.mem_cons_self) (exprG hk (.or l) (wfG_cons hwf).1)
      (exprG hk (.or l) (wfG_cons hwf).1)
      (xorG hk as (wfG_cons hwf).2 (fun x hx => hb x (List.mem_cons_of_mem _ hx)))
  | .ff :: as => fun _ hb => by have := hb .ff List.mem_cons_self; simp [xorArgBad] at this
  | .tt :: as => fun _ hb => by have := hb .tt List.mem_cons_self; simp [xorArgBad] at this
  | .ite _ _ _ :: as => fun hwf _ => by have := (wfG_cons hwf).1; simp [wfExpG] at this
  | .imp _ _ :: as => fun hwf _ => by have := (wfG_cons hwf).1; simp [wfExpG] at this
end

end QV.Compiler
