import QV.Model.Decompiler
import Std.Data.String.ToNat
/-!
# Lemmas about the decompiler model (C11)

* the class tests on the generated tables (`isZB_eq`, `isNopClass_eq`);
* the expression dictionary (`Dict.get_touch`, `Dict.get_set`, …);
* soundness of one symbolic-execution step and of a whole section (`runSection_sound`);
* the structure of `decompile`'s output (`Decomp`, `go_decomp`) and its index form.
-/
namespace QV.Decompiler
open QV

/-! ## class tests, on the tables regenerated from `decompiler.py` / `gates.py` -/

theorem isZB_eq (q : Quirks) (c : GClass) : isZB q c =
    (match c with
     | .I | .X | .CX | .CCX | .MCX _ => true
     | .MCtrl g _ => !q.mctrlXSplits && g == "X"
     | _ => false) := by
  have h : zbClassName (pyClass c) = (match c with
     | .I | .X | .CX | .CCX | .MCX _ => true
     | _ => false) := by
    cases c <;> simp only [pyClass] <;> decide
  unfold isZB; rw [h]
  cases c <;> simp

theorem isNopClass_eq (c : GClass) : isNopClass c = c.isNop := by
  cases c <;> simp only [isNopClass, pyClass, GClass.isNop] <;> decide

/-! ## qubit names and the environment of a basis state -/

theorem qname_inj {i j : Nat} (h : qname i = qname j) : i = j := by
  unfold qname at h
  have h2 : (toString i : String) = toString j := by
    have := congrArg String.toList h
    simp only [String.toList_append] at this
    exact String.toList_inj.mp (List.append_cancel_left this)
  exact Nat.repr_injective h2

/-- the assignment "symbol `q{i}` ↦ bit `i` of the basis state" -/
def stateEnv (n : Nat) (s : BState) : Env := fun name =>
  match (List.range n).find? (fun i => qname i == name) with
  | some i => s.getD i false
  | none => false

theorem find_unique {l : List Nat} {p : Nat → Bool} {i : Nat} (hi : i ∈ l) (hp : p i = true)
    (hu : ∀ j ∈ l, p j = true → j = i) : l.find? p = some i := by
  induction l with
  | nil => cases hi
  | cons a l ih =>
    by_cases ha : p a = true
    · have := hu a (by simp) ha
      subst this
      simp [List.find?, hp]
    · have hne : a ≠ i := by intro h; subst h; exact ha hp
      have hi' : i ∈ l := by
        cases hi with
        | head => exact absurd rfl hne
        | tail _ h => exact h
      simp only [List.find?, Bool.not_eq_true] at ha ⊢
      rw [ha]
      exact ih hi' (fun j hj => hu j (List.mem_cons_of_mem _ hj))

theorem stateEnv_qname {n : Nat} (s : BState) {i : Nat} (hi : i < n) :
    stateEnv n s (qname i) = s.getD i false := by
  unfold stateEnv
  rw [find_unique (i := i) (List.mem_range.mpr hi) (by simp)
    (fun j _ hj => qname_inj (by simpa using hj))]

/-! ## the expression dictionary -/

theorem Dict.get_touch (d : Dict) (k k' : String) : (d.touch k).get k' = d.get k' := by
  induction d with
  | nil =>
    simp only [Dict.touch, Dict.get]
    split
    · next h => rw [h]
    · rfl
  | cons p d ih =>
    obtain ⟨a, e⟩ := p
    simp only [Dict.touch]
    split <;> simp [Dict.get, ih]

theorem Dict.get_foldl_touch (names : List String) (d : Dict) (k' : String) :
    (names.foldl Dict.touch d).get k' = d.get k' := by
  induction names generalizing d with
  | nil => rfl
  | cons a l ih => simp [List.foldl, ih, Dict.get_touch]

theorem Dict.get_set (d : Dict) (k : String) (v : BExp) (k' : String) :
    (d.set k v).get k' = if k = k' then v else d.get k' := by
  induction d with
  | nil => simp [Dict.set, Dict.get]
  | cons p d ih =>
    obtain ⟨a, e⟩ := p
    simp only [Dict.set]
    by_cases h : a = k
    · subst h; simp only [if_true, Dict.get]; by_cases h2 : a = k' <;> simp [h2]
    · simp only [h, if_false, Dict.get, ih]
      by_cases h2 : a = k'
      · subst h2; simp [Ne.symm h]
      · simp [h2]

theorem beq_sym_eval {e : BExp} {k : String} (h : (e == BExp.sym k) = true) (ρ : Env) :
    e.eval ρ = ρ k := by
  cases e <;> simp_all [BEq.beq, BExp.beq, BExp.eval]

def Dict.keys (d : Dict) : List String := d.map (·.1)

theorem Dict.get_of_not_mem (d : Dict) (k : String) (h : k ∉ d.keys) : d.get k = .sym k := by
  induction d with
  | nil => rfl
  | cons p d ih =>
    obtain ⟨a, e⟩ := p
    simp only [Dict.keys, List.map_cons, List.mem_cons, not_or] at h
    simp only [Dict.get, Ne.symm h.1, if_false]
    exact ih h.2

theorem Dict.get_of_mem (d : Dict) (hd : d.keys.Nodup) {k : String} {e : BExp} (h : (k, e) ∈ d) :
    d.get k = e := by
  induction d with
  | nil => cases h
  | cons p d ih =>
    obtain ⟨a, e'⟩ := p
    simp only [Dict.keys, List.map_cons, List.nodup_cons] at hd
    cases h with
    | head => simp [Dict.get]
    | tail _ h =>
      have : a ≠ k := by
        intro hak; subst hak
        exact hd.1 (List.mem_map.mpr ⟨(a, e), h, rfl⟩)
      simp only [Dict.get, this, if_false]
      exact ih hd.2 h

theorem Dict.keys_touch (d : Dict) (k : String) :
    (d.touch k).keys = if k ∈ d.keys then d.keys else d.keys ++ [k] := by
  induction d with
  | nil => simp [Dict.touch, Dict.keys]
  | cons p d ih =>
    obtain ⟨a, e⟩ := p
    simp only [Dict.touch]
    by_cases h : a = k
    · subst h; simp [Dict.keys]
    · simp only [h, if_false]
      simp only [Dict.keys, List.map_cons, List.mem_cons] at ih ⊢
      rw [ih]
      have : ¬ k = a := fun h' => h h'.symm
      simp only [this, false_or]
      split <;> simp_all

theorem Dict.keys_set (d : Dict) (k : String) (v : BExp) :
    (d.set k v).keys = if k ∈ d.keys then d.keys else d.keys ++ [k] := by
  induction d with
  | nil => simp [Dict.set, Dict.keys]
  | cons p d ih =>
    obtain ⟨a, e⟩ := p
    simp only [Dict.set]
    by_cases h : a = k
    · subst h; simp [Dict.keys]
    · simp only [h, if_false]
      simp only [Dict.keys, List.map_cons, List.mem_cons] at ih ⊢
      rw [ih]
      have : ¬ k = a := fun h' => h h'.symm
      simp only [this, false_or]
      split <;> simp_all

theorem nodup_snoc_if {l : List String} {k : String} (h : l.Nodup) :
    (if k ∈ l then l else l ++ [k]).Nodup := by
  split
  · exact h
  · next hk =>
    rw [List.nodup_append]
    refine ⟨h, by simp, ?_⟩
    intro a ha b hb
    simp only [List.mem_singleton] at hb
    subst hb
    intro hab; subst hab; exact hk ha

theorem keys_dropIdentities_sub (d : Dict) : ∀ k, k ∈ (dropIdentities d).keys → k ∈ d.keys := by
  intro k hk
  simp only [Dict.keys, dropIdentities, List.mem_map, List.mem_filter] at hk ⊢
  obtain ⟨p, ⟨hp, _⟩, rfl⟩ := hk
  exact ⟨p, hp, rfl⟩

theorem nodup_dropIdentities (d : Dict) (h : d.keys.Nodup) : (dropIdentities d).keys.Nodup := by
  unfold Dict.keys dropIdentities at *
  exact (List.filter_sublist.map _).nodup h

theorem Dict.get_dropIdentities_eval (d : Dict) (hd : d.keys.Nodup) (k : String) (ρ : Env) :
    ((dropIdentities d).get k).eval ρ = (d.get k).eval ρ := by
  induction d with
  | nil => rfl
  | cons p d ih =>
    obtain ⟨a, e⟩ := p
    have hd' : (Dict.keys d).Nodup := by
      simp only [Dict.keys, List.map_cons, List.nodup_cons] at hd; exact hd.2
    have ha : a ∉ Dict.keys d := by
      simp only [Dict.keys, List.map_cons, List.nodup_cons] at hd; exact hd.1
    have ih := ih hd'
    have hcons : dropIdentities ((a, e) :: d) =
        if (e == BExp.sym a) then dropIdentities d else (a, e) :: dropIdentities d := by
      unfold dropIdentities
      simp only [List.filter]
      cases (e == BExp.sym a) <;> simp
    rw [hcons]
    cases hb : (e == BExp.sym a) with
    | true =>
      simp only [if_true, Dict.get]
      by_cases h : a = k
      · subst h
        have : a ∉ Dict.keys (dropIdentities d) := fun hm => ha (keys_dropIdentities_sub d a hm)
        rw [Dict.get_of_not_mem _ _ this]
        simp [beq_sym_eval hb, BExp.eval]
      · simp only [h, if_false]; exact ih
    | false =>
      simp only [Bool.false_eq_true, if_false, Dict.get]
      split
      · rfl
      · exact ih

/-! ## one step of the symbolic execution -/

theorem evalAnd_eq_all (ρ : Env) (l : List BExp) : evalAnd ρ l = l.all (fun e => e.eval ρ) := by
  induction l with
  | nil => rfl
  | cons a l ih => simp [evalAnd, ih]

theorem mcxExp_eval {K : Kernel} (hK : K.Sound) (cls : GClass) (ce : List BExp) (te : BExp)
    (ρ : Env) (hx : cls = .X → ce = []) :
    (mcxExp K cls ce te).eval ρ = Bool.xor (ce.all (fun e => e.eval ρ)) (te.eval ρ) := by
  unfold mcxExp
  split
  · rw [hx rfl, hK.not_eval]; simp
  · rw [hK.xor_eval]; simp [evalXor]
  · rw [hK.xor_eval]; simp [evalXor, hK.and_eval, evalAnd]
  · rw [hK.xor_eval]; simp [evalXor, hK.and_eval, evalAnd_eq_all]

/-- the dictionary describes the state: every qubit's entry (the symbol itself when absent)
evaluates, on the section-entry state, to the qubit's current value -/
def Inv (n : Nat) (ρ : Env) (d : Dict) (s : BState) : Prop :=
  s.length = n ∧ ∀ i, i < n → (d.get (qname i)).eval ρ = s.getD i false

theorem getD_flip (s : BState) (t i : Nat) :
    (s.flip t).getD i false = if t = i ∧ i < s.length then !(s.getD i false) else s.getD i false := by
  unfold BState.flip
  simp only [List.getD_eq_getElem?_getD, List.getElem?_modify]
  by_cases h : t = i
  · subst h
    by_cases h2 : t < s.length
    · simp [h2]
    · simp [h2, List.getElem?_eq_none (Nat.le_of_not_lt h2)]
  · simp [h]

theorem length_flip (s : BState) (t : Nat) : (s.flip t).length = s.length := by
  simp [BState.flip]

/-- the classical action of one gate of a section -/
def stepState (g : AGate) (s : BState) : BState :=
  if g.cls.isMCXLike then g.applyClassical s else s

theorem upd_sound {K : Kernel} (hK : K.Sound) {n : Nat} {ρ : Env} {d : Dict} {s : BState}
    (g : AGate) (hw : ∀ i ∈ g.wires, i < n) (hx : g.cls = .X → g.wires.dropLast = [])
    (hinv : Inv n ρ d s) :
    ∀ d', (match (g.wires.map qname).getLast? with
      | none => (Except.ok d : Except String Dict)
      | some t => .ok (d.set t (mcxExp K g.cls ((g.wires.map qname).dropLast.map d.get) (d.get t)))) = .ok d' →
      Inv n ρ d' (g.applyClassical s) := by
  intro d' h
  obtain ⟨hlen, hget⟩ := hinv
  unfold AGate.applyClassical
  rw [List.getLast?_map] at h
  cases hl : g.wires.getLast? with
  | none =>
    rw [hl] at h; simp only [Option.map_none] at h
    cases h; simp only []; exact ⟨hlen, hget⟩
  | some t =>
    rw [hl] at h; simp only [Option.map_some] at h
    cases h
    simp only []
    have ht : t < n := hw t (List.mem_of_getLast? hl)
    have hall : (((g.wires.map qname).dropLast.map d.get).all (fun e => e.eval ρ)) =
        g.wires.dropLast.all (fun c => s.getD c false) := by
      rw [← List.map_dropLast, List.map_map, List.all_map]
      rw [Bool.eq_iff_iff]
      simp only [List.all_eq_true, Function.comp]
      constructor <;> intro h c hc
      · rw [← hget c (hw c (List.dropLast_subset _ hc))]; exact h c hc
      · rw [hget c (hw c (List.dropLast_subset _ hc))]; exact h c hc
    have hx' : g.cls = .X → ((g.wires.map qname).dropLast.map d.get) = [] := by
      intro h; rw [← List.map_dropLast, hx h]; rfl
    split
    · next hc =>
      refine ⟨by rw [length_flip]; exact hlen, ?_⟩
      intro i hi
      rw [Dict.get_set, getD_flip]
      by_cases hti : t = i
      · subst hti
        simp only [if_true, true_and, hlen, ht]
        rw [mcxExp_eval hK _ _ _ _ hx', hall, hc, hget t ht]; simp
      · have : qname t ≠ qname i := fun h => hti (qname_inj h)
        simp only [this, if_false, hti, false_and]
        exact hget i hi
    · next hc =>
      refine ⟨hlen, ?_⟩
      intro i hi
      rw [Dict.get_set]
      by_cases hti : t = i
      · subst hti
        simp only [if_true]
        rw [mcxExp_eval hK _ _ _ _ hx', hall]
        simp only [Bool.not_eq_true] at hc
        rw [hc, hget t ht]; simp
      · have : qname t ≠ qname i := fun h => hti (qname_inj h)
        simp only [this, if_false]
        exact hget i hi

theorem gateStep_sound {K : Kernel} (hK : K.Sound) (q : Quirks) {n : Nat} {ρ : Env}
    {d d' : Dict} {s : BState} (g : AGate) (h : gateStep q K n d g = .ok d') (hinv : Inv n ρ d s) :
    Inv n ρ d' (stepState g s) := by
  unfold gateStep at h
  split at h
  · cases h
  · next hfind =>
    have hw : ∀ i ∈ g.wires, i < n := by
      intro i hi
      have := List.find?_eq_none.mp hfind i hi
      simpa using this
    split at h
    · cases h
    · next har =>
      simp only [bne_iff_ne, ne_eq, Decidable.not_not] at har
      have hinv' : Inv n ρ ((g.wires.map qname).foldl Dict.touch d) s :=
        ⟨hinv.1, fun i hi => by rw [Dict.get_foldl_touch]; exact hinv.2 i hi⟩
      have hx : g.cls = .X → g.wires.dropLast = [] := by
        intro hc
        rw [hc] at har
        simp only [GClass.nQubits] at har
        match hgw : g.wires, har with
        | [a], _ => rfl
      unfold stepState
      split at h
      · next hc => rw [hc]; exact upd_sound hK g hw hx hinv' d' h
      · next hc => rw [hc]; exact upd_sound hK g hw hx hinv' d' h
      · next hc => rw [hc]; exact upd_sound hK g hw hx hinv' d' h
      · next hc => rw [hc]; exact upd_sound hK g hw hx hinv' d' h
      · next hc => rw [hc]; cases h; exact hinv'
      · next hc => rw [hc]; cases h; exact hinv'
      · next hc =>
        rw [hc]
        split at h
        · cases h
        · cases h; exact hinv'
      · next inner k hc =>
        rw [hc]
        split at h
        · next hi =>
          simp only [Bool.and_eq_true, beq_iff_eq] at hi
          have : (GClass.MCtrl inner k).isMCXLike = true := by simp [GClass.isMCXLike, hi.1]
          rw [this]
          exact upd_sound hK g hw (by intro h'; rw [hc] at h'; cases h') hinv' d' h
        · cases h
      · cases h

theorem runSection_sound {K : Kernel} (hK : K.Sound) (q : Quirks) {n : Nat} {ρ : Env}
    (gs : List AGate) {d d' : Dict} {s : BState}
    (h : runSection q K n d gs = .ok d') (hinv : Inv n ρ d s) :
    Inv n ρ d' (runClassical gs s) := by
  induction gs generalizing d s with
  | nil => simp only [runSection] at h; cases h; exact hinv
  | cons g gs ih =>
    simp only [runSection] at h
    split at h
    · next d1 h1 =>
      have := gateStep_sound hK q g h1 hinv
      have := ih h this
      simpa [runClassical, stepState] using this
    · cases h

/-! ## keys of the dictionary: distinct, and names of qubits of the circuit -/

def KeysOK (n : Nat) (d : Dict) : Prop :=
  (Dict.keys d).Nodup ∧ ∀ k ∈ Dict.keys d, ∃ i, i < n ∧ k = qname i

theorem keysOK_snoc_if {n : Nat} {d : Dict} {l : List String} {i : Nat} (hi : i < n)
    (hl : l = if qname i ∈ Dict.keys d then Dict.keys d else Dict.keys d ++ [qname i])
    (h : KeysOK n d) : l.Nodup ∧ ∀ k ∈ l, ∃ i, i < n ∧ k = qname i := by
  subst hl
  refine ⟨nodup_snoc_if h.1, ?_⟩
  intro k hk
  split at hk
  · exact h.2 k hk
  · rcases List.mem_append.mp hk with hk | hk
    · exact h.2 k hk
    · exact ⟨i, hi, by simpa using hk⟩

theorem keysOK_touch {n : Nat} {d : Dict} {i : Nat} (hi : i < n) (h : KeysOK n d) :
    KeysOK n (d.touch (qname i)) :=
  keysOK_snoc_if hi (Dict.keys_touch d (qname i)) h

theorem keysOK_set {n : Nat} {d : Dict} {i : Nat} (v : BExp) (hi : i < n) (h : KeysOK n d) :
    KeysOK n (d.set (qname i) v) :=
  keysOK_snoc_if hi (Dict.keys_set d (qname i) v) h

theorem keysOK_foldl_touch {n : Nat} (w : List Nat) (hw : ∀ i ∈ w, i < n) {d : Dict}
    (h : KeysOK n d) : KeysOK n ((w.map qname).foldl Dict.touch d) := by
  induction w generalizing d with
  | nil => exact h
  | cons a w ih =>
    simp only [List.map_cons, List.foldl]
    exact ih (fun i hi => hw i (List.mem_cons_of_mem _ hi)) (keysOK_touch (hw a (by simp)) h)

theorem upd_keys {K : Kernel} {n : Nat} {d : Dict} (g : AGate) (hw : ∀ i ∈ g.wires, i < n)
    (hk : KeysOK n d) :
    ∀ d', (match (g.wires.map qname).getLast? with
      | none => (Except.ok d : Except String Dict)
      | some t => .ok (d.set t (mcxExp K g.cls ((g.wires.map qname).dropLast.map d.get) (d.get t)))) = .ok d' →
      KeysOK n d' := by
  intro d' h
  rw [List.getLast?_map] at h
  cases hl : g.wires.getLast? with
  | none => rw [hl] at h; simp only [Option.map_none] at h; cases h; exact hk
  | some t =>
    rw [hl] at h; simp only [Option.map_some] at h; cases h
    exact keysOK_set _ (hw t (List.mem_of_getLast? hl)) hk

theorem gateStep_keys {K : Kernel} (q : Quirks) {n : Nat} {d d' : Dict} (g : AGate)
    (h : gateStep q K n d g = .ok d') (hk : KeysOK n d) : KeysOK n d' := by
  unfold gateStep at h
  split at h
  · cases h
  · next hfind =>
    have hw : ∀ i ∈ g.wires, i < n := by
      intro i hi
      have := List.find?_eq_none.mp hfind i hi
      simpa using this
    have hk' := keysOK_foldl_touch g.wires hw hk
    split at h
    · cases h
    · split at h
      · exact upd_keys g hw hk' d' h
      · exact upd_keys g hw hk' d' h
      · exact upd_keys g hw hk' d' h
      · exact upd_keys g hw hk' d' h
      · cases h; exact hk'
      · cases h; exact hk'
      · split at h
        · cases h
        · cases h; exact hk'
      · split at h
        · exact upd_keys g hw hk' d' h
        · cases h
      · cases h

theorem runSection_keys {K : Kernel} (q : Quirks) {n : Nat} (gs : List AGate) {d d' : Dict}
    (h : runSection q K n d gs = .ok d') (hk : KeysOK n d) : KeysOK n d' := by
  induction gs generalizing d with
  | nil => simp only [runSection] at h; cases h; exact hk
  | cons g gs ih =>
    simp only [runSection] at h
    split at h
    · next d1 h1 => exact ih h (gateStep_keys q g h1 hk)
    · cases h

/-! ## a whole section -/

theorem inv_empty (n : Nat) (s : BState) (hs : s.length = n) : Inv n (stateEnv n s) [] s :=
  ⟨hs, fun i hi => by simp [Dict.get, BExp.eval, stateEnv_qname s hi]⟩

theorem keysOK_empty (n : Nat) : KeysOK n [] := ⟨by simp [Dict.keys], by simp [Dict.keys]⟩

/-- every qubit: its reported expression, or the symbol itself when none is reported,
evaluates on the entry state to the qubit's value after the section's gates -/
theorem expsOfSection_sound {K : Kernel} (hK : K.Sound) (q : Quirks) {n : Nat} {sec : List AGate}
    {exps : Dict} (h : expsOfSection q K n sec = .ok exps) (s : BState) (hs : s.length = n)
    (i : Nat) (hi : i < n) :
    (expOf exps i).eval (stateEnv n s) = (runClassical sec s).getD i false := by
  unfold expsOfSection at h
  split at h
  · next d hd =>
    cases h
    have hk := runSection_keys q sec hd (keysOK_empty n)
    have hinv := runSection_sound hK q sec hd (inv_empty n s hs)
    unfold expOf
    rw [Dict.get_dropIdentities_eval d hk.1]
    exact hinv.2 i hi
  · cases h

/-- the reported entries: distinct keys, each the name of a qubit of the circuit, each
expression evaluating to that qubit's final value -/
theorem expsOfSection_entries {K : Kernel} (hK : K.Sound) (q : Quirks) {n : Nat} {sec : List AGate}
    {exps : Dict} (h : expsOfSection q K n sec = .ok exps) :
    (Dict.keys exps).Nodup ∧
    ∀ k e, (k, e) ∈ exps → ∃ i, i < n ∧ k = qname i ∧
      ∀ s : BState, s.length = n → e.eval (stateEnv n s) = (runClassical sec s).getD i false := by
  have h0 := h
  unfold expsOfSection at h
  split at h
  · next d hd =>
    cases h
    have hk := runSection_keys q sec hd (keysOK_empty n)
    have hnd := nodup_dropIdentities d hk.1
    refine ⟨hnd, ?_⟩
    intro k e hmem
    have hkm : k ∈ Dict.keys d :=
      keys_dropIdentities_sub d k (List.mem_map.mpr ⟨(k, e), hmem, rfl⟩)
    obtain ⟨i, hi, rfl⟩ := hk.2 k hkm
    refine ⟨i, hi, rfl, ?_⟩
    intro s hs
    have := expsOfSection_sound hK q h0 s hs i hi
    unfold expOf at this
    rw [Dict.get_of_mem _ hnd hmem] at this
    exact this
  · cases h

/-- a qubit without a reported expression is unchanged by the section -/
theorem expsOfSection_unchanged {K : Kernel} (hK : K.Sound) (q : Quirks) {n : Nat}
    {sec : List AGate} {exps : Dict} (h : expsOfSection q K n sec = .ok exps) (s : BState)
    (hs : s.length = n) (i : Nat) (hi : i < n) (hno : qname i ∉ Dict.keys exps) :
    (runClassical sec s).getD i false = s.getD i false := by
  rw [← expsOfSection_sound hK q h s hs i hi]
  unfold expOf
  rw [Dict.get_of_not_mem _ _ hno]
  simp [BExp.eval, stateEnv_qname s hi]

theorem rawKernel_sound : rawKernel.Sound :=
  ⟨fun _ _ => rfl, fun _ _ => rfl, fun _ _ => rfl⟩

/-! ## the structure of `decompile`'s output -/

/-- classical for the decompiler (passes the `ZB_GATES` test) -/
def cl (q : Quirks) (g : AGate) : Bool := isZB q g.cls
/-- barrier / no-op -/
def np (g : AGate) : Bool := isNopClass g.cls

/-- a run as the decompiler sees it: starts with a classical gate, contains only classical gates
and nops (so it extends over the nops that follow its last classical gate) -/
def Run (q : Quirks) (R : List AGate) : Prop :=
  ∃ g R', R = g :: R' ∧ cl q g = true ∧ ∀ x ∈ R', cl q x = true ∨ np x = true

/-- the reported end of the range of a run at offset `o`: one trailing nop is cut off -/
def stopOf (o : Nat) (R : List AGate) : Nat :=
  if (R.getLast?.map np).getD false then o + R.length - 1 else o + R.length

structure SecOf (q : Quirks) (K : Kernel) (n : Nat) (s : Section) (o : Nat) (R : List AGate) : Prop where
  start_eq : s.start = o
  stop_eq : s.stop = stopOf o R
  gates_eq : s.gates = R.filter (cl q)
  exps_eq : expsOfSection q K n s.gates = .ok s.exps

/-- `Decomp a W secs`: the gate list `W` (whose first gate has index `a` in the circuit) is
`B₁ ++ R₁ ++ [sep₁] ++ B₂ ++ R₂ ++ [sep₂] ++ … ++ Bₖ ++ Rₖ (++ [sepₖ] ++ Bₖ₊₁)`, the `B`s without
classical gates, the `R`s runs, the `sep`s neither classical nor nops, and `secs` are the `k`
sections of the `k` runs, in order. -/
inductive Decomp (q : Quirks) (K : Kernel) (n : Nat) : Nat → List AGate → List Section → Prop
  | done (a : Nat) (B : List AGate) : (∀ g ∈ B, cl q g = false) → Decomp q K n a B []
  | last (a : Nat) (B R : List AGate) (s : Section) : (∀ g ∈ B, cl q g = false) → Run q R →
      SecOf q K n s (a + B.length) R → Decomp q K n a (B ++ R) [s]
  | cons (a : Nat) (B R : List AGate) (sep : AGate) (W : List AGate) (s : Section)
      (secs : List Section) : (∀ g ∈ B, cl q g = false) → Run q R → cl q sep = false →
      np sep = false → SecOf q K n s (a + B.length) R →
      Decomp q K n (a + B.length + R.length + 1) W secs →
      Decomp q K n a (B ++ R ++ sep :: W) (s :: secs)

theorem Decomp.skip {q : Quirks} {K : Kernel} {n a : Nat} {g : AGate} {W : List AGate}
    {secs : List Section} (hg : cl q g = false) (h : Decomp q K n (a + 1) W secs) :
    Decomp q K n a (g :: W) secs := by
  have hB : ∀ B : List AGate, (∀ x ∈ B, cl q x = false) → ∀ x ∈ g :: B, cl q x = false := by
    intro B hB x hx
    cases hx with
    | head => exact hg
    | tail _ hx => exact hB x hx
  cases h
  · rename_i h1; exact Decomp.done a (g :: W) (hB W h1)
  · rename_i B R s h1 h2 h3
    have h3' : SecOf q K n s (a + (g :: B).length) R := by
      have : a + (g :: B).length = a + 1 + B.length := by simp; omega
      rw [this]; exact h3
    exact Decomp.last a (g :: B) R s (hB B h1) h2 h3'
  · rename_i B R sep W' s secs' h1 h2 h3 h4 h5 h6
    have e : a + (g :: B).length = a + 1 + B.length := by simp; omega
    have h5' : SecOf q K n s (a + (g :: B).length) R := by rw [e]; exact h5
    have h6' : Decomp q K n (a + (g :: B).length + R.length + 1) W' secs' := by rw [e]; exact h6
    exact Decomp.cons a (g :: B) R sep W' s secs' (hB B h1) h2 h3 h4 h5' h6'

/-- `current_section_start_index` while the gates `pend` (from index `a`) are pending -/
def startOf (a : Nat) : List AGate → Option Nat
  | [] => none
  | _ :: _ => some a

theorem Run.snoc {q : Quirks} {R : List AGate} {g : AGate} (h : Run q R)
    (hg : cl q g = true ∨ np g = true) : Run q (R ++ [g]) := by
  obtain ⟨g0, R', rfl, h0, hR⟩ := h
  refine ⟨g0, R' ++ [g], rfl, h0, ?_⟩
  intro x hx
  rcases List.mem_append.mp hx with hx | hx
  · exact hR x hx
  · simp only [List.mem_singleton] at hx; subst hx; exact hg

theorem Run.filter_ne_nil {q : Quirks} {R : List AGate} (h : Run q R) :
    (R.filter (cl q)).isEmpty = false := by
  obtain ⟨g0, R', rfl, h0, _⟩ := h
  simp [List.filter, h0]

theorem Run.ne_nil {q : Quirks} {R : List AGate} (h : Run q R) : ∃ g R', R = g :: R' := by
  obtain ⟨g0, R', rfl, _, _⟩ := h
  exact ⟨g0, R', rfl⟩

theorem flush_secOf {q : Quirks} {K : Kernel} {n a i : Nat} {pend : List AGate} {prev : Option AGate}
    {e : Dict} (hrun : Run q pend) (hprev : prev = pend.getLast?) (hi : i = a + pend.length)
    (he : expsOfSection q K n (pend.filter (cl q)) = .ok e) :
    SecOf q K n ⟨pend.filter (cl q), e, (startOf a pend).getD 0,
      if (prev.map (fun p => isNopClass p.cls)).getD false then i - 1 else i⟩ (a + ([] : List AGate).length) pend := by
  obtain ⟨g0, R', hR⟩ := hrun.ne_nil
  refine ⟨?_, ?_, rfl, he⟩
  · subst hR; simp [startOf]
  · subst hprev hi
    simp only [stopOf, List.length_nil, Nat.add_zero]
    rfl

theorem go_decomp (q : Quirks) (K : Kernel) (n : Nat) (rest : List AGate) :
    ∀ (a i : Nat) (pend : List AGate) (prev : Option AGate) (cur : List AGate) (start : Option Nat)
      (secs : List Section),
      (pend = [] ∨ (Run q pend ∧ prev = pend.getLast?)) →
      i = a + pend.length → cur = pend.filter (cl q) → start = startOf a pend →
      go q K n i prev cur start rest = .ok secs →
      Decomp q K n a (pend ++ rest) secs := by
  induction rest with
  | nil =>
    intro a i pend prev cur start secs hp hi hcur hstart h
    simp only [go] at h
    rcases hp with hp | ⟨hrun, hprev⟩
    · subst hp; subst hcur
      simp only [List.filter, List.isEmpty_nil, if_true] at h
      cases h
      exact Decomp.done a [] (by simp)
    · subst hcur hstart
      rw [hrun.filter_ne_nil] at h
      simp only [Bool.false_eq_true, if_false] at h
      split at h
      · next e he =>
        cases h
        have := Decomp.last a [] pend _ (by simp) hrun (flush_secOf hrun hprev hi he)
        simpa using this
      · cases h
  | cons g rest ih =>
    intro a i pend prev cur start secs hp hi hcur hstart h
    simp only [go] at h
    by_cases hz : isZB q g.cls = true
    · -- a classical gate joins the pending run
      simp only [hz, if_true] at h
      have hcl : cl q g = true := hz
      have h' := ih a (i + 1) (pend ++ [g]) (some g) (cur ++ [g]) (some (start.getD i)) secs
        (Or.inr ⟨by
          rcases hp with hp | ⟨hrun, _⟩
          · subst hp; exact ⟨g, [], rfl, hcl, by simp⟩
          · exact hrun.snoc (Or.inl hcl), by simp⟩)
        (by simp; omega) (by subst hcur; simp [List.filter_append, List.filter, hcl])
        (by
          rcases hp with hp | ⟨hrun, _⟩
          · subst hp; subst hstart; subst hi; simp [startOf]
          · obtain ⟨g0, R', hR⟩ := hrun.ne_nil
            subst hR; subst hstart; simp [startOf]) h
      simpa using h'
    · have hncl : cl q g = false := by simpa [cl] using hz
      simp only [hz, if_false] at h
      by_cases hn : isNopClass g.cls = true
      · simp only [hn, if_true] at h
        rcases hp with hp | ⟨hrun, hprev⟩
        · -- a nop outside a run is skipped
          subst hp; subst hcur; subst hstart
          have h' := ih (a + 1) (i + 1) [] (some g) [] none secs (Or.inl rfl)
            (by simp at hi ⊢; omega) (by simp) (by simp [startOf]) (by simpa [startOf] using h)
          exact Decomp.skip hncl (by simpa using h')
        · -- a nop inside a run stays inside
          have h' := ih a (i + 1) (pend ++ [g]) (some g) cur start secs
            (Or.inr ⟨hrun.snoc (Or.inr hn), by simp⟩) (by simp; omega)
            (by subst hcur; simp [List.filter_append, List.filter, hncl])
            (by
              obtain ⟨g0, R', hR⟩ := hrun.ne_nil
              subst hR; subst hstart; simp [startOf]) h
          simpa using h'
      · simp only [hn, if_false] at h
        rcases hp with hp | ⟨hrun, hprev⟩
        · -- a separator outside a run
          subst hp; subst hcur; subst hstart
          simp only [List.filter, List.isEmpty_nil, if_true] at h
          have h' := ih (a + 1) (i + 1) [] (some g) [] none secs (Or.inl rfl)
            (by simp at hi ⊢; omega) (by simp) (by simp [startOf]) (by simpa [startOf] using h)
          exact Decomp.skip hncl (by simpa using h')
        · -- a separator ends the pending run: flush
          subst hcur hstart
          rw [hrun.filter_ne_nil] at h
          simp only [Bool.false_eq_true, if_false] at h
          split at h
          · next e he =>
            split at h
            · next r hr =>
              cases h
              have h' := ih (i + 1) (i + 1) [] (some g) [] none r (Or.inl rfl) (by simp) (by simp)
                (by simp [startOf]) hr
              have hn' : np g = false := by simpa [np] using hn
              have := Decomp.cons a [] pend g rest _ r (by simp) hrun hncl hn'
                (flush_secOf hrun hprev hi he)
                (by simpa [hi] using h')
              simpa using this
            · cases h
          · cases h

/-- the structure theorem for `decompile` -/
theorem decompile_decomp (q : Quirks) (K : Kernel) (n : Nat) (gs : List AGate) (secs : List Section)
    (h : decompile q K n gs = .ok secs) : Decomp q K n 0 gs secs := by
  have := go_decomp q K n gs 0 0 [] none [] none secs (Or.inl rfl) (by simp) (by simp)
    (by simp [startOf]) h
  simpa using this

/-! ## index form of the structure theorem -/

theorem cl_np_disjoint {q : Quirks} {g : AGate} (h : cl q g = true) : np g = false := by
  unfold cl at h; unfold np
  rw [isZB_eq] at h; rw [isNopClass_eq]
  cases hc : g.cls <;> simp_all [GClass.isNop]

/-- index form of one section, relative to the window `W` whose first gate has index `a` -/
structure SecGood (q : Quirks) (a : Nat) (W : List AGate) (s : Section) : Prop where
  lo : a ≤ s.start
  lt : s.start < s.stop
  hi : s.stop ≤ a + W.length
  first : ∃ g, W[s.start - a]? = some g ∧ cl q g = true
  inside : ∀ k, s.start ≤ k → k < s.stop →
    ∃ g, W[k - a]? = some g ∧ (cl q g = true ∨ np g = true)
  gates_eq : s.gates = ((W.drop (s.start - a)).take (s.stop - s.start)).filter (cl q)

theorem SecGood.shift {q : Quirks} {a : Nat} {P W : List AGate} {s : Section}
    (h : SecGood q (a + P.length) W s) : SecGood q a (P ++ W) s := by
  obtain ⟨lo, lt, hi, first, inside, ge⟩ := h
  have e1 : ∀ k, a + P.length ≤ k → (P ++ W)[k - a]? = W[k - (a + P.length)]? := by
    intro k hk
    rw [List.getElem?_append_right (by omega)]
    congr 1; omega
  refine ⟨by omega, lt, by simp; omega, ?_, ?_, ?_⟩
  · rw [e1 _ lo]; exact first
  · intro k h1 h2; rw [e1 k (by omega)]; exact inside k h1 h2
  · have : s.start - a = P.length + (s.start - (a + P.length)) := by omega
    rw [this, List.drop_append, List.drop_of_length_le (by omega), Nat.add_sub_cancel_left,
      List.nil_append]; exact ge

theorem stopOf_bounds {q : Quirks} {o : Nat} {R : List AGate} (hR : Run q R) :
    o < stopOf o R ∧ stopOf o R ≤ o + R.length := by
  obtain ⟨g0, R', rfl, h0, _⟩ := hR
  unfold stopOf
  split
  · next hl =>
    cases R' with
    | nil => simp [cl_np_disjoint h0] at hl
    | cons b R'' => simp
  · simp

theorem filter_take_stop {q : Quirks} {o : Nat} {R T : List AGate} (hR : Run q R) :
    R.filter (cl q) = ((R ++ T).take (stopOf o R - o)).filter (cl q) := by
  obtain ⟨g0, R', hR', h0, _⟩ := hR
  unfold stopOf
  split
  · next hl =>
    have hne : R ≠ [] := by rw [hR']; simp
    have e : o + R.length - 1 - o = R.length - 1 := by omega
    rw [e, List.take_append_of_le_length (by omega), ← List.dropLast_eq_take]
    cases hlast : R.getLast? with
    | none => rw [List.getLast?_eq_none_iff] at hlast; exact absurd hlast hne
    | some x =>
      rw [hlast] at hl
      simp only [Option.map_some, Option.getD_some] at hl
      have hx : cl q x = false := by
        cases hc : cl q x with
        | false => rfl
        | true => rw [cl_np_disjoint hc] at hl; cases hl
      have hx' : R.getLast hne = x := by
        have := List.getLast?_eq_some_getLast hne
        rw [hlast] at this; exact (Option.some.inj this).symm
      have := List.dropLast_concat_getLast hne
      rw [hx'] at this
      conv => lhs; rw [← this]
      simp [List.filter_append, List.filter, hx]
  · have e : o + R.length - o = R.length := by omega
    rw [e, List.take_left']
    rfl

theorem SecGood.of_run {q : Quirks} {K : Kernel} {n o : Nat} {R T : List AGate} {s : Section}
    (hR : Run q R) (hs : SecOf q K n s o R) : SecGood q o (R ++ T) s := by
  have hb := stopOf_bounds (o := o) hR
  obtain ⟨g0, R', hR', h0, hall⟩ := id hR
  obtain ⟨hst, hsp, hg, _⟩ := hs
  refine ⟨by omega, by omega, by simp; omega, ?_, ?_, ?_⟩
  · rw [hst, hR']; exact ⟨g0, by simp, h0⟩
  · intro k h1 h2
    have hk : k - o < R.length := by omega
    rw [List.getElem?_append_left hk]
    refine ⟨R[k - o], by simp, ?_⟩
    have hall' : ∀ x ∈ R, cl q x = true ∨ np x = true := by
      intro x hx
      rw [hR'] at hx
      rcases List.mem_cons.mp hx with hm | hm
      · rw [hm]; exact Or.inl h0
      · exact hall _ hm
    exact hall' _ (List.getElem_mem _)
  · rw [hg, hst, hsp, Nat.sub_self, List.drop_zero]
    exact filter_take_stop hR

/-- index form of the structure theorem, part 1: every section -/
theorem Decomp.secGood {q : Quirks} {K : Kernel} {n a : Nat} {W : List AGate} {secs : List Section}
    (h : Decomp q K n a W secs) : ∀ s ∈ secs, SecGood q a W s := by
  induction h with
  | done => intro s hs; cases hs
  | last a B R s _ hR hs =>
    intro s' hs'
    simp only [List.mem_singleton] at hs'; subst hs'
    have := SecGood.of_run (T := []) hR hs
    simpa using this.shift
  | cons a B R sep W s secs _ hR _ _ hs _ ih =>
    intro s' hs'
    rcases List.mem_cons.mp hs' with hs' | hs'
    · subst hs'
      have := SecGood.of_run (T := sep :: W) hR hs
      simpa using this.shift
    · have h1 := ih s' hs'
      have e : a + B.length + R.length + 1 = a + (B ++ R ++ [sep]).length := by simp; omega
      rw [e] at h1
      simpa using h1.shift

theorem run_cl_lt_stop {q : Quirks} {o j : Nat} {R : List AGate} {g : AGate}
    (hj : R[j]? = some g) (hg : cl q g = true) : o + j < stopOf o R := by
  have hlt : j < R.length := by
    rcases Nat.lt_or_ge j R.length with h | h
    · exact h
    · rw [List.getElem?_eq_none h] at hj; cases hj
  unfold stopOf
  split
  · next hl =>
    have hne : R ≠ [] := by intro h; subst h; simp at hlt
    have hlast := List.getLast?_eq_some_getLast hne
    rw [hlast] at hl
    simp only [Option.map_some, Option.getD_some] at hl
    have : j ≠ R.length - 1 := by
      intro hj'
      have : R.getLast hne = g := by
        rw [List.getLast_eq_getElem]
        have := List.getElem?_eq_getElem hlt
        rw [hj] at this
        simp only [← hj']
        exact (Option.some.inj this).symm
      rw [this, cl_np_disjoint hg] at hl; cases hl
    omega
  · omega

/-- ranges are increasing and disjoint (even separated by at least one index) -/
theorem Decomp.ordered {q : Quirks} {K : Kernel} {n a : Nat} {W : List AGate} {secs : List Section}
    (h : Decomp q K n a W secs) : secs.Pairwise (fun x y => x.stop < y.start) := by
  induction h with
  | done => exact List.Pairwise.nil
  | last => exact List.pairwise_singleton _ _
  | cons a B R sep W s secs _ hR _ _ hs hd ih =>
    refine List.Pairwise.cons ?_ ih
    intro y hy
    have h1 := (hd.secGood y hy).lo
    have h2 := (stopOf_bounds (o := a + B.length) hR).2
    rw [← hs.stop_eq] at h2
    omega

/-- every classical gate lies in a reported range -/
theorem Decomp.covered {q : Quirks} {K : Kernel} {n a : Nat} {W : List AGate} {secs : List Section}
    (h : Decomp q K n a W secs) : ∀ k g, W[k]? = some g → cl q g = true →
      ∃ s ∈ secs, s.start ≤ a + k ∧ a + k < s.stop := by
  induction h with
  | done a B hB =>
    intro k g hk hg
    rw [hB g (List.mem_of_getElem? hk)] at hg; cases hg
  | last a B R s hB hR hs =>
    intro k g hk hg
    rcases Nat.lt_or_ge k B.length with hlt | hge
    · rw [List.getElem?_append_left hlt] at hk
      rw [hB g (List.mem_of_getElem? hk)] at hg; cases hg
    · rw [List.getElem?_append_right hge] at hk
      have := run_cl_lt_stop (o := a + B.length) hk hg
      refine ⟨s, by simp, by rw [hs.start_eq]; omega, by rw [hs.stop_eq]; omega⟩
  | cons a B R sep W s secs hB hR hsep _ hs hd ih =>
    intro k g hk hg
    rcases Nat.lt_or_ge k B.length with hlt | hge
    · rw [List.append_assoc, List.getElem?_append_left hlt] at hk
      rw [hB g (List.mem_of_getElem? hk)] at hg; cases hg
    · rw [List.append_assoc, List.getElem?_append_right hge] at hk
      rcases Nat.lt_or_ge (k - B.length) R.length with hlt2 | hge2
      · rw [List.getElem?_append_left hlt2] at hk
        have := run_cl_lt_stop (o := a + B.length) hk hg
        refine ⟨s, by simp, by rw [hs.start_eq]; omega, by rw [hs.stop_eq]; omega⟩
      · rw [List.getElem?_append_right hge2] at hk
        cases hj : k - B.length - R.length with
        | zero =>
          rw [hj] at hk; simp at hk; subst hk
          rw [hsep] at hg; cases hg
        | succ j =>
          rw [hj] at hk; simp at hk
          obtain ⟨s', hs', h1, h2⟩ := ih j g hk hg
          exact ⟨s', List.mem_cons_of_mem _ hs', by omega, by omega⟩

/-- maximality: between two reported ranges there is a gate that is neither classical nor a
no-op -/
theorem Decomp.separated {q : Quirks} {K : Kernel} {n a : Nat} {W : List AGate}
    {secs : List Section} (h : Decomp q K n a W secs) :
    secs.Pairwise (fun x y => ∃ k g, x.stop ≤ k ∧ k < y.start ∧ W[k - a]? = some g ∧
      cl q g = false ∧ np g = false) := by
  induction h with
  | done => exact List.Pairwise.nil
  | last => exact List.pairwise_singleton _ _
  | cons a B R sep W s secs _ hR hsep hnp hs hd ih =>
    refine List.Pairwise.cons ?_ ?_
    · intro y hy
      have h1 := (hd.secGood y hy).lo
      have h2 := (stopOf_bounds (o := a + B.length) hR).2
      rw [← hs.stop_eq] at h2
      refine ⟨a + B.length + R.length, sep, by omega, by omega, ?_, hsep, hnp⟩
      have : a + B.length + R.length - a = (B ++ R).length := by simp; omega
      rw [this, List.getElem?_append_right (Nat.le_refl _)]
      simp
    · refine ih.imp_of_mem ?_
      intro x y hx _ hxy
      obtain ⟨k, g, h1, h2, h3, h4, h5⟩ := hxy
      have hx1 := (hd.secGood x hx).lo
      have hx2 := (hd.secGood x hx).lt
      refine ⟨k, g, h1, h2, ?_, h4, h5⟩
      have e : B ++ R ++ sep :: W = (B ++ R ++ [sep]) ++ W := by simp
      rw [e, List.getElem?_append_right (by simp; omega)]
      rw [← h3]; congr 1; simp; omega

/-! ## off the listed defects the code as it is equals the repaired code -/

/-- the gate runs into a listed defect of the code as it is -/
def trig (q : Quirks) (g : AGate) : Bool :=
  (q.identityGateRaises && g.cls == .I) ||
    (q.mctrlXSplits && match g.cls with | .MCtrl inner _ => inner == "X" | _ => false)

theorem triggers_eq (q : Quirks) (gs : List AGate) : triggers q gs = gs.any (trig q) := rfl

theorem isZB_congr {q : Quirks} {g : AGate} (h : trig q g = false) :
    isZB q g.cls = isZB Quirks.none g.cls := by
  rw [isZB_eq, isZB_eq]
  unfold trig at h
  cases hc : g.cls <;> simp_all [Quirks.none]
  intro hx; simp_all

theorem gateStep_congr {q : Quirks} {K : Kernel} {n : Nat} {d : Dict} {g : AGate}
    (h : trig q g = false) : gateStep q K n d g = gateStep Quirks.none K n d g := by
  unfold trig at h
  unfold gateStep
  cases hc : g.cls <;> simp_all [Quirks.none]
  all_goals (split <;> try rfl)
  all_goals (split <;> try rfl)
  all_goals (cases hq : q.mctrlXSplits <;> simp_all)

theorem runSection_congr {q : Quirks} {K : Kernel} {n : Nat} (gs : List AGate) {d : Dict}
    (h : ∀ g ∈ gs, trig q g = false) : runSection q K n d gs = runSection Quirks.none K n d gs := by
  induction gs generalizing d with
  | nil => rfl
  | cons g gs ih =>
    simp only [runSection]
    rw [gateStep_congr (h g (by simp))]
    split
    · exact ih (fun x hx => h x (List.mem_cons_of_mem _ hx))
    · rfl

theorem expsOfSection_congr {q : Quirks} {K : Kernel} {n : Nat} (gs : List AGate)
    (h : ∀ g ∈ gs, trig q g = false) : expsOfSection q K n gs = expsOfSection Quirks.none K n gs := by
  unfold expsOfSection; rw [runSection_congr gs h]

theorem go_congr {q : Quirks} {K : Kernel} {n : Nat} (rest : List AGate) :
    ∀ (i : Nat) (prev : Option AGate) (cur : List AGate) (start : Option Nat),
      (∀ g ∈ cur, trig q g = false) → (∀ g ∈ rest, trig q g = false) →
      go q K n i prev cur start rest = go Quirks.none K n i prev cur start rest := by
  induction rest with
  | nil =>
    intro i prev cur start hc _
    simp only [go]
    rw [expsOfSection_congr cur hc]
  | cons g rest ih =>
    intro i prev cur start hc hr
    have hg := hr g (by simp)
    have hr' : ∀ x ∈ rest, trig q x = false := fun x hx => hr x (List.mem_cons_of_mem _ hx)
    simp only [go]
    rw [isZB_congr hg, expsOfSection_congr cur hc]
    rw [ih (i + 1) (some g) (cur ++ [g]) _ (by
      intro x hx
      rcases List.mem_append.mp hx with hx | hx
      · exact hc x hx
      · simp only [List.mem_singleton] at hx; subst hx; exact hg) hr']
    rw [ih (i + 1) (some g) cur start hc hr']
    rw [ih (i + 1) (some g) [] start (by simp) hr']
    rw [ih (i + 1) (some g) [] none (by simp) hr']

/-- on circuits that do not run into a listed defect, the code as it is behaves as the repaired
code -/
theorem decompile_congr (q : Quirks) (K : Kernel) (n : Nat) (gs : List AGate)
    (h : triggers q gs = false) : decompile q K n gs = decompile Quirks.none K n gs := by
  rw [triggers_eq] at h
  exact go_congr gs 0 none [] none (by simp) (fun g hg => by
    have := List.any_eq_false.mp h g hg
    simpa using this)

/-! ## the repaired model never raises on well-formed circuits -/

/-- a gate tuple as `QCircuit.append` builds it on an `n`-qubit circuit -/
def WF (n : Nat) (g : AGate) : Prop := (∀ i ∈ g.wires, i < n) ∧ g.wires.length = g.cls.nQubits

theorem gateStep_ok {K : Kernel} {n : Nat} {d : Dict} {g : AGate} (hw : WF n g)
    (hz : isZB Quirks.none g.cls = true) : ∃ d', gateStep Quirks.none K n d g = .ok d' := by
  have hf : g.wires.find? (fun i => decide (n ≤ i)) = none := by
    rw [List.find?_eq_none]; intro i hi; simpa using hw.1 i hi
  have ha : (g.wires.length != g.cls.nQubits) = false := by simp [hw.2]
  unfold gateStep
  rw [hf]; simp only [ha]
  rw [isZB_eq] at hz
  cases hc : g.cls <;> simp_all [Quirks.none]
  all_goals (cases g.wires.getLast? <;> simp)

theorem runSection_ok {K : Kernel} {n : Nat} (gs : List AGate) {d : Dict}
    (h : ∀ g ∈ gs, WF n g ∧ isZB Quirks.none g.cls = true) :
    ∃ d', runSection Quirks.none K n d gs = .ok d' := by
  induction gs generalizing d with
  | nil => exact ⟨d, rfl⟩
  | cons g gs ih =>
    obtain ⟨d1, h1⟩ := gateStep_ok (K := K) (d := d) (h g (by simp)).1 (h g (by simp)).2
    simp only [runSection, h1]
    exact ih (fun x hx => h x (List.mem_cons_of_mem _ hx))

theorem expsOfSection_ok {K : Kernel} {n : Nat} (gs : List AGate)
    (h : ∀ g ∈ gs, WF n g ∧ isZB Quirks.none g.cls = true) :
    ∃ e, expsOfSection Quirks.none K n gs = .ok e := by
  obtain ⟨d, hd⟩ := runSection_ok (K := K) (d := []) gs h
  exact ⟨dropIdentities d, by simp [expsOfSection, hd]⟩

theorem go_ok {K : Kernel} {n : Nat} (rest : List AGate) :
    ∀ (i : Nat) (prev : Option AGate) (cur : List AGate) (start : Option Nat),
      (∀ g ∈ cur, WF n g ∧ isZB Quirks.none g.cls = true) → (∀ g ∈ rest, WF n g) →
      ∃ secs, go Quirks.none K n i prev cur start rest = .ok secs := by
  induction rest with
  | nil =>
    intro i prev cur start hc _
    obtain ⟨e, he⟩ := expsOfSection_ok (K := K) cur hc
    simp only [go, he]
    split <;> exact ⟨_, rfl⟩
  | cons g rest ih =>
    intro i prev cur start hc hr
    have hr' : ∀ x ∈ rest, WF n x := fun x hx => hr x (List.mem_cons_of_mem _ hx)
    obtain ⟨e, he⟩ := expsOfSection_ok (K := K) cur hc
    simp only [go, he]
    split
    · next hz =>
      exact ih _ _ _ _ (by
        intro x hx
        rcases List.mem_append.mp hx with hx | hx
        · exact hc x hx
        · simp only [List.mem_singleton] at hx; subst hx; exact ⟨hr x (by simp), hz⟩) hr'
    · split
      · exact ih _ _ _ _ hc hr'
      · split
        · exact ih _ _ _ _ (by simp) hr'
        · obtain ⟨r, hr2⟩ := ih (i + 1) (some g) [] none (by simp) hr'
          simp only [hr2]
          exact ⟨_, rfl⟩

/-- the repaired model reports sections for every circuit built through `QCircuit.append` -/
theorem decompile_ok (K : Kernel) (n : Nat) (gs : List AGate) (h : ∀ g ∈ gs, WF n g) :
    ∃ secs, decompile Quirks.none K n gs = .ok secs :=
  go_ok gs 0 none [] none (by simp) h

end QV.Decompiler
