import QV.Proofs.CompilerGen9
/-!
# Cleanliness on the general class – part 2: the two phases of the statement loop

Definition lists whose intermediates come first and whose return bits come last (`keptThenRet`), every name
defined once, no constants, final uncomputation on.

* **kept phase** (`KP`): no ancilla is ever released (`free = []`), every statement ends with `keep_ancillas`.
  Invariant over the whole gate list: every control had, at gate time, the value it has now (no later gate
  targets a qubit in use), every target is in use.
* **return phase** (`RP`): every statement ends with the inline `uncompute`.  Its gates target qubits `≥ N` (the
  number of qubits when the phase started), and at every statement boundary each of these targets is free or the
  qubit of a requested return bit; the qubits `< N` keep the values they had when the phase started.
-/
namespace QV.Compiler
open QV

variable {ρ : Env} {σ0 : FState}

/-- invariant of the kept phase -/
structure KP (nIn : Nat) (scope : List String) (ρ : Env) (σ0 : FState) (s : CState) : Prop where
  bi : BI scope ρ σ0 s
  free0 : s.qc.free = []
  nqIn : nIn ≤ s.qc.numQubits
  ben : CtlOK (fun f c => f c = cur σ0 s c) s.qc.gates.toList σ0
  ctlU : ∀ g ∈ s.qc.gates.toList, ∀ c ∈ g.wires.dropLast, ¬ Avail s c
  tgtU : ∀ g ∈ s.qc.gates.toList, ¬ Avail s g.target ∧ nIn ≤ g.target

/-- invariant of the return phase that started with `N` qubits, gate list `Gk` and values `σk` -/
structure RP (N : Nat) (Gk : List AGate) (σk : FState) (rets : List String) (scope : List String) (ρ : Env)
    (σ0 : FState) (s : CState) : Prop where
  bi : BI scope ρ σ0 s
  gates : ∃ Gr, s.qc.gates.toList = Gk ++ Gr ∧ ∀ g ∈ Gr, N ≤ g.target ∧
    (g.target ∈ s.qc.free ∨ ∃ r ∈ scope, r ∈ rets ∧ dictGet? s.qc.qmap r = some g.target)
  freeGe : ∀ x ∈ s.qc.free, N ≤ x
  keptLt : ∀ k ∈ s.qc.kept, k < N
  nqGe : N ≤ s.qc.numQubits
  low : ∀ q, q < N → cur σ0 s q = σk q

theorem KP.toRP {nIn : Nat} {scope : List String} {rets : List String} {s : CState} (kp : KP nIn scope ρ σ0 s) :
    RP s.qc.numQubits s.qc.gates.toList (cur σ0 s) rets scope ρ σ0 s :=
  ⟨kp.bi, ⟨[], (by simp), fun g hg => (by cases hg)⟩, fun x hx => (by rw [kp.free0] at hx; cases hx),
    kp.bi.good.kept_lt, Nat.le_refl _, fun _ _ => rfl⟩

/-- one statement of the kept phase -/
theorem kp_step {nIn : Nat} {scope : List String} {env : List (String × Bool)} {e : BExp} {r : String}
    {iret : Nat} {nc : Bool} {u : Unit} {s t1 t3 t5 : CState} (kp : KP nIn scope (envOf env) σ0 s)
    (tp : TopG scope (envOf env) σ0 r (e.eval (envOf env)) nc s t1 iret) (hd : HeadG r t1 t3 iret)
    (hk : keepAncillas.run t3 = .ok (u, t5))
    (bi' : BI (scope ++ [r]) (envOf ((r, e.eval (envOf env)) :: env)) σ0 t5) :
    KP nIn (scope ++ [r]) (envOf ((r, e.eval (envOf env)) :: env)) σ0 t5 := by
  have he := stmt_keep kp.bi tp hd hk
  have gi := tp.gi
  have hgt5 : t5.qc.gates = t1.qc.gates := by
    unfold keepAncillas at hk
    have := modQC_run hk; subst this
    exact hd.gates3
  have hcur5 : cur σ0 t5 = cur σ0 t1 := cur_congr hgt5
  have hfree1 : t1.qc.free = [] := by
    apply List.eq_nil_iff_forall_not_mem.mpr
    intro x hx
    have := tp.fkeep x hx
    rw [kp.free0] at this; cases this
  have hav5 : ∀ x, Avail t5 x ↔ Avail t1 x := by
    intro x; rw [he.avail]; simp
  have hgates : t5.qc.gates.toList = s.qc.gates.toList ++ Lof s t1 := by rw [hgt5, gi.gates]
  refine ⟨bi', ?_, ?_, ?_, ?_, ?_⟩
  · apply List.eq_nil_iff_forall_not_mem.mpr
    intro x hx
    rcases (he.free x).mp hx with h' | h'
    · rw [hfree1] at h'; cases h'
    · cases h'
  · rw [he.nq]; exact Nat.le_trans kp.nqIn gi.nq
  · rw [hgates, CtlOK.append, hcur5]
    refine ⟨CtlOK.mono' _ _ ?_ kp.ben, ?_⟩
    · intro g hg c hc f hq
      rw [tp.frame c (kp.ctlU g hg c hc)]; exact hq
    · have : runF s.qc.gates.toList σ0 = cur σ0 s := rfl
      rw [this]; exact gi.ben
  · intro g hg c hc
    rw [hgates] at hg
    rw [hav5]
    rcases List.mem_append.mp hg with h' | h'
    · exact fun ha => kp.ctlU g h' c hc (gi.avail c ha)
    · exact gi.ctl g h' c hc
  · intro g hg
    rw [hgates] at hg
    rw [hav5]
    rcases List.mem_append.mp hg with h' | h'
    · exact ⟨fun ha => (kp.tgtU g h').1 (gi.avail _ ha), (kp.tgtU g h').2⟩
    · refine ⟨(gi.tgt g h').2, ?_⟩
      rcases (gi.tgt g h').1 with hf | hn
      · rw [kp.free0] at hf; cases hf
      · exact Nat.le_trans kp.nqIn hn

/-- one statement of the return phase -/
theorem rp_step {N : Nat} {Gk : List AGate} {σk : FState} {rets : List String} {scope : List String}
    {env : List (String × Bool)} {e : BExp} {r : String} {iret : Nat} {unc : List Nat} {u : Unit}
    {s t1 t3 t4 t5 : CState} (rp : RP N Gk σk rets scope (envOf env) σ0 s)
    (tp : TopG scope (envOf env) σ0 r (e.eval (envOf env)) false s t1 iret) (hd : HeadG r t1 t3 iret)
    (hunc : uncompute.run t3 = .ok (unc, t4)) (hrm : (expqRemove unc).run t4 = .ok (u, t5))
    (hr : r ∈ rets) (hnew : r ∉ scope) (hstep : Step (· = r) s t1)
    (bi' : BI (scope ++ [r]) (envOf ((r, e.eval (envOf env)) :: env)) σ0 t5) :
    RP N Gk σk rets (scope ++ [r]) (envOf ((r, e.eval (envOf env)) :: env)) σ0 t5 := by
  have he := stmt_unc rp.bi tp hd hunc hrm
  have gi := tp.gi
  obtain ⟨Gr, hGr, hGrT⟩ := rp.gates
  obtain ⟨U, hU, hUT, _, _⟩ := uncompute_gates hunc
  have hqc5 := expqRemove_run hrm
  have hgates5 : t5.qc.gates.toList = Gk ++ (Gr ++ Lof s t1 ++ U) := by
    rw [hqc5, hU, hd.gates3, gi.gates, hGr]; simp
  have hMge : ∀ m ∈ t1.qc.marked, N ≤ m := by
    intro m hm
    rcases gi.marked_av0 hm with hf | hn
    · exact rp.freeGe m hf
    · exact Nat.le_trans rp.nqGe hn
  have hkept1 : t1.qc.kept = s.qc.kept := gi.kept
  have hqr : dictGet? t5.qc.qmap r = some iret := by rw [he.qmap]; exact hd.qm3r
  -- a qubit `≥ N` that is an ancilla in use after the expression is marked or the result
  have hcls : ∀ t, N ≤ t → t ∈ t1.qc.anc → ¬ Avail t1 t → t ∈ t5.qc.free ∨ t = iret := by
    intro t hN ha hnav
    by_cases hm : t ∈ t1.qc.marked
    · exact Or.inl ((he.free t).mpr (Or.inr hm))
    · refine Or.inr (tp.pend t ha (fun hf => hnav (Or.inl hf)) (fun hk => ?_) hm)
      rw [hkept1] at hk
      exact absurd (rp.keptLt t hk) (by omega)
  have hsAvN : ∀ t, Avail s t → N ≤ t := by
    rintro t (hf | hn)
    · exact rp.freeGe t hf
    · exact Nat.le_trans rp.nqGe hn
  have hret : ∀ t, t = iret → ∃ r' ∈ scope ++ [r], r' ∈ rets ∧ dictGet? t5.qc.qmap r' = some t :=
    fun t ht => ⟨r, by simp, hr, ht ▸ hqr⟩
  refine ⟨bi', ⟨Gr ++ Lof s t1 ++ U, hgates5, ?_⟩, ?_, ?_, ?_, ?_⟩
  · intro g hg
    rcases List.mem_append.mp hg with hg | hg
    · rcases List.mem_append.mp hg with hg | hg
      · -- a gate of an earlier return statement
        obtain ⟨hN, hcase⟩ := hGrT g hg
        refine ⟨hN, ?_⟩
        rcases hcase with hf | ⟨r', hr's, hr'r, hq'⟩
        · by_cases hf1 : g.target ∈ t1.qc.free
          · exact Or.inl ((he.free _).mpr (Or.inl hf1))
          · have ha1 : g.target ∈ t1.qc.anc := tp.akeep _ (rp.bi.freeAnc _ hf)
            have hnav : ¬ Avail t1 g.target := by
              rintro (h' | h')
              · exact hf1 h'
              · exact absurd (gi.good.anc_lt _ ha1) (by omega)
            exact (hcls _ hN ha1 hnav).imp id (hret _)
        · refine Or.inr ⟨r', List.mem_append_left _ hr's, hr'r, ?_⟩
          have hne : r' ≠ r := fun e' => hnew (e' ▸ hr's)
          have hrs : reservedName r' = false := rp.bi.scopeOK r' hr's
          rw [he.qmap, hd.qm3o r' (by simp only [reservedName, Bool.or_eq_false_iff] at hrs; exact hrs.2) hne,
            hstep.qmap_keep r' hne hrs]
          exact hq'
      · -- a gate of this statement
        obtain ⟨hav, hnav⟩ := gi.tgt g hg
        have hN := hsAvN _ hav
        refine ⟨hN, ?_⟩
        have hanc : g.target ∈ t1.qc.anc ∨ g.target = iret := by
          rcases hav with hf | hn
          · exact Or.inl (tp.akeep _ (rp.bi.freeAnc _ hf))
          · exact tp.alloc rfl _ hn (notAvail_lt hnav)
        rcases hanc with ha | hi
        · exact (hcls _ hN ha hnav).imp id (hret _)
        · exact Or.inr (hret _ hi)
    · -- a gate replayed by the inline `uncompute`
      have hm := hUT g hg
      rw [hd.mk3] at hm
      exact ⟨hMge _ hm, Or.inl ((he.free _).mpr (Or.inr hm))⟩
  · intro x hx
    rcases (he.free x).mp hx with h' | h'
    · exact rp.freeGe x (tp.fkeep x h')
    · exact hMge x h'
  · intro k hk
    have hk5 : t5.qc.kept = t1.qc.kept := by rw [hqc5]; exact (uncompute_sem (σ0 := σ0) hunc hd.g3).2.2.2.2.2.2.2.2.2.trans hd.kp3
    rw [hk5, hkept1] at hk
    exact rp.keptLt k hk
  · rw [he.nq]; exact Nat.le_trans rp.nqGe gi.nq
  · intro q hq
    have hnM : q ∉ t1.qc.marked := fun hm => absurd (hMge q hm) (by omega)
    have hnav : ¬ Avail s q := fun ha => absurd (hsAvN q ha) (by omega)
    rw [he.val q hnM, tp.frame q hnav]
    exact rp.low q hq

end QV.Compiler
