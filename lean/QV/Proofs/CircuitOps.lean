import Mathlib.Algebra.BigOperators.Group.List.Basic
import Mathlib.Algebra.Group.TypeTags.Basic
import QV.Model.CircuitOps
/-!
# Lemmas about the circuit composition operators (C14)

Gate semantics is abstract: `sem : GClass → Param → List Nat → M` into any monoid `M`
(it cannot see object identities).  The action of a gate list is the product of its gates in
list order (= time order; for matrices read the product in `Mᵐᵒᵖ`).
-/
namespace QV.CircuitOps
open QV

variable {M : Type} [Monoid M]

abbrev Sem (M : Type) := GClass → Param → List Nat → M

def gsem (sem : Sem M) (g : AGate) : M := sem g.cls g.param g.wires
/-- action of a list of applied gates -/
def actA (sem : Sem M) (l : List AGate) : M := (l.map (gsem sem)).prod
/-- action of a heap gate list -/
def actL (sem : Sem M) (l : List HGate) : M := actA sem (l.map (·.g))
/-- action of a circuit: `gates`, in order -/
def act (sem : Sem M) (c : Circ) : M := actL sem c.gates

@[simp] theorem actA_nil (sem : Sem M) : actA sem [] = 1 := by simp [actA]
@[simp] theorem actA_cons (sem : Sem M) (g l) : actA sem (g :: l) = gsem sem g * actA sem l := by
  simp [actA]
@[simp] theorem actA_append (sem : Sem M) (l l') : actA sem (l ++ l') = actA sem l * actA sem l' := by
  simp [actA]
@[simp] theorem actL_nil (sem : Sem M) : actL sem [] = 1 := by simp [actL]
@[simp] theorem actL_cons (sem : Sem M) (h l) : actL sem (h :: l) = gsem sem h.g * actL sem l := by
  simp [actL]
@[simp] theorem actL_append (sem : Sem M) (l l') : actL sem (l ++ l') = actL sem l * actL sem l' := by
  simp [actL]

/-! ## relabelling -/

/-- the gate with its wires sent through the qubit list -/
def relabelG (qs : List Nat) (g : AGate) : AGate := { g with wires := g.wires.map (fun x => qs.getD x 0) }

theorem relabelWires_some {qs : List Nat} : ∀ {w w' : List Nat}, relabelWires qs w = some w' →
    w' = w.map (fun x => qs.getD x 0) ∧ ∀ x ∈ w, x < qs.length
  | [], w', h => by simp [relabelWires] at h; subst h; simp
  | x :: t, w', h => by
    simp only [relabelWires] at h
    split at h
    · rename_i y t' hy ht
      have := relabelWires_some ht
      simp only [Option.some.injEq] at h
      obtain ⟨hl, hx⟩ := List.getElem?_eq_some_iff.mp hy
      subst h
      refine ⟨?_, ?_⟩
      · simp [this.1, List.getD_eq_getElem?_getD, hy]
      · intro z hz
        rcases List.mem_cons.mp hz with rfl | hz
        · exact hl
        · exact this.2 z hz
    · simp at h

theorem relabelWires_isSome {qs : List Nat} : ∀ {w : List Nat}, (∀ x ∈ w, x < qs.length) →
    ∃ w', relabelWires qs w = some w'
  | [], _ => ⟨[], rfl⟩
  | x :: t, h => by
    obtain ⟨t', ht⟩ := relabelWires_isSome (w := t) (fun z hz => h z (List.mem_cons_of_mem _ hz))
    have hx : x < qs.length := h x (List.mem_cons_self)
    refine ⟨qs[x] :: t', ?_⟩
    simp [relabelWires, ht, List.getElem?_eq_getElem hx]

theorem relabelFrom_some {qs : List Nat} : ∀ {l : List HGate} {nx : Nat} {l' : List HGate},
    relabelFrom qs nx l = some l' →
    l'.map (·.g) = l.map (fun h => relabelG qs h.g) ∧ l'.map (·.wid) = List.range' nx l.length ∧
      ∀ h ∈ l, ∀ x ∈ h.g.wires, x < qs.length
  | [], nx, l', h => by simp [relabelFrom] at h; subst h; simp
  | h0 :: t, nx, l', h => by
    simp only [relabelFrom] at h
    split at h
    · rename_i w t' hw ht
      have ih := relabelFrom_some ht
      have hw' := relabelWires_some hw
      simp only [Option.some.injEq] at h
      subst h
      refine ⟨?_, ?_, ?_⟩
      · simp [ih.1, relabelG, hw'.1]
      · simp [ih.2.1, List.range'_succ]
      · intro g hg
        rcases List.mem_cons.mp hg with rfl | hg
        · exact hw'.2
        · exact ih.2.2 g hg
    · simp at h

theorem relabelFrom_isSome {qs : List Nat} : ∀ {l : List HGate} (nx : Nat),
    (∀ h ∈ l, ∀ x ∈ h.g.wires, x < qs.length) → ∃ l', relabelFrom qs nx l = some l'
  | [], _, _ => ⟨[], rfl⟩
  | h0 :: t, nx, hl => by
    obtain ⟨t', ht⟩ := relabelFrom_isSome (l := t) (nx + 1) (fun g hg => hl g (List.mem_cons_of_mem _ hg))
    obtain ⟨w, hw⟩ := relabelWires_isSome (qs := qs) (hl h0 List.mem_cons_self)
    exact ⟨{ g := { h0.g with wires := w }, wid := nx } :: t', by simp [relabelFrom, ht, hw]⟩

/-- relabelling through `list(range(n))` changes nothing -/
theorem relabelG_range {n : Nat} {g : AGate} (h : ∀ x ∈ g.wires, x < n) : relabelG (List.range n) g = g := by
  cases g with
  | mk cls wires param gid =>
    simp only [relabelG, AGate.mk.injEq, true_and, and_true]
    simp only at h
    calc wires.map (fun x => (List.range n).getD x 0) = wires.map id := by
          apply List.map_congr_left
          intro x hx
          simp [List.getD_eq_getElem?_getD, List.getElem?_range (h x hx)]
      _ = wires := by simp

/-! ## ids do not matter for the action -/

omit [Monoid M] in
@[simp] theorem gsem_shift (sem : Sem M) (k : Nat) (h : HGate) : gsem sem (h.shift k).g = gsem sem h.g := rfl

@[simp] theorem actL_shift (sem : Sem M) (k : Nat) (l : List HGate) :
    actL sem (l.map (HGate.shift k)) = actL sem l := by
  induction l with
  | nil => rfl
  | cons h t ih => simp [ih]

@[simp] theorem act_shift (sem : Sem M) (k : Nat) (c : Circ) : act sem (c.shift k) = act sem c := by
  simp [act, Circ.shift]

/-! ## append_circuit, +=, + -/

theorem appendCircuit_ok {a b : Circ} {qs : List Nat} {nx : Nat} {r : Circ} {nx' : Nat}
    (h : appendCircuit a b qs nx = .ok (r, nx')) :
    b.numQubits ≤ a.numQubits ∧ qs.length = b.numQubits ∧
    ∃ og oc, relabelFrom qs nx b.gates = some og ∧ relabelFrom qs (nx + b.gates.length) b.computed = some oc ∧
      r = { a with gates := a.gates ++ og, computed := a.computed ++ oc } ∧
      nx' = nx + b.gates.length + b.computed.length := by
  unfold appendCircuit at h
  split at h
  · simp at h
  · rename_i h1
    split at h
    · simp at h
    · rename_i h2
      split at h
      · rename_i og oc hog hoc
        simp only [Except.ok.injEq, Prod.mk.injEq] at h
        refine ⟨by omega, by simpa using h2, og, oc, hog, hoc, h.1.symm, h.2.symm⟩
      · simp at h

/-- `append_circuit`: the action of the result is the action of `self` followed by the other
circuit's gates relabelled through the qubit list -/
theorem appendCircuit_act' (sem : Sem M) {a b : Circ} {qs : List Nat} {nx : Nat} {r : Circ} {nx' : Nat}
    (h : appendCircuit a b qs nx = .ok (r, nx')) :
    act sem r = act sem a * actA sem (b.gates.map (fun h => relabelG qs h.g)) := by
  obtain ⟨_, _, og, oc, hog, _, rfl, _⟩ := appendCircuit_ok h
  have := (relabelFrom_some hog).1
  simp [act, actL, this]

theorem iaddCirc_act' (sem : Sem M) {a b : Circ} {nx : Nat} {r : Circ} {nx' : Nat}
    (h : iaddCirc a b nx = .ok (r, nx')) : act sem r = act sem a * act sem b := by
  unfold iaddCirc at h
  rw [appendCircuit_act' sem h]
  obtain ⟨_, _, og, oc, hog, _, _, _⟩ := appendCircuit_ok h
  have hw := (relabelFrom_some hog).2.2
  congr 1
  simp only [act, actL]
  congr 1
  apply List.map_congr_left
  intro g hg
  exact relabelG_range (fun x hx => by simpa using hw g hg x hx)

theorem add_act' (sem : Sem M) {a b : Circ} {nx : Nat} {r : Circ} {nx' : Nat}
    (h : add a b nx = .ok (r, nx')) : act sem r = act sem a * act sem b := by
  unfold add at h
  rw [iaddCirc_act' sem h]
  simp [deepcopy]

/-- when does `+=` go through: sizes fit and every wire of the operand is one of its qubits -/
theorem iaddCirc_isOk {a b : Circ} (nx : Nat) (hn : b.numQubits ≤ a.numQubits) (hb : b.wiresOk = true) :
    ∃ r nx', iaddCirc a b nx = .ok (r, nx') := by
  simp only [Circ.wiresOk, Bool.and_eq_true, List.all_eq_true, decide_eq_true_eq] at hb
  obtain ⟨og, hog⟩ := relabelFrom_isSome (qs := List.range b.numQubits) (l := b.gates) nx
    (fun h hh x hx => by simpa using hb.1 h hh x hx)
  obtain ⟨oc, hoc⟩ := relabelFrom_isSome (qs := List.range b.numQubits) (l := b.computed) (nx + b.gates.length)
    (fun h hh x hx => by simpa using hb.2 h hh x hx)
  refine ⟨{ a with gates := a.gates ++ og, computed := a.computed ++ oc },
    nx + b.gates.length + b.computed.length, ?_⟩
  unfold iaddCirc appendCircuit
  rw [if_neg (by omega), if_neg (by simp), hog, hoc]

/-! ## copy, repeat -/

theorem copy_act' (sem : Sem M) (c : Circ) (v : Bool) (nx : Nat) : act sem (copy c v nx).1 = act sem c := by
  cases v <;> simp [copy, deepcopy, act]
  exact actL_shift sem nx c.gates ▸ rfl

theorem repeatLoop_act (sem : Sem M) : ∀ (k : Nat) (acc o : Circ) (nx : Nat) (r : Circ) (nx' : Nat),
    repeatLoop k acc o nx = .ok (r, nx') → act sem r = act sem acc * act sem o ^ k
  | 0, acc, o, nx, r, nx', h => by
    simp only [repeatLoop, Except.ok.injEq, Prod.mk.injEq] at h
    simp [h.1]
  | k + 1, acc, o, nx, r, nx', h => by
    simp only [repeatLoop] at h
    split at h
    · simp at h
    · rename_i acc' nx2 hi
      rw [repeatLoop_act sem k acc' o nx2 r nx' h, iaddCirc_act' sem hi, copy_act', pow_succ', mul_assoc]

theorem repeat_act' (sem : Sem M) (q : Quirks) (c : Circ) (n nx : Nat) (r : Circ) (nx' : Nat)
    (hn : n ≠ 0 ∨ q.repeatZero = false) (h : «repeat» q c n nx = .ok (r, nx')) :
    act sem r = act sem c ^ n := by
  unfold «repeat» at h
  simp only at h
  split at h
  · rename_i h0
    simp only [Except.ok.injEq, Prod.mk.injEq] at h
    rw [← h.1, h0.1]
    simp [act]
  · rename_i h0
    have hpos : n ≠ 0 := by
      rcases hn with hn | hn
      · exact hn
      · intro hz; exact h0 ⟨hz, hn⟩
    rw [repeatLoop_act sem _ _ _ _ _ _ h, copy_act', copy_act', ← pow_succ']
    congr 1
    omega

/-! ## the heap: frames and freshness -/

theorem HGate.write_of_ne {w : Write} {h : HGate} (hne : h.wid ≠ w.target) : h.write w = h := by
  cases w <;> simp_all [HGate.write, Write.target]

/-- a heap write whose target is not reachable from the circuit does not change what the
circuit looks like -/
theorem apply_frame (w : Write) (c : Circ) (h : w.target ∉ c.objs) : c.apply w = c := by
  simp only [Circ.objs, List.mem_cons, List.mem_append, List.mem_map, not_or, not_exists, not_and] at h
  obtain ⟨h1, h2, h3, h4, h5⟩ := h
  have hg : c.gates.map (HGate.write w) = c.gates := by
    conv => rhs; rw [← List.map_id c.gates]
    apply List.map_congr_left
    intro x hx
    exact HGate.write_of_ne (fun e => h4 x hx e)
  have hc : c.computed.map (HGate.write w) = c.computed := by
    conv => rhs; rw [← List.map_id c.computed]
    apply List.map_congr_left
    intro x hx
    exact HGate.write_of_ne (fun e => h5 x hx e)
  have e1 : c.gatesId ≠ w.target := fun e => h1 e.symm
  have e2 : c.computedId ≠ w.target := fun e => h2 e.symm
  have e3 : c.qmapId ≠ w.target := fun e => h3 e.symm
  cases c
  cases w <;> simp_all [Circ.apply, listWrite, mapWrite, Write.target]

/-- every mutable object reachable from the circuit has id `≥ lo` -/
def Circ.objsFrom (c : Circ) (lo : Nat) : Prop := ∀ o ∈ c.objs, lo ≤ o
/-- every gate object of the circuit has id `≥ lo` -/
def Circ.gidsFrom (c : Circ) (lo : Nat) : Prop := ∀ o ∈ c.gids, lo ≤ o

theorem objsFrom_iff (c : Circ) (lo : Nat) : c.objsFrom lo ↔
    lo ≤ c.gatesId ∧ lo ≤ c.computedId ∧ lo ≤ c.qmapId ∧ (∀ h ∈ c.gates, lo ≤ h.wid) ∧
      (∀ h ∈ c.computed, lo ≤ h.wid) := by
  simp only [Circ.objsFrom, Circ.objs, List.mem_cons, List.mem_append, List.mem_map]
  constructor
  · intro h
    exact ⟨h _ (Or.inl rfl), h _ (Or.inr (Or.inl rfl)), h _ (Or.inr (Or.inr (Or.inl rfl))),
      fun g hg => h _ (Or.inr (Or.inr (Or.inr (Or.inl ⟨g, hg, rfl⟩)))),
      fun g hg => h _ (Or.inr (Or.inr (Or.inr (Or.inr ⟨g, hg, rfl⟩))))⟩
  · rintro ⟨h1, h2, h3, h4, h5⟩ o ho
    rcases ho with rfl | rfl | rfl | ⟨g, hg, rfl⟩ | ⟨g, hg, rfl⟩
    · exact h1
    · exact h2
    · exact h3
    · exact h4 g hg
    · exact h5 g hg

theorem objsFrom_disjoint {c r : Circ} {nx : Nat} (hc : c.below nx) (hr : r.objsFrom nx) :
    ∀ o ∈ r.objs, o ∉ c.objs := fun o ho hoc => by
  have := hc.1 o hoc
  have := hr o ho
  omega

theorem gidsFrom_disjoint {c r : Circ} {nx : Nat} (hc : c.below nx) (hr : r.gidsFrom nx) :
    ∀ o ∈ r.gids, o ∉ c.gids := fun o ho hoc => by
  have := hc.2 o hoc
  have := hr o ho
  omega

theorem objsFrom_mono {c : Circ} {lo lo' : Nat} (h : c.objsFrom lo) (hl : lo' ≤ lo) : c.objsFrom lo' :=
  fun o ho => Nat.le_trans hl (h o ho)

theorem shift_objsFrom (c : Circ) (k : Nat) : (c.shift k).objsFrom k := by
  rw [objsFrom_iff]
  simp only [Circ.shift, List.mem_map]
  refine ⟨by omega, by omega, by omega, ?_, ?_⟩ <;>
  · rintro h ⟨g, _, rfl⟩
    simp [HGate.shift]

theorem shift_gidsFrom (c : Circ) (k : Nat) : (c.shift k).gidsFrom k := by
  intro o ho
  simp only [Circ.gids, Circ.shift, List.mem_append, List.mem_map] at ho
  rcases ho with ⟨h, ⟨g, _, rfl⟩, rfl⟩ | ⟨h, ⟨g, _, rfl⟩, rfl⟩ <;> simp [HGate.shift]

theorem copy_objsFrom (c : Circ) (v : Bool) (nx : Nat) : (copy c v nx).1.objsFrom nx := by
  cases v
  · exact shift_objsFrom c nx
  · rw [objsFrom_iff]
    simp only [copy, if_true, List.mem_map]
    refine ⟨by omega, by omega, by omega, ?_, by simp⟩
    rintro h ⟨g, _, rfl⟩
    simp [HGate.shift]

theorem copy_gidsFrom (c : Circ) (v : Bool) (nx : Nat) : (copy c v nx).1.gidsFrom nx := by
  cases v
  · exact shift_gidsFrom c nx
  · intro o ho
    simp only [copy, if_true, Circ.gids, List.mem_append, List.mem_map, List.map_nil, List.not_mem_nil,
      or_false] at ho
    obtain ⟨h, ⟨g, _, rfl⟩, rfl⟩ := ho
    simp [HGate.shift]

theorem copy_next_le (c : Circ) (v : Bool) (nx : Nat) : nx ≤ (copy c v nx).2 := by
  cases v <;> simp [copy, deepcopy]; omega

/-- `append_circuit` keeps the objects of `self` and adds only objects allocated by the call -/
theorem appendCircuit_objsFrom {a b : Circ} {qs : List Nat} {nx : Nat} {r : Circ} {nx' : Nat} {lo : Nat}
    (h : appendCircuit a b qs nx = .ok (r, nx')) (ha : a.objsFrom lo) (hl : lo ≤ nx) :
    r.objsFrom lo ∧ nx ≤ nx' := by
  obtain ⟨_, _, og, oc, hog, hoc, rfl, rfl⟩ := appendCircuit_ok h
  rw [objsFrom_iff] at ha ⊢
  obtain ⟨h1, h2, h3, h4, h5⟩ := ha
  have wg : ∀ g ∈ og, nx ≤ g.wid := fun g hg => by
    have : g.wid ∈ og.map (·.wid) := List.mem_map.mpr ⟨g, hg, rfl⟩
    rw [(relabelFrom_some hog).2.1] at this
    exact (List.mem_range'_1.mp this).1
  have wc : ∀ g ∈ oc, nx ≤ g.wid := fun g hg => by
    have : g.wid ∈ oc.map (·.wid) := List.mem_map.mpr ⟨g, hg, rfl⟩
    rw [(relabelFrom_some hoc).2.1] at this
    have := (List.mem_range'_1.mp this).1
    omega
  refine ⟨⟨h1, h2, h3, ?_, ?_⟩, by omega⟩
  · intro g hg
    rcases List.mem_append.mp hg with hg | hg
    · exact h4 g hg
    · exact Nat.le_trans hl (wg g hg)
  · intro g hg
    rcases List.mem_append.mp hg with hg | hg
    · exact h5 g hg
    · exact Nat.le_trans hl (wc g hg)

/-- the wire lists made by `append_circuit` are new objects: none of them is reachable from the
appended circuit (or anything else allocated before) -/
theorem appendCircuit_new_wires {a b : Circ} {qs : List Nat} {nx : Nat} {r : Circ} {nx' : Nat}
    (h : appendCircuit a b qs nx = .ok (r, nx')) :
    ∃ og oc, r.gates = a.gates ++ og ∧ r.computed = a.computed ++ oc ∧
      (∀ g ∈ og ++ oc, nx ≤ g.wid) ∧ r.gatesId = a.gatesId ∧ r.computedId = a.computedId ∧
      r.qmapId = a.qmapId ∧ r.qmap = a.qmap ∧ r.numQubits = a.numQubits := by
  obtain ⟨_, _, og, oc, hog, hoc, rfl, rfl⟩ := appendCircuit_ok h
  refine ⟨og, oc, rfl, rfl, ?_, rfl, rfl, rfl, rfl, rfl⟩
  intro g hg
  rcases List.mem_append.mp hg with hg | hg
  · have : g.wid ∈ og.map (·.wid) := List.mem_map.mpr ⟨g, hg, rfl⟩
    rw [(relabelFrom_some hog).2.1] at this
    exact (List.mem_range'_1.mp this).1
  · have : g.wid ∈ oc.map (·.wid) := List.mem_map.mpr ⟨g, hg, rfl⟩
    rw [(relabelFrom_some hoc).2.1] at this
    have := (List.mem_range'_1.mp this).1
    omega

theorem add_objsFrom {a b : Circ} {nx : Nat} {r : Circ} {nx' : Nat} (h : add a b nx = .ok (r, nx')) :
    r.objsFrom nx := by
  unfold add iaddCirc at h
  exact (appendCircuit_objsFrom h (shift_objsFrom a nx) (by simp [deepcopy])).1

theorem repeatLoop_objsFrom {lo : Nat} : ∀ (k : Nat) (acc o : Circ) (nx : Nat) (r : Circ) (nx' : Nat),
    repeatLoop k acc o nx = .ok (r, nx') → acc.objsFrom lo → lo ≤ nx → r.objsFrom lo
  | 0, acc, o, nx, r, nx', h, ha, _ => by
    simp only [repeatLoop, Except.ok.injEq, Prod.mk.injEq] at h
    exact h.1 ▸ ha
  | k + 1, acc, o, nx, r, nx', h, ha, hl => by
    simp only [repeatLoop] at h
    split at h
    · simp at h
    · rename_i acc' nx2 hi
      have hc := copy_next_le o false nx
      have := appendCircuit_objsFrom hi ha (Nat.le_trans hl hc)
      exact repeatLoop_objsFrom k acc' o nx2 r nx' h this.1 (by omega)

theorem repeat_objsFrom {q : Quirks} {c : Circ} {n nx : Nat} {r : Circ} {nx' : Nat}
    (h : «repeat» q c n nx = .ok (r, nx')) : r.objsFrom nx := by
  unfold «repeat» at h
  simp only at h
  have h1 := copy_next_le c false nx
  have h2 := copy_next_le c false (copy c false nx).2
  have hc := copy_objsFrom c false (copy c false nx).2
  split at h
  · simp only [Except.ok.injEq, Prod.mk.injEq] at h
    rw [← h.1, objsFrom_iff]
    rw [objsFrom_iff] at hc
    refine ⟨by simp; omega, by simp; omega, by simpa using Nat.le_trans h1 hc.2.2.1, by simp, by simp⟩
  · exact repeatLoop_objsFrom _ _ _ _ _ _ h (objsFrom_mono hc h1) (by omega)

/-! ## remove_identities -/

theorem actL_reverse_cons (sem : Sem M) (g : HGate) (res : List HGate) :
    actL sem (g :: res).reverse = actL sem res.reverse * gsem sem g.g := by
  simp

/-- python tuple equality on well-formed heaps (the gate object determines its class) gives
equal applied gates -/
theorem sameApplied_eq {g h : HGate} (hs : sameApplied g h = true) (hc : g.g.gid = h.g.gid → g.g.cls = h.g.cls) :
    g.g = h.g := by
  simp only [sameApplied, Bool.and_eq_true, beq_iff_eq] at hs
  obtain ⟨⟨h1, h2⟩, h3⟩ := hs
  have := hc h1
  cases hg : g.g; cases hh : h.g
  simp_all

theorem popBarrier_act (sem : Sem M) {q : Quirks} {res res' : List HGate}
    (hbar : ∀ g ∈ res, g.g.cls = .Barrier → gsem sem g.g = 1) (h : popBarrier q res = .ok res') :
    actL sem res'.reverse = actL sem res.reverse ∧ ∀ g ∈ res', g ∈ res := by
  cases res with
  | nil =>
    simp only [popBarrier] at h
    split at h
    · simp at h
    · simp only [Except.ok.injEq] at h; subst h; simp
  | cons r rs =>
    simp only [popBarrier] at h
    split at h
    · rename_i hb
      simp only [Except.ok.injEq] at h; subst h
      have := hbar r List.mem_cons_self (by simpa using hb)
      refine ⟨by simp [this], fun g hg => List.mem_cons_of_mem _ hg⟩
    · simp only [Except.ok.injEq] at h; subst h; simp

/-- loop invariant of `remove_identities`: kept gates · remaining gates is constant, when the
cancelled gates square to 1 and barriers act as 1 -/
theorem riLoop_act (sem : Sem M) (q : Quirks) (S : HGate → Prop)
    (hgid : ∀ g h, S g → S h → g.g.gid = h.g.gid → g.g.cls = h.g.cls)
    (hsq : ∀ g, S g → canCancel q g = true → gsem sem g.g * gsem sem g.g = 1)
    (hbar : ∀ g, S g → g.g.cls = .Barrier → gsem sem g.g = 1) :
    ∀ (fuel : Nat) (l res r : List HGate), (∀ g ∈ l, S g) → (∀ g ∈ res, S g) →
      riLoop q fuel l res = .ok r → actL sem r = actL sem res.reverse * actL sem l
  | 0, l, res, r, _, _, h => by
    simp only [riLoop, Except.ok.injEq] at h; subst h; simp
  | fuel + 1, [], res, r, _, _, h => by
    simp only [riLoop, Except.ok.injEq] at h; subst h; simp
  | fuel + 1, [g], res, r, _, _, h => by
    simp only [riLoop, Except.ok.injEq] at h; subst h; simp
  | fuel + 1, g :: h0 :: rest, res, r, hl, hres, h => by
    have Sg : S g := hl g (by simp)
    have Sh : S h0 := hl h0 (by simp)
    have hrest : ∀ x ∈ rest, S x := fun x hx => hl x (by simp [hx])
    have htl : ∀ x ∈ h0 :: rest, S x := fun x hx => hl x (List.mem_cons_of_mem _ hx)
    have hres' : ∀ x ∈ g :: res, S x := fun x hx => by
      rcases List.mem_cons.mp hx with rfl | hx
      · exact Sg
      · exact hres x hx
    have keep : ∀ r, riLoop q fuel (h0 :: rest) (g :: res) = .ok r →
        actL sem r = actL sem res.reverse * actL sem (g :: h0 :: rest) := fun r hr => by
      rw [riLoop_act sem q S hgid hsq hbar fuel (h0 :: rest) (g :: res) r htl hres' hr]
      simp [mul_assoc]
    simp only [riLoop] at h
    split at h
    · -- adjacent identical pair
      rename_i hc
      simp only [Bool.and_eq_true] at hc
      split at h
      · simp at h
      · rename_i res' hp
        have hpb := popBarrier_act sem (fun x hx => hbar x (hres x hx)) hp
        rw [riLoop_act sem q S hgid hsq hbar fuel rest res' r hrest (fun x hx => hres x (hpb.2 x hx)) h, hpb.1]
        have e : g.g = h0.g := sameApplied_eq hc.1 (hgid g h0 Sg Sh)
        have := hsq g Sg hc.2
        simp only [actL_cons, ← e]
        rw [← mul_assoc (gsem sem g.g), this, one_mul]
    · cases rest with
      | nil => exact keep r h
      | cons k rest' =>
        simp only at h
        split at h
        · rename_i hc
          simp only [Bool.and_eq_true, beq_iff_eq] at hc
          have Sk : S k := hl k (by simp)
          split at h
          · simp at h
          · rename_i res' hp
            have hpb := popBarrier_act sem (fun x hx => hbar x (hres x hx)) hp
            rw [riLoop_act sem q S hgid hsq hbar fuel rest' res' r (fun x hx => hl x (by simp [hx]))
              (fun x hx => hres x (hpb.2 x hx)) h, hpb.1]
            have e : g.g = k.g := sameApplied_eq hc.1.1 (hgid g k Sg Sk)
            have hb := hbar h0 Sh hc.1.2
            have := hsq g Sg hc.2
            simp only [actL_cons, ← e, hb, one_mul]
            rw [← mul_assoc (gsem sem g.g), this, one_mul]
        · exact keep r h

/-- the defect-free runs of the loop do not depend on the quirk flags -/
theorem riLoop_noTrigger (q : Quirks) : ∀ (fuel : Nat) (l res : List HGate),
    riTriggers fuel l res = false → riLoop q fuel l res = riLoop Quirks.none fuel l res
  | 0, l, res, _ => rfl
  | fuel + 1, [], res, _ => rfl
  | fuel + 1, [g], res, _ => rfl
  | fuel + 1, g :: h0 :: rest, res, ht => by
    simp only [riTriggers] at ht
    simp only [riLoop]
    have pb : ∀ res : List HGate, res.isEmpty = false →
        popBarrier q res = .ok (popBarrierOk res) ∧ popBarrier Quirks.none res = .ok (popBarrierOk res) := by
      intro res hne
      cases res with
      | nil => simp at hne
      | cons r rs => simp only [popBarrier, popBarrierOk]; split <;> simp
    by_cases hs : sameApplied g h0 = true
    · simp only [hs, if_true, Bool.or_eq_false_iff, Bool.not_eq_false'] at ht
      obtain ⟨⟨hsi, hne⟩, hrec⟩ := ht
      simp only [hs, canCancel, hsi, Bool.or_true, Bool.and_self, if_true]
      rw [(pb res hne).1, (pb res hne).2]
      exact riLoop_noTrigger q fuel rest _ hrec
    · simp only [hs, Bool.false_and, Bool.false_eq_true, if_false] at ht ⊢
      cases rest with
      | nil => exact riLoop_noTrigger q fuel _ _ ht
      | cons k rest' =>
        simp only at ht ⊢
        by_cases hs2 : (sameApplied g k && h0.g.cls == GClass.Barrier) = true
        · simp only [hs2, if_true, Bool.or_eq_false_iff, Bool.not_eq_false'] at ht
          obtain ⟨⟨hsi, hne⟩, hrec⟩ := ht
          simp only [hs2, canCancel, hsi, Bool.or_true, Bool.and_self, if_true]
          rw [(pb res hne).1, (pb res hne).2]
          exact riLoop_noTrigger q fuel rest' _ hrec
        · simp only [hs2, Bool.false_and, Bool.false_eq_true, if_false] at ht ⊢
          exact riLoop_noTrigger q fuel _ _ ht

/-! ## qft, iqft -/

/-- the algebraic laws of the gate semantics the Fourier-transform theorem needs -/
structure FourierLaws (sem : Sem M) : Prop where
  h_sq : ∀ w, sem .H .none [w] * sem .H .none [w] = 1
  swap_sq : ∀ a b, sem .Swap .none [a, b] * sem .Swap .none [a, b] = 1
  cp_inv : ∀ k a b, sem .CP (.qft false k) [a, b] * sem .CP (.qft true k) [a, b] = 1
  /-- gates on disjoint wires commute -/
  disjoint_comm : ∀ c p w c' p' w', (∀ x ∈ w, x ∉ w') → Commute (sem c p w) (sem c' p' w')

theorem iqftRow_eq (wl : List Nat) (i : Nat) : iqftRow wl i = (qftRow wl i).reverse.map invGate := by
  simp [iqftRow, qftRow, invGate, cpGate, hGate, List.map_reverse, Function.comp_def]

/-- structural identity: the main part of `iqft` is the main part of `qft` reversed, every gate
inverted -/
theorem iqftMain_eq (wl : List Nat) : iqftMain wl = (qftMain wl).reverse.map invGate := by
  simp only [iqftMain, qftMain, List.reverse_flatten, List.map_flatten, List.map_map, List.map_reverse]
  congr 2
  apply List.map_congr_left
  intro i _
  simp [iqftRow_eq, List.map_reverse]

theorem iqftGates_eq (wl : List Nat) :
    iqftGates wl = swapLayer wl ++ (qftMain wl).reverse.map invGate := by
  simp [iqftGates, iqftMain_eq]

/-- `L · mid · (L reversed and inverted) = 1` when `mid = 1` -/
theorem actA_conj_inv (sem : Sem M) (mid : List AGate) (hmid : actA sem mid = 1) :
    ∀ L : List AGate, (∀ g ∈ L, gsem sem g * gsem sem (invGate g) = 1) →
      actA sem (L ++ mid ++ L.reverse.map invGate) = 1
  | [], _ => by simpa using hmid
  | g :: L, h => by
    have ih := actA_conj_inv sem mid hmid L (fun x hx => h x (List.mem_cons_of_mem _ hx))
    have hg := h g List.mem_cons_self
    simp only [actA_append, List.reverse_cons, List.map_append, List.map_cons, List.map_nil, actA_cons,
      actA_nil, mul_one, List.cons_append, mul_assoc] at ih ⊢
    calc gsem sem g * (actA sem L * (actA sem mid * (actA sem (List.map invGate L.reverse) * gsem sem (invGate g))))
        = gsem sem g * ((actA sem L * (actA sem mid * actA sem (List.map invGate L.reverse))) * gsem sem (invGate g)) := by
          simp only [mul_assoc]
      _ = 1 := by rw [ih, one_mul, hg]

/-- a layer of pairwise commuting involutions, applied twice, is 1 -/
theorem actA_layer_twice (sem : Sem M) : ∀ L : List AGate,
    L.Pairwise (fun g h => Commute (gsem sem g) (gsem sem h)) → (∀ g ∈ L, gsem sem g * gsem sem g = 1) →
      actA sem (L ++ L) = 1
  | [], _, _ => by simp
  | g :: L, hp, hs => by
    have hp' := List.pairwise_cons.mp hp
    have ih := actA_layer_twice sem L hp'.2 (fun x hx => hs x (List.mem_cons_of_mem _ hx))
    have hc : Commute (gsem sem g) (actA sem L) := by
      unfold actA
      apply Commute.list_prod_right
      intro x hx
      obtain ⟨y, hy, rfl⟩ := List.mem_map.mp hx
      exact hp'.1 y hy
    simp only [actA_append, actA_cons, List.cons_append] at ih ⊢
    calc gsem sem g * (actA sem L * (gsem sem g * actA sem L))
        = gsem sem g * ((actA sem L * gsem sem g) * actA sem L) := by simp only [mul_assoc]
      _ = gsem sem g * ((gsem sem g * actA sem L) * actA sem L) := by rw [hc.eq]
      _ = (gsem sem g * gsem sem g) * (actA sem L * actA sem L) := by simp only [mul_assoc]
      _ = 1 := by rw [hs g List.mem_cons_self, ih, one_mul]

theorem swapLayer_twice (sem : Sem M) (laws : FourierLaws sem) (wl : List Nat) (hnd : wl.Nodup) :
    actA sem (swapLayer wl ++ swapLayer wl) = 1 := by
  apply actA_layer_twice
  · unfold swapLayer
    rw [List.pairwise_map]
    apply List.Pairwise.imp_of_mem (R := fun i j => i < j) ?_ List.pairwise_lt_range
    intro i j hi hj hij
    simp only [List.mem_range] at hi hj
    apply laws.disjoint_comm
    have hne : ∀ a b : Nat, a < wl.length → b < wl.length → a ≠ b → wl.getD a 0 ≠ wl.getD b 0 := by
      intro a b ha hb hab e
      simp only [List.getD_eq_getElem?_getD, List.getElem?_eq_getElem ha, List.getElem?_eq_getElem hb,
        Option.getD_some] at e
      exact hab ((List.getElem_inj hnd).mp e)
    intro x hx
    simp only [swapGate, List.mem_cons, List.not_mem_nil, or_false] at hx ⊢
    rcases hx with rfl | rfl
    · intro hc
      rcases hc with hc | hc
      · exact hne i j (by omega) (by omega) (by omega) hc
      · exact hne i (wl.length - j - 1) (by omega) (by omega) (by omega) hc
    · intro hc
      rcases hc with hc | hc
      · exact hne (wl.length - i - 1) j (by omega) (by omega) (by omega) hc
      · exact hne (wl.length - i - 1) (wl.length - j - 1) (by omega) (by omega) (by omega) hc
  · intro g hg
    simp only [swapLayer, List.mem_map] at hg
    obtain ⟨i, _, rfl⟩ := hg
    exact laws.swap_sq _ _

theorem qftMain_inv (sem : Sem M) (laws : FourierLaws sem) (wl : List Nat) :
    ∀ g ∈ qftMain wl, gsem sem g * gsem sem (invGate g) = 1 := by
  intro g hg
  simp only [qftMain, List.mem_flatten, List.mem_map] at hg
  obtain ⟨row, ⟨i, _, rfl⟩, hg⟩ := hg
  simp only [qftRow, List.mem_cons, List.mem_map] at hg
  rcases hg with rfl | ⟨j, _, rfl⟩
  · exact laws.h_sq _
  · exact laws.cp_inv _ _ _

/-- `qft` followed by `iqft` on a duplicate-free qubit list of any length acts as 1 -/
theorem qft_iqft_gates (sem : Sem M) (laws : FourierLaws sem) (wl : List Nat) (hnd : wl.Nodup) :
    actA sem (qftGates wl ++ iqftGates wl) = 1 := by
  rw [iqftGates_eq, qftGates]
  have := actA_conj_inv sem (swapLayer wl ++ swapLayer wl) (swapLayer_twice sem laws wl hnd) (qftMain wl)
    (qftMain_inv sem laws wl)
  simpa [List.append_assoc] using this

/-- the `self.h/cp/swap` calls: when none raises, the circuit's action is multiplied by the
action of the gates, in order -/
theorem appendAll_act (sem : Sem M) : ∀ (gs : List AGate) (c : Circ) (nx : Nat) (c' : Circ) (nx' : Nat),
    appendAll c gs nx = (c', nx', none) → act sem c' = act sem c * actA sem gs ∧ c'.numQubits = c.numQubits
  | [], c, nx, c', nx', h => by
    simp only [appendAll, Prod.mk.injEq] at h
    simp [← h.1]
  | g :: t, c, nx, c', nx', h => by
    simp only [appendAll] at h
    split at h
    · simp at h
    · rename_i c1 hc1
      have ih := appendAll_act sem t c1 (nx + 2) c' nx' h
      unfold Circ.append at hc1
      split at hc1
      · simp at hc1
      · simp only [Except.ok.injEq] at hc1
        subst hc1
        rw [ih.1, ih.2]
        simp [act, gsem, mul_assoc]

theorem appendAll_append (gs gs' : List AGate) : ∀ (c : Circ) (nx : Nat) (c1 : Circ) (nx1 : Nat),
    appendAll c gs nx = (c1, nx1, none) → appendAll c (gs ++ gs') nx = appendAll c1 gs' nx1 := by
  induction gs with
  | nil => intro c nx c1 nx1 h; simp only [appendAll, Prod.mk.injEq] at h; simp [h.1, h.2.1]
  | cons g t ih =>
    intro c nx c1 nx1 h
    simp only [appendAll, List.cons_append] at h ⊢
    split at h
    · simp at h
    · rename_i c2 hc2
      exact ih c2 (nx + 2) c1 nx1 h

/-- `append`'s checks pass for every gate of the list -/
theorem appendAll_ok : ∀ (gs : List AGate) (c : Circ) (nx : Nat),
    (∀ g ∈ gs, appendErr c.numQubits g = none) → (appendAll c gs nx).2.2 = none
  | [], _, _, _ => rfl
  | g :: t, c, nx, h => by
    have hg : appendErr c.numQubits { g with gid := nx } = none := h g List.mem_cons_self
    simp only [appendAll, Circ.append, hg]
    exact appendAll_ok t _ (nx + 2) (fun x hx => h x (List.mem_cons_of_mem _ hx))

theorem appendErr_invGate (n : Nat) (g : AGate) : appendErr n (invGate g) = appendErr n g := by
  unfold invGate; split <;> rfl

theorem getD_mem {wl : List Nat} {i : Nat} (h : i < wl.length) : wl.getD i 0 ∈ wl := by
  simp [List.getD_eq_getElem?_getD, List.getElem?_eq_getElem h]

theorem getD_ne {wl : List Nat} (hnd : wl.Nodup) {a b : Nat} (ha : a < wl.length) (hb : b < wl.length)
    (hab : a ≠ b) : wl.getD a 0 ≠ wl.getD b 0 := by
  intro e
  simp only [List.getD_eq_getElem?_getD, List.getElem?_eq_getElem ha, List.getElem?_eq_getElem hb,
    Option.getD_some] at e
  exact hab ((List.getElem_inj hnd).mp e)

theorem appendErr_two {n a b : Nat} (c : GClass) (p : Param) (hc : c.nQubits = 2) (ha : a ≤ n) (hb : b ≤ n)
    (hab : a ≠ b) : appendErr n { cls := c, wires := [a, b], param := p } = none := by
  simp [appendErr, hc, hab, Nat.not_lt.mpr ha, Nat.not_lt.mpr hb]

/-- on a duplicate-free list of qubits `≤ num_qubits` (the bound `append` enforces) every call
of `qft` and `iqft` passes `append`'s checks -/
theorem fourier_gates_valid (wl : List Nat) (n : Nat) (hnd : wl.Nodup) (hr : ∀ w ∈ wl, w ≤ n) :
    (∀ g ∈ qftGates wl, appendErr n g = none) ∧ (∀ g ∈ iqftGates wl, appendErr n g = none) := by
  have hmain : ∀ g ∈ qftMain wl, appendErr n g = none := by
    intro g hg
    simp only [qftMain, List.mem_flatten, List.mem_map, List.mem_range] at hg
    obtain ⟨row, ⟨i, hi, rfl⟩, hg⟩ := hg
    simp only [qftRow, List.mem_cons, List.mem_map, List.mem_range'_1] at hg
    rcases hg with rfl | ⟨j, hj, rfl⟩
    · have := hr _ (getD_mem hi)
      generalize wl.getD i 0 = w at this ⊢
      simp [appendErr, hGate, GClass.nQubits, Nat.not_lt.mpr this]
    · exact appendErr_two _ _ rfl (hr _ (getD_mem (by omega))) (hr _ (getD_mem hi))
        (getD_ne hnd (by omega) hi (by omega))
  have hswap : ∀ g ∈ swapLayer wl, appendErr n g = none := by
    intro g hg
    simp only [swapLayer, List.mem_map, List.mem_range] at hg
    obtain ⟨i, hi, rfl⟩ := hg
    exact appendErr_two _ _ rfl (hr _ (getD_mem (by omega))) (hr _ (getD_mem (by omega)))
      (getD_ne hnd (by omega) (by omega) (by omega))
  constructor
  · intro g hg
    rcases List.mem_append.mp hg with hg | hg
    · exact hmain g hg
    · exact hswap g hg
  · intro g hg
    rw [iqftGates_eq] at hg
    rcases List.mem_append.mp hg with hg | hg
    · exact hswap g hg
    · obtain ⟨g', hg', rfl⟩ := List.mem_map.mp hg
      rw [appendErr_invGate]
      exact hmain g' (List.mem_reverse.mp hg')

theorem appendAll_eta (c : Circ) (gs : List AGate) (nx : Nat) (h : (appendAll c gs nx).2.2 = none) :
    appendAll c gs nx = ((appendAll c gs nx).1, (appendAll c gs nx).2.1, none) := by
  rw [← h]

/-- the repaired loop never raises -/
theorem riLoop_none_ok : ∀ (fuel : Nat) (l res : List HGate), ∃ r, riLoop Quirks.none fuel l res = .ok r
  | 0, l, res => ⟨_, rfl⟩
  | fuel + 1, [], res => ⟨_, rfl⟩
  | fuel + 1, [g], res => ⟨_, rfl⟩
  | fuel + 1, g :: h0 :: rest, res => by
    have pb : ∀ res : List HGate, ∃ r', popBarrier Quirks.none res = .ok r' := by
      intro res
      cases res with
      | nil => exact ⟨[], rfl⟩
      | cons r rs => simp only [popBarrier]; split <;> exact ⟨_, rfl⟩
    simp only [riLoop]
    split
    · obtain ⟨r', hr'⟩ := pb res
      rw [hr']
      exact riLoop_none_ok fuel rest r'
    · cases rest with
      | nil => exact riLoop_none_ok fuel _ _
      | cons k rest' =>
        simp only
        split
        · obtain ⟨r', hr'⟩ := pb res
          rw [hr']
          exact riLoop_none_ok fuel rest' r'
        · exact riLoop_none_ok fuel _ _

theorem erase_shift (c : Circ) (k : Nat) : (c.shift k).erase = c.erase := by
  simp [Circ.erase, Circ.shift, HGate.erase, HGate.shift, Function.comp_def]

/-! ## vocabulary of the property statements -/

/-- laws `remove_identities` relies on: the classes it may cancel square to 1, barriers are 1 -/
structure CancelLaws {M : Type} [Monoid M] (sem : Sem M) : Prop where
  sq : ∀ c p w, selfInverse c = true → sem c p w * sem c p w = 1
  barrier : ∀ p w, sem .Barrier p w = 1

/-- one gate object has one class (true of every Python heap) -/
def GidFun (c : Circ) : Prop := ∀ g ∈ c.gates, ∀ h ∈ c.gates, g.g.gid = h.g.gid → g.g.cls = h.g.cls

instance (c : Circ) : Decidable (GidFun c) := by unfold GidFun; infer_instance

/-- a write through any object of `r` is invisible in `c`, and vice versa -/
def Independent (r c : Circ) : Prop :=
  (∀ o ∈ r.objs, o ∉ c.objs) ∧ (∀ w : Write, w.target ∈ r.objs → c.apply w = c) ∧
    (∀ w : Write, w.target ∈ c.objs → r.apply w = r)

theorem independent_of_fresh {r c : Circ} {nx : Nat} (hc : c.below nx) (hr : r.objsFrom nx) :
    Independent r c := by
  have hd := objsFrom_disjoint hc hr
  refine ⟨hd, fun w hw => apply_frame w c (hd _ hw), fun w hw => apply_frame w r (fun h => hd _ h hw)⟩

/-- counts the gates / the S gates: two honest monoid-valued semantics -/
def countAll : Sem (Multiplicative Nat) := fun _ _ _ => Multiplicative.ofAdd 1
def countS : Sem (Multiplicative Nat) := fun c _ _ => if c = .S then Multiplicative.ofAdd 1 else 1

theorem countS_laws : CancelLaws countS :=
  ⟨fun c p w h => by cases c <;> simp_all [countS, selfInverse], fun _ _ => rfl⟩


end QV.CircuitOps
