import Mathlib.Algebra.BigOperators.Group.List.Basic
import QV.Model.CircuitOps
/-!
# Lemmas about the circuit composition operators (C14)

Gate semantics is abstract: `sem : GClass → Param → List Nat → M` into any monoid `M`
(it cannot see object identities).  The action of a gate list is the product of its gates in
list order (= time order; for matrices read the product in `Mᵐᵒᵖ`).
-/
namespace QV.CircuitOps
open QV

variable {M : Type} [Monoid M]

abbrev Sem (M : Type) := GClass → Param → List Nat → M

def gsem (sem : Sem M) (g : AGate) : M := sem g.cls g.param g.wires
/-- action of a list of applied gates -/
def actA (sem : Sem M) (l : List AGate) : M := (l.map (gsem sem)).prod
/-- action of a heap gate list -/
def actL (sem : Sem M) (l : List HGate) : M := actA sem (l.map (·.g))
/-- action of a circuit: `gates`, in order -/
def act (sem : Sem M) (c : Circ) : M := actL sem c.gates

@[simp] theorem actA_nil (sem : Sem M) : actA sem [] = 1 := by simp [actA]
@[simp] theorem actA_cons (sem : Sem M) (g l) : actA sem (g :: l) = gsem sem g * actA sem l := by
  simp [actA]
@[simp] theorem actA_append (sem : Sem M) (l l') : actA sem (l ++ l') = actA sem l * actA sem l' := by
  simp [actA]
@[simp] theorem actL_nil (sem : Sem M) : actL sem [] = 1 := by simp [actL]
@[simp] theorem actL_cons (sem : Sem M) (h l) : actL sem (h :: l) = gsem sem h.g * actL sem l := by
  simp [actL]
@[simp] theorem actL_append (sem : Sem M) (l l') : actL sem (l ++ l') = actL sem l * actL sem l' := by
  simp [actL]

/-! ## relabelling -/

/-- the gate with its wires sent through the qubit list -/
def relabelG (qs : List Nat) (g : AGate) : AGate := { g with wires := g.wires.map (fun x => qs.getD x 0) }

theorem relabelWires_some {qs : List Nat} : ∀ {w w' : List Nat}, relabelWires qs w = some w' →
    w' = w.map (fun x => qs.getD x 0) ∧ ∀ x ∈ w, x < qs.length
  | [], w', h => by simp [relabelWires] at h; subst h; simp
  | x :: t, w', h => by
    simp only [relabelWires] at h
    split at h
    · rename_i y t' hy ht
      have := relabelWires_some ht
      simp only [Option.some.injEq] at h
      obtain ⟨hl, hx⟩ := List.getElem?_eq_some_iff.mp hy
      subst h
      refine ⟨?_, ?_⟩
      · simp [this.1, List.getD_eq_getElem?_getD, hy]
      · intro z hz
        rcases List.mem_cons.mp hz with rfl | hz
        · exact hl
        · exact this.2 z hz
    · simp at h

theorem relabelWires_isSome {qs : List Nat} : ∀ {w : List Nat}, (∀ x ∈ w, x < qs.length) →
    ∃ w', relabelWires qs w = some w'
  | [], _ => ⟨[], rfl⟩
  | x :: t, h => by
    obtain ⟨t', ht⟩ := relabelWires_isSome (w := t) (fun z hz => h z (List.mem_cons_of_mem _ hz))
    have hx : x < qs.length := h x (List.mem_cons_self)
    refine ⟨qs[x] :: t', ?_⟩
    simp [relabelWires, ht, List.getElem?_eq_getElem hx]

theorem relabelFrom_some {qs : List Nat} : ∀ {l : List HGate} {nx : Nat} {l' : List HGate},
    relabelFrom qs nx l = some l' →
    l'.map (·.g) = l.map (fun h => relabelG qs h.g) ∧ l'.map (·.wid) = List.range' nx l.length ∧
      ∀ h ∈ l, ∀ x ∈ h.g.wires, x < qs.length
  | [], nx, l', h => by simp [relabelFrom] at h; subst h; simp
  | h0 :: t, nx, l', h => by
    simp only [relabelFrom] at h
    split at h
    · rename_i w t' hw ht
      have ih := relabelFrom_some ht
      have hw' := relabelWires_some hw
      simp only [Option.some.injEq] at h
      subst h
      refine ⟨?_, ?_, ?_⟩
      · simp [ih.1, relabelG, hw'.1]
      · simp [ih.2.1, List.range'_succ]
      · intro g hg
        rcases List.mem_cons.mp hg with rfl | hg
        · exact hw'.2
        · exact ih.2.2 g hg
    · simp at h

theorem relabelFrom_isSome {qs : List Nat} : ∀ {l : List HGate} (nx : Nat),
    (∀ h ∈ l, ∀ x ∈ h.g.wires, x < qs.length) → ∃ l', relabelFrom qs nx l = some l'
  | [], _, _ => ⟨[], rfl⟩
  | h0 :: t, nx, hl => by
    obtain ⟨t', ht⟩ := relabelFrom_isSome (l := t) (nx + 1) (fun g hg => hl g (List.mem_cons_of_mem _ hg))
    obtain ⟨w, hw⟩ := relabelWires_isSome (qs := qs) (hl h0 List.mem_cons_self)
    exact ⟨{ g := { h0.g with wires := w }, wid := nx } :: t', by simp [relabelFrom, ht, hw]⟩

/-- relabelling through `list(range(n))` changes nothing -/
theorem relabelG_range {n : Nat} {g : AGate} (h : ∀ x ∈ g.wires, x < n) : relabelG (List.range n) g = g := by
  cases g with
  | mk cls wires param gid =>
    simp only [relabelG, AGate.mk.injEq, true_and, and_true]
    simp only at h
    calc wires.map (fun x => (List.range n).getD x 0) = wires.map id := by
          apply List.map_congr_left
          intro x hx
          simp [List.getD_eq_getElem?_getD, List.getElem?_range (h x hx)]
      _ = wires := by simp

/-! ## ids do not matter for the action -/

omit [Monoid M] in
@[simp] theorem gsem_shift (sem : Sem M) (k : Nat) (h : HGate) : gsem sem (h.shift k).g = gsem sem h.g := rfl

@[simp] theorem actL_shift (sem : Sem M) (k : Nat) (l : List HGate) :
    actL sem (l.map (HGate.shift k)) = actL sem l := by
  induction l with
  | nil => rfl
  | cons h t ih => simp [ih]

@[simp] theorem act_shift (sem : Sem M) (k : Nat) (c : Circ) : act sem (c.shift k) = act sem c := by
  simp [act, Circ.shift]

/-! ## append_circuit, +=, + -/

theorem appendCircuit_ok {a b : Circ} {qs : List Nat} {nx : Nat} {r : Circ} {nx' : Nat}
    (h : appendCircuit a b qs nx = .ok (r, nx')) :
    b.numQubits ≤ a.numQubits ∧ qs.length = b.numQubits ∧
    ∃ og oc, relabelFrom qs nx b.gates = some og ∧ relabelFrom qs (nx + b.gates.length) b.computed = some oc ∧
      r = { a with gates := a.gates ++ og, computed := a.computed ++ oc } ∧
      nx' = nx + b.gates.length + b.computed.length := by
  unfold appendCircuit at h
  split at h
  · simp at h
  · rename_i h1
    split at h
    · simp at h
    · rename_i h2
      split at h
      · rename_i og oc hog hoc
        simp only [Except.ok.injEq, Prod.mk.injEq] at h
        refine ⟨by omega, by simpa using h2, og, oc, hog, hoc, h.1.symm, h.2.symm⟩
      · simp at h

/-- `append_circuit`: the action of the result is the action of `self` followed by the other
circuit's gates relabelled through the qubit list -/
theorem appendCircuit_act' (sem : Sem M) {a b : Circ} {qs : List Nat} {nx : Nat} {r : Circ} {nx' : Nat}
    (h : appendCircuit a b qs nx = .ok (r, nx')) :
    act sem r = act sem a * actA sem (b.gates.map (fun h => relabelG qs h.g)) := by
  obtain ⟨_, _, og, oc, hog, _, rfl, _⟩ := appendCircuit_ok h
  have := (relabelFrom_some hog).1
  simp [act, actL, this]

theorem iaddCirc_act' (sem : Sem M) {a b : Circ} {nx : Nat} {r : Circ} {nx' : Nat}
    (h : iaddCirc a b nx = .ok (r, nx')) : act sem r = act sem a * act sem b := by
  unfold iaddCirc at h
  rw [appendCircuit_act' sem h]
  obtain ⟨_, _, og, oc, hog, _, _, _⟩ := appendCircuit_ok h
  have hw := (relabelFrom_some hog).2.2
  congr 1
  simp only [act, actL]
  congr 1
  apply List.map_congr_left
  intro g hg
  exact relabelG_range (fun x hx => by simpa using hw g hg x hx)

theorem add_act' (sem : Sem M) {a b : Circ} {nx : Nat} {r : Circ} {nx' : Nat}
    (h : add a b nx = .ok (r, nx')) : act sem r = act sem a * act sem b := by
  unfold add at h
  rw [iaddCirc_act' sem h]
  simp [deepcopy]

/-- when does `+=` go through: sizes fit and every wire of the operand is one of its qubits -/
theorem iaddCirc_isOk {a b : Circ} (nx : Nat) (hn : b.numQubits ≤ a.numQubits) (hb : b.wiresOk = true) :
    ∃ r nx', iaddCirc a b nx = .ok (r, nx') := by
  simp only [Circ.wiresOk, Bool.and_eq_true, List.all_eq_true, decide_eq_true_eq] at hb
  obtain ⟨og, hog⟩ := relabelFrom_isSome (qs := List.range b.numQubits) (l := b.gates) nx
    (fun h hh x hx => by simpa using hb.1 h hh x hx)
  obtain ⟨oc, hoc⟩ := relabelFrom_isSome (qs := List.range b.numQubits) (l := b.computed) (nx + b.gates.length)
    (fun h hh x hx => by simpa using hb.2 h hh x hx)
  refine ⟨{ a with gates := a.gates ++ og, computed := a.computed ++ oc },
    nx + b.gates.length + b.computed.length, ?_⟩
  unfold iaddCirc appendCircuit
  rw [if_neg (by omega), if_neg (by simp), hog, hoc]

/-! ## copy, repeat -/

theorem copy_act' (sem : Sem M) (c : Circ) (v : Bool) (nx : Nat) : act sem (copy c v nx).1 = act sem c := by
  cases v <;> simp [copy, deepcopy, act]
  exact actL_shift sem nx c.gates ▸ rfl

theorem repeatLoop_act (sem : Sem M) : ∀ (k : Nat) (acc o : Circ) (nx : Nat) (r : Circ) (nx' : Nat),
    repeatLoop k acc o nx = .ok (r, nx') → act sem r = act sem acc * act sem o ^ k
  | 0, acc, o, nx, r, nx', h => by
    simp only [repeatLoop, Except.ok.injEq, Prod.mk.injEq] at h
    simp [h.1]
  | k + 1, acc, o, nx, r, nx', h => by
    simp only [repeatLoop] at h
    split at h
    · simp at h
    · rename_i acc' nx2 hi
      rw [repeatLoop_act sem k acc' o nx2 r nx' h, iaddCirc_act' sem hi, copy_act', pow_succ', mul_assoc]

theorem repeat_act' (sem : Sem M) (q : Quirks) (c : Circ) (n nx : Nat) (r : Circ) (nx' : Nat)
    (hn : n ≠ 0 ∨ q.repeatZero = false) (h : «repeat» q c n nx = .ok (r, nx')) :
    act sem r = act sem c ^ n := by
  unfold «repeat» at h
  simp only at h
  split at h
  · rename_i h0
    simp only [Except.ok.injEq, Prod.mk.injEq] at h
    rw [← h.1, h0.1]
    simp [act]
  · rename_i h0
    have hpos : n ≠ 0 := by
      rcases hn with hn | hn
      · exact hn
      · intro hz; exact h0 ⟨hz, hn⟩
    rw [repeatLoop_act sem _ _ _ _ _ _ h, copy_act', copy_act', ← pow_succ']
    congr 1
    omega

/-! ## the heap: frames and freshness -/

theorem HGate.write_of_ne {w : Write} {h : HGate} (hne : h.wid ≠ w.target) : h.write w = h := by
  cases w <;> simp_all [HGate.write, Write.target]

/-- a heap write whose target is not reachable from the circuit does not change what the
circuit looks like -/
theorem apply_frame (w : Write) (c : Circ) (h : w.target ∉ c.objs) : c.apply w = c := by
  simp only [Circ.objs, List.mem_cons, List.mem_append, List.mem_map, not_or, not_exists, not_and] at h
  obtain ⟨h1, h2, h3, h4, h5⟩ := h
  have hg : c.gates.map (HGate.write w) = c.gates := by
    conv => rhs; rw [← List.map_id c.gates]
    apply List.map_congr_left
    intro x hx
    exact HGate.write_of_ne (fun e => h4 x hx e)
  have hc : c.computed.map (HGate.write w) = c.computed := by
    conv => rhs; rw [← List.map_id c.computed]
    apply List.map_congr_left
    intro x hx
    exact HGate.write_of_ne (fun e => h5 x hx e)
  have e1 : c.gatesId ≠ w.target := fun e => h1 e.symm
  have e2 : c.computedId ≠ w.target := fun e => h2 e.symm
  have e3 : c.qmapId ≠ w.target := fun e => h3 e.symm
  cases c
  cases w <;> simp_all [Circ.apply, listWrite, mapWrite, Write.target]

/-- every mutable object reachable from the circuit has id `≥ lo` -/
def Circ.objsFrom (c : Circ) (lo : Nat) : Prop := ∀ o ∈ c.objs, lo ≤ o
/-- every gate object of the circuit has id `≥ lo` -/
def Circ.gidsFrom (c : Circ) (lo : Nat) : Prop := ∀ o ∈ c.gids, lo ≤ o

theorem objsFrom_iff (c : Circ) (lo : Nat) : c.objsFrom lo ↔
    lo ≤ c.gatesId ∧ lo ≤ c.computedId ∧ lo ≤ c.qmapId ∧ (∀ h ∈ c.gates, lo ≤ h.wid) ∧
      (∀ h ∈ c.computed, lo ≤ h.wid) := by
  simp only [Circ.objsFrom, Circ.objs, List.mem_cons, List.mem_append, List.mem_map]
  constructor
  · intro h
    exact ⟨h _ (Or.inl rfl), h _ (Or.inr (Or.inl rfl)), h _ (Or.inr (Or.inr (Or.inl rfl))),
      fun g hg => h _ (Or.inr (Or.inr (Or.inr (Or.inl ⟨g, hg, rfl⟩)))),
      fun g hg => h _ (Or.inr (Or.inr (Or.inr (Or.inr ⟨g, hg, rfl⟩))))⟩
  · rintro ⟨h1, h2, h3, h4, h5⟩ o ho
    rcases ho with rfl | rfl | rfl | ⟨g, hg, rfl⟩ | ⟨g, hg, rfl⟩
    · exact h1
    · exact h2
    · exact h3
    · exact h4 g hg
    · exact h5 g hg

theorem objsFrom_disjoint {c r : Circ} {nx : Nat} (hc : c.below nx) (hr : r.objsFrom nx) :
    ∀ o ∈ r.objs, o ∉ c.objs := fun o ho hoc => by
  have := hc.1 o hoc
  have := hr o ho
  omega

theorem gidsFrom_disjoint {c r : Circ} {nx : Nat} (hc : c.below nx) (hr : r.gidsFrom nx) :
    ∀ o ∈ r.gids, o ∉ c.gids := fun o ho hoc => by
  have := hc.2 o hoc
  have := hr o ho
  omega

theorem objsFrom_mono {c : Circ} {lo lo' : Nat} (h : c.objsFrom lo) (hl : lo' ≤ lo) : c.objsFrom lo' :=
  fun o ho => Nat.le_trans hl (h o ho)

theorem shift_objsFrom (c : Circ) (k : Nat) : (c.shift k).objsFrom k := by
  rw [objsFrom_iff]
  simp only [Circ.shift, List.mem_map]
  refine ⟨by omega, by omega, by omega, ?_, ?_⟩ <;>
  · rintro h ⟨g, _, rfl⟩
    simp [HGate.shift]

theorem shift_gidsFrom (c : Circ) (k : Nat) : (c.shift k).gidsFrom k := by
  intro o ho
  simp only [Circ.gids, Circ.shift, List.mem_append, List.mem_map] at ho
  rcases ho with ⟨h, ⟨g, _, rfl⟩, rfl⟩ | ⟨h, ⟨g, _, rfl⟩, rfl⟩ <;> simp [HGate.shift]

theorem copy_objsFrom (c : Circ) (v : Bool) (nx : Nat) : (copy c v nx).1.objsFrom nx := by
  cases v
  · exact shift_objsFrom c nx
  · rw [objsFrom_iff]
    simp only [copy, if_true, List.mem_map]
    refine ⟨by omega, by omega, by omega, ?_, by simp⟩
    rintro h ⟨g, _, rfl⟩
    simp [HGate.shift]

theorem copy_gidsFrom (c : Circ) (v : Bool) (nx : Nat) : (copy c v nx).1.gidsFrom nx := by
  cases v
  · exact shift_gidsFrom c nx
  · intro o ho
    simp only [copy, if_true, Circ.gids, List.mem_append, List.mem_map, List.map_nil, List.not_mem_nil,
      or_false] at ho
    obtain ⟨h, ⟨g, _, rfl⟩, rfl⟩ := ho
    simp [HGate.shift]

theorem copy_next_le (c : Circ) (v : Bool) (nx : Nat) : nx ≤ (copy c v nx).2 := by
  cases v <;> simp [copy, deepcopy]; omega

/-- `append_circuit` keeps the objects of `self` and adds only objects allocated by the call -/
theorem appendCircuit_objsFrom {a b : Circ} {qs : List Nat} {nx : Nat} {r : Circ} {nx' : Nat} {lo : Nat}
    (h : appendCircuit a b qs nx = .ok (r, nx')) (ha : a.objsFrom lo) (hl : lo ≤ nx) :
    r.objsFrom lo ∧ nx ≤ nx' := by
  obtain ⟨_, _, og, oc, hog, hoc, rfl, rfl⟩ := appendCircuit_ok h
  rw [objsFrom_iff] at ha ⊢
  obtain ⟨h1, h2, h3, h4, h5⟩ := ha
  have wg : ∀ g ∈ og, nx ≤ g.wid := fun g hg => by
    have : g.wid ∈ og.map (·.wid) := List.mem_map.mpr ⟨g, hg, rfl⟩
    rw [(relabelFrom_some hog).2.1] at this
    exact (List.mem_range'_1.mp this).1
  have wc : ∀ g ∈ oc, nx ≤ g.wid := fun g hg => by
    have : g.wid ∈ oc.map (·.wid) := List.mem_map.mpr ⟨g, hg, rfl⟩
    rw [(relabelFrom_some hoc).2.1] at this
    have := (List.mem_range'_1.mp this).1
    omega
  refine ⟨⟨h1, h2, h3, ?_, ?_⟩, by omega⟩
  · intro g hg
    rcases List.mem_append.mp hg with hg | hg
    · exact h4 g hg
    · exact Nat.le_trans hl (wg g hg)
  · intro g hg
    rcases List.mem_append.mp hg with hg | hg
    · exact h5 g hg
    · exact Nat.le_trans hl (wc g hg)

/-- the wire lists made by `append_circuit` are new objects: none of them is reachable from the
appended circuit (or anything else allocated before) -/
theorem appendCircuit_new_wires {a b : Circ} {qs : List Nat} {nx : Nat} {r : Circ} {nx' : Nat}
    (h : appendCircuit a b qs nx = .ok (r, nx')) :
    ∃ og oc, r.gates = a.gates ++ og ∧ r.computed = a.computed ++ oc ∧
      (∀ g ∈ og ++ oc, nx ≤ g.wid) ∧ r.gatesId = a.gatesId ∧ r.computedId = a.computedId ∧
      r.qmapId = a.qmapId ∧ r.qmap = a.qmap ∧ r.numQubits = a.numQubits := by
  obtain ⟨_, _, og, oc, hog, hoc, rfl, rfl⟩ := appendCircuit_ok h
  refine ⟨og, oc, rfl, rfl, ?_, rfl, rfl, rfl, rfl, rfl⟩
  intro g hg
  rcases List.mem_append.mp hg with hg | hg
  · have : g.wid ∈ og.map (·.wid) := List.mem_map.mpr ⟨g, hg, rfl⟩
    rw [(relabelFrom_some hog).2.1] at this
    exact (List.mem_range'_1.mp this).1
  · have : g.wid ∈ oc.map (·.wid) := List.mem_map.mpr ⟨g, hg, rfl⟩
    rw [(relabelFrom_some hoc).2.1] at this
    have := (List.mem_range'_1.mp this).1
    omega

theorem add_objsFrom {a b : Circ} {nx : Nat} {r : Circ} {nx' : Nat} (h : add a b nx = .ok (r, nx')) :
    r.objsFrom nx := by
  unfold add iaddCirc at h
  exact (appendCircuit_objsFrom h (shift_objsFrom a nx) (by simp [deepcopy])).1

theorem repeatLoop_objsFrom {lo : Nat} : ∀ (k : Nat) (acc o : Circ) (nx : Nat) (r : Circ) (nx' : Nat),
    repeatLoop k acc o nx = .ok (r, nx') → acc.objsFrom lo → lo ≤ nx → r.objsFrom lo
  | 0, acc, o, nx, r, nx', h, ha, _ => by
    simp only [repeatLoop, Except.ok.injEq, Prod.mk.injEq] at h
    exact h.1 ▸ ha
  | k + 1, acc, o, nx, r, nx', h, ha, hl => by
    simp only [repeatLoop] at h
    split at h
    · simp at h
    · rename_i acc' nx2 hi
      have hc := copy_next_le o false nx
      have := appendCircuit_objsFrom hi ha (Nat.le_trans hl hc)
      exact repeatLoop_objsFrom k acc' o nx2 r nx' h this.1 (by omega)

theorem repeat_objsFrom {q : Quirks} {c : Circ} {n nx : Nat} {r : Circ} {nx' : Nat}
    (h : «repeat» q c n nx = .ok (r, nx')) : r.objsFrom nx := by
  unfold «repeat» at h
  simp only at h
  have h1 := copy_next_le c false nx
  have h2 := copy_next_le c false (copy c false nx).2
  have hc := copy_objsFrom c false (copy c false nx).2
  split at h
  · simp only [Except.ok.injEq, Prod.mk.injEq] at h
    rw [← h.1, objsFrom_iff]
    rw [objsFrom_iff] at hc
    refine ⟨by simp; omega, by simp; omega, by simpa using Nat.le_trans h1 hc.2.2.1, by simp, by simp⟩
  · exact repeatLoop_objsFrom _ _ _ _ _ _ h (objsFrom_mono hc h1) (by omega)

/-! ## remove_identities -/

theorem actL_reverse_cons (sem : Sem M) (g : HGate) (res : List HGate) :
    actL sem (g :: res).reverse = actL sem res.reverse * gsem sem g.g := by
  simp

/-- python tuple equality on well-formed heaps (the gate object determines its class) gives
equal applied gates -/
theorem sameApplied_eq {g h : HGate} (hs : sameApplied g h = true) (hc : g.g.gid = h.g.gid → g.g.cls = h.g.cls) :
    g.g = h.g := by
  simp only [sameApplied, Bool.and_eq_true, beq_iff_eq] at hs
  obtain ⟨⟨h1, h2⟩, h3⟩ := hs
  have := hc h1
  cases hg : g.g; cases hh : h.g
  simp_all

theorem popBarrier_act (sem : Sem M) {q : Quirks} {res res' : List HGate}
    (hbar : ∀ g ∈ res, g.g.cls = .Barrier → gsem sem g.g = 1) (h : popBarrier q res = .ok res') :
    actL sem res'.reverse = actL sem res.reverse ∧ ∀ g ∈ res', g ∈ res := by
  cases res with
  | nil =>
    simp only [popBarrier] at h
    split at h
    · simp at h
    · simp only [Except.ok.injEq] at h; subst h; simp
  | cons r rs =>
    simp only [popBarrier] at h
    split at h
    · rename_i hb
      simp only [Except.ok.injEq] at h; subst h
      have := hbar r List.mem_cons_self (by simpa using hb)
      refine ⟨by simp [this], fun g hg => List.mem_cons_of_mem _ hg⟩
    · simp only [Except.ok.injEq] at h; subst h; simp

/-- loop invariant of `remove_identities`: kept gates · remaining gates is constant, when the
cancelled gates square to 1 and barriers act as 1 -/
theorem riLoop_act (sem : Sem M) (q : Quirks) (S : HGate → Prop)
    (hgid : ∀ g h, S g → S h → g.g.gid = h.g.gid → g.g.cls = h.g.cls)
    (hsq : ∀ g, S g → canCancel q g = true → gsem sem g.g * gsem sem g.g = 1)
    (hbar : ∀ g, S g → g.g.cls = .Barrier → gsem sem g.g = 1) :
    ∀ (fuel : Nat) (l res r : List HGate), (∀ g ∈ l, S g) → (∀ g ∈ res, S g) →
      riLoop q fuel l res = .ok r → actL sem r = actL sem res.reverse * actL sem l
  | 0, l, res, r, _, _, h => by
    simp only [riLoop, Except.ok.injEq] at h; subst h; simp
  | fuel + 1, [], res, r, _, _, h => by
    simp only [riLoop, Except.ok.injEq] at h; subst h; simp
  | fuel + 1, [g], res, r, _, _, h => by
    simp only [riLoop, Except.ok.injEq] at h; subst h; simp
  | fuel + 1, g :: h0 :: rest, res, r, hl, hres, h => by
    have Sg : S g := hl g (by simp)
    have Sh : S h0 := hl h0 (by simp)
    have hrest : ∀ x ∈ rest, S x := fun x hx => hl x (by simp [hx])
    have htl : ∀ x ∈ h0 :: rest, S x := fun x hx => hl x (List.mem_cons_of_mem _ hx)
    have hres' : ∀ x ∈ g :: res, S x := fun x hx => by
      rcases List.mem_cons.mp hx with rfl | hx
      · exact Sg
      · exact hres x hx
    have keep : ∀ r, riLoop q fuel (h0 :: rest) (g :: res) = .ok r →
        actL sem r = actL sem res.reverse * actL sem (g :: h0 :: rest) := fun r hr => by
      rw [riLoop_act sem q S hgid hsq hbar fuel (h0 :: rest) (g :: res) r htl hres' hr]
      simp [mul_assoc]
    simp only [riLoop] at h
    split at h
    · -- adjacent identical pair
      rename_i hc
      simp only [Bool.and_eq_true] at hc
      split at h
      · simp at h
      · rename_i res' hp
        have hpb := popBarrier_act sem (fun x hx => hbar x (hres x hx)) hp
        rw [riLoop_act sem q S hgid hsq hbar fuel rest res' r hrest (fun x hx => hres x (hpb.2 x hx)) h, hpb.1]
        have e : g.g = h0.g := sameApplied_eq hc.1 (hgid g h0 Sg Sh)
        have := hsq g Sg hc.2
        simp only [actL_cons, ← e]
        rw [← mul_assoc (gsem sem g.g), this, one_mul]
    · cases rest with
      | nil => exact keep r h
      | cons k rest' =>
        simp only at h
        split at h
        · rename_i hc
          simp only [Bool.and_eq_true, beq_iff_eq] at hc
          have Sk : S k := hl k (by simp)
          split at h
          · simp at h
          · rename_i res' hp
            have hpb := popBarrier_act sem (fun x hx => hbar x (hres x hx)) hp
            rw [riLoop_act sem q S hgid hsq hbar fuel rest' res' r (fun x hx => hl x (by simp [hx]))
              (fun x hx => hres x (hpb.2 x hx)) h, hpb.1]
            have e : g.g = k.g := sameApplied_eq hc.1.1 (hgid g k Sg Sk)
            have hb := hbar h0 Sh hc.1.2
            have := hsq g Sg hc.2
            simp only [actL_cons, ← e, hb, one_mul]
            rw [← mul_assoc (gsem sem g.g), this, one_mul]
        · exact keep r h

/-- the defect-free runs of the loop do not depend on the quirk flags -/
theorem riLoop_noTrigger (q : Quirks) : ∀ (fuel : Nat) (l res : List HGate),
    riTriggers fuel l res = false → riLoop q fuel l res = riLoop Quirks.none fuel l res
  | 0, l, res, _ => rfl
  | fuel + 1, [], res, _ => rfl
  | fuel + 1, [g], res, _ => rfl
  | fuel + 1, g :: h0 :: rest, res, ht => by
    simp only [riTriggers] at ht
    simp only [riLoop]
    have pb : ∀ res : List HGate, res.isEmpty = false →
        popBarrier q res = .ok (popBarrierOk res) ∧ popBarrier Quirks.none res = .ok (popBarrierOk res) := by
      intro res hne
      cases res with
      | nil => simp at hne
      | cons r rs => simp only [popBarrier, popBarrierOk]; split <;> simp
    by_cases hs : sameApplied g h0 = true
    · simp only [hs, if_true, Bool.or_eq_false_iff, Bool.not_eq_false'] at ht
      obtain ⟨⟨hsi, hne⟩, hrec⟩ := ht
      simp only [hs, canCancel, hsi, Bool.or_true, Bool.and_self, if_true]
      rw [(pb res hne).1, (pb res hne).2]
      exact riLoop_noTrigger q fuel rest _ hrec
    · simp only [hs, Bool.false_and, Bool.false_eq_true, if_false] at ht ⊢
      cases rest with
      | nil => exact riLoop_noTrigger q fuel _ _ ht
      | cons k rest' =>
        simp only at ht ⊢
        by_cases hs2 : (sameApplied g k && h0.g.cls == GClass.Barrier) = true
        · simp only [hs2, if_true, Bool.or_eq_false_iff, Bool.not_eq_false'] at ht
          obtain ⟨⟨hsi, hne⟩, hrec⟩ := ht
          simp only [hs2, canCancel, hsi, Bool.or_true, Bool.and_self, if_true]
          rw [(pb res hne).1, (pb res hne).2]
          exact riLoop_noTrigger q fuel rest' _ hrec
        · simp only [hs2, Bool.false_and, Bool.false_eq_true, if_false] at ht ⊢
          exact riLoop_noTrigger q fuel _ _ ht

end QV.CircuitOps
