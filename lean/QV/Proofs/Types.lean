import QV.Model.Types
import QV.Proofs.Bits
/-! Helper lemmas for the codec model (`QV.Model.Types`). -/
namespace QV.Types
open QV

theorem qintFromBool_eq {w : Nat} {bs : List Bool} (h : bs ≠ []) :
    qintFromBool w bs = some (valLE bs % 2 ^ w) := by
  unfold qintFromBool qintInit
  rw [pyInt2_boolListToBin (by simpa using h), valBE_reverse]; rfl

theorem qintToBool_eq {w v : Nat} (h : v < 2 ^ w) : qintToBool w v = toBitsLE w v :=
  binToBoolList_pyBin_reverse h

theorem fillBits_bitsLE {w v : Nat} (h : v < 2 ^ w) : fillBits w (bitsLE v) = toBitsLE w v := by
  unfold fillBits
  have hl := bitsLE_length_le h
  split
  · have : (bitsLE v).length = w := by omega
    have hp := bitsLE_pad h
    rw [this] at hp; simpa using hp
  · exact bitsLE_pad h

theorem fillBits_false {w : Nat} (hw : 0 < w) : fillBits w [false] = toBitsLE w 0 := by
  have h1 : ([false] : List Bool).length = 1 := rfl
  apply valLE_inj
  · unfold fillBits; rw [h1]; split
    · rw [h1, toBitsLE_length]; omega
    · simp; omega
  · unfold fillBits; split <;> simp [valLE_append, valLE_replicate_false, valLE_toBitsLE]

theorem qintConst_eq {w : Nat} (hw : 0 < w) (v : Nat) : qintConst w v = toBitsLE w v := by
  unfold qintConst
  simp only [binDigits_bools]
  have hlt : v % 2 ^ w < 2 ^ w := Nat.mod_lt _ (Nat.pow_pos (by decide))
  split
  · next h0 =>
    rw [List.reverse_singleton, fillBits_false hw, ← toBitsLE_mod w v, h0]
  · rw [List.reverse_reverse, fillBits_bitsLE hlt, toBitsLE_mod]

/-! ### Qchar -/

theorem qcharToBool_eq {c : Nat} (h : c < 256) : qcharToBool c = toBitsLE 8 c :=
  binToBoolList_pyBin_reverse (w := 8) h

theorem qcharFromBool_eq {bs : List Bool} (h : bs.length = 8) : qcharFromBool bs = some (valLE bs) := by
  unfold qcharFromBool
  have hne : bs.reverse ≠ [] := by intro h0; simp at h0; subst h0; simp at h
  have : (boolListToBin bs).reverse = boolListToBin bs.reverse := by simp [boolListToBin]
  rw [this, pyInt2_boolListToBin hne, valBE_reverse]
  have := valLE_lt bs
  rw [h] at this
  simp only
  split
  · rfl
  · omega

theorem binToBoolList_pyBin_none (n : Nat) :
    binToBoolList (pyBin n) none = (binDigits n).map (· == '1') := by
  unfold binToBoolList
  simp [strip0b_pyBin]

theorem qcharConst_eq {c : Nat} (h : c < 256) : qcharConst c = toBitsLE 8 c := by
  unfold qcharConst
  rw [binToBoolList_pyBin_none, binDigits_bools]
  split
  · next h0 => subst h0; decide
  · rw [List.reverse_reverse]; exact fillBits_bitsLE (w := 8) h

/-! ### Qfixed -/

theorem fracVal_eq (F : Nat) (l : List Bool) : ∀ i, i + l.length = F → fracVal F i l = valBE l := by
  induction l with
  | nil => intro i _; rfl
  | cons b bs ih =>
    intro i h
    simp only [List.length_cons] at h
    rw [fracVal, valBE_cons, ih (i + 1) (by omega)]
    have : F - (i + 1) = bs.length := by omega
    rw [this]; cases b <;> simp

theorem fracLoop_length (F k c : Nat) : (fracLoop F k c).length = k := by
  induction k generalizing c with
  | zero => rfl
  | succ k ih => simp [fracLoop, ih]

theorem bit_of_lt_two {x : Nat} (h : x < 2) : (if (x == 1) = true then 1 else 0) = x := by
  have : x = 0 ∨ x = 1 := by omega
  rcases this with h | h <;> simp [h]

theorem fracLoop_val (F : Nat) : ∀ (k c acc : Nat),
    valBEacc acc (fracLoop F k c) = acc * 2 ^ k + ((c % 2 ^ F) * 2 ^ k) / 2 ^ F := by
  intro k
  induction k with
  | zero =>
    intro c acc
    have hP : 0 < 2 ^ F := Nat.pow_pos (by decide)
    have := Nat.mod_lt c hP
    simp [fracLoop, valBEacc, Nat.div_eq_of_lt this]
  | succ k ih =>
    intro c acc
    have hP : 0 < 2 ^ F := Nat.pow_pos (by decide)
    have hm := Nat.mod_lt c hP
    simp only [fracLoop, valBEacc, List.foldl_cons]
    have ih' := ih (2 * (c % 2 ^ F)) (2 * acc + (if (2 * (c % 2 ^ F) / 2 ^ F == 1) = true then 1 else 0))
    simp only [valBEacc] at ih'
    rw [ih']
    have hq : 2 * (c % 2 ^ F) / 2 ^ F < 2 := by
      apply Nat.div_lt_of_lt_mul; omega
    rw [bit_of_lt_two hq]
    -- 2m = q P + r
    generalize hmm : c % 2 ^ F = m at *
    have hdm := Nat.div_add_mod (2 * m) (2 ^ F)
    generalize hq' : 2 * m / 2 ^ F = q at *
    generalize hr' : 2 * m % 2 ^ F = r at *
    have e : m * 2 ^ (k + 1) = r * 2 ^ k + (q * 2 ^ k) * 2 ^ F := by
      have : m * 2 ^ (k + 1) = (2 * m) * 2 ^ k := by rw [Nat.pow_succ]; ring
      rw [this, ← hdm]; ring
    rw [e, Nat.add_mul_div_right _ _ hP, Nat.pow_succ]; ring

theorem fracLoop_eq (F sv : Nat) : fracLoop F F sv = (toBitsLE F sv).reverse := by
  apply valBE_inj
  · simp [fracLoop_length]
  · rw [valBE_reverse, valLE_toBitsLE, valBE_eq, fracLoop_val]
    simp [Nat.mul_div_cancel _ (Nat.pow_pos (by decide : 0 < 2))]

theorem qfixedIntBits_eq (I n : Nat) : qfixedIntBits I n = toBitsLE I n := by
  unfold qfixedIntBits
  rw [binToBoolList_pyBin_reverse (Nat.mod_lt _ (Nat.pow_pos (by decide))), toBitsLE_mod]

theorem qfixedToBool_eq (I F sv : Nat) :
    qfixedToBool I F sv = toBitsLE I (sv / 2 ^ F) ++ (toBitsLE F sv).reverse := by
  unfold qfixedToBool; rw [qfixedIntBits_eq, fracLoop_eq]

theorem qfixedFromBool_eq {I F : Nat} {bs : List Bool} (hI : 0 < I) (hl : bs.length = I + F) :
    qfixedFromBool I F bs = some (valLE (bs.take I) * 2 ^ F + valBE (bs.drop I)) := by
  unfold qfixedFromBool
  have hne : (bs.take I).reverse ≠ [] := by
    intro h0
    have h1 : (bs.take I).reverse.length = I := by
      rw [List.length_reverse, List.length_take]; omega
    rw [h0] at h1; simp at h1; omega
  simp only
  rw [pyInt2_boolListToBin hne, valBE_reverse]
  simp only
  rw [fracVal_eq F (bs.drop I) 0 (by simp [hl])]

end QV.Types
