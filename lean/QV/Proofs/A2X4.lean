import QV.Proofs.A2X3
/-! Expression-level rewrites of `ast2ast`, part 4: `min` / `max` (`__call_minmax`) and `ord` / `chr`.

`max(a0, …, an)` becomes `a0 if (a0 > a1 and … and a0 > an) else max(a1, …, an)`; `min` the same with `<=`.  The chain
over expressions whose values are `Qint[w]` numbers evaluates to python's `max` / `min` of the numbers - also with ties
(`a0 > a1` is false when the two are equal, the rest is taken, and the rest then holds the maximum). -/
namespace QV.A2A
open QV QV.Front QV.Sem

set_option linter.unusedSimpArgs false
set_option linter.unusedVariables false

/-! ### python's meaning -/

/-- python's `max(v0, …, vn)` on naturals: the fold of the binary maximum from the first element (`0` for no element,
where python raises) -/
def pyMax : List Nat → Nat
  | [] => 0
  | v :: vs => vs.foldl max v

/-- python's `min(v0, …, vn)` on naturals -/
def pyMin : List Nat → Nat
  | [] => 0
  | v :: vs => vs.foldl min v

/-! ### syntax: what `__call_minmax` returns -/

/-- `x0 if (x0 op x1 and … and x0 op xn) else (… xn)`: what `minmaxChain` returns on a non-empty list -/
def minmaxE (op : String) : SExp → List SExp → SExp
  | x, [] => x
  | x, y :: ys => .ite (.boolop true (cmpAll op x (y :: ys))) x (minmaxE op y ys)

theorem minmaxChain_cons (op : String) : ∀ (x : SExp) (xs : List SExp), minmaxChain op (x :: xs) = .ok (minmaxE op x xs)
  | x, [] => by simp [minmaxChain, minmaxE, pure, Except.pure]
  | x, y :: ys => by
    simp [minmaxChain, minmaxE, minmaxChain_cons op y ys, bind, Except.bind, pure, Except.pure]

/-- the chain over any expressions -/
def minmaxP (op : String) : PExp → List PExp → PExp
  | x, [] => x
  | x, y :: ys => .ite (.boolop true ((y :: ys).map fun z => .cmp op x z)) x (minmaxP op y ys)

theorem toPs_cmpAll (op : String) (x : SExp) : ∀ ys : List SExp,
    toPs (cmpAll op x ys) = (toPs ys).map fun z => .cmp op (toP x) z
  | [] => by simp [cmpAll, toPs]
  | y :: ys => by simp [cmpAll, toPs, toP, toPs_cmpAll op x ys]

theorem toP_minmaxE (op : String) : ∀ (x : SExp) (xs : List SExp),
    toP (minmaxE op x xs) = minmaxP op (toP x) (toPs xs)
  | x, [] => by simp [minmaxE, minmaxP, toPs]
  | x, y :: ys => by
    have h := toPs_cmpAll op x (y :: ys)
    simp only [toPs] at h
    simp only [minmaxE, minmaxP, toP, toPs, h, toP_minmaxE op y ys]

/-- one argument: it is unrolled (`strict`) -/
theorem visitCall_max1 (st : RSt) (a : SExp) (xs : List SExp) (h : unrollArg st true a = .ok xs) :
    visitCall st "max" [a] = minmaxChain "Gt" xs := by
  simp [visitCall, h, bind, Except.bind]

theorem visitCall_min1 (st : RSt) (a : SExp) (xs : List SExp) (h : unrollArg st true a = .ok xs) :
    visitCall st "min" [a] = minmaxChain "LtE" xs := by
  simp [visitCall, h, bind, Except.bind]

/-- two or more arguments: the chain over the arguments themselves -/
theorem visitCall_maxk (st : RSt) (x y : SExp) (zs : List SExp) :
    visitCall st "max" (x :: y :: zs) = minmaxChain "Gt" (x :: y :: zs) := by
  simp [visitCall, bind, Except.bind, pure, Except.pure]

theorem visitCall_mink (st : RSt) (x y : SExp) (zs : List SExp) :
    visitCall st "min" (x :: y :: zs) = minmaxChain "LtE" (x :: y :: zs) := by
  simp [visitCall, bind, Except.bind, pure, Except.pure]

/-- the visitor on `fn(args)` when visiting the arguments gives `args'` -/
theorem visitE_callk (st : RSt) (fn : String) (args args' : List SExp) (h : visitEs st args = .ok args') :
    visitE st (.call fn args) = visitCall st fn args' := by
  simp [visitE, h, bind, Except.bind]

theorem visitEs_two (st : RSt) (a b a' b' : SExp) (ha : visitE st a = .ok a') (hb : visitE st b = .ok b') :
    visitEs st [a, b] = .ok [a', b'] := by
  simp [visitEs, ha, hb, bind, Except.bind, pure, Except.pure]

/-! ### meaning -/

/-- `R v` holds of every element iff it holds of their fold, when `R v (f a b) = R v a && R v b`
(`v > max a b`, `v ≤ min a b`) -/
theorem all_rel_foldl (R : Nat → Nat → Bool) (f : Nat → Nat → Nat)
    (h1 : ∀ v a b, R v (f a b) = (R v a && R v b)) (v : Nat) :
    ∀ (ys : List Nat) (y : Nat), (y :: ys).all (R v) = R v (ys.foldl f y)
  | [], y => by simp
  | z :: zs, y => by
    have ih := all_rel_foldl R f h1 v zs (f y z)
    simp only [List.all_cons, List.foldl_cons] at ih ⊢
    rw [← ih, h1, Bool.and_assoc]

theorem foldl_assoc_head (f : Nat → Nat → Nat) (ha : ∀ a b c, f (f a b) c = f a (f b c)) (v : Nat) :
    ∀ (ys : List Nat) (y : Nat), ys.foldl f (f v y) = f v (ys.foldl f y)
  | [], y => rfl
  | z :: zs, y => by
    simp only [List.foldl_cons]
    rw [ha, foldl_assoc_head f ha v zs (f y z)]

theorem cmp_bools (σ : SEnv) (w : Nat) (op : String) (R : Nat → Nat → Bool)
    (hop : ∀ a b, cmpNat op a b = some (R a b)) (e : PExp) (v : Nat) (he : semW σ e = some (.int w v)) :
    ∀ (es : List PExp) (vs : List Nat), List.Forall₂ (fun e v => semW σ e = some (.int w v)) es vs →
      List.Forall₂ (fun e b => semW σ e = some (.bool b)) (es.map fun z => .cmp op e z) (vs.map (R v))
  | [], vs, h => by cases h; exact .nil
  | y :: ys, vs, h => by
    cases h with
    | cons hy hys =>
      simp only [List.map_cons]
      exact .cons (by simp [semW, he, hy, hop]) (cmp_bools σ w op R hop e v he ys _ hys)

/-- the chain of `__call_minmax` over expressions whose values are `Qint[w]` numbers: the fold of `f` over the numbers,
for a comparison `op` (meaning `R`) and a binary `f` with `R v (f a b) = R v a && R v b`, `(v if R v m else m) = f v m`
and `f` associative - `>` and `max`, `<=` and `min` -/
theorem minmaxP_fold (σ : SEnv) (w : Nat) (op : String) (R : Nat → Nat → Bool) (f : Nat → Nat → Nat)
    (hop : ∀ a b, cmpNat op a b = some (R a b)) (h1 : ∀ v a b, R v (f a b) = (R v a && R v b))
    (h2 : ∀ v m, (if R v m = true then v else m) = f v m) (ha : ∀ a b c, f (f a b) c = f a (f b c)) :
    ∀ (es : List PExp) (vs : List Nat) (e : PExp) (v : Nat), semW σ e = some (.int w v) →
      List.Forall₂ (fun e v => semW σ e = some (.int w v)) es vs →
      semW σ (minmaxP op e es) = some (.int w (vs.foldl f v))
  | [], vs, e, v, he, h => by
    cases h
    simpa [minmaxP] using he
  | y :: ys, vs, e, v, he, h => by
    cases h with
    | cons hy hys =>
      rename_i vy vys
      have ih := minmaxP_fold σ w op R f hop h1 h2 ha ys vys y vy hy hys
      have hb := cmp_bools σ w op R hop e v he (y :: ys) (vy :: vys) (.cons hy hys)
      simp only [List.map_cons] at hb
      have htest := boolop_value σ true _ _ _ _ hb
      simp only [if_true, ← List.map_cons, List.all_map] at htest
      have hall : ((vy :: vys).all (id ∘ R v)) = R v (vys.foldl f vy) := all_rel_foldl R f h1 v vys vy
      rw [hall] at htest
      simp only [List.map_cons] at htest
      simp only [minmaxP, List.map_cons, semW_ite, htest, he, ih, selW, Nat.max_self, List.foldl_cons]
      rw [h2, foldl_assoc_head f ha]

/-- **`max`**: the chain with `>` has the value `pyMax` of the values (ties included) -/
theorem maxP_value (σ : SEnv) (w : Nat) (e : PExp) (es : List PExp) (v : Nat) (vs : List Nat)
    (h : List.Forall₂ (fun e v => semW σ e = some (.int w v)) (e :: es) (v :: vs)) :
    semW σ (minmaxP "Gt" e es) = some (.int w (pyMax (v :: vs))) := by
  cases h with
  | cons he hes =>
    exact minmaxP_fold σ w "Gt" (fun a b => decide (a > b)) max (fun a b => rfl)
      (fun v a b => by
        by_cases h1 : v > a <;> by_cases h2 : v > b <;> simp [h1, h2])
      (fun v m => by
        by_cases h : v > m <;> simp [h] <;> omega)
      (fun a b c => Nat.max_assoc a b c) es vs e v he hes

/-- **`min`**: the chain with `<=` has the value `pyMin` of the values -/
theorem minP_value (σ : SEnv) (w : Nat) (e : PExp) (es : List PExp) (v : Nat) (vs : List Nat)
    (h : List.Forall₂ (fun e v => semW σ e = some (.int w v)) (e :: es) (v :: vs)) :
    semW σ (minmaxP "LtE" e es) = some (.int w (pyMin (v :: vs))) := by
  cases h with
  | cons he hes =>
    exact minmaxP_fold σ w "LtE" (fun a b => decide (a ≤ b)) min (fun a b => rfl)
      (fun v a b => by
        by_cases h1 : v ≤ a <;> by_cases h2 : v ≤ b <;> simp [h1, h2])
      (fun v m => by
        by_cases h : v ≤ m <;> simp [h]
        omega)
      (fun a b c => Nat.min_assoc a b c) es vs e v he hes

/-! ### `ord` / `chr` -/

/-- `ord(a)` / `chr(a)` are their (visited) argument: a `Qchar` is its code point -/
theorem visitCall_ord (st : RSt) (a : SExp) : visitCall st "ord" [a] = .ok a := by
  simp [visitCall, pure, Except.pure]

theorem visitCall_chr (st : RSt) (a : SExp) : visitCall st "chr" [a] = .ok a := by
  simp [visitCall, pure, Except.pure]

end QV.A2A
