import QV.Proofs.CompilerGen8
import QV.Proofs.CompilerReplay
/-!
# Cleanliness on the general class – part 1: gate-list lemmas

* `uncomputeAll_exact`: the gates `uncompute_all(keep)` appends are, up to gate identity, the reversed gate
  list filtered by "not a barrier, target neither kept nor already free";
* `removeIdentities_filter_rev`: `remove_identities` does not change the action of the filtered reversed list
  (it removes adjacent equal pairs; a pair is kept or dropped by the filter as a whole);
* `runF_local`: a gate list on wires `< N` acts below `N` only and reads below `N` only.
-/
namespace QV.Compiler
open QV

/-! ### the exact replay list of `uncompute_all` -/

/-- what `uncompute_all`'s loop replays -/
def replayP (keep alreadyFree : List Nat) (g : AGate) : Bool :=
  !(g.cls.isNop || keep.contains g.target || alreadyFree.contains g.target)

theorem uncomputeAllLoop_exact {keep alreadyFree : List Nat} {off : Nat} :
    ∀ (gs : List AGate) {u : Unit} {s s' : CState},
    (uncomputeAllLoop keep alreadyFree off gs).run s = .ok (u, s') →
    ∃ extra, s'.qc.gates.toList = s.qc.gates.toList ++ extra ∧
      extra.map gcore = (gs.filter (replayP keep alreadyFree)).map gcore ∧
      s'.qc.qmap = s.qc.qmap ∧ s'.qc.numQubits = s.qc.numQubits
  | [], u, s, s', h => by
    unfold uncomputeAllLoop at h
    obtain ⟨_, rfl⟩ := run_pure_ok.mp h
    exact ⟨[], by simp, by simp, rfl, rfl⟩
  | g :: gs, u, s, s', h => by
    unfold uncomputeAllLoop at h
    dsimp only at h
    obtain ⟨qc, s1, hq, h1⟩ := run_bind_ok.mp h
    obtain ⟨rfl, rfl⟩ := getQC_run hq
    rcases run_ite_ok.mp h1 with ⟨hskip, k1⟩ | ⟨hns, k1⟩
    · obtain ⟨extra, e1, e2, e3, e4⟩ := uncomputeAllLoop_exact gs k1
      refine ⟨extra, e1, ?_, e3, e4⟩
      have : replayP keep alreadyFree g = false := by
        unfold replayP; rw [hskip]; rfl
      rw [e2, List.filter_cons, this]; rfl
    · have hP : replayP keep alreadyFree g = true := by
        unfold replayP
        cases hc : (g.cls.isNop || keep.contains g.target || alreadyFree.contains g.target) with
        | true => exact absurd hc hns
        | false => rfl
      have rest : ∀ {s2 : CState},
          StateT.run (do
            let b ← appendG g.cls g.wires (some (g.gid + off, g.gid))
            if b = true then do
              event "staleReplay"
              uncomputeAllLoop keep alreadyFree off gs
            else uncomputeAllLoop keep alreadyFree off gs : M Unit) s2 = .ok (u, s') →
          s2.qc.gates = s1.qc.gates → s2.qc.qmap = s1.qc.qmap →
          s2.qc.numQubits = s1.qc.numQubits →
          ∃ extra, s'.qc.gates.toList = s1.qc.gates.toList ++ extra ∧
            extra.map gcore = ((g :: gs).filter (replayP keep alreadyFree)).map gcore ∧ s'.qc.qmap = s1.qc.qmap ∧
            s'.qc.numQubits = s1.qc.numQubits := by
        intro s2 h2 hg2 hq2 hn2
        obtain ⟨b, s3, happ, h3⟩ := run_bind_ok.mp h2
        have ha := appendG_run happ
        obtain ⟨g', hgc, hgw, hgates, _⟩ := ha.gates
        have fin : ∀ {s4 : CState}, s4.qc = s3.qc →
            (uncomputeAllLoop keep alreadyFree off gs).run s4 = .ok (u, s') →
            ∃ extra, s'.qc.gates.toList = s1.qc.gates.toList ++ extra ∧
              extra.map gcore = ((g :: gs).filter (replayP keep alreadyFree)).map gcore ∧
              s'.qc.qmap = s1.qc.qmap ∧ s'.qc.numQubits = s1.qc.numQubits := by
          intro s4 hq4 h4
          obtain ⟨extra, e1, e2, e3, e4⟩ := uncomputeAllLoop_exact gs h4
          refine ⟨g' :: extra, ?_, ?_, ?_, ?_⟩
          · rw [e1, hq4, hgates, hg2]; simp
          · have hg : gcore g' = gcore g := by unfold gcore; rw [hgc, hgw]
            rw [List.filter_cons, hP]
            simp only [↓reduceIte, List.map_cons, e2, hg]
          · rw [e3, hq4, ha.qmap, hq2]
          · rw [e4, hq4, ha.nq, hn2]
        rcases run_ite_ok.mp h3 with ⟨_, h3⟩ | ⟨_, h3⟩
        · obtain ⟨u1, s4, hev, h4⟩ := run_bind_ok.mp h3
          have := event_run hev; subst this
          exact fin (s4 := { s3 with events := s3.events ++ ["staleReplay"] }) rfl h4
        · exact fin rfl h3
      rcases run_ite_ok.mp k1 with ⟨_, k2⟩ | ⟨_, k2⟩
      · obtain ⟨u1, s2, hm, h2⟩ := run_bind_ok.mp k2
        have := modQC_run hm; subst this
        exact rest h2 rfl rfl rfl
      · exact rest k2 rfl rfl rfl

/-- `uncompute_all(keep)` appends (up to gate identity) the reversed gate list without the barriers and the gates
whose target is kept or was free when it started -/
theorem uncomputeAll_exact {keep : List Nat} {u : Unit} {s s' : CState}
    (h : (uncomputeAll keep).run s = .ok (u, s')) :
    ∃ extra, s'.qc.gates.toList = s.qc.gates.toList ++ extra ∧
      extra.map gcore = ((s.qc.gates.toList.filter (replayP keep s.qc.free)).reverse).map gcore ∧
      s'.qc.qmap = s.qc.qmap ∧ s'.qc.numQubits = s.qc.numQubits := by
  unfold uncomputeAll at h
  obtain ⟨qc, s1, hq, h1⟩ := run_bind_ok.mp h
  obtain ⟨rfl, rfl⟩ := getQC_run hq
  obtain ⟨u1, s2, hloop, hm⟩ := run_bind_ok.mp h1
  obtain ⟨extra, e1, e2, e3, e4⟩ := uncomputeAllLoop_exact _ hloop
  have := modQC_run hm; subst this
  exact ⟨extra, e1, by rw [e2, List.filter_reverse], e3, e4⟩

/-! ### involutions on function states -/

theorem stepF_invol (g : AGate) (hm : g.cls.isMCXLike = true) (hnd : g.wires.Nodup) (hne : g.wires ≠ [])
    (f : FState) : stepF (stepF f g) g = f := by
  obtain ⟨cs, t, hw, _, _⟩ := wires_split hne
  have hstep : ∀ f', stepF f' g = applyF g f' := by
    intro f'; unfold stepF; rw [hm]; rfl
  have hnt : t ∉ cs := by
    rw [hw] at hnd
    intro hmem
    exact (List.nodup_append.mp hnd).2.2 t hmem t (by simp) rfl
  rw [hstep, hstep]
  funext q
  by_cases hq : q = t
  · subst hq
    rw [applyF_eq g cs q hw, applyF_eq g cs q hw]
    have : cs.all (applyF g f) = cs.all f :=
      all_congr' (fun c hc => applyF_ne g cs q hw f c (fun e => hnt (e ▸ hc)))
    rw [this]
    cases f q <;> cases cs.all f <;> rfl
  · rw [applyF_ne g cs t hw _ q hq, applyF_ne g cs t hw _ q hq]

/-- what the cancellation needs of a gate list: X/CX/MCX gates on distinct wires -/
def GatesInv (l : List AGate) : Prop := ∀ g ∈ l, g.cls.isMCXLike = true ∧ g.wires.Nodup ∧ g.wires ≠ []

theorem popBarrier_inv {res : List AGate} (h : GatesInv res) : popBarrier res = res := by
  unfold popBarrier
  cases res with
  | nil => rfl
  | cons r rs =>
    simp only
    have hm := (h r List.mem_cons_self).1
    have : (r.cls == GClass.Barrier) = false := by
      cases hc : r.cls <;> simp_all [GClass.isMCXLike]
    rw [this]; rfl

/-- **`remove_identities` under a filter, reversed**: for gate lists of X/CX/MCX gates on distinct wires the
filtered, reversed result of `remove_identities` acts like the filtered, reversed input -/
theorem removeIdentitiesLoop_filter_rev (P : AGate → Bool) : ∀ (fuel : Nat) (gs res : List AGate),
    gs.length < fuel → GatesInv gs → GatesInv res →
    ∀ f : FState, runF ((removeIdentitiesLoop fuel gs res).filter P).reverse f =
      runF ((res.reverse ++ gs).filter P).reverse f := by
  intro fuel
  induction fuel with
  | zero => intro gs res hl; omega
  | succ fuel ih =>
    intro gs res hl hgs hres f
    have pair : ∀ (g : AGate) (rest : List AGate), g ∈ gs →
        runF ((res.reverse ++ g :: g :: rest).filter P).reverse f =
          runF ((res.reverse ++ rest).filter P).reverse f := by
      intro g rest hg
      simp only [List.filter_append, List.reverse_append, List.filter_cons]
      cases hP : P g with
      | false => simp
      | true =>
        simp only [↓reduceIte, List.reverse_cons, List.append_assoc, runF_append]
        congr 1
        obtain ⟨h1, h2, h3⟩ := hgs g hg
        show stepF (stepF _ g) g = _
        exact stepF_invol g h1 h2 h3 _
    cases gs with
    | nil => simp [removeIdentitiesLoop]
    | cons g rest =>
      simp only [removeIdentitiesLoop]
      have hres' : GatesInv (g :: res) := by
        intro x hx
        rcases List.mem_cons.mp hx with rfl | hx
        · exact hgs _ List.mem_cons_self
        · exact hres x hx
      cases rest with
      | nil =>
        simp only
        have := ih [] (g :: res) (by simp at hl ⊢; omega) (by intro x hx; cases hx) hres' f
        simpa using this
      | cons g1 rest1 =>
        simp only
        by_cases e1 : (g.cls.isSelfInverse && g == g1) = true
        · simp only [e1, if_true]
          have eg : g = g1 := by
            simp only [Bool.and_eq_true] at e1; simpa using e1.2
          rw [popBarrier_inv hres]
          rw [ih rest1 res (by simp at hl ⊢; omega)
            (fun x hx => hgs x (by simp [hx])) hres f, ← eg]
          exact (pair g rest1 List.mem_cons_self).symm
        · simp only [e1, Bool.false_eq_true, if_false]
          cases rest1 with
          | nil =>
            simp only
            have := ih [g1] (g :: res) (by simp at hl ⊢; omega)
              (fun x hx => hgs x (by simp at hx; simp [hx])) hres' f
            simpa using this
          | cons g2 rest2 =>
            simp only
            have hb : (g1.cls == GClass.Barrier) = false := by
              have hm := (hgs g1 (by simp)).1
              cases hc : g1.cls <;> simp_all [GClass.isMCXLike]
            simp only [hb, Bool.and_false, Bool.false_eq_true, if_false]
            have := ih (g1 :: g2 :: rest2) (g :: res) (by simp at hl ⊢; omega)
              (fun x hx => hgs x (by simp at hx; simp [hx])) hres' f
            simpa using this

theorem removeIdentities_filter_rev (P : AGate → Bool) (gs : List AGate) (h : GatesInv gs) (f : FState) :
    runF ((removeIdentitiesList gs).filter P).reverse f = runF (gs.filter P).reverse f := by
  have := removeIdentitiesLoop_filter_rev P (gs.length + 1) gs [] (by omega) h (by intro x hx; cases hx) f
  simpa [removeIdentitiesList] using this

/-! ### gate lists on low wires -/

/-- a gate list whose wires are below `N` reads and writes below `N` only -/
theorem runF_local (N : Nat) : ∀ (l : List AGate) (f f' : FState),
    (∀ g ∈ l, g.cls.isMCXLike = true ∧ g.wires ≠ [] ∧ ∀ w ∈ g.wires, w < N) →
    (∀ q, q < N → f q = f' q) →
    (∀ q, q < N → runF l f q = runF l f' q) ∧ (∀ q, N ≤ q → runF l f q = f q)
  | [], f, f', _, hff => ⟨hff, fun _ _ => rfl⟩
  | g :: l, f, f', hl, hff => by
    obtain ⟨hm, hne, hw⟩ := hl g List.mem_cons_self
    obtain ⟨cs, t, hws, _, _⟩ := wires_split hne
    have hstep : ∀ f'', stepF f'' g = applyF g f'' := by
      intro f''; unfold stepF; rw [hm]; rfl
    have htN : t < N := hw t (by rw [hws]; simp)
    have hcsN : ∀ c ∈ cs, c < N := fun c hc => hw c (by rw [hws]; simp [hc])
    have hagree : ∀ q, q < N → stepF f g q = stepF f' g q := by
      intro q hq
      rw [hstep, hstep]
      by_cases hqt : q = t
      · subst hqt
        rw [applyF_eq g cs q hws, applyF_eq g cs q hws, hff q hq,
          all_congr' (fun c hc => hff c (hcsN c hc))]
      · rw [applyF_ne g cs t hws _ q hqt, applyF_ne g cs t hws _ q hqt, hff q hq]
    have hhigh : ∀ q, N ≤ q → stepF f g q = f q := by
      intro q hq
      rw [hstep, applyF_ne g cs t hws _ q (by omega)]
    obtain ⟨i1, i2⟩ := runF_local N l (stepF f g) (stepF f' g)
      (fun g' hg' => hl g' (List.mem_cons_of_mem _ hg')) hagree
    exact ⟨fun q hq => by rw [runF_cons, runF_cons]; exact i1 q hq,
      fun q hq => by rw [runF_cons, i2 q hq, hhigh q hq]⟩

end QV.Compiler
