import QV.Proofs.CompilerSem
import QV.Proofs.CompilerReplay
import QV.Proofs.CompilerBennett
import QV.Model.CompilerClass
/-!
# Cleanliness of the compiler model on the tree-like fragment

`CompilerSem.lean` proves what the result qubit holds.  This file proves the *shape* of the emitted
gate list that makes the inline `uncompute` a correct Bennett replay (`replay_clean`):

* every control of every gate is an argument qubit or a qubit that is marked at the end of the
  statement,
* no gate targets an argument qubit,
* every target is a marked qubit or the result qubit,

for every expression of the fragment (`overInputs`, `treeLike`).  The repaired `compile_or` folds
binary ors into new marked ancillas for more than two distinct argument qubits (`orChain_cl`,
`orWide_cl`) and applies no `X` gate to an argument qubit, so the former restriction to `Or`s with at
most two arguments (`smallOr`) is gone.  The shape is a two-state relation `Cl` with *pending* controls /
targets (qubits a later step of the caller still has to mark), one lemma per primitive, one per
`compile_*` branch (`exprCl_*`), tied by the same mutual structural recursion as `exprSem`.  `Cl` also
says that `kept_ancillas` does not change: `mark_ancilla` ignores kept ancillas, so "an ancilla gets
marked" holds from states with `kept = []` (the hypothesis `s.qc.kept = []` of the specifications; the
single statement of the fragment starts from such a state).  The semantic facts needed on the way
(cache misses, fresh ancillas, `Pre` at intermediate states) are taken from `exprSem` / `argsSem` /
`xorSem`.
-/
namespace QV.Compiler
open QV

/-! ### the relation -/

/-- shape of one gate: controls are argument qubits, marked qubits or pending (`Pc`); the target is
not an argument qubit and is marked or pending (`Pt`) -/
def GShape (n : Nat) (M : List Nat) (Pc Pt : Nat → Prop) (g : AGate) : Prop :=
  (∀ c ∈ g.wires.dropLast, c < n ∨ c ∈ M ∨ Pc c) ∧ n ≤ g.target ∧ (g.target ∈ M ∨ Pt g.target)

/-- what a piece of the compiler appended between `s` and `s'`: only gates of shape `GShape` with
respect to the marks of `s'`; `gates_computed` stays equal to `gates`; marks and ancillas only grow -/
structure Cl (n : Nat) (Pc Pt : Nat → Prop) (s s' : CState) : Prop where
  ext : ∃ new, s'.qc.gates.toList = s.qc.gates.toList ++ new ∧ ∀ g ∈ new, GShape n s'.qc.marked Pc Pt g
  comp : s.qc.gatesComputed = s.qc.gates → s'.qc.gatesComputed = s'.qc.gates
  mks : ∀ m ∈ s.qc.marked, m ∈ s'.qc.marked
  anc : ∀ m ∈ s.qc.anc, m ∈ s'.qc.anc
  kept : s'.qc.kept = s.qc.kept

abbrev NoP : Nat → Prop := fun _ => False

theorem Cl.quiet {n : Nat} {Pc Pt : Nat → Prop} {s s' : CState} (hg : s'.qc.gates = s.qc.gates)
    (hc : s'.qc.gatesComputed = s.qc.gatesComputed) (hm : ∀ m ∈ s.qc.marked, m ∈ s'.qc.marked)
    (ha : ∀ m ∈ s.qc.anc, m ∈ s'.qc.anc) (hk : s'.qc.kept = s.qc.kept) : Cl n Pc Pt s s' :=
  ⟨⟨[], by rw [hg]; simp, fun g hg' => by cases hg'⟩, fun h => by rw [hc, hg]; exact h, hm, ha, hk⟩

theorem Cl.refl {n : Nat} {Pc Pt : Nat → Prop} (s : CState) : Cl n Pc Pt s s :=
  Cl.quiet rfl rfl (fun _ h => h) (fun _ h => h) rfl

/-- `Cl` only looks at the circuit part of the states -/
theorem Cl.of_qc {n : Nat} {Pc Pt : Nat → Prop} {s s' t t' : CState} (h : Cl n Pc Pt s s')
    (e1 : t.qc = s.qc) (e2 : t'.qc = s'.qc) : Cl n Pc Pt t t' :=
  ⟨by rw [e1, e2]; exact h.ext, by rw [e1, e2]; exact h.comp, by rw [e1, e2]; exact h.mks,
   by rw [e1, e2]; exact h.anc, by rw [e1, e2]; exact h.kept⟩

/-- composition; pending qubits of both parts are discharged against the final marks or stay pending -/
theorem Cl.trans {n : Nat} {Pc1 Pt1 Pc2 Pt2 Pc Pt : Nat → Prop} {s s1 s2 : CState}
    (h1 : Cl n Pc1 Pt1 s s1) (h2 : Cl n Pc2 Pt2 s1 s2)
    (c1 : ∀ q, Pc1 q → q < n ∨ q ∈ s2.qc.marked ∨ Pc q)
    (t1 : ∀ q, n ≤ q → Pt1 q → q ∈ s2.qc.marked ∨ Pt q)
    (c2 : ∀ q, Pc2 q → q < n ∨ q ∈ s2.qc.marked ∨ Pc q)
    (t2 : ∀ q, n ≤ q → Pt2 q → q ∈ s2.qc.marked ∨ Pt q) : Cl n Pc Pt s s2 := by
  obtain ⟨new1, e1, g1⟩ := h1.ext
  obtain ⟨new2, e2, g2⟩ := h2.ext
  refine ⟨⟨new1 ++ new2, by rw [e2, e1, List.append_assoc], ?_⟩, fun h => h2.comp (h1.comp h),
    fun m hm => h2.mks m (h1.mks m hm), fun m hm => h2.anc m (h1.anc m hm), h2.kept.trans h1.kept⟩
  intro g hg
  rcases List.mem_append.mp hg with hg | hg
  · obtain ⟨a, b, c⟩ := g1 g hg
    refine ⟨fun w hw => ?_, b, ?_⟩
    · rcases a w hw with h | h | h
      · exact Or.inl h
      · exact Or.inr (Or.inl (h2.mks _ h))
      · exact c1 _ h
    · rcases c with h | h
      · exact Or.inl (h2.mks _ h)
      · exact t1 _ b h
  · obtain ⟨a, b, c⟩ := g2 g hg
    refine ⟨fun w hw => ?_, b, ?_⟩
    · rcases a w hw with h | h | h
      · exact Or.inl h
      · exact Or.inr (Or.inl h)
      · exact c2 _ h
    · rcases c with h | h
      · exact Or.inl h
      · exact t2 _ b h

theorem Cl.mono {n : Nat} {Pc1 Pt1 Pc Pt : Nat → Prop} {s s1 : CState} (h1 : Cl n Pc1 Pt1 s s1)
    (c1 : ∀ q, Pc1 q → q < n ∨ q ∈ s1.qc.marked ∨ Pc q)
    (t1 : ∀ q, n ≤ q → Pt1 q → q ∈ s1.qc.marked ∨ Pt q) : Cl n Pc Pt s s1 :=
  Cl.trans h1 (Cl.refl (Pc := NoP) (Pt := NoP) s1) c1 t1 (fun _ h => h.elim) (fun _ _ h => h.elim)

/-! ### primitives -/

theorem mem_setIns_iff {l : List Nat} {x y : Nat} : y ∈ setIns l x ↔ y ∈ l ∨ y = x := by
  unfold setIns
  split
  · next h =>
    constructor
    · exact Or.inl
    · rintro (h' | rfl)
      · exact h'
      · simpa using h
  · simp

/-- a successful `appendG` of a gate that is not a barrier / nop pushes the same gate object onto
`gates` and `gates_computed` -/
theorem appendG_comp {cls : GClass} {wires : List Nat} {gid : Option (Nat × Nat)} {b : Bool} {s s' : CState}
    (h : (appendG cls wires gid).run s = .ok (b, s')) (hn : cls.isNop = false) :
    ∃ g : AGate, g.cls = cls ∧ g.wires = wires ∧ s'.qc.gates = s.qc.gates.push g ∧
      s'.qc.gatesComputed = s.qc.gatesComputed.push g := by
  unfold appendG at h
  simp only [run_bind_ok] at h
  obtain ⟨qc, s1, hq, h⟩ := h
  obtain ⟨rfl, rfl⟩ := getQC_run hq
  split at h
  · exact (run_throw_ok.mp h).elim
  · split at h
    · simp only [run_bind_ok, run_pure_ok] at h
      obtain ⟨u, s2, hm, rfl, rfl⟩ := h
      have := modQC_run hm
      subst this
      refine ⟨_, rfl, rfl, rfl, ?_⟩
      simp [hn]
    · simp only [run_bind_ok, run_pure_ok] at h
      obtain ⟨u, s2, hm, rfl, rfl⟩ := h
      have := modQC_run hm
      subst this
      refine ⟨_, rfl, rfl, rfl, ?_⟩
      simp [hn]

theorem append_cl {n : Nat} {cls : GClass} {cs : List Nat} {t : Nat} {u : Unit} {s s' : CState}
    (h : (append cls (cs ++ [t])).run s = .ok (u, s')) (hn : cls.isNop = false) (ht : n ≤ t) :
    Cl n (· ∈ cs) (· = t) s s' := by
  have ha := append_run h
  unfold append at h
  obtain ⟨b, h⟩ := run_discard_ok.mp h
  obtain ⟨g, _, hw, hg, hgc⟩ := appendG_comp h hn
  refine ⟨⟨[g], by rw [hg]; simp, ?_⟩, fun e => by rw [hgc, hg, e],
    fun m hm => by rw [ha.marked]; exact hm, fun m hm => by rw [ha.anc]; exact hm, ha.kept⟩
  intro g' hg'
  have : g' = g := by simpa using hg'
  subst this
  have htg : g'.target = t := by unfold AGate.target; rw [hw]; simp
  refine ⟨fun c hc => Or.inr (Or.inr ?_), by rw [htg]; exact ht, Or.inr htg⟩
  rw [hw, List.dropLast_concat] at hc
  exact hc

theorem xGate_cl {n w : Nat} {u : Unit} {s s' : CState} (h : (xGate w).run s = .ok (u, s')) (ht : n ≤ w) :
    Cl n (· ∈ ([] : List Nat)) (· = w) s s' := append_cl (cs := []) h rfl ht

theorem cx_cl {n a b : Nat} {u : Unit} {s s' : CState} (h : (cx a b).run s = .ok (u, s')) (ht : n ≤ b) :
    Cl n (· ∈ [a]) (· = b) s s' := append_cl (cs := [a]) h rfl ht

theorem mcx_cl {n : Nat} {cs : List Nat} {t : Nat} {u : Unit} {s s' : CState}
    (h : (mcx cs t).run s = .ok (u, s')) (ht : n ≤ t) : Cl n (· ∈ cs) (· = t) s s' :=
  append_cl h rfl ht

/-- `mark_ancilla` marks an ancilla that is not kept (lower bound; `markAncilla_run` has the upper bound) -/
theorem markAncilla_cl {w : Nat} {u : Unit} {s s' : CState} (h : (markAncilla w).run s = .ok (u, s')) :
    s'.qc.gates = s.qc.gates ∧ s'.qc.gatesComputed = s.qc.gatesComputed ∧ s'.qc.anc = s.qc.anc ∧
      s'.qc.kept = s.qc.kept ∧
      (∀ m ∈ s.qc.marked, m ∈ s'.qc.marked) ∧ (s.qc.kept = [] → w ∈ s.qc.anc → w ∈ s'.qc.marked) := by
  unfold markAncilla at h
  obtain ⟨qc, s1, hq, h⟩ := run_bind_ok.mp h
  obtain ⟨rfl, rfl⟩ := getQC_run hq
  split at h
  · have := modQC_run h; subst this
    exact ⟨rfl, rfl, rfl, rfl, fun m hm => mem_setIns_iff.mpr (Or.inl hm), fun _ _ => mem_setIns_iff.mpr (Or.inr rfl)⟩
  · next hc =>
    obtain ⟨_, rfl⟩ := run_pure_ok.mp h
    refine ⟨rfl, rfl, rfl, rfl, fun m hm => hm, fun hk hw => absurd ?_ hc⟩
    rw [hk]
    simpa using hw

theorem markAll_cl : ∀ (ws : List Nat) {u : Unit} {s s' : CState}, (markAll ws).run s = .ok (u, s') →
    s'.qc.gates = s.qc.gates ∧ s'.qc.gatesComputed = s.qc.gatesComputed ∧ s'.qc.anc = s.qc.anc ∧
      s'.qc.kept = s.qc.kept ∧
      (∀ m ∈ s.qc.marked, m ∈ s'.qc.marked) ∧ (s.qc.kept = [] → ∀ w ∈ ws, w ∈ s.qc.anc → w ∈ s'.qc.marked)
  | [], u, s, s', h => by
    unfold markAll at h
    obtain ⟨_, rfl⟩ := run_pure_ok.mp h
    exact ⟨rfl, rfl, rfl, rfl, fun m hm => hm, fun _ w hw => by cases hw⟩
  | w :: ws, u, s, s', h => by
    unfold markAll at h
    obtain ⟨u1, s1, h1, h2⟩ := run_bind_ok.mp h
    obtain ⟨a1, a2, a3, ak, a4, a5⟩ := markAncilla_cl h1
    obtain ⟨b1, b2, b3, bk, b4, b5⟩ := markAll_cl ws h2
    refine ⟨b1.trans a1, b2.trans a2, b3.trans a3, bk.trans ak, fun m hm => b4 m (a4 m hm), fun hk x hx ha => ?_⟩
    rcases List.mem_cons.mp hx with rfl | hx
    · exact b4 _ (a5 hk ha)
    · exact b5 (ak.trans hk) x hx (by rw [a3]; exact ha)

/-- with an empty free set `get_free_ancilla` adds the new qubit to the ancilla set -/
theorem getFreeAncilla_cl {n : Nat} {Pc Pt : Nat → Prop} {a : Nat} {s s' : CState}
    (h : getFreeAncilla.run s = .ok (a, s')) (hf : s.qc.free = []) :
    Cl n Pc Pt s s' ∧ a ∈ s'.qc.anc := by
  unfold getFreeAncilla at h
  simp only [run_bind_ok] at h
  obtain ⟨s0, s1, hget, h⟩ := h
  obtain ⟨e1, e2⟩ := run_get_ok.mp hget
  subst e2; subst e1
  split at h
  · exact (run_throw_ok.mp h).elim
  · next c rest hch =>
    simp only [run_bind_ok] at h
    obtain ⟨u, s1, hset, h⟩ := h
    have := run_set_ok.mp hset; subst this
    split at h
    · simp only [run_bind_ok] at h
      obtain ⟨i, s2, hadd, u2, s3, hm, hif⟩ := h
      have hs4 : a = i ∧ s' = s3 := by
        split at hif
        · simp only [run_bind_ok, run_throw_ok] at hif
          obtain ⟨_, _, hf, _⟩ := hif
          exact hf.elim
        · exact run_pure_ok.mp hif
      obtain ⟨rfl, rfl⟩ := hs4
      obtain ⟨rfl, rfl⟩ := addQubit_run hadd
      have := modQC_run hm; subst this
      exact ⟨Cl.quiet rfl rfl (fun _ hm => hm) (fun m hm => mem_setIns_iff.mpr (Or.inl hm)) rfl,
        mem_setIns_iff.mpr (Or.inr rfl)⟩
    · next hne => exact absurd (by rw [hf]; rfl) hne

/-! ### specifications -/

/-- structural specification of `compileExpr e` on the fragment: only gates of the right shape, the
result qubit is the only pending target; without a destination the result is an argument qubit (bare
symbol) or an ancilla -/
def ExprCl (inputs : List String) (ρ : Env) (σ0 : FState) (r : String) (e : BExp) : Prop :=
  ∀ (dest : Option Nat) (sym : Option String) {a : Nat} {s s' : CState},
    (compileExpr e dest sym).run s = .ok (a, s') →
    Pre inputs ρ σ0 s → s.qc.kept = [] →
    (∀ p ∈ s.expq, ∀ c ∈ compSubs e, (p.1 == c) = false) →
    (∀ d, dest = some d → inputs.length ≤ d ∧ d < s.qc.numQubits) →
    (∀ x, sym = some x → x = r) →
    (isSym e = true → dest = none ∧ sym = none) →
    Cl inputs.length NoP (· = a) s s' ∧
    (dest = none → (a < inputs.length ∧ isSym e = true) ∨ a ∈ s'.qc.anc)

def ArgsCl (inputs : List String) (ρ : Env) (σ0 : FState) (_r : String) (as : List BExp) : Prop :=
  ∀ {rs : List Nat} {s s' : CState}, (compileArgs as).run s = .ok (rs, s') →
    Pre inputs ρ σ0 s → s.qc.kept = [] →
    (∀ p ∈ s.expq, ∀ c ∈ compSubsList as, (p.1 == c) = false) →
    Cl inputs.length NoP (· ∈ rs) s s' ∧ ∀ q ∈ rs, q < inputs.length ∨ q ∈ s'.qc.anc

def XorCl (inputs : List String) (ρ : Env) (σ0 : FState) (_r : String) (as : List BExp) : Prop :=
  ∀ (d : Nat) {a : Nat} {s s' : CState}, (compileXorArgs as d).run s = .ok (a, s') →
    Pre inputs ρ σ0 s → s.qc.kept = [] →
    (∀ p ∈ s.expq, ∀ c ∈ compSubsList as, (p.1 == c) = false) →
    inputs.length ≤ d → d < s.qc.numQubits →
    Cl inputs.length NoP (· = d) s s'

/-- `Pre` after a sub-call, together with the semantic facts of `exprSem` -/
theorem expr_pre {inputs : List String} {ρ : Env} {σ0 : FState} {r : String} (amb : Amb inputs σ0 r)
    {e : BExp} (hov : overInputs inputs e = true) (hdis : Distinct (compSubs e))
    {dest : Option Nat} {sym : Option String} {a : Nat} {s s' : CState}
    (h : (compileExpr e dest sym).run s = .ok (a, s')) (hp : Pre inputs ρ σ0 s)
    (hcache : ∀ p ∈ s.expq, ∀ c ∈ compSubs e, (p.1 == c) = false)
    (hd : ∀ d, dest = some d → inputs.length ≤ d ∧ d < s.qc.numQubits)
    (hsym : ∀ x, sym = some x → x = r) (hs : isSym e = true → dest = none ∧ sym = none) :
    Pre inputs ρ σ0 s' ∧ a < s'.qc.numQubits ∧
      Sem σ0 (fun q => dest = some q) (· ∈ compSubs e)
        (fun m => s.qc.numQubits ≤ m ∧ (dest = none → m ≠ a)) s s' ∧
      (∀ d, dest = some d → a = d) := by
  obtain ⟨st, hlt⟩ := exprSpec (B := (· = r)) e dest sym h hp.good (fun d hd' => (hd d hd').2) hsym
  obtain ⟨sem, _, hv⟩ := exprSem (ρ := ρ) amb e hov hdis dest sym h hp hcache hd hsym hs
  exact ⟨hp.next amb st sem (fun q hq => (hd q hq).1), hlt, sem, fun d hd' => (hv d hd').1⟩

theorem exprCl_sym {inputs : List String} {ρ : Env} {σ0 : FState} {r : String} (n : String)
    (hin : n ∈ inputs) : ExprCl inputs ρ σ0 r (.sym n) := by
  intro dest sym a s s' h hp _ _ _ _ hsym
  obtain ⟨rfl, rfl⟩ := hsym rfl
  unfold compileExpr at h
  obtain ⟨rfl, hq⟩ := compileSymbol_none_run h
  obtain ⟨i, hi⟩ := idx_of_mem hin
  have := hp.bind i n hi
  rw [hq] at this
  have hai : a = i := by simpa using this
  subst hai
  exact ⟨Cl.refl _, fun _ => Or.inl ⟨(mem_of_getElem?' hi).2, rfl⟩⟩

/-- `Not`: in place on an ancilla, or copy (`CX`), negate (`X`) and mark the argument -/
theorem exprCl_not {inputs : List String} {ρ : Env} {σ0 : FState} {r : String} (amb : Amb inputs σ0 r)
    {x : BExp} (hov : overInputs inputs x = true) (hdis : Distinct (compSubs x))
    (ih : ExprCl inputs ρ σ0 r x) : ExprCl inputs ρ σ0 r (.not x) := by
  intro dest sym a s s' h hp hk hcache hd hsym _
  unfold compileExpr at h
  dsimp only at h
  obtain ⟨r0, s1, hget, h1⟩ := run_bind_ok.mp h
  obtain ⟨rfl, rfl⟩ := expqGet?_miss hget (fun p hp' => hcache p hp' _ (by simp [compSubs]))
  dsimp only at h1
  rcases run_ite_ok.mp h1 with ⟨hc, _⟩ | ⟨_, h1⟩
  · exfalso
    cases x with
    | sym n =>
      cases sym with
      | some sy =>
        have e1 : n = sy := by simpa using hc
        have hn : n ∈ inputs := by simpa [overInputs] using hov
        exact (amb.fresh n hn).1 (e1.trans (hsym sy rfl))
      | none => simp at hc
    | _ => simp at hc
  · obtain ⟨sh, s1', hsh, k1⟩ := run_bind_ok.mp h1
    have hs1' := (expqGet?_ok hsh hp.good).1
    rw [hs1'] at k1
    obtain ⟨eret, s2, he, h2⟩ := run_bind_ok.mp k1
    have hcache1 : ∀ p ∈ s1.expq, ∀ c ∈ compSubs x, (p.1 == c) = false :=
      fun p hp' c hc => hcache p hp' c (by simp [compSubs, hc])
    obtain ⟨hp2, _, _, _⟩ := expr_pre amb hov hdis he hp hcache1 (by intro d hd0; cases hd0)
      (by intro y hy; cases hy) (fun _ => ⟨rfl, rfl⟩)
    obtain ⟨cl1, hres1⟩ := ih none none he hp hk hcache1 (by intro d hd0; cases hd0)
      (by intro y hy; cases hy) (fun _ => ⟨rfl, rfl⟩)
    have hres := hres1 rfl
    have hk2 : s2.qc.kept = [] := cl1.kept.trans hk
    obtain ⟨qc, s3, hq, h3⟩ := run_bind_ok.mp h2
    obtain ⟨rfl, rfl⟩ := getQC_run hq
    split at h3
    · next hcond =>
      simp only [Bool.and_eq_true] at hcond
      have hdn : dest = none := by
        cases dest with
        | none => rfl
        | some d => simp at hcond
      subst hdn
      have hanc : eret ∈ s3.qc.anc := by simpa using hcond.1.2
      obtain ⟨u1, s4, hev, h4⟩ := run_bind_ok.mp h3
      obtain ⟨u2, s5, hx, h5⟩ := run_bind_ok.mp h4
      obtain ⟨u3, s6, hset, h6⟩ := run_bind_ok.mp h5
      obtain ⟨ha6, hs6⟩ := run_pure_ok.mp h6
      subst hs6; subst ha6
      have := event_run hev; subst this
      obtain ⟨hq6, _⟩ := expqSet_run hset
      have clx := (xGate_cl (n := inputs.length) hx (hp2.sge.1 a hanc)).of_qc (t := s3) (t' := s') rfl hq6
      refine ⟨Cl.trans cl1 clx (fun _ h => h.elim) (fun q _ h => Or.inr h) (fun _ h => nomatch h)
        (fun q _ h => Or.inr h), fun _ => Or.inr (clx.anc a hanc)⟩
    · have body : ∀ {d : Nat} {s4 s5 : CState} {a : Nat}, inputs.length ≤ d → s4.qc.kept = [] →
          StateT.run (do
            cx eret d
            xGate d
            markAncilla eret
            if dest.isNone = true then do
                expqSet x.not d
                pure d
              else pure d : M Nat) s4 = .ok (a, s5) →
          a = d ∧ Cl inputs.length (fun q => q = eret ∧ eret ∉ s4.qc.anc) (· = d) s4 s5 ∧
            (eret ∈ s4.qc.anc → eret ∈ s5.qc.marked) := by
        intro d s4 s5 a hdn hk4 hrun
        obtain ⟨u1, t1, hcx, k1⟩ := run_bind_ok.mp hrun
        obtain ⟨u2, t2, hx, k2⟩ := run_bind_ok.mp k1
        obtain ⟨u3, t3, hmk, k3⟩ := run_bind_ok.mp k2
        have a1 := cx_cl (n := inputs.length) hcx hdn
        have a2 := xGate_cl (n := inputs.length) hx hdn
        obtain ⟨m1, m2, m3, mk, m4, m5'⟩ := markAncilla_cl hmk
        have hanc2 : t2.qc.anc = s4.qc.anc := (xGate_run hx).anc.trans (cx_run hcx).anc
        have m5 := m5' (((xGate_run hx).kept.trans (cx_run hcx).kept).trans hk4)
        have fin : ∀ {t4 : CState}, t4.qc = t3.qc →
            Cl inputs.length (fun q => q = eret ∧ eret ∉ s4.qc.anc) (· = d) s4 t4 ∧
            (eret ∈ s4.qc.anc → eret ∈ t4.qc.marked) := by
          intro t4 e4
          have a3 : Cl inputs.length NoP NoP t2 t4 :=
            (Cl.quiet (s := t2) (s' := t3) m1 m2 m4 (fun m hm => by rw [m3]; exact hm) mk).of_qc rfl e4
          have hmk' : eret ∈ s4.qc.anc → eret ∈ t4.qc.marked := fun ha => by
            rw [e4]; exact m5 (by rw [hanc2]; exact ha)
          refine ⟨Cl.trans (Cl.trans a1 a2 (Pc := (· ∈ [eret])) (Pt := (· = d)) (fun q h => Or.inr (Or.inr h))
              (fun q _ h => Or.inr h) (fun _ h => nomatch h) (fun q _ h => Or.inr h)) a3 ?_
              (fun q _ h => Or.inr h) (fun _ h => h.elim) (fun _ _ h => h.elim), hmk'⟩
          intro q hq
          have hq' : q = eret := by simpa using hq
          subst hq'
          by_cases ha : q ∈ s4.qc.anc
          · exact Or.inr (Or.inl (hmk' ha))
          · exact Or.inr (Or.inr ⟨rfl, ha⟩)
        split at k3
        · obtain ⟨u4, t4, hset, k4⟩ := run_bind_ok.mp k3
          obtain ⟨rfl, rfl⟩ := run_pure_ok.mp k4
          obtain ⟨e4, _⟩ := expqSet_run hset
          exact ⟨rfl, fin e4⟩
        · obtain ⟨rfl, rfl⟩ := run_pure_ok.mp k3
          exact ⟨rfl, fin rfl⟩
      have hnotanc : ∀ {t : CState}, (∀ m ∈ s3.qc.anc, m ∈ t.qc.anc) → eret ∉ t.qc.anc → eret < inputs.length := by
        intro t hsub hn
        rcases hres with h | h
        · exact h.1
        · exact absurd (hsub _ h) hn
      cases dest with
      | some d =>
        dsimp only at h3
        obtain ⟨d0, s4, hp0, h4⟩ := run_bind_ok.mp h3
        obtain ⟨rfl, rfl⟩ := run_pure_ok.mp hp0
        obtain ⟨rfl, clb, hmk⟩ := body (hd _ rfl).1 hk2 h4
        refine ⟨Cl.trans cl1 clb (fun _ h => h.elim) ?_ ?_ (fun q _ h => Or.inr h), fun hn => by cases hn⟩
        · intro q hq he
          subst he
          rcases hres with h | h
          · omega
          · exact Or.inl (hmk h)
        · rintro q ⟨rfl, hn⟩
          exact Or.inl (hnotanc (fun _ h => h) hn)
      | none =>
        dsimp only at h3
        obtain ⟨d, s4, hf, h4⟩ := run_bind_ok.mp h3
        obtain ⟨_, _, hdf, _⟩ := getFreeAncilla_sem (σ0 := σ0) hf hp2.free
        obtain ⟨clf, hdanc⟩ := getFreeAncilla_cl (n := inputs.length) (Pc := NoP) (Pt := NoP) hf hp2.free
        obtain ⟨rfl, clb, hmk⟩ := body (by rw [hdf]; exact hp2.nin) (clf.kept.trans hk2) h4
        refine ⟨Cl.trans (Cl.trans cl1 clf (Pc := NoP) (Pt := (· = eret)) (fun _ h => h.elim) (fun q _ h => Or.inr h)
            (fun _ h => h.elim) (fun _ _ h => h.elim)) clb (fun _ h => h.elim) ?_ ?_ (fun q _ h => Or.inr h),
          fun _ => Or.inr (clb.anc _ hdanc)⟩
        · intro q hq he
          subst he
          rcases hres with h | h
          · omega
          · exact Or.inl (hmk (clf.anc _ h))
        · rintro q ⟨rfl, hn⟩
          exact Or.inl (hnotanc clf.anc hn)

/-! ### argument lists, `And`, `Or` -/

theorem argsCl_nil {inputs : List String} {ρ : Env} {σ0 : FState} {r : String} :
    ArgsCl inputs ρ σ0 r [] := by
  intro rs s s' h _ _ _
  unfold compileArgs at h
  obtain ⟨rfl, rfl⟩ := run_pure_ok.mp h
  exact ⟨Cl.refl _, fun q hq => by cases hq⟩

theorem argsCl_cons {inputs : List String} {ρ : Env} {σ0 : FState} {r : String} (amb : Amb inputs σ0 r)
    {a : BExp} {as : List BExp} (hov : overInputs inputs a = true) (hda : Distinct (compSubs a))
    (iha : ExprCl inputs ρ σ0 r a) (ihs : ArgsCl inputs ρ σ0 r as)
    (hdis : ∀ x ∈ compSubs a, ∀ y ∈ compSubsList as, (x == y) = false) :
    ArgsCl inputs ρ σ0 r (a :: as) := by
  intro rs s s' h hp hk hcache
  unfold compileArgs at h
  obtain ⟨q1, s1, h1, h2⟩ := run_bind_ok.mp h
  obtain ⟨rs', s2, h3, h4⟩ := run_bind_ok.mp h2
  obtain ⟨rfl, rfl⟩ := run_pure_ok.mp h4
  have hc1 : ∀ p ∈ s.expq, ∀ c ∈ compSubs a, (p.1 == c) = false :=
    fun p hp' c hc => hcache p hp' c (by simp [compSubsList, hc])
  obtain ⟨hp1, _, sem1, _⟩ := expr_pre amb hov hda h1 hp hc1 (by intro d hd0; cases hd0)
    (by intro y hy; cases hy) (fun _ => ⟨rfl, rfl⟩)
  obtain ⟨cl1, hres1⟩ := iha none none h1 hp hk hc1 (by intro d hd0; cases hd0)
    (by intro y hy; cases hy) (fun _ => ⟨rfl, rfl⟩)
  obtain ⟨cl2, hb⟩ := ihs h3 hp1 (cl1.kept.trans hk) (cache_next hcache sem1 (fun _ h => h) hdis)
  refine ⟨Cl.trans cl1 cl2 (fun _ h => h.elim) (fun q _ h => Or.inr (by rw [h]; exact List.mem_cons_self))
    (fun _ h => h.elim) (fun q _ h => Or.inr (List.mem_cons_of_mem _ h)), ?_⟩
  intro q hq
  rcases List.mem_cons.mp hq with rfl | hq
  · rcases hres1 rfl with h | h
    · exact Or.inl h.1
    · exact Or.inr (cl2.anc _ h)
  · exact hb q hq

/-- the common tail of `compile_and` / `compile_or`: mark the argument qubits -/
theorem finish_cl {n : Nat} {Pc Pt : Nat → Prop} {es : List Nat} {dest : Option Nat} {e : BExp} {d a : Nat}
    {s s' : CState}
    (h : StateT.run (do
          markAll es
          if dest.isNone = true then do
              expqSet e d
              pure d
            else pure d : M Nat) s = .ok (a, s')) (hk : s.qc.kept = []) :
    a = d ∧ Cl n Pc Pt s s' ∧ (∀ w ∈ es, w ∈ s.qc.anc → w ∈ s'.qc.marked) := by
  obtain ⟨u1, s1, hm, h1⟩ := run_bind_ok.mp h
  obtain ⟨m1, m2, m3, mk, m4, m5'⟩ := markAll_cl es hm
  have m5 := m5' hk
  have cl : Cl n Pc Pt s s1 := Cl.quiet m1 m2 m4 (fun m hm' => by rw [m3]; exact hm') mk
  split at h1
  · obtain ⟨u2, s2, hset, h2⟩ := run_bind_ok.mp h1
    obtain ⟨rfl, rfl⟩ := run_pure_ok.mp h2
    obtain ⟨e2, _⟩ := expqSet_run hset
    exact ⟨rfl, cl.of_qc rfl e2, fun w hw ha => by rw [e2]; exact m5 w hw ha⟩
  · obtain ⟨rfl, rfl⟩ := run_pure_ok.mp h1
    exact ⟨rfl, cl, m5⟩

/-- the destination of an `And` / `Or` -/
theorem dest_cl {inputs : List String} {ρ : Env} {σ0 : FState} {Pc Pt : Nat → Prop}
    {dest : Option Nat} {d : Nat} {s s2 s3 : CState}
    (hp2 : Pre inputs ρ σ0 s2)
    (hd : ∀ d, dest = some d → inputs.length ≤ d ∧ d < s.qc.numQubits)
    (h : (destOr dest).run s2 = .ok (d, s3)) :
    Cl inputs.length Pc Pt s2 s3 ∧ inputs.length ≤ d ∧ (dest = none → d ∈ s3.qc.anc) := by
  cases dest with
  | some d0 =>
    obtain ⟨rfl, rfl⟩ := run_pure_ok.mp h
    exact ⟨Cl.refl _, (hd _ rfl).1, fun hn => by cases hn⟩
  | none =>
    obtain ⟨_, _, hdf, _⟩ := getFreeAncilla_sem (σ0 := σ0) h hp2.free
    obtain ⟨clf, hdanc⟩ := getFreeAncilla_cl (n := inputs.length) (Pc := Pc) (Pt := Pt) h hp2.free
    exact ⟨clf, by rw [hdf]; exact hp2.nin, fun _ => hdanc⟩

/-- assembling `args; dest; gates into d; mark` -/
theorem andor_cl {n : Nat} {erets es : List Nat} {d a : Nat} {s1 s2 s3 t s' : CState}
    (cl1 : Cl n NoP (· ∈ erets) s1 s2) (hb : ∀ q ∈ erets, q < n ∨ q ∈ s2.qc.anc)
    (cld : Cl n NoP NoP s2 s3) (clg : Cl n (· ∈ es) (· = d) s3 t) (clf : Cl n NoP NoP t s')
    (hmk : ∀ w ∈ es, w ∈ t.qc.anc → w ∈ s'.qc.marked) (hes : ∀ q, q ∈ es ↔ q ∈ erets) (had : a = d) :
    Cl n NoP (· = a) s1 s' := by
  subst had
  have hmark : ∀ q ∈ erets, q < n ∨ q ∈ s'.qc.marked := by
    intro q hq
    rcases hb q hq with h | h
    · exact Or.inl h
    · exact Or.inr (hmk q ((hes q).mpr hq) (clg.anc _ (cld.anc _ h)))
  have c12 : Cl n NoP (· ∈ erets) s1 s3 := Cl.trans cl1 cld (fun _ h => h.elim) (fun q _ h => Or.inr h)
    (fun _ h => h.elim) (fun _ _ h => h.elim)
  have c3f : Cl n (· ∈ es) (· = a) s3 s' := Cl.trans clg clf (fun q h => Or.inr (Or.inr h)) (fun q _ h => Or.inr h)
    (fun _ h => h.elim) (fun _ _ h => h.elim)
  refine Cl.trans c12 c3f (fun _ h => h.elim) ?_ ?_ (fun q _ h => Or.inr h)
  · intro q hq he
    rcases hmark q he with h | h
    · omega
    · exact Or.inl h
  · intro q hq
    rcases hmark q ((hes q).mp hq) with h | h
    · exact Or.inl h
    · exact Or.inr (Or.inl h)

theorem exprCl_and {inputs : List String} {ρ : Env} {σ0 : FState} {r : String} (amb : Amb inputs σ0 r)
    {args : List BExp} (hov : overInputsList inputs args = true) (hdis : Distinct (compSubsList args))
    (ih : ArgsCl inputs ρ σ0 r args) : ExprCl inputs ρ σ0 r (.and args) := by
  intro dest sym a s s' h hp hk hcache hd hsym _
  unfold compileExpr at h
  dsimp only at h
  obtain ⟨r0, s1, hget, h1⟩ := run_bind_ok.mp h
  obtain ⟨rfl, rfl⟩ := expqGet?_miss hget (fun p hp' => hcache p hp' _ (by simp [compSubs]))
  dsimp only at h1
  obtain ⟨erets, s2, hargs, h2⟩ := run_bind_ok.mp h1
  have hc1 : ∀ p ∈ s1.expq, ∀ c ∈ compSubsList args, (p.1 == c) = false :=
    fun p hp' c hc => hcache p hp' c (by simp [compSubs, hc])
  obtain ⟨st1, _⟩ := argsSpec (B := (· = r)) args hargs hp.good
  obtain ⟨sem1, _, hb⟩ := argsSem (ρ := ρ) amb args hov hdis hargs hp hc1
  obtain ⟨cl1, hbc⟩ := ih hargs hp hk hc1
  have hk2 : s2.qc.kept = [] := cl1.kept.trans hk
  have hp2 : Pre inputs ρ σ0 s2 := hp.next amb st1 sem1 (by intro q hq; exact hq.elim)
  have body : ∀ {d : Nat} {s3 : CState},
      (destOr dest).run s2 = .ok (d, s3) →
      StateT.run (
        if erets.contains d = true then do
          event "destAmongArgs"
          mcx (sortNat (if erets.contains d = true then erets.erase d else erets).eraseDups) d
          markAll (sortNat (if erets.contains d = true then erets.erase d else erets).eraseDups)
          if dest.isNone = true then do
              expqSet (BExp.and args) d
              pure d
            else pure d
        else do
          mcx (sortNat (if erets.contains d = true then erets.erase d else erets).eraseDups) d
          markAll (sortNat (if erets.contains d = true then erets.erase d else erets).eraseDups)
          if dest.isNone = true then do
              expqSet (BExp.and args) d
              pure d
            else pure d : M Nat) s3 = .ok (a, s') →
      Cl inputs.length NoP (· = a) s1 s' ∧
      (dest = none → (a < inputs.length ∧ isSym (BExp.and args) = true) ∨ a ∈ s'.qc.anc) := by
    intro d s3 hdest h3
    obtain ⟨_, _, _, hdn, _⟩ := dest_sem amb hp2 sem1.nq hd hb hdest
    obtain ⟨cld, hdge, hdanc⟩ := dest_cl (Pc := NoP) (Pt := NoP) hp2 hd hdest
    have hcd : ¬ (erets.contains d = true) := by simpa using hdn
    rcases run_ite_ok.mp h3 with ⟨hc, _⟩ | ⟨_, h3⟩
    · exact absurd hc hcd
    · rw [if_neg hcd] at h3
      obtain ⟨u1, t1, hmcx, k1⟩ := run_bind_ok.mp h3
      have clg := mcx_cl (n := inputs.length) hmcx hdge
      obtain ⟨rfl, clf, hmk⟩ := finish_cl (n := inputs.length) (Pc := NoP) (Pt := NoP) k1
        (clg.kept.trans (cld.kept.trans hk2))
      exact ⟨andor_cl cl1 hbc cld clg clf hmk (fun q => mem_sortDedup) rfl,
        fun hn => Or.inr (clf.anc _ (clg.anc _ (hdanc hn)))⟩
  cases dest with
  | some d0 =>
    dsimp only at h2
    obtain ⟨d, s3, hp0, h4⟩ := run_bind_ok.mp h2
    exact body hp0 h4
  | none =>
    dsimp only at h2
    obtain ⟨d, s3, hf, h4⟩ := run_bind_ok.mp h2
    exact body hf h4

theorem cxAll_cl {n d : Nat} : ∀ (es : List Nat) {u : Unit} {s s' : CState},
    (cxAll d es).run s = .ok (u, s') → n ≤ d → Cl n (· ∈ es) (· = d) s s'
  | [], u, s, s', h, _ => by
    unfold cxAll at h
    obtain ⟨_, rfl⟩ := run_pure_ok.mp h
    exact Cl.refl _
  | i :: is, u, s, s', h, hd => by
    unfold cxAll at h
    obtain ⟨u1, s1, h1, h2⟩ := run_bind_ok.mp h
    exact Cl.trans (cx_cl h1 hd) (cxAll_cl is h2 hd)
      (fun q hq => Or.inr (Or.inr (by simp at hq; rw [hq]; exact List.mem_cons_self)))
      (fun q _ h => Or.inr h) (fun q hq => Or.inr (Or.inr (List.mem_cons_of_mem _ hq))) (fun q _ h => Or.inr h)

/-- `cx acc d; cx i d; mcx [acc, i] d` -/
theorem orGate_cl {n acc i d : Nat} {u : Unit} {s s' : CState}
    (h : StateT.run (do cx acc d; cx i d; mcx [acc, i] d : M Unit) s = .ok (u, s')) (hd : n ≤ d) :
    Cl n (fun q => q = acc ∨ q = i) (· = d) s s' ∧ s'.qc.free = s.qc.free ∧
      s'.qc.numQubits = s.qc.numQubits := by
  obtain ⟨u1, s1, h1, k1⟩ := run_bind_ok.mp h
  obtain ⟨u2, s2, h2, k2⟩ := run_bind_ok.mp k1
  have a1 := cx_run h1
  have a2 := cx_run h2
  have a3 : Appended (.MCX [acc, i].length) ([acc, i] ++ [d]) s2 s' := mcx_run k2
  have c1 := cx_cl (n := n) h1 hd
  have c2 := cx_cl (n := n) h2 hd
  have c3 := mcx_cl (n := n) k2 hd
  have c12 : Cl n (fun q => q = acc ∨ q = i) (· = d) s s2 :=
    Cl.trans c1 c2 (fun q hq => Or.inr (Or.inr (Or.inl (by simpa using hq)))) (fun q _ h => Or.inr h)
      (fun q hq => Or.inr (Or.inr (Or.inr (by simpa using hq)))) (fun q _ h => Or.inr h)
  refine ⟨Cl.trans c12 c3 (fun q hq => Or.inr (Or.inr hq)) (fun q _ h => Or.inr h)
    (fun q hq => Or.inr (Or.inr (by simpa using hq))) (fun q _ h => Or.inr h),
    a3.free.trans (a2.free.trans a1.free), a3.nq.trans (a2.nq.trans a1.nq)⟩

/-- the fold of binary ors: every control is the first argument qubit, a later argument qubit or an
intermediate result, which is a new ancilla that is marked before its gates are emitted -/
theorem orChain_cl {n dest : Nat} : ∀ (rest : List Nat) (acc : Nat) {u : Unit} {s s' : CState},
    (orChain dest acc rest).run s = .ok (u, s') → s.qc.free = [] → s.qc.kept = [] →
    n ≤ s.qc.numQubits → n ≤ dest →
    Cl n (fun q => q = acc ∨ q ∈ rest) (· = dest) s s'
  | [], acc, u, s, s', h, _, _, _, _ => by
    unfold orChain at h
    obtain ⟨_, rfl⟩ := run_pure_ok.mp h
    exact Cl.refl _
  | [i], acc, u, s, s', h, _, _, _, hd => by
    unfold orChain at h
    refine (orGate_cl h hd).1.mono (fun q hq => Or.inr (Or.inr ?_)) (fun q _ h => Or.inr h)
    rcases hq with h | h
    · exact Or.inl h
    · exact Or.inr (by simp [h])
  | i :: j :: rest, acc, u, s, s', h, hf, hk, hn, hd => by
    unfold orChain at h
    obtain ⟨d, s1, hfa, k1⟩ := run_bind_ok.mp h
    obtain ⟨hda, hn1, _, hff, _, _⟩ := getFreeAncilla_fresh hfa hf
    obtain ⟨clf, hdanc⟩ := getFreeAncilla_cl (n := n) (Pc := NoP) (Pt := NoP) hfa hf
    obtain ⟨u2, s2, hm, k2⟩ := run_bind_ok.mp k1
    obtain ⟨m1, m2, m3, mk, m4, m5⟩ := markAncilla_cl hm
    obtain ⟨_, mn, mf, _, _, _⟩ := markAncilla_run hm
    have hk1 : s1.qc.kept = [] := clf.kept.trans hk
    have hdm : d ∈ s2.qc.marked := m5 hk1 hdanc
    have clm : Cl n NoP NoP s1 s2 := Cl.quiet m1 m2 m4 (fun m hm' => by rw [m3]; exact hm') mk
    have k2' : StateT.run (do
        (do cx acc d; cx i d; mcx [acc, i] d : M Unit)
        orChain dest d (j :: rest) : M Unit) s2 = .ok (u, s') := by
      simpa only [bind_assoc] using k2
    obtain ⟨u3, s3, hgate, k3⟩ := run_bind_ok.mp k2'
    have hdn : n ≤ d := by omega
    obtain ⟨clg, gf, gn⟩ := orGate_cl (n := n) hgate hdn
    have ih := orChain_cl (n := n) (j :: rest) d k3 (by rw [gf, mf]; exact hff)
      (clg.kept.trans (mk.trans hk1)) (by rw [gn, mn, hn1]; omega) hd
    have hdm' : d ∈ s'.qc.marked := ih.mks _ (clg.mks _ hdm)
    have c01 : Cl n NoP NoP s s2 := Cl.trans clf clm (fun _ h => h.elim) (fun _ _ h => h.elim)
      (fun _ h => h.elim) (fun _ _ h => h.elim)
    have c02 : Cl n (fun q => q = acc ∨ q = i) (· = d) s s3 := Cl.trans c01 clg (fun _ h => h.elim)
      (fun _ _ h => h.elim) (fun q hq => Or.inr (Or.inr hq)) (fun q _ h => Or.inr h)
    refine Cl.trans c02 ih ?_ ?_ ?_ (fun q _ h => Or.inr h)
    · rintro q (h | h)
      · exact Or.inr (Or.inr (Or.inl h))
      · exact Or.inr (Or.inr (Or.inr (by simp [h])))
    · intro q _ h
      rw [h]; exact Or.inl hdm'
    · rintro q (h | h)
      · rw [h]; exact Or.inr (Or.inl hdm')
      · exact Or.inr (Or.inr (Or.inr (List.mem_cons_of_mem _ h)))

/-- step 4 of `compile_or` for more than two distinct argument qubits -/
theorem orWide_cl {n d : Nat} {erets es : List Nat} {u : Unit} {s s' : CState}
    (h : (orWide d erets es).run s = .ok (u, s')) (hf : s.qc.free = []) (hk : s.qc.kept = [])
    (hn : n ≤ s.qc.numQubits) (hd : n ≤ d) : Cl n (· ∈ es) (· = d) s s' := by
  unfold orWide at h
  dsimp only at h
  rcases run_ite_ok.mp h with ⟨_, h⟩ | ⟨hne, h⟩
  · obtain ⟨_, _, hthrow, _⟩ := run_bind_ok.mp h
    exact (run_throw_ok.mp hthrow).elim
  · have heq : sortNat (pySetOrder erets) = es := by simpa using hne
    have hmem : ∀ x, x ∈ pySetOrder erets ↔ x ∈ es := by
      intro x; rw [← heq]; unfold sortNat; exact List.mem_mergeSort.symm
    cases ho : pySetOrder erets with
    | nil =>
      rw [ho] at h
      obtain ⟨_, rfl⟩ := run_pure_ok.mp h
      exact Cl.refl _
    | cons a rest =>
      rw [ho] at h hmem
      refine (orChain_cl (n := n) rest a h hf hk hn hd).mono (fun q hq => Or.inr (Or.inr ((hmem q).mp ?_)))
        (fun q _ h => Or.inr h)
      rcases hq with h | h
      · rw [h]; exact List.mem_cons_self
      · exact List.mem_cons_of_mem _ h

/-- the gates of `compile_or` (one or two `CX` and an `MCX` for at most two distinct argument qubits, the
chain of binary ors beyond), then the common tail -/
theorem orGates_cl {n : Nat} {erets es : List Nat} {dest : Option Nat} {e : BExp} {d a : Nat}
    {s s' : CState}
    (h : StateT.run (
        if es.length ≤ 2 then do
          cxAll d es
          if (es.length == 2) = true then do
              mcx es d
              markAll es
              if dest.isNone = true then do
                  expqSet e d
                  pure d
                else pure d
            else do
              markAll es
              if dest.isNone = true then do
                  expqSet e d
                  pure d
                else pure d
        else do
          orWide d erets es
          markAll es
          if dest.isNone = true then do
              expqSet e d
              pure d
            else pure d : M Nat) s = .ok (a, s'))
    (hf : s.qc.free = []) (hk : s.qc.kept = []) (hn : n ≤ s.qc.numQubits) (hd : n ≤ d) :
    ∃ t, a = d ∧ Cl n (· ∈ es) (· = d) s t ∧ Cl n NoP NoP t s' ∧ (∀ w ∈ es, w ∈ t.qc.anc → w ∈ s'.qc.marked) := by
  rcases run_ite_ok.mp h with ⟨_, h⟩ | ⟨_, h⟩
  · obtain ⟨u1, s1, hcx, h1⟩ := run_bind_ok.mp h
    have c1 := cxAll_cl (n := n) es hcx hd
    rcases run_ite_ok.mp h1 with ⟨_, h1⟩ | ⟨_, h1⟩
    · obtain ⟨u2, s2, hm, h2⟩ := run_bind_ok.mp h1
      have c2 := mcx_cl (n := n) hm hd
      obtain ⟨rfl, clf, hmk⟩ := finish_cl (n := n) (Pc := NoP) (Pt := NoP) h2 (c2.kept.trans (c1.kept.trans hk))
      exact ⟨s2, rfl, Cl.trans c1 c2 (fun q h => Or.inr (Or.inr h)) (fun q _ h => Or.inr h)
        (fun q h => Or.inr (Or.inr h)) (fun q _ h => Or.inr h), clf, hmk⟩
    · obtain ⟨rfl, clf, hmk⟩ := finish_cl (n := n) (Pc := NoP) (Pt := NoP) h1 (c1.kept.trans hk)
      exact ⟨s1, rfl, c1, clf, hmk⟩
  · obtain ⟨u1, s1, hw, h1⟩ := run_bind_ok.mp h
    have c1 := orWide_cl (n := n) hw hf hk hn hd
    obtain ⟨rfl, clf, hmk⟩ := finish_cl (n := n) (Pc := NoP) (Pt := NoP) h1 (c1.kept.trans hk)
    exact ⟨s1, rfl, c1, clf, hmk⟩

theorem exprCl_or {inputs : List String} {ρ : Env} {σ0 : FState} {r : String} (amb : Amb inputs σ0 r)
    {args : List BExp} (hov : overInputsList inputs args = true) (hdis : Distinct (compSubsList args))
    (ih : ArgsCl inputs ρ σ0 r args) : ExprCl inputs ρ σ0 r (.or args) := by
  intro dest sym a s s' h hp hk hcache hd hsym _
  unfold compileExpr at h
  dsimp only at h
  obtain ⟨r0, s1, hget, h1⟩ := run_bind_ok.mp h
  obtain ⟨rfl, rfl⟩ := expqGet?_miss hget (fun p hp' => hcache p hp' _ (by simp [compSubs]))
  dsimp only at h1
  obtain ⟨erets, s2, hargs, h2⟩ := run_bind_ok.mp h1
  have hc1 : ∀ p ∈ s1.expq, ∀ c ∈ compSubsList args, (p.1 == c) = false :=
    fun p hp' c hc => hcache p hp' c (by simp [compSubs, hc])
  obtain ⟨st1, _⟩ := argsSpec (B := (· = r)) args hargs hp.good
  obtain ⟨sem1, hvals, hb⟩ := argsSem (ρ := ρ) amb args hov hdis hargs hp hc1
  obtain ⟨cl1, hbc⟩ := ih hargs hp hk hc1
  have hk2 : s2.qc.kept = [] := cl1.kept.trans hk
  have hp2 : Pre inputs ρ σ0 s2 := hp.next amb st1 sem1 (by intro q hq; exact hq.elim)
  have body : ∀ {d : Nat} {s3 : CState} {k : M Nat} (es : List Nat),
      es = sortNat (if erets.contains d = true then erets.erase d else erets).eraseDups →
      (destOr dest).run s2 = .ok (d, s3) →
      StateT.run (if erets.contains d = true then do event "destAmongArgs"; k else k) s3 = .ok (a, s') →
      (k.run s3 = .ok (a, s') → s3.qc.free = [] → s3.qc.kept = [] → inputs.length ≤ s3.qc.numQubits →
        inputs.length ≤ d →
        ∃ t', a = d ∧ Cl inputs.length (· ∈ es) (· = d) s3 t' ∧ Cl inputs.length NoP NoP t' s' ∧
          (∀ w ∈ es, w ∈ t'.qc.anc → w ∈ s'.qc.marked)) →
      Cl inputs.length NoP (· = a) s1 s' ∧
      (dest = none → (a < inputs.length ∧ isSym (BExp.or args) = true) ∨ a ∈ s'.qc.anc) := by
    intro d s3 k es hes hdest h3 hk'
    obtain ⟨hp3, _, _, hdn, _⟩ := dest_sem amb hp2 sem1.nq hd hb hdest
    obtain ⟨cld, hdge, hdanc⟩ := dest_cl (Pc := NoP) (Pt := NoP) hp2 hd hdest
    have hcd : ¬ (erets.contains d = true) := by simpa using hdn
    rw [if_neg hcd] at hes
    rcases run_ite_ok.mp h3 with ⟨hc, _⟩ | ⟨_, h3⟩
    · exact absurd hc hcd
    · obtain ⟨t', had, clg, clf, hmk⟩ := hk' h3 hp3.free (cld.kept.trans hk2) hp3.nin hdge
      exact ⟨andor_cl cl1 hbc cld clg clf hmk (fun q => by rw [hes]; exact mem_sortDedup) had,
        fun hn => Or.inr (by rw [had]; exact clf.anc _ (clg.anc _ (hdanc hn)))⟩
  cases dest with
  | some d0 =>
    dsimp only at h2
    obtain ⟨d, s3, hp0, h4⟩ := run_bind_ok.mp h2
    exact body _ rfl hp0 h4 (fun hk' hf hkk hn hd' => orGates_cl hk' hf hkk hn hd')
  | none =>
    dsimp only at h2
    obtain ⟨d, s3, hf, h4⟩ := run_bind_ok.mp h2
    exact body _ rfl hf h4 (fun hk' hf hkk hn hd' => orGates_cl hk' hf hkk hn hd')

/-! ### `Xor` -/

theorem xorCl_nil {inputs : List String} {ρ : Env} {σ0 : FState} {r : String} :
    XorCl inputs ρ σ0 r [] := by
  intro d a s s' h _ _ _ _ _
  unfold compileXorArgs at h
  obtain ⟨rfl, rfl⟩ := run_pure_ok.mp h
  exact Cl.refl _

/-- generic branch of the `compile_xor` loop -/
theorem xorStep_cl {inputs : List String} {ρ : Env} {σ0 : FState} {r : String} (amb : Amb inputs σ0 r)
    {a : BExp} {as : List BExp} {d q : Nat} {s s' : CState}
    (hov : overInputs inputs a = true) (hda : Distinct (compSubs a))
    (iha : ExprCl inputs ρ σ0 r a) (ihs : XorCl inputs ρ σ0 r as) (hns : isSym a = false)
    (hdis : ∀ x ∈ compSubs a, ∀ y ∈ compSubsList as, (x == y) = false)
    (h : StateT.run (do
          let d' ← compileExpr a (some d) none
          if d' != d then event "xorRepl"
          compileXorArgs as d' : M Nat) s = .ok (q, s'))
    (hp : Pre inputs ρ σ0 s) (hk : s.qc.kept = [])
    (hcache : ∀ p ∈ s.expq, ∀ c ∈ compSubsList (a :: as), (p.1 == c) = false)
    (hd1 : inputs.length ≤ d) (hd2 : d < s.qc.numQubits) :
    Cl inputs.length NoP (· = d) s s' := by
  obtain ⟨d', s1, h1, h2⟩ := run_bind_ok.mp h
  have hc1 : ∀ p ∈ s.expq, ∀ c ∈ compSubs a, (p.1 == c) = false :=
    fun p hp' c hc => hcache p hp' c (by simp [compSubsList, hc])
  have hdd : ∀ d0, some d = some d0 → inputs.length ≤ d0 ∧ d0 < s.qc.numQubits := by
    intro d0 h0; cases h0; exact ⟨hd1, hd2⟩
  have hss : isSym a = true → some d = none ∧ (none : Option String) = none := by
    intro hs; rw [hns] at hs; cases hs
  obtain ⟨hp1, _, sem1, hv1⟩ := expr_pre amb hov hda h1 hp hc1 hdd (by intro y hy; cases hy) hss
  obtain ⟨cl1, _⟩ := iha (some d) none h1 hp hk hc1 hdd (by intro y hy; cases hy) hss
  have e' := hv1 d rfl
  subst e'
  dsimp only at h2
  rcases run_ite_ok.mp h2 with ⟨hc, _⟩ | ⟨_, h2⟩
  · simp at hc
  · have cl2 := ihs d' h2 hp1 (cl1.kept.trans hk) (cache_next hcache sem1 (fun _ h => h) hdis) hd1
      (Nat.lt_of_lt_of_le hd2 sem1.nq)
    exact Cl.trans cl1 cl2 (fun _ h => h.elim) (fun q _ h => Or.inr h) (fun _ h => h.elim) (fun q _ h => Or.inr h)

/-- `Not` of a compound argument: accumulate the argument, then `X` -/
theorem xorNotStep_cl {inputs : List String} {ρ : Env} {σ0 : FState} {r : String} (amb : Amb inputs σ0 r)
    {inner : BExp} {as : List BExp} {d q : Nat} {s s' : CState}
    (hov : overInputs inputs inner = true) (hda : Distinct (compSubs inner))
    (iha : ExprCl inputs ρ σ0 r inner) (ihs : XorCl inputs ρ σ0 r as) (hns : isSym inner = false)
    (hdis : ∀ x ∈ compSubs (.not inner), ∀ y ∈ compSubsList as, (x == y) = false)
    (h : StateT.run (do
          let d' ← compileExpr inner (some d) none
          if d' != d then event "xorRepl"
          xGate d'
          compileXorArgs as d' : M Nat) s = .ok (q, s'))
    (hp : Pre inputs ρ σ0 s) (hk : s.qc.kept = [])
    (hcache : ∀ p ∈ s.expq, ∀ c ∈ compSubsList (.not inner :: as), (p.1 == c) = false)
    (hd1 : inputs.length ≤ d) (hd2 : d < s.qc.numQubits) :
    Cl inputs.length NoP (· = d) s s' := by
  obtain ⟨d', s1, h1, h2⟩ := run_bind_ok.mp h
  have hc1 : ∀ p ∈ s.expq, ∀ c ∈ compSubs inner, (p.1 == c) = false :=
    fun p hp' c hc => hcache p hp' c (by simp [compSubsList, compSubs, hc])
  have hdd : ∀ d0, some d = some d0 → inputs.length ≤ d0 ∧ d0 < s.qc.numQubits := by
    intro d0 h0; cases h0; exact ⟨hd1, hd2⟩
  have hss : isSym inner = true → some d = none ∧ (none : Option String) = none := by
    intro hs; rw [hns] at hs; cases hs
  obtain ⟨hp1, _, sem1, hv1⟩ := expr_pre amb hov hda h1 hp hc1 hdd (by intro y hy; cases hy) hss
  obtain ⟨cl1, _⟩ := iha (some d) none h1 hp hk hc1 hdd (by intro y hy; cases hy) hss
  have e' := hv1 d rfl
  subst e'
  dsimp only at h2
  rcases run_ite_ok.mp h2 with ⟨hc, _⟩ | ⟨_, h2⟩
  · simp at hc
  · obtain ⟨u, s2, hx, h3⟩ := run_bind_ok.mp h2
    have ax := xGate_run hx
    have semx : Sem σ0 (· = d') NoK NoQ s1 s2 := ax.sem rfl
    have hd3 : d' < s1.qc.numQubits := Nat.lt_of_lt_of_le hd2 sem1.nq
    have hp2 : Pre inputs ρ σ0 s2 := hp1.next amb (xGate_ok (B := (· = r)) hx hp1.good hd3) semx
      (by intro q hq; rw [hq]; exact hd1)
    have sem12 := sem1.trans' semx
    have clx := xGate_cl (n := inputs.length) hx hd1
    have cl2 := ihs d' h3 hp2 (clx.kept.trans (cl1.kept.trans hk))
      (cache_next hcache sem12 (by
        rintro c (h | h)
        · simp [compSubs, show c ∈ compSubs inner from h]
        · exact h.elim) hdis) hd1
      (Nat.lt_of_lt_of_le hd2 sem12.nq)
    exact Cl.trans (Cl.trans cl1 clx (Pc := NoP) (Pt := (· = d')) (fun _ h => h.elim) (fun q _ h => Or.inr h)
      (fun _ h => nomatch h) (fun q _ h => Or.inr h)) cl2 (fun _ h => h.elim) (fun q _ h => Or.inr h)
      (fun _ h => h.elim) (fun q _ h => Or.inr h)

theorem xorCl_cons {inputs : List String} {ρ : Env} {σ0 : FState} {r : String} (amb : Amb inputs σ0 r)
    {a : BExp} {as : List BExp} (hov : overInputs inputs a = true) (hda : Distinct (compSubs a))
    (iha : ExprCl inputs ρ σ0 r a) (ihi : ExprCl inputs ρ σ0 r (stripNot a))
    (ihs : XorCl inputs ρ σ0 r as)
    (hdis : ∀ x ∈ compSubs a, ∀ y ∈ compSubsList as, (x == y) = false) :
    XorCl inputs ρ σ0 r (a :: as) := by
  intro d q s s' h hp hk hcache hd1 hd2
  have hovi := overInputs_strip hov
  have hdai := distinct_strip hda
  cases a with
  | sym n =>
    unfold compileXorArgs at h
    obtain ⟨q0, s1, hl, h1⟩ := run_bind_ok.mp h
    obtain ⟨rfl, hq0, _⟩ := lookup_ok hl hp.good
    have hn : n ∈ inputs := by simpa [overInputs] using hov
    obtain ⟨i, hi⟩ := idx_of_mem hn
    have hb := hp.bind i n hi
    rw [hq0] at hb
    have hqi : q0 = i := by simpa using hb
    subst hqi
    have hil := (mem_of_getElem?' hi).2
    rcases run_ite_ok.mp h1 with ⟨hc, _⟩ | ⟨_, h1⟩
    · have : q0 = d := by simpa using hc
      omega
    · obtain ⟨u, s2, hcx, h2⟩ := run_bind_ok.mp h1
      have ac := cx_run hcx
      have semc : Sem σ0 (· = d) NoK NoQ s1 s2 := ac.sem rfl
      have hp2 : Pre inputs ρ σ0 s2 := hp.next amb
        (cx_ok (B := (· = r)) hcx hp.good (Nat.lt_of_lt_of_le hil hp.nin) hd2) semc
        (by intro q hq; rw [hq]; exact hd1)
      have clc := cx_cl (n := inputs.length) hcx hd1
      have cl2 := ihs d h2 hp2 (clc.kept.trans hk)
        (cache_next hcache semc (fun _ h => h.elim) hdis) hd1 (Nat.lt_of_lt_of_le hd2 semc.nq)
      refine Cl.trans clc cl2 ?_ (fun q _ h => Or.inr h) (fun _ h => h.elim) (fun q _ h => Or.inr h)
      intro q hq
      have : q = q0 := by simpa using hq
      subst this
      exact Or.inl hil
  | not inner =>
    cases inner with
    | sym n =>
      unfold compileXorArgs at h
      exact xorStep_cl amb hov hda iha ihs rfl hdis h hp hk hcache hd1 hd2
    | ff => simp [overInputs] at hov
    | tt => simp [overInputs] at hov
    | xor l => unfold compileXorArgs at h; exact xorNotStep_cl amb hovi hdai ihi ihs rfl hdis h hp hk hcache hd1 hd2
    | not l => unfold compileXorArgs at h; exact xorNotStep_cl amb hovi hdai ihi ihs rfl hdis h hp hk hcache hd1 hd2
    | and l => unfold compileXorArgs at h; exact xorNotStep_cl amb hovi hdai ihi ihs rfl hdis h hp hk hcache hd1 hd2
    | or l => unfold compileXorArgs at h; exact xorNotStep_cl amb hovi hdai ihi ihs rfl hdis h hp hk hcache hd1 hd2
    | ite x y z => simp [overInputs] at hov
    | imp x y => simp [overInputs] at hov
  | ff => simp [overInputs] at hov
  | tt => simp [overInputs] at hov
  | xor l => unfold compileXorArgs at h; exact xorStep_cl amb hov hda iha ihs rfl hdis h hp hk hcache hd1 hd2
  | and l => unfold compileXorArgs at h; exact xorStep_cl amb hov hda iha ihs rfl hdis h hp hk hcache hd1 hd2
  | or l => unfold compileXorArgs at h; exact xorStep_cl amb hov hda iha ihs rfl hdis h hp hk hcache hd1 hd2
  | ite x y z => simp [overInputs] at hov
  | imp x y => simp [overInputs] at hov

theorem exprCl_xor {inputs : List String} {ρ : Env} {σ0 : FState} {r : String} (amb : Amb inputs σ0 r)
    {args : List BExp} (hov : overInputsList inputs args = true) (hdis : Distinct (compSubsList args))
    (ih : XorCl inputs ρ σ0 r args) : ExprCl inputs ρ σ0 r (.xor args) := by
  intro dest sym a s s' h hp hk hcache hd hsym _
  unfold compileExpr at h
  dsimp only at h
  obtain ⟨r0, s1, hget, h1⟩ := run_bind_ok.mp h
  obtain ⟨rfl, rfl⟩ := expqGet?_miss hget (fun p hp' => hcache p hp' _ (by simp [compSubs]))
  dsimp only at h1
  have hsub : ∀ p ∈ s1.expq, ∀ c ∈ compSubsList args, (p.1 == c) = false :=
    fun p hp' c hc => hcache p hp' c (by simp [compSubs, hc])
  cases dest with
  | some d =>
    simp only [Option.isNone_some, Bool.false_eq_true, ↓reduceIte] at h1
    obtain ⟨d0, s2, hp0, h2⟩ := run_bind_ok.mp h1
    obtain ⟨rfl, rfl⟩ := run_pure_ok.mp hp0
    obtain ⟨d', s3, hx, h3⟩ := run_bind_ok.mp h2
    obtain ⟨rfl, rfl⟩ := run_pure_ok.mp h3
    obtain ⟨hd1, hd2⟩ := hd d0 rfl
    obtain ⟨e', _, _⟩ := xorSem (ρ := ρ) amb args hov hdis d0 hx hp hsub hd1 hd2
    have cl1 := ih d0 hx hp hk hsub hd1 hd2
    rw [← e'] at cl1
    exact ⟨cl1, fun hn => by cases hn⟩
  | none =>
    simp only [Option.isNone_none, ↓reduceIte] at h1
    obtain ⟨d, s2, hf, h2⟩ := run_bind_ok.mp h1
    obtain ⟨semf, hcf, hdf, hnf⟩ := getFreeAncilla_sem (σ0 := σ0) hf hp.free
    obtain ⟨clf, hdanc⟩ := getFreeAncilla_cl (n := inputs.length) (Pc := NoP) (Pt := NoP) hf hp.free
    have hp2 : Pre inputs ρ σ0 s2 := hp.next amb (getFreeAncilla_ok (B := (· = r)) hf hp.good).1 semf
      (by intro q hq; exact hq.elim)
    obtain ⟨d', s3, hx, h3⟩ := run_bind_ok.mp h2
    obtain ⟨u, s4, hset, h4⟩ := run_bind_ok.mp h3
    obtain ⟨ha4, hs4⟩ := run_pure_ok.mp h4
    subst hs4; subst ha4
    have hd1 : inputs.length ≤ d := by rw [hdf]; exact hp.nin
    have hsub2 : ∀ p ∈ s2.expq, ∀ c ∈ compSubsList args, (p.1 == c) = false := by
      intro p hp' c hc
      rcases semf.keys p hp' with ⟨p0, hp0, e0⟩ | hk
      · rw [← e0]; exact hsub p0 hp0 c hc
      · exact hk.elim
    obtain ⟨e', _, _⟩ := xorSem (ρ := ρ) amb args hov hdis d hx hp2 hsub2 hd1 (by omega)
    have cl1 := ih d hx hp2 (clf.kept.trans hk) hsub2 hd1 (by omega)
    rw [← e'] at cl1
    obtain ⟨e4, _⟩ := expqSet_run hset
    have cl1' := cl1.of_qc (t := s2) (t' := s') rfl e4
    refine ⟨Cl.trans clf cl1' (fun _ h => h.elim) (fun _ _ h => h.elim) (fun _ h => h.elim) (fun q _ h => Or.inr h),
      fun _ => Or.inr (cl1'.anc _ ?_)⟩
    rw [e']; exact hdanc

/-! ### the induction -/

mutual
/-- **shape of the gates `compileExpr` emits** on the tree-like fragment (any `Or` arity) -/
theorem exprCl {inputs : List String} {ρ : Env} {σ0 : FState} {r : String} (amb : Amb inputs σ0 r) :
    ∀ e : BExp, overInputs inputs e = true → Distinct (compSubs e) → ExprCl inputs ρ σ0 r e
  | .sym n => fun hov _ => exprCl_sym n (by simpa [overInputs] using hov)
  | .not a => fun hov hd =>
    have hov' : overInputs inputs a = true := by simpa [overInputs] using hov
    have hd' : Distinct (compSubs a) := distinct_tail (by simpa [compSubs] using hd)
    exprCl_not amb hov' hd' (exprCl amb a hov' hd')
  | .and args => fun hov hd =>
    have hov' : overInputsList inputs args = true := by simpa [overInputs] using hov
    have hd' : Distinct (compSubsList args) := distinct_cons_list (by simpa [compSubs] using hd)
    exprCl_and amb hov' hd' (argsCl amb args hov' hd')
  | .or args => fun hov hd =>
    have hov' : overInputsList inputs args = true := by simpa [overInputs] using hov
    have hd' : Distinct (compSubsList args) := distinct_cons_list (by simpa [compSubs] using hd)
    exprCl_or amb hov' hd' (argsCl amb args hov' hd')
  | .xor args => fun hov hd =>
    have hov' : overInputsList inputs args = true := by simpa [overInputs] using hov
    have hd' : Distinct (compSubsList args) := distinct_cons_list (by simpa [compSubs] using hd)
    exprCl_xor amb hov' hd' (xorCl amb args hov' hd')
  | .ff => fun hov _ => by simp [overInputs] at hov
  | .tt => fun hov _ => by simp [overInputs] at hov
  | .ite _ _ _ => fun hov _ => by simp [overInputs] at hov
  | .imp _ _ => fun hov _ => by simp [overInputs] at hov
theorem argsCl {inputs : List String} {ρ : Env} {σ0 : FState} {r : String} (amb : Amb inputs σ0 r) :
    ∀ as : List BExp, overInputsList inputs as = true → Distinct (compSubsList as) →
      ArgsCl inputs ρ σ0 r as
  | [] => fun _ _ => argsCl_nil (r := r)
  | a :: as => fun hov hd =>
    have hov' : overInputs inputs a = true ∧ overInputsList inputs as = true := by
      simpa [overInputsList] using hov
    have hds := distinct_split hd
    argsCl_cons amb hov'.1 hds.1 (exprCl amb a hov'.1 hds.1) (argsCl amb as hov'.2 hds.2.1) hds.2.2
theorem xorCl {inputs : List String} {ρ : Env} {σ0 : FState} {r : String} (amb : Amb inputs σ0 r) :
    ∀ as : List BExp, overInputsList inputs as = true → Distinct (compSubsList as) →
      XorCl inputs ρ σ0 r as
  | [] => fun _ _ => xorCl_nil (r := r)
  | .not i :: as => fun hov hd =>
    have hov' : overInputs inputs (.not i) = true ∧ overInputsList inputs as = true := by
      simpa [overInputsList] using hov
    have hds := distinct_split hd
    xorCl_cons amb hov'.1 hds.1 (exprCl amb (.not i) hov'.1 hds.1)
      (exprCl amb i (overInputs_strip hov'.1) (distinct_strip hds.1))
      (xorCl amb as hov'.2 hds.2.1) hds.2.2
  | .sym n :: as => fun hov hd =>
    have hov' : overInputs inputs (.sym n) = true ∧ overInputsList inputs as = true := by
      simpa [overInputsList] using hov
    have hds := distinct_split hd
    xorCl_cons amb hov'.1 hds.1 (exprCl amb (.sym n) hov'.1 hds.1) (exprCl amb (.sym n) hov'.1 hds.1)
      (xorCl amb as hov'.2 hds.2.1) hds.2.2
  | .xor l :: as => fun hov hd =>
    have hov' : overInputs inputs (.xor l) = true ∧ overInputsList inputs as = true := by
      simpa [overInputsList] using hov
    have hds := distinct_split hd
    xorCl_cons amb hov'.1 hds.1 (exprCl amb (.xor l) hov'.1 hds.1) (exprCl amb (.xor l) hov'.1 hds.1)
      (xorCl amb as hov'.2 hds.2.1) hds.2.2
  | .and l :: as => fun hov hd =>
    have hov' : overInputs inputs (.and l) = true ∧ overInputsList inputs as = true := by
      simpa [overInputsList] using hov
    have hds := distinct_split hd
    xorCl_cons amb hov'.1 hds.1 (exprCl amb (.and l) hov'.1 hds.1) (exprCl amb (.and l) hov'.1 hds.1)
      (xorCl amb as hov'.2 hds.2.1) hds.2.2
  | .or l :: as => fun hov hd =>
    have hov' : overInputs inputs (.or l) = true ∧ overInputsList inputs as = true := by
      simpa [overInputsList] using hov
    have hds := distinct_split hd
    xorCl_cons amb hov'.1 hds.1 (exprCl amb (.or l) hov'.1 hds.1) (exprCl amb (.or l) hov'.1 hds.1)
      (xorCl amb as hov'.2 hds.2.1) hds.2.2
  | .ff :: as => fun hov _ => by simp [overInputsList, overInputs] at hov
  | .tt :: as => fun hov _ => by simp [overInputsList, overInputs] at hov
  | .ite _ _ _ :: as => fun hov _ => by simp [overInputsList, overInputs] at hov
  | .imp _ _ :: as => fun hov _ => by simp [overInputsList, overInputs] at hov
end

/-! ### the statement loop for one definition, and `compile` with `uncompute = true` -/

theorem addInputs_gc : ∀ (ns : List String) {u : Unit} {s s' : CState},
    (addInputs ns).run s = .ok (u, s') → s'.qc.gatesComputed = s.qc.gatesComputed
  | [], u, s, s', h => by
    unfold addInputs at h
    obtain ⟨_, rfl⟩ := run_pure_ok.mp h
    rfl
  | n :: ns, u, s, s', h => by
    unfold addInputs at h
    obtain ⟨u1, s1, hd, h1⟩ := run_bind_ok.mp h
    obtain ⟨i0, hadd⟩ := run_discard_ok.mp hd
    have hs1 := (addQubit_run hadd).2
    have h2 := addInputs_gc ns h1
    rw [hs1] at h2
    exact h2

theorem mapQubit_gc {name : String} {index : Nat} {promote : Bool} {u : Unit} {s s' : CState}
    (h : (mapQubit name index promote).run s = .ok (u, s')) :
    s'.qc.gatesComputed = s.qc.gatesComputed := by
  unfold mapQubit at h
  dsimp only at h
  obtain ⟨qc, s1, hq, h⟩ := run_bind_ok.mp h
  obtain ⟨rfl, rfl⟩ := getQC_run hq
  split at h
  · obtain ⟨u2, s3, hm1, hmatch⟩ := run_bind_ok.mp h
    have := modQC_run hm1; subst this
    split at hmatch
    · obtain ⟨u3, s4, hm2, hm3⟩ := run_bind_ok.mp hmatch
      have := modQC_run hm2; subst this
      have := modQC_run hm3; subst this
      rfl
    · have := modQC_run hmatch; subst this
      rfl
  · have := modQC_run h; subst this
    rfl

theorem removeIdentities_free {u : Unit} {s s' : CState} (h : removeIdentities.run s = .ok (u, s')) :
    s'.qc.free = s.qc.free := by
  unfold removeIdentities at h
  obtain ⟨qc, s1, hq, h1⟩ := run_bind_ok.mp h
  obtain ⟨rfl, rfl⟩ := getQC_run hq
  have := modQC_run h1; subst this
  rfl

theorem mem_removeIdentitiesList {gs : List AGate} {g : AGate} (h : g ∈ removeIdentitiesList gs) : g ∈ gs := by
  unfold removeIdentitiesList at h
  rcases removeIdentitiesLoop_subset _ _ _ g h with h' | h'
  · exact h'
  · cases h'

/-- the top-level expression of the single definition, compiled with `sym = some r` -/
theorem topExpr_cl {inputs : List String} {ρ : Env} {σ0 : FState} {r : String} (amb : Amb inputs σ0 r)
    {e : BExp} (hov : overInputs inputs e = true) (htl : treeLike e = true)
    {iret : Nat} {s t : CState}
    (h : (compileExpr e none (some r)).run s = .ok (iret, t)) (hp : Pre inputs ρ σ0 s)
    (hk : s.qc.kept = []) (hex : s.expq = []) (hinp : s.inputs = inputs) :
    Cl inputs.length NoP (· = iret) s t ∧
      ((isSym e = false ∨ r.startsWith "_ret" = true) → inputs.length ≤ iret) ∧ t.qc.free = [] := by
  cases hs : isSym e with
  | true =>
    cases e with
    | sym n =>
      have hn : n ∈ inputs := by simpa [overInputs] using hov
      obtain ⟨i, hi⟩ := idx_of_mem hn
      have hbi := hp.bind i n hi
      have hil := (mem_of_getElem?' hi).2
      unfold compileExpr at h
      unfold compileSymbol at h
      dsimp only at h
      split at h
      · next hret =>
        rw [run_get_bind_ok] at h
        split at h
        · obtain ⟨a0, s2, hadd, h2⟩ := run_bind_ok.mp h
          obtain ⟨ha0, hs2⟩ := addQubit_run hadd
          obtain ⟨stA, _, _, _, _⟩ := addQubit_ok (B := (· = r)) hadd hp.good (Or.inl rfl)
          obtain ⟨q, s3, hl, h3⟩ := run_bind_ok.mp h2
          obtain ⟨rfl, hq, _⟩ := lookup_ok hl stA.good
          obtain ⟨u, s4, hcx, hpure⟩ := run_bind_ok.mp h3
          obtain ⟨hiret, hst⟩ := run_pure_ok.mp hpure
          subst hst; subst hiret
          have hqi : q = i := by
            rw [hs2] at hq
            change dictGet? (dictSet s.qc.qmap r s.qc.numQubits) n = some q at hq
            rw [dictGet?_dictSet_ne (amb.fresh n hn).1, hbi] at hq
            exact (Option.some.inj hq).symm
          subst hqi
          have hge : inputs.length ≤ iret := by rw [ha0]; exact hp.nin
          have cla : Cl inputs.length NoP NoP s s3 := by
            rw [hs2]; exact Cl.quiet rfl rfl (fun _ h => h) (fun _ h => h) rfl
          have clc := cx_cl (n := inputs.length) hcx hge
          refine ⟨Cl.trans cla clc (fun _ h => h.elim) (fun _ _ h => h.elim) ?_ (fun q _ h => Or.inr h), fun _ => hge,
            by rw [(cx_run hcx).free, hs2]; exact hp.free⟩
          intro c hc
          have : c = q := by simpa using hc
          subst this
          exact Or.inl hil
        · next hc =>
          exfalso; apply hc
          rw [hinp]; simpa using hn
      · next hret =>
        obtain ⟨qc, s1, hq, h⟩ := run_bind_ok.mp h
        obtain ⟨rfl, rfl⟩ := getQC_run hq
        split at h
        · obtain ⟨hiret, hst⟩ := run_pure_ok.mp h
          subst hst
          refine ⟨Cl.refl _, fun hc => ?_, hp.free⟩
          rcases hc with hc | hc
          · simp at hc
          · exact absurd hc hret
        · exact (run_throw_ok.mp h).elim
    | _ => simp [isSym] at hs
  | false =>
    have hdis := distinctB_iff.mp htl
    have hc0 : ∀ p ∈ s.expq, ∀ c ∈ compSubs e, (p.1 == c) = false := by
      intro p hp'; rw [hex] at hp'; cases hp'
    have hss : isSym e = true → (none : Option Nat) = none ∧ some r = none := by
      intro hs'; rw [hs] at hs'; cases hs'
    obtain ⟨hpt, _, _, _⟩ := expr_pre (ρ := ρ) amb hov hdis h hp hc0 (by intro d hd; cases hd)
      (by intro y hy; cases hy; rfl) hss
    obtain ⟨cl, hres⟩ := exprCl (ρ := ρ) amb e hov hdis none (some r) h hp hk hc0 (by intro d hd; cases hd)
      (by intro y hy; cases hy; rfl) hss
    refine ⟨cl, fun _ => ?_, hpt.free⟩
    rcases hres rfl with h' | h'
    · rw [hs] at h'; cases h'.2
    · exact hpt.sge.1 _ h'

theorem mem_of_map_gcore {U L : List AGate} (h : U.map gcore = L.map gcore) {g : AGate} (hg : g ∈ U) :
    ∃ g' ∈ L, g'.cls = g.cls ∧ g'.wires = g.wires := by
  have hm : gcore g ∈ U.map gcore := List.mem_map.mpr ⟨g, hg, rfl⟩
  rw [h] at hm
  obtain ⟨g', hg', e⟩ := List.mem_map.mp hm
  exact ⟨g', hg', congrArg Prod.fst e, congrArg Prod.snd e⟩

/-- **one definition `r = e` of the tree-like fragment (any `Or` arity), `uncompute = true`, `r` requested**:
after every successful run of `compile`, on every input every qubit other than the one mapped to `r`
is back to its initial value; that qubit is not an argument qubit unless `e` is a bare symbol aliased
under a non-return name; it is never a control; no gate targets an argument qubit -/
theorem compile_single_clean {inputs : List String} {r : String} {e : BExp} {rets : List String}
    {unc : Bool} {cs : List Nat} {s : CState}
    (h : (compile inputs [(r, e)] (some rets) unc).run { choices := cs } = .ok ((), s))
    (hunc : unc = true) (hr : r ∈ rets)
    (hnd : inputs.Nodup) (hfresh : ∀ n ∈ inputs, n ≠ r ∧ reservedName n = false)
    (hov : overInputs inputs e = true) (htl : treeLike e = true)
    (x : List Bool) (hx : x.length = inputs.length) :
    ∃ q, dictGet? s.qc.qmap r = some q ∧
      (∀ p, p ≠ q →
        (runClassical s.qc.gates.toList (initState x s.qc.numQubits)).getD p false =
          (initState x s.qc.numQubits).getD p false) ∧
      ((isSym e = false ∨ r.startsWith "_ret" = true) → inputs.length ≤ q) ∧
      (inputs.length ≤ q → retNeverControl s.qc.gates.toList q = true) ∧
      (∀ g ∈ s.qc.gates.toList, inputs.length ≤ g.target) := by
  unfold compile at h
  obtain ⟨u0, s0, hmod, h1⟩ := run_bind_ok.mp h
  have := run_modify_ok.mp hmod; subst this
  have hg0 : Good { choices := cs, inputs := inputs } := good_init cs inputs
  obtain ⟨u1, s1, hin, h2⟩ := run_bind_ok.mp h1
  obtain ⟨st1, hn1, _, hpos⟩ := addInputs_ok inputs hin hg0
  obtain ⟨ha1, hf1, hm1, hk1⟩ := addInputs_scratch inputs hin
  obtain ⟨hga1, hex1, hinp1⟩ := addInputs_quiet inputs hin
  have hgc1 := addInputs_gc inputs hin
  obtain ⟨u2, s2, hdefs, h3⟩ := run_bind_ok.mp h2
  obtain ⟨st2, _⟩ := compileDefs_ok (B := (· = r)) (retBits := some rets) (doUnc := unc) [(r, e)] hdefs st1.good
    (fun p hp => by simp at hp; rw [hp])
  have hg2 := st2.good
  obtain ⟨u3, s3, hrem, h4⟩ := run_bind_ok.mp h3
  obtain ⟨hrg, hrq, hrn⟩ := removeIdentities_run hrem
  have hrf := removeIdentities_free hrem
  -- the final `uncompute_all` (analysed below, once the gate list is known)
  have hfin : (∀ g ∈ s3.qc.gates.toList,
        (rets.filterMap (dictGet? s3.qc.qmap)).contains g.target = true ∨ s3.qc.free.contains g.target = true) →
      s.qc.gates = s3.qc.gates ∧ s.qc.numQubits = s3.qc.numQubits ∧ s.qc.qmap = s3.qc.qmap := by
    intro hall
    dsimp only at h4
    rcases run_ite_ok.mp h4 with ⟨_, h4⟩ | ⟨hc, _⟩
    · obtain ⟨qc, s4, hq, h5⟩ := run_bind_ok.mp h4
      obtain ⟨rfl, rfl⟩ := getQC_run hq
      exact uncomputeAll_skip h5 hall
    · exact absurd hunc hc
  -- ambient facts for this input
  have hn1' : s1.qc.numQubits = inputs.length := by rw [hn1]; simp
  have hnin2 : inputs.length ≤ s2.qc.numQubits := by rw [← hn1']; exact st2.nq_le
  let σ : BState := initState x s.qc.numQubits
  let σ0 : FState := toF σ
  have amb : Amb inputs σ0 r := by
    refine ⟨hfresh, fun q hq => ?_⟩
    show (initState x s.qc.numQubits).getD q false = false
    rw [initState_getD]
    have : x[q]? = none := by simp; omega
    simp [List.getD_eq_getElem?_getD, this]
  have hp1 : Pre inputs (envOf (inputs.zip x)) σ0 s1 := by
    refine ⟨st1.good, hf1, Nat.le_of_eq hn1'.symm, ⟨?_, ?_, ?_, ?_⟩, ?_, ?_⟩
    · rw [ha1]; intro a ha; cases ha
    · rw [hf1]; intro a ha; cases ha
    · rw [hm1]; intro a ha; cases ha
    · rw [hk1]; intro a ha; cases ha
    · intro i n hi
      have := hpos hnd (fun m hm => (hfresh m hm).2) i n hi
      simpa using this
    · intro i n hi
      show runF s1.qc.gates.toList σ0 i = _
      rw [hga1]
      show (initState x s.qc.numQubits).getD i false = _
      rw [initState_getD, envOf_zip hnd hi]
  -- the statement loop
  unfold compileDefs at hdefs
  obtain ⟨iret, t1, he, k1⟩ := run_bind_ok.mp hdefs
  obtain ⟨u40, t1', hrs, k1'⟩ := run_bind_ok.mp k1
  obtain ⟨u4, t2, hset, k2⟩ := run_bind_ok.mp k1'
  obtain ⟨u5, t3, hmap, k3⟩ := run_bind_ok.mp k2
  -- the defined name is a requested return bit: ancillas are released inline
  have hinl : inlineUncompute (some rets) unc r = true := by
    unfold inlineUncompute
    rw [hunc]
    simpa using hr
  rw [if_pos hinl] at k3
  obtain ⟨uncl, t4, hunr, k4⟩ := run_bind_ok.mp k3
  obtain ⟨u6, t5, hrm, k5⟩ := run_bind_ok.mp k4
  unfold compileDefs at k5
  obtain ⟨_, rfl⟩ := run_pure_ok.mp k5
  obtain ⟨q1, hlt⟩ := exprSpec (B := (· = r)) e none (some r) he st1.good (by intro d hd; cases hd)
    (by intro y hy; cases hy; rfl)
  obtain ⟨_, hnm⟩ := topExpr_sem (ρ := envOf (inputs.zip x)) amb hov htl he hp1 hex1 hm1 hinp1
  obtain ⟨cl0, hge, _⟩ := topExpr_cl (ρ := envOf (inputs.zip x)) amb hov htl he hp1 hk1 hex1 hinp1
  have q1' : Step (· = r) t1 t1' := expqRemoveSymbol_ok hrs q1.good
  have hqc1' : t1'.qc = t1.qc := by
    unfold expqRemoveSymbol at hrs
    have := run_modify_ok.mp hrs; subst this; rfl
  have q2 : Step (· = r) t1' t2 := expqSet_ok hset q1'.good (Nat.lt_of_lt_of_le hlt q1'.nq_le)
  obtain ⟨hqc2', _⟩ := expqSet_run hset
  have hqc2 : t2.qc = t1.qc := hqc2'.trans hqc1'
  obtain ⟨q3, hkey⟩ := mapQubit_ok (B := (· = r)) hmap q2.good
    (Nat.lt_of_lt_of_le hlt (q1'.trans q2).nq_le) rfl (by intro hp; cases hp)
  obtain ⟨hg3, hm3, _⟩ := mapQubit_run hmap
  have hgc3 := mapQubit_gc hmap
  obtain ⟨_, _, _, e3, _⟩ := uncompute_gates hunr
  obtain ⟨U, x1, x2, x3⟩ := uncompute_exact hunr
  have hqc5 := expqRemove_run hrm
  -- the computed gates and their shape
  have hs1g : s1.qc.gates.toList = [] := by rw [hga1]
  obtain ⟨new, en, hG⟩ := cl0.ext
  rw [hs1g, List.nil_append] at en
  rw [← en] at hG
  have hcomp : t1.qc.gatesComputed = t1.qc.gates := cl0.comp (by rw [hgc1, hga1])
  have e31 : t3.qc.gates = t1.qc.gates := by rw [hg3, hqc2]
  have ec31 : t3.qc.gatesComputed = t1.qc.gates := by rw [hgc3, hqc2, hcomp]
  have em31 : t3.qc.marked = t1.qc.marked := by rw [hm3, hqc2]
  rw [ec31, em31] at x2
  rw [em31] at x3
  have hs2g : s2.qc.gates.toList = t1.qc.gates.toList ++ U := by rw [hqc5, x1, e31]
  have hUmem : ∀ g ∈ U, ∃ g' ∈ t1.qc.gates.toList, g'.cls = g.cls ∧ g'.wires = g.wires ∧
      t1.qc.marked.contains g'.target = true := by
    intro g hg
    obtain ⟨g', hg', ec, ew⟩ := mem_of_map_gcore x2 hg
    obtain ⟨hm1', hm2'⟩ := List.mem_filter.mp hg'
    exact ⟨g', List.mem_reverse.mp hm1', ec, ew, hm2'⟩
  have hkey3 : dictGet? s3.qc.qmap r = some iret := by rw [hrq, hqc5, e3]; exact hkey
  have hfree3 : ∀ m ∈ t1.qc.marked, m ∈ s3.qc.free := by
    intro m hm; rw [hrf, hqc5]; exact x3 m hm
  have hmem3 : ∀ g ∈ s3.qc.gates.toList, g ∈ t1.qc.gates.toList ∨ g ∈ U := by
    intro g hg
    rw [hrg, hs2g] at hg
    exact List.mem_append.mp (mem_removeIdentitiesList hg)
  obtain ⟨f1, f4, f3⟩ := hfin (by
    intro g hg
    have tgt : g.target ∈ t1.qc.marked ∨ g.target = iret := by
      rcases hmem3 g hg with hg | hg
      · exact (hG g hg).2.2
      · obtain ⟨g', _, _, ew, hm⟩ := hUmem g hg
        have : g.target = g'.target := by unfold AGate.target; rw [ew]
        rw [this]; exact Or.inl (by simpa using hm)
    rcases tgt with ht | ht
    · exact Or.inr (by simpa using hfree3 _ ht)
    · refine Or.inl ?_
      have : iret ∈ rets.filterMap (dictGet? s3.qc.qmap) := List.mem_filterMap.mpr ⟨r, hr, hkey3⟩
      rw [ht]; simpa using this)
  have hN : s.qc.numQubits = s2.qc.numQubits := f4.trans hrn
  refine ⟨iret, by rw [f3]; exact hkey3, ?_, hge, ?_, ?_⟩
  · intro p hp
    rw [f1, hrg, removeIdentitiesList_sound _ (fun g hg => (hg2.gates_ok g hg).2.1)]
    have hlen : σ.length = s2.qc.numQubits := by
      rw [← hN]; exact initState_length x _ (by rw [hN, hx]; exact hnin2)
    have hspec := congrFun (runF_spec s2.qc.gates.toList σ (by
      intro g hg w hw
      rw [hlen]
      exact (hg2.gates_ok g hg).2.2.1 w hw)) p
    refine hspec.trans ?_
    rw [hs2g]
    refine replay_clean inputs.length t1.qc.marked iret t1.qc.gates.toList U σ ?_ ?_ ?_ x2 hnm p hp
    · intro g hg
      rw [hlen]
      exact hg2.gates_ok g (by rw [hs2g]; exact List.mem_append_left _ hg)
    · intro g hg c hc
      rcases (hG g hg).1 c hc with h' | h' | h'
      · exact Or.inl h'
      · exact Or.inr h'
      · exact h'.elim
    · intro g hg
      exact ⟨(hG g hg).2.1, (hG g hg).2.2⟩
  · intro hq
    unfold retNeverControl
    rw [List.all_eq_true]
    intro g hg
    rw [f1] at hg
    have hno : ∀ g' ∈ t1.qc.gates.toList, iret ∉ g'.wires.dropLast := by
      intro g' hg' hc
      rcases (hG g' hg').1 iret hc with h' | h' | h'
      · omega
      · exact hnm h'
      · exact h'.elim
    have : iret ∉ g.wires.dropLast := by
      rcases hmem3 g hg with hg | hg
      · exact hno g hg
      · obtain ⟨g', hg', _, ew, _⟩ := hUmem g hg
        rw [← ew]; exact hno g' hg'
    simp [this]
  · intro g hg
    rw [f1] at hg
    rcases hmem3 g hg with hg | hg
    · exact (hG g hg).2.1
    · obtain ⟨g', hg', _, ew, _⟩ := hUmem g hg
      have : g.target = g'.target := by unfold AGate.target; rw [ew]
      rw [this]; exact (hG g' hg').2.1

/-! ### no return name requested: the definition's ancillas are kept, `uncompute_all` replays everything -/

private theorem nop_false_of_mcxLike {c : GClass} (h : c.isMCXLike = true) : c.isNop = false := by
  cases c <;> simp_all [GClass.isMCXLike, GClass.isNop]

/-- `uncompute_all`'s loop replays (up to gate identity) every gate that is not a barrier and whose
target is neither kept nor already free -/
theorem uncomputeAllLoop_full {keep alreadyFree : List Nat} {off : Nat} :
    ∀ (gs : List AGate) {u : Unit} {s s' : CState},
    (uncomputeAllLoop keep alreadyFree off gs).run s = .ok (u, s') →
    (∀ g ∈ gs, g.cls.isNop = false ∧ keep.contains g.target = false ∧ alreadyFree.contains g.target = false) →
    ∃ extra, s'.qc.gates.toList = s.qc.gates.toList ++ extra ∧ extra.map gcore = gs.map gcore ∧
      s'.qc.qmap = s.qc.qmap ∧ s'.qc.numQubits = s.qc.numQubits
  | [], u, s, s', h, _ => by
    unfold uncomputeAllLoop at h
    obtain ⟨_, rfl⟩ := run_pure_ok.mp h
    exact ⟨[], by simp, by simp, rfl, rfl⟩
  | g :: gs, u, s, s', h, hall => by
    unfold uncomputeAllLoop at h
    dsimp only at h
    obtain ⟨qc, s1, hq, h1⟩ := run_bind_ok.mp h
    obtain ⟨rfl, rfl⟩ := getQC_run hq
    obtain ⟨g1, g2, g3⟩ := hall g List.mem_cons_self
    rcases run_ite_ok.mp h1 with ⟨hskip, _⟩ | ⟨_, h1⟩
    · rw [g1, g2, g3] at hskip; simp at hskip
    · have rest : ∀ {s2 : CState},
          StateT.run (do
            let b ← appendG g.cls g.wires (some (g.gid + off, g.gid))
            if b = true then do
              event "staleReplay"
              uncomputeAllLoop keep alreadyFree off gs
            else uncomputeAllLoop keep alreadyFree off gs : M Unit) s2 = .ok (u, s') →
          s2.qc.gates = s1.qc.gates → s2.qc.qmap = s1.qc.qmap →
          s2.qc.numQubits = s1.qc.numQubits →
          ∃ extra, s'.qc.gates.toList = s1.qc.gates.toList ++ extra ∧
            extra.map gcore = (g :: gs).map gcore ∧ s'.qc.qmap = s1.qc.qmap ∧
            s'.qc.numQubits = s1.qc.numQubits := by
        intro s2 h2 hg2 hq2 hn2
        obtain ⟨b, s3, happ, h3⟩ := run_bind_ok.mp h2
        have ha := appendG_run happ
        obtain ⟨g', hgc, hgw, hgates, _⟩ := ha.gates
        have fin : ∀ {s4 : CState}, s4.qc = s3.qc →
            (uncomputeAllLoop keep alreadyFree off gs).run s4 = .ok (u, s') →
            ∃ extra, s'.qc.gates.toList = s1.qc.gates.toList ++ extra ∧
              extra.map gcore = (g :: gs).map gcore ∧ s'.qc.qmap = s1.qc.qmap ∧
              s'.qc.numQubits = s1.qc.numQubits := by
          intro s4 hq4 h4
          obtain ⟨extra, e1, e2, e3, e4⟩ := uncomputeAllLoop_full gs h4
            (fun x hx => hall x (List.mem_cons_of_mem _ hx))
          refine ⟨g' :: extra, ?_, ?_, ?_, ?_⟩
          · rw [e1, hq4, hgates, hg2]; simp
          · have hg : gcore g' = gcore g := by unfold gcore; rw [hgc, hgw]
            rw [List.map_cons, List.map_cons, e2, hg]
          · rw [e3, hq4, ha.qmap, hq2]
          · rw [e4, hq4, ha.nq, hn2]
        rcases run_ite_ok.mp h3 with ⟨_, h3⟩ | ⟨_, h3⟩
        · obtain ⟨u1, s4, hev, h4⟩ := run_bind_ok.mp h3
          have := event_run hev; subst this
          exact fin (s4 := { s3 with events := s3.events ++ ["staleReplay"] }) rfl h4
        · exact fin rfl h3
      rcases run_ite_ok.mp h1 with ⟨_, h1⟩ | ⟨_, h1⟩
      · obtain ⟨u1, s2, hm, h2⟩ := run_bind_ok.mp h1
        have := modQC_run hm; subst this
        exact rest h2 rfl rfl rfl
      · exact rest h1 rfl rfl rfl

/-- `uncompute_all([])` from an empty free set appends (up to gate identity) the reversed gate list -/
theorem uncomputeAll_full {u : Unit} {s s' : CState}
    (h : (uncomputeAll []).run s = .ok (u, s')) (hf : s.qc.free = [])
    (hn : ∀ g ∈ s.qc.gates.toList, g.cls.isNop = false) :
    ∃ extra, s'.qc.gates.toList = s.qc.gates.toList ++ extra ∧
      extra.map gcore = s.qc.gates.toList.reverse.map gcore ∧
      s'.qc.qmap = s.qc.qmap ∧ s'.qc.numQubits = s.qc.numQubits := by
  unfold uncomputeAll at h
  obtain ⟨qc, s1, hq, h1⟩ := run_bind_ok.mp h
  obtain ⟨rfl, rfl⟩ := getQC_run hq
  obtain ⟨u1, s2, hloop, hm⟩ := run_bind_ok.mp h1
  obtain ⟨extra, e1, e2, e3, e4⟩ := uncomputeAllLoop_full _ hloop (fun g hg =>
    ⟨hn g (List.mem_reverse.mp hg), rfl, by rw [hf]; rfl⟩)
  have := modQC_run hm; subst this
  exact ⟨extra, e1, e2, e3, e4⟩

theorem mapQubit_keeps_free {name : String} {index : Nat} {promote : Bool} {u : Unit} {s s' : CState}
    (h : (mapQubit name index promote).run s = .ok (u, s')) : s'.qc.free = s.qc.free := by
  unfold mapQubit at h
  dsimp only at h
  obtain ⟨qc, s1, hq, h⟩ := run_bind_ok.mp h
  obtain ⟨rfl, rfl⟩ := getQC_run hq
  split at h
  · obtain ⟨u2, s3, hm1, hmatch⟩ := run_bind_ok.mp h
    have := modQC_run hm1; subst this
    split at hmatch
    · obtain ⟨u3, s4, hm2, hm3⟩ := run_bind_ok.mp hmatch
      have := modQC_run hm2; subst this
      have := modQC_run hm3; subst this
      rfl
    · have := modQC_run hmatch; subst this
      rfl
  · have := modQC_run h; subst this
    rfl

/-- **one definition `r = e` of the tree-like fragment, `uncompute = true`, no return name requested**: the
statement ends with `keep_ancillas` (nothing is released), the final `uncompute_all([])` replays every gate
in reverse: after every successful run of `compile`, on every input every qubit is back to its initial value -/
theorem compile_single_norets {inputs : List String} {r : String} {e : BExp}
    {unc : Bool} {cs : List Nat} {s : CState}
    (h : (compile inputs [(r, e)] (some []) unc).run { choices := cs } = .ok ((), s))
    (hunc : unc = true)
    (hnd : inputs.Nodup) (hfresh : ∀ n ∈ inputs, n ≠ r ∧ reservedName n = false)
    (hov : overInputs inputs e = true) (htl : treeLike e = true)
    (x : List Bool) (hx : x.length = inputs.length) :
    ∀ p, (runClassical s.qc.gates.toList (initState x s.qc.numQubits)).getD p false =
      (initState x s.qc.numQubits).getD p false := by
  have hgs : Good s := (compile_ok h).1
  unfold compile at h
  obtain ⟨u0, s0, hmod, h1⟩ := run_bind_ok.mp h
  have := run_modify_ok.mp hmod; subst this
  have hg0 : Good { choices := cs, inputs := inputs } := good_init cs inputs
  obtain ⟨u1, s1, hin, h2⟩ := run_bind_ok.mp h1
  obtain ⟨st1, hn1, _, hpos⟩ := addInputs_ok inputs hin hg0
  obtain ⟨ha1, hf1, hm1, hk1⟩ := addInputs_scratch inputs hin
  obtain ⟨hga1, hex1, hinp1⟩ := addInputs_quiet inputs hin
  obtain ⟨u2, s2, hdefs, h3⟩ := run_bind_ok.mp h2
  obtain ⟨st2, _⟩ := compileDefs_ok (B := (· = r)) (retBits := some []) (doUnc := unc) [(r, e)] hdefs st1.good
    (fun p hp => by simp at hp; rw [hp])
  have hg2 := st2.good
  obtain ⟨u3, s3, hrem, h4⟩ := run_bind_ok.mp h3
  obtain ⟨hrg, hrq, hrn⟩ := removeIdentities_run hrem
  have hrf := removeIdentities_free hrem
  -- ambient facts for this input
  have hn1' : s1.qc.numQubits = inputs.length := by rw [hn1]; simp
  have hnin2 : inputs.length ≤ s2.qc.numQubits := by rw [← hn1']; exact st2.nq_le
  let σ : BState := initState x s.qc.numQubits
  let σ0 : FState := toF σ
  have amb : Amb inputs σ0 r := by
    refine ⟨hfresh, fun q hq => ?_⟩
    show (initState x s.qc.numQubits).getD q false = false
    rw [initState_getD]
    have : x[q]? = none := by simp; omega
    simp [List.getD_eq_getElem?_getD, this]
  have hp1 : Pre inputs (envOf (inputs.zip x)) σ0 s1 := by
    refine ⟨st1.good, hf1, Nat.le_of_eq hn1'.symm, ⟨?_, ?_, ?_, ?_⟩, ?_, ?_⟩
    · rw [ha1]; intro a ha; cases ha
    · rw [hf1]; intro a ha; cases ha
    · rw [hm1]; intro a ha; cases ha
    · rw [hk1]; intro a ha; cases ha
    · intro i n hi
      have := hpos hnd (fun m hm => (hfresh m hm).2) i n hi
      simpa using this
    · intro i n hi
      show runF s1.qc.gates.toList σ0 i = _
      rw [hga1]
      show (initState x s.qc.numQubits).getD i false = _
      rw [initState_getD, envOf_zip hnd hi]
  -- the statement loop: nothing is released
  unfold compileDefs at hdefs
  obtain ⟨iret, t1, he, k1⟩ := run_bind_ok.mp hdefs
  obtain ⟨u40, t1', hrs, k1'⟩ := run_bind_ok.mp k1
  obtain ⟨u4, t2, hset, k2⟩ := run_bind_ok.mp k1'
  obtain ⟨u5, t3, hmap, k3⟩ := run_bind_ok.mp k2
  have hinl : ¬ (inlineUncompute (some []) unc r = true) := by
    unfold inlineUncompute
    rw [hunc]
    simp
  rw [if_neg hinl] at k3
  obtain ⟨u6, t4, hkeep, k4⟩ := run_bind_ok.mp k3
  unfold compileDefs at k4
  obtain ⟨_, rfl⟩ := run_pure_ok.mp k4
  obtain ⟨_, _, hfree1⟩ := topExpr_cl (ρ := envOf (inputs.zip x)) amb hov htl he hp1 hk1 hex1 hinp1
  have hqc1' : t1'.qc = t1.qc := by
    unfold expqRemoveSymbol at hrs
    have := run_modify_ok.mp hrs; subst this; rfl
  obtain ⟨hqc2', _⟩ := expqSet_run hset
  have hfree3 : t3.qc.free = [] := by rw [mapQubit_keeps_free hmap, hqc2', hqc1']; exact hfree1
  have hfree4 : s2.qc.free = [] := by
    unfold keepAncillas at hkeep
    have := modQC_run hkeep; subst this
    exact hfree3
  have hfree : s3.qc.free = [] := by rw [hrf]; exact hfree4
  -- the final `uncompute_all([])`
  have hmem3 : ∀ g ∈ s3.qc.gates.toList, g ∈ s2.qc.gates.toList := by
    intro g hg; rw [hrg] at hg; exact mem_removeIdentitiesList hg
  have hfin : ∃ U, s.qc.gates.toList = s3.qc.gates.toList ++ U ∧
      U.map gcore = s3.qc.gates.toList.reverse.map gcore ∧ s.qc.numQubits = s3.qc.numQubits := by
    dsimp only at h4
    rcases run_ite_ok.mp h4 with ⟨_, h4⟩ | ⟨hc, _⟩
    · obtain ⟨qc, s4, hq, h5⟩ := run_bind_ok.mp h4
      obtain ⟨rfl, rfl⟩ := getQC_run hq
      obtain ⟨U, e1, e2, _, e4⟩ := uncomputeAll_full h5 hfree
        (fun g hg => nop_false_of_mcxLike (hg2.gates_ok g (hmem3 g hg)).1)
      exact ⟨U, e1, e2, e4⟩
    · exact absurd hunc hc
  obtain ⟨U, f1, f2, f4⟩ := hfin
  have hN : s.qc.numQubits = s2.qc.numQubits := f4.trans hrn
  have hlen : σ.length = s.qc.numQubits := initState_length x _ (by rw [hN, hx]; exact hnin2)
  have hw : ∀ g ∈ s.qc.gates.toList, ∀ w ∈ g.wires, w < σ.length := by
    intro g hg w hw
    rw [hlen]; exact (hgs.gates_ok g hg).2.2.1 w hw
  have hw3 : ∀ g ∈ s3.qc.gates.toList, ∀ w ∈ g.wires, w < σ.length :=
    fun g hg => hw g (by rw [f1]; exact List.mem_append_left _ hg)
  intro p
  have h1 := congrFun (runF_spec s.qc.gates.toList σ hw) p
  have h2 := congrFun (runF_spec (s3.qc.gates.toList ++ s3.qc.gates.toList.reverse) σ (by
    intro g hg
    rcases List.mem_append.mp hg with hg | hg
    · exact hw3 g hg
    · exact hw3 g (List.mem_reverse.mp hg))) p
  rw [runClassical_reverse_undo _ (fun g hg => (hg2.gates_ok g (hmem3 g hg)).2.1)] at h2
  refine h1.trans ?_
  rw [f1, runF_append, runF_gcore f2, ← runF_append]
  exact h2.symm

end QV.Compiler
